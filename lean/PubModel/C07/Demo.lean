/-
C07/C09 — a small concrete instance of the delegated leaves, used only for
non-vacuity examples and for the concrete witnesses about the pinned tree.
-/
import PubModel.C07.Model

namespace PubModel.C07

/-- strings without escapes are unquoted by dropping the quotes; floats are kept as literals -/
def demoLeaf : Leaf Chars where
  unquote lit := some (identBytes ((lit.drop 1).dropLast))
  quote bs := '"' :: (bytesChars bs ++ ['"'])
  jsonStr bs := '"' :: (bytesChars bs ++ ['"'])
  parseFloat lit := if isJsonUNum lit then some lit else none
  jsonFloat lit := lit
  fmtFloat _ neg lit := if neg then '-' :: lit else lit

end PubModel.C07
