/-
C07 — property theorems (first layer: number / key / pinned witnesses).
-/
import PubModel.C07.Demo
import PubModel.C07.Obligations

namespace PubModel.C07

/-! ### the pinned tree violates the property: concrete witnesses -/

/-- pinned `LexNumber` stops before the `+` of `1e+06`, leaving the float token `1e` -/
theorem pinned_lexNumber_rejects_exp_plus :
    lexNumber pinnedCfg.expSigns (str "1e+06") = (⟨.float, str "1e"⟩, str "+06") := by decide

/-- hence the printer's own `1e+06` is rejected -/
theorem pinned_unmarshal_1e6_fails : unmarshal pinnedCfg demoLeaf (str "1e+06\n") = .err "jsonx.floatLit" := by decide

/-- pinned `parseValue` leaves the value of a float under a sign nil: `-1.5` re-encodes as `-null` -/
theorem pinned_unmarshal_neg_float : unmarshal pinnedCfg demoLeaf (str "-1.5\n") = .ok (str "-null") := by decide

/-- the repaired configuration reads both -/
theorem fixed_unmarshal_1e6 : unmarshal fixedCfg demoLeaf (str "1e+06\n") = .ok (str "1e+06") := by decide
theorem fixed_unmarshal_neg_float : unmarshal fixedCfg demoLeaf (str "-1.5\n") = .ok (str "-1.5") := by decide

end PubModel.C07
