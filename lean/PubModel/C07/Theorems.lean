/-
C07 — property theorems.  Statement file; helper lemmas are in LemmasLex,
LemmasParse, LemmasEncode, PrintSurface.

Property: for every value the standard JSON encoder can encode, the JSONx text
produced by Marshal is accepted by Unmarshal and decodes to a JSON-equal value.

Shape of the argument.  (1) Character level: `LexNumber` reads every RFC 8259
number literal as one token (`number_literal_accepted`), the printer's bare keys
are exactly the lexer's identifiers that are not keywords
(`ident_key_iff_isIdent`, `keyword_keys_quoted`).  (2) Token level: for *every*
surface tree `r` (every spelling of numbers, strings, keys, commas) whose leaves
the delegated functions accept, the parser consumes exactly `r.toks`, reports
nothing, and the encoder emits the canonical JSON of the meaning of `r`
(`parse_render`).  (3) The printer is one surface, and the meaning of what it
writes is the standard reading of the value (`marshal_unmarshal_partial`).

The hypotheses on the code (`CfgOK`) are discharged for the working tree by the
regenerated obligation `gen_cfg_ok`; for the pinned tree they are false and the
concrete witnesses below are theorems.
-/
import PubModel.C07.PrintSurface
import PubModel.C07.LemmasRender4
import PubModel.C07.Demo

namespace PubModel.C07

/-! ### (1) character level -/

/-- **LexNumber accepts every literal the printer can emit**: any unsigned RFC 8259
    number literal (integer, fraction, `e`/`E`, `e+`/`e-`) followed by something
    that cannot extend it is read as exactly one token, an integer token iff the
    literal has neither fraction nor exponent.  (The sign is a separate operator
    token handled by `parseValue`, see `parse_render`.) -/
theorem number_literal_accepted (cfg : Cfg) (hcfg : CfgOK cfg) (lit rest : Chars)
    (hl : isJsonUNum lit = true) (hf : NumFollow rest) :
    lexNumber cfg.expSigns (lit ++ rest) = (⟨if isIntLit lit = true then .int else .float, lit⟩, rest) :=
  lexNumber_json cfg.expSigns hcfg.expPlus hcfg.expMinus lit rest hl hf

example : isJsonUNum (str "1e+06") = true ∧ isJsonUNum (str "1.5E-7") = true ∧ isJsonUNum (str "0") = true ∧
    isJsonUNum (str "18446744073709551615") = true ∧ NumFollow (str ",\n") := by
  refine ⟨by decide, by decide, by decide, by decide, ⟨?_, by decide, by decide, by decide⟩⟩
  intro c h; simp [str] at h; subst h; decide

example : lexNumber fixedCfg.expSigns (str "1e+06,\n") = (⟨.float, str "1e+06"⟩, str ",\n") := by decide

/-- the pinned `LexNumber` stops before the `+` of `1e+06`, leaving the float token `1e` -/
theorem pinned_lexNumber_rejects_exp_plus :
    lexNumber pinnedCfg.expSigns (str "1e+06") = (⟨.float, str "1e"⟩, str "+06") := by decide

/-- **Bare keys are exactly identifiers**: `isIdent` (print.go) holds for a key iff its
    characters are an identifier letter followed by identifier characters — what
    `LexIdent` reads as one token (`lexIdent_accepts`) — and it is not a keyword. -/
theorem ident_key_iff_isIdent (kws : List Chars) (k : Bytes) :
    isIdent kws k = true ↔
      (∃ c r, bytesChars k = c :: r ∧ isIdentLetter c = true ∧ r.all isIdentChar = true) ∧ bytesChars k ∉ kws :=
  isIdent_iff kws k

/-- **Keyword keys are quoted**: a key spelled like a keyword is never printed bare. -/
theorem keyword_keys_quoted (kws : List Chars) (k : Bytes) (h : bytesChars k ∈ kws) : isIdent kws k = false :=
  isIdent_keyword kws k h

example : isIdent fixedCfg.keywords (identBytes (str "Field_9")) = true ∧
    isIdent fixedCfg.keywords (identBytes (str "true")) = false ∧
    isIdent fixedCfg.keywords (identBytes (str "9a")) = false ∧
    isIdent fixedCfg.keywords (identBytes (str "a b")) = false := by decide

/-! ### (2) token level -/

section
variable {φ : Type} (cfg : Cfg) (hcfg : CfgOK cfg) (L : Leaf φ)
include hcfg

/-- **parse_render**: parsing the rendering of a value under *any* surface choice
    yields the canonical JSON of its meaning.  `r` ranges over all surface trees:
    any sign / decimal, hex or octal integer literal / float literal / string
    literal the leaves accept, bare or quoted keys, trailing commas, dotted
    identifier lists; `rest` is whatever follows (ToJSON does not look at it). -/
theorem parse_render (r : RV) (j : JV (Num φ)) (hv : r.val L = some j) (hw : r.WF)
    (rest : List Tok) (hf : FollowOK rest) :
    toJSONToks cfg L (plain (r.toks ++ rest)) = .ok (emit L j) := by
  have hs : (r.val L).isSome = true := by simp [hv]
  have hn : r.size ≤ (plain (r.toks ++ rest)).length + 2 := by
    have := RV.size_le r; simp [plain]; omega
  have hp := parseValue_render cfg hcfg L r hs hw rest hf _ hn
  have he := encodeValue_ast cfg hcfg L r j hv
  simp [toJSONToks, init_plain, hp, he]

/-- what may follow the value in a document read by Unmarshal: nothing, end of
    file, or one separator (the final newline / `;`) and end of file -/
inductive Trailer : List Tok → Prop
  | none : Trailer []
  | eof : Trailer [eofTok]
  | semi (l : Chars) : Trailer [⟨.semi, l⟩]
  | semiEof (l : Chars) : Trailer [⟨.semi, l⟩, eofTok]

/-- the same for the whole-document entry point `Unmarshal` -/
theorem unmarshal_render (r : RV) (j : JV (Num φ)) (hv : r.val L = some j) (hw : r.WF)
    (tr : List Tok) (ht : Trailer tr) :
    unmarshalToks cfg L (plain (r.toks ++ tr)) = .ok (emit L j) := by
  have hs : (r.val L).isSome = true := by simp [hv]
  have hn : r.size ≤ (plain (r.toks ++ tr)).length + 2 := by
    have := RV.size_le r; simp [plain]; omega
  have hf : FollowOK tr := by cases ht <;> simp [FollowOK, tokOp, eofTok]
  have hp := parseValue_render cfg hcfg L r hs hw tr hf _ hn
  have he := encodeValue_ast cfg hcfg L r j hv
  cases ht <;>
    (simp only [unmarshalToks, decodeToks, init_plain, hp]
     simp [he, PS.see, eofTok])

/-! ### (3) the printer is one surface -/

/-- **marshal_unmarshal, token level** (kept as a corollary name; see `marshal_unmarshal`
    below for the statement on the printed characters).  For every value `v` whose number
    leaves are RFC 8259 literals, `Unmarshal` applied to the token stream of `Marshal(v)`
    succeeds and hands to `encoding/json` the canonical JSON text of `j`, where `j` is the
    standard reading of `v` (keys in `sort.Strings` order): integers exactly,
    fractions/exponents as the float64 `strconv.ParseFloat` reads, strings and keys unchanged. -/
theorem marshal_unmarshal_partial (hL : RoundTripLeaf L) (v : JV Chars) (hn : NumsOK (JV.canon v)) :
    ∃ j, readJ L (JV.canon v) = some j ∧
      unmarshalToks cfg L (plain (printToks cfg.keywords L v)) = .ok (emit L j) := by
  have hsome := readJ_isSome L hL (JV.canon v) hn
  cases hj : readJ L (JV.canon v) with
  | none => simp [hj] at hsome
  | some j =>
    refine ⟨j, rfl, ?_⟩
    have hval : (printRV cfg.keywords L (JV.canon v)).val L = some j := by
      rw [printRV_val cfg.keywords L hL _ hn, hj]
    exact unmarshal_render cfg hcfg L _ j hval (printRV_WF cfg.keywords L _) _ (.semiEof _)

/-- **lex_render** (the printer's surface): lexing, semicolon insertion, keywording and
    comment removal of the text `Marshal` writes give exactly `printToks` — maximal munch
    over the printer's layout (four-space indentation, `": "`, `",\n"`, the final newline),
    numbers by `number_literal_accepted`, bare keys by `lexIdent_accepts`, strings and quoted
    keys by `lexString_quote` from the shape contract of `strconv.Quote` (`isQuoteShape`:
    `"`, then runes other than `"`, `\`, newline or the escapes `\a \b \f \n \r \t \v \\ \"
    \xHH \uHHHH \UHHHHHHHH` with a valid code point, then `"`; every other rune — U+FEFF,
    U+2028, DEL, … — may stand for itself). -/
theorem lex_render (hq : ∀ s, isQuoteShape (L.quote s) = true) (v : JV Chars) (hn : NumsOK (JV.canon v)) :
    tokens cfg (marshal cfg L v) = plain (printToks cfg.keywords L v) :=
  tokens_marshal cfg hcfg L hq v hn

/-- **marshal_unmarshal**: for every value `v` whose number leaves are RFC 8259 literals
    (what `json.Marshal` wrote), `Unmarshal(Marshal(v))` succeeds and hands to
    `encoding/json` the canonical JSON text of the standard reading `j` of `v`: integers
    exactly (64-bit and beyond), fractions/exponents as the float64 `strconv.ParseFloat`
    reads, strings and keys unchanged, keys in `sort.Strings` order, every nesting.
    Contracts of the delegated leaves: `RoundTripLeaf` (Unquote∘Quote = id, ParseFloat
    accepts RFC numbers) and the shape of `strconv.Quote` output. -/
theorem marshal_unmarshal (hL : RoundTripLeaf L) (hq : ∀ s, isQuoteShape (L.quote s) = true)
    (v : JV Chars) (hn : NumsOK (JV.canon v)) :
    ∃ j, readJ L (JV.canon v) = some j ∧ unmarshal cfg L (marshal cfg L v) = .ok (emit L j) := by
  obtain ⟨j, h1, h2⟩ := marshal_unmarshal_partial cfg hcfg L hL v hn
  exact ⟨j, h1, by rw [unmarshal, tokens_marshal cfg hcfg L hq v hn]; exact h2⟩

end

/-! ### non-vacuity and concrete instances -/

theorem demoLeaf_roundTrip : RoundTripLeaf demoLeaf where
  unquote_quote s := by
    show some (identBytes (((['"'] ++ (bytesChars s ++ ['"'])).drop 1).dropLast)) = some s
    simp [isIdent_bytes]
  parseFloat_json lit h := by simp [demoLeaf, h]

theorem fixedCfg_ok : CfgOK fixedCfg := by decide

/-! a leaf instance that satisfies every contract of the round trip at once: every byte is
    quoted as `\xHH` -/

def hexQuoteBody : Bytes → Chars
  | [] => ['"']
  | b :: r => '\\' :: 'x' :: Hex.digit (b.toNat / 16) :: Hex.digit (b.toNat % 16) :: hexQuoteBody r

def hexUnquoteBody : Chars → Option Bytes
  | [] => none
  | c :: r =>
    if c = '"' then (if r = [] then some [] else none)
    else
      match r with
      | _ :: a :: b :: r' => (hexUnquoteBody r').map fun bs => UInt8.ofNat (digitVal a * 16 + digitVal b) :: bs
      | _ => none

def hexLeaf : Leaf Chars where
  unquote lit := hexUnquoteBody (lit.drop 1)
  quote bs := '"' :: hexQuoteBody bs
  jsonStr bs := '"' :: (bytesChars bs ++ ['"'])
  parseFloat lit := if isJsonUNum lit then some lit else none
  jsonFloat lit := lit
  fmtFloat _ neg lit := if neg then '-' :: lit else lit

theorem hexDigit_ok : ∀ n, n < 16 → digitVal (Hex.digit n) = n ∧ isHexDigit (Hex.digit n) = true ∧
    Hex.digit n ≠ '"' := by decide

theorem hexLeaf_roundTrip : RoundTripLeaf hexLeaf where
  unquote_quote s := by
    show hexUnquoteBody (hexQuoteBody s) = some s
    induction s with
    | nil => simp [hexQuoteBody, hexUnquoteBody]
    | cons b r ih =>
      have hb : b.toNat < 256 := b.toNat_lt
      have h1 := (hexDigit_ok (b.toNat / 16) (by omega)).1
      have h2 := (hexDigit_ok (b.toNat % 16) (by omega)).1
      have hne : ¬ ('\\' = '"') := by decide
      have hbyte : UInt8.ofNat (b.toNat / 16 * 16 + b.toNat % 16) = b := by
        rw [Nat.div_add_mod']; simp
      simp [hexQuoteBody, hexUnquoteBody, hne, ih, h1, h2, hbyte]
  parseFloat_json lit h := by simp [hexLeaf, h]

theorem hexLeaf_quoteShape : ∀ s, isQuoteShape (hexLeaf.quote s) = true := by
  intro s
  show isQuoteShape ('"' :: hexQuoteBody s) = true
  simp only [isQuoteShape, decide_true, Bool.true_and, decide_eq_true_eq]
  induction s with
  | nil => simp [hexQuoteBody, scanQuoteBody]
  | cons b r ih =>
    have hb : b.toNat < 256 := b.toNat_lt
    have h1 := (hexDigit_ok (b.toNat / 16) (by omega)).2.1
    have h2 := (hexDigit_ok (b.toNat % 16) (by omega)).2.1
    have hx : ¬ ('x' ∈ simpleEscapes) := by decide
    have hne : ¬ ('\\' = '"') ∧ ¬ ('\\' = '\n') := by decide
    unfold scanQuoteBody hexQuoteBody
    simp [hne.1, hne.2, hx, h1, h2, ih]



/-- a surface tree using every extension at once: `{a: -0x10, "b": [+1.5e+3, 007,], c: x.y}` -/
def demoTree : RV :=
  .obj (.cons (.bare (str "a")) (.int (some '-') (str "0x10"))
    (.cons (.quoted (str "\"b\"")) (.arr (.cons (.flt (some '+') (str "1.5e+3")) (.cons (.int none (str "007")) .nil)))
      (.single (.bare (str "c")) (.idents (str "x") [str "y"]))))

example : demoTree.WF ∧ (demoTree.val demoLeaf).isSome = true := by
  refine ⟨?_, by decide⟩
  simp [demoTree, RV.WF, RO.WF, RL.WF, leadOK]

example : toJSONToks fixedCfg demoLeaf (plain (demoTree.toks ++ [eofTok])) =
    .ok (str "{\"a\":-16,\"b\":[1.5e+3,7],\"c\":[\"x\",\"y\"]}") := by decide

/-- `{"id": 9223372036854775807, "ok": [true, -1.5, 1e+06], "null": "x"}` -/
def demoValue : JV Chars :=
  .obj (.cons (identBytes (str "ok")) (.arr (.cons (.bool true) (.cons (.num true (str "1.5")) (.cons (.num false (str "1e+06")) .nil))))
    (.cons (identBytes (str "id")) (.num false (str "9223372036854775807"))
      (.cons (identBytes (str "null")) (.str (identBytes (str "x"))) .nil)))

theorem demoValue_numsOK : NumsOK (JV.canon demoValue) := by
  have h : JV.canon demoValue =
      .obj (.cons (identBytes (str "id")) (.num false (str "9223372036854775807"))
        (.cons (identBytes (str "null")) (.str (identBytes (str "x")))
          (.cons (identBytes (str "ok"))
            (.arr (.cons (.bool true) (.cons (.num true (str "1.5")) (.cons (.num false (str "1e+06")) .nil)))) .nil))) := by
    rfl
  rw [h]
  simp only [NumsOK, NumsOKO, NumsOKL, and_true, true_and]
  decide

set_option maxRecDepth 8000 in
example : unmarshal fixedCfg demoLeaf (marshal fixedCfg demoLeaf demoValue) =
    .ok (str "{\"id\":9223372036854775807,\"null\":\"x\",\"ok\":[true,-1.5,1e+06]}") := by decide

-- on this value the character-level step holds by computation
set_option maxRecDepth 8000 in
example : tokens fixedCfg (marshal fixedCfg demoLeaf demoValue) =
    plain (printToks fixedCfg.keywords demoLeaf demoValue) := by decide

/-- the hypotheses of `marshal_unmarshal` are jointly satisfiable, and the theorem applies
    to a value with a key that needs quoting, a negative fraction, an exponent and a
    64-bit integer -/
example : ∃ j, readJ hexLeaf (JV.canon demoValue) = some j ∧
    unmarshal fixedCfg hexLeaf (marshal fixedCfg hexLeaf demoValue) = .ok (emit hexLeaf j) :=
  marshal_unmarshal fixedCfg fixedCfg_ok hexLeaf hexLeaf_roundTrip hexLeaf_quoteShape demoValue demoValue_numsOK

/-! ### the pinned tree violates the property: concrete witnesses -/

/-- hence the printer's own `1e+06` is rejected -/
theorem pinned_unmarshal_1e6_fails : unmarshal pinnedCfg demoLeaf (str "1e+06\n") = .err "jsonx.floatLit" := by decide

/-- pinned `parseValue` leaves the value of a float under a sign nil: `-1.5` re-encodes as `-null` -/
theorem pinned_unmarshal_neg_float : unmarshal pinnedCfg demoLeaf (str "-1.5\n") = .ok (str "-null") := by decide

/-- the repaired configuration reads both -/
theorem fixed_unmarshal_1e6 : unmarshal fixedCfg demoLeaf (str "1e+06\n") = .ok (str "1e+06") := by decide
theorem fixed_unmarshal_neg_float : unmarshal fixedCfg demoLeaf (str "-1.5\n") = .ok (str "-1.5") := by decide

end PubModel.C07
