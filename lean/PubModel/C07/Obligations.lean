/-
C07/C09 — obligations that connect the facts regenerated from /repo
(`Gen.JsonxVal`) to the hypotheses of the theorems.  All closed by `decide`.
-/
import PubModel.C07.Glue

namespace PubModel.C07
open PubModel.Gen

/-- the hypotheses on the configuration under which the C07/C09 theorems are proved -/
structure CfgOK (cfg : Cfg) : Prop where
  expPlus : '+' ∈ cfg.expSigns
  expMinus : '-' ∈ cfg.expSigns
  expOnly : ∀ c ∈ cfg.expSigns, c = '+' ∨ c = '-'
  signedFloat : cfg.signedFloat = true
  useNumber : cfg.useNumber = true
  intConv : cfg.intConv = true
  keywords : cfg.keywords = [kwTrue, kwFalse, kwNull]
  operators : ∀ c ∈ ['{', '}', '[', ']', ',', ':', '+', '-', '.'], c ∈ cfg.operators
  opsPlain : ∀ c ∈ cfg.operators,
    c ≠ '\n' ∧ c ≠ '"' ∧ c ≠ '`' ∧ isDigit c = false ∧ isIdentLetter c = false ∧ isWhite c = false ∧ c ≠ '/' ∧ c ≠ ';'

instance (cfg : Cfg) : Decidable (CfgOK cfg) :=
  if h : ('+' ∈ cfg.expSigns) ∧ ('-' ∈ cfg.expSigns) ∧ (∀ c ∈ cfg.expSigns, c = '+' ∨ c = '-') ∧
      cfg.signedFloat = true ∧ cfg.useNumber = true ∧ cfg.intConv = true ∧
      cfg.keywords = [kwTrue, kwFalse, kwNull] ∧
      (∀ c ∈ ['{', '}', '[', ']', ',', ':', '+', '-', '.'], c ∈ cfg.operators) ∧
      (∀ c ∈ cfg.operators,
        c ≠ '\n' ∧ c ≠ '"' ∧ c ≠ '`' ∧ isDigit c = false ∧ isIdentLetter c = false ∧ isWhite c = false ∧ c ≠ '/' ∧ c ≠ ';')
  then isTrue ⟨h.1, h.2.1, h.2.2.1, h.2.2.2.1, h.2.2.2.2.1, h.2.2.2.2.2.1, h.2.2.2.2.2.2.1, h.2.2.2.2.2.2.2.1, h.2.2.2.2.2.2.2.2⟩
  else isFalse fun ok => h ⟨ok.expPlus, ok.expMinus, ok.expOnly, ok.signedFloat, ok.useNumber, ok.intConv, ok.keywords,
    ok.operators, ok.opsPlain⟩

/-- LexNumber accepts `+` and `-` (and nothing else but a digit) right after `e`/`E` -/
theorem gen_exp_signs : '+' ∈ JsonxVal.expSigns ∧ '-' ∈ JsonxVal.expSigns ∧
    ∀ c ∈ JsonxVal.expSigns, c = '+' ∨ c = '-' := by decide

/-- parseValue parses the float under a leading sign -/
theorem gen_signed_float : JsonxVal.signedFloat = true := by decide

/-- Fprint decodes with UseNumber and prints the literal -/
theorem gen_use_number : JsonxVal.useNumber = true := by decide

/-- encodeBasic converts integer literals (Go-style integers become decimal) -/
theorem gen_int_conv : JsonxVal.intConv = true := by decide

/-- the keywords are exactly the three parseValue understands (and the printer quotes) -/
theorem gen_keywords : JsonxVal.keywords = ["true", "false", "null"] := by decide

/-- lexOperator still has its comment and semicolon arms -/
theorem gen_operator_arms : JsonxVal.commentArm = true ∧ JsonxVal.semiArm = true := by decide

/-- the parser's nesting limit (`maxNestingDepth`, reported as `jsonx.tooDeep`), when there
    is one, lies above every nesting the harness generates (400) — the model has no depth
    counter, so the theorems and the correspondence speak about documents nested less
    deeply than the limit -/
def modelDepthRange : Nat := 1000
theorem gen_depth_limit :
    (JsonxVal.maxNestingDepth.map fun d => decide (modelDepthRange ≤ d)).getD true = true := by decide

/-- the nesting counter counts the *current* nesting: `p.depth++` happens only in
    `enterNested`, and every arm of `parseValue` that enters a level leaves it again
    (`p.depth--`) exactly once.  With a missing decrement the counter would count every
    container ever opened and a wide, shallow document would hit the limit — behaviour
    the model (which has no counter) does not have. -/
theorem gen_depth_balanced : JsonxVal.depthBalanced = true := by decide

/-- `parseObjectEntries` admits exactly identifier and string tokens as keys, as the model's
    `parseEntries` does — in particular not keyword tokens, for which the encoder has no key
    text (`{true: 1}` must be rejected, not converted) -/
theorem gen_key_tokens : JsonxVal.keyTokenTypes = ["tokIdent", "tokString"] := by decide

/-- all hypotheses at once, for the theorems -/
theorem gen_cfg_ok : CfgOK genCfg := by decide

end PubModel.C07
