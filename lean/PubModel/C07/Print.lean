/-
C07 — JSONx model, part 4: the printer (jsonx/print.go Fprint/Marshal over
fmtutil.Printer).  Input: the value `encoding/json` decoded from
`json.Marshal(v)` (numbers as their JSON literals).
-/
import PubModel.C07.Parse

namespace PubModel.C07

/-- the loop of print.go isIdent over the runes of a Go string -/
def isIdentTail : Bytes → Bool → Bool
  | [], _ => true
  | b :: r, first =>
    let c := Char.ofNat b.toNat
    (c = '_' || isLower c || isUpper c || (isDigit c && !first)) && isIdentTail r false

/-- print.go isIdent -/
def isIdent (kws : List Chars) (s : Bytes) : Bool :=
  if s = [] then false
  else if (s.map (fun b => Char.ofNat b.toNat)) ∈ kws then false
  else isIdentTail s true

def bytesChars (s : Bytes) : Chars := s.map (fun b => Char.ofNat b.toNat)

/-- byte-wise lexicographic order of Go strings (sort.Strings) -/
def bytesLt : Bytes → Bytes → Bool
  | [], [] => false
  | [], _ :: _ => true
  | _ :: _, [] => false
  | a :: x, b :: y => a.toNat < b.toNat || (a = b && bytesLt x y)

variable {ν : Type}

def JO.insert (k : Bytes) (v : JV ν) : JO ν → JO ν
  | .nil => .cons k v .nil
  | .cons k' v' t => if bytesLt k k' then .cons k v (.cons k' v' t) else .cons k' v' (JO.insert k v t)

/-- sort.Strings(keys) -/
def JO.sort : JO ν → JO ν
  | .nil => .nil
  | .cons k v t => JO.insert k v (JO.sort t)

mutual
/-- every object with its keys in `sort.Strings` order -/
def JV.canon : JV ν → JV ν
  | .arr xs => .arr (JL.canon xs)
  | .obj kvs => .obj (JO.sort (JO.canon kvs))
  | v => v
def JL.canon : JL ν → JL ν
  | .nil => .nil
  | .cons v t => .cons (JV.canon v) (JL.canon t)
def JO.canon : JO ν → JO ν
  | .nil => .nil
  | .cons k v t => .cons k (JV.canon v) (JO.canon t)
end

def JO.allIdent (kws : List Chars) : JO ν → Bool
  | .nil => true
  | .cons k _ t => isIdent kws k && JO.allIdent kws t

def JO.isEmpty : JO ν → Bool
  | .nil => true
  | _ => false

def JL.isEmpty : JL ν → Bool
  | .nil => true
  | _ => false

/-- fmtutil.Printer indentation: four spaces per level at the start of a line -/
def indent (n : Nat) : Chars := List.replicate (4 * n) ' '

section
variable {φ : Type} (cfg : Cfg) (L : Leaf φ)

/-- printer.write for a number -/
def printNum (neg : Bool) (lit : Chars) : Chars :=
  if cfg.useNumber then (if neg then '-' :: lit else lit)
  else L.fmtFloat cfg.fmtByte neg lit

mutual
/-- printer.write at indentation level `ind` -/
def printVal : Nat → JV Chars → Chars
  | _, .null => str "null"
  | _, .bool b => if b then str "true" else str "false"
  | _, .num neg lit => printNum cfg L neg lit
  | _, .str s => L.quote s
  | ind, .arr xs =>
    if xs.isEmpty then str "[]"
    else str "[\n" ++ printItems (ind + 1) xs ++ indent ind ++ [']']
  | ind, .obj kvs =>
    if kvs.isEmpty then str "{}"
    else str "{\n" ++ printEntries (ind + 1) (JO.allIdent cfg.keywords kvs) kvs ++ indent ind ++ ['}']
def printItems : Nat → JL Chars → Chars
  | _, .nil => []
  | ind, .cons v t => indent ind ++ printVal ind v ++ str ",\n" ++ printItems ind t
def printEntries : Nat → Bool → JO Chars → Chars
  | _, _, .nil => []
  | ind, bare, .cons k v t =>
    indent ind ++ (if bare then bytesChars k else L.quote k) ++ str ": " ++ printVal ind v ++ str ",\n" ++
      printEntries ind bare t
end

/-- jsonx.Fprint / Marshal after the `json.Marshal` + decode prefix; keys are
    printed in `sort.Strings` order -/
def marshal (v : JV Chars) : Chars := printVal cfg L 0 (JV.canon v) ++ ['\n']

end

end PubModel.C07
