/-
C07 — the printer of print.go as one surface: which surface tree `Marshal`
writes for a value, and the standard reading of a value.
-/
import PubModel.C07.LemmasEncode
import PubModel.C07.LemmasLex

namespace PubModel.C07

section
variable {φ : Type} (kws : List Chars) (L : Leaf φ)

def printLead (neg : Bool) : Option Char := if neg then some '-' else none

mutual
/-- the surface tree jsonx.Marshal writes: numbers as their literals under an
    optional `-`, strings and non-identifier keys through `strconv.Quote`, bare
    keys when every key of the object is an identifier, a comma after every entry -/
def printRV : JV Chars → RV
  | .null => .null
  | .bool b => if b then .tru else .fls
  | .num neg lit => if isIntLit lit then .int (printLead neg) lit else .flt (printLead neg) lit
  | .str s => .str (L.quote s)
  | .arr xs => .arr (printRL xs)
  | .obj kvs => .obj (printRO (JO.allIdent kws kvs) kvs)
def printRL : JL Chars → RL
  | .nil => .nil
  | .cons v t => .cons (printRV v) (printRL t)
def printRO : Bool → JO Chars → RO
  | _, .nil => .nil
  | bare, .cons k v t =>
    .cons (if bare then .bare (bytesChars k) else .quoted (L.quote k)) (printRV v) (printRO bare t)
end

/-- the parser's token stream of the printed text: the tree, the separator the
    final newline becomes, end of file -/
def printToks (v : JV Chars) : List Tok := (printRV kws L (JV.canon v)).toks ++ [⟨.semi, ['\n']⟩, eofTok]

mutual
/-- what a standard JSON parser reads: integers exactly, other numbers as
    float64 (`parseFloat`), strings and keys as they are -/
def readJ : JV Chars → Option (JV (Num φ))
  | .null => some .null
  | .bool b => some (.bool b)
  | .num neg lit =>
    if isIntLit lit then some (.num neg (.int (decVal lit)))
    else (L.parseFloat lit).map fun f => .num neg (.flt f)
  | .str s => some (.str s)
  | .arr xs => (readJL xs).map .arr
  | .obj kvs => (readJO kvs).map .obj
def readJL : JL Chars → Option (JL (Num φ))
  | .nil => some .nil
  | .cons v t =>
    match readJ v, readJL t with
    | some j, some js => some (.cons j js)
    | _, _ => none
def readJO : JO Chars → Option (JO (Num φ))
  | .nil => some .nil
  | .cons k v t =>
    match readJ v, readJO t with
    | some j, some js => some (.cons k j js)
    | _, _ => none
end

mutual
/-- every number leaf is an unsigned RFC 8259 literal (what json.Marshal wrote, sign apart) -/
def NumsOK : JV Chars → Prop
  | .num _ lit => isJsonUNum lit = true
  | .arr xs => NumsOKL xs
  | .obj kvs => NumsOKO kvs
  | _ => True
def NumsOKL : JL Chars → Prop
  | .nil => True
  | .cons v t => NumsOK v ∧ NumsOKL t
def NumsOKO : JO Chars → Prop
  | .nil => True
  | .cons _ v t => NumsOK v ∧ NumsOKO t
end

end

theorem scanDigit_digit (c : Char) (h : isDigit c = true) :
    c ≠ '_' ∧ scanDigit c = digitVal c ∧ scanDigit c < 10 := by
  refine ⟨?_, ?_, ?_⟩
  · intro hc; subst hc; revert h; decide
  · simp [scanDigit, digitVal, h]
  · have h' := h
    simp only [isDigit, Bool.and_eq_true, decide_eq_true_eq] at h'
    simp [scanDigit, h]; omega

/-- on a string of decimal digits the digit loop of `nat.scan` computes the decimal value -/
theorem scanDigits_digits : ∀ (l : Chars) (v n : Nat) (p : Char) (i : Bool), l.all isDigit = true →
    scanDigits 10 l v n p i =
      (l.foldl (fun v c => v * 10 + digitVal c) v, n + l.length, (if l = [] then p else '0'), i, [])
  | [], v, n, p, i, _ => by simp [scanDigits]
  | c :: r, v, n, p, i, h => by
    have hc : isDigit c = true := by simp at h; exact h.1
    have hr : r.all isDigit = true := by simp at h ⊢; exact h.2
    obtain ⟨h1, h2, h3⟩ := scanDigit_digit c hc
    have hlt : ¬ scanDigit c ≥ 10 := by omega
    rw [scanDigits, if_neg h1, if_neg hlt, scanDigits_digits r _ _ _ _ hr, h2]
    by_cases hre : r = [] <;> simp [hre] <;> omega

/-- an RFC 8259 integer literal is read by `big.Int.SetString(lit, 0)` as its decimal
    value: no leading zero, so never octal, and no prefix letter or separator -/
theorem goInt_json (lit : Chars) (h1 : isJsonUNum lit = true) (h2 : isIntLit lit = true) :
    goInt lit = some (decVal lit) := by
  replace h1 : scanUNumber lit = some [] := by simpa [isJsonUNum] using h1
  cases lit with
  | nil => simp [isIntLit] at h2
  | cons c r =>
    have hall : (c :: r).all isDigit = true := by simpa [isIntLit] using h2
    have hnot0 : ¬ (c = '0' ∧ r ≠ []) := by
      rintro ⟨hc, hr⟩
      subst hc
      cases r with
      | nil => exact hr rfl
      | cons d r' =>
        have hd : isDigit d = true := by simp at hall; exact hall.2.1
        have hdot : d ≠ '.' := by intro h; subst h; revert hd; decide
        have he : ¬ (d = 'e' ∨ d = 'E') := by
          rintro (h | h) <;> (subst h; revert hd; decide)
        simp [scanUNumber, scanInt, scanFrac, hdot, scanExp, he] at h1
    have hs := scanDigits_digits (c :: r) 0 0 '.' false hall
    simp only [goInt, if_neg hnot0, hs]
    simp [scanFinish, decVal]

section
variable {φ : Type} (kws : List Chars) (L : Leaf φ)

/-- contracts of the delegated leaves used by the round trip -/
structure RoundTripLeaf : Prop where
  /-- `strconv.Unquote(strconv.Quote(s)) = s` -/
  unquote_quote : ∀ s, L.unquote (L.quote s) = some s
  /-- `strconv.ParseFloat` accepts every RFC 8259 number literal -/
  parseFloat_json : ∀ lit, isJsonUNum lit = true → (L.parseFloat lit).isSome = true

theorem leadOK_printLead (neg : Bool) : leadOK (printLead neg) := by
  cases neg <;> simp [printLead, leadOK]

theorem isNeg_printLead (neg : Bool) : isNeg (printLead neg) = neg := by
  cases neg <;> simp [printLead, isNeg]

theorem isIdent_bytes (k : Bytes) : identBytes (bytesChars k) = k := by
  induction k with
  | nil => rfl
  | cons b r ih =>
    simp only [bytesChars, identBytes, List.map_cons, List.map_map] at ih ⊢
    have : UInt8.ofNat (Char.ofNat b.toNat).toNat = b := by
      have hb : b.toNat < 256 := b.toNat_lt
      have : (Char.ofNat b.toNat).toNat = b.toNat := by
        have hv : b.toNat.isValidChar := Or.inl (by omega)
        simp [Char.ofNat, hv, Char.ofNatAux, Char.toNat]
      rw [this]; simp
    rw [this, ih]

variable (hL : RoundTripLeaf L)
include hL

mutual
/-- the meaning of what the printer writes is the standard reading of the value -/
theorem printRV_val : ∀ (v : JV Chars), NumsOK v → (printRV kws L v).val L = readJ L v
  | .null, _ => by simp [printRV, RV.val, readJ]
  | .bool b, _ => by cases b <;> simp [printRV, RV.val, readJ]
  | .num neg lit, h => by
    by_cases hi : isIntLit lit = true
    · simp [printRV, hi, RV.val, readJ, goInt_json lit h hi, isNeg_printLead]
    · simp [printRV, hi, RV.val, readJ, isNeg_printLead]
  | .str s, _ => by simp [printRV, RV.val, readJ, hL.unquote_quote]
  | .arr xs, h => by simp [printRV, RV.val, readJ, printRL_val xs h]
  | .obj kvs, h => by simp [printRV, RV.val, readJ, printRO_val _ kvs h]
theorem printRL_val : ∀ (xs : JL Chars), NumsOKL xs → (printRL kws L xs).val L = readJL L xs
  | .nil, _ => by simp [printRL, RL.val, readJL]
  | .cons v t, h => by
    have h1 := printRV_val v h.1
    have h2 := printRL_val t h.2
    simp only [printRL, RL.val, readJL, h1, h2]
    cases readJ L v <;> cases readJL L t <;> rfl
theorem printRO_val : ∀ (bare : Bool) (kvs : JO Chars), NumsOKO kvs → (printRO kws L bare kvs).val L = readJO L kvs
  | _, .nil, _ => by simp [printRO, RO.val, readJO]
  | bare, .cons k v t, h => by
    have hk : keyVal L (if bare then RKey.bare (bytesChars k) else RKey.quoted (L.quote k)) = some k := by
      cases bare <;> simp [keyVal, hL.unquote_quote, isIdent_bytes]
    have h1 := printRV_val v h.1
    have h2 := printRO_val bare t h.2
    simp only [printRO, RO.val, readJO, hk, h1, h2]
    cases readJ L v <;> cases readJO L t <;> rfl
end

mutual
theorem readJ_isSome : ∀ (v : JV Chars), NumsOK v → (readJ L v).isSome = true
  | .null, _ => by simp [readJ]
  | .bool _, _ => by simp [readJ]
  | .num neg lit, h => by
    by_cases hi : isIntLit lit = true
    · simp [readJ, hi]
    · have := hL.parseFloat_json lit h
      cases hp : L.parseFloat lit <;> simp [readJ, hi, hp] at this ⊢
  | .str _, _ => by simp [readJ]
  | .arr xs, h => by
    have := readJL_isSome xs h
    cases hx : readJL L xs <;> simp [readJ, hx] at this ⊢
  | .obj kvs, h => by
    have := readJO_isSome kvs h
    cases hx : readJO L kvs <;> simp [readJ, hx] at this ⊢
theorem readJL_isSome : ∀ (xs : JL Chars), NumsOKL xs → (readJL L xs).isSome = true
  | .nil, _ => by simp [readJL]
  | .cons v t, h => by
    have h1 := readJ_isSome v h.1
    have h2 := readJL_isSome t h.2
    cases hv : readJ L v <;> cases ht : readJL L t <;> simp [readJL, hv, ht] at h1 h2 ⊢
theorem readJO_isSome : ∀ (kvs : JO Chars), NumsOKO kvs → (readJO L kvs).isSome = true
  | .nil, _ => by simp [readJO]
  | .cons k v t, h => by
    have h1 := readJ_isSome v h.1
    have h2 := readJO_isSome t h.2
    cases hv : readJ L v <;> cases ht : readJO L t <;> simp [readJO, hv, ht] at h1 h2 ⊢
end

omit hL

mutual
theorem printRV_WF : ∀ (v : JV Chars), (printRV kws L v).WF
  | .null => by simp [printRV, RV.WF]
  | .bool b => by cases b <;> simp [printRV, RV.WF]
  | .num neg lit => by
    by_cases hi : isIntLit lit = true <;> simp [printRV, hi, RV.WF, leadOK_printLead]
  | .str _ => by simp [printRV, RV.WF]
  | .arr xs => by simp [printRV, RV.WF, printRL_WF xs]
  | .obj kvs => by simp [printRV, RV.WF, printRO_WF _ kvs]
theorem printRL_WF : ∀ (xs : JL Chars), (printRL kws L xs).WF
  | .nil => by simp [printRL, RL.WF]
  | .cons v t => by simp [printRL, RL.WF, printRV_WF v, printRL_WF t]
theorem printRO_WF : ∀ (bare : Bool) (kvs : JO Chars), (printRO kws L bare kvs).WF
  | _, .nil => by simp [printRO, RO.WF]
  | bare, .cons k v t => by simp [printRO, RO.WF, printRV_WF v, printRO_WF bare t]
end

end

end PubModel.C07
