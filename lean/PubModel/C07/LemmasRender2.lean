/-
C07 — character level, part B: texts made of pieces (white layout + one token), and
the lexer on them.
-/
import PubModel.C07.LemmasRender
import PubModel.C07.LemmasJson

namespace PubModel.C07

/-- white layout followed by one token -/
structure Piece where
  ws : Chars
  tok : Tok

def tokEndl : Tok := ⟨.endl, ['\n']⟩

/-- the text of a list of pieces, followed by `after` -/
def piecesText : List Piece → Chars → Chars
  | [], after => after
  | p :: ps, after => p.ws ++ (p.tok.lit ++ piecesText ps after)

theorem piecesText_append (a b : List Piece) (after : Chars) :
    piecesText (a ++ b) after = piecesText a (piecesText b after) := by
  induction a with
  | nil => rfl
  | cons p ps ih => simp [piecesText, ih]

/-- the lexer reads the piece as its token, without error, when `after` follows -/
def LexesAs (cfg : Cfg) (p : Piece) (after : Chars) : Prop :=
  p.ws.all isWhite = true ∧ headIs (fun c => !isWhite c) p.tok.lit = true ∧
    lexOne cfg (p.tok.lit ++ after) = (⟨p.tok, []⟩, after)

def PiecesOK (cfg : Cfg) : List Piece → Chars → Prop
  | [], _ => True
  | p :: ps, after => LexesAs cfg p (piecesText ps after) ∧ PiecesOK cfg ps after

theorem piecesOK_append (cfg : Cfg) (a b : List Piece) (after : Chars) :
    PiecesOK cfg (a ++ b) after ↔ PiecesOK cfg a (piecesText b after) ∧ PiecesOK cfg b after := by
  induction a with
  | nil => simp [PiecesOK]
  | cons p ps ih => simp [PiecesOK, ih, piecesText_append, and_assoc]

def rawOf (ps : List Piece) : List RTok := ps.map fun p => ⟨p.tok, []⟩

theorem dropWhile_white_append (ws cs : Chars) (h1 : ws.all isWhite = true)
    (h2 : headIs (fun c => !isWhite c) cs = true) : (ws ++ cs).dropWhile isWhite = cs := by
  induction ws with
  | nil =>
    cases cs with
    | nil => simp [headIs] at h2
    | cons c r =>
      have : isWhite c = false := by simpa [headIs] using h2
      simp [List.dropWhile, this]
  | cons w ws ih =>
    simp at h1
    simp [List.dropWhile, h1.1, ih (by simpa using h1.2)]

/-- **the lexer on a text made of pieces yields their tokens, then end of file** -/
theorem lexAll_pieces (cfg : Cfg) : ∀ (ps : List Piece) (after : Chars) (n : Nat), PiecesOK cfg ps after →
    after.dropWhile isWhite = [] → ps.length + 1 ≤ n →
    lexAll cfg n (piecesText ps after) = rawOf ps ++ [⟨eofTok, []⟩]
  | [], after, n, _, ha, hn => by
    cases n with
    | zero => omega
    | succ n' => simp [lexAll, piecesText, ha, rawOf]
  | p :: ps, after, n, hok, ha, hn => by
    cases n with
    | zero => omega
    | succ n' =>
      obtain ⟨⟨hw, hh, hlex⟩, hrest⟩ := hok
      have hhead : headIs (fun c => !isWhite c) (p.tok.lit ++ piecesText ps after) = true := by
        cases hl : p.tok.lit with
        | nil => rw [hl] at hh; simp [headIs] at hh
        | cons c r => rw [hl] at hh; simpa [headIs] using hh
      have hdw := dropWhile_white_append p.ws _ hw hhead
      have hne : p.tok.lit ++ piecesText ps after ≠ [] := by
        intro h; rw [h] at hhead; simp [headIs] at hhead
      have ih := lexAll_pieces cfg ps after n' hrest ha (by simp at hn; omega)
      simp [lexAll, piecesText, hdw, hne, hlex, ih, rawOf]

/-! ### single tokens -/

theorem lexOne_endl (cfg : Cfg) (after : Chars) : LexesAs cfg ⟨[], tokEndl⟩ after := by
  refine ⟨rfl, by decide, ?_⟩
  simp [tokEndl, lexOne]

theorem lexOne_op (cfg : Cfg) (hcfg : CfgOK cfg) (c : Char)
    (hc : c ∈ ['{', '}', '[', ']', ',', ':', '+', '-', '.']) (ws after : Chars) (hw : ws.all isWhite = true) :
    LexesAs cfg ⟨ws, tokOp c⟩ after := by
  have hmem := hcfg.operators c hc
  obtain ⟨h1, h2, h3, h4, h5, h6, _, _⟩ := hcfg.opsPlain c hmem
  refine ⟨hw, by simp [tokOp, headIs, h6], ?_⟩
  simp [tokOp, lexOne, h1, h2, h3, h4, h5, hmem]

theorem identLetter_plain (c : Char) (h : isIdentLetter c = true) :
    c ≠ '\n' ∧ c ≠ '"' ∧ c ≠ '`' ∧ isDigit c = false ∧ isWhite c = false := by
  refine ⟨?_, ?_, ?_, ?_, ?_⟩
  · intro hc; subst hc; revert h; decide
  · intro hc; subst hc; revert h; decide
  · intro hc; subst hc; revert h; decide
  · simp only [isIdentLetter, isLetter, isLower, isUpper, Bool.or_eq_true, decide_eq_true_eq, Bool.and_eq_true] at h
    cases hd : isDigit c with
    | false => rfl
    | true =>
      simp only [isDigit, Bool.and_eq_true, decide_eq_true_eq] at hd
      rcases h with h | h | h
      · subst h; revert hd; decide
      · omega
      · omega
  · cases hw : isWhite c with
    | false => rfl
    | true =>
      simp only [isWhite, Bool.or_eq_true, decide_eq_true_eq] at hw
      rcases hw with (hw | hw) | hw <;> (subst hw; revert h; decide)

theorem lexOne_ident (cfg : Cfg) (c : Char) (r ws after : Chars) (hc : isIdentLetter c = true)
    (hr : r.all isIdentChar = true) (hw : ws.all isWhite = true) (hf : HeadNot isIdentChar after) :
    LexesAs cfg ⟨ws, ⟨.ident, c :: r⟩⟩ after := by
  obtain ⟨h1, h2, h3, h4, h5⟩ := identLetter_plain c hc
  refine ⟨hw, by simp [headIs, h5], ?_⟩
  have := lexIdent_accepts c r after hr hf
  simp [lexOne, h1, h2, h3, h4, hc, this]

theorem digit_plain (c : Char) (h : isDigit c = true) :
    c ≠ '\n' ∧ c ≠ '"' ∧ c ≠ '`' ∧ isWhite c = false := by
  refine ⟨?_, ?_, ?_, ?_⟩
  · intro hc; subst hc; revert h; decide
  · intro hc; subst hc; revert h; decide
  · intro hc; subst hc; revert h; decide
  · cases hw : isWhite c with
    | false => rfl
    | true =>
      simp only [isWhite, Bool.or_eq_true, decide_eq_true_eq] at hw
      rcases hw with (hw | hw) | hw <;> (subst hw; revert h; decide)

def tokNum (lit : Chars) : Tok := ⟨if isIntLit lit = true then .int else .float, lit⟩

theorem lexOne_num (cfg : Cfg) (hcfg : CfgOK cfg) (lit ws after : Chars) (hl : isJsonUNum lit = true)
    (hw : ws.all isWhite = true) (hf : NumFollow after) : LexesAs cfg ⟨ws, tokNum lit⟩ after := by
  obtain ⟨c, r, hlit, hd⟩ := unum_head_digit lit hl
  obtain ⟨h1, h2, h3, h4⟩ := digit_plain c hd
  refine ⟨hw, by simp [tokNum, hlit, headIs, h4], ?_⟩
  have := number_literal_accepted' cfg ⟨hcfg.expPlus, hcfg.expMinus⟩ lit after hl hf
  subst hlit
  simp only [tokNum, List.cons_append] at this ⊢
  simp [lexOne, h1, h2, h3, hd, this]

theorem lexOne_str (cfg : Cfg) (lit ws after : Chars) (hl : isQuoteShape lit = true)
    (hw : ws.all isWhite = true) : LexesAs cfg ⟨ws, ⟨.str, lit⟩⟩ after := by
  cases lit with
  | nil => simp [isQuoteShape] at hl
  | cons c r =>
    have hc : c = '"' := by
      simp only [isQuoteShape, Bool.and_eq_true, decide_eq_true_eq] at hl; exact hl.1
    have := lexString_quote (c :: r) after hl
    subst hc
    refine ⟨hw, by simp [headIs, isWhite], ?_⟩
    simp only [List.cons_append] at this ⊢
    simp [lexOne, this]

end PubModel.C07
