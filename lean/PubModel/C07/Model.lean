/-
C07/C09 — the JSONx model (shared by both properties).  See the parts:
`Basic` (characters, tokens, configuration, values, delegated leaves),
`Lex` (lexer, UTF-8), `Parse` (filters, parser, encoder, ToJSON, Unmarshal),
`Print` (printer), `Json` (RFC 8259 predicates, shape of strconv.Quote output).
-/
import PubModel.C07.Basic
import PubModel.C07.Lex
import PubModel.C07.Parse
import PubModel.C07.Print
import PubModel.C07.Json
