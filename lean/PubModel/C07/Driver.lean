/-
C07/C09 — line-protocol driver shared by `drv_c07` and `drv_c09`.

  tojson <hex>       jsonx.ToJSON            -> ok <segs> | err <code>
  unm <hex>          jsonx.Unmarshal up to json.Unmarshal, then More()  -> ok more=<0|1> <segs> | err <code>
  print <jval>       jsonx.Marshal after the json.Marshal+decode prefix -> <segs>
  qshape <hex>       shape predicate of strconv.Quote output            -> ok | bad
  jnum / jstr / isjson <hex>    RFC 8259 predicates                     -> ok | bad
  goint <hex>        big.Int.SetString(lit, 0) on an integer token literal -> <n> | bad
  ident <hex>        print.go isIdent                                   -> ok | bad
  floatok <hex>      does strconv.ParseFloat accept this float token literal -> ok | bad

<segs>: space separated; plain hex = bytes emitted by repository code; leaves
delegated to strconv / encoding/json are symbolic and expanded by the harness
with the same calls the code uses:
  S:<hex lit>  json.Marshal(strconv.Unquote(lit))     K:<hex>  json.Marshal(string)
  F:<hex lit>  json.Marshal(strconv.ParseFloat(lit))  Q:<hex>  strconv.Quote(string)
  G:<fmt>:<neg>:<hex lit>  strconv.FormatFloat(float64 read from the signed literal, fmt, -1, 64)
<jval>: n | t | f | #<neg>:<hex lit> | s<hex> | [ <jval>* ] | { (k<hex> <jval>)* }
-/
import PubModel.C07.Glue

namespace PubModel.C07
open PubModel

def markS : Char := Char.ofNat 1
def markE : Char := Char.ofNat 2

def mark (kind : Char) (payload : Chars) : Chars := markS :: kind :: (payload ++ [markE])

def hexChars (bs : Bytes) : Chars := (Hex.encode bs).toList

/-! does strconv.ParseFloat accept a float token literal: at least one exponent
digit when there is an exponent, and the value is below 2^1024 - 2^970 -/

def floatParts (lit : Chars) : Chars × Chars × Option Chars :=
  let d := lit.span isDigit
  let f : Chars × Chars :=
    if d.2.head? = some '.' then (d.2.drop 1).span isDigit else ([], d.2)
  let e : Option Chars :=
    match f.2 with
    | [] => none
    | _ :: r => some r
  (d.1, f.1, e)

def floatOK (lit : Chars) : Bool :=
  let p := floatParts lit
  let mant := decVal (p.1 ++ p.2.1)
  let fracLen := p.2.1.length
  match p.2.2 with
  | none => true   -- plain decimal: at most a few hundred digits never overflow unless huge; checked below
      && (let nd := (natChars mant).length; nd ≤ 308 + fracLen ∨ mant * 1 < (2^1024 - 2^970) * 10^fracLen)
  | some e =>
    let neg := e.head? = some '-'
    let ds := if e.head? = some '-' ∨ e.head? = some '+' then e.drop 1 else e
    if ds = [] ∨ !ds.all isDigit then false
    else if mant = 0 then true
    else
      let ex := decVal ds
      let nd := (natChars mant).length
      if neg then
        -- value = mant * 10^-(ex + fracLen)
        if nd ≤ 308 + ex + fracLen then true else mant < (2^1024 - 2^970) * 10^(ex + fracLen)
      else if nd + ex ≥ 310 + fracLen then false
      else if nd + ex ≤ 308 + fracLen then true
      else mant * 10^ex < (2^1024 - 2^970) * 10^fracLen

def symLeaf : Leaf Chars where
  unquote lit := some (1 :: utf8Encode lit)
  quote bs := mark 'Q' (hexChars bs)
  jsonStr bs :=
    match bs with
    | 1 :: r => mark 'S' (hexChars r)
    | _ => mark 'K' (hexChars bs)
  parseFloat lit := if floatOK lit then some lit else none
  jsonFloat lit := mark 'F' (hexChars (utf8Encode lit))
  fmtFloat c neg lit := mark 'G' (c :: ':' :: (if neg then '1' else '0') :: ':' :: hexChars (utf8Encode lit))

def flushRaw (raw : Chars) : List String :=
  if raw = [] then [] else [Hex.encode (utf8Encode raw.reverse)]

/-- split model output into protocol words -/
def segments : Nat → Chars → Chars → List String
  | 0, _, _ => []
  | n+1, raw, cs =>
    match cs with
    | [] => flushRaw raw
    | c :: r =>
      if c = markS then
        match r with
        | [] => flushRaw raw
        | k :: r' =>
          let p := r'.span (· ≠ markE)
          flushRaw raw ++ (String.ofList (k :: ':' :: p.1) :: segments n [] (p.2.drop 1))
      else segments n (c :: raw) r

def showSegs (cs : Chars) : String :=
  let ws := segments (cs.length + 1) [] cs
  if ws = [] then "-" else " ".intercalate ws

def showCode (c : String) : String := if c = "" then "-" else c

/-! ### <jval> parser -/

def hexWord (w : String) : Option Bytes := Hex.decode w

mutual
def readJV : Nat → List String → Option (JV Chars × List String)
  | 0, _ => none
  | _+1, [] => none
  | n+1, w :: ws =>
    if w = "n" then some (.null, ws)
    else if w = "t" then some (.bool true, ws)
    else if w = "f" then some (.bool false, ws)
    else if w = "[" then (readJL n ws).map fun p => (.arr p.1, p.2)
    else if w = "{" then (readJO n ws).map fun p => (.obj p.1, p.2)
    else
      match w.toList with
      | '#' :: ng :: ':' :: h => (hexWord (String.ofList h)).map fun b => (.num (ng = '1') (utf8Decode b), ws)
      | 's' :: h => (hexWord (String.ofList h)).map fun b => (.str b, ws)
      | _ => none
def readJL : Nat → List String → Option (JL Chars × List String)
  | 0, _ => none
  | _+1, [] => none
  | n+1, w :: ws =>
    if w = "]" then some (.nil, ws)
    else
      match readJV n (w :: ws) with
      | none => none
      | some (v, ws1) => (readJL n ws1).map fun p => (.cons v p.1, p.2)
def readJO : Nat → List String → Option (JO Chars × List String)
  | 0, _ => none
  | _+1, [] => none
  | n+1, w :: ws =>
    if w = "}" then some (.nil, ws)
    else
      match w.toList with
      | 'k' :: h =>
        match hexWord (String.ofList h), readJV n ws with
        | some k, some (v, ws1) => (readJO n ws1).map fun p => (.cons k v p.1, p.2)
        | _, _ => none
      | _ => none
end

def okBad (b : Bool) : String := if b then "ok" else "bad"

def step (_ : Unit) (line : String) : Unit × String :=
  let ws := words line
  let out :=
    match ws with
    | ["tojson", h] =>
      match Hex.decode h with
      | some bs =>
        match toJSON genCfg symLeaf (utf8Decode bs) with
        | .ok out => "ok " ++ showSegs out
        | .err c => "err " ++ showCode c
      | none => "bad-op"
    | ["unm", h] =>
      match Hex.decode h with
      | some bs =>
        match decodeToks genCfg symLeaf (tokens genCfg (utf8Decode bs)) with
        | .ok (out, more) => s!"ok more={if more then 1 else 0} " ++ showSegs out
        | .err c => "err " ++ showCode c
      | none => "bad-op"
    | "print" :: rest =>
      match readJV (rest.length + 1) rest with
      | some (v, []) => showSegs (marshal genCfg symLeaf v)
      | _ => "bad-op"
    | ["qshape", h] => match Hex.decode h with | some bs => okBad (isQuoteShape (utf8Decode bs)) | none => "bad-op"
    | ["jnum", h] => match Hex.decode h with | some bs => okBad (isJsonNum (utf8Decode bs)) | none => "bad-op"
    | ["jstr", h] => match Hex.decode h with | some bs => okBad (isJsonStr (utf8Decode bs)) | none => "bad-op"
    | ["isjson", h] => match Hex.decode h with | some bs => okBad (isJson (utf8Decode bs)) | none => "bad-op"
    | ["goint", h] =>
      match Hex.decode h with
      | some bs => match goInt (utf8Decode bs) with | some n => toString n | none => "bad"
      | none => "bad-op"
    | ["ident", h] => match Hex.decode h with | some bs => okBad (isIdent genCfg.keywords bs) | none => "bad-op"
    | ["floatok", h] => match Hex.decode h with | some bs => okBad (floatOK (utf8Decode bs)) | none => "bad-op"
    | _ => "bad-op"
  ((), out)

end PubModel.C07
