/-
C07/C09 — JSONx model, part 1: characters, tokens, configuration, values, leaves.

Shared by C07 (Marshal/Unmarshal round trip) and C09 (ToJSON validity and
meaning).  Core Lean only.

What is repository logic is modelled statement by statement (lexing/number.go,
lexing/string.go, lexing/ident.go, lexing/comment.go, jsonx/lex.go,
jsonx/semi_inserter.go, lexing/keyworder.go, lexing/remover.go,
jsonx/parse_value.go, jsonx/encode.go, jsonx/to_json.go, jsonx/decoder.go,
jsonx/print.go).  What the repository delegates to `strconv` and
`encoding/json` is a *parameter* (`Leaf`) with stated contracts; the harness
validates the contracts on every run.

The places where the pinned tree and the repaired tree differ are regenerated
facts (`Cfg`): which characters `LexNumber` accepts after `e/E`, whether
`parseValue` parses a float under a leading sign, whether `Fprint` decodes with
`UseNumber`, the `FormatFloat` format byte, whether `encodeBasic` converts
Go-style integer literals.
-/
import PubModel.Common.Hex

namespace PubModel.C07

abbrev Chars := List Char

/-! ### character classes (lexing/runes.go, lexing/white.go, lexing/ident.go) -/

def isDigit (c : Char) : Bool := 48 ≤ c.toNat && c.toNat ≤ 57
def isLower (c : Char) : Bool := 97 ≤ c.toNat && c.toNat ≤ 122
def isUpper (c : Char) : Bool := 65 ≤ c.toNat && c.toNat ≤ 90
def isLetter (c : Char) : Bool := isLower c || isUpper c
def isHexDigit (c : Char) : Bool :=
  isDigit c || (97 ≤ c.toNat && c.toNat ≤ 102) || (65 ≤ c.toNat && c.toNat ≤ 70)
def isIdentLetter (c : Char) : Bool := c = '_' || isLetter c
def isIdentChar (c : Char) : Bool := isIdentLetter c || isDigit c
/-- lexing.IsWhite: space, tab, carriage return; not newline -/
def isWhite (c : Char) : Bool := c = ' ' || c = '\t' || c = '\r'

/-! ### tokens (jsonx/token.go, lexing/token.go) -/

inductive TT
  | keyword | ident | str | int | float | op | semi | endl | eof | comment | illegal
  deriving DecidableEq, Repr, Inhabited

structure Tok where
  ty : TT
  lit : Chars
  deriving DecidableEq, Repr, Inhabited

/-- a token together with the lexer errors (codes; "" = uncoded) raised while it was produced -/
structure RTok where
  tok : Tok
  errs : List String := []
  deriving DecidableEq, Repr, Inhabited

def eofTok : Tok := ⟨.eof, []⟩

/-! ### regenerated configuration -/

structure Cfg where
  /-- `var keywords = lexing.KeywordSet(...)` -/
  keywords : List Chars
  /-- first case list of `lexOperator` -/
  operators : List Char
  /-- characters other than digits that `LexNumber` consumes right after `e`/`E` -/
  expSigns : List Char
  /-- `parseValue` parses the float under a leading sign (repaired) or leaves its value nil (pinned) -/
  signedFloat : Bool
  /-- `Fprint` decodes with `UseNumber` and prints the literal -/
  useNumber : Bool
  /-- format byte of the `FormatFloat` call of the printer (used when `useNumber = false`) -/
  fmtByte : Char
  /-- `encodeBasic` converts integer literals with `big.Int.SetString(lit, 0)` -/
  intConv : Bool
  deriving Repr

/-- the tree as pinned (before the `fix:` commits) -/
def pinnedCfg : Cfg :=
  { keywords := ["true".toList, "false".toList, "null".toList]
    operators := ['{', '}', '[', ']', ',', ':', '+', '-', '.']
    expSigns := ['-'], signedFloat := false, useNumber := false, fmtByte := 'g', intConv := false }

/-- the tree as repaired -/
def fixedCfg : Cfg :=
  { pinnedCfg with expSigns := ['-', '+'], signedFloat := true, useNumber := true, intConv := true }

/-! ### JSON values

`ν` is the type of number leaves: a literal (`Chars`) on the source side, a
read number (`Num φ`) on the result side. Objects are ordered key lists. Go
strings are byte strings. -/

mutual
inductive JV (ν : Type) where
  | null
  | bool (b : Bool)
  | num (neg : Bool) (n : ν)
  | str (s : Bytes)
  | arr (xs : JL ν)
  | obj (kvs : JO ν)
inductive JL (ν : Type) where
  | nil
  | cons (v : JV ν) (t : JL ν)
inductive JO (ν : Type) where
  | nil
  | cons (k : Bytes) (v : JV ν) (t : JO ν)
end

/-- a number as the standard parser reads it: integers exactly, anything with a
fraction or exponent as the float64 `parseFloat` returns (`φ` is abstract) -/
inductive Num (φ : Type) where
  | int (n : Nat)
  | flt (f : φ)

/-! ### delegated leaves (`strconv`, `encoding/json`) -/

structure Leaf (φ : Type) where
  /-- `strconv.Unquote` on a string token literal -/
  unquote : Chars → Option Bytes
  /-- `strconv.Quote` -/
  quote : Bytes → Chars
  /-- `json.Marshal` of a Go string -/
  jsonStr : Bytes → Chars
  /-- `strconv.ParseFloat(lit, 64)` on an unsigned float token literal -/
  parseFloat : Chars → Option φ
  /-- `json.Marshal` of a float64 -/
  jsonFloat : φ → Chars
  /-- pinned printer only: `strconv.FormatFloat(f, fmt, -1, 64)` of the float64 that
      `encoding/json` reads from the signed literal -/
  fmtFloat : Char → Bool → Chars → Chars

/-- Go string of an identifier literal (ASCII) -/
def identBytes (cs : Chars) : Bytes := cs.map (fun c => UInt8.ofNat c.toNat)

def str (s : String) : Chars := s.toList

end PubModel.C07
