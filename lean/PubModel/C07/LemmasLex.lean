/-
C07 — lexer lemmas: maximal munch for numbers.
-/
import PubModel.C07.Model

namespace PubModel.C07

/-- the next unread character cannot be consumed by predicate `p` -/
def HeadNot (p : Char → Bool) (rest : Chars) : Prop := ∀ c, rest.head? = some c → p c = false

theorem takeWhile_headNot {p : Char → Bool} : ∀ (rest : Chars), HeadNot p rest →
    rest.takeWhile p = [] ∧ rest.dropWhile p = rest
  | [], _ => by simp
  | c :: r, h => by
    have := h c rfl
    simp [List.takeWhile, List.dropWhile, this]

theorem span_loop {p : Char → Bool} : ∀ (l acc : Chars),
    List.span.loop p l acc = (acc.reverse ++ l.takeWhile p, l.dropWhile p)
  | [], acc => by simp [List.span.loop]
  | c :: l, acc => by
    by_cases hc : p c = true
    · simp [List.span.loop, hc, span_loop l (c :: acc), List.takeWhile, List.dropWhile]
    · simp [List.span.loop, hc, List.takeWhile, List.dropWhile]

theorem span_eq {p : Char → Bool} (l : Chars) : l.span p = (l.takeWhile p, l.dropWhile p) := by
  simp [List.span, span_loop]

theorem span_append {p : Char → Bool} (r rest : Chars)
    (h : r.dropWhile p = [] → HeadNot p rest) :
    (r ++ rest).span p = (r.takeWhile p, r.dropWhile p ++ rest) := by
  rw [span_eq]
  induction r with
  | nil =>
    have := takeWhile_headNot rest (h rfl)
    simp [this.1, this.2]
  | cons c r ih =>
    by_cases hc : p c = true
    · have := ih (by simpa [List.dropWhile, hc] using h)
      simp [List.takeWhile, List.dropWhile, hc] at this ⊢
      exact this
    · simp [List.takeWhile, List.dropWhile, hc]

theorem dropWhile_head_not {p : Char → Bool} : ∀ (r : Chars), HeadNot p (r.dropWhile p)
  | [] => by intro c h; simp at h
  | c :: r => by
    by_cases hc : p c = true
    · simpa [List.dropWhile, hc] using dropWhile_head_not r
    · intro c' h
      simp [List.dropWhile, hc] at h
      subst h; simpa using hc

theorem takeWhile_append_dropWhile' {p : Char → Bool} (r : Chars) : r.takeWhile p ++ r.dropWhile p = r :=
  List.takeWhile_append_dropWhile

theorem takeWhile_eq_self_of_dropWhile_nil {p : Char → Bool} (l : Chars) (h : l.dropWhile p = []) :
    l.takeWhile p = l := by
  have := takeWhile_append_dropWhile' (p := p) l
  rw [h] at this; simpa using this

/-- what may follow a number literal without being swallowed by `LexNumber` -/
structure NumFollow (rest : Chars) : Prop where
  notDigit : HeadNot isDigit rest
  notDot : rest.head? ≠ some '.'
  notE : rest.head? ≠ some 'e' ∧ rest.head? ≠ some 'E'
  notX : rest.head? ≠ some 'x'

theorem headIs_cons {p : Char → Bool} {l : Chars} (h : headIs p l = true) : ∃ c r, l = c :: r ∧ p c = true := by
  cases l with
  | nil => simp [headIs] at h
  | cons c r => exact ⟨c, r, rfl, by simpa [headIs] using h⟩

/-- exponent part: what the RFC scanner consumes to the end is what `LexNumber` consumes -/
theorem lexExp_of_scan (signs : List Char) (hp : '+' ∈ signs) (hm : '-' ∈ signs) (a rest : Chars)
    (hs : scanExp a = some []) (hf : NumFollow rest) : lexExp signs (a ++ rest) = (a, rest) := by
  cases a with
  | nil =>
    cases rest with
    | nil => simp [lexExp]
    | cons c r =>
      have h1 := hf.notE.1; have h2 := hf.notE.2
      simp at h1 h2
      simp [lexExp, h1, h2]
  | cons e r =>
    simp only [scanExp] at hs
    by_cases he : e = 'e' ∨ e = 'E'
    · simp only [he, if_true] at hs
      by_cases hd : headIs isDigit (dropSign r) = true
      · simp only [hd, if_true, Option.some.injEq] at hs
        obtain ⟨c, r', hr, hc⟩ := headIs_cons hd
        have htw := takeWhile_eq_self_of_dropWhile_nil _ hs
        cases r with
        | nil => simp [dropSign] at hr
        | cons c0 r0 =>
          by_cases hsg : c0 = '+' ∨ c0 = '-'
          · have hds : dropSign (c0 :: r0) = r0 := by simp [dropSign, hsg]
            rw [hds] at hs htw
            have hmem : c0 ∈ signs := by rcases hsg with h | h <;> (subst h; assumption)
            have hsp := span_append (p := isDigit) r0 rest (fun _ => hf.notDigit)
            simp [lexExp, he, lexExpSign, hmem, hsp, hs, htw]
          · have hds : dropSign (c0 :: r0) = c0 :: r0 := by simp [dropSign, hsg]
            rw [hds] at hs htw hr
            have hc0 : isDigit c0 = true := by
              have := hr; simp at this; rw [this.1]; exact hc
            have hs0 : r0.dropWhile isDigit = [] := by simpa [List.dropWhile, hc0] using hs
            have htw0 := takeWhile_eq_self_of_dropWhile_nil _ hs0
            have hsp := span_append (p := isDigit) r0 rest (fun _ => hf.notDigit)
            simp [lexExp, he, lexExpSign, hc0, hsp, hs0, htw0]
      · simp [hd] at hs
    · simp [he] at hs

/-- fraction part -/
theorem lexFrac_of_scan (a b rest : Chars) (hs : scanFrac a = some b)
    (hb : b = [] → HeadNot isDigit rest) (ha : a = [] → rest.head? ≠ some '.') :
    ∃ f, lexFrac (a ++ rest) = (f, b ++ rest) ∧ a = f ++ b ∧ (f = [] ↔ a.head? ≠ some '.') := by
  simp only [scanFrac] at hs
  by_cases hdot : a.head? = some '.'
  · simp only [hdot, if_true] at hs
    cases a with
    | nil => simp at hdot
    | cons c r =>
      have hc : c = '.' := by simpa using hdot
      subst hc
      by_cases hd : headIs isDigit r = true
      · simp only [List.drop_succ_cons, List.drop_zero, hd, if_true, Option.some.injEq] at hs
        subst hs
        have hsp := span_append (p := isDigit) r rest hb
        refine ⟨'.' :: r.takeWhile isDigit, ?_, ?_, ?_⟩
        · simp [lexFrac, hsp]
        · simp [takeWhile_append_dropWhile']
        · simp
      · simp [hd] at hs
  · simp only [hdot, if_false, Option.some.injEq] at hs
    subst hs
    refine ⟨[], ?_, by simp, by simp [hdot]⟩
    cases a with
    | nil =>
      have := ha rfl
      simp [lexFrac, this]
    | cons c r =>
      have : c ≠ '.' := by simpa using hdot
      simp [lexFrac, this]

theorem all_takeWhile' {p : Char → Bool} : ∀ (l : Chars), (l.takeWhile p).all p = true
  | [] => by simp
  | c :: l => by
    by_cases hc : p c = true
    · simp [List.takeWhile, hc, all_takeWhile' l]
    · simp [List.takeWhile, hc]

/-- the exponent part is empty or starts with `e`/`E` -/
theorem scanExp_nil_start (a : Chars) (hs : scanExp a = some []) :
    a = [] ∨ ∃ e r, a = e :: r ∧ (e = 'e' ∨ e = 'E') := by
  cases a with
  | nil => exact .inl rfl
  | cons e r =>
    by_cases he : e = 'e' ∨ e = 'E'
    · exact .inr ⟨e, r, rfl, he⟩
    · simp [scanExp, he] at hs

theorem not_digit_e : isDigit 'e' = false ∧ isDigit 'E' = false ∧ isDigit '.' = false := by decide

/-- **LexNumber accepts every (unsigned) RFC 8259 number literal** as one token,
    integer exactly when the literal has neither fraction nor exponent; the sign
    is `parseValue`'s business.  Needs `+` and `-` after `e/E` (the repaired lexer). -/
theorem lexNumber_json (signs : List Char) (hp : '+' ∈ signs) (hm : '-' ∈ signs) (lit rest : Chars)
    (hl : isJsonUNum lit = true) (hf : NumFollow rest) :
    lexNumber signs (lit ++ rest) = (⟨if isIntLit lit = true then .int else .float, lit⟩, rest) := by
  replace hl : scanUNumber lit = some [] := by simpa [isJsonUNum] using hl
  simp only [scanUNumber] at hl
  cases h1 : scanInt lit with
  | none => simp [h1] at hl
  | some r1 =>
    simp only [h1, Option.bind_some] at hl
    cases h2 : scanFrac r1 with
    | none => simp [h2] at hl
    | some r2 =>
      simp only [h2, Option.bind_some] at hl
      have hstart := scanExp_nil_start r2 hl
      have hexp := lexExp_of_scan signs hp hm r2 rest hl hf
      have hr2d : HeadNot isDigit (r2 ++ rest) := by
        rcases hstart with h | ⟨e, r, h, he⟩
        · subst h; simpa using hf.notDigit
        · subst h; intro c hc; simp at hc; subst hc
          rcases he with h | h <;> (subst h; decide)
      cases lit with
      | nil => simp [scanInt] at h1
      | cons s r =>
        obtain ⟨f, hfrac, hr1, hfnil⟩ := lexFrac_of_scan r1 r2 rest h2 (fun h => by subst h; exact hf.notDigit)
          (fun _ => hf.notDot)
        -- the head of `f ++ r2 ++ rest` is not a digit
        have hfd : HeadNot isDigit (r1 ++ rest) := by
          by_cases hfe : f = []
          · subst hfe; simpa [hr1] using hr2d
          · cases f with
            | nil => exact absurd rfl hfe
            | cons c f' =>
              have hdot : r1.head? = some '.' :=
                Decidable.byContradiction (fun hne => hfe (hfnil.2 hne))
              rw [hr1] at hdot; simp at hdot; subst hdot
              intro c hc; simp [hr1] at hc; subst hc; decide
        have hhead : ∀ c, r1.head? = some c → c = '.' ∨ c = 'e' ∨ c = 'E' := by
          intro c hc
          cases f with
          | nil =>
            simp at hr1; subst hr1
            rcases hstart with h | ⟨e, r', h, he⟩
            · subst h; simp at hc
            · subst h; simp at hc; subst hc; exact .inr he
          | cons c' f' =>
            have hdot : r1.head? = some '.' :=
              Decidable.byContradiction (fun hne => by have := hfnil.2 hne; simp at this)
            rw [hdot] at hc; simp at hc; exact .inl hc.symm
        have htype : (f = [] ∧ r2 = []) ↔ (r1 = []) := by
          constructor
          · rintro ⟨a, b⟩; simp [hr1, a, b]
          · intro h; rw [h] at hr1
            have : f = [] ∧ r2 = [] := by simpa using hr1.symm
            exact this
        have hr1nd : r1 ≠ [] → r1.all isDigit = false := by
          intro hne
          cases r1 with
          | nil => exact absurd rfl hne
          | cons c r1' =>
            have := hfd c (by simp)
            simp [this]
        simp only [scanInt] at h1
        by_cases hs0 : s = '0'
        · subst hs0
          simp only [if_true, Option.some.injEq] at h1
          subst h1
          have hx : (r ++ rest).head? ≠ some 'x' := by
            intro hx
            cases r with
            | nil => exact hf.notX (by simpa using hx)
            | cons c r' =>
              have := hhead c (by simp)
              simp at hx; subst hx; revert this; decide
          have hsp := takeWhile_headNot (r ++ rest) hfd
          have hlex : lexNumber signs ('0' :: (r ++ rest)) =
              (⟨if f = [] ∧ r2 = [] then .int else .float, '0' :: ([] ++ (f ++ r2))⟩, rest) := by
            have hcond : ¬ (True ∧ (r ++ rest).head? = some 'x') := fun h => hx h.2
            simp only [lexNumber, span_eq, hsp.1, hsp.2, hfrac, hexp]
            rw [if_neg hcond]
          have hlit : isIntLit ('0' :: r) = true ↔ r = [] := by
            constructor
            · intro h
              exact Decidable.byContradiction (fun hne => by
                have := hr1nd hne
                simp [isIntLit, this] at h)
            · intro h; subst h; decide
          simp only [List.cons_append, hlex, ← hr1, List.nil_append]
          by_cases hr : r = []
          · simp [htype.2 hr, hlit.2 hr]
          · have : ¬ (f = [] ∧ r2 = []) := fun h => hr (htype.1 h)
            have h2' : ¬ isIntLit ('0' :: r) = true := fun h => hr (hlit.1 h)
            simp [this, h2']
        · simp only [hs0, if_false] at h1
          by_cases hsd : isDigit s = true
          · simp only [hsd, if_true, Option.some.injEq] at h1
            have hsp := span_append (p := isDigit) r rest (fun h => by rw [h1] at h; subst h; exact hf.notDigit)
            rw [h1] at hsp
            have hr : r = r.takeWhile isDigit ++ r1 := by rw [← h1]; exact (takeWhile_append_dropWhile' r).symm
            have hlex : lexNumber signs (s :: (r ++ rest)) =
                (⟨if f = [] ∧ r2 = [] then .int else .float, s :: (r.takeWhile isDigit ++ (f ++ r2))⟩, rest) := by
              simp [lexNumber, hs0, hsp, hfrac, hexp]
            have hall := all_takeWhile' (p := isDigit) r
            have hlit : isIntLit (s :: r) = true ↔ r1 = [] := by
              constructor
              · intro h
                exact Decidable.byContradiction (fun hne => by
                  have := hr1nd hne
                  rw [hr] at h
                  simp [isIntLit, List.all_append, this] at h)
              · intro h; rw [h] at hr; simp at hr
                rw [hr]; simp [isIntLit, hsd]
            simp only [List.cons_append, hlex, ← hr1, ← hr]
            by_cases hr' : r1 = []
            · simp [htype.2 hr', hlit.2 hr']
            · have : ¬ (f = [] ∧ r2 = []) := fun h => hr' (htype.1 h)
              have h2' : ¬ isIntLit (s :: r) = true := fun h => hr' (hlit.1 h)
              simp [this, h2']
          · simp [hsd] at h1

/-- `lexNumber_json` under the hypotheses on the configuration -/
theorem number_literal_accepted' (cfg : Cfg) (hp : '+' ∈ cfg.expSigns ∧ '-' ∈ cfg.expSigns) (lit rest : Chars)
    (hl : isJsonUNum lit = true) (hf : NumFollow rest) :
    lexNumber cfg.expSigns (lit ++ rest) = (⟨if isIntLit lit = true then .int else .float, lit⟩, rest) :=
  lexNumber_json cfg.expSigns hp.1 hp.2 lit rest hl hf

/-! ### identifiers and keywords: the printer's `isIdent` against the lexer's identifier syntax -/

theorem isIdentTail_false (s : Bytes) : isIdentTail s false = (bytesChars s).all isIdentChar := by
  induction s with
  | nil => simp [isIdentTail, bytesChars]
  | cons b r ih =>
    simp only [isIdentTail, bytesChars, List.map_cons, List.all_cons] at ih ⊢
    rw [ih]
    simp [isIdentChar, isIdentLetter, isLetter, Bool.or_assoc]

/-- `isIdent` (print.go) holds exactly for the strings that the lexer reads as one
    identifier token and that are not keywords -/
theorem isIdent_iff (kws : List Chars) (s : Bytes) :
    isIdent kws s = true ↔
      (∃ c r, bytesChars s = c :: r ∧ isIdentLetter c = true ∧ r.all isIdentChar = true) ∧ bytesChars s ∉ kws := by
  cases s with
  | nil => simp [isIdent, bytesChars]
  | cons b r =>
    have key : isIdentTail (b :: r) true =
        (isIdentLetter (Char.ofNat b.toNat) && (bytesChars r).all isIdentChar) := by
      simp [isIdentTail, isIdentTail_false, isIdentLetter, isLetter, Bool.or_assoc]
    have hcs : bytesChars (b :: r) = Char.ofNat b.toNat :: bytesChars r := rfl
    by_cases hk : bytesChars (b :: r) ∈ kws
    · constructor
      · intro h
        have hk' : (Char.ofNat b.toNat :: List.map (fun b => Char.ofNat b.toNat) r) ∈ kws := hk
        simp [isIdent, hk'] at h
      · rintro ⟨_, h⟩; exact absurd hk h
    · have hk' : ¬ (Char.ofNat b.toNat :: List.map (fun b => Char.ofNat b.toNat) r) ∈ kws := hk
      have hid : isIdent kws (b :: r) = isIdentTail (b :: r) true := by simp [isIdent, hk']
      rw [hid, key]
      constructor
      · intro h
        simp only [Bool.and_eq_true] at h
        exact ⟨⟨_, _, hcs, h.1, h.2⟩, hk⟩
      · rintro ⟨⟨c, r', heq, hc, hr⟩, _⟩
        rw [hcs] at heq
        injection heq with h1 h2
        subst h1; subst h2
        simp [hc, hr]

/-- a keyword is never printed as a bare key -/
theorem isIdent_keyword (kws : List Chars) (s : Bytes) (h : bytesChars s ∈ kws) : isIdent kws s = false := by
  cases hs : isIdent kws s with
  | false => rfl
  | true => exact absurd h ((isIdent_iff kws s).1 hs).2

theorem all_eq_takeWhile {p : Char → Bool} : ∀ (l : Chars), l.all p = true → l.takeWhile p = l ∧ l.dropWhile p = []
  | [], _ => by simp
  | c :: l, h => by
    simp at h
    have := all_eq_takeWhile l (by simpa using h.2)
    simp [List.takeWhile, List.dropWhile, h.1, this.1, this.2]

/-- the lexer reads an identifier up to the first character that cannot continue it -/
theorem lexIdent_accepts (c : Char) (r rest : Chars) (hr : r.all isIdentChar = true)
    (hf : HeadNot isIdentChar rest) : lexIdent (c :: (r ++ rest)) = (⟨.ident, c :: r⟩, rest) := by
  have h := all_eq_takeWhile r hr
  have hsp := span_append (p := isIdentChar) r rest (fun _ => hf)
  simp [lexIdent, hsp, h.1, h.2]

end PubModel.C07
