/-
C09 — the emitted text is RFC 8259 JSON.  The grammar of RFC 8259 (sections 2-7)
as inductive predicates over the decidable number and string grammars, and the
proof that `emit` of any meaning whose leaves satisfy the leaf contracts is a
JSON text.
-/
import PubModel.C07.LemmasLex
import PubModel.C07.Surface

namespace PubModel.C07

/-! ### RFC 8259 grammar -/

def AllWs (cs : Chars) : Prop := ∀ c ∈ cs, isJsonWs c = true

mutual
/-- value = false / null / true / object / array / number / string -/
inductive JsonValue : Chars → Prop
  | null : JsonValue (str "null")
  | tru : JsonValue (str "true")
  | fls : JsonValue (str "false")
  | num (cs : Chars) : isJsonNum cs = true → JsonValue cs
  | string (cs : Chars) : isJsonStr cs = true → JsonValue cs
  | emptyArr (w : Chars) : AllWs w → JsonValue ('[' :: (w ++ [']']))
  | arr (es : Chars) : JsonElems es → JsonValue ('[' :: (es ++ [']']))
  | emptyObj (w : Chars) : AllWs w → JsonValue ('{' :: (w ++ ['}']))
  | obj (ms : Chars) : JsonMembers ms → JsonValue ('{' :: (ms ++ ['}']))
/-- ws value ws *( "," ws value ws ) -/
inductive JsonElems : Chars → Prop
  | one (a v b : Chars) : AllWs a → AllWs b → JsonValue v → JsonElems (a ++ (v ++ b))
  | more (a v b rest : Chars) : AllWs a → AllWs b → JsonValue v → JsonElems rest →
      JsonElems (a ++ (v ++ (b ++ ',' :: rest)))
/-- member = ws string ws ":" ws value ws, separated by "," -/
inductive JsonMembers : Chars → Prop
  | one (a k b c v d : Chars) : AllWs a → AllWs b → AllWs c → AllWs d → isJsonStr k = true → JsonValue v →
      JsonMembers (a ++ (k ++ (b ++ ':' :: (c ++ (v ++ d)))))
  | more (a k b c v d rest : Chars) : AllWs a → AllWs b → AllWs c → AllWs d → isJsonStr k = true →
      JsonValue v → JsonMembers rest → JsonMembers (a ++ (k ++ (b ++ ':' :: (c ++ (v ++ (d ++ ',' :: rest))))))
end

/-- JSON-text = ws value ws -/
def JsonText (cs : Chars) : Prop := ∃ a v b, AllWs a ∧ AllWs b ∧ JsonValue v ∧ cs = a ++ (v ++ b)

theorem allWs_nil : AllWs [] := by intro c h; simp at h

/-! ### decimal numerals -/

theorem isDigit_eq_core (c : Char) : isDigit c = c.isDigit := by
  simp only [isDigit, Char.isDigit, ge_iff_le, UInt32.le_iff_toNat_le]
  rfl

theorem natChars_eq (n : Nat) : natChars n = Nat.toDigits 10 n := by
  simp [natChars, Nat.toList_repr]

theorem natChars_all_digits (n : Nat) : (natChars n).all isDigit = true := by
  rw [natChars_eq, List.all_eq_true]
  intro c hc
  rw [isDigit_eq_core]
  exact Nat.isDigit_of_mem_toDigits (by decide) (by decide) hc

theorem head_toDigits (n : Nat) (hn : 0 < n) : (Nat.toDigits 10 n).head? ≠ some '0' := by
  induction n using Nat.strongRecOn with
  | _ n ih =>
    rw [Nat.toDigits_eq_if (by decide)]
    split
    · have : n = 1 ∨ n = 2 ∨ n = 3 ∨ n = 4 ∨ n = 5 ∨ n = 6 ∨ n = 7 ∨ n = 8 ∨ n = 9 := by omega
      rcases this with h | h | h | h | h | h | h | h | h <;> subst h <;> decide
    · have h1 := ih (n / 10) (by omega) (by omega)
      have hne : Nat.toDigits 10 (n / 10) ≠ [] := Nat.toDigits_ne_nil
      cases hd : Nat.toDigits 10 (n / 10) with
      | nil => exact absurd hd hne
      | cons c r => rw [hd] at h1; simpa using h1

/-- the decimal numeral of a natural number is an RFC 8259 number -/
theorem natChars_json (n : Nat) : isJsonUNum (natChars n) = true := by
  have hall := natChars_all_digits n
  cases hd : natChars n with
  | nil => rw [natChars_eq] at hd; exact absurd hd Nat.toDigits_ne_nil
  | cons c r =>
    rw [hd] at hall
    have hc : isDigit c = true := by simp at hall; exact hall.1
    have hr : r.all isDigit = true := by simp at hall ⊢; exact hall.2
    have hdw := (all_eq_takeWhile r hr).2
    by_cases h0 : c = '0'
    · -- only zero starts with the digit 0
      have hn : n = 0 := by
        apply Decidable.byContradiction
        intro hne
        have := head_toDigits n (by omega)
        rw [← natChars_eq, hd] at this
        simp [h0] at this
      subst hn
      have : natChars 0 = ['0'] := by decide
      rw [this] at hd
      injection hd with hc' hr'
      subst hr'; subst hc'
      decide
    · simp [isJsonUNum, scanUNumber, scanInt, h0, hc, hdw, scanFrac, scanExp]

theorem unum_head_digit (u : Chars) (h : isJsonUNum u = true) : ∃ c r, u = c :: r ∧ isDigit c = true := by
  replace h : scanUNumber u = some [] := by simpa [isJsonUNum] using h
  cases u with
  | nil => simp [scanUNumber, scanInt] at h
  | cons c r =>
    refine ⟨c, r, rfl, ?_⟩
    by_cases h0 : c = '0'
    · subst h0; decide
    · cases hc : isDigit c with
      | true => rfl
      | false => simp [scanUNumber, scanInt, h0, hc] at h

/-- an unsigned number with or without a leading `-` is an RFC 8259 number -/
theorem signed_json (neg : Bool) (u : Chars) (h : isJsonUNum u = true) :
    isJsonNum ((if neg then ['-'] else []) ++ u) = true := by
  obtain ⟨c, r, hu, hc⟩ := unum_head_digit u h
  have hne : c ≠ '-' := by intro hh; subst hh; revert hc; decide
  replace h : scanUNumber u = some [] := by simpa [isJsonUNum] using h
  cases neg with
  | true => simp [isJsonNum, scanNumber, h]
  | false => subst hu; simp [isJsonNum, scanNumber, hne, h]

/-! ### meanings whose leaves are JSON -/

section
variable {φ : Type} (L : Leaf φ)

/-- contracts of `encoding/json`'s leaf encoders: a marshalled string is an RFC 8259
    string; the float64 read from an unsigned literal (one that starts with a digit)
    is marshalled as an unsigned RFC 8259 number -/
structure JsonLeaf : Prop where
  str_ok : ∀ s, isJsonStr (L.jsonStr s) = true
  float_ok : ∀ lit f, headIs isDigit lit = true → L.parseFloat lit = some f → isJsonUNum (L.jsonFloat f) = true

mutual
def JValid : JV (Num φ) → Prop
  | .num _ (.flt f) => isJsonUNum (L.jsonFloat f) = true
  | .arr xs => JValidL xs
  | .obj kvs => JValidO kvs
  | _ => True
def JValidL : JL (Num φ) → Prop
  | .nil => True
  | .cons v t => JValid v ∧ JValidL t
def JValidO : JO (Num φ) → Prop
  | .nil => True
  | .cons _ v t => JValid v ∧ JValidO t
end

variable (hJ : ∀ s, isJsonStr (L.jsonStr s) = true)
include hJ

mutual
/-- **the canonical text of a meaning is a JSON value** -/
theorem emit_json : ∀ (j : JV (Num φ)), JValid L j → JsonValue (emit L j)
  | .null, _ => by simpa [emit] using JsonValue.null
  | .bool true, _ => by simpa [emit, kwTrue] using JsonValue.tru
  | .bool false, _ => by simpa [emit, kwFalse] using JsonValue.fls
  | .num neg (.int n), _ => by
    simpa [emit, emitNum] using JsonValue.num _ (signed_json neg _ (natChars_json n))
  | .num neg (.flt f), h => by
    simpa [emit, emitNum] using JsonValue.num _ (signed_json neg _ h)
  | .str s, _ => by simpa [emit] using JsonValue.string _ (hJ s)
  | .arr .nil, _ => by
    simpa [emit, emitL] using JsonValue.emptyArr [] allWs_nil
  | .arr (.cons v t), h => by
    rcases emitL_json (.cons v t) h with h0 | h1
    · exact absurd h0 (by simp)
    · simpa [emit] using JsonValue.arr _ h1
  | .obj .nil, _ => by
    simpa [emit, emitO] using JsonValue.emptyObj [] allWs_nil
  | .obj (.cons k v t), h => by
    rcases emitO_json (.cons k v t) h with h0 | h1
    · exact absurd h0 (by simp)
    · simpa [emit] using JsonValue.obj _ h1
theorem emitL_json : ∀ (xs : JL (Num φ)), JValidL L xs → xs = .nil ∨ JsonElems (emitL L xs true)
  | .nil, _ => .inl rfl
  | .cons v .nil, h => by
    have := JsonElems.one [] (emit L v) [] allWs_nil allWs_nil (emit_json v h.1)
    exact .inr (by simpa [emitL] using this)
  | .cons v (.cons v' t'), h => by
    rcases emitL_json (.cons v' t') h.2 with h0 | ih
    · exact absurd h0 (by simp)
    · have := JsonElems.more [] (emit L v) [] _ allWs_nil allWs_nil (emit_json v h.1) ih
      exact .inr (by simpa [emitL] using this)
theorem emitO_json : ∀ (kvs : JO (Num φ)), JValidO L kvs → kvs = .nil ∨ JsonMembers (emitO L kvs true)
  | .nil, _ => .inl rfl
  | .cons k v .nil, h => by
    have := JsonMembers.one [] (L.jsonStr k) [] [] (emit L v) [] allWs_nil allWs_nil allWs_nil allWs_nil
      (hJ k) (emit_json v h.1)
    exact .inr (by simpa [emitO] using this)
  | .cons k v (.cons k' v' t'), h => by
    rcases emitO_json (.cons k' v' t') h.2 with h0 | ih
    · exact absurd h0 (by simp)
    · have := JsonMembers.more [] (L.jsonStr k) [] [] (emit L v) [] _ allWs_nil allWs_nil allWs_nil allWs_nil
        (hJ k) (emit_json v h.1) ih
      exact .inr (by simpa [emitO] using this)
end

theorem emit_jsonText (j : JV (Num φ)) (h : JValid L j) : JsonText (emit L j) :=
  ⟨[], emit L j, [], allWs_nil, allWs_nil, emit_json L hJ j h, by simp⟩

end

/-! ### the meaning of a surface tree has JSON leaves -/

mutual
/-- float token literals start with a digit (the lexer only makes such tokens) -/
def RV.FloatLits : RV → Prop
  | .flt _ lit => headIs isDigit lit = true
  | .arr xs => xs.FloatLits
  | .obj kvs => kvs.FloatLits
  | _ => True
def RL.FloatLits : RL → Prop
  | .nil => True
  | .single v => v.FloatLits
  | .cons v t => v.FloatLits ∧ t.FloatLits
def RO.FloatLits : RO → Prop
  | .nil => True
  | .single _ v => v.FloatLits
  | .cons _ v t => v.FloatLits ∧ t.FloatLits
end

section
variable {φ : Type} (L : Leaf φ) (hL : JsonLeaf L)
include hL

theorem identsJL_valid : ∀ (ts : List Chars), JValidL L (identsJL ts)
  | [] => by simp [identsJL, JValidL]
  | t :: ts => by simp [identsJL, JValidL, JValid, identsJL_valid ts]

mutual
theorem val_valid : ∀ (r : RV) (j : JV (Num φ)), r.FloatLits → r.val L = some j → JValid L j
  | .null, j, _, h => by simp [RV.val] at h; subst h; simp [JValid]
  | .tru, j, _, h => by simp [RV.val] at h; subst h; simp [JValid]
  | .fls, j, _, h => by simp [RV.val] at h; subst h; simp [JValid]
  | .int lead lit, j, _, h => by
    cases hg : goInt lit with
    | none => simp [RV.val, hg] at h
    | some n => simp [RV.val, hg] at h; subst h; simp [JValid]
  | .flt lead lit, j, hf, h => by
    cases hg : L.parseFloat lit with
    | none => simp [RV.val, hg] at h
    | some f => simp [RV.val, hg] at h; subst h; simpa [JValid] using hL.float_ok lit f hf hg
  | .str lit, j, _, h => by
    cases hg : L.unquote lit with
    | none => simp [RV.val, hg] at h
    | some s => simp [RV.val, hg] at h; subst h; simp [JValid]
  | .arr xs, j, hf, h => by
    cases hg : xs.val L with
    | none => simp [RV.val, hg] at h
    | some js => simp [RV.val, hg] at h; subst h; simpa [JValid] using val_validL xs js hf hg
  | .obj kvs, j, hf, h => by
    cases hg : kvs.val L with
    | none => simp [RV.val, hg] at h
    | some js => simp [RV.val, hg] at h; subst h; simpa [JValid] using val_validO kvs js hf hg
  | .idents a more, j, _, h => by
    simp [RV.val] at h; subst h; simpa [JValid] using identsJL_valid L hL (a :: more)
theorem val_validL : ∀ (xs : RL) (js : JL (Num φ)), xs.FloatLits → xs.val L = some js → JValidL L js
  | .nil, js, _, h => by simp [RL.val] at h; subst h; simp [JValidL]
  | .single v, js, hf, h => by
    cases hg : v.val L with
    | none => simp [RL.val, hg] at h
    | some j => simp [RL.val, hg] at h; subst h; simpa [JValidL] using val_valid v j hf hg
  | .cons v t, js, hf, h => by
    cases hg : v.val L with
    | none => simp [RL.val, hg] at h
    | some j =>
      cases hg2 : t.val L with
      | none => simp [RL.val, hg, hg2] at h
      | some js' =>
        simp [RL.val, hg, hg2] at h; subst h
        exact ⟨val_valid v j hf.1 hg, val_validL t js' hf.2 hg2⟩
theorem val_validO : ∀ (kvs : RO) (js : JO (Num φ)), kvs.FloatLits → kvs.val L = some js → JValidO L js
  | .nil, js, _, h => by simp [RO.val] at h; subst h; simp [JValidO]
  | .single k v, js, hf, h => by
    cases hk : keyVal L k with
    | none => simp [RO.val, hk] at h
    | some kb =>
      cases hg : v.val L with
      | none => simp [RO.val, hk, hg] at h
      | some j => simp [RO.val, hk, hg] at h; subst h; simpa [JValidO] using val_valid v j hf hg
  | .cons k v t, js, hf, h => by
    cases hk : keyVal L k with
    | none => simp [RO.val, hk] at h
    | some kb =>
      cases hg : v.val L with
      | none => simp [RO.val, hk, hg] at h
      | some j =>
        cases hg2 : t.val L with
        | none => simp [RO.val, hk, hg, hg2] at h
        | some js' =>
          simp [RO.val, hk, hg, hg2] at h; subst h
          exact ⟨val_valid v j hf.1 hg, val_validO t js' hf.2 hg2⟩
end

end

end PubModel.C07
