/-
C07 — character level: lexing the text the printer writes gives back its tokens.
Part A: a literal with the shape `strconv.Quote` promises is one string token.
-/
import PubModel.C07.PrintSurface

namespace PubModel.C07

theorem digitVal_hex (c : Char) (h : isHexDigit c = true) : digitVal c < 16 := by
  simp only [isHexDigit, isDigit, Bool.or_eq_true, Bool.and_eq_true, decide_eq_true_eq] at h
  simp only [digitVal, isDigit, Bool.and_eq_true, decide_eq_true_eq]
  split
  · omega
  · split
    · omega
    · split
      · omega
      · omega

theorem lexEscape_simple (e : Char) (t : Chars) (h : e ∈ simpleEscapes ∨ e = '"') :
    lexEscape '"' (e :: t) = ([e], t, []) := by
  simp [lexEscape, h]

theorem x_not_simple : ¬ ('x' ∈ simpleEscapes ∨ 'x' = '"') ∧ isOctal 'x' = false := by decide
theorem u_not_simple : ¬ ('u' ∈ simpleEscapes ∨ 'u' = '"') ∧ isOctal 'u' = false := by decide
theorem U_not_simple : ¬ ('U' ∈ simpleEscapes ∨ 'U' = '"') ∧ isOctal 'U' = false := by decide

theorem lexEscape_x (a b : Char) (t : Chars) (ha : isHexDigit a = true) (hb : isHexDigit b = true) :
    lexEscape '"' ('x' :: a :: b :: t) = (['x', a, b], t, []) := by
  have h1 := digitVal_hex a ha
  have h2 := digitVal_hex b hb
  have ha' : ¬ digitVal a ≥ 16 := by omega
  have hb' : ¬ digitVal b ≥ 16 := by omega
  have hv : ¬ ((0 * 16 + digitVal a) * 16 + digitVal b > 255 ∨
      (0xD800 ≤ (0 * 16 + digitVal a) * 16 + digitVal b ∧ (0 * 16 + digitVal a) * 16 + digitVal b < 0xE000)) := by omega
  simp only [lexEscape, x_not_simple.1, x_not_simple.2, ↓reduceIte, Bool.false_eq_true, escDigits, ha', hb',
    escFinish, hv, List.cons_append, List.nil_append]

theorem lexEscape_u (a b c d : Char) (t : Chars) (ha : isHexDigit a = true) (hb : isHexDigit b = true)
    (hc : isHexDigit c = true) (hd : isHexDigit d = true) (hok : okRune (hexVal4 a b c d) = true) :
    lexEscape '"' ('u' :: a :: b :: c :: d :: t) = (['u', a, b, c, d], t, []) := by
  have h1 := digitVal_hex a ha; have h2 := digitVal_hex b hb
  have h3 := digitVal_hex c hc; have h4 := digitVal_hex d hd
  have ha' : ¬ digitVal a ≥ 16 := by omega
  have hb' : ¬ digitVal b ≥ 16 := by omega
  have hc' : ¬ digitVal c ≥ 16 := by omega
  have hd' : ¬ digitVal d ≥ 16 := by omega
  simp [okRune, hexVal4] at hok
  have hv : ¬ ((((0 * 16 + digitVal a) * 16 + digitVal b) * 16 + digitVal c) * 16 + digitVal d > 0x10FFFF ∨
      (0xD800 ≤ (((0 * 16 + digitVal a) * 16 + digitVal b) * 16 + digitVal c) * 16 + digitVal d ∧
        (((0 * 16 + digitVal a) * 16 + digitVal b) * 16 + digitVal c) * 16 + digitVal d < 0xE000)) := by
    have hle := hok.1
    rcases hok.2 with h | h <;> (have := of_decide_eq_false h; omega)
  have un : ¬ ('u' = 'x') := by decide
  simp only [lexEscape, u_not_simple.1, u_not_simple.2, ↓reduceIte, Bool.false_eq_true, escDigits, ha', hb', hc', hd',
    escFinish, hv, List.cons_append, List.nil_append, un]

theorem okRune_spec (v : Nat) (h : okRune v = true) : v ≤ 0x10FFFF ∧ ¬ (0xD800 ≤ v ∧ v < 0xE000) := by
  simp [okRune] at h
  refine ⟨h.1, ?_⟩
  rcases h.2 with h2 | h2 <;> omega

theorem lexEscape_U (a b c d a2 b2 c2 d2 : Char) (t : Chars)
    (ha : isHexDigit a = true) (hb : isHexDigit b = true) (hc : isHexDigit c = true) (hd : isHexDigit d = true)
    (ha2 : isHexDigit a2 = true) (hb2 : isHexDigit b2 = true) (hc2 : isHexDigit c2 = true) (hd2 : isHexDigit d2 = true)
    (hok : okRune (hexVal4 a b c d * 65536 + hexVal4 a2 b2 c2 d2) = true) :
    lexEscape '"' ('U' :: a :: b :: c :: d :: a2 :: b2 :: c2 :: d2 :: t) = (['U', a, b, c, d, a2, b2, c2, d2], t, []) := by
  have h1 := digitVal_hex a ha; have h2 := digitVal_hex b hb
  have h3 := digitVal_hex c hc; have h4 := digitVal_hex d hd
  have h5 := digitVal_hex a2 ha2; have h6 := digitVal_hex b2 hb2
  have h7 := digitVal_hex c2 hc2; have h8 := digitVal_hex d2 hd2
  have ha' : ¬ digitVal a ≥ 16 := by omega
  have hb' : ¬ digitVal b ≥ 16 := by omega
  have hc' : ¬ digitVal c ≥ 16 := by omega
  have hd' : ¬ digitVal d ≥ 16 := by omega
  have ha2' : ¬ digitVal a2 ≥ 16 := by omega
  have hb2' : ¬ digitVal b2 ≥ 16 := by omega
  have hc2' : ¬ digitVal c2 ≥ 16 := by omega
  have hd2' : ¬ digitVal d2 ≥ 16 := by omega
  have hs := okRune_spec _ hok
  simp only [hexVal4] at hs
  have hv : ¬ ((((((((0 * 16 + digitVal a) * 16 + digitVal b) * 16 + digitVal c) * 16 + digitVal d) * 16 + digitVal a2) * 16 +
        digitVal b2) * 16 + digitVal c2) * 16 + digitVal d2 > 0x10FFFF ∨
      (0xD800 ≤ (((((((0 * 16 + digitVal a) * 16 + digitVal b) * 16 + digitVal c) * 16 + digitVal d) * 16 + digitVal a2) * 16 +
        digitVal b2) * 16 + digitVal c2) * 16 + digitVal d2 ∧
       (((((((0 * 16 + digitVal a) * 16 + digitVal b) * 16 + digitVal c) * 16 + digitVal d) * 16 + digitVal a2) * 16 +
        digitVal b2) * 16 + digitVal c2) * 16 + digitVal d2 < 0xE000)) := by
    omega
  have un : ¬ ('U' = 'x') ∧ ¬ ('U' = 'u') := by decide
  simp only [lexEscape, U_not_simple.1, U_not_simple.2, ↓reduceIte, Bool.false_eq_true, escDigits, ha', hb', hc', hd',
    ha2', hb2', hc2', hd2', escFinish, hv, List.cons_append, List.nil_append, un.1, un.2]

/-- a literal with the shape `strconv.Quote` promises is lexed as one string token without
    error, whatever follows (the loop of LexString after the opening quote) -/
theorem lexStrBody_quote : ∀ (m : Nat) (a : Chars), a.length ≤ m → scanQuoteBody a = some [] →
    ∀ (n : Nat), a.length ≤ n → ∀ (rest : Chars), lexStrBody '"' n (a ++ rest) = (a, rest, [])
  | _, [], _, h, _, _, _ => by simp [scanQuoteBody] at h
  | 0, _ :: _, hm, _, _, _, _ => by simp at hm
  | m+1, c :: r, hm, h, n, hn, rest => by
    cases n with
    | zero => simp at hn
    | succ n' =>
      have hm' : r.length ≤ m := by simpa using hm
      have hn' : r.length ≤ n' := by simpa using hn
      unfold scanQuoteBody at h
      by_cases hq : c = '"'
      · subst hq
        simp only [↓reduceIte, Option.some.injEq] at h
        subst h
        simp [lexStrBody]
      · simp only [hq, ↓reduceIte] at h
        by_cases hnl : c = '\n'
        · simp [hnl] at h
        · simp only [hnl, ↓reduceIte] at h
          by_cases hb : c = '\\'
          · subst hb
            simp only [↓reduceIte] at h
            have hne1 : ¬ ('\\' = '\n') := by decide
            have hne2 : ¬ ('\\' = '"') := by decide
            cases r with
            | nil => simp at h
            | cons e r' =>
              simp only [] at h
              by_cases hs : e ∈ simpleEscapes ∨ e = '"'
              · simp only [hs, ↓reduceIte] at h
                have ih := lexStrBody_quote m r' (by simp at hm'; omega) h n' (by simp at hn'; omega) rest
                simp [lexStrBody, lexEscape_simple e _ hs, ih]
              · simp only [hs, ↓reduceIte] at h
                by_cases hx : e = 'x'
                · subst hx
                  simp only [↓reduceIte] at h
                  match r', h, hm', hn' with
                  | a1 :: b1 :: r'', h, hm', hn' =>
                    simp only [] at h
                    by_cases hh : (isHexDigit a1 && isHexDigit b1) = true
                    · simp only [hh, ↓reduceIte] at h
                      simp only [Bool.and_eq_true] at hh
                      have ih := lexStrBody_quote m r'' (by simp at hm'; omega) h n' (by simp at hn'; omega) rest
                      simp [lexStrBody, lexEscape_x a1 b1 _ hh.1 hh.2, ih]
                    · simp [hh] at h
                  | [], h, _, _ => simp at h
                  | [_], h, _, _ => simp at h
                · simp only [hx, ↓reduceIte] at h
                  by_cases hu : e = 'u'
                  · subst hu
                    simp only [↓reduceIte] at h
                    match r', h, hm', hn' with
                    | a1 :: b1 :: c1 :: d1 :: r'', h, hm', hn' =>
                      simp only [] at h
                      by_cases hh : (isHexDigit a1 && isHexDigit b1 && isHexDigit c1 && isHexDigit d1 &&
                          okRune (hexVal4 a1 b1 c1 d1)) = true
                      · simp only [hh, ↓reduceIte] at h
                        simp only [Bool.and_eq_true] at hh
                        have ih := lexStrBody_quote m r'' (by simp at hm'; omega) h n' (by simp at hn'; omega) rest
                        simp [lexStrBody, lexEscape_u a1 b1 c1 d1 _ hh.1.1.1.1 hh.1.1.1.2 hh.1.1.2 hh.1.2 hh.2, ih]
                      · simp [hh] at h
                    | [], h, _, _ => simp at h
                    | [_], h, _, _ => simp at h
                    | [_, _], h, _, _ => simp at h
                    | [_, _, _], h, _, _ => simp at h
                  · simp only [hu, ↓reduceIte] at h
                    by_cases hU : e = 'U'
                    · subst hU
                      simp only [↓reduceIte] at h
                      match r', h, hm', hn' with
                      | a1 :: b1 :: c1 :: d1 :: a2 :: b2 :: c2 :: d2 :: r'', h, hm', hn' =>
                        simp only [] at h
                        by_cases hh : (isHexDigit a1 && isHexDigit b1 && isHexDigit c1 && isHexDigit d1 &&
                            isHexDigit a2 && isHexDigit b2 && isHexDigit c2 && isHexDigit d2 &&
                            okRune (hexVal4 a1 b1 c1 d1 * 65536 + hexVal4 a2 b2 c2 d2)) = true
                        · simp only [hh, ↓reduceIte] at h
                          simp only [Bool.and_eq_true] at hh
                          have ih := lexStrBody_quote m r'' (by simp at hm'; omega) h n' (by simp at hn'; omega) rest
                          simp [lexStrBody, lexEscape_U a1 b1 c1 d1 a2 b2 c2 d2 _ hh.1.1.1.1.1.1.1.1 hh.1.1.1.1.1.1.1.2
                            hh.1.1.1.1.1.1.2 hh.1.1.1.1.1.2 hh.1.1.1.1.2 hh.1.1.1.2 hh.1.1.2 hh.1.2 hh.2, ih]
                        · simp [hh] at h
                      | [], h, _, _ => simp at h
                      | [_], h, _, _ => simp at h
                      | [_, _], h, _, _ => simp at h
                      | [_, _, _], h, _, _ => simp at h
                      | [_, _, _, _], h, _, _ => simp at h
                      | [_, _, _, _, _], h, _, _ => simp at h
                      | [_, _, _, _, _, _], h, _, _ => simp at h
                      | [_, _, _, _, _, _, _], h, _, _ => simp at h
                    · simp [hU] at h
          · simp only [hb, ↓reduceIte] at h
            have ih := lexStrBody_quote m r hm' h n' hn' rest
            simp [lexStrBody, hnl, hq, hb, ih]

/-- LexString on a literal of that shape -/
theorem lexString_quote (lit rest : Chars) (h : isQuoteShape lit = true) :
    lexString (lit ++ rest) = (⟨⟨.str, lit⟩, []⟩, rest) := by
  cases lit with
  | nil => simp [isQuoteShape] at h
  | cons c r =>
    simp only [isQuoteShape, Bool.and_eq_true, decide_eq_true_eq] at h
    have := lexStrBody_quote r.length r (Nat.le_refl _) h.2 (r.length + rest.length + 1) (by omega) rest
    simp [lexString, this, h.1]

end PubModel.C07
