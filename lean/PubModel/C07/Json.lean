/-
C07/C09 — RFC 8259 grammar as decidable predicates: number, string, JSON text.
The harness checks these recognisers against `encoding/json` (`json.Valid`) on
every run, so the specification side is validated too.
-/
import PubModel.C07.Lex

namespace PubModel.C07

/-! ### numbers: `-? (0 | [1-9][0-9]*) (\. [0-9]+)? ([eE] [+-]? [0-9]+)?`
Scanners return the unread rest. -/

def headIs (p : Char → Bool) (cs : Chars) : Bool :=
  match cs with
  | [] => false
  | c :: _ => p c

def scanInt (cs : Chars) : Option Chars :=
  match cs with
  | [] => none
  | c :: r => if c = '0' then some r else if isDigit c then some (r.dropWhile isDigit) else none

def scanFrac (cs : Chars) : Option Chars :=
  if cs.head? = some '.' then
    if headIs isDigit (cs.drop 1) then some ((cs.drop 1).dropWhile isDigit) else none
  else some cs

def dropSign (cs : Chars) : Chars :=
  match cs with
  | [] => []
  | s :: r => if s = '+' ∨ s = '-' then r else s :: r

def scanExp (cs : Chars) : Option Chars :=
  match cs with
  | [] => some []
  | e :: r =>
    if e = 'e' ∨ e = 'E' then
      if headIs isDigit (dropSign r) then some ((dropSign r).dropWhile isDigit) else none
    else some (e :: r)

def scanUNumber (cs : Chars) : Option Chars := (scanInt cs).bind fun r => (scanFrac r).bind scanExp

def scanNumber (cs : Chars) : Option Chars :=
  if cs.head? = some '-' then scanUNumber (cs.drop 1) else scanUNumber cs

/-- an unsigned RFC 8259 number literal -/
def isJsonUNum (cs : Chars) : Bool := scanUNumber cs = some []
/-- an RFC 8259 number literal -/
def isJsonNum (cs : Chars) : Bool := scanNumber cs = some []

/-- digits only (the literal has no fraction and no exponent) -/
def isIntLit (cs : Chars) : Bool := cs ≠ [] && cs.all isDigit

/-! ### strings -/

def jsonEscapes : List Char := ['"', '\\', '/', 'b', 'f', 'n', 'r', 't']

/-- after the opening quote: the rest after the closing quote -/
def scanStrBody : Chars → Option Chars
  | [] => none
  | c :: r =>
    if c = '"' then some r
    else if c = '\\' then
      match r with
      | [] => none
      | e :: r' =>
        if e ∈ jsonEscapes then scanStrBody r'
        else if e = 'u' then
          match r' with
          | a :: b :: c' :: d :: r'' =>
            if isHexDigit a && isHexDigit b && isHexDigit c' && isHexDigit d then scanStrBody r'' else none
          | _ => none
        else none
    else if c.toNat < 0x20 then none
    else scanStrBody r

def scanString (cs : Chars) : Option Chars :=
  match cs with
  | [] => none
  | c :: r => if c = '"' then scanStrBody r else none

/-- an RFC 8259 string literal -/
def isJsonStr (cs : Chars) : Bool := scanString cs = some []

/-! ### JSON text -/

def isJsonWs (c : Char) : Bool := c = ' ' || c = '\t' || c = '\n' || c = '\r'
def skipWs (cs : Chars) : Chars := cs.dropWhile isJsonWs

def dropPrefix (p cs : Chars) : Option Chars :=
  if p.isPrefixOf cs then some (cs.drop p.length) else none

mutual
def scanValue : Nat → Chars → Option Chars
  | 0, _ => none
  | n+1, cs =>
    match cs with
    | [] => none
    | c :: r =>
      if c = '{' then
        let r1 := skipWs r
        if r1.head? = some '}' then some (r1.drop 1) else scanMembers n r1
      else if c = '[' then
        let r1 := skipWs r
        if r1.head? = some ']' then some (r1.drop 1) else scanElems n r1
      else if c = '"' then scanStrBody r
      else if c = '-' ∨ isDigit c then scanNumber (c :: r)
      else if c = 't' then dropPrefix (str "true") (c :: r)
      else if c = 'f' then dropPrefix (str "false") (c :: r)
      else if c = 'n' then dropPrefix (str "null") (c :: r)
      else none
def scanElems : Nat → Chars → Option Chars
  | 0, _ => none
  | n+1, cs =>
    match scanValue n cs with
    | none => none
    | some r =>
      let r1 := skipWs r
      if r1.head? = some ',' then scanElems n (skipWs (r1.drop 1))
      else if r1.head? = some ']' then some (r1.drop 1)
      else none
def scanMembers : Nat → Chars → Option Chars
  | 0, _ => none
  | n+1, cs =>
    match scanString cs with
    | none => none
    | some r =>
      let r1 := skipWs r
      if r1.head? = some ':' then
        match scanValue n (skipWs (r1.drop 1)) with
        | none => none
        | some r2 =>
          let r3 := skipWs r2
          if r3.head? = some ',' then scanMembers n (skipWs (r3.drop 1))
          else if r3.head? = some '}' then some (r3.drop 1)
          else none
      else none
end

/-- an RFC 8259 JSON text -/
def isJson (cs : Chars) : Bool :=
  match scanValue (2 * cs.length + 2) (skipWs cs) with
  | some r => skipWs r = []
  | none => false

/-! ### shape of `strconv.Quote` output (contract of the `quote` leaf): `"`, then
units, then `"`; a unit is a rune other than `"`, `\`, newline, or one of the
escapes `\a \b \f \n \r \t \v \\ \" \xHH \uHHHH \UHHHHHHHH` (code point valid) -/

def hexVal4 (a b c d : Char) : Nat := ((digitVal a * 16 + digitVal b) * 16 + digitVal c) * 16 + digitVal d

def okRune (v : Nat) : Bool := v ≤ 0x10FFFF && !(0xD800 ≤ v && v < 0xE000)

def scanQuoteBody : Chars → Option Chars
  | [] => none
  | c :: r =>
    if c = '"' then some r
    else if c = '\n' then none
    else if c = '\\' then
      match r with
      | [] => none
      | e :: r' =>
        if e ∈ simpleEscapes ∨ e = '"' then scanQuoteBody r'
        else if e = 'x' then
          match r' with
          | a :: b :: r'' => if isHexDigit a && isHexDigit b then scanQuoteBody r'' else none
          | _ => none
        else if e = 'u' then
          match r' with
          | a :: b :: c' :: d :: r'' =>
            if isHexDigit a && isHexDigit b && isHexDigit c' && isHexDigit d && okRune (hexVal4 a b c' d)
            then scanQuoteBody r'' else none
          | _ => none
        else if e = 'U' then
          match r' with
          | a :: b :: c' :: d :: a2 :: b2 :: c2 :: d2 :: r'' =>
            if isHexDigit a && isHexDigit b && isHexDigit c' && isHexDigit d &&
               isHexDigit a2 && isHexDigit b2 && isHexDigit c2 && isHexDigit d2 &&
               okRune (hexVal4 a b c' d * 65536 + hexVal4 a2 b2 c2 d2)
            then scanQuoteBody r'' else none
          | _ => none
        else none
    else scanQuoteBody r

/-- the literal has the shape `strconv.Quote` promises -/
def isQuoteShape (cs : Chars) : Bool :=
  match cs with
  | [] => false
  | c :: r => c = '"' && scanQuoteBody r = some []

end PubModel.C07
