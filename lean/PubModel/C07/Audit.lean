import PubModel.C07.Theorems
open PubModel.C07
#print axioms number_literal_accepted
#print axioms ident_key_iff_isIdent
#print axioms keyword_keys_quoted
#print axioms lexIdent_accepts
#print axioms parse_render
#print axioms unmarshal_render
#print axioms marshal_unmarshal_partial
#print axioms goInt_json
#print axioms demoLeaf_roundTrip
#print axioms fixedCfg_ok
#print axioms pinned_lexNumber_rejects_exp_plus
#print axioms pinned_unmarshal_1e6_fails
#print axioms pinned_unmarshal_neg_float
#print axioms fixed_unmarshal_1e6
#print axioms fixed_unmarshal_neg_float
#print axioms gen_exp_signs
#print axioms gen_signed_float
#print axioms gen_use_number
#print axioms gen_int_conv
#print axioms gen_keywords
#print axioms gen_operator_arms
#print axioms gen_depth_limit
#print axioms gen_depth_balanced
#print axioms gen_cfg_ok
