/-
C09 — the converse direction: whatever token stream `parseValue` accepts without
error is the token stream of a surface tree (followed by the unread rest), and the
syntax tree it built is the tree's.
-/
import PubModel.C07.LemmasEncode

namespace PubModel.C07

/-- the tokens still to be read, look-ahead first -/
def PS.tl (ps : PS) : List Tok := ps.toks.map (·.tok)

/-- no lexer error surfaced and no parser error recorded so far -/
def NoErr (ps : PS) : Prop := ps.lexErrs = [] ∧ ps.errs = []

/-- the jail flag is only ever set together with an error (`ErrorList.Add`) -/
def JailInv (ps : PS) : Prop := ps.jail = true → ps.errs ≠ []

theorem jail_false {ps : PS} (hi : JailInv ps) (hn : NoErr ps) : ps.jail = false := by
  cases hj : ps.jail with
  | false => rfl
  | true => exact absurd hn.2 (hi hj)

theorem tl_cons (ps : PS) (h : ps.cur.ty ≠ .eof) : ps.tl = ps.cur :: ps.shift.tl := by
  cases ps with
  | mk toks le er jl =>
    cases toks with
    | nil => simp [PS.cur, eofTok] at h
    | cons t r => simp [PS.tl, PS.cur, PS.shift]

theorem noErr_shift {ps : PS} (h : NoErr ps.shift) : NoErr ps := by
  cases ps with
  | mk toks le er jl =>
    cases toks with
    | nil => simpa [PS.shift] using h
    | cons t r =>
      simp only [PS.shift, NoErr] at h ⊢
      exact ⟨(List.append_eq_nil_iff.1 h.1).1, h.2⟩

theorem jailInv_shift {ps : PS} (h : JailInv ps) : JailInv ps.shift := by
  cases ps with
  | mk toks le er jl => cases toks <;> simpa [PS.shift, JailInv] using h

theorem jailInv_addErr (ps : PS) (c : String) : JailInv (ps.addErr c) := by
  intro _; simp [PS.addErr]

theorem not_noErr_addErr (ps : PS) (c : String) : ¬ NoErr (ps.addErr c) := by
  intro h; simp [PS.addErr, NoErr] at h

theorem seeOp_single {ps : PS} {c : Char} (h : ps.seeOp [c] = true) : ps.cur = tokOp c := by
  simp only [PS.seeOp, Bool.and_eq_true, decide_eq_true_eq, List.any_cons, List.any_nil, Bool.or_false] at h
  cases hc : ps.cur with
  | mk ty lit => rw [hc] at h; simp at h; simp [tokOp, h.1, h.2]

theorem seeOp_sign {ps : PS} (h : ps.seeOp ['+', '-'] = true) :
    ∃ c, (c = '+' ∨ c = '-') ∧ ps.cur = tokOp c := by
  simp only [PS.seeOp, Bool.and_eq_true, decide_eq_true_eq, List.any_cons, List.any_nil, Bool.or_false,
    Bool.or_eq_true] at h
  cases hc : ps.cur with
  | mk ty lit =>
    rw [hc] at h; simp at h
    rcases h.2 with h2 | h2
    · exact ⟨'+', .inl rfl, by simp [tokOp, h.1, h2]⟩
    · exact ⟨'-', .inr rfl, by simp [tokOp, h.1, h2]⟩

theorem jailInv_expectOp {ps : PS} (c : Char) (h : JailInv ps) : JailInv (ps.expectOp c) := by
  unfold PS.expectOp
  split
  · exact h
  · split
    · exact jailInv_shift h
    · exact jailInv_addErr _ _

/-- `expectOp` without a new error: the operator was there and was shifted -/
theorem noErr_expectOp {ps : PS} {c : Char} (hi : JailInv ps) (h : NoErr (ps.expectOp c)) :
    NoErr ps ∧ ps.cur = tokOp c ∧ ps.expectOp c = ps.shift := by
  unfold PS.expectOp at h ⊢
  by_cases hj : ps.jail = true
  · simp only [hj, if_true] at h
    exact absurd h.2 (hi hj)
  · simp only [hj] at h ⊢
    by_cases hs : ps.seeOp [c] = true
    · simp only [hs, if_true] at h ⊢
      exact ⟨noErr_shift h, seeOp_single hs, by simp⟩
    · simp only [hs] at h
      exact absurd h (not_noErr_addErr _ _)

section
variable {φ : Type} (L : Leaf φ)

theorem jailInv_checkString {ps : PS} (lit : Chars) (h : JailInv ps) : JailInv (checkString L lit ps) := by
  unfold checkString; split
  · exact h
  · exact jailInv_addErr _ _

theorem jailInv_checkFloat {ps : PS} (lit : Chars) (h : JailInv ps) : JailInv (checkFloat L lit ps) := by
  unfold checkFloat; split
  · exact h
  · exact jailInv_addErr _ _

theorem noErr_checkString {ps : PS} {lit : Chars} (h : NoErr (checkString L lit ps)) :
    NoErr ps ∧ checkString L lit ps = ps := by
  unfold checkString at h ⊢
  split
  · rename_i hs; simp only [hs, if_true] at h; exact ⟨h, rfl⟩
  · rename_i hs; simp only [hs] at h; exact absurd h (not_noErr_addErr _ _)

theorem noErr_checkFloat {ps : PS} {lit : Chars} (h : NoErr (checkFloat L lit ps)) :
    NoErr ps ∧ checkFloat L lit ps = ps := by
  unfold checkFloat at h ⊢
  split
  · rename_i hs; simp only [hs, if_true] at h; exact ⟨h, rfl⟩
  · rename_i hs; simp only [hs] at h; exact absurd h (not_noErr_addErr _ _)

end

theorem tok_eta (t : Tok) : (⟨t.ty, t.lit⟩ : Tok) = t := by cases t; rfl

theorem seeOp_of_cur {ps : PS} {c : Char} (h : ps.cur = tokOp c) : ps.seeOp [c] = true := by
  simp [PS.seeOp, h, tokOp]

/-- parseIdentList -/
theorem sound_idents : ∀ (n : Nat) (ps : PS) (acc : List Chars), JailInv ps →
    JailInv (parseIdents n ps acc).2 ∧
    (NoErr (parseIdents n ps acc).2 → NoErr ps ∧ ∃ a more,
      ps.tl = ⟨.ident, a⟩ :: (identToks more ++ (parseIdents n ps acc).2.tl) ∧
      (parseIdents n ps acc).1 = acc ++ a :: more)
  | 0, ps, acc, _ => by
    simp only [parseIdents]
    exact ⟨jailInv_addErr _ _, fun h => absurd h (not_noErr_addErr _ _)⟩
  | n+1, ps, acc, hi => by
    simp only [parseIdents]
    by_cases hj : ps.jail = true
    · simp only [hj, ↓reduceIte]
      exact ⟨hi, fun h => absurd h.2 (hi hj)⟩
    · have hjf : ps.jail = false := by simpa using hj
      simp only [hjf, Bool.false_eq_true, ↓reduceIte]
      by_cases ht : ps.cur.ty = .ident
      · simp only [ne_eq, ht, not_true_eq_false, ↓reduceIte]
        have hcur : ps.cur = ⟨.ident, ps.cur.lit⟩ := by
          have := tok_eta ps.cur; rw [ht] at this; exact this.symm
        have htl := tl_cons ps (by rw [ht]; decide)
        by_cases hd : ps.shift.seeOp ['.'] = true
        · simp only [hd, ↓reduceIte]
          have ih := sound_idents n ps.shift.shift (acc ++ [ps.cur.lit]) (jailInv_shift (jailInv_shift hi))
          refine ⟨ih.1, fun h => ?_⟩
          obtain ⟨hn, b, more, htl2, hres⟩ := ih.2 h
          have hdot := seeOp_single hd
          have htl1 := tl_cons ps.shift (by rw [hdot]; simp [tokOp])
          refine ⟨noErr_shift (noErr_shift hn), ps.cur.lit, b :: more, ?_, ?_⟩
          · rw [htl, htl1, htl2, hdot, hcur]
            simp [identToks]
          · rw [hres]; simp
        · simp only [hd]
          refine ⟨jailInv_shift hi, fun h => ⟨noErr_shift h, ps.cur.lit, [], ?_, by simp⟩⟩
          rw [htl, hcur]; simp [identToks]
      · simp only [ne_eq, ht, not_false_eq_true, ↓reduceIte]
        exact ⟨jailInv_addErr _ _, fun h => absurd h (not_noErr_addErr _ _)⟩

/-- what follows an entry: a comma (consumed), or the closing bracket (left in place) -/
theorem sep_step (q : PS) (close : Char) (hi : JailInv q) :
    JailInv (if q.seeOp [','] = true then q.shift else if ¬ q.seeOp [close] = true then q.expectOp ',' else q) ∧
    (NoErr (if q.seeOp [','] = true then q.shift else if ¬ q.seeOp [close] = true then q.expectOp ',' else q) →
      NoErr q ∧
      ((q.seeOp [','] = true ∧ q.tl = tokOp ',' :: q.shift.tl ∧
          (if q.seeOp [','] = true then q.shift else if ¬ q.seeOp [close] = true then q.expectOp ',' else q) = q.shift) ∨
       (q.seeOp [','] = false ∧ q.seeOp [close] = true ∧
          (if q.seeOp [','] = true then q.shift else if ¬ q.seeOp [close] = true then q.expectOp ',' else q) = q))) := by
  by_cases hc : q.seeOp [','] = true
  · simp only [hc, ↓reduceIte]
    refine ⟨jailInv_shift hi, fun h => ⟨noErr_shift h, .inl ⟨trivial, ?_, trivial⟩⟩⟩
    have := seeOp_single hc
    have htl := tl_cons q (by rw [this]; simp [tokOp])
    rw [htl, this]
  · have hcf : q.seeOp [','] = false := by simpa using hc
    simp only [hcf, Bool.false_eq_true, ↓reduceIte]
    by_cases hb : q.seeOp [close] = true
    · simp only [hb, not_true_eq_false, ↓reduceIte]
      exact ⟨hi, fun h => ⟨h, .inr ⟨trivial, trivial, trivial⟩⟩⟩
    · simp only [hb, not_false_eq_true, ↓reduceIte]
      refine ⟨jailInv_expectOp _ hi, fun h => ?_⟩
      have := (noErr_expectOp hi h).2.1
      exact absurd (seeOp_of_cur this) hc

section
variable {φ : Type} (cfg : Cfg) (hcfg : CfgOK cfg) (L : Leaf φ)
include hcfg

/-- what `parseX n ps` returned without error: the tokens it read are those of a surface
    tree, what it built is the tree's syntax tree -/
def SoundV (ps : PS) (res : V × PS) : Prop :=
  JailInv res.2 ∧ (NoErr res.2 → NoErr ps ∧ ∃ r : RV, ps.tl = r.toks ++ res.2.tl ∧ res.1 = r.ast ∧ r.WF)
def SoundL (ps : PS) (res : VItems × PS) : Prop :=
  JailInv res.2 ∧ (NoErr res.2 → NoErr ps ∧ ∃ xs : RL, ps.tl = xs.toks ++ res.2.tl ∧ res.1 = xs.ast ∧ xs.WF)
def SoundO (ps : PS) (res : VEntries × PS) : Prop :=
  JailInv res.2 ∧ (NoErr res.2 → NoErr ps ∧ ∃ kvs : RO, ps.tl = kvs.toks ++ res.2.tl ∧ res.1 = kvs.ast ∧ kvs.WF)

omit hcfg in
theorem sound_fail {α : Type} (a : α) (ps q : PS) (c : String) (P : PS → α × PS → Prop)
    (h : ∀ res : α × PS, (JailInv res.2 ∧ ¬ NoErr res.2) → P ps res) : P ps (a, q.addErr c) :=
  h _ ⟨jailInv_addErr _ _, not_noErr_addErr _ _⟩

mutual
theorem sound_value : ∀ (n : Nat) (ps : PS), JailInv ps → SoundV ps (parseValue cfg L n ps)
  | 0, ps, _ => by
    simp only [parseValue]
    exact ⟨jailInv_addErr _ _, fun h => absurd h (not_noErr_addErr _ _)⟩
  | n+1, ps, hi => by
    simp only [parseValue]
    by_cases h1 : ps.cur.ty = .keyword
    · -- keyword
      simp only [h1, ↓reduceIte]
      have htl := tl_cons ps (by rw [h1]; decide)
      have hcur : ps.cur = tokKw ps.cur.lit := by
        have := tok_eta ps.cur; rw [h1] at this; exact this.symm
      by_cases hb : ps.cur.lit = kwTrue ∨ ps.cur.lit = kwFalse
      · simp only [hb, ↓reduceIte]
        refine ⟨jailInv_shift hi, fun h => ⟨noErr_shift h, ?_⟩⟩
        rcases hb with hb | hb
        · exact ⟨.tru, by rw [htl, hcur, hb]; simp [RV.toks], by simp [RV.ast, hb], trivial⟩
        · exact ⟨.fls, by rw [htl, hcur, hb]; simp [RV.toks], by simp [RV.ast, hb], trivial⟩
      · simp only [hb, ↓reduceIte]
        by_cases hnl : ps.cur.lit = kwNull
        · simp only [hnl, ↓reduceIte]
          exact ⟨jailInv_shift hi, fun h => ⟨noErr_shift h, .null, by rw [htl, hcur, hnl]; simp [RV.toks],
            by simp [RV.ast], trivial⟩⟩
        · simp only [hnl, ↓reduceIte]
          exact ⟨jailInv_addErr _ _, fun h => absurd h (not_noErr_addErr _ _)⟩
    · simp only [h1, ↓reduceIte]
      by_cases h2 : ps.cur.ty = .str
      · -- string
        simp only [h2, ↓reduceIte]
        have htl := tl_cons ps (by rw [h2]; decide)
        have hcur : ps.cur = ⟨.str, ps.cur.lit⟩ := by
          have := tok_eta ps.cur; rw [h2] at this; exact this.symm
        refine ⟨jailInv_checkString L _ (jailInv_shift hi), fun h => ?_⟩
        obtain ⟨hn, heq⟩ := noErr_checkString L h
        refine ⟨noErr_shift hn, .str ps.cur.lit, ?_, by simp [RV.ast], trivial⟩
        rw [heq, htl]; rw [hcur]; simp [RV.toks]
      · simp only [h2, ↓reduceIte]
        by_cases h3 : ps.cur.ty = .int
        · -- integer
          simp only [h3, ↓reduceIte]
          have htl := tl_cons ps (by rw [h3]; decide)
          have hcur : ps.cur = ⟨.int, ps.cur.lit⟩ := by
            have := tok_eta ps.cur; rw [h3] at this; exact this.symm
          refine ⟨jailInv_shift hi, fun h => ⟨noErr_shift h, .int none ps.cur.lit, ?_, by simp [RV.ast], ?_⟩⟩
          · rw [htl]; rw [hcur]; simp [RV.toks, leadToks]
          · simp [RV.WF, leadOK]
        · simp only [h3, ↓reduceIte]
          by_cases h4 : ps.cur.ty = .float
          · -- float
            simp only [h4, ↓reduceIte]
            have htl := tl_cons ps (by rw [h4]; decide)
            have hcur : ps.cur = ⟨.float, ps.cur.lit⟩ := by
              have := tok_eta ps.cur; rw [h4] at this; exact this.symm
            refine ⟨jailInv_checkFloat L _ (jailInv_shift hi), fun h => ?_⟩
            obtain ⟨hn, heq⟩ := noErr_checkFloat L h
            refine ⟨noErr_shift hn, .flt none ps.cur.lit, ?_, by simp [RV.ast], by simp [RV.WF, leadOK]⟩
            rw [heq, htl]; rw [hcur]; simp [RV.toks, leadToks]
          · simp only [h4, ↓reduceIte]
            by_cases h5 : ps.seeOp ['+', '-'] = true
            · -- sign
              simp only [h5, ↓reduceIte]
              obtain ⟨c, hc, hcur⟩ := seeOp_sign h5
              have htl := tl_cons ps (by rw [hcur]; simp [tokOp])
              have hlit : ps.cur.lit = [c] := by rw [hcur]; rfl
              by_cases h6 : ps.shift.cur.ty = .int
              · simp only [h6, ↓reduceIte]
                have htl2 := tl_cons ps.shift (by rw [h6]; decide)
                have hcur2 : ps.shift.cur = ⟨.int, ps.shift.cur.lit⟩ := by
                  have := tok_eta ps.shift.cur; rw [h6] at this; exact this.symm
                refine ⟨jailInv_shift (jailInv_shift hi), fun h => ⟨noErr_shift (noErr_shift h),
                  .int (some c) ps.shift.cur.lit, ?_, by simp [RV.ast, hlit], hc⟩⟩
                rw [htl, htl2, hcur]; rw [hcur2]; simp [RV.toks, leadToks]
              · simp only [h6, ↓reduceIte]
                by_cases h7 : ps.shift.cur.ty = .float
                · simp only [h7, ↓reduceIte, hcfg.signedFloat]
                  have htl2 := tl_cons ps.shift (by rw [h7]; decide)
                  have hcur2 : ps.shift.cur = ⟨.float, ps.shift.cur.lit⟩ := by
                    have := tok_eta ps.shift.cur; rw [h7] at this; exact this.symm
                  refine ⟨jailInv_checkFloat L _ (jailInv_shift (jailInv_shift hi)), fun h => ?_⟩
                  obtain ⟨hn, heq⟩ := noErr_checkFloat L h
                  refine ⟨noErr_shift (noErr_shift hn), .flt (some c) ps.shift.cur.lit, ?_, by simp [RV.ast, hlit], hc⟩
                  rw [heq, htl, htl2, hcur]; rw [hcur2]; simp [RV.toks, leadToks]
                · simp only [h7, ↓reduceIte]
                  exact ⟨jailInv_addErr _ _, fun h => absurd h (not_noErr_addErr _ _)⟩
            · have h5f : ps.seeOp ['+', '-'] = false := by simpa using h5
              simp only [h5f, Bool.false_eq_true, ↓reduceIte]
              by_cases h6 : ps.seeOp ['{'] = true
              · -- object
                simp only [h6, ↓reduceIte]
                have hcur := seeOp_single h6
                have htl := tl_cons ps (by rw [hcur]; simp [tokOp])
                have ih := sound_entries n ps.shift (jailInv_shift hi)
                refine ⟨jailInv_expectOp _ ih.1, fun h => ?_⟩
                obtain ⟨hn, hc2, heq⟩ := noErr_expectOp ih.1 h
                obtain ⟨hn0, kvs, htl2, hast, hwf⟩ := ih.2 hn
                have htl3 := tl_cons (parseEntries cfg L n ps.shift).2 (by rw [hc2]; simp [tokOp])
                refine ⟨noErr_shift hn0, .obj kvs, ?_, by simp [RV.ast, hast], hwf⟩
                rw [heq, htl, htl2, htl3, hcur, hc2]; simp [RV.toks]
              · have h6f : ps.seeOp ['{'] = false := by simpa using h6
                simp only [h6f, Bool.false_eq_true, ↓reduceIte]
                by_cases h7 : ps.seeOp ['['] = true
                · -- list
                  simp only [h7, ↓reduceIte]
                  have hcur := seeOp_single h7
                  have htl := tl_cons ps (by rw [hcur]; simp [tokOp])
                  have ih := sound_items n ps.shift (jailInv_shift hi)
                  refine ⟨jailInv_expectOp _ ih.1, fun h => ?_⟩
                  obtain ⟨hn, hc2, heq⟩ := noErr_expectOp ih.1 h
                  obtain ⟨hn0, xs, htl2, hast, hwf⟩ := ih.2 hn
                  have htl3 := tl_cons (parseItems cfg L n ps.shift).2 (by rw [hc2]; simp [tokOp])
                  refine ⟨noErr_shift hn0, .arr xs, ?_, by simp [RV.ast, hast], hwf⟩
                  rw [heq, htl, htl2, htl3, hcur, hc2]; simp [RV.toks]
                · have h7f : ps.seeOp ['['] = false := by simpa using h7
                  simp only [h7f, Bool.false_eq_true, ↓reduceIte]
                  by_cases h8 : ps.cur.ty = .ident
                  · -- identifier list
                    simp only [h8, ↓reduceIte]
                    have ih := sound_idents n ps [] hi
                    refine ⟨ih.1, fun h => ?_⟩
                    obtain ⟨hn, a, more, htl, hres⟩ := ih.2 h
                    exact ⟨hn, .idents a more, by rw [htl]; simp [RV.toks], by simp [RV.ast, hres], trivial⟩
                  · simp only [h8, ↓reduceIte]
                    exact ⟨jailInv_addErr _ _, fun h => absurd h (not_noErr_addErr _ _)⟩

theorem sound_items : ∀ (n : Nat) (ps : PS), JailInv ps → SoundL ps (parseItems cfg L n ps)
  | 0, ps, _ => by
    simp only [parseItems]
    exact ⟨jailInv_addErr _ _, fun h => absurd h (not_noErr_addErr _ _)⟩
  | n+1, ps, hi => by
    simp only [parseItems]
    by_cases hc : ps.seeOp [']'] = true
    · simp only [hc, ↓reduceIte]
      exact ⟨hi, fun h => ⟨h, .nil, by simp [RL.toks], rfl, trivial⟩⟩
    · have hcf : ps.seeOp [']'] = false := by simpa using hc
      simp only [hcf, Bool.false_eq_true, ↓reduceIte]
      have ihv := sound_value n ps hi
      have hsep := sep_step (parseValue cfg L n ps).2 ']' ihv.1
      generalize hps3 : (if (parseValue cfg L n ps).2.seeOp [','] = true then (parseValue cfg L n ps).2.shift
        else if ¬ (parseValue cfg L n ps).2.seeOp [']'] = true then (parseValue cfg L n ps).2.expectOp ','
        else (parseValue cfg L n ps).2) = ps3 at hsep ⊢
      by_cases hj : ps3.jail = true
      · simp only [hj, ↓reduceIte]
        exact ⟨hsep.1, fun h => absurd h.2 (hsep.1 hj)⟩
      · have hjf : ps3.jail = false := by simpa using hj
        simp only [hjf, Bool.false_eq_true, ↓reduceIte]
        have ihl := sound_items n ps3 hsep.1
        refine ⟨ihl.1, fun h => ?_⟩
        obtain ⟨hn3, xs, htl3, hast3, hwf3⟩ := ihl.2 h
        obtain ⟨hnq, hcase⟩ := hsep.2 hn3
        obtain ⟨hn0, v, htlv, hastv, hwfv⟩ := ihv.2 hnq
        rcases hcase with ⟨_, htlq, heq⟩ | ⟨_, hclose, heq⟩
        · refine ⟨hn0, .cons v xs, ?_, by simp [RL.ast, hastv, hast3], ⟨hwfv, hwf3⟩⟩
          rw [htlv, htlq, ← heq, htl3]; simp [RL.toks]
        · -- the closing bracket follows: the recursive call returns at once
          subst heq
          cases n with
          | zero =>
            simp only [parseItems] at h
            exact absurd h (not_noErr_addErr _ _)
          | succ m =>
            simp only [parseItems, hclose, ↓reduceIte] at h ⊢
            refine ⟨hn0, .single v, ?_, by simp [RL.ast, hastv], hwfv⟩
            rw [htlv]; simp [RL.toks]

theorem sound_entries : ∀ (n : Nat) (ps : PS), JailInv ps → SoundO ps (parseEntries cfg L n ps)
  | 0, ps, _ => by
    simp only [parseEntries]
    exact ⟨jailInv_addErr _ _, fun h => absurd h (not_noErr_addErr _ _)⟩
  | n+1, ps, hi => by
    simp only [parseEntries]
    by_cases hc : ps.seeOp ['}'] = true
    · simp only [hc, ↓reduceIte]
      exact ⟨hi, fun h => ⟨h, .nil, by simp [RO.toks], rfl, trivial⟩⟩
    · have hcf : ps.seeOp ['}'] = false := by simpa using hc
      simp only [hcf, Bool.false_eq_true, ↓reduceIte]
      by_cases hk : ps.cur.ty = .ident ∨ ps.cur.ty = .str
      · simp only [hk, not_true_eq_false, ↓reduceIte]
        have htl := tl_cons ps (by rcases hk with h | h <;> (rw [h]; decide))
        -- the key, with its string check
        have hps1 : JailInv (if ps.cur.ty = .str then checkString L ps.cur.lit ps.shift else ps.shift) := by
          split
          · exact jailInv_checkString L _ (jailInv_shift hi)
          · exact jailInv_shift hi
        have hps1n : NoErr (if ps.cur.ty = .str then checkString L ps.cur.lit ps.shift else ps.shift) →
            NoErr ps ∧ (if ps.cur.ty = .str then checkString L ps.cur.lit ps.shift else ps.shift) = ps.shift := by
          intro h
          split at h
          · rename_i hs
            obtain ⟨hn, heq⟩ := noErr_checkString L h
            simp only [hs, ↓reduceIte]
            exact ⟨noErr_shift hn, heq⟩
          · rename_i hs
            simp only [hs, ↓reduceIte]
            exact ⟨noErr_shift h, trivial⟩
        generalize (if ps.cur.ty = .str then checkString L ps.cur.lit ps.shift else ps.shift) = ps1 at hps1 hps1n ⊢
        have hps2 := jailInv_expectOp ':' hps1
        have ihv := sound_value n (ps1.expectOp ':') hps2
        have hsep := sep_step (parseValue cfg L n (ps1.expectOp ':')).2 '}' ihv.1
        generalize hps3 : (if (parseValue cfg L n (ps1.expectOp ':')).2.seeOp [','] = true
          then (parseValue cfg L n (ps1.expectOp ':')).2.shift
          else if ¬ (parseValue cfg L n (ps1.expectOp ':')).2.seeOp ['}'] = true
            then (parseValue cfg L n (ps1.expectOp ':')).2.expectOp ','
          else (parseValue cfg L n (ps1.expectOp ':')).2) = ps3 at hsep ⊢
        -- the key as a surface key
        have hkey : ∃ k : RKey, keyTok k = ps.cur ∧ keyTy k = ps.cur.ty ∧ keyLit k = ps.cur.lit := by
          rcases hk with h | h
          · exact ⟨.bare ps.cur.lit, by have := tok_eta ps.cur; rw [h] at this; simpa [keyTok] using this,
              by simp [keyTy, h], rfl⟩
          · exact ⟨.quoted ps.cur.lit, by have := tok_eta ps.cur; rw [h] at this; simpa [keyTok] using this,
              by simp [keyTy, h], rfl⟩
        obtain ⟨k, hk1, hk2, hk3⟩ := hkey
        by_cases hj : ps3.jail = true
        · simp only [hj, ↓reduceIte]
          exact ⟨hsep.1, fun h => absurd h.2 (hsep.1 hj)⟩
        · have hjf : ps3.jail = false := by simpa using hj
          simp only [hjf, Bool.false_eq_true, ↓reduceIte]
          have iho := sound_entries n ps3 hsep.1
          refine ⟨iho.1, fun h => ?_⟩
          obtain ⟨hn3, kvs, htl3, hast3, hwf3⟩ := iho.2 h
          obtain ⟨hnq, hcase⟩ := hsep.2 hn3
          obtain ⟨hn2, v, htlv, hastv, hwfv⟩ := ihv.2 hnq
          obtain ⟨hn1, hcolon, heq2⟩ := noErr_expectOp hps1 hn2
          obtain ⟨hn0, heq1⟩ := hps1n hn1
          have htl1 := tl_cons ps1 (by rw [hcolon]; simp [tokOp])
          rcases hcase with ⟨_, htlq, heq⟩ | ⟨_, hclose, heq⟩
          · refine ⟨hn0, .cons k v kvs, ?_, by simp [RO.ast, hastv, hast3, hk2, hk3], ⟨hwfv, hwf3⟩⟩
            rw [htl, ← heq1, htl1, hcolon, ← heq2, htlv, htlq, ← heq, htl3, ← hk1]; simp [RO.toks]
          · subst heq
            cases n with
            | zero =>
              simp only [parseEntries] at h
              exact absurd h (not_noErr_addErr _ _)
            | succ m =>
              simp only [parseEntries, hclose, ↓reduceIte] at h ⊢
              refine ⟨hn0, .single k v, ?_, by simp [RO.ast, hastv, hk2, hk3], hwfv⟩
              rw [htl, ← heq1, htl1, hcolon, ← heq2, htlv, ← hk1]; simp [RO.toks]
      · simp only [hk, not_false_eq_true, ↓reduceIte]
        exact ⟨jailInv_addErr _ _, fun h => absurd h (not_noErr_addErr _ _)⟩
end

/-! ### the encoder succeeds only when every leaf has a meaning -/

mutual
theorem val_of_encode : ∀ (r : RV) (out : Chars), encodeValue cfg L r.ast = some out → (r.val L).isSome = true
  | .null, _, _ => by simp [RV.val]
  | .tru, _, _ => by simp [RV.val]
  | .fls, _, _ => by simp [RV.val]
  | .int lead lit, out, h => by
    cases hg : goInt lit with
    | none => simp [RV.ast, encodeValue, encodeBasic, hcfg.intConv, hg] at h
    | some n => simp [RV.val, hg]
  | .flt lead lit, out, h => by
    cases hg : L.parseFloat lit with
    | none => simp [RV.ast, encodeValue, encodeBasic, hg] at h
    | some f => simp [RV.val, hg]
  | .str lit, out, h => by
    cases hg : L.unquote lit with
    | none => simp [RV.ast, encodeValue, encodeBasic, hg] at h
    | some f => simp [RV.val, hg]
  | .arr xs, out, h => by
    cases hg : encodeItems cfg L xs.ast true with
    | none => simp [RV.ast, encodeValue, hg] at h
    | some o =>
      have := val_of_encodeL xs true o hg
      cases hv : xs.val L <;> simp [RV.val, hv] at this ⊢
  | .obj kvs, out, h => by
    cases hg : encodeEntries cfg L kvs.ast true with
    | none => simp [RV.ast, encodeValue, hg] at h
    | some o =>
      have := val_of_encodeO kvs true o hg
      cases hv : kvs.val L <;> simp [RV.val, hv] at this ⊢
  | .idents _ _, _, _ => by simp [RV.val]
theorem val_of_encodeL : ∀ (xs : RL) (first : Bool) (out : Chars), encodeItems cfg L xs.ast first = some out →
    (xs.val L).isSome = true
  | .nil, _, _, _ => by simp [RL.val]
  | .single v, first, out, h => by
    cases hg : encodeValue cfg L v.ast with
    | none => simp [RL.ast, encodeItems, hg] at h
    | some o =>
      have := val_of_encode v o hg
      cases hv : v.val L <;> simp [RL.val, hv] at this ⊢
  | .cons v t, first, out, h => by
    cases hg : encodeValue cfg L v.ast with
    | none => simp [RL.ast, encodeItems, hg] at h
    | some o =>
      cases hg2 : encodeItems cfg L t.ast false with
      | none => simp [RL.ast, encodeItems, hg, hg2] at h
      | some o2 =>
        have h1 := val_of_encode v o hg
        have h2 := val_of_encodeL t false o2 hg2
        cases hv : v.val L <;> cases ht : t.val L <;> simp [RL.val, hv, ht] at h1 h2 ⊢
theorem val_of_encodeO : ∀ (kvs : RO) (first : Bool) (out : Chars), encodeEntries cfg L kvs.ast first = some out →
    (kvs.val L).isSome = true
  | .nil, _, _, _ => by simp [RO.val]
  | .single k v, first, out, h => by
    have hk : (keyVal L k).isSome = true := by
      cases k with
      | bare lit => simp [keyVal]
      | quoted lit =>
        cases hu : L.unquote lit with
        | none => simp [RO.ast, encodeEntries, keyTy, keyLit, hu] at h
        | some s => simp [keyVal, hu]
    cases hg : encodeValue cfg L v.ast with
    | none => cases k <;> simp [RO.ast, encodeEntries, keyTy, keyLit, hg] at h
    | some o =>
      have h1 := val_of_encode v o hg
      cases hv : v.val L <;> cases hkv : keyVal L k <;> simp [RO.val, hv, hkv] at h1 hk ⊢
  | .cons k v t, first, out, h => by
    have hk : (keyVal L k).isSome = true := by
      cases k with
      | bare lit => simp [keyVal]
      | quoted lit =>
        cases hu : L.unquote lit with
        | none => simp [RO.ast, encodeEntries, keyTy, keyLit, hu] at h
        | some s => simp [keyVal, hu]
    cases hg : encodeValue cfg L v.ast with
    | none => cases k <;> simp [RO.ast, encodeEntries, keyTy, keyLit, hg] at h
    | some o =>
      cases hg2 : encodeEntries cfg L t.ast false with
      | none => cases k <;> simp [RO.ast, encodeEntries, keyTy, keyLit, hg, hg2] at h
      | some o2 =>
        have h1 := val_of_encode v o hg
        have h2 := val_of_encodeO t false o2 hg2
        cases hv : v.val L <;> cases ht : t.val L <;> cases hkv : keyVal L k <;>
          simp [RO.val, hv, ht, hkv] at h1 h2 hk ⊢
end

omit hcfg in
theorem noErr_of_firstErr {ps : PS} (h : ps.firstErr = none) : NoErr ps := by
  cases hl : ps.lexErrs with
  | cons e es => simp [PS.firstErr, hl] at h
  | nil =>
    cases he : ps.errs with
    | cons e es => simp [PS.firstErr, hl, he] at h
    | nil => exact ⟨hl, he⟩

/-- parse without error + encode without error = a surface tree and the canonical text of its meaning -/
theorem parse_encode_sound (n : Nat) (ts : List RTok) (out : Chars)
    (hfe : (parseValue cfg L n (PS.init ts)).2.firstErr = none)
    (henc : encodeValue cfg L (parseValue cfg L n (PS.init ts)).1 = some out) :
    ∃ (r : RV) (j : JV (Num φ)),
      ts.map (·.tok) = r.toks ++ (parseValue cfg L n (PS.init ts)).2.tl ∧ r.WF ∧ r.val L = some j ∧
      out = emit L j := by
  have hinv : JailInv (PS.init ts) := by intro hj; simp [PS.init] at hj
  have hs := sound_value cfg hcfg L n (PS.init ts) hinv
  obtain ⟨_, r, htl, hast, hwf⟩ := hs.2 (noErr_of_firstErr hfe)
  rw [hast] at henc
  have hsome := val_of_encode cfg hcfg L r out henc
  cases hv : r.val L with
  | none => simp [hv] at hsome
  | some j =>
    have := encodeValue_ast cfg hcfg L r j hv
    rw [henc] at this
    exact ⟨r, j, by simpa [PS.tl, PS.init] using htl, hwf, hv, by simpa using this⟩

/-- **Every token stream ToJSON accepts is a surface tree followed by the unread rest, and
    what is emitted is the canonical JSON text of the tree's documented meaning.** -/
theorem toJSONToks_sound (ts : List RTok) (out : Chars) (h : toJSONToks cfg L ts = .ok out) :
    ∃ (r : RV) (j : JV (Num φ)) (rest : List Tok),
      ts.map (·.tok) = r.toks ++ rest ∧ r.WF ∧ r.val L = some j ∧ out = emit L j := by
  simp only [toJSONToks] at h
  cases hfe : (parseValue cfg L (ts.length + 2) (PS.init ts)).2.firstErr with
  | some c => simp [hfe] at h
  | none =>
    simp only [hfe] at h
    cases henc : encodeValue cfg L (parseValue cfg L (ts.length + 2) (PS.init ts)).1 with
    | none => simp [henc] at h
    | some o =>
      simp only [henc, Res.ok.injEq] at h
      subst h
      obtain ⟨r, j, h1, h2, h3, h4⟩ := parse_encode_sound cfg hcfg L _ ts o hfe henc
      exact ⟨r, j, _, h1, h2, h3, h4⟩

/-- the same for Unmarshal, which in addition saw nothing but at most one separator and
    the end of the file after the tree -/
theorem unmarshalToks_sound (ts : List RTok) (out : Chars) (h : unmarshalToks cfg L ts = .ok out) :
    ∃ (r : RV) (j : JV (Num φ)) (rest : List Tok),
      ts.map (·.tok) = r.toks ++ rest ∧ r.WF ∧ r.val L = some j ∧ out = emit L j := by
  simp only [unmarshalToks, decodeToks] at h
  cases hfe : (parseValue cfg L (ts.length + 2) (PS.init ts)).2.firstErr with
  | some c => simp [hfe] at h
  | none =>
    simp only [hfe] at h
    cases henc : encodeValue cfg L (parseValue cfg L (ts.length + 2) (PS.init ts)).1 with
    | none => simp [henc] at h
    | some o =>
      simp only [henc] at h
      have ho : o = out := by
        split at h <;> split at h <;> first | (simp at h; done) | (simpa using h)
      subst ho
      obtain ⟨r, j, h1, h2, h3, h4⟩ := parse_encode_sound cfg hcfg L _ ts o hfe henc
      exact ⟨r, j, _, h1, h2, h3, h4⟩

end

end PubModel.C07
