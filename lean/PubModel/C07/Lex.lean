/-
C07/C09 — JSONx model, part 2: the lexer (lexing/number.go, lexing/string.go,
lexing/ident.go, lexing/comment.go, jsonx/lex.go, lexing/lexer.go Token),
UTF-8 decoding with Go's replacement rule (bufio.ReadRune).
-/
import PubModel.C07.Basic

namespace PubModel.C07

/-! ### UTF-8 (bufio.Reader.ReadRune / utf8.DecodeRune): an invalid or short
sequence yields U+FFFD and consumes one byte -/

def runeError : Char := Char.ofNat 0xFFFD

def isCont (b : UInt8) : Bool := 0x80 ≤ b.toNat && b.toNat ≤ 0xBF

def inR (b : UInt8) (lo hi : Nat) : Bool := lo ≤ b.toNat && b.toNat ≤ hi

/-- decode one rune; returns it and the number of bytes consumed -/
def decodeRune (bs : Bytes) : Char × Nat :=
  match bs with
  | [] => (runeError, 0)
  | b0 :: r =>
    let n0 := b0.toNat
    if n0 < 0x80 then (Char.ofNat n0, 1)
    else if inR b0 0xC2 0xDF then
      match r with
      | b1 :: _ => if isCont b1 then (Char.ofNat ((n0 - 0xC0) * 64 + (b1.toNat - 0x80)), 2) else (runeError, 1)
      | _ => (runeError, 1)
    else if inR b0 0xE0 0xEF then
      match r with
      | b1 :: b2 :: _ =>
        let lo := if n0 = 0xE0 then 0xA0 else 0x80
        let hi := if n0 = 0xED then 0x9F else 0xBF
        if inR b1 lo hi && isCont b2 then
          (Char.ofNat ((n0 - 0xE0) * 4096 + (b1.toNat - 0x80) * 64 + (b2.toNat - 0x80)), 3)
        else (runeError, 1)
      | _ => (runeError, 1)
    else if inR b0 0xF0 0xF4 then
      match r with
      | b1 :: b2 :: b3 :: _ =>
        let lo := if n0 = 0xF0 then 0x90 else 0x80
        let hi := if n0 = 0xF4 then 0x8F else 0xBF
        if inR b1 lo hi && isCont b2 && isCont b3 then
          (Char.ofNat ((n0 - 0xF0) * 262144 + (b1.toNat - 0x80) * 4096 + (b2.toNat - 0x80) * 64 + (b3.toNat - 0x80)), 4)
        else (runeError, 1)
      | _ => (runeError, 1)
    else (runeError, 1)

def decodeUtf8 : Nat → Bytes → Chars
  | 0, _ => []
  | _, [] => []
  | n+1, bs =>
    let p := decodeRune bs
    p.1 :: decodeUtf8 n (bs.drop (max p.2 1))

def utf8Decode (bs : Bytes) : Chars := decodeUtf8 bs.length bs

def utf8Encode (cs : Chars) : Bytes := (String.ofList cs).toUTF8.toList

/-! ### numbers (lexing/number.go LexNumber) -/

/-- `if x.Rune() == '.' { x.Next(); for IsDigit(x.Rune()) { x.Next() } }` -/
def lexFrac (cs : Chars) : Chars × Chars :=
  if cs.head? = some '.' then
    let p := (cs.drop 1).span isDigit
    ('.' :: p.1, p.2)
  else ([], cs)

/-- the character right after `e`/`E`: one digit or one of `signs` is consumed -/
def lexExpSign (signs : List Char) (cs : Chars) : Chars × Chars :=
  match cs with
  | [] => ([], [])
  | c :: r => if isDigit c ∨ c ∈ signs then ([c], r) else ([], c :: r)

/-- `if x.Rune() == 'e' || x.Rune() == 'E' { ... }` -/
def lexExp (signs : List Char) (cs : Chars) : Chars × Chars :=
  match cs with
  | [] => ([], [])
  | e :: r =>
    if e = 'e' ∨ e = 'E' then
      let s := lexExpSign signs r
      let p := s.2.span isDigit
      (e :: (s.1 ++ p.1), p.2)
    else ([], e :: r)

/-- LexNumber; precondition (guaranteed by lexJSONX): the first character is a digit.
    Returns the token and the unread rest. -/
def lexNumber (signs : List Char) (cs : Chars) : Tok × Chars :=
  match cs with
  | [] => (⟨.illegal, []⟩, [])
  | s :: r =>
    if s = '0' ∧ r.head? = some 'x' then
      let p := (r.drop 1).span isHexDigit
      (⟨.int, s :: 'x' :: p.1⟩, p.2)
    else
      let d := r.span isDigit
      let f := lexFrac d.2
      let e := lexExp signs f.2
      (⟨if f.1 = [] ∧ e.1 = [] then .int else .float, s :: (d.1 ++ (f.1 ++ e.1))⟩, e.2)

/-! ### strings (lexing/string.go) -/

def digitVal (c : Char) : Nat :=
  if isDigit c then c.toNat - 48
  else if 97 ≤ c.toNat ∧ c.toNat ≤ 102 then c.toNat - 87
  else if 65 ≤ c.toNat ∧ c.toNat ≤ 70 then c.toNat - 55
  else 16

/-- the digit loop of lexEscape: `n` digits of `base`; `none` = an error was reported
    (escape not terminated / illegal escape char) -/
def escDigits (base : Nat) : Nat → Nat → Chars → Chars × Chars × Option Nat
  | 0, v, cs => ([], cs, some v)
  | _+1, _, [] => ([], [], none)
  | n+1, v, c :: cs =>
    if digitVal c ≥ base then ([], c :: cs, none)
    else
      let r := escDigits base n (v * base + digitVal c) cs
      (c :: r.1, r.2.1, r.2.2)

def escFinish (pre : Chars) (r : Chars × Chars × Option Nat) (max : Nat) : Chars × Chars × List String :=
  match r.2.2 with
  | none => (pre ++ r.1, r.2.1, [""])
  | some v =>
    if v > max ∨ (0xD800 ≤ v ∧ v < 0xE000) then (pre ++ r.1, r.2.1, [""])
    else (pre ++ r.1, r.2.1, [])

def simpleEscapes : List Char := ['a', 'b', 'f', 'n', 'r', 't', 'v', '\\']

def isOctal (c : Char) : Bool := 48 ≤ c.toNat && c.toNat ≤ 55

/-- lexEscape, called right after the backslash was consumed: (consumed, rest, errors) -/
def lexEscape (q : Char) (cs : Chars) : Chars × Chars × List String :=
  match cs with
  | [] => ([], [], [""])
  | c :: r =>
    if c ∈ simpleEscapes ∨ c = q then ([c], r, [])
    else if isOctal c then escFinish [] (escDigits 8 3 0 (c :: r)) 255
    else if c = 'x' then escFinish [c] (escDigits 16 2 0 r) 255
    else if c = 'u' then escFinish [c] (escDigits 16 4 0 r) 0x10FFFF
    else if c = 'U' then escFinish [c] (escDigits 16 8 0 r) 0x10FFFF
    else ([], c :: r, ["lexing.unknownESC"])

/-- the loop of LexString after the opening quote: (consumed, rest, errors) -/
def lexStrBody (q : Char) : Nat → Chars → Chars × Chars × List String
  | 0, cs => ([], cs, ["model.fuel"])
  | _+1, [] => ([], [], ["lexing.unexpectedEOF"])
  | n+1, c :: r =>
    if c = '\n' then ([], c :: r, ["lexing.unexpectedEndl"])
    else if c = q then ([c], r, [])
    else if c = '\\' then
      let e := lexEscape q r
      let b := lexStrBody q n e.2.1
      (c :: (e.1 ++ b.1), b.2.1, e.2.2 ++ b.2.2)
    else
      let b := lexStrBody q n r
      (c :: b.1, b.2.1, b.2.2)

/-- LexString(x, tokString, '"'); precondition: the first character is `"` -/
def lexString (cs : Chars) : RTok × Chars :=
  match cs with
  | [] => (⟨⟨.illegal, []⟩, []⟩, [])
  | q :: r =>
    let b := lexStrBody '"' (r.length + 1) r
    (⟨⟨.str, q :: b.1⟩, b.2.2⟩, b.2.1)

/-- LexRawString; precondition: the first character is a backquote -/
def lexRawString (cs : Chars) : RTok × Chars :=
  match cs with
  | [] => (⟨⟨.illegal, []⟩, []⟩, [])
  | q :: r =>
    let p := r.span (· ≠ '`')
    match p.2 with
    | [] => (⟨⟨.str, q :: p.1⟩, ["lexing.unexpectedEOF"]⟩, [])
    | c :: r' => (⟨⟨.str, q :: (p.1 ++ [c])⟩, []⟩, r')

/-! ### identifiers, comments -/

def lexIdent (cs : Chars) : Tok × Chars :=
  match cs with
  | [] => (⟨.illegal, []⟩, [])
  | c :: r =>
    let p := r.span isIdentChar
    (⟨.ident, c :: p.1⟩, p.2)

/-- body of a block comment after `/*`; the flag says whether the previous body rune was `*` -/
def blockBody : Bool → Chars → Chars × Chars × List String
  | _, [] => ([], [], ["lexing.unexpectedEOF"])
  | star, c :: r =>
    if star ∧ c = '/' then ([c], r, [])
    else
      let b := blockBody (c = '*') r
      (c :: b.1, b.2.1, b.2.2)

/-! ### lexJSONX (jsonx/lex.go) and Lexer.Token -/

/-- one token; precondition: `cs` is not empty and does not start with white space -/
def lexOne (cfg : Cfg) (cs : Chars) : RTok × Chars :=
  match cs with
  | [] => (⟨eofTok, []⟩, [])
  | c :: r =>
    if c = '\n' then (⟨⟨.endl, [c]⟩, []⟩, r)
    else if c = '"' then lexString (c :: r)
    else if c = '`' then lexRawString (c :: r)
    else if isDigit c then
      let p := lexNumber cfg.expSigns (c :: r)
      (⟨p.1, []⟩, p.2)
    else if isIdentLetter c then
      let p := lexIdent (c :: r)
      (⟨p.1, []⟩, p.2)
    else if c ∈ cfg.operators then (⟨⟨.op, [c]⟩, []⟩, r)
    else if c = '/' then
      if r.head? = some '/' then
        let p := (r.drop 1).span (· ≠ '\n')
        (⟨⟨.comment, c :: '/' :: p.1⟩, []⟩, p.2)
      else if r.head? = some '*' then
        let b := blockBody false (r.drop 1)
        (⟨⟨.comment, c :: '*' :: b.1⟩, b.2.2⟩, b.2.1)
      else (⟨⟨.op, [c]⟩, []⟩, r)
    else if c = ';' then (⟨⟨.semi, [c]⟩, []⟩, r)
    else (⟨⟨.illegal, [c]⟩, ["jsonx.illegalChar"]⟩, r)

/-- the raw token stream, ending with EOF -/
def lexAll (cfg : Cfg) : Nat → Chars → List RTok
  | 0, _ => [⟨eofTok, ["model.fuel"]⟩]
  | n+1, cs =>
    let cs' := cs.dropWhile isWhite
    if cs' = [] then [⟨eofTok, []⟩]
    else
      let p := lexOne cfg cs'
      p.1 :: lexAll cfg n p.2

end PubModel.C07
