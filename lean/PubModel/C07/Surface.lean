/-
C07/C09 — surface syntax trees: a JSONx value as spelled, token for token.

`RV` is the derivation tree of the token-level grammar of JSONx with every
surface choice explicit: sign and spelling of numbers (the literal may be
decimal, hex, octal, any float form), string style (any literal the `unquote`
leaf accepts), bare or quoted keys, trailing commas, dotted identifier lists.
`toks` is the token stream of a tree (after semicolon insertion, keywording and
comment removal), `val` its documented meaning, `emit` the canonical JSON text
of a meaning.  C07 `parse_render` and C09 `toJSON_denotes` are stated with them.
-/
import PubModel.C07.Model

namespace PubModel.C07

inductive RKey where
  | bare (lit : Chars)
  | quoted (lit : Chars)

mutual
inductive RV where
  | null | tru | fls
  | int (lead : Option Char) (lit : Chars)
  | flt (lead : Option Char) (lit : Chars)
  | str (lit : Chars)
  | arr (xs : RL)
  | obj (kvs : RO)
  | idents (first : Chars) (more : List Chars)
/-- entries of a list: `nil` = none left, `single v` = last one without comma,
    `cons v t` = `v ,` then `t` (so `cons v nil` ends with a trailing comma) -/
inductive RL where
  | nil
  | single (v : RV)
  | cons (v : RV) (t : RL)
inductive RO where
  | nil
  | single (k : RKey) (v : RV)
  | cons (k : RKey) (v : RV) (t : RO)
end

def tokOp (c : Char) : Tok := ⟨.op, [c]⟩
def tokKw (s : Chars) : Tok := ⟨.keyword, s⟩

def leadToks : Option Char → List Tok
  | none => []
  | some c => [tokOp c]

def keyTok : RKey → Tok
  | .bare lit => ⟨.ident, lit⟩
  | .quoted lit => ⟨.str, lit⟩

def identToks : List Chars → List Tok
  | [] => []
  | b :: r => tokOp '.' :: ⟨.ident, b⟩ :: identToks r

mutual
def RV.toks : RV → List Tok
  | .null => [tokKw kwNull]
  | .tru => [tokKw kwTrue]
  | .fls => [tokKw kwFalse]
  | .int lead lit => leadToks lead ++ [⟨.int, lit⟩]
  | .flt lead lit => leadToks lead ++ [⟨.float, lit⟩]
  | .str lit => [⟨.str, lit⟩]
  | .arr xs => tokOp '[' :: (xs.toks ++ [tokOp ']'])
  | .obj kvs => tokOp '{' :: (kvs.toks ++ [tokOp '}'])
  | .idents a more => ⟨.ident, a⟩ :: identToks more
def RL.toks : RL → List Tok
  | .nil => []
  | .single v => v.toks
  | .cons v t => v.toks ++ tokOp ',' :: t.toks
def RO.toks : RO → List Tok
  | .nil => []
  | .single k v => keyTok k :: tokOp ':' :: v.toks
  | .cons k v t => keyTok k :: tokOp ':' :: (v.toks ++ tokOp ',' :: t.toks)
end

/-- the sign token, when present, is `+` or `-` -/
def leadOK : Option Char → Prop
  | none => True
  | some c => c = '+' ∨ c = '-'

mutual
def RV.WF : RV → Prop
  | .int lead _ => leadOK lead
  | .flt lead _ => leadOK lead
  | .arr xs => xs.WF
  | .obj kvs => kvs.WF
  | _ => True
def RL.WF : RL → Prop
  | .nil => True
  | .single v => v.WF
  | .cons v t => v.WF ∧ t.WF
def RO.WF : RO → Prop
  | .nil => True
  | .single _ v => v.WF
  | .cons _ v t => v.WF ∧ t.WF
end

mutual
def RV.size : RV → Nat
  | .arr xs => 1 + xs.size
  | .obj kvs => 1 + kvs.size
  | .idents _ more => 2 + more.length
  | _ => 1
def RL.size : RL → Nat
  | .nil => 1
  | .single v => 1 + v.size
  | .cons v t => 1 + max v.size t.size
def RO.size : RO → Nat
  | .nil => 1
  | .single _ v => 1 + v.size
  | .cons _ v t => 1 + max v.size t.size
end

mutual
theorem RV.size_pos : ∀ (r : RV), 1 ≤ r.size
  | .null | .tru | .fls | .int _ _ | .flt _ _ | .str _ => by simp [RV.size]
  | .arr xs => by simp [RV.size]
  | .obj kvs => by simp [RV.size]
  | .idents _ _ => by simp [RV.size]; omega
end

mutual
/-- the fuel `ToJSON`'s model uses (token count + 2) is enough for every surface tree -/
theorem RV.size_le : ∀ (r : RV), r.size ≤ r.toks.length + 1
  | .null | .tru | .fls | .str _ => by simp [RV.size, RV.toks]
  | .int lead _ => by cases lead <;> simp [RV.size, RV.toks, leadToks]
  | .flt lead _ => by cases lead <;> simp [RV.size, RV.toks, leadToks]
  | .arr xs => by have := RL.size_le xs; simp [RV.size, RV.toks]; omega
  | .obj kvs => by have := RO.size_le kvs; simp [RV.size, RV.toks]; omega
  | .idents _ more => by
    have : (identToks more).length = 2 * more.length := by
      induction more with
      | nil => rfl
      | cons b r ih => simp [identToks, ih]; omega
    simp [RV.size, RV.toks, this]; omega
theorem RL.size_le : ∀ (xs : RL), xs.size ≤ xs.toks.length + 2
  | .nil => by simp [RL.size]
  | .single v => by have := RV.size_le v; simp [RL.size, RL.toks]; omega
  | .cons v t => by have := RV.size_le v; have := RL.size_le t; simp [RL.size, RL.toks]; omega
theorem RO.size_le : ∀ (kvs : RO), kvs.size ≤ kvs.toks.length + 2
  | .nil => by simp [RO.size]
  | .single _ v => by have := RV.size_le v; simp [RO.size, RO.toks]; omega
  | .cons _ v t => by have := RV.size_le v; have := RO.size_le t; simp [RO.size, RO.toks]; omega
end

/-! ### meaning -/

section
variable {φ : Type} (L : Leaf φ)

def identsJL : List Chars → JL (Num φ)
  | [] => .nil
  | b :: r => .cons (.str (identBytes b)) (identsJL r)

def keyVal : RKey → Option Bytes
  | .bare lit => some (identBytes lit)
  | .quoted lit => L.unquote lit

def isNeg (lead : Option Char) : Bool := lead = some '-'

mutual
/-- the documented meaning: Go-style integers denote their Go value, floats the
    float64 `parseFloat` reads, strings what `unquote` yields, bare keys their
    spelling, identifier lists the array of their names -/
def RV.val : RV → Option (JV (Num φ))
  | .null => some .null
  | .tru => some (.bool true)
  | .fls => some (.bool false)
  | .int lead lit => (goInt lit).map fun n => .num (isNeg lead) (.int n)
  | .flt lead lit => (L.parseFloat lit).map fun f => .num (isNeg lead) (.flt f)
  | .str lit => (L.unquote lit).map .str
  | .arr xs => xs.val.map .arr
  | .obj kvs => kvs.val.map .obj
  | .idents a more => some (.arr (identsJL (a :: more)))
def RL.val : RL → Option (JL (Num φ))
  | .nil => some .nil
  | .single v => v.val.map fun j => .cons j .nil
  | .cons v t =>
    match v.val, t.val with
    | some j, some js => some (.cons j js)
    | _, _ => none
def RO.val : RO → Option (JO (Num φ))
  | .nil => some .nil
  | .single k v =>
    match keyVal L k, v.val with
    | some kb, some j => some (.cons kb j .nil)
    | _, _ => none
  | .cons k v t =>
    match keyVal L k, v.val, t.val with
    | some kb, some j, some js => some (.cons kb j js)
    | _, _, _ => none
end

/-! ### canonical JSON text of a meaning -/

def emitNum (neg : Bool) : Num φ → Chars
  | .int n => (if neg then ['-'] else []) ++ natChars n
  | .flt f => (if neg then ['-'] else []) ++ L.jsonFloat f

mutual
def emit : JV (Num φ) → Chars
  | .null => str "null"
  | .bool b => if b then kwTrue else kwFalse
  | .num neg n => emitNum L neg n
  | .str s => L.jsonStr s
  | .arr xs => '[' :: (emitL xs true ++ [']'])
  | .obj kvs => '{' :: (emitO kvs true ++ ['}'])
def emitL : JL (Num φ) → Bool → Chars
  | .nil, _ => []
  | .cons v t, first => (if first then [] else [',']) ++ emit v ++ emitL t false
def emitO : JO (Num φ) → Bool → Chars
  | .nil, _ => []
  | .cons k v t, first => (if first then [] else [',']) ++ L.jsonStr k ++ (':' :: emit v) ++ emitO t false
end

end

/-! ### the syntax tree `parseValue` builds for a surface tree -/

def keyTy : RKey → TT
  | .bare _ => .ident
  | .quoted _ => .str
def keyLit : RKey → Chars
  | .bare lit => lit
  | .quoted lit => lit

mutual
def RV.ast : RV → V
  | .null => .null
  | .tru => .bool kwTrue
  | .fls => .bool kwFalse
  | .int lead lit => .basic (lead.map fun c => [c]) .int lit false
  | .flt lead lit => .basic (lead.map fun c => [c]) .float lit true
  | .str lit => .basic none .str lit true
  | .arr xs => .list xs.ast
  | .obj kvs => .obj kvs.ast
  | .idents a more => .idents (a :: more)
def RL.ast : RL → VItems
  | .nil => .nil
  | .single v => .cons v.ast .nil
  | .cons v t => .cons v.ast t.ast
def RO.ast : RO → VEntries
  | .nil => .nil
  | .single k v => .cons (keyTy k) (keyLit k) v.ast .nil
  | .cons k v t => .cons (keyTy k) (keyLit k) v.ast t.ast
end

end PubModel.C07
