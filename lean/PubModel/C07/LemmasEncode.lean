/-
C07/C09 — the encoder on the syntax tree of a surface tree emits the canonical
JSON text of the tree's meaning.
-/
import PubModel.C07.LemmasParse

namespace PubModel.C07

section
variable {φ : Type} (cfg : Cfg) (hcfg : CfgOK cfg) (L : Leaf φ)

theorem encodeIdents_emit : ∀ (ts : List Chars) (first : Bool),
    encodeIdents L ts first = emitL L (identsJL ts) first
  | [], _ => by simp [encodeIdents, identsJL, emitL]
  | t :: ts, first => by
    simp [encodeIdents, identsJL, emitL, emit, jsonIdent, encodeIdents_emit ts false]

theorem sign_eq (lead : Option Char) :
    (if (lead.map fun c => [c]) = some ['-'] then ['-'] else ([] : Chars)) = (if isNeg lead then ['-'] else []) := by
  cases lead with
  | none => simp [isNeg]
  | some c => by_cases h : c = '-' <;> simp [isNeg, h]

include hcfg

mutual
theorem encodeValue_ast : ∀ (r : RV) (j : JV (Num φ)), r.val L = some j →
    encodeValue cfg L r.ast = some (emit L j)
  | .null, j, h => by simp [RV.val] at h; subst h; simp [RV.ast, encodeValue, emit]
  | .tru, j, h => by simp [RV.val] at h; subst h; simp [RV.ast, encodeValue, emit]
  | .fls, j, h => by simp [RV.val] at h; subst h; simp [RV.ast, encodeValue, emit]
  | .int lead lit, j, h => by
    cases hg : goInt lit with
    | none => simp [RV.val, hg] at h
    | some n =>
      simp [RV.val, hg] at h; subst h
      simp [RV.ast, encodeValue, encodeBasic, hcfg.intConv, hg, emit, emitNum, isNeg]
  | .flt lead lit, j, h => by
    cases hg : L.parseFloat lit with
    | none => simp [RV.val, hg] at h
    | some f =>
      simp [RV.val, hg] at h; subst h
      simp [RV.ast, encodeValue, encodeBasic, hg, emit, emitNum, isNeg]
  | .str lit, j, h => by
    cases hg : L.unquote lit with
    | none => simp [RV.val, hg] at h
    | some s =>
      simp [RV.val, hg] at h; subst h
      simp [RV.ast, encodeValue, encodeBasic, hg, emit]
  | .arr xs, j, h => by
    cases hg : xs.val L with
    | none => simp [RV.val, hg] at h
    | some js =>
      simp [RV.val, hg] at h; subst h
      simp [RV.ast, encodeValue, encodeItems_ast xs js hg true, emit]
  | .obj kvs, j, h => by
    cases hg : kvs.val L with
    | none => simp [RV.val, hg] at h
    | some js =>
      simp [RV.val, hg] at h; subst h
      simp [RV.ast, encodeValue, encodeEntries_ast kvs js hg true, emit]
  | .idents a more, j, h => by
    simp [RV.val] at h; subst h
    simp [RV.ast, encodeValue, emit, encodeIdents_emit]

theorem encodeItems_ast : ∀ (xs : RL) (js : JL (Num φ)), xs.val L = some js → ∀ first,
    encodeItems cfg L xs.ast first = some (emitL L js first)
  | .nil, js, h, first => by simp [RL.val] at h; subst h; simp [RL.ast, encodeItems, emitL]
  | .single v, js, h, first => by
    cases hg : v.val L with
    | none => simp [RL.val, hg] at h
    | some j =>
      simp [RL.val, hg] at h; subst h
      simp [RL.ast, encodeItems, encodeValue_ast v j hg, emitL]
  | .cons v t, js, h, first => by
    cases hg : v.val L with
    | none => simp [RL.val, hg] at h
    | some j =>
      cases hg2 : t.val L with
      | none => simp [RL.val, hg, hg2] at h
      | some js' =>
        simp [RL.val, hg, hg2] at h; subst h
        simp [RL.ast, encodeItems, encodeValue_ast v j hg, encodeItems_ast t js' hg2 false, emitL]

theorem encodeEntries_ast : ∀ (kvs : RO) (js : JO (Num φ)), kvs.val L = some js → ∀ first,
    encodeEntries cfg L kvs.ast first = some (emitO L js first)
  | .nil, js, h, first => by simp [RO.val] at h; subst h; simp [RO.ast, encodeEntries, emitO]
  | .single k v, js, h, first => by
    cases hk : keyVal L k with
    | none => simp [RO.val, hk] at h
    | some kb =>
      cases hg : v.val L with
      | none => simp [RO.val, hk, hg] at h
      | some j =>
        simp [RO.val, hk, hg] at h; subst h
        cases k with
        | bare lit =>
          simp [keyVal] at hk; subst hk
          simp [RO.ast, encodeEntries, keyTy, keyLit, jsonIdent, encodeValue_ast v j hg, emitO]
        | quoted lit =>
          simp [keyVal] at hk
          simp [RO.ast, encodeEntries, keyTy, keyLit, hk, encodeValue_ast v j hg, emitO]
  | .cons k v t, js, h, first => by
    cases hk : keyVal L k with
    | none => simp [RO.val, hk] at h
    | some kb =>
      cases hg : v.val L with
      | none => simp [RO.val, hk, hg] at h
      | some j =>
        cases hg2 : t.val L with
        | none => simp [RO.val, hk, hg, hg2] at h
        | some js' =>
          simp [RO.val, hk, hg, hg2] at h; subst h
          cases k with
          | bare lit =>
            simp [keyVal] at hk; subst hk
            simp [RO.ast, encodeEntries, keyTy, keyLit, jsonIdent, encodeValue_ast v j hg,
              encodeEntries_ast t js' hg2 false, emitO]
          | quoted lit =>
            simp [keyVal] at hk
            simp [RO.ast, encodeEntries, keyTy, keyLit, hk, encodeValue_ast v j hg,
              encodeEntries_ast t js' hg2 false, emitO]
end

end

end PubModel.C07
