/-
C07 — character level, part D: the token filters on the printer's pieces, and the
statement `tokens (marshal v) = printToks v`.
-/
import PubModel.C07.LemmasRender3

namespace PubModel.C07

/-- Keyworder on one token -/
def kwTok (kws : List Chars) (t : Tok) : Tok :=
  if t.ty = .ident ∧ t.lit ∈ kws then ⟨.keyword, t.lit⟩ else t

def filtOf (kws : List Chars) (ps : List Piece) : List RTok := ps.map fun p => ⟨kwTok kws p.tok, []⟩

theorem keyworder_rawOf (kws : List Chars) (ps : List Piece) : keyworder kws (rawOf ps) = filtOf kws ps := by
  simp only [keyworder, rawOf, filtOf, List.map_map]
  apply List.map_congr_left
  intro p _
  simp only [Function.comp, kwTok]
  split <;> rfl

/-- the semicolon inserter does not distinguish identifiers from keywords, so it commutes
    with the keyworder -/
theorem keyworder_semiInsert (kws : List Chars) : ∀ (ts : List RTok) (ins : Bool),
    keyworder kws (semiInsert ins ts) = semiInsert ins (keyworder kws ts)
  | [], _ => by simp [semiInsert, keyworder]
  | t :: ts, ins => by
    have ih := keyworder_semiInsert kws ts
    simp only [keyworder] at ih ⊢
    cases t with
    | mk tok errs =>
      cases tok with
      | mk ty lit =>
        cases ty <;> simp [semiInsert, ih] <;> (try split) <;> simp [semiInsert, ih]

theorem kw_op (kws : List Chars) (c : Char) : kwTok kws (tokOp c) = tokOp c := by simp [kwTok, tokOp]
theorem kw_endl (kws : List Chars) : kwTok kws tokEndl = tokEndl := by simp [kwTok, tokEndl]
theorem plain_cons (a : Tok) (b : List Tok) : plain (a :: b) = ⟨a, []⟩ :: plain b := rfl
theorem plain_nil : plain [] = [] := rfl

theorem plain_append (a b : List Tok) : plain (a ++ b) = plain a ++ plain b := by simp [plain]

section
variable {φ : Type} (cfg : Cfg) (hcfg : CfgOK cfg) (L : Leaf φ)
include hcfg

theorem kwTok_kw (lit : Chars) (h : lit ∈ cfg.keywords) : kwTok cfg.keywords ⟨.ident, lit⟩ = tokKw lit := by
  simp [kwTok, h, tokKw]

theorem kws_mem : kwNull ∈ cfg.keywords ∧ kwTrue ∈ cfg.keywords ∧ kwFalse ∈ cfg.keywords := by
  rw [hcfg.keywords]; simp

mutual
/-- semicolon inserter over the (keyworded) pieces of a printed value: the newlines after
    `[`, `{` and `,` vanish, nothing is inserted, and a value leaves the inserter armed -/
theorem semi_val : ∀ (ind : Nat) (lead : Chars) (v : JV Chars) (ins : Bool) (rest : List RTok),
    semiInsert ins (filtOf cfg.keywords (valPieces cfg L ind lead v) ++ rest) =
      plain (printRV cfg.keywords L v).toks ++ semiInsert true rest
  | _, lead, .null, ins, rest => by
    simp [valPieces, filtOf, kwTok_kw cfg hcfg _ (kws_mem cfg hcfg).1, printRV, RV.toks, plain, semiInsert, tokKw]
  | _, lead, .bool b, ins, rest => by
    cases b
    · simp [valPieces, filtOf, kwTok_kw cfg hcfg _ (kws_mem cfg hcfg).2.2, printRV, RV.toks, plain, semiInsert, tokKw]
    · simp [valPieces, filtOf, kwTok_kw cfg hcfg _ (kws_mem cfg hcfg).2.1, printRV, RV.toks, plain, semiInsert, tokKw]
  | _, lead, .num neg lit, ins, rest => by
    by_cases hi : isIntLit lit = true <;> cases neg <;>
      simp [valPieces, numPieces, filtOf, kwTok, tokNum, tokOp, hi, printRV, printLead, RV.toks, leadToks, plain,
        semiInsert]
  | _, lead, .str s, ins, rest => by
    simp [valPieces, filtOf, kwTok, printRV, RV.toks, plain, semiInsert]
  | ind, lead, .arr xs, ins, rest => by
    cases xs with
    | nil =>
      simp [valPieces, JL.isEmpty, filtOf, kwTok, tokOp, printRV, printRL, RV.toks, RL.toks, plain, semiInsert]
    | cons v t =>
      have h := semi_items (ind + 1) (.cons v t) (⟨kwTok cfg.keywords (tokOp ']'), []⟩ :: rest)
      simp only [valPieces, JL.isEmpty, Bool.false_eq_true, ↓reduceIte, filtOf, List.map_cons, List.map_append,
        List.map_nil, List.cons_append, List.append_assoc, List.nil_append] at h ⊢
      simp [kwTok, tokOp, tokEndl, semiInsert, printRV, RV.toks, plain_append] at h ⊢
      simp [h, plain]
  | ind, lead, .obj kvs, ins, rest => by
    cases kvs with
    | nil =>
      simp [valPieces, JO.isEmpty, filtOf, kwTok, tokOp, printRV, printRO, RV.toks, RO.toks, plain, semiInsert]
    | cons k v t =>
      have h := semi_entries (ind + 1) (JO.allIdent cfg.keywords (.cons k v t)) (.cons k v t) (fun h => h)
        (⟨kwTok cfg.keywords (tokOp '}'), []⟩ :: rest)
      simp only [valPieces, JO.isEmpty, Bool.false_eq_true, ↓reduceIte, filtOf, List.map_cons, List.map_append,
        List.map_nil, List.cons_append, List.append_assoc, List.nil_append] at h ⊢
      simp [kwTok, tokOp, tokEndl, semiInsert, printRV, RV.toks, plain_append] at h ⊢
      simp [h, plain]
theorem semi_items : ∀ (ind : Nat) (xs : JL Chars) (rest : List RTok),
    semiInsert false (filtOf cfg.keywords (itemPieces cfg L ind xs) ++ rest) =
      plain (printRL cfg.keywords L xs).toks ++ semiInsert false rest
  | _, .nil, rest => by simp [itemPieces, filtOf, printRL, RL.toks, plain]
  | ind, .cons v t, rest => by
    have h1 := semi_val ind (indent ind) v false
      (⟨kwTok cfg.keywords (tokOp ','), []⟩ :: ⟨kwTok cfg.keywords tokEndl, []⟩ ::
        (filtOf cfg.keywords (itemPieces cfg L ind t) ++ rest))
    have h2 := semi_items ind t rest
    simp only [itemPieces, filtOf, List.map_cons, List.map_append, List.cons_append, List.append_assoc] at h1 h2 ⊢
    rw [h1]
    simp only [kw_op, kw_endl, printRL, RL.toks, plain_append, plain_cons]
    simp [tokOp, tokEndl, semiInsert, h2]
theorem semi_entries : ∀ (ind : Nat) (bare : Bool) (kvs : JO Chars),
    (bare = true → JO.allIdent cfg.keywords kvs = true) → ∀ (rest : List RTok),
    semiInsert false (filtOf cfg.keywords (entryPieces cfg L ind bare kvs) ++ rest) =
      plain (printRO cfg.keywords L bare kvs).toks ++ semiInsert false rest
  | _, _, .nil, _, rest => by simp [entryPieces, filtOf, printRO, RO.toks, plain]
  | ind, bare, .cons k v t, hb, rest => by
    have h1 := semi_val ind [' '] v false
      (⟨kwTok cfg.keywords (tokOp ','), []⟩ :: ⟨kwTok cfg.keywords tokEndl, []⟩ ::
        (filtOf cfg.keywords (entryPieces cfg L ind bare t) ++ rest))
    have h2 := semi_entries ind bare t (fun h => by
      have := hb h; simp only [JO.allIdent, Bool.and_eq_true] at this; exact this.2) rest
    -- the key token passes the keyworder unchanged
    have hkey : kwTok cfg.keywords (keyPiece L ind bare k).tok =
        keyTok (if bare = true then RKey.bare (bytesChars k) else RKey.quoted (L.quote k)) := by
      cases bare with
      | false => simp [keyPiece, kwTok, keyTok]
      | true =>
        have := hb rfl
        simp only [JO.allIdent, Bool.and_eq_true] at this
        have hnk := ((isIdent_iff cfg.keywords k).1 this.1).2
        simp [keyPiece, kwTok, keyTok, hnk]
    have hkty : (keyTok (if bare = true then RKey.bare (bytesChars k) else RKey.quoted (L.quote k))).ty = .ident ∨
        (keyTok (if bare = true then RKey.bare (bytesChars k) else RKey.quoted (L.quote k))).ty = .str := by
      cases bare <;> simp [keyTok]
    simp only [entryPieces, filtOf, List.map_cons, List.map_append, List.cons_append, List.append_assoc, hkey]
      at h1 h2 ⊢
    have hstep : ∀ (tk : Tok) (tl : List RTok), (tk.ty = .ident ∨ tk.ty = .str) →
        semiInsert false (⟨tk, []⟩ :: ⟨kwTok cfg.keywords (tokOp ':'), []⟩ :: tl) =
          ⟨tk, []⟩ :: ⟨tokOp ':', []⟩ :: semiInsert false tl := by
      intro tk tl h
      rcases h with h | h <;> simp [semiInsert, h, kwTok, tokOp]
    rw [hstep _ _ hkty, h1]
    simp only [kw_op, kw_endl, printRO, RO.toks, plain_append, plain_cons]
    simp [tokOp, tokEndl, semiInsert, h2]
end

end

/-! ### no comment tokens, fuel -/

theorem dropComments_plain : ∀ (ts : List Tok), (∀ t ∈ ts, t.ty ≠ .comment) → dropComments [] (plain ts) = plain ts
  | [], _ => rfl
  | t :: ts, h => by
    have h1 : t.ty ≠ .comment := h t (by simp)
    have ih := dropComments_plain ts (fun x hx => h x (by simp [hx]))
    simp [plain] at ih ⊢
    simp [dropComments, h1, ih]

theorem identToks_noComment : ∀ (more : List Chars), ∀ t ∈ identToks more, t.ty ≠ .comment
  | [], t, h => by simp [identToks] at h
  | b :: r, t, h => by
    simp only [identToks, List.mem_cons] at h
    rcases h with h | h | h
    · subst h; simp [tokOp]
    · subst h; simp
    · exact identToks_noComment r t h

mutual
theorem RV.noComment : ∀ (r : RV), ∀ t ∈ r.toks, t.ty ≠ .comment
  | .null, t, h => by simp [RV.toks, tokKw] at h; subst h; simp
  | .tru, t, h => by simp [RV.toks, tokKw] at h; subst h; simp
  | .fls, t, h => by simp [RV.toks, tokKw] at h; subst h; simp
  | .int lead lit, t, h => by
    cases lead <;> simp [RV.toks, leadToks, tokOp] at h
    · subst h; simp
    · rcases h with h | h <;> (subst h; simp)
  | .flt lead lit, t, h => by
    cases lead <;> simp [RV.toks, leadToks, tokOp] at h
    · subst h; simp
    · rcases h with h | h <;> (subst h; simp)
  | .str lit, t, h => by simp [RV.toks] at h; subst h; simp
  | .arr xs, t, h => by
    simp only [RV.toks, List.mem_cons, List.mem_append, List.not_mem_nil, or_false] at h
    rcases h with h | h | h
    · subst h; simp [tokOp]
    · exact RL.noComment xs t h
    · subst h; simp [tokOp]
  | .obj kvs, t, h => by
    simp only [RV.toks, List.mem_cons, List.mem_append, List.not_mem_nil, or_false] at h
    rcases h with h | h | h
    · subst h; simp [tokOp]
    · exact RO.noComment kvs t h
    · subst h; simp [tokOp]
  | .idents a more, t, h => by
    simp only [RV.toks, List.mem_cons] at h
    rcases h with h | h
    · subst h; simp
    · exact identToks_noComment more t h
theorem RL.noComment : ∀ (xs : RL), ∀ t ∈ xs.toks, t.ty ≠ .comment
  | .nil, t, h => by simp [RL.toks] at h
  | .single v, t, h => RV.noComment v t (by simpa [RL.toks] using h)
  | .cons v r, t, h => by
    simp only [RL.toks, List.mem_append, List.mem_cons] at h
    rcases h with h | h | h
    · exact RV.noComment v t h
    · subst h; simp [tokOp]
    · exact RL.noComment r t h
theorem RO.noComment : ∀ (kvs : RO), ∀ t ∈ kvs.toks, t.ty ≠ .comment
  | .nil, t, h => by simp [RO.toks] at h
  | .single k v, t, h => by
    simp only [RO.toks, List.mem_cons] at h
    rcases h with h | h | h
    · subst h; cases k <;> simp [keyTok]
    · subst h; simp [tokOp]
    · exact RV.noComment v t h
  | .cons k v r, t, h => by
    simp only [RO.toks, List.mem_cons, List.mem_append] at h
    rcases h with h | h | h | h | h
    · subst h; cases k <;> simp [keyTok]
    · subst h; simp [tokOp]
    · exact RV.noComment v t h
    · subst h; simp [tokOp]
    · exact RO.noComment r t h
end

theorem pieces_len (cfg : Cfg) : ∀ (ps : List Piece) (after : Chars), PiecesOK cfg ps after →
    ps.length ≤ (piecesText ps after).length
  | [], _, _ => by simp
  | p :: ps, after, h => by
    have ih := pieces_len cfg ps after h.2
    have hne : 1 ≤ p.tok.lit.length := by
      have := h.1.2.1
      cases hl : p.tok.lit with
      | nil => rw [hl] at this; simp [headIs] at this
      | cons c r => simp
    simp [piecesText]; omega

/-- **lex_render for the printer**: the parser's token stream of the text `Marshal` writes
    is `printToks` — the tokens of the surface tree the printer chose, the separator the
    final newline becomes, end of file.  Contracts used: the shape of `strconv.Quote`
    output (`isQuoteShape`), number leaves are RFC 8259 literals. -/
theorem tokens_marshal {φ : Type} (cfg : Cfg) (hcfg : CfgOK cfg) (L : Leaf φ)
    (hq : ∀ s, isQuoteShape (L.quote s) = true) (v : JV Chars) (hn : NumsOK (JV.canon v)) :
    tokens cfg (marshal cfg L v) = plain (printToks cfg.keywords L v) := by
  have htext : marshal cfg L v = piecesText (valPieces cfg L 0 [] (JV.canon v) ++ [⟨[], tokEndl⟩]) [] := by
    rw [piecesText_append, valPieces_text cfg L hcfg.useNumber]
    simp [marshal, piecesText, tokEndl]
  have hok : PiecesOK cfg (valPieces cfg L 0 [] (JV.canon v) ++ [⟨[], tokEndl⟩]) [] := by
    rw [piecesOK_append]
    refine ⟨valPieces_ok cfg hcfg L hq 0 [] _ _ rfl hn ?_, lexOne_endl cfg _, trivial⟩
    simp only [piecesText, tokEndl, List.nil_append, List.cons_append]
    exact follow_newline _
  have hlen := pieces_len cfg _ _ hok
  have hlex := lexAll_pieces cfg _ [] ((marshal cfg L v).length + 1) hok rfl (by rw [htext]; omega)
  rw [← htext] at hlex
  have hsv := semi_val cfg hcfg L 0 [] (JV.canon v) false [⟨tokEndl, []⟩, ⟨eofTok, []⟩]
  have hsemi : semiInsert true [⟨tokEndl, []⟩, (⟨eofTok, []⟩ : RTok)] =
      [⟨⟨.semi, ['\n']⟩, []⟩, ⟨eofTok, []⟩] := by
    simp [semiInsert, tokEndl, eofTok]
  have hkw : keyworder cfg.keywords (rawOf (valPieces cfg L 0 [] (JV.canon v) ++ [⟨[], tokEndl⟩]) ++ [⟨eofTok, []⟩]) =
      filtOf cfg.keywords (valPieces cfg L 0 [] (JV.canon v)) ++ [⟨tokEndl, []⟩, ⟨eofTok, []⟩] := by
    have := keyworder_rawOf cfg.keywords (valPieces cfg L 0 [] (JV.canon v) ++ [⟨[], tokEndl⟩])
    simp only [keyworder, List.map_append] at this ⊢
    rw [this]
    simp [filtOf, kw_endl, eofTok]
  simp only [tokens, hlex, keyworder_semiInsert, hkw, hsv, hsemi]
  have hnc : ∀ t ∈ printToks cfg.keywords L v, t.ty ≠ .comment := by
    intro t ht
    simp only [printToks, List.mem_append, List.mem_cons] at ht
    rcases ht with ht | ht | ht | ht
    · exact RV.noComment _ t ht
    · subst ht; simp
    · subst ht; simp [eofTok]
    · simp at ht
  have := dropComments_plain _ hnc
  simpa [printToks, plain_append, plain_cons, plain_nil] using this

end PubModel.C07
