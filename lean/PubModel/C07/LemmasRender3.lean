/-
C07 — character level, part C: the text `Marshal` writes is a list of pieces, the lexer
reads them back, and the token filters turn them into the parser's token stream
`printToks`.
-/
import PubModel.C07.LemmasRender2

namespace PubModel.C07

section
variable {φ : Type} (cfg : Cfg) (L : Leaf φ)

def numPieces (lead : Chars) (neg : Bool) (lit : Chars) : List Piece :=
  if neg then [⟨lead, tokOp '-'⟩, ⟨[], tokNum lit⟩] else [⟨lead, tokNum lit⟩]

def keyPiece (ind : Nat) (bare : Bool) (k : Bytes) : Piece :=
  ⟨indent ind, if bare then ⟨.ident, bytesChars k⟩ else ⟨.str, L.quote k⟩⟩

mutual
/-- the pieces of `printVal ind v` with `lead` as the layout before its first token -/
def valPieces : Nat → Chars → JV Chars → List Piece
  | _, lead, .null => [⟨lead, ⟨.ident, kwNull⟩⟩]
  | _, lead, .bool b => [⟨lead, ⟨.ident, if b then kwTrue else kwFalse⟩⟩]
  | _, lead, .num neg lit => numPieces lead neg lit
  | _, lead, .str s => [⟨lead, ⟨.str, L.quote s⟩⟩]
  | ind, lead, .arr xs =>
    if xs.isEmpty then [⟨lead, tokOp '['⟩, ⟨[], tokOp ']'⟩]
    else ⟨lead, tokOp '['⟩ :: ⟨[], tokEndl⟩ :: (itemPieces (ind + 1) xs ++ [⟨indent ind, tokOp ']'⟩])
  | ind, lead, .obj kvs =>
    if kvs.isEmpty then [⟨lead, tokOp '{'⟩, ⟨[], tokOp '}'⟩]
    else ⟨lead, tokOp '{'⟩ :: ⟨[], tokEndl⟩ ::
      (entryPieces (ind + 1) (JO.allIdent cfg.keywords kvs) kvs ++ [⟨indent ind, tokOp '}'⟩])
def itemPieces : Nat → JL Chars → List Piece
  | _, .nil => []
  | ind, .cons v t => valPieces ind (indent ind) v ++ (⟨[], tokOp ','⟩ :: ⟨[], tokEndl⟩ :: itemPieces ind t)
def entryPieces : Nat → Bool → JO Chars → List Piece
  | _, _, .nil => []
  | ind, bare, .cons k v t =>
    keyPiece L ind bare k :: ⟨[], tokOp ':'⟩ ::
      (valPieces ind [' '] v ++ (⟨[], tokOp ','⟩ :: ⟨[], tokEndl⟩ :: entryPieces ind bare t))
end

/-! ### the text of the pieces is the printed text -/

variable (hu : cfg.useNumber = true)
include hu

mutual
theorem valPieces_text : ∀ (ind : Nat) (lead : Chars) (v : JV Chars) (after : Chars),
    piecesText (valPieces cfg L ind lead v) after = lead ++ (printVal cfg L ind v ++ after)
  | _, lead, .null, after => by simp [valPieces, piecesText, printVal, kwNull]
  | _, lead, .bool b, after => by cases b <;> simp [valPieces, piecesText, printVal, kwTrue, kwFalse]
  | _, lead, .num neg lit, after => by
    cases neg <;> simp [valPieces, numPieces, piecesText, printVal, printNum, hu, tokNum, tokOp]
  | _, lead, .str s, after => by simp [valPieces, piecesText, printVal]
  | ind, lead, .arr xs, after => by
    cases xs with
    | nil => simp [valPieces, piecesText, printVal, JL.isEmpty, tokOp, str]
    | cons v t =>
      have := itemPieces_text (ind + 1) (.cons v t) (indent ind ++ (']' :: after))
      simp [valPieces, piecesText, piecesText_append, printVal, JL.isEmpty, tokOp, tokEndl, str, this]
  | ind, lead, .obj kvs, after => by
    cases kvs with
    | nil => simp [valPieces, piecesText, printVal, JO.isEmpty, tokOp, str]
    | cons k v t =>
      have := entryPieces_text (ind + 1) (JO.allIdent cfg.keywords (.cons k v t)) (.cons k v t)
        (indent ind ++ ('}' :: after))
      simp [valPieces, piecesText, piecesText_append, printVal, JO.isEmpty, tokOp, tokEndl, str, this]
theorem itemPieces_text : ∀ (ind : Nat) (xs : JL Chars) (after : Chars),
    piecesText (itemPieces cfg L ind xs) after = printItems cfg L ind xs ++ after
  | _, .nil, after => by simp [itemPieces, piecesText, printItems]
  | ind, .cons v t, after => by
    have h1 := valPieces_text ind (indent ind) v
    have h2 := itemPieces_text ind t after
    simp [itemPieces, piecesText, piecesText_append, printItems, h1, h2, tokOp, tokEndl, str]
theorem entryPieces_text : ∀ (ind : Nat) (bare : Bool) (kvs : JO Chars) (after : Chars),
    piecesText (entryPieces cfg L ind bare kvs) after = printEntries cfg L ind bare kvs ++ after
  | _, _, .nil, after => by simp [entryPieces, piecesText, printEntries]
  | ind, bare, .cons k v t, after => by
    have h1 := valPieces_text ind [' '] v
    have h2 := entryPieces_text ind bare t after
    cases bare <;>
      simp [entryPieces, keyPiece, piecesText, piecesText_append, printEntries, h1, h2, tokOp, tokEndl, str]
end

end

/-! ### the lexer reads the pieces back -/

/-- what follows a value in printed text cannot extend a number or an identifier -/
def Follow (after : Chars) : Prop := NumFollow after ∧ HeadNot isIdentChar after

theorem follow_of_head (c : Char) (x : Chars)
    (h : isDigit c = false ∧ c ≠ '.' ∧ c ≠ 'e' ∧ c ≠ 'E' ∧ c ≠ 'x' ∧ isIdentChar c = false) : Follow (c :: x) := by
  obtain ⟨h1, h2, h3, h4, h5, h6⟩ := h
  refine ⟨⟨?_, by simp [h2], by simp [h3, h4], by simp [h5]⟩, ?_⟩
  · intro d hd; simp at hd; subst hd; exact h1
  · intro d hd; simp at hd; subst hd; exact h6

theorem follow_comma (x : Chars) : Follow (',' :: x) := follow_of_head _ _ (by decide)
theorem follow_newline (x : Chars) : Follow ('\n' :: x) := follow_of_head _ _ (by decide)

theorem indent_white (n : Nat) : (indent n).all isWhite = true := by
  simp only [indent, List.all_eq_true]
  intro c hc
  rw [List.mem_replicate] at hc
  rw [hc.2]; decide

section
variable {φ : Type} (cfg : Cfg) (hcfg : CfgOK cfg) (L : Leaf φ)
variable (hq : ∀ s, isQuoteShape (L.quote s) = true)
include hcfg hq

theorem opc (c : Char) (hc : c ∈ ['{', '}', '[', ']', ',', ':', '+', '-', '.']) (ws after : Chars)
    (hw : ws.all isWhite = true) : LexesAs cfg ⟨ws, tokOp c⟩ after := lexOne_op cfg hcfg c hc ws after hw

mutual
theorem valPieces_ok : ∀ (ind : Nat) (lead : Chars) (v : JV Chars) (after : Chars),
    lead.all isWhite = true → NumsOK v → Follow after → PiecesOK cfg (valPieces cfg L ind lead v) after
  | _, lead, .null, after, hw, _, hf => by
    refine ⟨?_, trivial⟩
    exact lexOne_ident cfg 'n' (str "ull") lead _ (by decide) (by decide) hw hf.2
  | _, lead, .bool b, after, hw, _, hf => by
    refine ⟨?_, trivial⟩
    cases b
    · exact lexOne_ident cfg 'f' (str "alse") lead _ (by decide) (by decide) hw hf.2
    · exact lexOne_ident cfg 't' (str "rue") lead _ (by decide) (by decide) hw hf.2
  | _, lead, .num neg lit, after, hw, hn, hf => by
    cases neg
    · exact ⟨lexOne_num cfg hcfg lit lead _ hn hw hf.1, trivial⟩
    · exact ⟨opc cfg hcfg L hq '-' (by decide) lead _ hw, lexOne_num cfg hcfg lit [] _ hn rfl hf.1, trivial⟩
  | _, lead, .str s, after, hw, _, _ => ⟨lexOne_str cfg _ lead _ (hq s) hw, trivial⟩
  | ind, lead, .arr xs, after, hw, hn, _ => by
    cases xs with
    | nil =>
      exact ⟨opc cfg hcfg L hq '[' (by decide) lead _ hw, opc cfg hcfg L hq ']' (by decide) [] _ rfl, trivial⟩
    | cons v t =>
      simp only [valPieces, JL.isEmpty, Bool.false_eq_true, ↓reduceIte]
      refine ⟨opc cfg hcfg L hq '[' (by decide) lead _ hw, lexOne_endl cfg _, ?_⟩
      rw [piecesOK_append]
      exact ⟨itemPieces_ok (ind + 1) (.cons v t) _ hn,
        opc cfg hcfg L hq ']' (by decide) _ _ (indent_white ind), trivial⟩
  | ind, lead, .obj kvs, after, hw, hn, _ => by
    cases kvs with
    | nil =>
      exact ⟨opc cfg hcfg L hq '{' (by decide) lead _ hw, opc cfg hcfg L hq '}' (by decide) [] _ rfl, trivial⟩
    | cons k v t =>
      simp only [valPieces, JO.isEmpty, Bool.false_eq_true, ↓reduceIte]
      refine ⟨opc cfg hcfg L hq '{' (by decide) lead _ hw, lexOne_endl cfg _, ?_⟩
      rw [piecesOK_append]
      exact ⟨entryPieces_ok (ind + 1) (JO.allIdent cfg.keywords (.cons k v t)) (.cons k v t) _ hn (fun h => h),
        opc cfg hcfg L hq '}' (by decide) _ _ (indent_white ind), trivial⟩
theorem itemPieces_ok : ∀ (ind : Nat) (xs : JL Chars) (after : Chars),
    NumsOKL xs → PiecesOK cfg (itemPieces cfg L ind xs) after
  | _, .nil, _, _ => trivial
  | ind, .cons v t, after, hn => by
    simp only [itemPieces]
    rw [piecesOK_append]
    refine ⟨valPieces_ok ind (indent ind) v _ (indent_white ind) hn.1 ?_, ?_⟩
    · simp only [piecesText, tokOp, List.nil_append, List.cons_append]
      exact follow_comma _
    · exact ⟨opc cfg hcfg L hq ',' (by decide) [] _ rfl, lexOne_endl cfg _, itemPieces_ok ind t after hn.2⟩
theorem entryPieces_ok : ∀ (ind : Nat) (bare : Bool) (kvs : JO Chars) (after : Chars),
    NumsOKO kvs → (bare = true → JO.allIdent cfg.keywords kvs = true) →
    PiecesOK cfg (entryPieces cfg L ind bare kvs) after
  | _, _, .nil, _, _, _ => trivial
  | ind, bare, .cons k v t, after, hn, hb => by
    simp only [entryPieces]
    refine ⟨?_, opc cfg hcfg L hq ':' (by decide) [] _ rfl, ?_⟩
    · -- the key
      cases bare with
      | false => exact lexOne_str cfg _ _ _ (hq k) (indent_white ind)
      | true =>
        have hall := hb rfl
        simp only [JO.allIdent, Bool.and_eq_true] at hall
        obtain ⟨⟨c, r, hcr, hc, hr⟩, _⟩ := (isIdent_iff cfg.keywords k).1 hall.1
        have := lexOne_ident cfg c r (indent ind)
          (piecesText (⟨[], tokOp ':'⟩ :: (valPieces cfg L ind [' '] v ++
            (⟨[], tokOp ','⟩ :: ⟨[], tokEndl⟩ :: entryPieces cfg L ind true t))) after)
          hc hr (indent_white ind) (by
            simp only [piecesText, tokOp, List.nil_append, List.cons_append]
            intro d hd; simp at hd; subst hd; decide)
        simpa [keyPiece, hcr] using this
    · rw [piecesOK_append]
      refine ⟨valPieces_ok ind [' '] v _ (by decide) hn.1 ?_, ?_⟩
      · simp only [piecesText, tokOp, List.nil_append, List.cons_append]
        exact follow_comma _
      · refine ⟨opc cfg hcfg L hq ',' (by decide) [] _ rfl, lexOne_endl cfg _, entryPieces_ok ind bare t after hn.2 ?_⟩
        intro h
        have := hb h
        simp only [JO.allIdent, Bool.and_eq_true] at this
        exact this.2
end

end

end PubModel.C07
