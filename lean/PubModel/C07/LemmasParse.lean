/-
C07/C09 — token-level lemmas: the parser on the token stream of a surface tree.
-/
import PubModel.C07.Surface
import PubModel.C07.Obligations

namespace PubModel.C07

/-! ### clean parser states -/

def plain (ts : List Tok) : List RTok := ts.map fun t => ⟨t, []⟩

/-- a parser state with no error so far whose remaining tokens carry no lexer errors -/
def mkPS (ts : List Tok) : PS := { toks := plain ts, lexErrs := [] }

@[simp] theorem cur_mkPS_cons (t : Tok) (r : List Tok) : (mkPS (t :: r)).cur = t := rfl
@[simp] theorem cur_mkPS_nil : (mkPS []).cur = eofTok := rfl
@[simp] theorem shift_mkPS (t : Tok) (r : List Tok) : (mkPS (t :: r)).shift = mkPS r := by
  cases r <;> rfl
@[simp] theorem jail_mkPS (ts : List Tok) : (mkPS ts).jail = false := rfl
@[simp] theorem errs_mkPS (ts : List Tok) : (mkPS ts).errs = [] := rfl
@[simp] theorem lexErrs_mkPS (ts : List Tok) : (mkPS ts).lexErrs = [] := rfl
theorem init_plain (ts : List Tok) : PS.init (plain ts) = mkPS ts := by cases ts <;> rfl
@[simp] theorem firstErr_mkPS (ts : List Tok) : (mkPS ts).firstErr = none := rfl

theorem seeOp_mkPS_op (c : Char) (r : List Tok) (ops : List Char) :
    (mkPS (tokOp c :: r)).seeOp ops = decide (c ∈ ops) := by
  have h : ∀ ops : List Char, (ops.any fun o => decide (c = o)) = decide (c ∈ ops) := by
    intro ops
    induction ops with
    | nil => simp
    | cons o t ih => simp [ih]
  simp [PS.seeOp, tokOp, h]

theorem seeOp_mkPS_nonop (t : Tok) (r : List Tok) (ops : List Char) (h : t.ty ≠ .op) :
    (mkPS (t :: r)).seeOp ops = false := by
  simp [PS.seeOp, h]

@[simp] theorem seeOp_mkPS_nil (ops : List Char) : (mkPS []).seeOp ops = false := by
  simp [PS.seeOp, eofTok]

theorem expectOp_mkPS (c : Char) (r : List Tok) : (mkPS (tokOp c :: r)).expectOp c = mkPS r := by
  simp [PS.expectOp, seeOp_mkPS_op]

/-- the next token does not continue a dotted identifier list -/
def FollowOK (rest : List Tok) : Prop := rest.head? ≠ some (tokOp '.')

theorem seeOp_dot_false (rest : List Tok) (h : FollowOK rest) : (mkPS rest).seeOp ['.'] = false := by
  cases rest with
  | nil => simp
  | cons t r =>
    by_cases ht : t.ty = .op
    · have hne : t ≠ tokOp '.' := by
        intro he; apply h; simp [he]
      have hl : t.lit ≠ ['.'] := by
        intro hl; apply hne
        cases t; simp_all [tokOp]
      simp [PS.seeOp, ht, hl]
    · exact seeOp_mkPS_nonop t r _ ht

theorem parseIdents_render : ∀ (more : List Chars) (a : Chars) (acc : List Chars) (rest : List Tok)
    (_ : FollowOK rest) (n : Nat) (_ : more.length + 1 ≤ n),
    parseIdents n (mkPS (⟨.ident, a⟩ :: (identToks more ++ rest))) acc = (acc ++ a :: more, mkPS rest)
  | [], a, acc, rest, hf, n, hn => by
    cases n with
    | zero => omega
    | succ k => simp [parseIdents, identToks, seeOp_dot_false rest hf]
  | b :: m, a, acc, rest, hf, n, hn => by
    cases n with
    | zero => simp at hn
    | succ k =>
      have ih := parseIdents_render m b (acc ++ [a]) rest hf k (by simp at hn ⊢; omega)
      simp [parseIdents, identToks, seeOp_mkPS_op, ih]

/-- how a value can start: not with an operator other than a sign or an opening bracket -/
def StartTok (t : Tok) : Prop :=
  t.ty ≠ .op ∨ t.lit = ['+'] ∨ t.lit = ['-'] ∨ t.lit = ['['] ∨ t.lit = ['{']

theorem RV.toks_start : ∀ (r : RV), r.WF → ∃ t ts, r.toks = t :: ts ∧ StartTok t
  | .null, _ => ⟨_, _, rfl, .inl (by simp [tokKw])⟩
  | .tru, _ => ⟨_, _, rfl, .inl (by simp [tokKw])⟩
  | .fls, _ => ⟨_, _, rfl, .inl (by simp [tokKw])⟩
  | .str _, _ => ⟨_, _, rfl, .inl (by simp)⟩
  | .arr _, _ => ⟨_, _, rfl, .inr (.inr (.inr (.inl rfl)))⟩
  | .obj _, _ => ⟨_, _, rfl, .inr (.inr (.inr (.inr rfl)))⟩
  | .idents _ _, _ => ⟨_, _, rfl, .inl (by simp)⟩
  | .int none _, _ => ⟨_, _, rfl, .inl (by simp)⟩
  | .flt none _, _ => ⟨_, _, rfl, .inl (by simp)⟩
  | .int (some c) _, h => by
    refine ⟨tokOp c, _, rfl, ?_⟩
    rcases (show c = '+' ∨ c = '-' from h) with h | h <;> subst h <;> simp [StartTok, tokOp]
  | .flt (some c) _, h => by
    refine ⟨tokOp c, _, rfl, ?_⟩
    rcases (show c = '+' ∨ c = '-' from h) with h | h <;> subst h <;> simp [StartTok, tokOp]

theorem seeOp_start_false (t : Tok) (ts : List Tok) (h : StartTok t) (c : Char)
    (hc : c = ']' ∨ c = '}' ∨ c = ',') : (mkPS (t :: ts)).seeOp [c] = false := by
  by_cases ht : t.ty = .op
  · have : t.lit ≠ [c] := by
      rcases h with h | h | h | h | h
      · exact absurd ht h
      all_goals (rw [h]; rcases hc with hc | hc | hc <;> subst hc <;> decide)
    simp [PS.seeOp, ht, this]
  · exact seeOp_mkPS_nonop t ts _ ht

theorem not_follow_op (c : Char) (ts : List Tok) (h : c ≠ '.') : FollowOK (tokOp c :: ts) := by
  simp [FollowOK, tokOp, h]

section
variable {φ : Type} (cfg : Cfg) (hcfg : CfgOK cfg) (L : Leaf φ)
include hcfg

mutual
/-- on the token stream of a surface tree whose leaves the delegated functions accept,
    `parseValue` consumes exactly the tree, reports nothing, and builds `r.ast` -/
theorem parseValue_render : ∀ (r : RV) (_ : (r.val L).isSome = true) (_ : r.WF) (rest : List Tok)
    (_ : FollowOK rest) (n : Nat) (_ : r.size ≤ n),
    parseValue cfg L n (mkPS (r.toks ++ rest)) = (r.ast, mkPS rest)
  | .null, _, _, rest, _, n, hn => by
    cases n with
    | zero => simp [RV.size] at hn
    | succ m => simp [parseValue, RV.toks, RV.ast, tokKw, kwNull, kwTrue, kwFalse, str]
  | .tru, _, _, rest, _, n, hn => by
    cases n with
    | zero => simp [RV.size] at hn
    | succ m => simp [parseValue, RV.toks, RV.ast, tokKw, kwTrue]
  | .fls, _, _, rest, _, n, hn => by
    cases n with
    | zero => simp [RV.size] at hn
    | succ m => simp [parseValue, RV.toks, RV.ast, tokKw, kwFalse]
  | .str lit, hv, _, rest, _, n, hn => by
    cases n with
    | zero => simp [RV.size] at hn
    | succ m =>
      have : (L.unquote lit).isSome = true := by
        cases h : L.unquote lit <;> simp [RV.val, h] at hv ⊢
      simp [parseValue, RV.toks, RV.ast, checkString, this]
  | .int none lit, _, _, rest, _, n, hn => by
    cases n with
    | zero => simp [RV.size] at hn
    | succ m => simp [parseValue, RV.toks, RV.ast, leadToks]
  | .flt none lit, hv, _, rest, _, n, hn => by
    cases n with
    | zero => simp [RV.size] at hn
    | succ m =>
      have : (L.parseFloat lit).isSome = true := by
        cases h : L.parseFloat lit <;> simp [RV.val, h] at hv ⊢
      simp [parseValue, RV.toks, RV.ast, leadToks, checkFloat, this]
  | .int (some c) lit, _, hw, rest, _, n, hn => by
    cases n with
    | zero => simp [RV.size] at hn
    | succ m =>
      have hc : c = '+' ∨ c = '-' := hw
      have hsee : (mkPS (tokOp c :: ⟨.int, lit⟩ :: rest)).seeOp ['+', '-'] = true := by
        rw [seeOp_mkPS_op]; rcases hc with h | h <;> subst h <;> decide
      simp [parseValue, RV.toks, RV.ast, leadToks, hsee]
      simp [tokOp]
  | .flt (some c) lit, hv, hw, rest, _, n, hn => by
    cases n with
    | zero => simp [RV.size] at hn
    | succ m =>
      have hc : c = '+' ∨ c = '-' := hw
      have hsee : (mkPS (tokOp c :: ⟨.float, lit⟩ :: rest)).seeOp ['+', '-'] = true := by
        rw [seeOp_mkPS_op]; rcases hc with h | h <;> subst h <;> decide
      have : (L.parseFloat lit).isSome = true := by
        cases h : L.parseFloat lit <;> simp [RV.val, h] at hv ⊢
      simp [parseValue, RV.toks, RV.ast, leadToks, hsee, hcfg.signedFloat, checkFloat, this]
      simp [tokOp]
  | .idents a more, _, _, rest, hf, n, hn => by
    cases n with
    | zero => simp [RV.size] at hn
    | succ m =>
      have := parseIdents_render more a [] rest hf m (by simp [RV.size] at hn; omega)
      simp [parseValue, RV.toks, RV.ast, PS.seeOp, this]
  | .arr xs, hv, hw, rest, _, n, hn => by
    cases n with
    | zero => simp [RV.size] at hn
    | succ m =>
      have hvx : (xs.val L).isSome = true := by
        cases h : xs.val L <;> simp [RV.val, h] at hv ⊢
      have ih := parseItems_render xs hvx hw rest m (by simp [RV.size] at hn; omega)
      have h1 : (mkPS (tokOp '[' :: (xs.toks ++ tokOp ']' :: rest))).seeOp ['+', '-'] = false := by
        rw [seeOp_mkPS_op]; decide
      have h2 : (mkPS (tokOp '[' :: (xs.toks ++ tokOp ']' :: rest))).seeOp ['{'] = false := by
        rw [seeOp_mkPS_op]; decide
      have h3 : (mkPS (tokOp '[' :: (xs.toks ++ tokOp ']' :: rest))).seeOp ['['] = true := by
        rw [seeOp_mkPS_op]; decide
      simp [parseValue, RV.toks, RV.ast, h1, h2, h3, ih, expectOp_mkPS]
      simp [tokOp]
  | .obj kvs, hv, hw, rest, _, n, hn => by
    cases n with
    | zero => simp [RV.size] at hn
    | succ m =>
      have hvx : (kvs.val L).isSome = true := by
        cases h : kvs.val L <;> simp [RV.val, h] at hv ⊢
      have ih := parseEntries_render kvs hvx hw rest m (by simp [RV.size] at hn; omega)
      have h1 : (mkPS (tokOp '{' :: (kvs.toks ++ tokOp '}' :: rest))).seeOp ['+', '-'] = false := by
        rw [seeOp_mkPS_op]; decide
      have h2 : (mkPS (tokOp '{' :: (kvs.toks ++ tokOp '}' :: rest))).seeOp ['{'] = true := by
        rw [seeOp_mkPS_op]; decide
      simp [parseValue, RV.toks, RV.ast, h1, h2, ih, expectOp_mkPS]
      simp [tokOp]

theorem parseItems_render : ∀ (xs : RL) (_ : (xs.val L).isSome = true) (_ : xs.WF) (rest : List Tok)
    (n : Nat) (_ : xs.size ≤ n),
    parseItems cfg L n (mkPS (xs.toks ++ tokOp ']' :: rest)) = (xs.ast, mkPS (tokOp ']' :: rest))
  | .nil, _, _, rest, n, hn => by
    cases n with
    | zero => simp [RL.size] at hn
    | succ m => simp [parseItems, RL.toks, RL.ast, seeOp_mkPS_op]
  | .single v, hv, hw, rest, n, hn => by
    cases n with
    | zero => simp [RL.size] at hn
    | succ m =>
      have hvv : (v.val L).isSome = true := by
        cases h : v.val L <;> simp [RL.val, h] at hv ⊢
      obtain ⟨t, ts, hts, hst⟩ := RV.toks_start v hw
      have ih := parseValue_render v hvv hw (tokOp ']' :: rest) (not_follow_op _ _ (by decide)) m
        (by simp [RL.size] at hn; omega)
      have hs := seeOp_start_false t (ts ++ tokOp ']' :: rest) hst ']' (.inl rfl)
      cases m with
      | zero => have := RV.size_pos v; simp [RL.size] at hn; omega
      | succ k =>
        have hend : parseItems cfg L (k+1) (mkPS (tokOp ']' :: rest)) = (.nil, mkPS (tokOp ']' :: rest)) := by
          simp [parseItems, seeOp_mkPS_op]
        rw [hts] at ih
        simp only [RL.toks, hts, List.cons_append] at hs ih ⊢
        rw [parseItems]
        simp [hs, ih, seeOp_mkPS_op, hend, RL.ast]
  | .cons v t, hv, hw, rest, n, hn => by
    cases n with
    | zero => simp [RL.size] at hn
    | succ m =>
      have hvv : (v.val L).isSome = true ∧ (t.val L).isSome = true := by
        cases h : v.val L <;> cases h2 : t.val L <;> simp [RL.val, h, h2] at hv ⊢
      obtain ⟨t0, ts, hts, hst⟩ := RV.toks_start v hw.1
      have ih := parseValue_render v hvv.1 hw.1 (tokOp ',' :: (t.toks ++ tokOp ']' :: rest))
        (not_follow_op _ _ (by decide)) m (by simp [RL.size] at hn; omega)
      have ih2 := parseItems_render t hvv.2 hw.2 rest m (by simp [RL.size] at hn; omega)
      have hs := seeOp_start_false t0 (ts ++ tokOp ',' :: (t.toks ++ tokOp ']' :: rest)) hst ']' (.inl rfl)
      rw [hts] at ih
      simp only [RL.toks, hts, List.cons_append, List.append_assoc] at hs ih ⊢
      rw [parseItems]
      simp [hs, ih, seeOp_mkPS_op, ih2, RL.ast]

theorem parseEntries_render : ∀ (kvs : RO) (_ : (kvs.val L).isSome = true) (_ : kvs.WF) (rest : List Tok)
    (n : Nat) (_ : kvs.size ≤ n),
    parseEntries cfg L n (mkPS (kvs.toks ++ tokOp '}' :: rest)) = (kvs.ast, mkPS (tokOp '}' :: rest))
  | .nil, _, _, rest, n, hn => by
    cases n with
    | zero => simp [RO.size] at hn
    | succ m => simp [parseEntries, RO.toks, RO.ast, seeOp_mkPS_op]
  | .single k v, hv, hw, rest, n, hn => by
    cases n with
    | zero => simp [RO.size] at hn
    | succ m =>
      have hvv : (keyVal L k).isSome = true ∧ (v.val L).isSome = true := by
        cases h : keyVal L k <;> cases h2 : v.val L <;> simp [RO.val, h, h2] at hv ⊢
      have ih := parseValue_render v hvv.2 hw (tokOp '}' :: rest) (not_follow_op _ _ (by decide)) m
        (by simp [RO.size] at hn; omega)
      cases m with
      | zero => have := RV.size_pos v; simp [RO.size] at hn; omega
      | succ j =>
        have hend : parseEntries cfg L (j+1) (mkPS (tokOp '}' :: rest)) = (.nil, mkPS (tokOp '}' :: rest)) := by
          simp [parseEntries, seeOp_mkPS_op]
        cases k with
        | bare lit =>
          have hk := seeOp_mkPS_nonop ⟨.ident, lit⟩ (tokOp ':' :: (v.toks ++ tokOp '}' :: rest)) ['}'] (by simp)
          simp only [RO.toks, keyTok, List.cons_append] at hk ⊢
          rw [parseEntries]
          simp [hk, RO.ast, keyTy, keyLit, expectOp_mkPS, ih, hend, seeOp_mkPS_op]
        | quoted lit =>
          have hq : (L.unquote lit).isSome = true := hvv.1
          have hk := seeOp_mkPS_nonop ⟨.str, lit⟩ (tokOp ':' :: (v.toks ++ tokOp '}' :: rest)) ['}'] (by simp)
          simp only [RO.toks, keyTok, List.cons_append] at hk ⊢
          rw [parseEntries]
          simp [hk, RO.ast, keyTy, keyLit, expectOp_mkPS, ih, hend, seeOp_mkPS_op, checkString, hq]
  | .cons k v t, hv, hw, rest, n, hn => by
    cases n with
    | zero => simp [RO.size] at hn
    | succ m =>
      have hvv : (keyVal L k).isSome = true ∧ (v.val L).isSome = true ∧ (t.val L).isSome = true := by
        cases h : keyVal L k <;> cases h2 : v.val L <;> cases h3 : t.val L <;> simp [RO.val, h, h2, h3] at hv ⊢
      have ih := parseValue_render v hvv.2.1 hw.1 (tokOp ',' :: (t.toks ++ tokOp '}' :: rest))
        (not_follow_op _ _ (by decide)) m (by simp [RO.size] at hn; omega)
      have ih2 := parseEntries_render t hvv.2.2 hw.2 rest m (by simp [RO.size] at hn; omega)
      cases k with
      | bare lit =>
        have hk := seeOp_mkPS_nonop ⟨.ident, lit⟩
          (tokOp ':' :: (v.toks ++ tokOp ',' :: (t.toks ++ tokOp '}' :: rest))) ['}'] (by simp)
        simp only [RO.toks, keyTok, List.cons_append, List.append_assoc] at hk ih ⊢
        rw [parseEntries]
        simp [hk, RO.ast, keyTy, keyLit, expectOp_mkPS, ih, ih2, seeOp_mkPS_op]
      | quoted lit =>
        have hq : (L.unquote lit).isSome = true := hvv.1
        have hk := seeOp_mkPS_nonop ⟨.str, lit⟩
          (tokOp ':' :: (v.toks ++ tokOp ',' :: (t.toks ++ tokOp '}' :: rest))) ['}'] (by simp)
        simp only [RO.toks, keyTok, List.cons_append, List.append_assoc] at hk ih ⊢
        rw [parseEntries]
        simp [hk, RO.ast, keyTy, keyLit, expectOp_mkPS, ih, ih2, seeOp_mkPS_op, checkString, hq]
end

end

end PubModel.C07
