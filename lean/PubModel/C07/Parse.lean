/-
C07/C09 — JSONx model, part 3: token filters (jsonx/semi_inserter.go,
lexing/keyworder.go, lexing/remover.go), the parser (jsonx/parse_value.go with
lexing/parser.go's error jail), the encoder to JSON (jsonx/encode.go) and the
entry points (jsonx/to_json.go ToJSON, jsonx/decoder.go Decode/Unmarshal).
-/
import PubModel.C07.Lex

namespace PubModel.C07

/-! ### filters -/

/-- semiInserter.Token, as a function on the raw token list; the flag is `insertSemi` -/
def semiInsert : Bool → List RTok → List RTok
  | _, [] => []
  | ins, t :: rest =>
    match t.tok.ty with
    | .semi => t :: semiInsert false rest
    | .op => t :: semiInsert (t.tok.lit = ['}'] || t.tok.lit = [']']) rest
    | .eof => if ins then [⟨⟨.semi, []⟩, t.errs⟩, ⟨t.tok, []⟩] else [t]
    | .endl => if ins then ⟨⟨.semi, ['\n']⟩, t.errs⟩ :: semiInsert false rest else semiInsert ins rest
    | .comment => t :: semiInsert ins rest
    | _ => t :: semiInsert true rest

/-- Keyworder.Token -/
def keyworder (kws : List Chars) (ts : List RTok) : List RTok :=
  ts.map fun t => if t.tok.ty = .ident ∧ t.tok.lit ∈ kws then ⟨⟨.keyword, t.tok.lit⟩, t.errs⟩ else t

/-- Remover.Token for comments; the lexer errors of a removed comment surface with the next token -/
def dropComments : List String → List RTok → List RTok
  | _, [] => []
  | carry, t :: ts =>
    if t.tok.ty = .comment then dropComments (carry ++ t.errs) ts
    else ⟨t.tok, carry ++ t.errs⟩ :: dropComments [] ts

/-- the token stream the parser reads (`tokener` + recorder + comment remover) -/
def tokens (cfg : Cfg) (cs : Chars) : List RTok :=
  dropComments [] (keyworder cfg.keywords (semiInsert false (lexAll cfg (cs.length + 1) cs)))

/-! ### parser state (lexing/parser.go): one token of look-ahead, the lexer is
pulled lazily, so only the lexer errors of tokens pulled so far are visible -/

structure PS where
  toks : List RTok
  lexErrs : List String
  errs : List String := []
  jail : Bool := false
  deriving Repr

def PS.init (ts : List RTok) : PS :=
  { toks := ts, lexErrs := match ts with | t :: _ => t.errs | [] => [] }

/-- Parser.Token -/
def PS.cur (ps : PS) : Tok := match ps.toks with | t :: _ => t.tok | [] => eofTok

/-- Parser.Shift / Next -/
def PS.shift (ps : PS) : PS :=
  match ps.toks with
  | [] => ps
  | _ :: rest =>
    { ps with toks := rest, lexErrs := ps.lexErrs ++ (match rest with | t :: _ => t.errs | [] => []) }

/-- CodeErrorf: record and go to jail -/
def PS.addErr (ps : PS) (code : String) : PS := { ps with errs := ps.errs ++ [code], jail := true }

def PS.see (ps : PS) (t : TT) : Bool := ps.cur.ty = t

/-- parser.seeOp -/
def PS.seeOp (ps : PS) (ops : List Char) : Bool :=
  ps.cur.ty = .op && ops.any (fun o => ps.cur.lit = [o])

/-- parser.expectOp -/
def PS.expectOp (ps : PS) (o : Char) : PS :=
  if ps.jail then ps
  else if ps.seeOp [o] then ps.shift
  else ps.addErr "jsonx.expectOp"

/-- Parser.Errs: lexer errors win -/
def PS.firstErr (ps : PS) : Option String :=
  match ps.lexErrs with
  | e :: _ => some e
  | [] => ps.errs.head?

/-! ### syntax tree (jsonx/value.go) -/

mutual
inductive V where
  | nil                               -- Go nil (after an error)
  | null
  | bool (lit : Chars)
  /-- `basic{lead, token, value}`; `hasVal = false` is `value == nil` -/
  | basic (lead : Option Chars) (ty : TT) (lit : Chars) (hasVal : Bool)
  | obj (es : VEntries)
  | list (es : VItems)
  | idents (ts : List Chars)
inductive VEntries where
  | nil
  | cons (kty : TT) (klit : Chars) (v : V) (rest : VEntries)
inductive VItems where
  | nil
  | cons (v : V) (rest : VItems)
end

section
variable {φ : Type} (cfg : Cfg) (L : Leaf φ)

def checkString (lit : Chars) (ps : PS) : PS :=
  if (L.unquote lit).isSome then ps else ps.addErr "jsonx.stringLit"

def checkFloat (lit : Chars) (ps : PS) : PS :=
  if (L.parseFloat lit).isSome then ps else ps.addErr "jsonx.floatLit"

/-- parseIdentList -/
def parseIdents : Nat → PS → List Chars → List Chars × PS
  | 0, ps, acc => (acc, ps.addErr "model.fuel")
  | n+1, ps, acc =>
    if ps.jail then (acc, ps)
    else if ps.cur.ty ≠ .ident then (acc, ps.addErr "lexing.unexpected")
    else
      let acc' := acc ++ [ps.cur.lit]
      let ps1 := ps.shift
      if ps1.seeOp ['.'] then parseIdents n ps1.shift acc' else (acc', ps1)

def kwTrue := str "true"
def kwFalse := str "false"
def kwNull := str "null"

/- Nesting limit: the Go parser counts the nesting of objects and lists and reports
   `jsonx.tooDeep` beyond `maxNestingDepth` (10000, regenerated fact
   `Gen.JsonxVal.maxNestingDepth`, obligation `gen_depth_limit`).  The model has no depth
   counter: it describes the parser on documents nested less deeply than the limit. -/
mutual
/-- parseValue -/
def parseValue : Nat → PS → V × PS
  | 0, ps => (.nil, ps.addErr "model.fuel")
  | n+1, ps =>
    let t := ps.cur
    if t.ty = .keyword then
      let ps1 := ps.shift
      if t.lit = kwTrue ∨ t.lit = kwFalse then (.bool t.lit, ps1)
      else if t.lit = kwNull then (.null, ps1)
      else (.nil, ps1.addErr "jsonx.unexpectedKeyword")
    else if t.ty = .str then
      (.basic none .str t.lit true, checkString L t.lit ps.shift)
    else if t.ty = .int then
      (.basic none .int t.lit false, ps.shift)
    else if t.ty = .float then
      (.basic none .float t.lit true, checkFloat L t.lit ps.shift)
    else if ps.seeOp ['+', '-'] then
      let ps1 := ps.shift
      let t2 := ps1.cur
      if t2.ty = .int then (.basic (some t.lit) .int t2.lit false, ps1.shift)
      else if t2.ty = .float then
        if cfg.signedFloat then (.basic (some t.lit) .float t2.lit true, checkFloat L t2.lit ps1.shift)
        else (.basic (some t.lit) .float t2.lit false, ps1.shift)
      else (.nil, ps1.addErr "jsonx.expectNumber")
    else if ps.seeOp ['{'] then
      let r := parseEntries n ps.shift
      (.obj r.1, r.2.expectOp '}')
    else if ps.seeOp ['['] then
      let r := parseItems n ps.shift
      (.list r.1, r.2.expectOp ']')
    else if t.ty = .ident then
      let r := parseIdents n ps []
      (.idents r.1, r.2)
    else (.nil, ps.addErr "jsonx.expectOperand")

/-- parseObjectEntries -/
def parseEntries : Nat → PS → VEntries × PS
  | 0, ps => (.nil, ps.addErr "model.fuel")
  | n+1, ps =>
    if ps.seeOp ['}'] then (.nil, ps)
    else if ¬ (ps.cur.ty = .ident ∨ ps.cur.ty = .str) then (.nil, ps.addErr "jsonx.expectObjectEntry")
    else
      let k := ps.cur
      let ps1 := if k.ty = .str then checkString L k.lit ps.shift else ps.shift
      let ps2 := ps1.expectOp ':'
      let r := parseValue n ps2
      let ps3 := if r.2.seeOp [','] then r.2.shift
                 else if ¬ r.2.seeOp ['}'] then r.2.expectOp ',' else r.2
      if ps3.jail then (.cons k.ty k.lit r.1 .nil, ps3)
      else
        let r2 := parseEntries n ps3
        (.cons k.ty k.lit r.1 r2.1, r2.2)

/-- parseListEntries -/
def parseItems : Nat → PS → VItems × PS
  | 0, ps => (.nil, ps.addErr "model.fuel")
  | n+1, ps =>
    if ps.seeOp [']'] then (.nil, ps)
    else
      let r := parseValue n ps
      let ps3 := if r.2.seeOp [','] then r.2.shift
                 else if ¬ r.2.seeOp [']'] then r.2.expectOp ',' else r.2
      if ps3.jail then (.cons r.1 .nil, ps3)
      else
        let r2 := parseItems n ps3
        (.cons r.1 r2.1, r2.2)
end

/-! ### encoder (jsonx/encode.go) -/

def decVal (cs : Chars) : Nat := cs.foldl (fun v c => v * 10 + digitVal c) 0

/-- digit value as math/big's `nat.scan` reads it: `0-9`, `a-z` and `A-Z` from 10; anything
    else is larger than every base -/
def scanDigit (c : Char) : Nat :=
  if isDigit c then c.toNat - 48
  else if isLower c then c.toNat - 87
  else if isUpper c then c.toNat - 55
  else 63

/-- the digit loop of `nat.scan` with base argument 0: `_` may separate digits (it is
    invalid unless the previous character was a digit or the prefix); the loop stops at
    the first character that is not a digit of base `b`.
    State: value, digit count, previous character class (`'0'` digit, `'_'` separator,
    `'.'` other), invalid-separator flag.  Returns them and the unread rest. -/
def scanDigits (b : Nat) : Chars → Nat → Nat → Char → Bool → Nat × Nat × Char × Bool × Chars
  | [], v, n, p, i => (v, n, p, i, [])
  | c :: r, v, n, p, i =>
    if c = '_' then scanDigits b r v n '_' (i || p ≠ '0')
    else if scanDigit c ≥ b then (v, n, p, i, c :: r)
    else scanDigits b r (v * b + scanDigit c) (n + 1) '0' i

/-- end of `nat.scan` + `Int.SetString`: separators must be valid, there must be a digit
    (a lone octal prefix `0` counts as the number 0), nothing may be left over -/
def scanFinish (s : Nat × Nat × Char × Bool × Chars) (octalPrefix : Bool) : Option Nat :=
  if s.2.2.2.1 = true ∨ s.2.2.1 = '_' then none
  else if s.2.1 = 0 then (if octalPrefix ∧ s.2.2.2.2 = [] then some 0 else none)
  else if s.2.2.2.2 = [] then some s.1 else none

/-- `new(big.Int).SetString(lit, 0)` on a literal without a sign (the lexer never puts a
    sign into a token): prefixes `0x/0X` (hex), `0b/0B` (binary), `0o/0O` and a bare
    leading `0` (octal), decimal otherwise, `_` between digits or after the prefix;
    `none` = not ok.  Integer tokens of `LexNumber` are only `digits` or `0x`+hex digits;
    the other forms are modelled so that the leaf contract can be checked on all of them. -/
def goInt (lit : Chars) : Option Nat :=
  match lit with
  | [] => none
  | c :: r =>
    if c = '0' ∧ r ≠ [] then
      if r.head? = some 'b' ∨ r.head? = some 'B' then scanFinish (scanDigits 2 (r.drop 1) 0 0 '0' false) false
      else if r.head? = some 'o' ∨ r.head? = some 'O' then scanFinish (scanDigits 8 (r.drop 1) 0 0 '0' false) false
      else if r.head? = some 'x' ∨ r.head? = some 'X' then scanFinish (scanDigits 16 (r.drop 1) 0 0 '0' false) false
      else scanFinish (scanDigits 8 r 0 0 '0' false) true
    else scanFinish (scanDigits 10 (c :: r) 0 0 '.' false) false

def natChars (n : Nat) : Chars := (Nat.repr n).toList

def jsonIdent (lit : Chars) : Chars := L.jsonStr (identBytes lit)

/-- encodeBasic -/
def encodeBasic (lead : Option Chars) (ty : TT) (lit : Chars) (hasVal : Bool) : Option Chars :=
  let sign : Chars := if lead = some ['-'] then ['-'] else []
  match ty with
  | .int =>
    if cfg.intConv then (goInt lit).map (fun n => sign ++ natChars n)
    else some (sign ++ lit)
  | .float =>
    if hasVal then (L.parseFloat lit).map (fun f => sign ++ L.jsonFloat f)
    else some (sign ++ str "null")
  | .str =>
    if hasVal then (L.unquote lit).map (fun s => sign ++ L.jsonStr s)
    else some (sign ++ str "null")
  | _ => none

def encodeIdents : List Chars → Bool → Chars
  | [], _ => []
  | t :: ts, first => (if first then [] else [',']) ++ jsonIdent L t ++ encodeIdents ts false

mutual
/-- encodeValue -/
def encodeValue : V → Option Chars
  | .nil => none
  | .null => some (str "null")
  | .bool lit => some lit
  | .basic lead ty lit hv => encodeBasic cfg L lead ty lit hv
  | .obj es => (encodeEntries es true).map (fun s => '{' :: (s ++ ['}']))
  | .list es => (encodeItems es true).map (fun s => '[' :: (s ++ [']']))
  | .idents ts => some ('[' :: (encodeIdents L ts true ++ [']']))
def encodeEntries : VEntries → Bool → Option Chars
  | .nil, _ => some []
  | .cons kty klit v rest, first =>
    let key : Option Chars :=
      if kty = .ident then some (jsonIdent L klit) else (L.unquote klit).map L.jsonStr
    match key, encodeValue v, encodeEntries rest false with
    | some k, some s, some r => some ((if first then [] else [',']) ++ k ++ (':' :: s) ++ r)
    | _, _, _ => none
def encodeItems : VItems → Bool → Option Chars
  | .nil, _ => some []
  | .cons v rest, first =>
    match encodeValue v, encodeItems rest false with
    | some s, some r => some ((if first then [] else [',']) ++ s ++ r)
    | _, _ => none
end

/-! ### entry points -/

inductive Res (α : Type) where
  | ok (a : α)
  | err (code : String)
  deriving Repr, DecidableEq

/-- ToJSON on the parser's token stream -/
def toJSONToks (ts : List RTok) : Res Chars :=
  let r := parseValue cfg L (ts.length + 2) (PS.init ts)
  match r.2.firstErr with
  | some c => .err c
  | none =>
    match encodeValue cfg L r.1 with
    | some out => .ok out
    | none => .err ""

/-- jsonx.ToJSON -/
def toJSON (cs : Chars) : Res Chars := toJSONToks cfg L (tokens cfg cs)

/-- Decoder.Decode up to the call of json.Unmarshal, then Decoder.More:
    the JSON text handed to encoding/json and whether more tokens follow -/
def decodeToks (ts : List RTok) : Res (Chars × Bool) :=
  let r := parseValue cfg L (ts.length + 2) (PS.init ts)
  match r.2.firstErr with
  | some c => .err c
  | none =>
    let ps := if r.2.see .semi then r.2.shift else r.2
    match encodeValue cfg L r.1 with
    | some out => .ok (out, !ps.see .eof)
    | none => .err ""

/-- jsonx.Unmarshal / unmarshalFile: trailing tokens are an error -/
def unmarshalToks (ts : List RTok) : Res Chars :=
  match decodeToks cfg L ts with
  | .err c => .err c
  | .ok (out, more) => if more then .err "more" else .ok out

def unmarshal (cs : Chars) : Res Chars := unmarshalToks cfg L (tokens cfg cs)

end

end PubModel.C07
