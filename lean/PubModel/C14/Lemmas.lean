import PubModel.C14.Model

namespace PubModel.C14
open PubModel

theorem fill_pending (r : BR) : r.fill.pending = r.pending := by
  unfold BR.fill BR.pending
  cases h : r.src with
  | nil => simp [h]
  | cons c cs =>
    simp only
    split
    · simp [List.append_assoc]
    · simp only [List.flatten_cons, List.append_assoc]
      rw [← List.append_assoc (c.take _), List.take_append_drop]

theorem fill_cap (r : BR) : r.fill.cap = r.cap := by
  unfold BR.fill
  split
  · rfl
  · split <;> rfl

theorem fill_buf_le (r : BR) (h : r.buf.length ≤ r.cap) : r.fill.buf.length ≤ r.fill.cap := by
  unfold BR.fill
  split
  · exact h
  · split
    · simp; omega
    · simp [List.length_take]; omega

theorem fill_segs (r : BR) (h : Segs r.src) : Segs r.fill.src := by
  unfold BR.fill
  cases hs : r.src with
  | nil => simpa [hs] using h
  | cons c cs =>
    simp only
    rw [hs] at h
    split
    · intro d hd; exact h d (List.mem_cons_of_mem _ hd)
    · rename_i hlen
      intro d hd
      simp at hd
      rcases hd with rfl | hd
      · intro he
        have := congrArg List.length he
        simp at this; omega
      · exact h d (List.mem_cons_of_mem _ hd)

/-- a fill that is allowed to run makes progress on the source -/
theorem fill_progress (r : BR) (hs : Segs r.src) (hne : r.src ≠ []) (hroom : r.buf.length < r.cap) :
    r.fill.src.flatten.length < r.src.flatten.length := by
  unfold BR.fill
  cases hsrc : r.src with
  | nil => exact absurd hsrc hne
  | cons c cs =>
    simp only
    have hc : c ≠ [] := hs c (by rw [hsrc]; exact List.mem_cons_self ..)
    have hcl : 0 < c.length := List.length_pos_iff.mpr hc
    split
    · simp; omega
    · simp [List.length_drop]; omega

theorem peekLoop_inv (fuel n : Nat) (r : BR) :
    (BR.peekLoop fuel n r).pending = r.pending ∧ (BR.peekLoop fuel n r).cap = r.cap ∧
    (r.buf.length ≤ r.cap → (BR.peekLoop fuel n r).buf.length ≤ r.cap) ∧
    (Segs r.src → Segs (BR.peekLoop fuel n r).src) := by
  induction fuel generalizing r with
  | zero => simp [BR.peekLoop]
  | succ fuel ih =>
    simp only [BR.peekLoop]
    split
    · obtain ⟨h1, h2, h3, h4⟩ := ih r.fill
      refine ⟨h1.trans (fill_pending r), h2.trans (fill_cap r), ?_, ?_⟩
      · intro hb
        have := h3 (fill_buf_le r hb)
        rw [fill_cap] at this; exact this
      · intro hs; exact h4 (fill_segs r hs)
    · exact ⟨rfl, rfl, id, id⟩

/-- with enough fuel the loop stops only because its condition is false -/
theorem peekLoop_done (fuel n : Nat) (r : BR) (hs : Segs r.src) (hf : r.src.flatten.length < fuel) :
    let r' := BR.peekLoop fuel n r
    ¬ (r'.buf.length < n ∧ r'.buf.length < r'.cap ∧ r'.src ≠ []) := by
  induction fuel generalizing r with
  | zero => omega
  | succ fuel ih =>
    simp only [BR.peekLoop]
    split
    · rename_i hc
      apply ih r.fill (fill_segs r hs)
      have := fill_progress r hs hc.2.2 hc.2.1
      omega
    · rename_i hc; exact hc

theorem peek_pending (r : BR) (n : Nat) : (r.peek n).1.pending = r.pending ∧ (r.peek n).1.cap = r.cap := by
  have := peekLoop_inv (r.src.flatten.length + 1) n r
  unfold BR.peek
  simp only
  split
  · exact ⟨this.1, this.2.1⟩
  · split
    · exact ⟨this.1, this.2.1⟩
    · exact ⟨this.1, this.2.1⟩

theorem peek_buf_le (r : BR) (n : Nat) (h : r.buf.length ≤ r.cap) : (r.peek n).1.buf.length ≤ r.cap := by
  have := (peekLoop_inv (r.src.flatten.length + 1) n r).2.2.1 h
  unfold BR.peek
  simp only
  split
  · exact this
  · split <;> exact this

theorem peek_segs (r : BR) (n : Nat) (h : Segs r.src) : Segs (r.peek n).1.src := by
  have := (peekLoop_inv (r.src.flatten.length + 1) n r).2.2.2 h
  unfold BR.peek
  simp only
  split
  · exact this
  · split <;> exact this

/-- **Peek succeeds whenever the bytes exist and fit the buffer**, for every segmentation. -/
theorem peek_ok (r : BR) (n : Nat) (hs : Segs r.src) (hcap : n ≤ r.cap) (hlen : n ≤ r.pending.length) :
    (r.peek n).2 = .ok (r.pending.take n) := by
  have hinv := peekLoop_inv (r.src.flatten.length + 1) n r
  have hdone := peekLoop_done (r.src.flatten.length + 1) n r hs (Nat.lt_succ_self _)
  unfold BR.peek
  simp only at hdone ⊢
  generalize BR.peekLoop (r.src.flatten.length + 1) n r = r' at hinv hdone
  obtain ⟨hp, hc, _, _⟩ := hinv
  have hbuf : n ≤ r'.buf.length := by
    by_cases h1 : r'.buf.length < n
    · -- then the buffer is full or the source is empty: both impossible
      by_cases h2 : r'.buf.length < r'.cap
      · have h3 : r'.src = [] := by
          by_cases h3 : r'.src = []
          · exact h3
          · exact absurd ⟨h1, h2, h3⟩ hdone
        have : r'.pending = r'.buf := by simp [BR.pending, h3]
        rw [hp] at this
        rw [this] at hlen
        omega
      · omega
    · omega
  have h1 : ¬ r'.cap < n := by omega
  have h2 : ¬ r'.buf.length < n := by omega
  simp only [h1, h2, if_false]
  congr 1
  rw [← hp]
  simp only [BR.pending]
  rw [List.take_append_of_le_length hbuf]

theorem read_stream (r : BR) (k : Nat) : (r.read k).2 ++ (r.read k).1.pending = r.pending := by
  unfold BR.read
  split
  · simp [BR.pending, ← List.append_assoc, List.take_append_drop]
  · rename_i hb
    have hb' : r.buf = [] := by simpa using hb
    cases hs : r.src with
    | nil => simp [BR.pending, hb', hs]
    | cons c cs =>
      simp only
      split
      · split
        · simp [BR.pending, hb', hs]
        · simp [BR.pending, hb', hs, ← List.append_assoc, List.take_append_drop]
      · obtain ⟨b, src, cap⟩ := r
        simp only at hb' hs
        subst hb'; subst hs
        have hf := fill_pending (BR.mk [] (c :: cs) cap)
        simp only [BR.pending] at hf ⊢
        rw [← List.append_assoc, List.take_append_drop]
        exact hf

end PubModel.C14
