import PubModel.C14.Theorems
open PubModel.C14
#print axioms helloInfo_exact
#print axioms helloInfo_consumes_nothing
#print axioms helloInfo_bounded
#print axioms read_continues
#print axioms reads_prefix
#print axioms peek_ok
#print axioms record_longer_than_buffer
#print axioms default_buffer_too_small
#print axioms gen_peek_buffer_fits_record
#print axioms helloInfo_exact_gen
#print axioms hello_name_exact
#print axioms PubModel.C14.Hello.sniff_build
#print axioms PubModel.C14.Hello.build_shape
