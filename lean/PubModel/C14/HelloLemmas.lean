import PubModel.C14.Hello

namespace PubModel.C14.Hello
open PubModel

theorem ofNat_toNat (n : Nat) (h : n < 256) : (UInt8.ofNat n).toNat = n := by
  simp [UInt8.toNat_ofNat']; omega

theorem u8p_cons (n : Nat) (h : n < 256) (r : Bytes) : u8p (UInt8.ofNat n :: r) = some (n, r) := by
  simp [u8p, ofNat_toNat n h]

theorem u16p_be16 (n : Nat) (h : n < 65536) (r : Bytes) : u16p (be16 n ++ r) = some (n, r) := by
  have h1 : n / 256 < 256 := by omega
  have h2 : n % 256 < 256 := by omega
  simp [u16p, be16, ofNat_toNat _ h1, ofNat_toNat _ h2]
  omega

theorem u24p_be24 (n : Nat) (h : n < 16777216) (r : Bytes) : u24p (be24 n ++ r) = some (n, r) := by
  have h1 : n / 65536 < 256 := by omega
  have h2 : n / 256 % 256 < 256 := by omega
  have h3 : n % 256 < 256 := by omega
  simp [u24p, be24, ofNat_toNat _ h1, ofNat_toNat _ h2, ofNat_toNat _ h3]
  omega

theorem takeN_append (a r : Bytes) : takeN a.length (a ++ r) = some (a, r) := by
  simp [takeN]

theorem vec16_append (d r : Bytes) (h : d.length < 65536) :
    vec16 (be16 d.length ++ (d ++ r)) = some (d, r) := by
  simp [vec16, u16p_be16 _ h, takeN_append]

theorem vec8_append (d r : Bytes) (h : d.length < 256) :
    vec8 (UInt8.ofNat d.length :: (d ++ r)) = some (d, r) := by
  simp [vec8, u8p_cons _ h, takeN_append]

theorem be16_length (n : Nat) : (be16 n).length = 2 := rfl

theorem encExt_length (e : Ext) : (encExt e).length = 4 + e.2.length := by
  simp [encExt, be16_length]; omega

theorem splitExts_enc (es : List Ext) (hw : ∀ e ∈ es, e.1 < 65536 ∧ e.2.length < 65536) :
    ∀ fuel, (es.flatMap encExt).length ≤ fuel → splitExts fuel (es.flatMap encExt) = some es := by
  induction es with
  | nil => intro fuel _; cases fuel <;> simp [splitExts]
  | cons e es ih =>
    intro fuel hf
    have he := hw e (List.mem_cons_self ..)
    simp only [List.flatMap_cons, List.length_append, encExt_length] at hf
    cases fuel with
    | zero => omega
    | succ fuel =>
      have hne : encExt e ++ es.flatMap encExt ≠ [] := by
        simp [encExt, be16]
      simp only [List.flatMap_cons]
      cases hx : encExt e ++ es.flatMap encExt with
      | nil => exact absurd hx hne
      | cons a t =>
        rw [← hx]
        unfold splitExts
        rw [hx]
        simp only
        rw [← hx]
        simp only [encExt, List.append_assoc]
        rw [u16p_be16 _ he.1]
        simp only [bind, Option.bind]
        rw [vec16_append _ _ he.2]
        simp only
        rw [ih (fun x hx' => hw x (List.mem_cons_of_mem _ hx')) fuel (by omega)]
        rfl

theorem encProtos_cons (p : Bytes) (ps : List Bytes) :
    encProtos (p :: ps) = UInt8.ofNat p.length :: (p ++ encProtos ps) := by
  simp [encProtos]

theorem splitProtos_enc (ps : List Bytes) (hw : ∀ p ∈ ps, p ≠ [] ∧ p.length < 256) :
    ∀ fuel, (encProtos ps).length ≤ fuel → splitProtos fuel (encProtos ps) = some ps := by
  induction ps with
  | nil => intro fuel _; cases fuel <;> simp [splitProtos, encProtos]
  | cons p ps ih =>
    intro fuel hf
    have hp := hw p (List.mem_cons_self ..)
    rw [encProtos_cons] at hf ⊢
    cases fuel with
    | zero => simp at hf
    | succ fuel =>
      unfold splitProtos
      simp only [bind, Option.bind]
      rw [vec8_append _ _ hp.2]
      simp only [hp.1, if_false]
      rw [ih (fun x hx => hw x (List.mem_cons_of_mem _ hx)) fuel (by simp at hf; omega)]
      rfl

theorem parseALPN_enc (ps : List Bytes) (hne : ps ≠ []) (hw : ∀ p ∈ ps, p ≠ [] ∧ p.length < 256)
    (ht : (encProtos ps).length < 65536) : parseALPN (encALPN ps) = some ps := by
  unfold parseALPN encALPN
  have := vec16_append (encProtos ps) [] ht
  simp only [List.append_nil] at this
  simp only [bind, Option.bind, this]
  have hne2 : encProtos ps ≠ [] := by
    cases ps with
    | nil => exact absurd rfl hne
    | cons p ps => rw [encProtos_cons]; simp
  simp only [ne_eq, not_true_eq_false, if_false, hne2]
  exact splitProtos_enc ps hw _ (Nat.le_refl _)

theorem parseSNI_enc (n : Bytes) (hne : n ≠ []) (hl : n.length < 65000) (hd : n.getLast? ≠ some 46) :
    parseSNI (encSNI n) = some n := by
  unfold parseSNI encSNI
  have hel : ([0] ++ be16 n.length ++ n : Bytes).length < 65536 := by simp [be16_length]; omega
  have := vec16_append ([0] ++ be16 n.length ++ n) [] hel
  simp only [List.append_nil] at this
  simp only [bind, Option.bind, this]
  have hne2 : ([0] ++ be16 n.length ++ n : Bytes) ≠ [] := by simp
  simp only [ne_eq, not_true_eq_false, if_false, hne2]
  -- one entry of type 0
  have hsplit : splitNames ([0] ++ be16 n.length ++ n : Bytes).length ([0] ++ be16 n.length ++ n) = some [(0, n)] := by
    have hlen : ([0] ++ be16 n.length ++ n : Bytes).length = (2 + n.length) + 1 := by simp [be16_length] <;> omega
    rw [hlen]
    have hv := vec16_append n [] (by omega)
    simp only [List.append_nil] at hv
    show splitNames (2 + n.length + 1) ((0 : UInt8) :: (be16 n.length ++ n)) = some [(0, n)]
    unfold splitNames
    simp only [u8p, bind, Option.bind, hv, hne, if_false]
    cases h : 2 + n.length <;> simp [splitNames]
  rw [hsplit]
  simp only [List.filter, decide_true, hd, if_false]

end PubModel.C14.Hello
