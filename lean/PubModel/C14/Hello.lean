/-
C14 — a model of the part of the TLS ClientHello grammar that decides what
`GetConfigForClient` is called with (Go's crypto/tls, `clientHelloMsg.unmarshal`):
record header, handshake header, fixed fields, the extensions block, `server_name`
and ALPN.  `build` produces a hello from a description, `sniff` reads one.
The model is my reading of the library; the harness compares it with crypto/tls on
every generated hello (and in the sound direction on garbage).
-/
import PubModel.Common.Hex

namespace PubModel.C14.Hello
open PubModel

def be16 (n : Nat) : Bytes := [UInt8.ofNat (n / 256), UInt8.ofNat (n % 256)]
def be24 (n : Nat) : Bytes := [UInt8.ofNat (n / 65536), UInt8.ofNat (n / 256 % 256), UInt8.ofNat (n % 256)]

def takeN (n : Nat) (bs : Bytes) : Option (Bytes × Bytes) :=
  if n ≤ bs.length then some (bs.take n, bs.drop n) else none

def u8p : Bytes → Option (Nat × Bytes)
  | a :: r => some (a.toNat, r)
  | _ => none

def u16p : Bytes → Option (Nat × Bytes)
  | a :: b :: r => some (a.toNat * 256 + b.toNat, r)
  | _ => none

def u24p : Bytes → Option (Nat × Bytes)
  | a :: b :: c :: r => some (a.toNat * 65536 + b.toNat * 256 + c.toNat, r)
  | _ => none

def vec8 (bs : Bytes) : Option (Bytes × Bytes) := do
  let (n, r) ← u8p bs
  takeN n r

def vec16 (bs : Bytes) : Option (Bytes × Bytes) := do
  let (n, r) ← u16p bs
  takeN n r

/-- one extension: type, data -/
abbrev Ext := Nat × Bytes

def encExt (e : Ext) : Bytes := be16 e.1 ++ be16 e.2.length ++ e.2

/-- split the extensions block; fuel = number of bytes -/
def splitExts : Nat → Bytes → Option (List Ext)
  | _, [] => some []
  | 0, _ :: _ => none
  | fuel + 1, bs => do
    let (t, r1) ← u16p bs
    let (d, r2) ← vec16 r1
    let rest ← splitExts fuel r2
    pure ((t, d) :: rest)

/-- ALPN protocol list: non-empty u8-prefixed names until the data is used up -/
def splitProtos : Nat → Bytes → Option (List Bytes)
  | _, [] => some []
  | 0, _ :: _ => none
  | fuel + 1, bs => do
    let (p, r) ← vec8 bs
    if p = [] then none
    else
      let rest ← splitProtos fuel r
      pure (p :: rest)

def parseALPN (d : Bytes) : Option (List Bytes) := do
  let (l, r) ← vec16 d
  if r ≠ [] then none
  else if l = [] then none       -- an empty protocol list is malformed
  else splitProtos l.length l

/-- server_name list entries: (name type, name) -/
def splitNames : Nat → Bytes → Option (List (Nat × Bytes))
  | _, [] => some []
  | 0, _ :: _ => none
  | fuel + 1, bs => do
    let (t, r1) ← u8p bs
    let (n, r2) ← vec16 r1
    if n = [] then none
    else
      let rest ← splitNames fuel r2
      pure ((t, n) :: rest)

def parseSNI (d : Bytes) : Option Bytes := do
  let (l, r) ← vec16 d
  if r ≠ [] then none
  else if l = [] then none
  else
    let names ← splitNames l.length l
    match names.filter (fun p => p.1 = 0) with
    | [] => some []                       -- no host_name entry: no name
    | [(_, n)] => if n.getLast? = some 46 then none else some n   -- a trailing dot rejects the hello
    | _ => none                           -- two host names reject the hello

structure Info where
  name : Bytes
  protoCount : Nat
  firstProto : Bytes
  deriving DecidableEq, Repr

def hasDup : List Nat → Bool
  | [] => false
  | a :: r => r.contains a || hasDup r

/-- what `GetConfigForClient` receives, or `none` when the library rejects the hello -/
def sniffBody (body : Bytes) : Option Info := do
  let (_, r0) ← takeN 2 body                 -- legacy_version
  let (_, r1) ← takeN 32 r0                  -- random
  let (_, r2) ← vec8 r1                      -- session id
  let (cs, r3) ← vec16 r2                    -- cipher suites
  let (comp, r4) ← vec8 r3                   -- compression methods
  if cs.length % 2 ≠ 0 ∨ comp = [] then none
  else if r4 = [] then some ⟨[], 0, []⟩     -- no extensions at all
  else
    let (eb, r5) ← vec16 r4
    if r5 ≠ [] then none
    else
      let exts ← splitExts eb.length eb
      if hasDup (exts.map (·.1)) then none
      else
        let name ← match exts.lookup 0 with
          | some d => parseSNI d
          | none => some []
        let protos ← match exts.lookup 16 with
          | some d => parseALPN d
          | none => some []
        pure ⟨name, protos.length, protos.headD []⟩

/-- a whole record: header (type 22, version, length), handshake header (type 1, u24 length) -/
def sniff (rec : Bytes) : Option Info := do
  let (hdr, r) ← takeN 5 rec
  if hdr.getD 0 0 ≠ 22 then none
  else
    let n := (hdr.getD 3 0).toNat * 256 + (hdr.getD 4 0).toNat
    if r.length ≠ n then none
    else
      let (t, r1) ← u8p r
      let (hl, body) ← u24p r1
      if t ≠ 1 ∨ body.length ≠ hl then none
      else sniffBody body

/-! ### builder -/

structure Desc where
  version : Bytes           -- 2 bytes
  random : Bytes            -- 32 bytes
  sessionId : Bytes         -- ≤ 255
  ciphers : Bytes           -- even, ≤ 65535
  compression : Bytes       -- 1..255
  sni : Option Bytes        -- host name (non-empty, no trailing dot)
  alpn : List Bytes         -- each 1..255 bytes
  before : List Ext         -- other extensions placed before server_name
  middle : List Ext         -- between server_name and ALPN
  after : List Ext          -- after ALPN (e.g. padding, type 21)
  deriving Repr

def encSNI (n : Bytes) : Bytes :=
  let entry := [0] ++ be16 n.length ++ n
  be16 entry.length ++ entry

def encProtos (ps : List Bytes) : Bytes := ps.flatMap (fun p => UInt8.ofNat p.length :: p)

def encALPN (ps : List Bytes) : Bytes := be16 (encProtos ps).length ++ encProtos ps

def Desc.exts (h : Desc) : List Ext :=
  h.before ++ (match h.sni with | some n => [(0, encSNI n)] | none => []) ++ h.middle ++
  (if h.alpn = [] then [] else [(16, encALPN h.alpn)]) ++ h.after

def Desc.body (h : Desc) : Bytes :=
  let eb := h.exts.flatMap encExt
  h.version ++ h.random ++ (UInt8.ofNat h.sessionId.length :: h.sessionId) ++
  be16 h.ciphers.length ++ h.ciphers ++ (UInt8.ofNat h.compression.length :: h.compression) ++
  be16 eb.length ++ eb

def build (h : Desc) : Bytes :=
  let body := h.body
  let hs := [1] ++ be24 body.length ++ body
  [22, 3, 1] ++ be16 hs.length ++ hs

structure WF (h : Desc) : Prop where
  version : h.version.length = 2
  random : h.random.length = 32
  session : h.sessionId.length < 256
  ciphers : h.ciphers.length % 2 = 0 ∧ h.ciphers.length < 65536
  compression : h.compression ≠ [] ∧ h.compression.length < 256
  sni : ∀ n, h.sni = some n → n ≠ [] ∧ n.length < 65000 ∧ n.getLast? ≠ some 46
  alpn : ∀ p ∈ h.alpn, p ≠ [] ∧ p.length < 256
  alpnTotal : (encProtos h.alpn).length < 65000
  extData : ∀ e ∈ h.exts, e.1 < 65536 ∧ e.2.length < 65536
  others : ∀ e ∈ h.before ++ h.middle ++ h.after, e.1 ≠ 0 ∧ e.1 ≠ 16
  nodup : hasDup (h.exts.map (·.1)) = false
  extTotal : (h.exts.flatMap encExt).length < 65536
  nonEmptyExts : h.exts ≠ []
  total : h.body.length + 4 < 65536

end PubModel.C14.Hello
