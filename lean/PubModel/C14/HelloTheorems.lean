import PubModel.C14.HelloLemmas

namespace PubModel.C14.Hello
open PubModel

theorem lookup_append_skip (a b : List Ext) (k : Nat) (h : ∀ e ∈ a, e.1 ≠ k) :
    (a ++ b).lookup k = b.lookup k := by
  induction a with
  | nil => rfl
  | cons e a ih =>
    obtain ⟨t, d⟩ := e
    have ht : t ≠ k := h (t, d) (List.mem_cons_self ..)
    have : (k == t) = false := by simp; exact fun hh => ht hh.symm
    simp only [List.cons_append, List.lookup, this]
    exact ih (fun e he => h e (List.mem_cons_of_mem _ he))

theorem lookup_none_of_all_ne (a : List Ext) (k : Nat) (h : ∀ e ∈ a, e.1 ≠ k) : a.lookup k = none := by
  have := lookup_append_skip a [] k h
  simpa using this

theorem exts_lookup_sni (h : Desc) (hw : WF h) :
    h.exts.lookup 0 = h.sni.map encSNI := by
  have ho := hw.others
  have hb : ∀ e ∈ h.before, e.1 ≠ 0 := fun e he => (ho e (by simp [he])).1
  have hm : ∀ e ∈ h.middle, e.1 ≠ 0 := fun e he => (ho e (by simp [he])).1
  have ha : ∀ e ∈ h.after, e.1 ≠ 0 := fun e he => (ho e (by simp [he])).1
  unfold Desc.exts
  simp only [List.append_assoc]
  rw [lookup_append_skip _ _ 0 hb]
  cases hs : h.sni with
  | some n => simp [List.lookup]
  | none =>
    simp only [List.nil_append, Option.map_none]
    rw [lookup_append_skip _ _ 0 hm]
    split
    · simp only [List.nil_append]; exact lookup_none_of_all_ne _ 0 ha
    · simp only [List.cons_append, List.nil_append, List.lookup]
      exact lookup_none_of_all_ne _ 0 ha

theorem exts_lookup_alpn (h : Desc) (hw : WF h) :
    h.exts.lookup 16 = if h.alpn = [] then none else some (encALPN h.alpn) := by
  have ho := hw.others
  have hb : ∀ e ∈ h.before, e.1 ≠ 16 := fun e he => (ho e (by simp [he])).2
  have hm : ∀ e ∈ h.middle, e.1 ≠ 16 := fun e he => (ho e (by simp [he])).2
  have ha : ∀ e ∈ h.after, e.1 ≠ 16 := fun e he => (ho e (by simp [he])).2
  unfold Desc.exts
  simp only [List.append_assoc]
  rw [lookup_append_skip _ _ 16 hb]
  cases hs : h.sni with
  | some n =>
    simp only
    have hsni : ∀ e ∈ [((0 : Nat), encSNI n)], e.1 ≠ 16 := by
      intro e he; simp at he; subst he; simp
    rw [lookup_append_skip _ _ 16 hsni, lookup_append_skip _ _ 16 hm]
    split
    · simp only [List.nil_append]; exact lookup_none_of_all_ne _ 16 ha
    · simp [List.lookup]
  | none =>
    simp only [List.nil_append]
    rw [lookup_append_skip _ _ 16 hm]
    split
    · simp only [List.nil_append]; exact lookup_none_of_all_ne _ 16 ha
    · simp [List.lookup]

/-- the body of a built hello is read back exactly -/
theorem sniffBody_build (h : Desc) (hw : WF h) :
    sniffBody h.body = some ⟨h.sni.getD [], h.alpn.length, h.alpn.headD []⟩ := by
  unfold sniffBody Desc.body
  simp only [List.append_assoc, List.cons_append]
  have t1 := takeN_append h.version (h.random ++ (UInt8.ofNat h.sessionId.length :: (h.sessionId ++
    (be16 h.ciphers.length ++ (h.ciphers ++ (UInt8.ofNat h.compression.length :: (h.compression ++
    (be16 (h.exts.flatMap encExt).length ++ h.exts.flatMap encExt))))))))
  rw [hw.version] at t1
  simp only [bind, Option.bind, t1]
  have t2 := takeN_append h.random (UInt8.ofNat h.sessionId.length :: (h.sessionId ++
    (be16 h.ciphers.length ++ (h.ciphers ++ (UInt8.ofNat h.compression.length :: (h.compression ++
    (be16 (h.exts.flatMap encExt).length ++ h.exts.flatMap encExt)))))))
  rw [hw.random] at t2
  simp only [t2]
  rw [vec8_append _ _ hw.session]
  simp only
  rw [vec16_append _ _ hw.ciphers.2]
  simp only
  rw [vec8_append _ _ hw.compression.2]
  simp only
  have hcs : ¬ (h.ciphers.length % 2 ≠ 0 ∨ h.compression = []) := by
    simp [hw.ciphers.1, hw.compression.1]
  simp only [hcs, if_false]
  have hne : (be16 (h.exts.flatMap encExt).length ++ h.exts.flatMap encExt) ≠ [] := by simp [be16]
  simp only [hne, if_false]
  have hv := vec16_append (h.exts.flatMap encExt) [] hw.extTotal
  simp only [List.append_nil] at hv
  rw [hv]
  simp only [ne_eq, not_true_eq_false, if_false]
  rw [splitExts_enc h.exts hw.extData _ (Nat.le_refl _)]
  simp only [hw.nodup, Bool.false_eq_true, if_false]
  rw [exts_lookup_sni h hw, exts_lookup_alpn h hw]
  cases hs : h.sni with
  | none =>
    simp only [Option.map_none, Option.getD_none]
    by_cases ha : h.alpn = []
    · simp [ha]
    · simp only [ha, if_false]
      rw [parseALPN_enc h.alpn ha hw.alpn (by have := hw.alpnTotal; omega)]
      rfl
  | some n =>
    obtain ⟨n1, n2, n3⟩ := hw.sni n hs
    simp only [Option.map_some, Option.getD_some]
    rw [parseSNI_enc n n1 n2 n3]
    by_cases ha : h.alpn = []
    · simp [ha]
    · simp only [ha, if_false]
      rw [parseALPN_enc h.alpn ha hw.alpn (by have := hw.alpnTotal; omega)]
      rfl

/-- **Round trip of the hello grammar**: for every well-formed hello — whatever other
    extensions, padding, session id, cipher list it carries, up to the record limit — the
    sniffer returns exactly the server name, the number of ALPN protocols and the first one. -/
theorem sniff_build (h : Desc) (hw : WF h) :
    sniff (build h) = some ⟨h.sni.getD [], h.alpn.length, h.alpn.headD []⟩ := by
  unfold sniff build
  simp only [List.append_assoc, List.cons_append, List.nil_append]
  have hlen : ([1] ++ be24 h.body.length ++ h.body : Bytes).length = h.body.length + 4 := by
    simp [be24]
  have hlt : h.body.length + 4 < 65536 := hw.total
  have t5 : takeN 5 ((22 : UInt8) :: 3 :: 1 :: (be16 ((1 : UInt8) :: (be24 h.body.length ++ h.body)).length ++
      ((1 : UInt8) :: (be24 h.body.length ++ h.body)))) =
      some ([22, 3, 1] ++ be16 (h.body.length + 4), (1 : UInt8) :: (be24 h.body.length ++ h.body)) := by
    have hl2 : ((1 : UInt8) :: (be24 h.body.length ++ h.body)).length = h.body.length + 4 := by
      simp [be24]
    rw [hl2]
    simp [takeN, be16]
  simp only [bind, Option.bind]
  rw [t5]
  simp only
  have h1 : (h.body.length + 4) / 256 < 256 := by omega
  have h2 : (h.body.length + 4) % 256 < 256 := by omega
  have hn : (([22, 3, 1] ++ be16 (h.body.length + 4) : Bytes).getD 3 0).toNat * 256 +
      (([22, 3, 1] ++ be16 (h.body.length + 4) : Bytes).getD 4 0).toNat = h.body.length + 4 := by
    simp [be16, ofNat_toNat _ h1, ofNat_toNat _ h2]; omega
  have h0 : ([22, 3, 1] ++ be16 (h.body.length + 4) : Bytes).getD 0 0 = 22 := by simp
  simp only [h0, ne_eq, not_true_eq_false, if_false, hn]
  have hl3 : ((1 : UInt8) :: (be24 h.body.length ++ h.body)).length = h.body.length + 4 := by
    simp [be24]
  simp only [hl3, not_true_eq_false, if_false, u8p]
  rw [u24p_be24 _ (by omega)]
  simp only [UInt8.toNat_ofNat, ne_eq, not_true_eq_false, or_self, if_false]
  exact sniffBody_build h hw

end PubModel.C14.Hello

namespace PubModel.C14.Hello
open PubModel

/-- shape of the record produced by `build`: handshake type, header length field = body length -/
theorem build_shape (h : Desc) (hw : WF h) :
    5 ≤ (build h).length ∧ (build h).getD 0 0 = 22 ∧
    (build h).length = 5 + (((build h).take 5).getD 3 0).toNat * 256 + (((build h).take 5).getD 4 0).toNat := by
  have hlt : h.body.length + 4 < 65536 := hw.total
  have h1 : (h.body.length + 4) / 256 < 256 := by omega
  have h2 : (h.body.length + 4) % 256 < 256 := by omega
  have hl : ([1] ++ be24 h.body.length ++ h.body : Bytes).length = h.body.length + 4 := by simp [be24]
  unfold build
  simp only [hl]
  refine ⟨by simp [be16, be24], by simp, ?_⟩
  simp [be16, be24, ofNat_toNat _ h1, ofNat_toNat _ h2]
  omega

end PubModel.C14.Hello
