/-
C14 — model of TLSHelloConn (tls_hello_conn.go): a bufio.Reader of capacity `B`
over a connection that delivers the client's bytes in arbitrary non-empty
segments; `HelloInfo` peeks the record header, then the whole record, and hands
exactly those bytes to the TLS library's ClientHello parser (`parse`, a
parameter: crypto/tls is modelled by its contract, not re-implemented); `Read`
continues from the same buffer.
-/
import PubModel.Common.Hex

namespace PubModel.C14
open PubModel

/-- bufio.Reader: bytes buffered and not yet consumed, segments still to arrive -/
structure BR where
  buf : Bytes
  src : List Bytes
  cap : Nat
  deriving Repr

/-- everything the application will still see, in order -/
def BR.pending (r : BR) : Bytes := r.buf ++ r.src.flatten

/-- one `fill`: a single Read of the connection into the free part of the buffer -/
def BR.fill (r : BR) : BR :=
  match r.src with
  | [] => r
  | c :: cs =>
    if c.length ≤ r.cap - r.buf.length then { r with buf := r.buf ++ c, src := cs }
    else { r with buf := r.buf ++ c.take (r.cap - r.buf.length), src := c.drop (r.cap - r.buf.length) :: cs }

inductive PeekErr | bufferFull | eof
  deriving DecidableEq, Repr

/-- `Peek n`: fill until `n` bytes are buffered, the buffer is full, or the stream ends.
    Fuel = number of segments still to arrive (+1), each `fill` consumes from one. -/
def BR.peekLoop : Nat → Nat → BR → BR
  | 0, _, r => r
  | fuel + 1, n, r =>
    if r.buf.length < n ∧ r.buf.length < r.cap ∧ r.src ≠ [] then peekLoop fuel n r.fill else r

def BR.peek (r : BR) (n : Nat) : BR × Except PeekErr Bytes :=
  let r' := BR.peekLoop (r.src.flatten.length + 1) n r
  if r'.cap < n then (r', .error .bufferFull)
  else if r'.buf.length < n then (r', .error (if r'.src = [] then .eof else .bufferFull))
  else (r', .ok (r'.buf.take n))

/-- `Read` into a slice of `k > 0` bytes -/
def BR.read (r : BR) (k : Nat) : BR × Bytes :=
  if r.buf ≠ [] then ({ r with buf := r.buf.drop k }, r.buf.take k)
  else match r.src with
    | [] => (r, [])                                        -- EOF
    | c :: cs =>
      if r.cap ≤ k then                                    -- large read: straight from the connection
        if c.length ≤ k then ({ r with src := cs }, c) else ({ r with src := c.drop k :: cs }, c.take k)
      else
        let r1 := ({ r with buf := [] } : BR).fill          -- one read into the buffer
        ({ r1 with buf := r1.buf.drop k }, r1.buf.take k)

inductive HelloErr | peekHeader (e : PeekErr) | notTLS | peekRecord (e : PeekErr)
  deriving DecidableEq, Repr

def recLen (hdr : Bytes) : Nat := (hdr.getD 3 0).toNat * 256 + (hdr.getD 4 0).toNat

/-- `HelloInfo`: what the TLS library is given, or the error -/
def helloInfo {α : Type} (parse : Bytes → α) (r : BR) : BR × Except HelloErr α :=
  match r.peek 5 with
  | (r1, .error e) => (r1, .error (.peekHeader e))
  | (r1, .ok hdr) =>
    if hdr.getD 0 0 ≠ 22 then (r1, .error .notTLS)
    else match r1.peek (5 + recLen hdr) with
      | (r2, .error e) => (r2, .error (.peekRecord e))
      | (r2, .ok rec) => (r2, .ok (parse rec))

/-- a stream: non-empty segments -/
def Segs (src : List Bytes) : Prop := ∀ c ∈ src, c ≠ []

end PubModel.C14
