/-
C14 — SNI sniffing is exact and consumes nothing.  Statement file.

`parse` is the TLS library's ClientHello parser (crypto/tls, a parameter).  The
repository's own logic — peek the header, compute the record length, peek the
whole record, hand exactly those bytes to the library, keep reading from the same
buffer — is what is proved here, for every segmentation of the byte stream, every
buffer capacity and every record length.
-/
import PubModel.C14.Lemmas
import PubModel.C14.HelloTheorems
import PubModel.Gen.Hello

namespace PubModel.C14
open PubModel

/-- **Exactness**: if the stream starts with a complete handshake record `rec`
    (5-byte header whose length field is the record's length) that fits the
    buffer, then — however the bytes are split across reads — the library is given
    exactly `rec`, so the reported name / ALPN are exactly what the library reads in
    that hello. -/
theorem helloInfo_exact {α : Type} (parse : Bytes → α) (r : BR) (rec rest : Bytes)
    (hs : Segs r.src) (hbuf : r.buf.length ≤ r.cap)
    (hpend : r.pending = rec ++ rest)
    (hlen5 : 5 ≤ rec.length) (htls : rec.getD 0 0 = 22)
    (hrec : rec.length = 5 + recLen (rec.take 5))
    (hfit : rec.length ≤ r.cap) :
    (helloInfo parse r).2 = .ok (parse rec) := by
  have hp5 : (r.peek 5).2 = .ok (r.pending.take 5) :=
    peek_ok r 5 hs (by omega) (by rw [hpend]; simp; omega)
  have htake5 : r.pending.take 5 = rec.take 5 := by
    rw [hpend, List.take_append_of_le_length hlen5]
  unfold helloInfo
  have hpp := peek_pending r 5
  have hseg := peek_segs r 5 hs
  generalize r.peek 5 = p1 at hp5 hpp hseg
  obtain ⟨r1, e1⟩ := p1
  simp only at hp5 hpp hseg
  subst hp5
  simp only [htake5]
  have h0 : (rec.take 5).getD 0 0 = 22 := by
    cases rec with
    | nil => simp at hlen5
    | cons a t => simpa using htls
  simp only [h0, ne_eq, not_true_eq_false, if_false]
  have hp2 : (r1.peek (5 + recLen (rec.take 5))).2 = .ok (r1.pending.take (5 + recLen (rec.take 5))) := by
    apply peek_ok r1 _ hseg
    · rw [hpp.2]; omega
    · rw [hpp.1, hpend]; simp; omega
  generalize r1.peek (5 + recLen (rec.take 5)) = p2 at hp2
  obtain ⟨r2, e2⟩ := p2
  simp only at hp2
  subst hp2
  simp only
  rw [hpp.1, hpend, ← hrec, List.take_append_of_le_length (Nat.le_refl _), List.take_length]

/-- **Consumes nothing**: whatever `HelloInfo` returns (a name, an error), the bytes the
    application will read afterwards are exactly the bytes the client sent, from the
    first byte of the hello. -/
theorem helloInfo_consumes_nothing {α : Type} (parse : Bytes → α) (r : BR) :
    (helloInfo parse r).1.pending = r.pending ∧ (helloInfo parse r).1.cap = r.cap := by
  unfold helloInfo
  have h1 := peek_pending r 5
  generalize r.peek 5 = p1 at h1
  obtain ⟨r1, e1⟩ := p1
  cases e1 with
  | error e => exact h1
  | ok hdr =>
    simp only
    split
    · exact h1
    · have h2 := peek_pending r1 (5 + recLen hdr)
      generalize r1.peek (5 + recLen hdr) = p2 at h2
      obtain ⟨r2, e2⟩ := p2
      cases e2 with
      | error e => exact ⟨h2.1.trans h1.1, h2.2.trans h1.2⟩
      | ok rec => exact ⟨h2.1.trans h1.1, h2.2.trans h1.2⟩

/-- **Bounded read**: sniffing never buffers more than the buffer's capacity, whatever
    length the first five bytes announce. -/
theorem helloInfo_bounded {α : Type} (parse : Bytes → α) (r : BR) (hbuf : r.buf.length ≤ r.cap) :
    (helloInfo parse r).1.buf.length ≤ r.cap := by
  unfold helloInfo
  have h1 := peek_buf_le r 5 hbuf
  have hc := (peek_pending r 5).2
  generalize r.peek 5 = p1 at h1 hc
  obtain ⟨r1, e1⟩ := p1
  cases e1 with
  | error e => exact h1
  | ok hdr =>
    simp only at h1 hc ⊢
    split
    · exact h1
    · have h2 := peek_buf_le r1 (5 + recLen hdr) (by rw [hc]; exact h1)
      generalize r1.peek (5 + recLen hdr) = p2 at h2
      obtain ⟨r2, e2⟩ := p2
      rw [hc] at h2
      cases e2 <;> exact h2

/-- **Every later Read continues the same stream**: the bytes returned followed by what
    is still pending are what was pending before — nothing lost, duplicated or reordered,
    for every read size. -/
theorem read_continues (r : BR) (k : Nat) : (r.read k).2 ++ (r.read k).1.pending = r.pending :=
  read_stream r k

/-- all reads of a sequence of sizes, concatenated, are a prefix of the pending stream -/
theorem reads_prefix (r : BR) (ks : List Nat) :
    ∃ rest, (ks.foldl (fun (p : BR × Bytes) k => ((p.1.read k).1, p.2 ++ (p.1.read k).2)) (r, [])).2 ++ rest
      = r.pending := by
  suffices h : ∀ (acc : Bytes) (r : BR),
      ∃ rest, (ks.foldl (fun (p : BR × Bytes) k => ((p.1.read k).1, p.2 ++ (p.1.read k).2)) (r, acc)).2 ++ rest
        = acc ++ r.pending by
    simpa using h [] r
  induction ks with
  | nil => intro acc r; exact ⟨r.pending, rfl⟩
  | cons k ks ih =>
    intro acc r
    simp only [List.foldl_cons]
    obtain ⟨rest, hr⟩ := ih (acc ++ (r.read k).2) (r.read k).1
    refine ⟨rest, ?_⟩
    rw [hr, List.append_assoc, read_stream]

/-! ### the pinned buffer (bufio default, 4096 bytes) fails for larger hellos -/

/-- a record longer than the buffer can never be inspected: `bufio: buffer full`,
    whatever the segmentation -/
theorem record_longer_than_buffer {α : Type} (parse : Bytes → α) (r : BR) (rec rest : Bytes)
    (hs : Segs r.src) (hpend : r.pending = rec ++ rest)
    (hlen5 : 5 ≤ rec.length) (htls : rec.getD 0 0 = 22)
    (hrec : rec.length = 5 + recLen (rec.take 5))
    (hcap5 : 5 ≤ r.cap) (hbig : r.cap < rec.length) :
    (helloInfo parse r).2 = .error (.peekRecord .bufferFull) := by
  have hp5 : (r.peek 5).2 = .ok (r.pending.take 5) :=
    peek_ok r 5 hs hcap5 (by rw [hpend]; simp; omega)
  have htake5 : r.pending.take 5 = rec.take 5 := by
    rw [hpend, List.take_append_of_le_length hlen5]
  unfold helloInfo
  have hpp := peek_pending r 5
  generalize r.peek 5 = p1 at hp5 hpp
  obtain ⟨r1, e1⟩ := p1
  simp only at hp5 hpp
  subst hp5
  simp only [htake5]
  have h0 : (rec.take 5).getD 0 0 = 22 := by
    cases rec with
    | nil => simp at hlen5
    | cons a t => simpa using htls
  simp only [h0, ne_eq, not_true_eq_false, if_false]
  have hcapn : (BR.peekLoop (r1.src.flatten.length + 1) (5 + recLen (rec.take 5)) r1).cap < 5 + recLen (rec.take 5) := by
    rw [(peekLoop_inv _ _ r1).2.1, hpp.2]; omega
  unfold BR.peek
  simp only [hcapn, if_true]

/-- the pinned tree: bufio's default 4096-byte buffer and a 4097-byte record -/
theorem default_buffer_too_small {α : Type} (parse : Bytes → α) (src : List Bytes) (rec rest : Bytes)
    (hs : Segs src) (hpend : src.flatten = rec ++ rest) (htls : rec.getD 0 0 = 22)
    (hrec : rec.length = 5 + recLen (rec.take 5)) (h : 4096 < rec.length) :
    (helloInfo parse { buf := [], src := src, cap := 4096 }).2 = .error (.peekRecord .bufferFull) :=
  record_longer_than_buffer parse _ rec rest hs (by simpa [BR.pending] using hpend) (by omega) htls hrec
    (by simp) h

/-- such a record exists (non-vacuity of the counterexample): header + 4092 bytes -/
example : ([22, 3, 1, 0x0f, 0xfc] ++ List.replicate 4092 (0 : UInt8)).length
    = 5 + recLen (([22, 3, 1, 0x0f, 0xfc] ++ List.replicate 4092 (0 : UInt8)).take 5) := by
  rw [List.take_append_of_le_length (by simp)]
  simp only [List.length_append, List.length_replicate]
  decide

/-! ### the regenerated instance -/

/-- the peek buffer of the current source holds a header plus a maximal (16 KiB) record -/
theorem gen_peek_buffer_fits_record : 5 + 16384 ≤ Gen.Hello.peekBuf := by decide

/-- hence every ClientHello that fits in one TLS record is handed to the library whole -/
theorem helloInfo_exact_gen {α : Type} (parse : Bytes → α) (src : List Bytes) (rec rest : Bytes)
    (hs : Segs src) (hpend : src.flatten = rec ++ rest)
    (hlen5 : 5 ≤ rec.length) (htls : rec.getD 0 0 = 22)
    (hrec : rec.length = 5 + recLen (rec.take 5)) (h16 : rec.length ≤ 5 + 16384) :
    (helloInfo parse { buf := [], src := src, cap := Gen.Hello.peekBuf }).2 = .ok (parse rec) :=
  helloInfo_exact parse _ rec rest hs (by simp) (by simpa [BR.pending] using hpend) hlen5 htls hrec
    (Nat.le_trans h16 gen_peek_buffer_fits_record)

/-- **The proxy reports exactly the name and first ALPN protocol the hello contains**: for
    every well-formed ClientHello description (any session id, cipher list, other extensions,
    padding) whose record fits the buffer, however the bytes are split across reads and
    whatever follows the hello on the connection, `HelloInfo` with the modelled TLS grammar
    returns the hello's own server name, ALPN count and first protocol. -/
theorem hello_name_exact (r : BR) (h : Hello.Desc) (hw : Hello.WF h) (rest : Bytes)
    (hs : Segs r.src) (hbuf : r.buf.length ≤ r.cap) (hpend : r.pending = Hello.build h ++ rest)
    (hfit : (Hello.build h).length ≤ r.cap) :
    (helloInfo Hello.sniff r).2 =
      .ok (some ⟨h.sni.getD [], h.alpn.length, h.alpn.headD []⟩) := by
  obtain ⟨h5, h22, hlen⟩ := Hello.build_shape h hw
  have := helloInfo_exact Hello.sniff r (Hello.build h) rest hs hbuf hpend h5 h22
    (by unfold recLen; omega) hfit
  rw [this, Hello.sniff_build h hw]

/-! ### non-vacuity -/

example : (helloInfo (fun b => b.length)
    { buf := [], src := [[22, 3], [1, 0, 3, 9], [9, 9, 7, 7]], cap := 64 }).2 = .ok 8 := by rfl

example : Segs [[22, 3], [1, 0, 3, 9], [9, 9, 7, 7]] := by
  intro c hc; simp at hc; rcases hc with rfl | rfl | rfl <;> simp

end PubModel.C14
