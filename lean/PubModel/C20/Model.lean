/-
C20 — aries routing: executable model of

  aries/trie.go      radix trie: `trieNode.add` (four split cases), `find`
  aries/mux.go       `Mux.Prefix/Exact/Dir/Route`
  trie/node.go       segment trie `add`, `find`, `findSub`; `Trie.Add/Find/FindExact`
  aries/route.go     `newRoute` (splitting on '/', dropping empty segments), `rel`, `relRoute`
  aries/context.go   `C.Rel/RelRoute/ShiftRoute/PathIsDir`
  aries/router.go    `Router.add`, `Router.Serve`
  aries/service_set.go  `ServiceSet.Serve/ServeInternal/isAdmin`
  aries/host_mux.go  `HostMux.Set/Serve`

Core Lean only.  Strings are lists over an arbitrary alphabet `α` with decidable
equality (the driver instantiates `α := UInt8`, the examples use `Char`).
Go maps are association lists that are only read through first-match look-up and
only written by replace-or-append, so list order is unobservable.  Go panics are
explicit outcomes.
-/

namespace PubModel.C20

/-! ## 1. Radix trie (aries/trie.go) -/

/-- `trieNode`: `child map[byte]*trieNode` is the list `kids`, the map key of a child
    is the first letter of its `branch` (as in `addChild`). -/
inductive Node (α : Type) where
  | mk (branch : List α) (pfx : List α) (hit : Bool) (kids : List (Node α))

namespace Node
variable {α : Type}

def branch : Node α → List α | mk b _ _ _ => b
def pfx : Node α → List α | mk _ p _ _ => p
def hit : Node α → Bool | mk _ _ h _ => h
def kids : Node α → List (Node α) | mk _ _ _ k => k

/-- `newTrieRoot()` -/
def root : Node α := mk [] [] true []
/-- `newTrieNode(branch, prefix)`: hit, no children -/
def leaf (b p : List α) : Node α := mk b p true []
def setHit : Node α → Node α | mk b p _ k => mk b p true k
def setBranch (b : List α) : Node α → Node α | mk _ p h k => mk b p h k

end Node

/-- the loop `for i < n && i < m && cnode.branch[i] == s[i] { i++ }` -/
def commonLen {α : Type} [DecidableEq α] : List α → List α → Nat
  | a :: as, b :: bs => if a = b then commonLen as bs + 1 else 0
  | _, _ => 0

section Trie
variable {α : Type} [DecidableEq α]

mutual
/-- `trieNode.add`: the new node and the boolean result -/
def Node.add : Node α → List α → Node α × Bool
  | .mk br pf h kids, s =>
    match s with
    | [] => (.mk br pf h kids, false)                        -- `if m == 0 { return false }`
    | c :: _ =>
      let r := addKids kids pf c s
      (.mk br pf h r.1, r.2)
/-- the part of `add` that works on `t.child[key]`; `pp` is `t.prefix`, `c` is `key` -/
def addKids : List (Node α) → List α → α → List α → List (Node α) × Bool
  | [], pp, _, s => ([Node.leaf s (pp ++ s)], true)           -- `t.child[key] == nil`
  | k :: rest, pp, c, s =>
    if k.branch.head? = some c then
      let i := commonLen k.branch s
      let n := k.branch.length
      let m := s.length
      if i = m ∧ i = n then
        if k.hit then (k :: rest, false) else (k.setHit :: rest, true)
      else if i = m then
        -- s is a proper prefix of the branch: new hit node above the child
        (.mk s (pp ++ s) true [k.setBranch (k.branch.drop m)] :: rest, true)
      else if i = n then
        -- the branch is a proper prefix of s: descend
        let r := k.add (s.drop n)
        (r.1 :: rest, r.2)
      else
        -- split: new non-hit node with the two diverging children
        (.mk (s.take i) (pp ++ s.take i) false
            [k.setBranch (k.branch.drop i), Node.leaf (s.drop i) (pp ++ s)] :: rest, true)
    else
      let r := addKids rest pp c s
      (k :: r.1, r.2)
end

mutual
/-- `trieNode.find(s, res)` -/
def Node.find : Node α → List α → List α → List α × Bool
  | .mk _ _ h kids, s, res =>
    match s with
    | [] => (res, h)
    | c :: _ => findKids kids c s res
def findKids : List (Node α) → α → List α → List α → List α × Bool
  | [], _, _, res => (res, false)                             -- `t.child[key] == nil`
  | k :: rest, c, s, res =>
    if k.branch.head? = some c then
      if k.branch.isPrefixOf s then                            -- strings.HasPrefix(s, child.branch)
        k.find (s.drop k.branch.length) (if k.hit then k.pfx else res)
      else (res, false)
    else findKids rest c s res
end

/-- `trieFind(root, s)` -/
def trieFind (t : Node α) (s : List α) : List α × Bool := t.find s []

end Trie


/-! ## 2. Mux (aries/mux.go) -/

/-- `Mux`; `H` is the type of handler identities -/
structure Mux (H α : Type) where
  exacts : List (List α × H) := []
  prefixes : List (List α × H) := []
  t : Node α := Node.root

inductive RegRes where
  | ok | dupPrefix | dupExact
  deriving DecidableEq, Repr

section Mux
variable {H α : Type} [DecidableEq α]

/-- `NewMux()` -/
def Mux.new : Mux H α := {}

/-- `Mux.Prefix(s, f)` -/
def Mux.addPrefix (m : Mux H α) (s : List α) (f : H) : Mux H α × RegRes :=
  let r := m.t.add s
  if r.2 then ({ m with t := r.1, prefixes := (s, f) :: m.prefixes }, .ok)
  else ({ m with t := r.1 }, .dupPrefix)

/-- `Mux.Exact(s, f)` -/
def Mux.addExact (m : Mux H α) (s : List α) (f : H) : Mux H α × RegRes :=
  match m.exacts.lookup s with
  | some _ => (m, .dupExact)
  | none => ({ m with exacts := (s, f) :: m.exacts }, .ok)

/-- `strings.TrimSuffix(s, "/")` -/
def trimSlash (sl : α) (s : List α) : List α :=
  if s.getLast? = some sl then s.dropLast else s

/-- `Mux.Dir(s, f)` -/
def Mux.addDir (sl : α) (m : Mux H α) (s : List α) (f : H) : Mux H α × RegRes :=
  if s = [sl] then
    let r := m.addExact s f
    if r.2 ≠ .ok then r else r.1.addPrefix s f
  else
    let s' := trimSlash sl s
    let r := m.addExact s' f
    if r.2 ≠ .ok then r else r.1.addPrefix (s' ++ [sl]) f

/-- `Mux.Route(c)`: `none` is the nil `Func` (`Serve` then returns `Miss`) -/
def Mux.route (m : Mux H α) (path : List α) : Option H :=
  match m.exacts.lookup path with
  | some f => some f
  | none => m.prefixes.lookup (trieFind m.t path).1

end Mux

/-! ## 3. Segment trie (package trie) -/

/-- `trie.node`: `value` empty means "not a leaf"; `subs` is the Go map -/
inductive SNode (σ α : Type) where
  | mk (value : List α) (subs : List (σ × SNode σ α))

namespace SNode
variable {σ α : Type}
def value : SNode σ α → List α | mk v _ => v
def subs : SNode σ α → List (σ × SNode σ α) | mk _ s => s
/-- `newNode()` -/
def empty : SNode σ α := mk [] []
end SNode

section SegTrie
variable {σ α : Type} [DecidableEq σ] [DecidableEq α]

/-- `next, ok := n.subs[cur]; if !ok { next = newNode(); n.subs[cur] = next }; next.add(...)`
    with the recursive call abstracted as `addRest` -/
def addSubs (addRest : SNode σ α → SNode σ α × Bool) (cur : σ) :
    List (σ × SNode σ α) → List (σ × SNode σ α) × Bool
  | [] => let r := addRest SNode.empty; ([(cur, r.1)], r.2)
  | (k, n) :: tl =>
    if k = cur then let r := addRest n; ((k, r.1) :: tl, r.2)
    else let r := addSubs addRest cur tl; ((k, n) :: r.1, r.2)

/-- `node.add(route, value)` -/
def SNode.add : List σ → SNode σ α → List α → SNode σ α × Bool
  | [], .mk v subs, value =>
    if v ≠ [] then (.mk v subs, false) else (.mk value subs, true)
  | cur :: rest, .mk v subs, value =>
    let r := addSubs (fun n => SNode.add rest n value) cur subs
    (.mk v r.1, r.2)

/-- `node.find(route)` with `findSub` inlined -/
def SNode.find : List σ → SNode σ α → Nat × List α
  | [], n => (0, n.value)
  | cur :: rest, .mk v subs =>
    let sub : Nat × List α :=
      match subs.lookup cur with
      | none => (0, [])
      | some next =>
        let r := SNode.find rest next
        if r.2 = [] then (0, []) else (r.1 + 1, r.2)
    if sub.2 ≠ [] then sub
    else if v ≠ [] then (0, v)
    else (0, [])

inductive TrieAdd where
  | added | conflict | panicEmptyValue
  deriving DecidableEq, Repr

/-- `Trie.Add(route, value)` -/
def trieAdd (t : SNode σ α) (route : List σ) (value : List α) : SNode σ α × TrieAdd :=
  if value = [] then (t, .panicEmptyValue)
  else let r := t.add route value; (r.1, if r.2 then .added else .conflict)

/-- `Trie.Find(route)`: the matched part of the route and the value -/
def trieFindSeg (t : SNode σ α) (route : List σ) : List σ × List α :=
  let r := t.find route
  if r.2 = [] then ([], []) else (route.take r.1, r.2)

/-- `Trie.FindExact(route)` -/
def trieFindExact (t : SNode σ α) (route : List σ) : List α :=
  let r := t.find route
  if r.1 ≠ route.length then [] else r.2

end SegTrie

/-! ## 4. Routes and contexts (aries/route.go, aries/context.go) -/

/-- `strings.Split(p, "/")` -/
def splitOn {α : Type} [DecidableEq α] (sl : α) : List α → List (List α)
  | [] => [[]]
  | c :: cs =>
    if c = sl then [] :: splitOn sl cs
    else match splitOn sl cs with
      | h :: t => (c :: h) :: t
      | [] => [[c]]

structure Route (α : Type) where
  p : List α := []
  parts : List (Nat × Nat) := []
  routes : List (List α) := []
  isDir : Bool := false

section Route
variable {α : Type} [DecidableEq α]

/-- the loop body of `newRoute`: append "/" and the segment to the buffer, record the offsets -/
def routeStep (sl : α) (acc : List α × List (Nat × Nat)) (s : List α) : List α × List (Nat × Nat) :=
  let start := acc.1.length + 1
  (acc.1 ++ sl :: s, acc.2 ++ [(start, start + s.length)])

/-- `newRoute(p)` -/
def newRoute (sl : α) (p : List α) : Route α :=
  if p = [] then {} else
  let segs := (splitOn sl p).filter (fun s => s ≠ [])
  let wp := segs.foldl (routeStep sl) ([], [])
  { p := wp.1, parts := wp.2, routes := segs, isDir := p.getLast? = some sl }

def Route.size (r : Route α) : Nat := r.routes.length
/-- `route.rel(i)` -/
def Route.rel (r : Route α) (i : Nat) : List α :=
  match r.parts[i]? with
  | none => []
  | some (start, _) => r.p.drop start
/-- `route.relRoute(i)` -/
def Route.relRoute (r : Route α) (i : Nat) : List (List α) := r.routes.drop i
/-- `route.current(i)` -/
def Route.current (r : Route α) (i : Nat) : List α :=
  match r.parts[i]? with
  | none => []
  | some (start, stop) => (r.p.take stop).drop start

end Route

/-- the fields of `aries.C` that routing reads or writes -/
structure Ctx (α : Type) where
  path : List α
  user : List α := []
  level : Int := 0
  method : List α := []
  host : List α := []
  route : Route α := {}
  pos : Nat := 0

section Ctx
variable {α : Type} [DecidableEq α]

/-- `NewContext`: only `Path` and `route` matter here; method and host come from the request -/
def Ctx.new (sl : α) (path method host : List α) : Ctx α :=
  { path := path, method := method, host := host, route := newRoute sl path }

def Ctx.rel (c : Ctx α) : List α := c.route.rel c.pos
def Ctx.relRoute (c : Ctx α) : List (List α) := c.route.relRoute c.pos
def Ctx.pathIsDir (c : Ctx α) : Bool := c.route.isDir
/-- `ShiftRoute(inc)` -/
def Ctx.shift (c : Ctx α) (inc : Nat) : Ctx α :=
  { c with pos := if c.pos + inc ≥ c.route.size then c.route.size else c.pos + inc }

end Ctx

/-! ## 5. Router (aries/router.go) -/

structure RNode (H α : Type) where
  s : H
  isDir : Bool
  method : List α

structure Router (H α : Type) where
  index : Option H := none
  miss : Option H := none
  trie : SNode (List α) α := SNode.empty
  nodes : List (List α × RNode H α) := []

inductive AddRes where
  | ok | dup | panicEmpty | panicTrie
  deriving DecidableEq, Repr

/-- what `Router.Serve` does -/
inductive Served (H α : Type) where
  | index (h : H) (c : Ctx α)       -- `r.index.Serve(c)`
  | dflt (h : H) (c : Ctx α)        -- `r.miss.Serve(c)`
  | node (h : H) (c : Ctx α)        -- `n.s.Serve(c)` with the shifted context
  | miss                             -- returns `aries.Miss`
  | badMethod                        -- `errcode.InvalidArgf("unsupported method")`
  | panicNoNode                      -- `panic("route function not found")`

section Router
variable {H α : Type} [DecidableEq α]

def Router.new : Router H α := {}

/-- `Router.add(p, n)` (`n.s == nil` cannot be expressed: `H` has no nil) -/
def Router.add (sl : α) (r : Router H α) (p : List α) (n : RNode H α) : Router H α × AddRes :=
  let rt := newRoute sl p
  if rt.p = [] then (r, .panicEmpty)
  else match r.nodes.lookup rt.p with
    | some _ => (r, .dup)
    | none =>
      let r1 := { r with nodes := (rt.p, n) :: r.nodes }
      let a := trieAdd r.trie rt.routes rt.p
      match a.2 with
      | .added => ({ r1 with trie := a.1 }, .ok)
      | _ => ({ r1 with trie := a.1 }, .panicTrie)

/-- `Router.notFound` -/
def Router.notFound (r : Router H α) (c : Ctx α) : Served H α :=
  match r.miss with
  | none => .miss
  | some h => .dflt h c

/-- `Router.Serve(c)` -/
def Router.serve (r : Router H α) (c : Ctx α) : Served H α :=
  if c.rel = [] then
    match r.index with
    | none => r.notFound c
    | some h => .index h c
  else
    let f := trieFindSeg r.trie c.relRoute
    if f.2 = [] then r.notFound c
    else match r.nodes.lookup f.2 with
      | none => .panicNoNode
      | some n =>
        let c' := c.shift f.1.length
        if n.isDir ∨ (c'.rel = [] ∧ ¬ c'.pathIsDir) then
          if n.method ≠ [] ∧ c'.method ≠ n.method then .badMethod
          else .node n.s c'
        else r.notFound c'

end Router

/-! ## 6. ServiceSet (aries/service_set.go) -/

/-- what a service returns: `aries.Miss`, `nil`, another error -/
inductive Resp where
  | miss | ok | err (code : Nat)
  deriving DecidableEq, Repr

/-- a service gets `*C`: it returns and may change the context -/
abbrev Svc (α : Type) := Ctx α → Resp × Ctx α

/-! ### Router as a `Service` (what `Router.Serve` returns and how it leaves `*C`) -/

section RouterSvc
variable {H α : Type} [DecidableEq α]

/-- the context as the body of `Serve` leaves it when it ends in `notFound` or in the method
    error: `c.ShiftRoute(len(hitRoute))` runs before the file/directory test -/
def Router.shiftedCtx (r : Router H α) (c : Ctx α) : Ctx α :=
  if c.rel = [] then c else
  let f := trieFindSeg r.trie c.relRoute
  if f.2 = [] then c else c.shift f.1.length

/-- the body of `Router.Serve` (`Router.serve` in Go since the fix): run the handler the
    decision names (`hs h` is what handler `h` does); `Miss` leaves the context shifted -/
def Router.svcNoRestore (r : Router H α) (hs : H → Svc α) : Svc α := fun c =>
  match r.serve c with
  | .index h c' => hs h c'
  | .dflt h c' => hs h c'
  | .node h c' => hs h c'
  | .miss => (.miss, r.shiftedCtx c)
  | .badMethod => (.err 400, r.shiftedCtx c)
  | .panicNoNode => (.err 500, c)

/-- `Router.Serve(c)`: `pos := c.routePos; err := r.serve(c); if err == Miss { c.routePos = pos }` —
    a router that misses hands the next service of a fall-through chain the route position
    it was given -/
def Router.svc (r : Router H α) (hs : H → Svc α) : Svc α := fun c =>
  let o := r.svcNoRestore hs c
  if o.1 = .miss then (.miss, { o.2 with pos := c.pos }) else o

end RouterSvc

structure Auth (α : Type) where
  serve : Svc α
  setup : Ctx α → Option Nat × Ctx α      -- `Setup(c) error`

structure ServiceSet (α : Type) where
  auth : Option (Auth α) := none
  resource : Option (Svc α) := none
  guest : Option (Svc α) := none
  user : Option (Svc α) := none
  admin : Option (Svc α) := none
  isAdminP : Option (Ctx α → Bool) := none
  internalSignIn : Option (Svc α) := none

inductive Tier where
  | authServe | authSetup | resource | guest | user | admin | signIn
  deriving DecidableEq, Repr

inductive SSOut where
  | ret (r : Resp)      -- the error value returned (`ok` = nil)
  | needSignIn          -- `NeedSignIn`
  | redirect            -- `c.Redirect("/")`, returns nil
  | panicNilAuth        -- `s.Auth.Serve` on a nil interface
  deriving DecidableEq, Repr

/-- result of a run: the tiers invoked, each with the context it was handed, and the outcome -/
structure SSRun (α : Type) where
  trace : List (Tier × Ctx α)
  out : SSOut
  ctx : Ctx α

section ServiceSet
variable {α : Type} [DecidableEq α]

/-- `ServiceSet.isAdmin` -/
def ServiceSet.isAdmin (s : ServiceSet α) (c : Ctx α) : Bool :=
  match s.isAdminP with
  | none => c.user ≠ [] ∧ c.level > 0
  | some p => p c

/-- one `if guard(c) { if err := serveService(svc, c); err != Miss { return err } }` block -/
structure TierEntry (α : Type) where
  tier : Tier
  guard : Ctx α → Bool
  svc : Option (Svc α)

/-- a sequence of such blocks, then `return Miss`; every guard is evaluated on the context as
    the earlier tiers left it -/
def runTiers : List (TierEntry α) → List (Tier × Ctx α) → Ctx α → SSRun α
  | [], tr, c => ⟨tr, .ret .miss, c⟩
  | e :: rest, tr, c =>
    if e.guard c then
      match e.svc with
      | none => runTiers rest tr c                               -- `serveService(nil, c)` is Miss
      | some f =>
        let r := f c
        if r.1 ≠ .miss then ⟨tr ++ [(e.tier, c)], .ret r.1, r.2⟩
        else runTiers rest (tr ++ [(e.tier, c)]) r.2
    else runTiers rest tr c

/-- `ServiceSet.Serve(c)` -/
def ServiceSet.serve (s : ServiceSet α) (c : Ctx α) : SSRun α :=
  match s.auth with
  | none => ⟨[], .panicNilAuth, c⟩
  | some a =>
    -- serveAuth
    let r := a.serve c
    if r.1 ≠ .miss then ⟨[(Tier.authServe, c)], .ret r.1, r.2⟩ else
    let su := a.setup r.2
    let tr := [(Tier.authServe, c), (Tier.authSetup, r.2)]
    match su.1 with
    | some e => ⟨tr, .ret (.err e), su.2⟩
    | none =>
      runTiers
        [⟨.resource, fun _ => true, s.resource⟩,
         ⟨.guest, fun _ => true, s.guest⟩,
         ⟨.user, fun c => c.user ≠ [], s.user⟩,                  -- `if c.User != ""`
         ⟨.admin, fun c => s.isAdmin c, s.admin⟩]                -- `if s.isAdmin(c)`
        tr su.2

/-- the part of `ServeInternal` before the admin gate: either the run ended (`inl`), or the
    trace so far and the context on which `isAdmin` is evaluated (`inr`) -/
def ServiceSet.internalPre (s : ServiceSet α) (c : Ctx α) :
    SSRun α ⊕ (List (Tier × Ctx α) × Ctx α) :=
  let afterAuth : SSRun α ⊕ (List (Tier × Ctx α) × Ctx α) :=
    match s.auth with
    | none => .inr ([], c)
    | some a =>
      let r := a.serve c
      if r.1 ≠ .miss then .inl ⟨[(Tier.authServe, c)], .ret r.1, r.2⟩ else
      let su := a.setup r.2
      let tr := [(Tier.authServe, c), (Tier.authSetup, r.2)]
      match su.1 with
      | some e => .inl ⟨tr, .ret (.err e), su.2⟩
      | none => .inr (tr, su.2)
  match afterAuth with
  | .inl r => .inl r
  | .inr (tr, c) =>
    match s.resource with
    | none => .inr (tr, c)
    | some f =>
      let r := f c
      if r.1 ≠ .miss then .inl ⟨tr ++ [(Tier.resource, c)], .ret r.1, r.2⟩
      else .inr (tr ++ [(Tier.resource, c)], r.2)

/-- `ServiceSet.ServeInternal(c)`; `slash` is the path "/" -/
def ServiceSet.serveInternal (slash : List α) (s : ServiceSet α) (c : Ctx α) : SSRun α :=
  match s.internalPre c with
  | .inl r => r
  | .inr (tr, cg) =>
    if ¬ s.isAdmin cg then
      if cg.path = slash then
        match s.internalSignIn with
        | some f => let r := f cg; ⟨tr ++ [(Tier.signIn, cg)], .ret r.1, r.2⟩
        | none => ⟨tr, .needSignIn, cg⟩
      else ⟨tr, .redirect, cg⟩
    else
      runTiers
        [⟨.guest, fun _ => true, s.guest⟩,
         ⟨.user, fun _ => true, s.user⟩,
         ⟨.admin, fun _ => true, s.admin⟩]
        tr cg

end ServiceSet

/-! ## 7. HostMux (aries/host_mux.go) -/

structure HostMux (H α : Type) where
  m : List (List α × H) := []

section HostMux
variable {H α : Type} [DecidableEq α]

def HostMux.new : HostMux H α := {}
/-- `HostMux.Set(host, s)`: `m.m[host] = s` -/
def HostMux.set (hm : HostMux H α) (host : List α) (s : H) : HostMux H α :=
  { m := (host, s) :: hm.m.filter (fun e => e.1 ≠ host) }
/-- `HostMux.Serve(c)`: the service that runs, `none` = `Miss` -/
def HostMux.serve (hm : HostMux H α) (c : Ctx α) : Option H := hm.m.lookup c.host

end HostMux

end PubModel.C20
