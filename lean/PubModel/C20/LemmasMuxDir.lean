/-
C20 — order independence of the mux for the full mixture Prefix / Exact / Dir.
`Dir(s)` is `Exact(base)` followed — only if that succeeded — by `Prefix(base + "/")`;
with pairwise different exact keys every exact part succeeds, so the two tables are
first-wins tables over the keys of the registrations, in any order.
-/
import PubModel.C20.LemmasMuxOrder

namespace PubModel.C20

set_option linter.unusedSectionVars false
set_option linter.unusedVariables false

variable {H α : Type} [DecidableEq α]

/-- the exact key of `Dir(s)` -/
def dirBase (sl : α) (s : List α) : List α := if s = [sl] then s else trimSlash sl s
/-- the prefix key of `Dir(s)` -/
def dirPfx (sl : α) (s : List α) : List α := if s = [sl] then s else trimSlash sl s ++ [sl]

theorem dirPfx_ne_nil (sl : α) (s : List α) : dirPfx sl s ≠ [] := by
  unfold dirPfx; split
  · rename_i h; rw [h]; simp
  · simp

/-- the key a registration puts into the exact table -/
def MuxOp.exKey (sl : α) : MuxOp H α → Option (List α)
  | .exact s _ => some s
  | .dir s _ => some (dirBase sl s)
  | .pfx _ _ => none

/-- the key a registration puts into the prefix table (`Prefix("")` is always refused) -/
def MuxOp.pfKey (sl : α) : MuxOp H α → Option (List α)
  | .pfx s _ => if s = [] then none else some s
  | .dir s _ => some (dirPfx sl s)
  | .exact _ _ => none

def exTableD (sl : α) (ops : List (MuxOp H α)) (s : List α) : Option H :=
  (ops.find? (fun op => op.exKey sl = some s)).map (·.handler)

def pfTableD (sl : α) (ops : List (MuxOp H α)) (s : List α) : Option H :=
  (ops.find? (fun op => op.pfKey sl = some s)).map (·.handler)

theorem SMux.addDir_eq (sl : α) (m : SMux H α) (s : List α) (f : H) :
    m.addDir sl s f =
      (if (m.addExact (dirBase sl s) f).2 ≠ .ok then m.addExact (dirBase sl s) f
       else (m.addExact (dirBase sl s) f).1.addPrefix (dirPfx sl s) f) := by
  unfold SMux.addDir dirBase dirPfx
  split <;> rfl

theorem SMux.apply_lookupD (sl : α) (m : SMux H α) (op : MuxOp H α)
    (hnew : ∀ k, op.exKey sl = some k → m.exacts.lookup k = none) (s : List α) :
    ((m.apply sl op).1.exacts.lookup s =
      if (m.exacts.lookup s).isSome then m.exacts.lookup s
      else if op.exKey sl = some s then some op.handler else none) ∧
    ((m.apply sl op).1.prefixes.lookup s =
      if (m.prefixes.lookup s).isSome then m.prefixes.lookup s
      else if op.pfKey sl = some s then some op.handler else none) := by
  cases op with
  | pfx s' f =>
    obtain ⟨a1, a2⟩ := SMux.apply_lookup sl m (.pfx s' f) rfl s
    rw [a1, a2]
    simp only [MuxOp.key, MuxOp.exKey, MuxOp.pfKey, MuxOp.handler, Prod.mk.injEq, Bool.true_eq_false,
      false_and, if_false, true_and]
    refine ⟨by simp, ?_⟩
    by_cases h0 : s' = []
    · subst h0
      have : ¬ ([] = s ∧ s ≠ []) := by rintro ⟨rfl, h⟩; exact h rfl
      simp [this]
    · by_cases he : s' = s
      · subst he; simp [h0]
      · simp [h0, he]
  | exact s' f =>
    obtain ⟨a1, a2⟩ := SMux.apply_lookup sl m (.exact s' f) rfl s
    rw [a1, a2]
    simp only [MuxOp.key, MuxOp.exKey, MuxOp.pfKey, MuxOp.handler, Prod.mk.injEq, Bool.false_eq_true,
      false_and, if_false, true_and]
    simp
  | dir s' f =>
    have hb := hnew (dirBase sl s') rfl
    have hex : m.addExact (dirBase sl s') f =
        ({ m with exacts := (dirBase sl s', f) :: m.exacts }, .ok) := by
      simp [SMux.addExact, hb]
    simp only [SMux.apply, SMux.addDir_eq, hex, ne_eq, not_true_eq_false, if_false, MuxOp.exKey,
      MuxOp.pfKey, MuxOp.handler, Option.some.injEq]
    have hpn := dirPfx_ne_nil sl s'
    constructor
    · -- exact table: addPrefix leaves it alone
      have : ∀ (m' : SMux H α) p, (m'.addPrefix p f).1.exacts = m'.exacts := by
        intro m' p; unfold SMux.addPrefix; split <;> rfl
      rw [this]
      simp only
      by_cases he : s = dirBase sl s'
      · subst he; rw [lookup_cons_self, hb]; simp
      · rw [lookup_cons_ne _ _ _ _ he]
        have : ¬ dirBase sl s' = s := fun h => he h.symm
        cases m.exacts.lookup s <;> simp [this]
    · unfold SMux.addPrefix
      simp only [hpn, false_or]
      split
      · rename_i hdup
        simp only
        cases h : m.prefixes.lookup s with
        | some x => simp
        | none =>
          have : ¬ dirPfx sl s' = s := by rintro rfl; rw [h] at hdup; simp at hdup
          simp [this]
      · rename_i hnewp
        simp only
        by_cases he : s = dirPfx sl s'
        · subst he
          rw [lookup_cons_self]
          have : m.prefixes.lookup (dirPfx sl s') = none := by
            cases h : m.prefixes.lookup (dirPfx sl s') with
            | none => rfl
            | some x => rw [h] at hnewp; simp at hnewp
          simp [this]
        · rw [lookup_cons_ne _ _ _ _ he]
          have : ¬ dirPfx sl s' = s := fun h => he h.symm
          cases m.prefixes.lookup s <;> simp [this]

theorem SMux.foldl_lookupD (sl : α) (s : List α) : ∀ (ops : List (MuxOp H α)) (acc : SMux H α × List RegRes),
    (ops.filterMap (MuxOp.exKey sl)).Nodup →
    (∀ op ∈ ops, ∀ k, op.exKey sl = some k → acc.1.exacts.lookup k = none) →
    let fin := (ops.foldl (fun acc op => let r := acc.1.apply sl op; (r.1, acc.2 ++ [r.2])) acc).1
    (fin.exacts.lookup s =
      if (acc.1.exacts.lookup s).isSome then acc.1.exacts.lookup s else exTableD sl ops s) ∧
    (fin.prefixes.lookup s =
      if (acc.1.prefixes.lookup s).isSome then acc.1.prefixes.lookup s else pfTableD sl ops s) := by
  intro ops
  induction ops with
  | nil =>
    intro acc _ _
    simp only [List.foldl_nil, exTableD, pfTableD, List.find?_nil, Option.map_none]
    constructor
    · cases acc.1.exacts.lookup s <;> simp
    · cases acc.1.prefixes.lookup s <;> simp
  | cons op ops ih =>
    intro acc hn hnew
    simp only [List.foldl_cons]
    have hop := hnew op (by simp)
    have hn' : (ops.filterMap (MuxOp.exKey sl)).Nodup := by
      cases hk : op.exKey sl with
      | none => simpa [List.filterMap_cons, hk] using hn
      | some k => simp only [List.filterMap_cons, hk, List.nodup_cons] at hn; exact hn.2
    have hnew' : ∀ o ∈ ops, ∀ k, o.exKey sl = some k →
        (acc.1.apply sl op).1.exacts.lookup k = none := by
      intro o ho k hk
      rw [(SMux.apply_lookupD sl acc.1 op hop k).1, hnew o (by simp [ho]) k hk]
      simp only [Option.isSome_none, Bool.false_eq_true, if_false]
      by_cases he : op.exKey sl = some k
      · exfalso
        simp only [List.filterMap_cons, he, List.nodup_cons, List.mem_filterMap] at hn
        exact hn.1 ⟨o, ho, hk⟩
      · simp [he]
    obtain ⟨i1, i2⟩ := ih ((acc.1.apply sl op).1, acc.2 ++ [(acc.1.apply sl op).2]) hn' hnew'
    obtain ⟨a1, a2⟩ := SMux.apply_lookupD sl acc.1 op hop s
    simp only at i1 i2
    constructor
    · rw [i1, a1]
      cases h : acc.1.exacts.lookup s with
      | some x => simp
      | none =>
        simp only [Option.isSome_none, Bool.false_eq_true, if_false]
        by_cases hm : op.exKey sl = some s
        · simp [hm, exTableD, List.find?_cons]
        · simp only [hm, if_false, Option.isSome_none, Bool.false_eq_true, exTableD, List.find?_cons]
          simp [hm]
    · rw [i2, a2]
      cases h : acc.1.prefixes.lookup s with
      | some x => simp
      | none =>
        simp only [Option.isSome_none, Bool.false_eq_true, if_false]
        by_cases hm : op.pfKey sl = some s
        · simp [hm, pfTableD, List.find?_cons]
        · simp only [hm, if_false, Option.isSome_none, Bool.false_eq_true, pfTableD, List.find?_cons]
          simp [hm]

theorem SMux.build_lookupD (sl : α) (ops : List (MuxOp H α))
    (hn : (ops.filterMap (MuxOp.exKey sl)).Nodup) (s : List α) :
    (SMux.build sl ops).1.exacts.lookup s = exTableD sl ops s ∧
    (SMux.build sl ops).1.prefixes.lookup s = pfTableD sl ops s := by
  have := SMux.foldl_lookupD sl s ops (({} : SMux H α), []) hn (by simp)
  simpa [SMux.build] using this

theorem eq_of_nodup_filterMap {β γ : Type} (f : β → Option γ) : ∀ (l : List β), (l.filterMap f).Nodup →
    ∀ a ∈ l, ∀ b ∈ l, ∀ k, f a = some k → f b = some k → a = b := by
  intro l
  induction l with
  | nil => intro _ a ha; simp at ha
  | cons x xs ih =>
    intro hn a ha b hb k hka hkb
    have hxs : (xs.filterMap f).Nodup := by
      cases hx : f x with
      | none => simpa [List.filterMap_cons, hx] using hn
      | some y => simp only [List.filterMap_cons, hx, List.nodup_cons] at hn; exact hn.2
    have hhead : ∀ c ∈ xs, f c = some k → f x = some k → False := by
      intro c hc hkc hkx
      simp only [List.filterMap_cons, hkx, List.nodup_cons, List.mem_filterMap] at hn
      exact hn.1 ⟨c, hc, hkc⟩
    simp only [List.mem_cons] at ha hb
    rcases ha with rfl | ha <;> rcases hb with rfl | hb
    · rfl
    · exact absurd (hhead b hb hkb hka) id
    · exact absurd (hhead a ha hka hkb) id
    · exact ih hxs a ha b hb k hka hkb

theorem muxTablesD_perm (sl : α) {ops₁ ops₂ : List (MuxOp H α)} (hp : ops₁.Perm ops₂)
    (hne : (ops₁.filterMap (MuxOp.exKey sl)).Nodup) (hnp : (ops₁.filterMap (MuxOp.pfKey sl)).Nodup)
    (s : List α) :
    exTableD sl ops₁ s = exTableD sl ops₂ s ∧ pfTableD sl ops₁ s = pfTableD sl ops₂ s := by
  unfold exTableD pfTableD
  constructor
  · rw [find?_perm_unique _ hp]
    intro a ha b hb h1 h2
    simp only [decide_eq_true_eq] at h1 h2
    exact eq_of_nodup_filterMap _ _ hne a ha b hb s h1 h2
  · rw [find?_perm_unique _ hp]
    intro a ha b hb h1 h2
    simp only [decide_eq_true_eq] at h1 h2
    exact eq_of_nodup_filterMap _ _ hnp a ha b hb s h1 h2

end PubModel.C20
