/-
C20 — property theorems.  Statement file; helper lemmas are in Lemmas*.lean.

Property: a request is dispatched only to a handler registered for a prefix of
its path: the path-prefix mux picks the exact match or else the longest
registered string prefix, the router picks the longest registered segment-wise
prefix (files only on a complete match, directories with the remainder),
independently of registration order, and otherwise the miss/default handler.
A service set never invokes the user tier for an anonymous request nor the
admin tier for a non-admin request, and host-based dispatch selects only the
service bound to the request's host.

All theorems quantify over every alphabet with decidable equality, every list
of registrations (no size bound) in the given order, and every request.
-/
import PubModel.C20.LemmasMux
import PubModel.C20.LemmasOrder
import PubModel.C20.LemmasMuxOrder
import PubModel.C20.LemmasMuxDir
import PubModel.C20.LemmasTiers

namespace PubModel.C20

set_option linter.unusedSectionVars false
set_option linter.unusedVariables false

variable {α : Type} [DecidableEq α]

/-! ## 1. Radix trie -/

/-- **`find` after inserting any list of prefixes, in the order given, returns the longest
    inserted (non-empty) prefix of the query** — equal to a brute-force scan of the list. -/
theorem trie_longest (ps : List (List α)) (q : List α) :
    (trieFind (buildTrie ps) q).1 = longestPrefix ps q := by
  have hb := find_spec (buildTrie_wf ps) q []
  simp only [List.nil_append] at hb
  exact best_eq_longestPrefix (fun h => buildTrie_hits ps h) hb

/-- the same, spelled out: the result is an inserted prefix of the query that no inserted
    prefix of the query exceeds in length; it is empty only if no non-empty inserted string
    is a prefix of the query -/
theorem trie_longest_char (ps : List (List α)) (q : List α) :
    (trieFind (buildTrie ps) q).1 <+: q ∧
    ((trieFind (buildTrie ps) q).1 = [] ∨ (trieFind (buildTrie ps) q).1 ∈ ps) ∧
    ∀ p ∈ ps, p <+: q → p.length ≤ ((trieFind (buildTrie ps) q).1).length := by
  rw [trie_longest]
  exact longestPrefix_spec ps q

/-- **Order independence**: two insertion sequences with the same members answer every
    query alike, whatever shape the splits gave the two tries. -/
theorem trie_order_independent (ps₁ ps₂ : List (List α)) (h : ∀ p, p ∈ ps₁ ↔ p ∈ ps₂)
    (q : List α) : (trieFind (buildTrie ps₁) q).1 = (trieFind (buildTrie ps₂) q).1 := by
  rw [trie_longest, trie_longest]
  obtain ⟨a1, a2, a3⟩ := longestPrefix_spec ps₁ q
  obtain ⟨b1, b2, b3⟩ := longestPrefix_spec ps₂ q
  apply prefix_eq_of_length_le a1 b1
  · rcases a2 with a2 | a2
    · simp [a2]
    · exact b3 _ ((h _).mp a2) a1
  · rcases b2 with b2 | b2
    · simp [b2]
    · exact a3 _ ((h _).mpr b2) b1

theorem trie_perm (ps₁ ps₂ : List (List α)) (h : ps₁.Perm ps₂) (q : List α) :
    (trieFind (buildTrie ps₁) q).1 = (trieFind (buildTrie ps₂) q).1 :=
  trie_order_independent ps₁ ps₂ (fun _ => h.mem_iff) q

/-- the invariant behind it: the trie built from any list is well formed and its hit nodes
    are exactly the non-empty members of the list -/
theorem trie_wf_hits (ps : List (List α)) :
    WF [] (buildTrie ps) ∧ ∀ h, h ∈ (buildTrie ps).hits ↔ h ∈ ps ∧ h ≠ [] :=
  ⟨buildTrie_wf ps, buildTrie_hits ps⟩

/-- `add` answers `true` exactly for a new non-empty string -/
theorem trie_add_result (ps : List (List α)) (s : List α) :
    ((buildTrie ps).add s).2 = true ↔ s ≠ [] ∧ s ∉ ps := by
  have := (add_spec (buildTrie_wf ps) s).2.2.2.2
  simp only [List.nil_append] at this
  rw [this]
  have hh := buildTrie_hits ps s
  simp only [Node.hits] at hh
  rw [hh]
  constructor
  · rintro ⟨h1, h2⟩; exact ⟨h1, fun h => h2 ⟨h, h1⟩⟩
  · rintro ⟨h1, h2⟩; exact ⟨h1, fun h => h2 h.1⟩

-- non-vacuity: shared prefixes, a split node ("ab" + "ac" under "a"), a proper-prefix insertion
example : (trieFind (buildTrie ["abc".toList, "abd".toList, "a".toList, "b/".toList]) "abd/".toList).1
    = "abd".toList := by decide
example : (trieFind (buildTrie ["abc".toList, "abd".toList, "a".toList]) "abx".toList).1 = "a".toList := by decide
example : (trieFind (buildTrie ["a".toList, "abd".toList, "abc".toList]) "abx".toList).1 = "a".toList := by decide
example : (trieFind (buildTrie ["abc".toList, "abd".toList]) "abx".toList).1 = [] := by decide
example : longestPrefix ["abc".toList, "abd".toList, "a".toList] "abx".toList = "a".toList := by decide

/-! ## 2. Mux -/

section Mux
variable {H : Type}

/-- **`Mux.Route` is the reference route**: for every registration sequence (Prefix, Exact,
    Dir in any mixture and order) the real mux — which looks prefixes up in the radix trie —
    returns the same registration results and, for every path, the same handler as the
    reference `SMux`: exact match first, else the handler of the longest registered string
    prefix found by a linear scan, else miss. -/
theorem mux_route (sl : α) (ops : List (MuxOp H α)) (path : List α) :
    (Mux.build sl ops).1.route path = (SMux.build sl ops).1.route path ∧
    (Mux.build sl ops).2 = (SMux.build sl ops).2 :=
  ⟨(build_rel sl ops).1.route_eq path, (build_rel sl ops).2⟩

/-- the same in words: with `m` the mux after any registration sequence,
    (1) an exactly registered path gets its exact handler;
    (2) otherwise the handler of a registered prefix `p` of the path that no registered prefix
        of the path exceeds in length;
    (3) otherwise — no registered prefix is a prefix of the path — nothing (`Miss`). -/
theorem mux_route_char (sl : α) (ops : List (MuxOp H α)) (path : List α) :
    let m := (Mux.build sl ops).1
    (∀ f, m.exacts.lookup path = some f → m.route path = some f) ∧
    (m.exacts.lookup path = none →
      (∃ p f, m.prefixes.lookup p = some f ∧ p ≠ [] ∧ p <+: path ∧
          (∀ p', (m.prefixes.lookup p').isSome → p' <+: path → p'.length ≤ p.length) ∧
          m.route path = some f) ∨
      (m.route path = none ∧ ∀ p', (m.prefixes.lookup p').isSome → ¬ p' <+: path)) := by
  intro m
  have hrel := (build_rel sl ops).1
  refine ⟨fun f hf => by simp [Mux.route, hf], fun hnone => ?_⟩
  have hb := find_spec hrel.wf path []
  simp only [List.nil_append] at hb
  have hk := hrel.keys
  simp only [Node.hits] at hk
  simp only [Mux.route, hnone, trieFind]
  rcases hb with ⟨hm, hq, hmax⟩ | ⟨hr, hno⟩
  · left
    have hsome := (hk _).mp hm
    obtain ⟨f, hf⟩ := Option.isSome_iff_exists.mp hsome
    refine ⟨_, f, hf, ?_, hq, fun p' hp' hq' => hmax p' ((hk p').mpr hp') hq', hf⟩
    intro h0
    have := hrel.wf.hits_longer hm
    rw [h0] at this
    simp at this
  · right
    refine ⟨?_, fun p' hp' => hno p' ((hk p').mpr hp')⟩
    rw [hr]
    cases hl : m.prefixes.lookup [] with
    | none => rfl
    | some f =>
      have : [] ∈ hitsKids m.t.kids := (hk []).mpr (by rw [show (Mux.build sl ops).1 = m from rfl, hl]; rfl)
      have := hrel.wf.hits_longer this
      simp at this

/-- **the shape of the trie never matters**: two registration sequences that leave the same
    exact table and the same prefix table route every path alike, whatever splits their
    insertion orders produced -/
theorem mux_route_tables (sl : α) (ops₁ ops₂ : List (MuxOp H α))
    (he : ∀ s, (Mux.build sl ops₁).1.exacts.lookup s = (Mux.build sl ops₂).1.exacts.lookup s)
    (hp : ∀ s, (Mux.build sl ops₁).1.prefixes.lookup s = (Mux.build sl ops₂).1.prefixes.lookup s)
    (path : List α) :
    (Mux.build sl ops₁).1.route path = (Mux.build sl ops₂).1.route path := by
  rw [(mux_route sl ops₁ path).1, (mux_route sl ops₂ path).1]
  have r1 := (build_rel sl ops₁).1
  have r2 := (build_rel sl ops₂).1
  apply SMux.route_congr
  · intro s; rw [← r1.ex, ← r2.ex]; exact he s
  · intro s; rw [← r1.pre, ← r2.pre]; exact hp s

/-- **independent of registration order**: Prefix/Exact registrations with pairwise different
    keys, registered in any two orders, route every path alike -/
theorem mux_order_independent (sl : α) (ops₁ ops₂ : List (MuxOp H α)) (hperm : ops₁.Perm ops₂)
    (hd : ∀ op ∈ ops₁, op.isDir = false) (hn : (ops₁.map MuxOp.key).Nodup) (path : List α) :
    (Mux.build sl ops₁).1.route path = (Mux.build sl ops₂).1.route path := by
  rw [(mux_route sl ops₁ path).1, (mux_route sl ops₂ path).1]
  have hd2 : ∀ op ∈ ops₂, op.isDir = false := fun op h => hd op (hperm.mem_iff.mpr h)
  apply SMux.route_congr
  · intro s
    rw [(SMux.build_lookup sl ops₁ hd s).1, (SMux.build_lookup sl ops₂ hd2 s).1]
    exact (muxTables_perm hperm hn s).1
  · intro s
    rw [(SMux.build_lookup sl ops₁ hd s).2, (SMux.build_lookup sl ops₂ hd2 s).2]
    exact (muxTables_perm hperm hn s).2

/-- **independent of registration order, full mixture Prefix / Exact / Dir**: `Dir(s)` puts
    `dirBase s` into the exact table and `dirPfx s` (= base ++ "/") into the prefix table.
    Registrations whose exact keys are pairwise different and whose prefix keys are pairwise
    different route every path alike in every order. -/
theorem mux_order_independent_full (sl : α) (ops₁ ops₂ : List (MuxOp H α)) (hperm : ops₁.Perm ops₂)
    (hne : (ops₁.filterMap (MuxOp.exKey sl)).Nodup) (hnp : (ops₁.filterMap (MuxOp.pfKey sl)).Nodup)
    (path : List α) :
    (Mux.build sl ops₁).1.route path = (Mux.build sl ops₂).1.route path := by
  rw [(mux_route sl ops₁ path).1, (mux_route sl ops₂ path).1]
  have hne2 : (ops₂.filterMap (MuxOp.exKey sl)).Nodup :=
    (hperm.filterMap _).nodup_iff.mp hne
  apply SMux.route_congr
  · intro s
    rw [(SMux.build_lookupD sl ops₁ hne s).1, (SMux.build_lookupD sl ops₂ hne2 s).1]
    exact (muxTablesD_perm sl hperm hne hnp s).1
  · intro s
    rw [(SMux.build_lookupD sl ops₁ hne s).2, (SMux.build_lookupD sl ops₂ hne2 s).2]
    exact (muxTablesD_perm sl hperm hne hnp s).2

/-- the hypothesis is exact: with a duplicate exact key the order matters beyond "first wins",
    because a `Dir` whose exact part is refused (it returns the error) does not register its
    prefix part either.  `Exact("a")` then `Dir("a")` leaves "a/x" unrouted, the other order
    routes it. -/
theorem mux_dir_duplicate_order_dependent :
    ((Mux.build '/' [MuxOp.exact "a".toList 1, .dir "a".toList 2] : Mux Nat Char × List RegRes).2 = [.ok, .dupExact] ∧
     (Mux.build '/' [MuxOp.exact "a".toList 1, .dir "a".toList 2] : Mux Nat Char × List RegRes).1.route "a/x".toList = none) ∧
    ((Mux.build '/' [MuxOp.dir "a".toList 2, .exact "a".toList 1] : Mux Nat Char × List RegRes).2 = [.ok, .dupExact] ∧
     (Mux.build '/' [MuxOp.dir "a".toList 2, .exact "a".toList 1] : Mux Nat Char × List RegRes).1.route "a/x".toList = some 2) := by
  decide

-- non-vacuity of the full mixture: Dir "a/", Prefix "a/b", Exact "a/b", Dir "/" in two orders
example :
    ((Mux.build '/' [MuxOp.dir "a/".toList 1, .pfx "a/b".toList 2, .exact "a/b".toList 3, .dir "/".toList 4]
        : Mux Nat Char × List RegRes).1.route <$> ["a".toList, "a/".toList, "a/b".toList, "a/bc".toList, "/x".toList, "x".toList])
      = [some 1, some 1, some 3, some 2, some 4, none] ∧
    ((Mux.build '/' [MuxOp.dir "/".toList 4, .exact "a/b".toList 3, .pfx "a/b".toList 2, .dir "a/".toList 1]
        : Mux Nat Char × List RegRes).1.route <$> ["a".toList, "a/".toList, "a/b".toList, "a/bc".toList, "/x".toList, "x".toList])
      = [some 1, some 1, some 3, some 2, some 4, none] := by
  decide

-- non-vacuity: exact beats prefix, longest prefix wins, Dir registers both, duplicates are refused
example :
    let m := (Mux.build '/' [MuxOp.pfx "ab".toList 1, .pfx "a".toList 2, .exact "ab".toList 3,
      .dir "a/".toList 4, .pfx "a".toList 5] : Mux Nat Char × List RegRes)
    m.2 = [.ok, .ok, .ok, .ok, .dupPrefix] ∧
    m.1.route "ab".toList = some 3 ∧ m.1.route "abc".toList = some 1 ∧ m.1.route "a".toList = some 4 ∧
    m.1.route "a/x".toList = some 4 ∧ m.1.route "ax".toList = some 2 ∧ m.1.route "b".toList = none := by
  decide

end Mux

/-! ## 3. Segment trie (package trie) -/

section SegTrie
variable {σ : Type} [DecidableEq σ]

/-- **`find` after any sequence of `Add`s returns the longest segment-wise prefix of the
    route that has a value** — equal to a brute-force scan of the first-wins table, from the
    whole route down to the empty route. -/
theorem segtrie_longest (as : List (List σ × List α)) (route : List σ) :
    SNode.find route (buildSeg as).1 = segScan (segTable as) route route.length := by
  rw [find_eq_scan]
  congr 1
  funext r
  exact buildSeg_get as r

/-- the same, spelled out -/
theorem segtrie_longest_char (as : List (List σ × List α)) (route : List σ) :
    let r := SNode.find route (buildSeg as).1
    r.1 ≤ route.length ∧ r.2 = segTable as (route.take r.1) ∧ (r.2 = [] → r.1 = 0) ∧
    ∀ j, r.1 < j → j ≤ route.length → segTable as (route.take j) = [] := by
  obtain ⟨h1, h2, h3, h4⟩ := find_get route (buildSeg as).1
  refine ⟨h2, by rw [h1, buildSeg_get], h3, fun j a b => ?_⟩
  rw [← buildSeg_get]; exact h4 j a b

/-- `Trie.FindExact` is the table look-up -/
theorem segtrie_findExact (as : List (List σ × List α)) (route : List σ) :
    trieFindExact (buildSeg as).1 route = segTable as route := by
  obtain ⟨h1, h2, h3, h4⟩ := find_get route (buildSeg as).1
  unfold trieFindExact
  simp only
  split
  · rename_i hne
    have := h4 route.length (by omega) (Nat.le_refl _)
    rw [List.take_length, buildSeg_get] at this
    exact this.symm
  · rename_i he
    have he : (SNode.find route (buildSeg as).1).1 = route.length := by
      apply Classical.byContradiction; intro h; exact he h
    rw [h1, he, List.take_length, buildSeg_get]

/-- **order independence**: registrations with pairwise different routes give the same
    answers in every order -/
theorem segtrie_order_independent (as₁ as₂ : List (List σ × List α)) (hp : as₁.Perm as₂)
    (hn : (as₁.map (·.1)).Nodup) (route : List σ) :
    SNode.find route (buildSeg as₁).1 = SNode.find route (buildSeg as₂).1 := by
  rw [segtrie_longest, segtrie_longest]
  congr 1
  funext r
  exact segTable_perm hp hn r

-- non-vacuity: the test of package trie, in another order, plus a duplicate and an empty value
example :
    let t := (buildSeg [(["a", "b"], "ab".toList), (["a", "b", "c"], "abc".toList), (["abc"], "x".toList),
      (["a", "c"], "ac".toList), (["a", "c"], "dup".toList), (["z"], [])] : SNode String Char × List TrieAdd)
    t.2 = [.added, .added, .added, .added, .conflict, .panicEmptyValue] ∧
    SNode.find ["a", "b", "c", "d"] t.1 = (3, "abc".toList) ∧ SNode.find ["a", "c", "d"] t.1 = (2, "ac".toList) ∧
    SNode.find ["a"] t.1 = (0, []) ∧ SNode.find ["a", "x"] t.1 = (0, []) ∧ trieFindExact t.1 ["a", "b"] = "ab".toList := by
  decide

end SegTrie

/-! ## 4. `newRoute`: splitting paths -/

/-- **`newRoute` keeps exactly the non-empty segments** (leading, trailing and repeated
    slashes vanish), its canonical path is "/" ++ segment for each, `Rel()` after `i` shifts
    is the remaining segments joined by "/", and it is empty exactly when no segment is left. -/
theorem newRoute_split (sl : α) (p : List α) :
    (newRoute sl p).routes = segsOf sl p ∧ Good sl (segsOf sl p) ∧
    (newRoute sl p).p = canon sl (segsOf sl p) ∧
    (newRoute sl p).isDir = decide (p.getLast? = some sl) ∧
    (∀ i, (newRoute sl p).rel i = relSpec sl ((segsOf sl p).drop i)) ∧
    (∀ i, (newRoute sl p).rel i = [] ↔ (newRoute sl p).size ≤ i) := by
  refine ⟨newRoute_routes sl p, segsOf_good sl p, newRoute_p sl p, newRoute_isDir sl p,
    newRoute_rel sl p, fun i => ?_⟩
  rw [newRoute_rel, relSpec_eq_nil ((segsOf_good sl p).drop i), List.drop_eq_nil_iff, Route.size,
    newRoute_routes]

/-- two paths with the same canonical form have the same segments -/
theorem canon_injective (sl : α) (a b : List (List α)) (ha : Good sl a) (hb : Good sl b)
    (h : canon sl a = canon sl b) : a = b := canon_inj a b ha hb h

example : (newRoute '/' "//a//bb/c/".toList).routes = ["a".toList, "bb".toList, "c".toList] ∧
    (newRoute '/' "//a//bb/c/".toList).p = "/a/bb/c".toList ∧ (newRoute '/' "//a//bb/c/".toList).isDir = true ∧
    (newRoute '/' "//a//bb/c/".toList).rel 1 = "bb/c".toList ∧ (newRoute '/' "//a//bb/c/".toList).rel 3 = [] ∧
    (newRoute '/' "a".toList).isDir = false ∧ (newRoute '/' "///".toList).routes = [] := by decide

/-! ## 5. Router -/

section Router
variable {H : Type}

/-- **`Router.Serve` decides as the reference router** for every registration sequence
    (File / MethodFile / Dir in any mixture and order, duplicates and empty routes included),
    every index/default setting and every context produced by `NewContext` and shifted any
    number of times: index on an empty remainder; else the longest registered segment-wise
    prefix of the remaining segments found by a brute-force scan; a directory node is served
    with the remainder, a file node only when the match is complete and the path has no
    trailing slash; a node with a method refuses other methods; everything else goes to the
    default handler or `Miss`.  Registration results agree as well. -/
theorem router_decision (sl : α) (idx dflt : Option H) (ops : List (List α × RNode H α))
    (c : Ctx α) (hc : c.route = newRoute sl c.path) :
    (Router.build sl idx dflt ops).1.serve c = (SRouter.build sl idx dflt ops).1.serve sl c ∧
    (Router.build sl idx dflt ops).2 = (SRouter.build sl idx dflt ops).2 :=
  ⟨(router_build_rel sl idx dflt ops).1.serve_eq c hc, (router_build_rel sl idx dflt ops).2⟩

/-- the reference decision in words, for the router built from `ops`: when `Serve` runs the
    handler `h` of a registered node with the context `c'`, then some registration
    `(p, n)` of `ops` — the first one with these segments — has `n.s = h`, its segments are
    the first `k` remaining segments, no registration matches more remaining segments,
    the context was shifted by exactly `k`, and the node is a directory or the match is
    complete with no trailing slash. -/
theorem router_decision_char (sl : α) (idx dflt : Option H) (ops : List (List α × RNode H α))
    (c : Ctx α) (hc : c.route = newRoute sl c.path) (h : H) (c' : Ctx α)
    (hs : (Router.build sl idx dflt ops).1.serve c = .node h c') :
    let rest := (segsOf sl c.path).drop c.pos
    ∃ k n, 1 ≤ k ∧ k ≤ rest.length ∧ routeTable sl ops (rest.take k) = some n ∧ n.s = h ∧
      (∀ j, k < j → j ≤ rest.length → routeTable sl ops (rest.take j) = none) ∧
      c' = c.shift k ∧ c'.pos = c.pos + k ∧
      (n.isDir = true ∨ (k = rest.length ∧ c.path.getLast? ≠ some sl)) ∧
      (n.method = [] ∨ c.method = n.method) := by
  intro rest
  rw [(router_decision sl idx dflt ops c hc).1] at hs
  have hlk := fun r => (SRouter.build_lookup sl idx dflt ops r).1
  unfold SRouter.serve SRouter.notFound at hs
  simp only at hs
  split at hs
  · split at hs
    · split at hs <;> simp at hs
    · simp at hs
  · split at hs
    · split at hs <;> simp at hs
    · rename_i k n hl
      obtain ⟨k1, k2, k3, k4⟩ := longestRoute_le _ _ _ _ _ hl
      split at hs
      · rename_i hcond
        split at hs
        · simp at hs
        · rename_i hmeth
          simp only [Served.node.injEq] at hs
          have hsize : c.route.size = (segsOf sl c.path).length := by
            rw [hc, Route.size, newRoute_routes]
          have hlen : ((segsOf sl c.path).drop c.pos).length = (segsOf sl c.path).length - c.pos := List.length_drop
          refine ⟨k, n, k1, k2, by rw [← hlk]; exact k3, hs.1, ?_, hs.2.symm, ?_, hcond, ?_⟩
          · intro j a b; rw [← hlk]; exact k4 j a b
          · rw [← hs.2]
            simp only [Ctx.shift, hsize]
            split <;> omega
          · apply Classical.byContradiction
            intro hno
            apply hmeth
            simp only [not_or] at hno
            exact hno
      · split at hs <;> simp at hs

/-- **files only on a complete match**: a file node never runs with segments left over or on
    a path with a trailing slash -/
theorem router_file_complete (sl : α) (idx dflt : Option H) (ops : List (List α × RNode H α))
    (c : Ctx α) (hc : c.route = newRoute sl c.path) (h : H) (c' : Ctx α)
    (hs : (Router.build sl idx dflt ops).1.serve c = .node h c')
    (hfile : ∀ op ∈ ops, op.2.s = h → op.2.isDir = false) :
    c'.rel = [] ∧ c.path.getLast? ≠ some sl := by
  obtain ⟨k, n, k1, k2, k3, k4, _, k6, k7, k8, _⟩ := router_decision_char sl idx dflt ops c hc h c' hs
  simp only [routeTable, Option.map_eq_some_iff] at k3
  obtain ⟨op, hop, rfl⟩ := k3
  have hnd := hfile op (List.mem_of_find?_eq_some hop) k4
  rw [hnd] at k8
  simp only [Bool.false_eq_true, false_or] at k8
  refine ⟨?_, k8.2⟩
  have hroute : c'.route = newRoute sl c.path := by rw [k6]; exact hc
  have hp : c'.path = c.path := by rw [k6]; rfl
  simp only [Ctx.rel, hroute]
  rw [(newRoute_split sl c.path).2.2.2.2.2, k7, Route.size, newRoute_routes]
  have : ((segsOf sl c.path).drop c.pos).length = (segsOf sl c.path).length - c.pos := by simp
  omega

/-- the two panics of `Router` are unreachable: `add` never fails to insert into the trie and
    `Serve` always finds the node of the route the trie returns -/
theorem router_no_panic (sl : α) (idx dflt : Option H) (ops : List (List α × RNode H α))
    (c : Ctx α) (hc : c.route = newRoute sl c.path) :
    (Router.build sl idx dflt ops).1.serve c ≠ .panicNoNode ∧
    AddRes.panicTrie ∉ (Router.build sl idx dflt ops).2 := by
  constructor
  · rw [(router_decision sl idx dflt ops c hc).1]
    unfold SRouter.serve SRouter.notFound
    simp only
    repeat' split
    all_goals simp
  · rw [(router_decision sl idx dflt ops c hc).2]
    unfold SRouter.build
    suffices h : ∀ (acc : SRouter H α × List AddRes), AddRes.panicTrie ∉ acc.2 →
        AddRes.panicTrie ∉ (ops.foldl (fun acc op => let r := acc.1.add sl op.1 op.2; (r.1, acc.2 ++ [r.2])) acc).2 from
      h _ (by simp)
    intro acc
    induction ops generalizing acc with
    | nil => exact id
    | cons op ops ih =>
      intro ha
      simp only [List.foldl_cons]
      apply ih
      simp only [List.mem_append, List.mem_singleton, not_or]
      refine ⟨ha, fun h0 => ?_⟩
      have : (acc.1.add sl op.1 op.2).2 ≠ AddRes.panicTrie := by
        unfold SRouter.add
        simp only
        split
        · simp
        · split <;> simp
      exact this h0.symm

/-- **independent of registration order**: registration sequences that are permutations of
    each other, with pairwise different canonical routes, decide every request alike -/
theorem router_order_independent (sl : α) (idx dflt : Option H) (ops₁ ops₂ : List (List α × RNode H α))
    (hp : ops₁.Perm ops₂) (hn : (ops₁.map (fun op => segsOf sl op.1)).Nodup)
    (c : Ctx α) (hc : c.route = newRoute sl c.path) :
    (Router.build sl idx dflt ops₁).1.serve c = (Router.build sl idx dflt ops₂).1.serve c := by
  rw [(router_decision sl idx dflt ops₁ c hc).1, (router_decision sl idx dflt ops₂ c hc).1]
  obtain ⟨_, a2, a3⟩ := SRouter.build_lookup sl idx dflt ops₁ []
  obtain ⟨_, b2, b3⟩ := SRouter.build_lookup sl idx dflt ops₂ []
  apply SRouter.serve_congr sl (by rw [a2, b2]) (by rw [a3, b3])
  intro k
  rw [(SRouter.build_lookup sl idx dflt ops₁ k).1, (SRouter.build_lookup sl idx dflt ops₂ k).1]
  exact routeTable_perm sl hp hn k

/-- the registration API of `Router`: `File`, `MethodFile`, `Get`, `Post`, `Dir` -/
inductive RouterReg (H α : Type) where
  | file (p : List α) (f : H)
  | methodFile (m p : List α) (f : H)
  | get (p : List α) (f : H)
  | post (p : List α) (f : H)
  | dir (p : List α) (f : H)

def RouterReg.path : RouterReg H α → List α
  | .file p _ | .methodFile _ p _ | .get p _ | .post p _ | .dir p _ => p

/-- the `routerNode` each API call builds (`getM`, `postM` are "GET" and "POST") -/
def RouterReg.toOp (getM postM : List α) : RouterReg H α → List α × RNode H α
  | .file p f => (p, ⟨f, false, []⟩)
  | .methodFile m p f => (p, ⟨f, false, m⟩)
  | .get p f => (p, ⟨f, false, getM⟩)
  | .post p f => (p, ⟨f, false, postM⟩)
  | .dir p f => (p, ⟨f, true, []⟩)

/-- **independent of registration order, full mixture File / MethodFile / Get / Post / Dir**:
    any permutation of a registration list with pairwise different canonical routes yields
    the same decision for every path, every method and every shift. -/
theorem router_order_independent_mixed (sl : α) (getM postM : List α) (idx dflt : Option H)
    (regs₁ regs₂ : List (RouterReg H α)) (hp : regs₁.Perm regs₂)
    (hn : (regs₁.map (fun r => segsOf sl r.path)).Nodup)
    (c : Ctx α) (hc : c.route = newRoute sl c.path) :
    (Router.build sl idx dflt (regs₁.map (RouterReg.toOp getM postM))).1.serve c =
    (Router.build sl idx dflt (regs₂.map (RouterReg.toOp getM postM))).1.serve c := by
  apply router_order_independent sl idx dflt _ _ (hp.map _) _ c hc
  rw [List.map_map]
  have : ((fun op : List α × RNode H α => segsOf sl op.1) ∘ RouterReg.toOp getM postM) =
      fun r : RouterReg H α => segsOf sl r.path := by
    funext r; cases r <;> rfl
  rw [this]; exact hn

/-- what an example needs to see of a decision: kind, handler, route position, `Rel()` -/
def Served.summary : Served H α → String × Option H × Nat × List α
  | .index h c => ("index", some h, c.pos, c.rel)
  | .dflt h c => ("default", some h, c.pos, c.rel)
  | .node h c => ("node", some h, c.pos, c.rel)
  | .miss => ("miss", none, 0, [])
  | .badMethod => ("badmethod", none, 0, [])
  | .panicNoNode => ("panic", none, 0, [])

-- non-vacuity: file vs directory, longest match, trailing and repeated slashes, methods,
-- a duplicate canonical route, an empty route, index and default
def exRouter : Router Nat Char × List AddRes :=
  Router.build '/' (some 90) (some 91)
    [("a".toList, ⟨1, false, []⟩), ("/b//a/".toList, ⟨2, true, []⟩), ("a/b".toList, ⟨3, false, "GET".toList⟩),
     ("//".toList, ⟨4, false, []⟩), ("a/".toList, ⟨5, true, []⟩), ("b".toList, ⟨6, false, []⟩)]
def exReq (m p : String) : String × Option Nat × Nat × List Char :=
  (exRouter.1.serve (Ctx.new '/' p.toList m.toList [])).summary

example : exRouter.2 = [.ok, .ok, .ok, .panicEmpty, .dup, .ok] := by decide
example : exReq "GET" "/a" = ("node", some 1, 1, []) := by decide
example : exReq "GET" "/a/" = ("default", some 91, 1, []) := by decide
example : exReq "GET" "a//b" = ("node", some 3, 2, []) := by decide
example : exReq "POST" "/a/b" = ("badmethod", none, 0, []) := by decide
example : exReq "GET" "/a/b/c" = ("default", some 91, 2, "c".toList) := by decide
example : exReq "POST" "/b/a/x//y/" = ("node", some 2, 2, "x/y".toList) := by decide
example : exReq "GET" "/b/x" = ("default", some 91, 1, "x".toList) := by decide
example : exReq "GET" "/" = ("index", some 90, 0, []) := by decide
example : exReq "GET" "/c" = ("default", some 91, 0, "c".toList) := by decide

-- non-vacuity of the mixture: Dir "a", File "a/b", Dir "a/b/c" (shared prefix) and Get "a/d",
-- registered in all six orders of the first three, decide ten requests alike — and as expected
def exMixedRegs : List (List (RouterReg Nat Char)) :=
  let d1 := RouterReg.dir "a".toList 1
  let f2 := RouterReg.file "a/b".toList 2
  let d3 := RouterReg.dir "/a/b/c/".toList 3
  let g4 := RouterReg.get "a/d".toList 4
  [[d1, f2, d3, g4], [d1, d3, f2, g4], [f2, d1, d3, g4], [f2, d3, g4, d1], [d3, d1, g4, f2], [g4, d3, f2, d1]]

def exMixedServe (regs : List (RouterReg Nat Char)) : List (String × Option Nat × Nat × List Char) :=
  let r := (Router.build '/' none (some 91) (regs.map (RouterReg.toOp "GET".toList "POST".toList))).1
  [("GET", "/a"), ("GET", "/a/"), ("GET", "/a/b"), ("GET", "/a/b/"), ("POST", "/a/b/x"), ("GET", "/a/b/c"),
   ("POST", "a/b/c/x//y/"), ("GET", "/a/x/y"), ("GET", "/a/d"), ("POST", "/a/d")].map fun (m, p) =>
    (r.serve (Ctx.new '/' p.toList m.toList [])).summary

example : exMixedRegs.map exMixedServe = List.replicate 6
    [("node", some 1, 1, []), ("node", some 1, 1, []), ("node", some 2, 2, []), ("default", some 91, 2, []),
     ("default", some 91, 2, "x".toList), ("node", some 3, 3, []), ("node", some 3, 3, "x/y".toList),
     ("node", some 1, 1, "x/y".toList), ("node", some 4, 2, []), ("badmethod", none, 0, [])] := by
  decide

/-! ### Router as one service of a fall-through chain -/

/-- handlers that leave the path and the parsed route of the context alone -/
def KeepsRoute (hs : H → Svc α) : Prop :=
  ∀ h c, (hs h c).2.path = c.path ∧ (hs h c).2.route = c.route

theorem Router.serve_ctx (r : Router H α) (c : Ctx α) (h : H) (c' : Ctx α)
    (hs : r.serve c = .index h c' ∨ r.serve c = .dflt h c' ∨ r.serve c = .node h c') :
    c'.path = c.path ∧ c'.route = c.route := by
  have hsh : ∀ k, (c.shift k).path = c.path ∧ (c.shift k).route = c.route := fun k => ⟨rfl, rfl⟩
  unfold Router.serve Router.notFound at hs
  simp only at hs
  repeat' split at hs
  all_goals simp at hs
  all_goals first
    | (obtain ⟨_, rfl⟩ := hs; first | exact ⟨rfl, rfl⟩ | exact hsh _)
    | skip

theorem Router.shiftedCtx_keeps (r : Router H α) (c : Ctx α) :
    (r.shiftedCtx c).path = c.path ∧ (r.shiftedCtx c).route = c.route := by
  unfold Router.shiftedCtx
  simp only
  repeat' split
  all_goals simp [Ctx.shift]

/-- **a router that returns `Miss` hands the context back with the route position it was
    given** (and, when its handlers leave path and route alone, the same path and route):
    the next service of a fall-through chain routes on the same remaining segments. -/
theorem router_miss_restores (r : Router H α) (hs : H → Svc α) (c : Ctx α) (hk : KeepsRoute hs)
    (hm : (r.svc hs c).1 = .miss) :
    (r.svc hs c).2.pos = c.pos ∧ (r.svc hs c).2.path = c.path ∧ (r.svc hs c).2.route = c.route := by
  unfold Router.svc at hm ⊢
  simp only at hm ⊢
  have hkeep : (r.svcNoRestore hs c).2.path = c.path ∧ (r.svcNoRestore hs c).2.route = c.route := by
    unfold Router.svcNoRestore
    split <;> rename_i heq
    · have hctx := Router.serve_ctx r c _ _ (Or.inl heq)
      exact ⟨((hk _ _).1).trans hctx.1, ((hk _ _).2).trans hctx.2⟩
    · have hctx := Router.serve_ctx r c _ _ (Or.inr (Or.inl heq))
      exact ⟨((hk _ _).1).trans hctx.1, ((hk _ _).2).trans hctx.2⟩
    · have hctx := Router.serve_ctx r c _ _ (Or.inr (Or.inr heq))
      exact ⟨((hk _ _).1).trans hctx.1, ((hk _ _).2).trans hctx.2⟩
    · exact Router.shiftedCtx_keeps r c
    · exact Router.shiftedCtx_keeps r c
    · exact ⟨rfl, rfl⟩
  split
  · exact ⟨rfl, hkeep.1, hkeep.2⟩
  · rename_i hne
    split at hm
    · exact absurd ‹_› hne
    · exact absurd hm hne

/-- **dispatch only to a handler registered for a prefix of the request's path, also after a
    fall-through**: when any router `r₁` returned `Miss` and the next router — built from the
    registrations `ops` — then runs the handler of a node, that node is registered for the
    first `k` of the segments that remained when the chain was entered (and no registration
    matches more of them). -/
theorem fallthrough_dispatch_prefix (sl : α) (r₁ : Router H α) (hs : H → Svc α) (hk : KeepsRoute hs)
    (idx dflt : Option H) (ops : List (List α × RNode H α))
    (c : Ctx α) (hc : c.route = newRoute sl c.path) (hm : (r₁.svc hs c).1 = .miss)
    (h : H) (c' : Ctx α) (hserve : (Router.build sl idx dflt ops).1.serve (r₁.svc hs c).2 = .node h c') :
    let rest := (segsOf sl c.path).drop c.pos
    ∃ k n, 1 ≤ k ∧ k ≤ rest.length ∧ routeTable sl ops (rest.take k) = some n ∧ n.s = h ∧
      (∀ j, k < j → j ≤ rest.length → routeTable sl ops (rest.take j) = none) ∧
      c'.pos = c.pos + k := by
  obtain ⟨h1, h2, h3⟩ := router_miss_restores r₁ hs c hk hm
  have hc2 : (r₁.svc hs c).2.route = newRoute sl (r₁.svc hs c).2.path := by rw [h3, h2]; exact hc
  obtain ⟨k, n, a1, a2, a3, a4, a5, _, a7, _⟩ :=
    router_decision_char sl idx dflt ops (r₁.svc hs c).2 hc2 h c' hserve
  rw [h1, h2] at a2 a3 a5
  rw [h1] at a7
  exact ⟨k, n, a1, a2, a3, a4, a5, a7⟩

/-- the body of `Serve` alone (the code before the fix) does not have this property:
    Resource `File("a")`, Guest `File("b")`, `GET /a/b` — the first router matches "a", shifts,
    misses (no complete match), and the second then runs the handler registered for "b",
    which is no prefix of "/a/b". -/
theorem fallthrough_leak_without_restore :
    let hs : Nat → Svc Char := fun _ c => (.ok, c)
    let r₁ := (Router.build '/' none none [("a".toList, ⟨1, false, []⟩)] : Router Nat Char × List AddRes).1
    let r₂ := (Router.build '/' none none [("b".toList, ⟨2, false, []⟩)] : Router Nat Char × List AddRes).1
    let c := Ctx.new '/' "/a/b".toList "GET".toList []
    (r₁.svcNoRestore hs c).1 = .miss ∧
    (r₂.serve (r₁.svcNoRestore hs c).2).summary = ("node", some 2, 2, []) ∧
    (r₁.svc hs c).1 = .miss ∧ (r₂.serve (r₁.svc hs c).2).summary = ("miss", none, 0, []) := by
  decide

end Router

/-! ## 6. ServiceSet tiers -/

/-- **`Serve` never invokes the user tier for an anonymous request nor the admin tier for a
    non-admin**: every invocation of the user tier is handed a context with a non-empty user,
    every invocation of the admin tier a context the admin predicate accepts — for arbitrary
    (context-mutating) auth, setup and tier services and an arbitrary admin predicate. -/
theorem tiers (s : ServiceSet α) (c : Ctx α) :
    ∀ e ∈ (s.serve c).trace, (e.1 = .user → e.2.user ≠ []) ∧ (e.1 = .admin → s.isAdmin e.2 = true) := by
  intro e he
  unfold ServiceSet.serve at he
  split at he
  · simp at he
  · rename_i a _
    simp only at he
    split at he
    · simp only [List.mem_singleton] at he
      subst he
      exact ⟨fun h => by simp at h, fun h => by simp at h⟩
    · split at he
      · simp only [List.mem_cons, List.not_mem_nil, or_false] at he
        rcases he with rfl | rfl <;> exact ⟨fun h => by simp at h, fun h => by simp at h⟩
      · rcases runTiers_trace _ _ _ e he with h | ⟨te, hte, h1, h2, _⟩
        · simp only [List.mem_cons, List.not_mem_nil, or_false] at h
          rcases h with rfl | rfl <;> exact ⟨fun h => by simp at h, fun h => by simp at h⟩
        · simp only [List.mem_cons, List.not_mem_nil, or_false] at hte
          rcases hte with rfl | rfl | rfl | rfl
          · exact ⟨fun h => by rw [← h1] at h; simp at h, fun h => by rw [← h1] at h; simp at h⟩
          · exact ⟨fun h => by rw [← h1] at h; simp at h, fun h => by rw [← h1] at h; simp at h⟩
          · exact ⟨fun _ => by simpa using h2, fun h => by rw [← h1] at h; simp at h⟩
          · exact ⟨fun h => by rw [← h1] at h; simp at h, fun _ => h2⟩

/-- the default admin predicate only accepts signed-in users of positive level -/
theorem default_isAdmin (s : ServiceSet α) (h : s.isAdminP = none) (c : Ctx α) :
    s.isAdmin c = true ↔ c.user ≠ [] ∧ c.level > 0 := by
  simp [ServiceSet.isAdmin, h]

/-- the tiers the part of `ServeInternal` before the gate can invoke -/
theorem internalPre_trace (s : ServiceSet α) (c : Ctx α) :
    (∀ r, s.internalPre c = .inl r → ∀ e ∈ r.trace, e.1 = .authServe ∨ e.1 = .authSetup ∨ e.1 = .resource) ∧
    (∀ tr cg, s.internalPre c = .inr (tr, cg) → ∀ e ∈ tr, e.1 = .authServe ∨ e.1 = .authSetup ∨ e.1 = .resource) := by
  have h := internalPre_ok s c
  constructor
  · intro r hr e he
    rw [hr] at h
    exact h e he
  · intro tr cg hr e he
    rw [hr] at h
    exact h e he

/-- **`ServeInternal` invokes the guest, user and admin tiers only behind the admin gate**:
    if any of them runs, the part before the gate ended with `Miss` from the resource tier
    and the admin predicate accepted the context it was evaluated on. -/
theorem tiers_internal (slash : List α) (s : ServiceSet α) (c : Ctx α) :
    ∀ e ∈ (s.serveInternal slash c).trace, (e.1 = .guest ∨ e.1 = .user ∨ e.1 = .admin) →
      ∃ tr cg, s.internalPre c = .inr (tr, cg) ∧ s.isAdmin cg = true := by
  intro e he hg
  obtain ⟨p1, p2⟩ := internalPre_trace s c
  unfold ServiceSet.serveInternal at he
  split at he
  · rename_i r hr
    rcases p1 r hr e he with h | h | h <;> rcases hg with g | g | g <;> rw [h] at g <;> simp at g
  · rename_i tr cg hr
    have hpre := p2 tr cg hr
    have hnot : ∀ e' ∈ tr, ¬ (e'.1 = .guest ∨ e'.1 = .user ∨ e'.1 = .admin) := by
      intro e' he' hg'
      rcases hpre e' he' with h | h | h <;> rcases hg' with g | g | g <;> rw [h] at g <;> simp at g
    split at he
    · exfalso
      split at he
      · split at he
        · simp only [List.mem_append, List.mem_singleton] at he
          rcases he with he | rfl
          · exact hnot e he hg
          · rcases hg with g | g | g <;> simp at g
        · exact hnot e he hg
      · exact hnot e he hg
    · rename_i hadm
      exact ⟨tr, cg, hr, by simpa using hadm⟩

/-- the reading of DESIGN 5c: with an admin predicate that only accepts signed-in users (the
    default one does) and guest/user/admin services that leave the context alone, every
    gated tier of `ServeInternal` is handed a context with a non-empty user that the admin
    predicate accepts -/
theorem tiers_internal_user (slash : List α) (s : ServiceSet α) (c : Ctx α)
    (hadm : ∀ c, s.isAdmin c = true → c.user ≠ [])
    (hpure : ∀ f, (s.guest = some f ∨ s.user = some f ∨ s.admin = some f) → ∀ c, (f c).2 = c) :
    ∀ e ∈ (s.serveInternal slash c).trace, (e.1 = .guest ∨ e.1 = .user ∨ e.1 = .admin) →
      s.isAdmin e.2 = true ∧ e.2.user ≠ [] := by
  intro e he hg
  obtain ⟨tr, cg, hr, hcg⟩ := tiers_internal slash s c e he hg
  obtain ⟨_, p2⟩ := internalPre_trace s c
  unfold ServiceSet.serveInternal at he
  rw [hr] at he
  simp only [hcg, not_true_eq_false, if_false] at he
  have := runTiers_pure _ tr cg (by
    intro te hte f hf
    simp only [List.mem_cons, List.not_mem_nil, or_false] at hte
    rcases hte with rfl | rfl | rfl
    · exact hpure f (Or.inl hf)
    · exact hpure f (Or.inr (Or.inl hf))
    · exact hpure f (Or.inr (Or.inr hf))) e he
  rcases this with h | h
  · exfalso
    rcases p2 tr cg hr e h with h' | h' | h' <;> rcases hg with g | g | g <;> rw [h'] at g <;> simp at g
  · rw [h]; exact ⟨hcg, hadm cg hcg⟩

/-- without that hypothesis `ServeInternal` can reach the user tier for an anonymous request:
    an admin predicate that admits the empty user is a witness -/
theorem tiers_internal_needs_hypothesis :
    ∃ (s : ServiceSet Char) (c : Ctx Char), c.user = [] ∧
      (s.serveInternal ['/'] c).trace.map (fun e => (e.1, e.2.user)) = [(Tier.user, [])] := by
  refine ⟨{ user := some fun c => (.ok, c), isAdminP := some fun _ => true }, { path := ['/'] }, rfl, ?_⟩
  decide

-- non-vacuity: an anonymous request stops before the user tier, a user reaches it, an admin
-- reaches the admin tier
def exMissSvc : Svc Char := fun c => (.miss, c)
def exSet : ServiceSet Char :=
  { auth := some ⟨exMissSvc, fun c => (none, c)⟩, resource := some exMissSvc, guest := some exMissSvc, user := some exMissSvc, admin := some exMissSvc }
def exTiers (u : String) (l : Int) : List Tier :=
  (exSet.serve { path := ['/'], user := u.toList, level := l }).trace.map (·.1)

example : exTiers "" 0 = [.authServe, .authSetup, .resource, .guest] := by decide
example : exTiers "u" 0 = [.authServe, .authSetup, .resource, .guest, .user] := by decide
example : exTiers "u" 1 = [.authServe, .authSetup, .resource, .guest, .user, .admin] := by decide
example : exTiers "" 1 = [.authServe, .authSetup, .resource, .guest] := by decide
example : ((exSet.serveInternal ['/'] { path := ['/'], user := "u".toList, level := 0 }).trace.map (·.1), (exSet.serveInternal ['/'] { path := ['/'], user := "u".toList, level := 0 }).out)
    = ([.authServe, .authSetup, .resource], .needSignIn) := by decide
example : (exSet.serveInternal ['/'] { path := ['/'], user := "u".toList, level := 2 }).trace.map (·.1)
    = [.authServe, .authSetup, .resource, .guest, .user, .admin] := by decide

/-! ## 7. HostMux -/

section HostMux
variable {H : Type}

/-- bind the hosts in order on a fresh `HostMux` -/
def HostMux.build (sets : List (List α × H)) : HostMux H α :=
  sets.foldl (fun m e => m.set e.1 e.2) HostMux.new

theorem lookup_filter_ne {β : Type} (l : List (List α × β)) (host x : List α) (h : x ≠ host) :
    (l.filter (fun e => e.1 ≠ host)).lookup x = l.lookup x := by
  induction l with
  | nil => rfl
  | cons e l ih =>
    obtain ⟨k, v⟩ := e
    by_cases hk : k = host
    · have : (x == k) = false := by simpa [hk] using h
      rw [List.filter_cons_of_neg (by simpa using hk), ih, List.lookup_cons, this]
    · rw [List.filter_cons_of_pos (by simpa using hk)]
      simp only [List.lookup_cons, ih]

theorem HostMux.lookup_set (hm : HostMux H α) (host : List α) (s : H) (x : List α) :
    (hm.set host s).m.lookup x = if x = host then some s else hm.m.lookup x := by
  simp only [HostMux.set]
  by_cases h : x = host
  · subst h; simp [List.lookup_cons]
  · have hx : (x == host) = false := by simpa using h
    simp only [List.lookup_cons, hx, if_neg h]
    exact lookup_filter_ne _ _ _ h

/-- **host dispatch serves exactly `m[host]`**: the service most recently bound to the very
    host string of the request (byte-for-byte, case-sensitive), `Miss` if there is none -/
theorem hostmux (sets : List (List α × H)) (c : Ctx α) :
    (HostMux.build sets).serve c = (sets.reverse.find? (fun e => e.1 = c.host)).map (·.2) := by
  unfold HostMux.build HostMux.serve
  suffices h : ∀ (acc : HostMux H α),
      (sets.foldl (fun m e => m.set e.1 e.2) acc).m.lookup c.host =
        match sets.reverse.find? (fun e => e.1 = c.host) with
        | some e => some e.2
        | none => acc.m.lookup c.host by
    rw [h]
    cases sets.reverse.find? (fun e => e.1 = c.host) <;> simp [HostMux.new]
  induction sets with
  | nil => intro acc; simp
  | cons e rest ih =>
    intro acc
    simp only [List.foldl_cons, List.reverse_cons, List.find?_append]
    rw [ih, HostMux.lookup_set]
    cases hf : rest.reverse.find? (fun e => e.1 = c.host) with
    | some x => simp
    | none =>
      by_cases he : e.1 = c.host
      · simp [List.find?_cons, he]
      · have : ¬ c.host = e.1 := fun h => he h.symm
        simp [List.find?_cons, he, this]

/-- only a service bound to the request's host runs -/
theorem hostmux_only_bound (sets : List (List α × H)) (c : Ctx α) (h : H)
    (hs : (HostMux.build sets).serve c = some h) : (c.host, h) ∈ sets := by
  rw [hostmux] at hs
  simp only [Option.map_eq_some_iff] at hs
  obtain ⟨e, he, rfl⟩ := hs
  have h1 := List.mem_of_find?_eq_some he
  have h2 := List.find?_some he
  simp only [decide_eq_true_eq] at h2
  rw [← h2]
  exact List.mem_reverse.mp h1

theorem hostmux_miss (sets : List (List α × H)) (c : Ctx α) (hn : ∀ e ∈ sets, e.1 ≠ c.host) :
    (HostMux.build sets).serve c = none := by
  rw [hostmux]
  have : sets.reverse.find? (fun e => e.1 = c.host) = none := by
    rw [List.find?_eq_none]
    intro x hx
    simpa using hn x (List.mem_reverse.mp hx)
  rw [this]; rfl

example :
    let hm := (HostMux.build [("a.com".toList, 1), ("A.com".toList, 2), ("a.com".toList, 3)] : HostMux Nat Char)
    hm.serve { path := [], host := "a.com".toList } = some 3 ∧
    hm.serve { path := [], host := "A.com".toList } = some 2 ∧
    hm.serve { path := [], host := "A.COM".toList } = none ∧
    hm.serve { path := [], host := "a.com:80".toList } = none := by
  decide

end HostMux

end PubModel.C20
