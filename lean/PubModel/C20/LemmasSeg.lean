/-
C20 — the segment trie of package `trie`: its observable content is the exact
look-up `get`; `add` changes `get` at one key, `find` returns the longest
prefix of the route with a non-empty `get`.  No tree induction is needed: all
functions recurse on the route.
-/
import PubModel.C20.Model

namespace PubModel.C20

set_option linter.unusedSectionVars false
set_option linter.unusedVariables false

variable {σ α : Type} [DecidableEq σ] [DecidableEq α]

/-- exact look-up: the value stored at the node reached by `route` (`[]` if none) -/
def SNode.get : List σ → SNode σ α → List α
  | [], n => n.value
  | c :: r, .mk _ subs =>
    match subs.lookup c with
    | none => []
    | some k => SNode.get r k

@[simp] theorem get_empty (route : List σ) : SNode.get route (SNode.empty : SNode σ α) = [] := by
  cases route <;> simp [SNode.get, SNode.empty, SNode.value]

theorem get_cons (c : σ) (r : List σ) (v : List α) (subs : List (σ × SNode σ α)) :
    SNode.get (c :: r) (SNode.mk v subs) = SNode.get r ((subs.lookup c).getD SNode.empty) := by
  simp only [SNode.get]
  cases subs.lookup c <;> simp

theorem addSubs_spec (f : SNode σ α → SNode σ α × Bool) (cur : σ) :
    ∀ (subs : List (σ × SNode σ α)),
    (∀ c, (addSubs f cur subs).1.lookup c =
      if c = cur then some (f ((subs.lookup cur).getD SNode.empty)).1 else subs.lookup c) ∧
    (addSubs f cur subs).2 = (f ((subs.lookup cur).getD SNode.empty)).2 := by
  intro subs
  induction subs with
  | nil =>
    refine ⟨fun c => ?_, by simp [addSubs]⟩
    simp only [addSubs, List.lookup_cons, List.lookup_nil, Option.getD_none]
    by_cases h : c = cur
    · simp [h]
    · have : (c == cur) = false := by simpa using h
      simp [this, h]
  | cons e tl ih =>
    obtain ⟨k, n⟩ := e
    by_cases hk : k = cur
    · subst hk
      refine ⟨fun c => ?_, by simp [addSubs]⟩
      simp only [addSubs, if_true, List.lookup_cons]
      by_cases h : c = k
      · simp [h]
      · have : (c == k) = false := by simpa using h
        simp [this, h]
    · have hck : (cur == k) = false := by simpa using (fun h => hk h.symm)
      refine ⟨fun c => ?_, by simp [addSubs, hk, ih.2, List.lookup_cons, hck]⟩
      simp only [addSubs, if_neg hk, List.lookup_cons, hck]
      by_cases h : c = k
      · subst h
        have : ¬ c = cur := hk
        simp [this]
      · have : (c == k) = false := by simpa using h
        simp only [this]
        exact ih.1 c

/-- `add` sets `get` at `route` when it was empty there, and reports whether it did -/
theorem add_get (value : List α) : ∀ (route : List σ) (n : SNode σ α),
    (∀ route', SNode.get route' (SNode.add route n value).1 =
      if route' = route ∧ SNode.get route n = [] then value else SNode.get route' n) ∧
    ((SNode.add route n value).2 = true ↔ SNode.get route n = []) := by
  intro route
  induction route with
  | nil =>
    intro n
    obtain ⟨v, subs⟩ := n
    by_cases hv : v = []
    · subst hv
      refine ⟨fun route' => ?_, by simp [SNode.add, SNode.get, SNode.value]⟩
      cases route' with
      | nil => simp [SNode.add, SNode.get, SNode.value]
      | cons c r => simp [SNode.add, SNode.get]
    · refine ⟨fun route' => ?_, by simp [SNode.add, SNode.get, SNode.value, hv]⟩
      simp [SNode.add, hv, SNode.get, SNode.value]
  | cons cur rest ih =>
    intro n
    obtain ⟨v, subs⟩ := n
    obtain ⟨s1, s2⟩ := addSubs_spec (fun n => SNode.add rest n value) cur subs
    refine ⟨fun route' => ?_, ?_⟩
    · cases route' with
      | nil => simp [SNode.add, SNode.get, SNode.value]
      | cons c r =>
        simp only [SNode.add]
        rw [get_cons, get_cons, get_cons, s1 c]
        by_cases hc : c = cur
        · subst hc
          simp only [if_true, Option.getD_some]
          rw [(ih _).1 r]
          simp
        · simp only [if_neg hc]
          have : ¬ (c :: r = cur :: rest ∧ SNode.get rest ((subs.lookup cur).getD SNode.empty) = []) := by
            intro h; exact hc (List.cons.inj h.1).1
          rw [if_neg this]
    · simp only [SNode.add]
      rw [s2, (ih _).2, get_cons]

/-- `find` returns the longest prefix of the route whose `get` is non-empty -/
theorem find_get : ∀ (route : List σ) (n : SNode σ α),
    (SNode.find route n).2 = SNode.get (route.take (SNode.find route n).1) n ∧
    (SNode.find route n).1 ≤ route.length ∧
    ((SNode.find route n).2 = [] → (SNode.find route n).1 = 0) ∧
    (∀ j, (SNode.find route n).1 < j → j ≤ route.length → SNode.get (route.take j) n = []) := by
  intro route
  induction route with
  | nil =>
    intro n
    refine ⟨by simp [SNode.find, SNode.get], by simp [SNode.find], by simp [SNode.find], ?_⟩
    intro j h1 h2
    simp [SNode.find] at h1 h2
    omega
  | cons cur rest ih =>
    intro n
    obtain ⟨v, subs⟩ := n
    cases hl : subs.lookup cur with
    | none =>
      have hf : SNode.find (cur :: rest) (SNode.mk v subs) = (0, v) := by
        simp only [SNode.find, hl]
        by_cases hv : v = [] <;> simp [hv]
      rw [hf]
      refine ⟨by simp [SNode.get, SNode.value], by simp, by simp, ?_⟩
      intro j h1 h2
      cases j with
      | zero => omega
      | succ j' => simp [SNode.get, hl]
    | some next =>
      obtain ⟨i1, i2, i3, i4⟩ := ih next
      by_cases hr : (SNode.find rest next).2 = []
      · have hf : SNode.find (cur :: rest) (SNode.mk v subs) = (0, v) := by
          simp only [SNode.find, hl, hr]
          by_cases hv : v = [] <;> simp [hv]
        rw [hf]
        refine ⟨by simp [SNode.get, SNode.value], by simp, by simp, ?_⟩
        intro j h1 h2
        cases j with
        | zero => omega
        | succ j' =>
          simp only [List.take_succ_cons, SNode.get, hl]
          have h0 := i3 hr
          by_cases hj : j' = 0
          · subst hj
            rw [hr, h0] at i1
            simpa using i1.symm
          · apply i4 j' (by omega)
            simp at h2; omega
      · have hf : SNode.find (cur :: rest) (SNode.mk v subs) =
            ((SNode.find rest next).1 + 1, (SNode.find rest next).2) := by
          simp [SNode.find, hl, hr]
        rw [hf]
        refine ⟨?_, by simp; omega, fun h => absurd h hr, ?_⟩
        · simp only [List.take_succ_cons, SNode.get, hl]
          exact i1
        · intro j h1 h2
          cases j with
          | zero => omega
          | succ j' =>
            simp only [List.take_succ_cons, SNode.get, hl]
            apply i4 j' (by simp at h1; omega)
            simp at h2; omega

/-! ### brute-force reference -/

/-- scan the prefixes of `route` from the longest (`k` segments) down to the empty one for a
    non-empty table entry -/
def segScan (f : List σ → List α) (route : List σ) : Nat → Nat × List α
  | 0 => (0, f [])
  | k + 1 => if f (route.take (k + 1)) ≠ [] then (k + 1, f (route.take (k + 1))) else segScan f route k

theorem segScan_eq (f : List σ → List α) (route : List σ) (k0 : Nat) (hv : f (route.take k0) ≠ [] ∨ k0 = 0) :
    ∀ K, k0 ≤ K → (∀ j, k0 < j → j ≤ K → f (route.take j) = []) →
    segScan f route K = (k0, f (route.take k0)) := by
  intro K
  induction K with
  | zero =>
    intro h _
    have : k0 = 0 := by omega
    subst this
    simp [segScan]
  | succ K ih =>
    intro h hz
    by_cases hk : k0 = K + 1
    · subst hk
      rcases hv with hv | hv
      · simp [segScan, hv]
      · omega
    · have := hz (K + 1) (by omega) (by omega)
      simp only [segScan, this, ne_eq, not_true_eq_false, if_false]
      exact ih (by omega) (fun j h1 h2 => hz j h1 (by omega))

/-- `find` equals the brute-force scan of the `get` table -/
theorem find_eq_scan (route : List σ) (n : SNode σ α) :
    SNode.find route n = segScan (fun r => SNode.get r n) route route.length := by
  obtain ⟨h1, h2, h3, h4⟩ := find_get route n
  have hv : (fun r => SNode.get r n) (route.take (SNode.find route n).1) ≠ [] ∨ (SNode.find route n).1 = 0 := by
    by_cases h : (SNode.find route n).2 = []
    · exact Or.inr (h3 h)
    · left; show SNode.get (route.take (SNode.find route n).1) n ≠ []; rw [← h1]; exact h
  rw [segScan_eq (fun r => SNode.get r n) route (SNode.find route n).1 hv route.length h2 h4]
  simp only [← h1]

end PubModel.C20
