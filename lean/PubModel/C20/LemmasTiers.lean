/-
C20 — `runTiers`: every tier that is invoked passed its guard on the very
context it is handed.
-/
import PubModel.C20.Model

namespace PubModel.C20

set_option linter.unusedSectionVars false
set_option linter.unusedVariables false

variable {α : Type} [DecidableEq α]

theorem runTiers_trace : ∀ (l : List (TierEntry α)) (tr : List (Tier × Ctx α)) (c : Ctx α),
    ∀ e ∈ (runTiers l tr c).trace,
      e ∈ tr ∨ ∃ te ∈ l, te.tier = e.1 ∧ te.guard e.2 = true ∧ te.svc.isSome = true := by
  intro l
  induction l with
  | nil => intro tr c e he; exact Or.inl (by simpa [runTiers] using he)
  | cons t rest ih =>
    intro tr c e he
    simp only [runTiers] at he
    split at he
    · rename_i hg
      split at he
      · rcases ih tr c e he with h | ⟨te, h1, h2⟩
        · exact Or.inl h
        · exact Or.inr ⟨te, by simp [h1], h2⟩
      · rename_i f hf
        have hhere : (t.tier, c) = e → ∃ te ∈ t :: rest, te.tier = e.1 ∧ te.guard e.2 = true ∧ te.svc.isSome = true := by
          rintro rfl
          exact ⟨t, by simp, rfl, hg, by simp [hf]⟩
        split at he
        · simp only [List.mem_append, List.mem_singleton] at he
          rcases he with h | h
          · exact Or.inl h
          · exact Or.inr (hhere h.symm)
        · rcases ih _ _ e he with h | ⟨te, h1, h2⟩
          · simp only [List.mem_append, List.mem_singleton] at h
            rcases h with h | h
            · exact Or.inl h
            · exact Or.inr (hhere h.symm)
          · exact Or.inr ⟨te, by simp [h1], h2⟩
    · rcases ih tr c e he with h | ⟨te, h1, h2⟩
      · exact Or.inl h
      · exact Or.inr ⟨te, by simp [h1], h2⟩

/-- services that leave the context alone: the context at the end is the context at the start
    and every invoked tier was handed that same context -/
theorem runTiers_pure : ∀ (l : List (TierEntry α)) (tr : List (Tier × Ctx α)) (c : Ctx α),
    (∀ te ∈ l, ∀ f, te.svc = some f → ∀ c, (f c).2 = c) →
    ∀ e ∈ (runTiers l tr c).trace, e ∈ tr ∨ e.2 = c := by
  intro l
  induction l with
  | nil => intro tr c _ e he; exact Or.inl (by simpa [runTiers] using he)
  | cons t rest ih =>
    intro tr c hp e he
    have hpr : ∀ te ∈ rest, ∀ f, te.svc = some f → ∀ c, (f c).2 = c :=
      fun te hte => hp te (by simp [hte])
    simp only [runTiers] at he
    split at he
    · split at he
      · exact ih tr c hpr e he
      · rename_i f hf
        split at he
        · simp only [List.mem_append, List.mem_singleton] at he
          rcases he with h | h
          · exact Or.inl h
          · exact Or.inr (by rw [h])
        · rw [hp t (by simp) f hf c] at he
          rcases ih _ _ hpr e he with h | h
          · simp only [List.mem_append, List.mem_singleton] at h
            rcases h with h | h
            · exact Or.inl h
            · exact Or.inr (by rw [h])
          · exact Or.inr h
    · exact ih tr c hpr e he

/-! ### the part of `ServeInternal` before the gate -/

def preTier (e : Tier × Ctx α) : Prop := e.1 = .authServe ∨ e.1 = .authSetup ∨ e.1 = .resource

def PreOK (x : SSRun α ⊕ (List (Tier × Ctx α) × Ctx α)) : Prop :=
  match x with
  | .inl r => ∀ e ∈ r.trace, preTier e
  | .inr (tr, _) => ∀ e ∈ tr, preTier e

theorem internalPre_ok (s : ServiceSet α) (c : Ctx α) : PreOK (s.internalPre c) := by
  unfold ServiceSet.internalPre
  simp only
  cases s.auth with
  | none =>
    simp only
    cases s.resource with
    | none => simp [PreOK]
    | some f =>
      simp only
      split <;> simp [PreOK, preTier]
  | some a =>
    simp only
    have hres : ∀ (tr : List (Tier × Ctx α)) (c' : Ctx α), (∀ e ∈ tr, preTier e) →
        PreOK (match s.resource with
          | none => (Sum.inr (tr, c') : SSRun α ⊕ (List (Tier × Ctx α) × Ctx α))
          | some f =>
            if (f c').1 ≠ Resp.miss then Sum.inl ⟨tr ++ [(Tier.resource, c')], .ret (f c').1, (f c').2⟩
            else Sum.inr (tr ++ [(Tier.resource, c')], (f c').2)) := by
      intro tr c' htr
      cases s.resource with
      | none => exact htr
      | some f =>
        show PreOK (if (f c').1 ≠ Resp.miss then _ else _)
        split
        · intro e he
          simp only [List.mem_append, List.mem_singleton] at he
          rcases he with he | rfl
          · exact htr e he
          · simp [preTier]
        · intro e he
          simp only [List.mem_append, List.mem_singleton] at he
          rcases he with he | rfl
          · exact htr e he
          · simp [preTier]
    by_cases h1 : (a.serve c).1 ≠ Resp.miss
    · rw [if_pos h1]
      simp [PreOK, preTier]
    · rw [if_neg h1]
      cases hsu : (a.setup (a.serve c).2).1 with
      | some e => simp [PreOK, preTier]
      | none =>
        simp only
        apply hres
        simp [preTier]

end PubModel.C20
