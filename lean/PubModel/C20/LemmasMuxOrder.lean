/-
C20 — order independence of the mux: the route depends only on the two
look-up tables (never on the shape of the trie), and for Prefix/Exact
registrations with pairwise different keys the tables do not depend on the order.
-/
import PubModel.C20.LemmasMux
import PubModel.C20.LemmasOrder

namespace PubModel.C20

set_option linter.unusedSectionVars false
set_option linter.unusedVariables false

variable {H α : Type} [DecidableEq α]

theorem longestPrefix_congr {ps₁ ps₂ : List (List α)} (h : ∀ p, p ∈ ps₁ ↔ p ∈ ps₂) (q : List α) :
    longestPrefix ps₁ q = longestPrefix ps₂ q := by
  obtain ⟨a1, a2, a3⟩ := longestPrefix_spec ps₁ q
  obtain ⟨b1, b2, b3⟩ := longestPrefix_spec ps₂ q
  apply prefix_eq_of_length_le a1 b1
  · rcases a2 with a2 | a2
    · simp [a2]
    · exact b3 _ ((h _).mp a2) a1
  · rcases b2 with b2 | b2
    · simp [b2]
    · exact a3 _ ((h _).mpr b2) b1

/-- the reference route reads its two tables only through `lookup` -/
theorem SMux.route_congr {m₁ m₂ : SMux H α} (he : ∀ s, m₁.exacts.lookup s = m₂.exacts.lookup s)
    (hp : ∀ s, m₁.prefixes.lookup s = m₂.prefixes.lookup s) (path : List α) :
    m₁.route path = m₂.route path := by
  simp only [SMux.route, he]
  cases m₂.exacts.lookup path with
  | some f => rfl
  | none =>
    simp only
    rw [hp]
    congr 1
    apply longestPrefix_congr
    intro p
    rw [← lookup_isSome_iff, ← lookup_isSome_iff, hp]

def MuxOp.isDir : MuxOp H α → Bool
  | .dir _ _ => true
  | _ => false

def MuxOp.key : MuxOp H α → Bool × List α
  | .pfx s _ => (true, s)
  | .exact s _ => (false, s)
  | .dir s _ => (true, s)

def MuxOp.handler : MuxOp H α → H
  | .pfx _ f => f
  | .exact _ f => f
  | .dir _ f => f

/-- first Exact registration of `s` -/
def exactTable (ops : List (MuxOp H α)) (s : List α) : Option H :=
  (ops.find? (fun op => op.key = (false, s))).map (·.handler)

/-- first Prefix registration of the non-empty string `s` -/
def prefixTable (ops : List (MuxOp H α)) (s : List α) : Option H :=
  (ops.find? (fun op => op.key = (true, s) ∧ s ≠ [])).map (·.handler)

theorem SMux.apply_lookup (sl : α) (m : SMux H α) (op : MuxOp H α) (hd : op.isDir = false) (s : List α) :
    ((m.apply sl op).1.exacts.lookup s =
      if (m.exacts.lookup s).isSome then m.exacts.lookup s
      else if op.key = (false, s) then some op.handler else none) ∧
    ((m.apply sl op).1.prefixes.lookup s =
      if (m.prefixes.lookup s).isSome then m.prefixes.lookup s
      else if op.key = (true, s) ∧ s ≠ [] then some op.handler else none) := by
  cases op with
  | dir s' f => simp [MuxOp.isDir] at hd
  | pfx s' f =>
    simp only [SMux.apply, SMux.addPrefix, MuxOp.key, MuxOp.handler, Prod.mk.injEq, Bool.true_eq_false,
      false_and, if_false, true_and]
    constructor
    · split <;> (cases m.exacts.lookup s <;> simp)
    · split
      · rename_i hdup
        cases h : m.prefixes.lookup s with
        | some x => simp
        | none =>
          have : ¬ (s' = s ∧ s ≠ []) := by
            rintro ⟨rfl, h2⟩
            rcases hdup with h0 | h0
            · exact h2 h0
            · rw [h] at h0; simp at h0
          simp [this]
      · rename_i hnew
        simp only [not_or] at hnew
        by_cases he : s = s'
        · subst he
          rw [lookup_cons_self]
          have : m.prefixes.lookup s = none := by
            cases h : m.prefixes.lookup s with
            | none => rfl
            | some x => rw [h] at hnew; simp at hnew
          simp [this, hnew.1]
        · rw [lookup_cons_ne _ _ _ _ he]
          have : ¬ (s' = s ∧ s ≠ []) := fun h => he h.1.symm
          cases h : m.prefixes.lookup s <;> simp [this]
  | exact s' f =>
    simp only [SMux.apply, SMux.addExact, MuxOp.key, MuxOp.handler, Prod.mk.injEq, Bool.false_eq_true,
      false_and, if_false, true_and]
    constructor
    · cases hl : m.exacts.lookup s' with
      | some x =>
        simp only
        cases h : m.exacts.lookup s with
        | some y => simp
        | none =>
          have : ¬ s' = s := by rintro rfl; rw [hl] at h; simp at h
          simp [this]
      | none =>
        simp only
        by_cases he : s = s'
        · subst he
          rw [lookup_cons_self, hl]
          simp
        · rw [lookup_cons_ne _ _ _ _ he]
          have : ¬ s' = s := fun h => he h.symm
          cases h : m.exacts.lookup s <;> simp [this]
    · cases hl : m.exacts.lookup s' <;> (cases m.prefixes.lookup s <;> simp)

theorem SMux.foldl_lookup (sl : α) (s : List α) : ∀ (ops : List (MuxOp H α)) (acc : SMux H α × List RegRes),
    (∀ op ∈ ops, op.isDir = false) →
    let fin := (ops.foldl (fun acc op => let r := acc.1.apply sl op; (r.1, acc.2 ++ [r.2])) acc).1
    (fin.exacts.lookup s =
      if (acc.1.exacts.lookup s).isSome then acc.1.exacts.lookup s else exactTable ops s) ∧
    (fin.prefixes.lookup s =
      if (acc.1.prefixes.lookup s).isSome then acc.1.prefixes.lookup s else prefixTable ops s) := by
  intro ops
  induction ops with
  | nil =>
    intro acc _
    simp only [List.foldl_nil, exactTable, prefixTable, List.find?_nil, Option.map_none]
    constructor
    · cases acc.1.exacts.lookup s <;> simp
    · cases acc.1.prefixes.lookup s <;> simp
  | cons op ops ih =>
    intro acc hd
    simp only [List.foldl_cons]
    obtain ⟨i1, i2⟩ := ih ((acc.1.apply sl op).1, acc.2 ++ [(acc.1.apply sl op).2])
      (fun o ho => hd o (by simp [ho]))
    obtain ⟨a1, a2⟩ := SMux.apply_lookup sl acc.1 op (hd op (by simp)) s
    simp only at i1 i2
    constructor
    · rw [i1, a1]
      cases h : acc.1.exacts.lookup s with
      | some x => simp
      | none =>
        simp only [Option.isSome_none, Bool.false_eq_true, if_false]
        by_cases hm : op.key = (false, s)
        · simp [hm, exactTable, List.find?_cons]
        · simp only [hm, if_false, Option.isSome_none, Bool.false_eq_true, exactTable, List.find?_cons]
          simp [hm]
    · rw [i2, a2]
      cases h : acc.1.prefixes.lookup s with
      | some x => simp
      | none =>
        simp only [Option.isSome_none, Bool.false_eq_true, if_false]
        by_cases hm : op.key = (true, s) ∧ s ≠ []
        · simp [hm, prefixTable, List.find?_cons]
        · simp only [hm, if_false, Option.isSome_none, Bool.false_eq_true, prefixTable, List.find?_cons]
          simp [hm]

theorem SMux.build_lookup (sl : α) (ops : List (MuxOp H α)) (hd : ∀ op ∈ ops, op.isDir = false) (s : List α) :
    (SMux.build sl ops).1.exacts.lookup s = exactTable ops s ∧
    (SMux.build sl ops).1.prefixes.lookup s = prefixTable ops s := by
  have := SMux.foldl_lookup sl s ops (({} : SMux H α), []) hd
  simpa [SMux.build] using this

theorem muxTables_perm {ops₁ ops₂ : List (MuxOp H α)} (hp : ops₁.Perm ops₂)
    (hn : (ops₁.map MuxOp.key).Nodup) (s : List α) :
    exactTable ops₁ s = exactTable ops₂ s ∧ prefixTable ops₁ s = prefixTable ops₂ s := by
  unfold exactTable prefixTable
  constructor
  · rw [find?_perm_unique _ hp]
    intro a ha b hb h1 h2
    simp only [decide_eq_true_eq] at h1 h2
    exact eq_of_nodup_map _ _ hn a ha b hb (h1.trans h2.symm)
  · rw [find?_perm_unique _ hp]
    intro a ha b hb h1 h2
    simp only [ne_eq, decide_not, Bool.and_eq_true, decide_eq_true_eq] at h1 h2
    exact eq_of_nodup_map _ _ hn a ha b hb (h1.1.trans h2.1.symm)

end PubModel.C20
