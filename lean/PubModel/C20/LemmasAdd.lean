/-
C20 — `trieNode.add` preserves well-formedness and adds exactly one hit prefix
(the four split cases), and reports `true` exactly when the prefix is new.
-/
import PubModel.C20.Lemmas

namespace PubModel.C20

set_option linter.unusedSectionVars false
set_option linter.unusedVariables false

variable {α : Type} [DecidableEq α]

/-- the invariant of a child list under a node spelled `P` -/
structure KidsOK (P : List α) (ks : List (Node α)) : Prop where
  ne : ∀ k ∈ ks, k.branch ≠ []
  wf : ∀ k ∈ ks, WF (P ++ k.branch) k
  nd : (ks.map (fun k => k.branch.head?)).Nodup

/-- what `add` does to a node spelled `Q` -/
def AddOK (Q : List α) (k : Node α) : Prop :=
  ∀ s, WF Q (k.add s).1 ∧ (k.add s).1.branch = k.branch ∧ (k.add s).1.hit = k.hit ∧
    (∀ h, h ∈ hitsKids (k.add s).1.kids ↔ h ∈ hitsKids k.kids ∨ (s ≠ [] ∧ h = Q ++ s)) ∧
    ((k.add s).2 = true ↔ s ≠ [] ∧ Q ++ s ∉ hitsKids k.kids)

@[simp] theorem branch_setHit (t : Node α) : t.setHit.branch = t.branch := by cases t; rfl
@[simp] theorem hit_setHit (t : Node α) : t.setHit.hit = true := by cases t; rfl
@[simp] theorem pfx_setHit (t : Node α) : t.setHit.pfx = t.pfx := by cases t; rfl
@[simp] theorem kids_setHit (t : Node α) : t.setHit.kids = t.kids := by cases t; rfl
@[simp] theorem branch_setBranch (b : List α) (t : Node α) : (t.setBranch b).branch = b := by cases t; rfl
@[simp] theorem branch_leaf (b p : List α) : (Node.leaf b p).branch = b := rfl
@[simp] theorem branch_mk (b p : List α) (h : Bool) (ks : List (Node α)) : (Node.mk b p h ks).branch = b := rfl
@[simp] theorem kids_mk (b p : List α) (h : Bool) (ks : List (Node α)) : (Node.mk b p h ks).kids = ks := rfl
@[simp] theorem hit_mk (b p : List α) (h : Bool) (ks : List (Node α)) : (Node.mk b p h ks).hit = h := rfl
@[simp] theorem pfx_mk (b p : List α) (h : Bool) (ks : List (Node α)) : (Node.mk b p h ks).pfx = p := rfl

theorem hitsAll_setHit (t : Node α) : t.setHit.hitsAll = [t.pfx] ++ hitsKids t.kids := by
  cases t; simp [Node.setHit, Node.hitsAll]

theorem hitsAll_leaf (b p : List α) : (Node.leaf b p).hitsAll = [p] := by
  simp [Node.leaf, Node.hitsAll, hitsKids]

/-- members of `rest` are keyed differently from `c`: none of their hits equals `P ++ c :: s'` -/
theorem not_mem_hitsKids_of_head_ne {P : List α} {c : α} {s' : List α} {ks : List (Node α)}
    (h1 : ∀ k ∈ ks, k.branch ≠ []) (h2 : ∀ k ∈ ks, WF (P ++ k.branch) k)
    (h3 : ∀ k ∈ ks, k.branch.head? ≠ some c) : P ++ c :: s' ∉ hitsKids ks :=
  fun hh => no_match_kids h1 h2 h3 _ hh List.prefix_rfl

theorem addKids_spec {P : List α} {c : α} {s' : List α} :
    ∀ (ks : List (Node α)), KidsOK P ks → (∀ k ∈ ks, AddOK (P ++ k.branch) k) →
    KidsOK P (addKids ks P c (c :: s')).1 ∧
    (∀ h, h ∈ hitsKids (addKids ks P c (c :: s')).1 ↔ h ∈ hitsKids ks ∨ h = P ++ c :: s') ∧
    ((addKids ks P c (c :: s')).2 = true ↔ P ++ c :: s' ∉ hitsKids ks) ∧
    ((addKids ks P c (c :: s')).1.map (fun k => k.branch.head?) =
      if some c ∈ ks.map (fun k => k.branch.head?) then ks.map (fun k => k.branch.head?)
      else ks.map (fun k => k.branch.head?) ++ [some c]) := by
  intro ks
  induction ks with
  | nil =>
    intro _ _
    refine ⟨⟨?_, ?_, ?_⟩, ?_, ?_, ?_⟩
    · simp [addKids]
    · simp only [addKids, List.mem_singleton, forall_eq, branch_leaf]
      exact WF.leaf _ _
    · simp [addKids]
    · simp [addKids, hitsKids, hitsAll_leaf]
    · simp [addKids, hitsKids]
    · simp [addKids]
  | cons k rest ih =>
    intro hok hadd
    have h1k := hok.ne k (by simp)
    have h2k := hok.wf k (by simp)
    have h1r : ∀ k' ∈ rest, k'.branch ≠ [] := fun k' hk' => hok.ne k' (by simp [hk'])
    have h2r : ∀ k' ∈ rest, WF (P ++ k'.branch) k' := fun k' hk' => hok.wf k' (by simp [hk'])
    have h3 := hok.nd
    simp only [List.map_cons, List.nodup_cons] at h3
    have hpk := h2k.pfx_eq
    rw [addKids]
    split
    · -- the child keyed by c
      rename_i hc
      have hcr : ∀ k' ∈ rest, k'.branch.head? ≠ some c := by
        intro k' hk' heq
        apply h3.1
        rw [hc, ← heq]
        exact List.mem_map.mpr ⟨k', hk', rfl⟩
      have hrest : P ++ c :: s' ∉ hitsKids rest := not_mem_hitsKids_of_head_ne h1r h2r hcr
      have hmemc : some c ∈ k.branch.head? :: rest.map (fun k => k.branch.head?) := by simp [hc]
      have hin := commonLen_le_left k.branch (c :: s')
      have him := commonLen_le_right k.branch (c :: s')
      have hpos := commonLen_pos k.branch (c :: s') c hc rfl
      simp only []
      split
      · -- the branch is s itself
        rename_i hA
        have hpre : k.branch <+: c :: s' := (commonLen_eq_left_iff _ _).mp hA.2
        have hbs : k.branch = c :: s' := hpre.eq_of_length (by omega)
        split
        · rename_i hhit
          refine ⟨hok, ?_, ?_, ?_⟩
          · intro h
            constructor
            · exact Or.inl
            · rintro (hh | hh)
              · exact hh
              · subst hh
                simp [hitsKids, hitsAll_eq, hhit, hpk, hbs]
          · simp [hitsKids, hitsAll_eq, hhit, hpk, hbs]
          · simp [hmemc]
        · rename_i hhit
          refine ⟨⟨?_, ?_, ?_⟩, ?_, ?_, ?_⟩
          · intro k' hk'
            simp only [List.mem_cons] at hk'
            rcases hk' with rfl | hk'
            · simpa using h1k
            · exact h1r k' hk'
          · intro k' hk'
            simp only [List.mem_cons] at hk'
            rcases hk' with rfl | hk'
            · simpa using h2k.setHit
            · exact h2r k' hk'
          · simpa using hok.nd
          · intro h
            simp only [hitsKids, hitsAll_eq, hit_setHit, pfx_setHit, kids_setHit, hhit, List.mem_append, hpk, hbs]
            simp
            grind
          · simp only [true_iff, hitsKids, hitsAll_eq, hhit, List.mem_append, not_or]
            refine ⟨⟨by simp, ?_⟩, hrest⟩
            intro hh
            have := h2k.hits_longer hh
            rw [hbs] at this
            simp at this
          · simp [hmemc]
      · rename_i hA
        split
        · -- s is a proper prefix of the branch
          rename_i hB
          have hlt : (c :: s').length < k.branch.length := by
            rcases Nat.lt_or_ge (c :: s').length k.branch.length with h | h
            · exact h
            · exact absurd ⟨hB, by omega⟩ hA
          have hpre : (c :: s') <+: k.branch := (commonLen_eq_right_iff _ _).mp hB
          have hsplit : (c :: s') ++ k.branch.drop (c :: s').length = k.branch :=
            List.prefix_iff_eq_append.mp hpre
          refine ⟨⟨?_, ?_, ?_⟩, ?_, ?_, ?_⟩
          · intro k' hk'
            simp only [List.mem_cons] at hk'
            rcases hk' with rfl | hk'
            · simp
            · exact h1r k' hk'
          · intro k' hk'
            simp only [List.mem_cons] at hk'
            rcases hk' with rfl | hk'
            · simp only [branch_mk]
              refine WF.mk ?_ ?_ ?_
              · intro k'' hk''
                simp only [List.mem_singleton] at hk''
                subst hk''
                simp only [branch_setBranch]
                intro h0
                have := congrArg List.length h0
                simp at this
                simp at hlt
                omega
              · intro k'' hk''
                simp only [List.mem_singleton] at hk''
                subst hk''
                simp only [branch_setBranch]
                rw [List.append_assoc, hsplit]
                exact h2k.setBranch _
              · simp
            · exact h2r k' hk'
          · simp only [List.map_cons, branch_mk]
            simpa [hc] using hok.nd
          · intro h
            simp only [hitsKids, Node.hitsAll, if_true, hitsAll_setBranch, List.mem_append,
              List.append_nil]
            simp
            grind
          · simp only [true_iff, hitsKids, List.mem_append, not_or]
            refine ⟨?_, hrest⟩
            intro hh
            have := (h2k.hitsAll_prefix _ hh).length_le
            simp at this hlt
            omega
          · simp [hc]
        · rename_i hB
          split
          · -- the branch is a proper prefix of s: descend
            rename_i hC
            have hlt : k.branch.length < (c :: s').length := by
              rcases Nat.lt_or_ge k.branch.length (c :: s').length with h | h
              · exact h
              · exact absurd (by omega) hB
            have hpre : k.branch <+: c :: s' := (commonLen_eq_left_iff _ _).mp hC
            have hsplit : k.branch ++ (c :: s').drop k.branch.length = c :: s' :=
              List.prefix_iff_eq_append.mp hpre
            have hne : (c :: s').drop k.branch.length ≠ [] := by
              intro h0
              have := congrArg List.length h0
              simp at this
              simp at hlt
              omega
            obtain ⟨a1, a2, a3, a4, a5⟩ := hadd k (by simp) ((c :: s').drop k.branch.length)
            rw [List.append_assoc, hsplit] at a4 a5
            refine ⟨⟨?_, ?_, ?_⟩, ?_, ?_, ?_⟩
            · intro k' hk'
              simp only [List.mem_cons] at hk'
              rcases hk' with rfl | hk'
              · rw [a2]; exact h1k
              · exact h1r k' hk'
            · intro k' hk'
              simp only [List.mem_cons] at hk'
              rcases hk' with rfl | hk'
              · rw [a2]; exact a1
              · exact h2r k' hk'
            · simp only [List.map_cons, a2]
              exact hok.nd
            · intro h
              simp only [hitsKids, hitsAll_eq, List.mem_append, a3, a1.pfx_eq, hpk, a4]
              simp [hne]
              constructor
              · rintro ((hh | hh | hh) | hh)
                · exact Or.inl (Or.inl (Or.inl hh))
                · exact Or.inl (Or.inl (Or.inr hh))
                · exact Or.inr hh
                · exact Or.inl (Or.inr hh)
              · rintro (((hh | hh) | hh) | hh)
                · exact Or.inl (Or.inl hh)
                · exact Or.inl (Or.inr (Or.inl hh))
                · exact Or.inr hh
                · exact Or.inl (Or.inr (Or.inr hh))
            · rw [a5]
              simp only [hne, ne_eq, not_false_eq_true, true_and, hitsKids, hitsAll_eq,
                List.mem_append, not_or]
              constructor
              · intro hh
                refine ⟨⟨?_, hh⟩, hrest⟩
                split
                · simp only [List.mem_singleton, hpk]
                  intro h0
                  have := congrArg List.length h0
                  simp at this
                  simp at hlt
                  omega
                · simp
              · intro hh
                exact hh.1.2
            · simp [hmemc, a2]
          · -- split: the two strings diverge inside the branch
            rename_i hC
            have hi_n : commonLen k.branch (c :: s') < k.branch.length := by omega
            have hi_m : commonLen k.branch (c :: s') < (c :: s').length := by omega
            generalize hi : commonLen k.branch (c :: s') = i at *
            have htake : k.branch.take i = (c :: s').take i := by
              rw [← hi]; exact take_commonLen _ _
            have hdiv : (k.branch.drop i).head? ≠ ((c :: s').drop i).head? := by
              rw [← hi]; exact commonLen_diverge _ _ (by omega) (by omega)
            have hd1 : k.branch.drop i ≠ [] := by
              intro h0
              have := congrArg List.length h0
              simp at this
              omega
            have hd2 : (c :: s').drop i ≠ [] := by
              intro h0
              have := congrArg List.length h0
              simp at this
              simp at hi_m
              omega
            refine ⟨⟨?_, ?_, ?_⟩, ?_, ?_, ?_⟩
            · intro k' hk'
              simp only [List.mem_cons] at hk'
              rcases hk' with rfl | hk'
              · simp only [branch_mk]
                intro h0
                have := congrArg List.length h0
                simp at this
                omega
              · exact h1r k' hk'
            · intro k' hk'
              simp only [List.mem_cons] at hk'
              rcases hk' with rfl | hk'
              · simp only [branch_mk]
                refine WF.mk ?_ ?_ ?_
                · intro k'' hk''
                  simp only [List.mem_cons, List.mem_singleton, List.not_mem_nil, or_false] at hk''
                  rcases hk'' with rfl | rfl
                  · simpa using hd1
                  · simpa using hd2
                · intro k'' hk''
                  simp only [List.mem_cons, List.mem_singleton, List.not_mem_nil, or_false] at hk''
                  rcases hk'' with rfl | rfl
                  · simp only [branch_setBranch]
                    rw [List.append_assoc, ← htake, List.take_append_drop]
                    exact h2k.setBranch _
                  · simp only [branch_leaf]
                    rw [List.append_assoc, List.take_append_drop]
                    exact WF.leaf _ _
                · simp only [List.map_cons, List.map_nil, branch_setBranch, branch_leaf,
                    List.nodup_cons, List.mem_singleton, List.not_mem_nil, not_false_eq_true,
                    List.nodup_nil, and_true]
                  exact hdiv
              · exact h2r k' hk'
            · simp only [List.map_cons, branch_mk]
              have : ((c :: s').take i).head? = k.branch.head? := by
                rw [List.head?_take, hc]
                have : i ≠ 0 := by omega
                simp [this]
              rw [this]
              exact hok.nd
            · intro h
              simp only [hitsKids, Node.hitsAll, hitsAll_setBranch, hitsAll_leaf, List.mem_append,
                List.append_nil]
              simp
              grind
            · simp only [true_iff, hitsKids, List.mem_append, not_or]
              refine ⟨?_, hrest⟩
              intro hh
              have := h2k.hitsAll_prefix _ hh
              rw [List.prefix_append_right_inj] at this
              have := (commonLen_eq_left_iff _ _).mpr this
              omega
            · have hne0 : i ≠ 0 := by omega
              simp [hc, List.head?_take, hne0]
    · -- another key: go on in the rest of the map
      rename_i hc
      have hokr : KidsOK P rest := ⟨h1r, h2r, h3.2⟩
      obtain ⟨b1, b2, b3, b4⟩ := ih hokr (fun k' hk' => hadd k' (by simp [hk']))
      have hknot : P ++ c :: s' ∉ k.hitsAll := fun hh =>
        no_match_of_head_ne h1k hc (h2k.hitsAll_prefix _ hh) List.prefix_rfl
      simp only []
      refine ⟨⟨?_, ?_, ?_⟩, ?_, ?_, ?_⟩
      · intro k' hk'
        simp only [List.mem_cons] at hk'
        rcases hk' with rfl | hk'
        · exact h1k
        · exact b1.ne k' hk'
      · intro k' hk'
        simp only [List.mem_cons] at hk'
        rcases hk' with rfl | hk'
        · exact h2k
        · exact b1.wf k' hk'
      · simp only [List.map_cons, List.nodup_cons]
        refine ⟨?_, b1.nd⟩
        rw [b4]
        split
        · exact h3.1
        · simp only [List.mem_append, List.mem_singleton, not_or]
          exact ⟨h3.1, hc⟩
      · intro h
        simp only [hitsKids, List.mem_append, b2]
        constructor
        · rintro (hh | hh | hh)
          · exact Or.inl (Or.inl hh)
          · exact Or.inl (Or.inr hh)
          · exact Or.inr hh
        · rintro ((hh | hh) | hh)
          · exact Or.inl hh
          · exact Or.inr (Or.inl hh)
          · exact Or.inr (Or.inr hh)
      · rw [b3]
        simp only [hitsKids, List.mem_append, not_or]
        exact ⟨fun hh => ⟨hknot, hh⟩, fun hh => hh.2⟩
      · simp only [List.map_cons, b4, List.mem_cons]
        have : ¬ (some c = k.branch.head?) := fun h0 => hc h0.symm
        simp only [this, false_or]
        split <;> simp

/-- `add` on a well-formed node -/
theorem add_spec {P : List α} {t : Node α} (hw : WF P t) : AddOK P t := by
  induction hw with
  | mk h1 h2 h3 ih =>
    rename_i P br h kids
    intro s
    cases s with
    | nil =>
      simp only [Node.add]
      exact ⟨WF.mk h1 h2 h3, by simp, by simp, by simp, by simp⟩
    | cons c s' =>
      simp only [Node.add]
      obtain ⟨b1, b2, b3, _⟩ := addKids_spec (c := c) (s' := s') kids ⟨h1, h2, h3⟩ ih
      refine ⟨WF.mk b1.ne b1.wf b1.nd, rfl, rfl, ?_, ?_⟩
      · intro h'
        simp only [kids_mk, b2]
        simp
      · simp only [kids_mk, b3]
        simp

end PubModel.C20
