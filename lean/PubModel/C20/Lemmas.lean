/-
C20 — helper lemmas for the radix trie (aries/trie.go): the well-formedness
invariant, the set of hit prefixes, `find` returns the longest hit prefix of
the query, `add` preserves the invariant and adds exactly one hit prefix.
-/
import PubModel.C20.Model

namespace PubModel.C20

set_option linter.unusedSectionVars false
set_option linter.unusedVariables false

variable {α : Type} [DecidableEq α]

/-! ### commonLen -/

theorem commonLen_le_left : ∀ (a b : List α), commonLen a b ≤ a.length
  | [], _ => by simp [commonLen]
  | _ :: _, [] => by simp [commonLen]
  | x :: xs, y :: ys => by
    simp only [commonLen]
    split
    · have := commonLen_le_left xs ys; simp; omega
    · simp

theorem commonLen_le_right : ∀ (a b : List α), commonLen a b ≤ b.length
  | [], _ => by simp [commonLen]
  | _ :: _, [] => by simp [commonLen]
  | x :: xs, y :: ys => by
    simp only [commonLen]
    split
    · have := commonLen_le_right xs ys; simp; omega
    · simp

theorem take_commonLen : ∀ (a b : List α), a.take (commonLen a b) = b.take (commonLen a b)
  | [], _ => by simp [commonLen]
  | _ :: _, [] => by simp [commonLen]
  | x :: xs, y :: ys => by
    simp only [commonLen]
    split
    · rename_i h; subst h; simp [take_commonLen xs ys]
    · simp

theorem commonLen_eq_left_iff (a b : List α) : commonLen a b = a.length ↔ a <+: b := by
  constructor
  · intro h
    have := take_commonLen a b
    rw [h, List.take_length] at this
    rw [this]; exact List.take_prefix _ _
  · intro h
    induction a generalizing b with
    | nil => simp [commonLen]
    | cons x xs ih =>
      cases b with
      | nil => simp at h
      | cons y ys =>
        rw [List.cons_prefix_cons] at h
        simp [commonLen, h.1, ih ys h.2]

theorem commonLen_eq_right_iff (a b : List α) : commonLen a b = b.length ↔ b <+: a := by
  constructor
  · intro h
    have := take_commonLen a b
    rw [h, List.take_length] at this
    rw [← this]; exact List.take_prefix _ _
  · intro h
    induction b generalizing a with
    | nil => cases a <;> simp [commonLen]
    | cons y ys ih =>
      cases a with
      | nil => simp at h
      | cons x xs =>
        rw [List.cons_prefix_cons] at h
        simp [commonLen, h.1, ih xs h.2]

/-- the letters after the common part differ (when both strings go on) -/
theorem commonLen_diverge : ∀ (a b : List α), commonLen a b < a.length → commonLen a b < b.length →
    (a.drop (commonLen a b)).head? ≠ (b.drop (commonLen a b)).head?
  | [], _ => by simp [commonLen]
  | _ :: _, [] => by simp [commonLen]
  | x :: xs, y :: ys => by
    simp only [commonLen]
    split
    · intro h1 h2
      simp only [List.length_cons, Nat.add_lt_add_iff_right] at h1 h2
      simpa using commonLen_diverge xs ys h1 h2
    · rename_i hne
      intro _ _
      simpa using hne

theorem commonLen_pos (a b : List α) (c : α) (ha : a.head? = some c) (hb : b.head? = some c) :
    0 < commonLen a b := by
  cases a with
  | nil => simp at ha
  | cons x xs =>
    cases b with
    | nil => simp at hb
    | cons y ys =>
      simp at ha hb
      simp [commonLen, ha, hb]

/-! ### hit prefixes -/

mutual
/-- prefixes of the hit nodes of a subtree, the node itself included -/
def Node.hitsAll : Node α → List (List α)
  | .mk _ p h kids => (if h then [p] else []) ++ hitsKids kids
def hitsKids : List (Node α) → List (List α)
  | [] => []
  | k :: rest => k.hitsAll ++ hitsKids rest
end

/-- the registered prefixes: hit nodes strictly below `t` -/
def Node.hits (t : Node α) : List (List α) := hitsKids t.kids

theorem mem_hitsKids {ks : List (Node α)} {h : List α} :
    h ∈ hitsKids ks ↔ ∃ k ∈ ks, h ∈ k.hitsAll := by
  induction ks with
  | nil => simp [hitsKids]
  | cons k rest ih => simp [hitsKids, ih]

theorem hitsAll_eq (t : Node α) : t.hitsAll = (if t.hit then [t.pfx] else []) ++ hitsKids t.kids := by
  cases t; rfl

@[simp] theorem hitsAll_setBranch (b : List α) (t : Node α) : (t.setBranch b).hitsAll = t.hitsAll := by
  cases t; simp [Node.setBranch, Node.hitsAll]

/-! ### well-formedness -/

/-- `WF P t`: `t` is the node reached by spelling `P`; every child is keyed by a
    distinct first letter, has a non-empty branch and the prefix `P ++ branch`. -/
inductive WF : List α → Node α → Prop where
  | mk {P br : List α} {h : Bool} {kids : List (Node α)} :
      (∀ k ∈ kids, k.branch ≠ []) →
      (∀ k ∈ kids, WF (P ++ k.branch) k) →
      (kids.map (fun k => k.branch.head?)).Nodup →
      WF P (.mk br P h kids)

theorem WF.pfx_eq {P : List α} {t : Node α} (h : WF P t) : t.pfx = P := by
  cases h; rfl

theorem WF.setBranch {P : List α} {t : Node α} (h : WF P t) (b : List α) : WF P (t.setBranch b) := by
  cases h with
  | mk h1 h2 h3 => exact WF.mk h1 h2 h3

theorem WF.setHit {P : List α} {t : Node α} (h : WF P t) : WF P t.setHit := by
  cases h with
  | mk h1 h2 h3 => exact WF.mk h1 h2 h3

theorem WF.root : WF ([] : List α) Node.root :=
  WF.mk (by simp) (by simp) (by simp)

theorem WF.leaf (b p : List α) : WF p (Node.leaf b p) :=
  WF.mk (by simp) (by simp) (by simp)

/-- every hit below a node extends the node's prefix -/
theorem WF.hitsAll_prefix {P : List α} {t : Node α} (hw : WF P t) :
    ∀ h ∈ t.hitsAll, P <+: h := by
  induction hw with
  | mk h1 h2 h3 ih =>
    intro h hh
    simp only [Node.hitsAll, List.mem_append] at hh
    rcases hh with hh | hh
    · split at hh
      · simp at hh; subst hh; exact List.prefix_rfl
      · simp at hh
    · obtain ⟨k, hk, hhk⟩ := mem_hitsKids.mp hh
      exact (List.prefix_append _ _).trans (ih k hk h hhk)

/-- every hit strictly below a node extends the prefix of one of its children -/
theorem WF.hits_child {P : List α} {t : Node α} (hw : WF P t) {h : List α} (hh : h ∈ hitsKids t.kids) :
    ∃ k ∈ t.kids, (P ++ k.branch) <+: h ∧ k.branch ≠ [] := by
  cases hw with
  | mk h1 h2 h3 =>
    obtain ⟨k, hk, hhk⟩ := mem_hitsKids.mp hh
    exact ⟨k, hk, (h2 k hk).hitsAll_prefix h hhk, h1 k hk⟩

theorem WF.hits_longer {P : List α} {t : Node α} (hw : WF P t) {h : List α} (hh : h ∈ hitsKids t.kids) :
    P.length < h.length := by
  obtain ⟨k, _, hp, hne⟩ := hw.hits_child hh
  have := hp.length_le
  have : 0 < k.branch.length := List.length_pos_iff.mpr hne
  simp at *; omega

/-- a string that extends `P ++ b` with `b` starting with a letter other than `c` is no
    prefix of `P ++ c :: s` -/
theorem no_match_of_head_ne {P b h s : List α} {c : α} (hb : b ≠ []) (hc : b.head? ≠ some c)
    (hp : (P ++ b) <+: h) : ¬ h <+: P ++ c :: s := by
  intro hq
  have := hp.trans hq
  rw [List.prefix_append_right_inj] at this
  cases b with
  | nil => exact hb rfl
  | cons x xs =>
    rw [List.cons_prefix_cons] at this
    simp at hc
    exact hc this.1

/-! ### find -/

/-- `Best H q res r`: `r` is the longest member of `H` that is a prefix of `q`, or `res`
    when no member of `H` is a prefix of `q` -/
def Best (H : List (List α)) (q res r : List α) : Prop :=
  (r ∈ H ∧ r <+: q ∧ ∀ h ∈ H, h <+: q → h.length ≤ r.length) ∨ (r = res ∧ ∀ h ∈ H, ¬ h <+: q)

/-- children whose key is not `c` contribute no prefix of `P ++ c :: s` -/
theorem no_match_kids {P : List α} {c : α} {s : List α} {ks : List (Node α)}
    (h1 : ∀ k ∈ ks, k.branch ≠ []) (h2 : ∀ k ∈ ks, WF (P ++ k.branch) k)
    (h3 : ∀ k ∈ ks, k.branch.head? ≠ some c) :
    ∀ h ∈ hitsKids ks, ¬ h <+: P ++ c :: s := by
  intro h hh
  obtain ⟨k, hk, hhk⟩ := mem_hitsKids.mp hh
  exact no_match_of_head_ne (h1 k hk) (h3 k hk) ((h2 k hk).hitsAll_prefix h hhk)

theorem findKids_spec {P : List α} {c : α} {s' : List α} :
    ∀ (ks : List (Node α)),
    (∀ k ∈ ks, k.branch ≠ []) → (∀ k ∈ ks, WF (P ++ k.branch) k) →
    (ks.map (fun k => k.branch.head?)).Nodup →
    (∀ k ∈ ks, ∀ s res, Best (hitsKids k.kids) ((P ++ k.branch) ++ s) res (k.find s res).1) →
    ∀ res, Best (hitsKids ks) (P ++ c :: s') res (findKids ks c (c :: s') res).1 := by
  intro ks
  induction ks with
  | nil =>
    intro _ _ _ _ res
    right; simp [findKids, hitsKids]
  | cons k rest ih =>
    intro h1 h2 h3 h4 res
    have h1k := h1 k (by simp)
    have h2k := h2 k (by simp)
    have h1r : ∀ k' ∈ rest, k'.branch ≠ [] := fun k' hk' => h1 k' (by simp [hk'])
    have h2r : ∀ k' ∈ rest, WF (P ++ k'.branch) k' := fun k' hk' => h2 k' (by simp [hk'])
    simp only [List.map_cons, List.nodup_cons] at h3
    rw [findKids]
    split
    · -- the child keyed by c
      rename_i hc
      have hrest : ∀ h ∈ hitsKids rest, ¬ h <+: P ++ c :: s' := by
        apply no_match_kids h1r h2r
        intro k' hk' heq
        apply h3.1
        rw [hc, ← heq]
        exact List.mem_map.mpr ⟨k', hk', rfl⟩
      have hpk := h2k.pfx_eq
      split
      · rename_i hpre
        rw [List.isPrefixOf_iff_prefix] at hpre
        have hs : k.branch ++ (c :: s').drop k.branch.length = c :: s' :=
          List.prefix_iff_eq_append.mp hpre
        have := h4 k (by simp) ((c :: s').drop k.branch.length) (if k.hit then k.pfx else res)
        rw [List.append_assoc, hs] at this
        generalize (k.find ((c :: s').drop k.branch.length) (if k.hit then k.pfx else res)).1 = r at this
        have hkq : P ++ k.branch <+: P ++ c :: s' := (List.prefix_append_right_inj P).mpr hpre
        rcases this with ⟨hm, hq, hmax⟩ | ⟨hr, hnone⟩
        · left
          refine ⟨?_, hq, ?_⟩
          · simp only [hitsKids, hitsAll_eq, List.mem_append]; left; right; exact hm
          · intro h hh hhq
            simp only [hitsKids, hitsAll_eq, List.mem_append] at hh
            rcases hh with (hh | hh) | hh
            · have hlt := h2k.hits_longer hm
              split at hh
              · simp at hh; subst hh; rw [hpk]; omega
              · simp at hh
            · exact hmax h hh hhq
            · exact absurd hhq (hrest h hh)
        · by_cases hhit : k.hit = true
          · left
            simp only [hhit, if_true] at hr
            refine ⟨?_, ?_, ?_⟩
            · simp [hitsKids, hitsAll_eq, hhit, hr]
            · rw [hr, hpk]; exact hkq
            · intro h hh hhq
              simp only [hitsKids, hitsAll_eq, List.mem_append, hhit, if_true] at hh
              rcases hh with (hh | hh) | hh
              · simp at hh; subst hh; rw [hr]; exact Nat.le_refl _
              · exact absurd hhq (hnone h hh)
              · exact absurd hhq (hrest h hh)
          · right
            simp only [hhit] at hr
            refine ⟨by simpa using hr, ?_⟩
            intro h hh
            simp only [hitsKids, hitsAll_eq, List.mem_append, hhit] at hh
            rcases hh with (hh | hh) | hh
            · simp at hh
            · exact hnone h hh
            · exact hrest h hh
      · rename_i hpre
        rw [List.isPrefixOf_iff_prefix] at hpre
        right
        refine ⟨rfl, ?_⟩
        intro h hh
        simp only [hitsKids, List.mem_append] at hh
        rcases hh with hh | hh
        · intro hq
          have := (h2k.hitsAll_prefix h hh).trans hq
          rw [List.prefix_append_right_inj] at this
          exact hpre this
        · exact hrest h hh
    · rename_i hc
      have := ih h1r h2r h3.2 (fun k' hk' => h4 k' (by simp [hk'])) res
      have hk : ∀ h ∈ k.hitsAll, ¬ h <+: P ++ c :: s' := fun h hh =>
        no_match_of_head_ne h1k hc (h2k.hitsAll_prefix h hh)
      rcases this with ⟨hm, hq, hmax⟩ | ⟨hr, hnone⟩
      · left
        refine ⟨by simp [hitsKids, hm], hq, ?_⟩
        intro h hh hhq
        simp only [hitsKids, List.mem_append] at hh
        rcases hh with hh | hh
        · exact absurd hhq (hk h hh)
        · exact hmax h hh hhq
      · right
        refine ⟨hr, ?_⟩
        intro h hh
        simp only [hitsKids, List.mem_append] at hh
        rcases hh with hh | hh
        · exact hk h hh
        · exact hnone h hh

/-- `find` returns the longest hit prefix of the query below the node, or `res` -/
theorem find_spec {P : List α} {t : Node α} (hw : WF P t) :
    ∀ s res, Best (hitsKids t.kids) (P ++ s) res (t.find s res).1 := by
  induction hw with
  | mk h1 h2 h3 ih =>
    rename_i P br h kids
    intro s res
    cases s with
    | nil =>
      right
      refine ⟨by simp [Node.find], ?_⟩
      intro h' hh hq
      have := (WF.mk (br := br) (h := h) h1 h2 h3).hits_longer hh
      have := hq.length_le
      simp at *; omega
    | cons c s' =>
      simp only [Node.find, Node.kids]
      exact findKids_spec kids h1 h2 h3 ih res

end PubModel.C20
