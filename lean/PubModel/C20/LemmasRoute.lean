/-
C20 — `newRoute`: splitting a path on '/', the canonical path, the offsets
behind `Rel()`.  `segsOf` is the list of non-empty segments, `canon` the
canonical path "/s1/s2...", `relSpec` the remainder "s_i/s_{i+1}/...".
-/
import PubModel.C20.Model

namespace PubModel.C20

set_option linter.unusedSectionVars false
set_option linter.unusedVariables false

variable {α : Type} [DecidableEq α]

/-- the non-empty segments of a path -/
def segsOf (sl : α) (p : List α) : List (List α) := (splitOn sl p).filter (fun s => s ≠ [])

/-- the canonical path of a segment list: "/" ++ s for every segment -/
def canon (sl : α) : List (List α) → List α
  | [] => []
  | s :: rest => sl :: s ++ canon sl rest

/-- the remainder as `Rel()` shows it: segments joined by "/" -/
def relSpec (sl : α) : List (List α) → List α
  | [] => []
  | s :: rest => s ++ canon sl rest

/-- non-empty, slash-free segments -/
def Good (sl : α) (segs : List (List α)) : Prop := ∀ s ∈ segs, s ≠ [] ∧ sl ∉ s

theorem splitOn_no_sl (sl : α) : ∀ (p : List α), ∀ s ∈ splitOn sl p, sl ∉ s := by
  intro p
  induction p with
  | nil => simp [splitOn]
  | cons c cs ih =>
    intro s hs
    simp only [splitOn] at hs
    split at hs
    · simp only [List.mem_cons] at hs
      rcases hs with rfl | hs
      · simp
      · exact ih s hs
    · rename_i hc
      split at hs
      · rename_i h t heq
        simp only [List.mem_cons] at hs
        rcases hs with rfl | hs
        · have := ih h (by rw [heq]; simp)
          simp only [List.mem_cons, not_or]
          exact ⟨fun h0 => hc h0.symm, this⟩
        · exact ih s (by rw [heq]; simp [hs])
      · simp only [List.mem_singleton] at hs
        subst hs
        simp only [List.mem_singleton]
        exact fun h0 => hc h0.symm

theorem segsOf_good (sl : α) (p : List α) : Good sl (segsOf sl p) := by
  intro s hs
  simp only [segsOf, List.mem_filter, decide_eq_true_eq] at hs
  exact ⟨hs.2, splitOn_no_sl sl p s hs.1⟩

theorem Good.tail {sl : α} {s : List α} {rest : List (List α)} (h : Good sl (s :: rest)) : Good sl rest :=
  fun t ht => h t (by simp [ht])

theorem Good.drop {sl : α} {segs : List (List α)} (h : Good sl segs) (i : Nat) : Good sl (segs.drop i) :=
  fun t ht => h t (List.mem_of_mem_drop ht)

theorem Good.take {sl : α} {segs : List (List α)} (h : Good sl segs) (i : Nat) : Good sl (segs.take i) :=
  fun t ht => h t (List.mem_of_mem_take ht)

theorem canon_eq_nil {sl : α} {segs : List (List α)} : canon sl segs = [] ↔ segs = [] := by
  cases segs <;> simp [canon]

theorem relSpec_eq_nil {sl : α} {segs : List (List α)} (h : Good sl segs) : relSpec sl segs = [] ↔ segs = [] := by
  cases segs with
  | nil => simp [relSpec]
  | cons s rest =>
    have := (h s (by simp)).1
    simp [relSpec, this]

/-- a slash-free string followed by nothing or by a slash splits uniquely -/
theorem append_slash_inj {sl : α} : ∀ (s t X Y : List α), sl ∉ s → sl ∉ t →
    (X = [] ∨ X.head? = some sl) → (Y = [] ∨ Y.head? = some sl) → s ++ X = t ++ Y → s = t ∧ X = Y := by
  intro s
  induction s with
  | nil =>
    intro t X Y _ ht hX hY h
    cases t with
    | nil => exact ⟨rfl, by simpa using h⟩
    | cons d t' =>
      simp only [List.nil_append, List.cons_append] at h
      rcases hX with hX | hX
      · subst hX; simp at h
      · rw [h] at hX
        simp at hX
        subst hX
        simp at ht
  | cons c s' ih =>
    intro t X Y hs ht hX hY h
    cases t with
    | nil =>
      simp only [List.nil_append, List.cons_append] at h
      rcases hY with hY | hY
      · subst hY; simp at h
      · rw [← h] at hY
        simp at hY
        subst hY
        simp at hs
    | cons d t' =>
      simp only [List.cons_append, List.cons.injEq] at h
      simp only [List.mem_cons, not_or] at hs ht
      obtain ⟨h1, h2⟩ := ih t' X Y hs.2 ht.2 hX hY h.2
      exact ⟨by rw [h.1, h1], h2⟩

theorem canon_head (sl : α) (segs : List (List α)) : canon sl segs = [] ∨ (canon sl segs).head? = some sl := by
  cases segs <;> simp [canon]

/-- the canonical path determines the (good) segment list -/
theorem canon_inj {sl : α} : ∀ (a b : List (List α)), Good sl a → Good sl b → canon sl a = canon sl b → a = b := by
  intro a
  induction a with
  | nil =>
    intro b _ _ h
    cases b with
    | nil => rfl
    | cons t b' => simp [canon] at h
  | cons s a' ih =>
    intro b ha hb h
    cases b with
    | nil => simp [canon] at h
    | cons t b' =>
      simp only [canon, List.cons_append, List.cons.injEq, true_and] at h
      obtain ⟨h1, h2⟩ := append_slash_inj s t _ _ (ha s (by simp)).2 (hb t (by simp)).2
        (canon_head sl a') (canon_head sl b') h
      rw [h1, ih b' ha.tail hb.tail h2]

/-! ### the loop of `newRoute` -/

/-- the `(start, end)` offsets `newRoute` records, for a buffer that already holds `base` letters -/
def offsets : Nat → List (List α) → List (Nat × Nat)
  | _, [] => []
  | base, s :: rest => (base + 1, base + 1 + s.length) :: offsets (base + 1 + s.length) rest

theorem foldl_routeStep (sl : α) : ∀ (segs : List (List α)) (w : List α) (ps : List (Nat × Nat)),
    segs.foldl (routeStep sl) (w, ps) = (w ++ canon sl segs, ps ++ offsets w.length segs) := by
  intro segs
  induction segs with
  | nil => intro w ps; simp [canon, offsets]
  | cons s rest ih =>
    intro w ps
    simp only [List.foldl_cons, routeStep, ih, canon, offsets]
    simp [Nat.add_assoc, Nat.add_comm 1 s.length]

theorem newRoute_routes (sl : α) (p : List α) : (newRoute sl p).routes = segsOf sl p := by
  unfold newRoute
  split
  · rename_i h; subst h; simp [segsOf, splitOn]
  · rfl

theorem newRoute_p (sl : α) (p : List α) : (newRoute sl p).p = canon sl (segsOf sl p) := by
  unfold newRoute
  split
  · rename_i h; subst h; simp [segsOf, splitOn, canon]
  · simp only [foldl_routeStep]
    simp [segsOf]

theorem newRoute_parts (sl : α) (p : List α) : (newRoute sl p).parts = offsets 0 (segsOf sl p) := by
  unfold newRoute
  split
  · rename_i h; subst h; simp [segsOf, splitOn, offsets]
  · simp only [foldl_routeStep]
    simp [segsOf]

theorem newRoute_isDir (sl : α) (p : List α) : (newRoute sl p).isDir = decide (p.getLast? = some sl) := by
  unfold newRoute
  split
  · rename_i h; subst h; simp
  · rfl

theorem rel_offsets (sl : α) : ∀ (segs : List (List α)) (w : List α) (i : Nat),
    (match (offsets w.length segs)[i]? with
      | none => []
      | some (start, _) => (w ++ canon sl segs).drop start) = relSpec sl (segs.drop i) := by
  intro segs
  induction segs with
  | nil => intro w i; simp [offsets, relSpec]
  | cons s rest ih =>
    intro w i
    cases i with
    | zero =>
      simp only [offsets, List.getElem?_cons_zero, canon, List.drop_zero, relSpec]
      rw [show w ++ (sl :: s ++ canon sl rest) = (w ++ [sl]) ++ (s ++ canon sl rest) by simp]
      rw [List.drop_left' (by simp)]
    | succ i =>
      simp only [offsets, List.getElem?_cons_succ, canon, List.drop_succ_cons]
      have := ih (w ++ sl :: s) i
      simp only [List.length_append, List.length_cons] at this
      rw [show w.length + 1 + s.length = w.length + (s.length + 1) by omega]
      rw [← this]
      simp

/-- `Rel()` after `i` segments is the remaining segments joined by "/" -/
theorem newRoute_rel (sl : α) (p : List α) (i : Nat) :
    (newRoute sl p).rel i = relSpec sl ((segsOf sl p).drop i) := by
  unfold Route.rel
  rw [newRoute_parts, newRoute_p]
  have := rel_offsets sl (segsOf sl p) [] i
  simp only [List.length_nil, List.nil_append] at this
  cases h : (offsets 0 (segsOf sl p))[i]? with
  | none => rw [h] at this; exact this
  | some e => rw [h] at this; exact this

end PubModel.C20
