/-
C20 — the segment trie built from a list of registrations equals a first-wins
table; the reference router `SRouter` (an association list of segment lists and
a brute-force scan) and the refinement of it by the real `Router`.
-/
import PubModel.C20.LemmasSeg
import PubModel.C20.LemmasRoute

namespace PubModel.C20

set_option linter.unusedSectionVars false
set_option linter.unusedVariables false

/-! ### package trie: a sequence of `Add`s -/

section Seg
variable {σ α : Type} [DecidableEq σ] [DecidableEq α]

/-- run `Trie.Add` for every entry in order on a fresh trie, collecting the results -/
def buildSeg (as : List (List σ × List α)) : SNode σ α × List TrieAdd :=
  as.foldl (fun acc a => let r := trieAdd acc.1 a.1 a.2; (r.1, acc.2 ++ [r.2])) (SNode.empty, [])

/-- the reference table: the first entry for a route with a non-empty value wins -/
def segTable (as : List (List σ × List α)) (route : List σ) : List α :=
  match as.find? (fun a => a.1 = route ∧ a.2 ≠ []) with
  | some a => a.2
  | none => []

theorem trieAdd_get (t : SNode σ α) (route : List σ) (value : List α) (route' : List σ) :
    SNode.get route' (trieAdd t route value).1 =
      if route' = route ∧ SNode.get route t = [] then value else SNode.get route' t := by
  unfold trieAdd
  split
  · rename_i h; subst h
    by_cases h2 : route' = route ∧ SNode.get route t = []
    · rw [if_pos h2, h2.1, h2.2]
    · rw [if_neg h2]
  · exact (add_get value route t).1 route'

/-- `Trie.Add` panics on an empty value, reports a conflict when the route is taken -/
theorem trieAdd_result (t : SNode σ α) (route : List σ) (value : List α) :
    (trieAdd t route value).2 =
      if value = [] then .panicEmptyValue else if SNode.get route t = [] then .added else .conflict := by
  unfold trieAdd
  split
  · rfl
  · simp only
    by_cases h : SNode.get route t = []
    · simp [(add_get value route t).2.mpr h, h]
    · have : (SNode.add route t value).2 = false := by
        cases hb : (SNode.add route t value).2
        · rfl
        · exact absurd ((add_get value route t).2.mp hb) h
      simp [this, h]

theorem foldl_trieAdd_get (route : List σ) : ∀ (as : List (List σ × List α)) (acc : SNode σ α × List TrieAdd),
    SNode.get route (as.foldl (fun acc a => let r := trieAdd acc.1 a.1 a.2; (r.1, acc.2 ++ [r.2])) acc).1 =
      if SNode.get route acc.1 ≠ [] then SNode.get route acc.1 else segTable as route := by
  intro as
  induction as with
  | nil => intro acc; simp [segTable]
  | cons a as ih =>
    intro acc
    simp only [List.foldl_cons]
    rw [ih]
    simp only [trieAdd_get]
    by_cases hg : SNode.get route acc.1 = []
    · by_cases hr : route = a.1
      · subst hr
        by_cases hv : a.2 = []
        · simp [hg, hv, segTable, List.find?_cons]
        · simp [hg, hv, segTable, List.find?_cons]
      · have hr' : ¬ a.1 = route := fun h => hr h.symm
        simp [hg, hr, hr', segTable, List.find?_cons]
    · have : ¬ (route = a.1 ∧ SNode.get a.1 acc.1 = []) := by
        rintro ⟨rfl, h⟩; exact hg h
      simp [hg, this]

theorem buildSeg_get (as : List (List σ × List α)) (route : List σ) :
    SNode.get route (buildSeg as).1 = segTable as route := by
  unfold buildSeg
  rw [foldl_trieAdd_get]
  simp

end Seg

/-! ### the reference router -/

section Router
variable {H α : Type} [DecidableEq α]

/-- reference router: first-wins association list keyed by segment lists -/
structure SRouter (H α : Type) where
  index : Option H := none
  miss : Option H := none
  routes : List (List (List α) × RNode H α) := []

def SRouter.add (sl : α) (sr : SRouter H α) (p : List α) (n : RNode H α) : SRouter H α × AddRes :=
  let segs := segsOf sl p
  if segs = [] then (sr, .panicEmpty)
  else match sr.routes.lookup segs with
    | some _ => (sr, .dup)
    | none => ({ sr with routes := (segs, n) :: sr.routes }, .ok)

/-- brute force: the largest `k` with `1 ≤ k ≤ K` such that a route is registered for the
    first `k` remaining segments -/
def longestRoute (routes : List (List (List α) × RNode H α)) (rest : List (List α)) :
    Nat → Option (Nat × RNode H α)
  | 0 => none
  | k + 1 =>
    match routes.lookup (rest.take (k + 1)) with
    | some n => some (k + 1, n)
    | none => longestRoute routes rest k

def SRouter.notFound (sr : SRouter H α) (c : Ctx α) : Served H α :=
  match sr.miss with
  | none => .miss
  | some h => .dflt h c

/-- the decision of the property text: index on an empty remainder; else the longest
    registered segment-wise prefix of the remainder; a directory is served with the
    remainder, a file only when the match is complete and the path has no trailing slash;
    the node's method (if any) must equal the request's; everything else is not found -/
def SRouter.serve (sl : α) (sr : SRouter H α) (c : Ctx α) : Served H α :=
  let rest := (segsOf sl c.path).drop c.pos
  if rest = [] then
    match sr.index with
    | none => sr.notFound c
    | some h => .index h c
  else
    match longestRoute sr.routes rest rest.length with
    | none => sr.notFound c
    | some (k, n) =>
      let c' := c.shift k
      if n.isDir ∨ (k = rest.length ∧ c.path.getLast? ≠ some sl) then
        if n.method ≠ [] ∧ c.method ≠ n.method then .badMethod else .node n.s c'
      else sr.notFound c'

inductive RouterOp (H α : Type) where
  | add (p : List α) (n : RNode H α)

/-- run a registration sequence on a fresh router with the given index/default handlers -/
def Router.build (sl : α) (idx dflt : Option H) (ops : List (List α × RNode H α)) :
    Router H α × List AddRes :=
  ops.foldl (fun acc op => let r := acc.1.add sl op.1 op.2; (r.1, acc.2 ++ [r.2]))
    ({ index := idx, miss := dflt }, [])

def SRouter.build (sl : α) (idx dflt : Option H) (ops : List (List α × RNode H α)) :
    SRouter H α × List AddRes :=
  ops.foldl (fun acc op => let r := acc.1.add sl op.1 op.2; (r.1, acc.2 ++ [r.2]))
    ({ index := idx, miss := dflt }, [])

/-- the real router state represents the reference state -/
structure RouterRel (sl : α) (r : Router H α) (sr : SRouter H α) : Prop where
  idx : r.index = sr.index
  mis : r.miss = sr.miss
  tbl : ∀ route, SNode.get route r.trie =
    match sr.routes.lookup route with
    | some _ => canon sl route
    | none => []
  nodes : ∀ route n, sr.routes.lookup route = some n → r.nodes.lookup (canon sl route) = some n
  keys : ∀ p, (r.nodes.lookup p).isSome → ∃ route, (sr.routes.lookup route).isSome ∧ canon sl route = p
  good : ∀ route, (sr.routes.lookup route).isSome → Good sl route ∧ route ≠ []

theorem RouterRel.init (sl : α) (idx dflt : Option H) :
    RouterRel sl ({ index := idx, miss := dflt } : Router H α) ({ index := idx, miss := dflt } : SRouter H α) :=
  ⟨rfl, rfl, by simp, by simp, by simp, by simp⟩

theorem lookup_cons_self {κ β : Type} [BEq κ] [LawfulBEq κ] (k : κ) (v : β) (l : List (κ × β)) :
    List.lookup k ((k, v) :: l) = some v := by
  simp [List.lookup_cons]

theorem lookup_cons_ne {κ β : Type} [BEq κ] [LawfulBEq κ] (k : κ) (v : β) (l : List (κ × β)) (x : κ)
    (h : x ≠ k) : List.lookup x ((k, v) :: l) = List.lookup x l := by
  have : (x == k) = false := by simpa using h
  simp [List.lookup_cons, this]

theorem RouterRel.add {sl : α} {r : Router H α} {sr : SRouter H α} (h : RouterRel sl r sr)
    (p : List α) (n : RNode H α) :
    RouterRel sl (r.add sl p n).1 (sr.add sl p n).1 ∧ (r.add sl p n).2 = (sr.add sl p n).2 := by
  have hgood := segsOf_good sl p
  unfold Router.add SRouter.add
  simp only [newRoute_p, newRoute_routes, canon_eq_nil]
  by_cases hs : segsOf sl p = []
  · simp only [hs, if_true]
    first | exact ⟨h, rfl⟩ | exact ⟨h, trivial⟩
  · simp only [hs, if_false]
    cases hl : sr.routes.lookup (segsOf sl p) with
    | some n' =>
      rw [h.nodes _ _ hl]
      first | exact ⟨h, rfl⟩ | exact ⟨h, trivial⟩
    | none =>
      have hnone : r.nodes.lookup (canon sl (segsOf sl p)) = none := by
        cases hn : r.nodes.lookup (canon sl (segsOf sl p)) with
        | none => rfl
        | some n' =>
          obtain ⟨route, hr1, hr2⟩ := h.keys _ (by rw [hn]; rfl)
          have := canon_inj route _ (h.good route hr1).1 hgood hr2
          subst this
          simp [hl] at hr1
      rw [hnone]
      have hget : SNode.get (segsOf sl p) r.trie = [] := by rw [h.tbl, hl]
      have hval : canon sl (segsOf sl p) ≠ [] := fun h0 => hs (canon_eq_nil.mp h0)
      have hres := trieAdd_result r.trie (segsOf sl p) (canon sl (segsOf sl p))
      simp only [hval, if_false, hget, if_true] at hres
      simp only [hres]
      refine ⟨⟨h.idx, h.mis, ?_, ?_, ?_, ?_⟩, trivial⟩
      · intro route
        simp only [trieAdd_get, hget, and_true]
        by_cases he : route = segsOf sl p
        · subst he
          rw [lookup_cons_self]
          simp
        · rw [lookup_cons_ne _ _ _ _ he, if_neg he]
          exact h.tbl route
      · intro route n'
        by_cases he : route = segsOf sl p
        · subst he
          rw [lookup_cons_self, lookup_cons_self]
          exact id
        · rw [lookup_cons_ne _ _ _ _ he]
          intro h1
          have hne : canon sl route ≠ canon sl (segsOf sl p) := by
            intro hc
            exact he (canon_inj _ _ (h.good route (by rw [h1]; rfl)).1 hgood hc)
          rw [lookup_cons_ne _ _ _ _ hne]
          exact h.nodes route n' h1
      · intro q
        by_cases he : q = canon sl (segsOf sl p)
        · intro _
          exact ⟨segsOf sl p, by rw [lookup_cons_self]; rfl, he.symm⟩
        · rw [lookup_cons_ne _ _ _ _ he]
          intro hq
          obtain ⟨route, hr1, hr2⟩ := h.keys q hq
          refine ⟨route, ?_, hr2⟩
          by_cases he2 : route = segsOf sl p
          · subst he2; rw [lookup_cons_self]; rfl
          · rw [lookup_cons_ne _ _ _ _ he2]; exact hr1
      · intro route
        by_cases he : route = segsOf sl p
        · intro _
          rw [he]
          exact ⟨hgood, hs⟩
        · rw [lookup_cons_ne _ _ _ _ he]
          exact h.good route

theorem router_build_rel (sl : α) (idx dflt : Option H) (ops : List (List α × RNode H α)) :
    RouterRel sl (Router.build sl idx dflt ops).1 (SRouter.build sl idx dflt ops).1 ∧
    (Router.build sl idx dflt ops).2 = (SRouter.build sl idx dflt ops).2 := by
  unfold Router.build SRouter.build
  generalize hm : (({ index := idx, miss := dflt } : Router H α), ([] : List AddRes)) = a
  generalize hs : (({ index := idx, miss := dflt } : SRouter H α), ([] : List AddRes)) = b
  have h0 : RouterRel sl a.1 b.1 ∧ a.2 = b.2 := by subst hm hs; exact ⟨RouterRel.init sl idx dflt, rfl⟩
  clear hm hs
  induction ops generalizing a b with
  | nil => exact h0
  | cons op ops ih =>
    simp only [List.foldl_cons]
    apply ih
    obtain ⟨r1, r2⟩ := h0.1.add op.1 op.2
    exact ⟨r1, by simp [r2, h0.2]⟩

/-- the scan of the trie's table is the scan of the reference table -/
theorem scan_eq_longestRoute {sl : α} {r : Router H α} {sr : SRouter H α} (h : RouterRel sl r sr)
    (rest : List (List α)) : ∀ K,
    segScan (fun route => SNode.get route r.trie) rest K =
      match longestRoute sr.routes rest K with
      | none => (0, [])
      | some (k, _) => (k, canon sl (rest.take k)) := by
  intro K
  induction K with
  | zero =>
    simp only [segScan, longestRoute]
    rw [h.tbl]
    cases hl : sr.routes.lookup [] with
    | none => rfl
    | some n => exact absurd rfl (h.good [] (by rw [hl]; rfl)).2
  | succ K ih =>
    simp only [segScan, longestRoute]
    rw [h.tbl]
    cases hl : sr.routes.lookup (rest.take (K + 1)) with
    | none => simpa using ih
    | some n =>
      have : canon sl (rest.take (K + 1)) ≠ [] := fun h0 =>
        (h.good _ (by rw [hl]; rfl)).2 (canon_eq_nil.mp h0)
      simp [this]

theorem longestRoute_le (routes : List (List (List α) × RNode H α)) (rest : List (List α)) :
    ∀ K k n, longestRoute routes rest K = some (k, n) →
      1 ≤ k ∧ k ≤ K ∧ routes.lookup (rest.take k) = some n ∧
      ∀ j, k < j → j ≤ K → routes.lookup (rest.take j) = none := by
  intro K
  induction K with
  | zero => intro k n h; simp [longestRoute] at h
  | succ K ih =>
    intro k n h
    simp only [longestRoute] at h
    cases hl : routes.lookup (rest.take (K + 1)) with
    | some n' =>
      rw [hl] at h
      simp only [Option.some.injEq, Prod.mk.injEq] at h
      obtain ⟨rfl, rfl⟩ := h
      exact ⟨by omega, by omega, hl, fun j h1 h2 => by omega⟩
    | none =>
      rw [hl] at h
      obtain ⟨a, b, c, d⟩ := ih k n h
      refine ⟨a, by omega, c, ?_⟩
      intro j h1 h2
      by_cases hj : j = K + 1
      · subst hj; exact hl
      · exact d j h1 (by omega)

theorem longestRoute_none (routes : List (List (List α) × RNode H α)) (rest : List (List α)) :
    ∀ K, longestRoute routes rest K = none → ∀ j, 1 ≤ j → j ≤ K → routes.lookup (rest.take j) = none := by
  intro K
  induction K with
  | zero => intro _ j h1 h2; omega
  | succ K ih =>
    intro h j h1 h2
    simp only [longestRoute] at h
    cases hl : routes.lookup (rest.take (K + 1)) with
    | some n' => rw [hl] at h; simp at h
    | none =>
      rw [hl] at h
      by_cases hj : j = K + 1
      · subst hj; exact hl
      · exact ih h j h1 (by omega)

/-- **refinement of `Serve`**: on a context made by `NewContext` (and shifted any number of
    times) the real router decides as the reference router -/
theorem RouterRel.serve_eq {sl : α} {r : Router H α} {sr : SRouter H α} (h : RouterRel sl r sr)
    (c : Ctx α) (hc : c.route = newRoute sl c.path) : r.serve c = sr.serve sl c := by
  have hgood := segsOf_good sl c.path
  have hrel : ∀ i, (newRoute sl c.path).rel i = [] ↔ (segsOf sl c.path).drop i = [] := by
    intro i
    rw [newRoute_rel, relSpec_eq_nil (hgood.drop i)]
  unfold Router.serve SRouter.serve Router.notFound SRouter.notFound
  simp only [Ctx.rel, Ctx.relRoute, Route.relRoute, hc, newRoute_routes, hrel, h.idx, h.mis]
  by_cases hrest : (segsOf sl c.path).drop c.pos = []
  · simp only [hrest, if_true]
    rfl
  · simp only [hrest, if_false]
    generalize hR : (segsOf sl c.path).drop c.pos = rest at *
    unfold trieFindSeg
    rw [find_eq_scan, scan_eq_longestRoute h]
    cases hl : longestRoute sr.routes rest rest.length with
    | none => simp; rfl
    | some kn =>
      obtain ⟨k, n⟩ := kn
      obtain ⟨k1, k2, k3, _⟩ := longestRoute_le _ _ _ _ _ hl
      have hne : rest.take k ≠ [] := (h.good _ (by rw [k3]; rfl)).2
      have hcn : canon sl (rest.take k) ≠ [] := fun h0 => hne (canon_eq_nil.mp h0)
      simp only [hcn, if_false]
      rw [h.nodes _ _ k3]
      simp only [List.length_take, Nat.min_eq_left k2]
      have hsize : c.route.size = (segsOf sl c.path).length := by
        rw [hc, Route.size, newRoute_routes]
      have hlen : rest.length = (segsOf sl c.path).length - c.pos := by
        rw [← hR]; simp
      have hpos : (c.shift k).pos = c.pos + k := by
        simp only [Ctx.shift, hsize]
        split <;> omega
      have hroute : (c.shift k).route = c.route := rfl
      have hmeth : (c.shift k).method = c.method := rfl
      have hcompl : (newRoute sl c.path).rel (c.shift k).pos = [] ↔ k = rest.length := by
        rw [hrel, hpos, List.drop_eq_nil_iff]
        omega
      have hdir : (c.shift k).pathIsDir = true ↔ c.path.getLast? = some sl := by
        simp only [Ctx.pathIsDir, hroute, hc, newRoute_isDir, decide_eq_true_eq]
      simp only [hroute, hc, hcompl, hdir, hmeth]
      simp only [ne_eq]
      rfl

end Router

end PubModel.C20
