/-
C20 — order independence: a first-wins table with pairwise different keys does
not depend on the order of its entries; the reference router reads its table
only through `lookup`.
-/
import PubModel.C20.LemmasRouter

namespace PubModel.C20

set_option linter.unusedSectionVars false
set_option linter.unusedVariables false

theorem find?_perm_unique {β : Type} {l₁ l₂ : List β} (p : β → Bool) (hp : l₁.Perm l₂)
    (hu : ∀ a ∈ l₁, ∀ b ∈ l₁, p a = true → p b = true → a = b) : l₁.find? p = l₂.find? p := by
  cases h1 : l₁.find? p with
  | none =>
    rw [List.find?_eq_none] at h1
    symm
    rw [List.find?_eq_none]
    exact fun x hx => h1 x (hp.mem_iff.mpr hx)
  | some a =>
    have ha := List.mem_of_find?_eq_some h1
    have hpa := List.find?_some h1
    cases h2 : l₂.find? p with
    | none =>
      rw [List.find?_eq_none] at h2
      exact absurd hpa (h2 a (hp.mem_iff.mp ha))
    | some b =>
      have hb := hp.mem_iff.mpr (List.mem_of_find?_eq_some h2)
      rw [hu a ha b hb hpa (List.find?_some h2)]

theorem eq_of_nodup_map {β γ : Type} (f : β → γ) : ∀ (l : List β), (l.map f).Nodup →
    ∀ a ∈ l, ∀ b ∈ l, f a = f b → a = b := by
  intro l
  induction l with
  | nil => intro _ a ha; simp at ha
  | cons x xs ih =>
    intro hn a ha b hb hab
    simp only [List.map_cons, List.nodup_cons, List.mem_map, not_exists, not_and] at hn
    simp only [List.mem_cons] at ha hb
    rcases ha with rfl | ha <;> rcases hb with rfl | hb
    · rfl
    · exact absurd hab.symm (hn.1 b hb)
    · exact absurd hab (hn.1 a ha)
    · exact ih hn.2 a ha b hb hab

section Seg
variable {σ α : Type} [DecidableEq σ] [DecidableEq α]

/-- with pairwise different routes the reference table does not depend on the order -/
theorem segTable_perm {as₁ as₂ : List (List σ × List α)} (hp : as₁.Perm as₂)
    (hn : (as₁.map (·.1)).Nodup) (route : List σ) : segTable as₁ route = segTable as₂ route := by
  unfold segTable
  rw [find?_perm_unique _ hp]
  intro a ha b hb h1 h2
  simp only [ne_eq, decide_not, Bool.and_eq_true, decide_eq_true_eq, Bool.not_eq_eq_eq_not,
    Bool.not_true, decide_eq_false_iff_not] at h1 h2
  exact eq_of_nodup_map _ _ hn a ha b hb (h1.1.trans h2.1.symm)

end Seg

section Router
variable {H α : Type} [DecidableEq α]

/-- the reference table of a registration sequence: the first registration whose path has
    these (non-empty) segments -/
def routeTable (sl : α) (ops : List (List α × RNode H α)) (route : List (List α)) : Option (RNode H α) :=
  (ops.find? (fun op => segsOf sl op.1 = route ∧ route ≠ [])).map (·.2)

theorem SRouter.add_lookup (sl : α) (sr : SRouter H α) (p : List α) (n : RNode H α) (route : List (List α)) :
    (sr.add sl p n).1.routes.lookup route =
      if (sr.routes.lookup route).isSome then sr.routes.lookup route
      else if segsOf sl p = route ∧ route ≠ [] then some n else none := by
  unfold SRouter.add
  simp only
  by_cases hs : segsOf sl p = []
  · simp only [hs, if_true]
    cases h : sr.routes.lookup route with
    | some x => simp
    | none =>
      have : ¬ ([] = route ∧ route ≠ []) := by rintro ⟨rfl, h2⟩; exact h2 rfl
      simp [this]
  · simp only [hs, if_false]
    cases hl : sr.routes.lookup (segsOf sl p) with
    | some x =>
      simp only
      cases h : sr.routes.lookup route with
      | some y => simp
      | none =>
        have : ¬ (segsOf sl p = route ∧ route ≠ []) := by
          rintro ⟨rfl, _⟩; rw [hl] at h; simp at h
        simp [this]
    | none =>
      simp only
      by_cases he : route = segsOf sl p
      · subst he
        rw [lookup_cons_self, hl]
        simp [hs]
      · rw [lookup_cons_ne _ _ _ _ he]
        have : ¬ (segsOf sl p = route ∧ route ≠ []) := fun h => he h.1.symm
        cases h : sr.routes.lookup route <;> simp [this]

theorem SRouter.add_index (sl : α) (sr : SRouter H α) (p : List α) (n : RNode H α) :
    (sr.add sl p n).1.index = sr.index ∧ (sr.add sl p n).1.miss = sr.miss := by
  unfold SRouter.add
  simp only
  split
  · exact ⟨rfl, rfl⟩
  · split <;> exact ⟨rfl, rfl⟩

theorem SRouter.foldl_lookup (sl : α) (route : List (List α)) :
    ∀ (ops : List (List α × RNode H α)) (acc : SRouter H α × List AddRes),
    let fin := (ops.foldl (fun acc op => let r := acc.1.add sl op.1 op.2; (r.1, acc.2 ++ [r.2])) acc).1
    fin.routes.lookup route =
      (if (acc.1.routes.lookup route).isSome then acc.1.routes.lookup route else routeTable sl ops route) ∧
    fin.index = acc.1.index ∧ fin.miss = acc.1.miss := by
  intro ops
  induction ops with
  | nil => intro acc; cases h : acc.1.routes.lookup route <;> simp [routeTable, h]
  | cons op ops ih =>
    intro acc
    simp only [List.foldl_cons]
    obtain ⟨i1, i2, i3⟩ := ih ((acc.1.add sl op.1 op.2).1, acc.2 ++ [(acc.1.add sl op.1 op.2).2])
    simp only at i1 i2 i3
    refine ⟨?_, by rw [i2, (SRouter.add_index sl acc.1 op.1 op.2).1],
      by rw [i3, (SRouter.add_index sl acc.1 op.1 op.2).2]⟩
    rw [i1, SRouter.add_lookup]
    cases h : acc.1.routes.lookup route with
    | some x => simp
    | none =>
      simp only [Option.isSome_none, Bool.false_eq_true, if_false]
      by_cases hm : segsOf sl op.1 = route ∧ route ≠ []
      · simp [hm, routeTable, List.find?_cons]
      · have : decide (segsOf sl op.1 = route ∧ route ≠ []) = false := by simpa using hm
        simp only [hm, if_false, Option.isSome_none, Bool.false_eq_true, routeTable, List.find?_cons]
        simp

theorem SRouter.build_lookup (sl : α) (idx dflt : Option H) (ops : List (List α × RNode H α))
    (route : List (List α)) :
    (SRouter.build sl idx dflt ops).1.routes.lookup route = routeTable sl ops route ∧
    (SRouter.build sl idx dflt ops).1.index = idx ∧ (SRouter.build sl idx dflt ops).1.miss = dflt := by
  have := SRouter.foldl_lookup sl route ops (({ index := idx, miss := dflt } : SRouter H α), [])
  simpa [SRouter.build] using this

theorem longestRoute_congr {r₁ r₂ : List (List (List α) × RNode H α)}
    (h : ∀ k, r₁.lookup k = r₂.lookup k) (rest : List (List α)) :
    ∀ K, longestRoute r₁ rest K = longestRoute r₂ rest K := by
  intro K
  induction K with
  | zero => rfl
  | succ K ih => simp only [longestRoute, h, ih]

/-- the reference router reads its table only through `lookup` -/
theorem SRouter.serve_congr (sl : α) {s₁ s₂ : SRouter H α} (hi : s₁.index = s₂.index)
    (hm : s₁.miss = s₂.miss) (h : ∀ k, s₁.routes.lookup k = s₂.routes.lookup k) (c : Ctx α) :
    s₁.serve sl c = s₂.serve sl c := by
  unfold SRouter.serve SRouter.notFound
  simp only [hi, hm, longestRoute_congr h]

theorem routeTable_perm (sl : α) {ops₁ ops₂ : List (List α × RNode H α)} (hp : ops₁.Perm ops₂)
    (hn : (ops₁.map (fun op => segsOf sl op.1)).Nodup) (route : List (List α)) :
    routeTable sl ops₁ route = routeTable sl ops₂ route := by
  unfold routeTable
  rw [find?_perm_unique _ hp]
  intro a ha b hb h1 h2
  simp only [ne_eq, decide_not, Bool.and_eq_true, decide_eq_true_eq] at h1 h2
  exact eq_of_nodup_map _ _ hn a ha b hb (h1.1.trans h2.1.symm)

end Router

end PubModel.C20
