/-
C20 — from the radix trie lemmas to `Mux`: the brute-force reference
(`longestPrefix`, `SMux`: two maps and a scan, no trie), the invariant tying the
trie to the prefix map, and the refinement of the reference by the real `Mux`.
-/
import PubModel.C20.LemmasAdd

namespace PubModel.C20

set_option linter.unusedSectionVars false
set_option linter.unusedVariables false

variable {α : Type} [DecidableEq α]

/-! ### brute-force longest prefix -/

/-- scan all candidates, keep the longest one that is a prefix of `q`; `[]` if none -/
def pickLonger (q best p : List α) : List α :=
  if p.isPrefixOf q ∧ best.length < p.length then p else best

def longestPrefix (ps : List (List α)) (q : List α) : List α :=
  ps.foldl (pickLonger q) []

theorem longestPrefix_foldl (q : List α) : ∀ (ps : List (List α)) (b : List α), b <+: q →
    let r := ps.foldl (pickLonger q) b
    r <+: q ∧ (r = b ∨ r ∈ ps) ∧ b.length ≤ r.length ∧ ∀ p ∈ ps, p <+: q → p.length ≤ r.length := by
  intro ps
  induction ps with
  | nil => intro b hb; simp [hb]
  | cons p ps ih =>
    intro b hb
    simp only [List.foldl_cons]
    by_cases hp : p.isPrefixOf q = true ∧ b.length < p.length
    · rw [pickLonger, if_pos hp]
      have hpq : p <+: q := List.isPrefixOf_iff_prefix.mp hp.1
      obtain ⟨h1, h2, h3, h4⟩ := ih p hpq
      refine ⟨h1, ?_, by omega, ?_⟩
      · rcases h2 with h2 | h2
        · right; simp [h2]
        · right; simp [h2]
      · intro p' hp' hq
        simp only [List.mem_cons] at hp'
        rcases hp' with rfl | hp'
        · exact h3
        · exact h4 p' hp' hq
    · rw [pickLonger, if_neg hp]
      obtain ⟨h1, h2, h3, h4⟩ := ih b hb
      refine ⟨h1, ?_, h3, ?_⟩
      · rcases h2 with h2 | h2
        · left; exact h2
        · right; simp [h2]
      · intro p' hp' hq
        simp only [List.mem_cons] at hp'
        rcases hp' with rfl | hp'
        · have : ¬ b.length < p'.length := fun hlt => hp ⟨List.isPrefixOf_iff_prefix.mpr hq, hlt⟩
          omega
        · exact h4 p' hp' hq

theorem longestPrefix_spec (ps : List (List α)) (q : List α) :
    longestPrefix ps q <+: q ∧ (longestPrefix ps q = [] ∨ longestPrefix ps q ∈ ps) ∧
    ∀ p ∈ ps, p <+: q → p.length ≤ (longestPrefix ps q).length := by
  have := longestPrefix_foldl q ps [] (List.nil_prefix)
  exact ⟨this.1, this.2.1, this.2.2.2⟩

/-- two maximal prefixes of the same string coincide -/
theorem prefix_eq_of_length_le {a b q : List α} (ha : a <+: q) (hb : b <+: q)
    (h1 : a.length ≤ b.length) (h2 : b.length ≤ a.length) : a = b :=
  (List.prefix_of_prefix_length_le ha hb h1).eq_of_length (by omega)

/-- `Best` (what `find` computes) determines the brute-force answer -/
theorem best_eq_longestPrefix {H ps : List (List α)} {q r : List α}
    (hmem : ∀ h, h ∈ H ↔ h ∈ ps ∧ h ≠ []) (hb : Best H q [] r) : r = longestPrefix ps q := by
  obtain ⟨l1, l2, l3⟩ := longestPrefix_spec ps q
  rcases hb with ⟨hm, hq, hmax⟩ | ⟨hr, hnone⟩
  · apply prefix_eq_of_length_le hq l1
    · exact l3 r ((hmem r).mp hm).1 hq
    · rcases l2 with l2 | l2
      · simp [l2]
      · by_cases he : longestPrefix ps q = []
        · simp [he]
        · exact hmax _ ((hmem _).mpr ⟨l2, he⟩) l1
  · rw [hr]
    rcases l2 with l2 | l2
    · exact l2.symm
    · by_cases he : longestPrefix ps q = []
      · exact he.symm
      · exact absurd l1 (hnone _ ((hmem _).mpr ⟨l2, he⟩))

/-! ### building a trie from a list of prefixes -/

/-- insert the prefixes in list order into a fresh root -/
def buildTrie (ps : List (List α)) : Node α := ps.foldl (fun t p => (t.add p).1) Node.root

theorem foldl_add_ok : ∀ (ps : List (List α)) (t : Node α), WF [] t →
    WF [] (ps.foldl (fun t p => (t.add p).1) t) ∧
    ∀ h, h ∈ (ps.foldl (fun t p => (t.add p).1) t).hits ↔ h ∈ t.hits ∨ (h ∈ ps ∧ h ≠ []) := by
  intro ps
  induction ps with
  | nil => intro t ht; simp [ht]
  | cons p ps ih =>
    intro t ht
    obtain ⟨a1, _, _, a4, _⟩ := add_spec ht p
    obtain ⟨b1, b2⟩ := ih _ a1
    refine ⟨b1, ?_⟩
    intro h
    simp only [List.foldl_cons]
    rw [b2]
    simp only [Node.hits] at a4 ⊢
    rw [a4]
    simp only [List.nil_append, List.mem_cons]
    grind

theorem buildTrie_wf (ps : List (List α)) : WF [] (buildTrie ps) :=
  (foldl_add_ok ps _ WF.root).1

theorem buildTrie_hits (ps : List (List α)) (h : List α) :
    h ∈ (buildTrie ps).hits ↔ h ∈ ps ∧ h ≠ [] := by
  have := (foldl_add_ok ps _ WF.root).2 h
  simpa [Node.hits, Node.root, hitsKids, buildTrie] using this

/-! ### the reference mux: two maps and a scan -/

inductive MuxOp (H α : Type) where
  | pfx (s : List α) (f : H)
  | exact (s : List α) (f : H)
  | dir (s : List α) (f : H)

/-- reference implementation of `Mux` without a trie -/
structure SMux (H α : Type) where
  exacts : List (List α × H) := []
  prefixes : List (List α × H) := []

section
variable {H : Type}

def SMux.addPrefix (m : SMux H α) (s : List α) (f : H) : SMux H α × RegRes :=
  if s = [] ∨ (m.prefixes.lookup s).isSome then (m, .dupPrefix)
  else ({ m with prefixes := (s, f) :: m.prefixes }, .ok)

def SMux.addExact (m : SMux H α) (s : List α) (f : H) : SMux H α × RegRes :=
  match m.exacts.lookup s with
  | some _ => (m, .dupExact)
  | none => ({ m with exacts := (s, f) :: m.exacts }, .ok)

def SMux.addDir (sl : α) (m : SMux H α) (s : List α) (f : H) : SMux H α × RegRes :=
  if s = [sl] then
    let r := m.addExact s f
    if r.2 ≠ .ok then r else r.1.addPrefix s f
  else
    let s' := trimSlash sl s
    let r := m.addExact s' f
    if r.2 ≠ .ok then r else r.1.addPrefix (s' ++ [sl]) f

def SMux.apply (sl : α) (m : SMux H α) : MuxOp H α → SMux H α × RegRes
  | .pfx s f => m.addPrefix s f
  | .exact s f => m.addExact s f
  | .dir s f => m.addDir sl s f

/-- exact match, else the handler of the longest registered prefix, else miss -/
def SMux.route (m : SMux H α) (path : List α) : Option H :=
  match m.exacts.lookup path with
  | some f => some f
  | none => m.prefixes.lookup (longestPrefix (m.prefixes.map (·.1)) path)

def Mux.apply (sl : α) (m : Mux H α) : MuxOp H α → Mux H α × RegRes
  | .pfx s f => m.addPrefix s f
  | .exact s f => m.addExact s f
  | .dir s f => m.addDir sl s f

/-- run a registration sequence on a fresh `Mux`, collecting the results -/
def Mux.build (sl : α) (ops : List (MuxOp H α)) : Mux H α × List RegRes :=
  ops.foldl (fun acc op => let r := acc.1.apply sl op; (r.1, acc.2 ++ [r.2])) (Mux.new, [])

def SMux.build (sl : α) (ops : List (MuxOp H α)) : SMux H α × List RegRes :=
  ops.foldl (fun acc op => let r := acc.1.apply sl op; (r.1, acc.2 ++ [r.2])) ({}, [])

theorem lookup_isSome_iff {β : Type} (l : List (List α × β)) (s : List α) :
    (l.lookup s).isSome ↔ s ∈ l.map (·.1) := by
  induction l with
  | nil => simp
  | cons e l ih =>
    obtain ⟨k, v⟩ := e
    simp only [List.lookup_cons, List.map_cons, List.mem_cons]
    by_cases h : s = k
    · subst h; simp
    · have : (s == k) = false := by simpa using h
      simp [this, ih, h]

/-- the trie and the prefix map hold the same keys -/
structure MuxRel (m : Mux H α) (sm : SMux H α) : Prop where
  wf : WF [] m.t
  keys : ∀ s, s ∈ m.t.hits ↔ (m.prefixes.lookup s).isSome
  ex : m.exacts = sm.exacts
  pre : m.prefixes = sm.prefixes

theorem MuxRel.new : MuxRel (Mux.new : Mux H α) ({} : SMux H α) :=
  ⟨WF.root, by simp [Mux.new, Node.hits, Node.root, hitsKids], rfl, rfl⟩

theorem MuxRel.addPrefix {m : Mux H α} {sm : SMux H α} (h : MuxRel m sm) (s : List α) (f : H) :
    MuxRel (m.addPrefix s f).1 (sm.addPrefix s f).1 ∧ (m.addPrefix s f).2 = (sm.addPrefix s f).2 := by
  obtain ⟨a1, _, _, a4, a5⟩ := add_spec h.wf s
  simp only [List.nil_append] at a4 a5
  have hk := h.keys s
  simp only [Node.hits] at hk
  by_cases hok : (m.t.add s).2 = true
  · have hs := a5.mp hok
    have hnot : ¬ (s = [] ∨ (sm.prefixes.lookup s).isSome = true) := by
      rw [← h.pre, ← hk]; simp [hs.1, hs.2]
    simp only [Mux.addPrefix, hok, if_true, SMux.addPrefix, if_neg hnot, and_true]
    refine ⟨a1, ?_, h.ex, by simp [h.pre]⟩
    intro s'
    simp only [Node.hits, a4, List.lookup_cons]
    have hk' := h.keys s'
    simp only [Node.hits] at hk'
    by_cases he : s' = s
    · subst he; simp [hs.1]
    · have : (s' == s) = false := by simpa using he
      simp [this, he, hk']
  · have hs : s = [] ∨ s ∈ hitsKids m.t.kids := by
      by_cases h0 : s = []
      · exact Or.inl h0
      · right
        apply Classical.byContradiction
        intro hn
        exact hok (a5.mpr ⟨h0, hn⟩)
    have hyes : s = [] ∨ (sm.prefixes.lookup s).isSome = true := by
      rw [← h.pre, ← hk]; exact hs
    have hok' : (m.t.add s).2 = false := by simpa using hok
    simp only [Mux.addPrefix, hok', SMux.addPrefix, if_pos hyes, Bool.false_eq_true, if_false, and_true]
    refine ⟨a1, ?_, h.ex, h.pre⟩
    intro s'
    simp only [Node.hits, a4]
    have hk' := h.keys s'
    simp only [Node.hits] at hk'
    rw [← hk']
    constructor
    · rintro (hh | ⟨hne, rfl⟩)
      · exact hh
      · rcases hs with hs | hs
        · exact absurd hs hne
        · exact hs
    · exact Or.inl

theorem MuxRel.addExact {m : Mux H α} {sm : SMux H α} (h : MuxRel m sm) (s : List α) (f : H) :
    MuxRel (m.addExact s f).1 (sm.addExact s f).1 ∧ (m.addExact s f).2 = (sm.addExact s f).2 := by
  simp only [Mux.addExact, SMux.addExact, h.ex]
  cases hl : sm.exacts.lookup s with
  | some _ => exact ⟨h, rfl⟩
  | none => exact ⟨⟨h.wf, h.keys, by simp [h.ex], h.pre⟩, rfl⟩

theorem MuxRel.addDir (sl : α) {m : Mux H α} {sm : SMux H α} (h : MuxRel m sm) (s : List α) (f : H) :
    MuxRel (m.addDir sl s f).1 (sm.addDir sl s f).1 ∧ (m.addDir sl s f).2 = (sm.addDir sl s f).2 := by
  simp only [Mux.addDir, SMux.addDir]
  split
  · obtain ⟨e1, e2⟩ := h.addExact s f
    rw [e2]
    split
    · exact ⟨e1, e2⟩
    · exact e1.addPrefix s f
  · obtain ⟨e1, e2⟩ := h.addExact (trimSlash sl s) f
    rw [e2]
    split
    · exact ⟨e1, e2⟩
    · exact e1.addPrefix _ f

theorem MuxRel.apply (sl : α) {m : Mux H α} {sm : SMux H α} (h : MuxRel m sm) (op : MuxOp H α) :
    MuxRel (m.apply sl op).1 (sm.apply sl op).1 ∧ (m.apply sl op).2 = (sm.apply sl op).2 := by
  cases op with
  | pfx s f => exact h.addPrefix s f
  | exact s f => exact h.addExact s f
  | dir s f => exact h.addDir sl s f

theorem build_rel (sl : α) (ops : List (MuxOp H α)) :
    MuxRel (Mux.build sl ops).1 (SMux.build sl ops).1 ∧ (Mux.build sl ops).2 = (SMux.build sl ops).2 := by
  unfold Mux.build SMux.build
  generalize hm : (Mux.new, ([] : List RegRes)) = a
  generalize hs : (({} : SMux H α), ([] : List RegRes)) = b
  have h0 : MuxRel a.1 b.1 ∧ a.2 = b.2 := by subst hm hs; exact ⟨MuxRel.new, rfl⟩
  clear hm hs
  induction ops generalizing a b with
  | nil => exact h0
  | cons op ops ih =>
    simp only [List.foldl_cons]
    apply ih
    obtain ⟨r1, r2⟩ := h0.1.apply sl op
    exact ⟨r1, by simp [r2, h0.2]⟩

/-- on related states the real route (through the trie) is the reference route (a scan) -/
theorem MuxRel.route_eq {m : Mux H α} {sm : SMux H α} (h : MuxRel m sm) (path : List α) :
    m.route path = sm.route path := by
  simp only [Mux.route, SMux.route, h.ex]
  cases sm.exacts.lookup path with
  | some f => rfl
  | none =>
    simp only
    have hb := find_spec h.wf path []
    simp only [List.nil_append] at hb
    have hmem : ∀ s, s ∈ hitsKids m.t.kids ↔ s ∈ sm.prefixes.map (·.1) ∧ s ≠ [] := by
      intro s
      have hk := h.keys s
      simp only [Node.hits] at hk
      rw [hk, lookup_isSome_iff, h.pre]
      constructor
      · intro hs
        refine ⟨hs, ?_⟩
        rintro rfl
        have : [] ∈ hitsKids m.t.kids := by rw [hk, lookup_isSome_iff, h.pre]; exact hs
        have := h.wf.hits_longer this
        simp at this
      · exact fun hs => hs.1
    rw [trieFind, best_eq_longestPrefix hmem hb, h.pre]

end

end PubModel.C20
