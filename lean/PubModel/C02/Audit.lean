import PubModel.C02.Theorems
open PubModel.C02
#print axioms routed_to_selected
#print axioms rejected_reaches_nobody
#print axioms empty_and_ip_rejected
#print axioms home_forward_reach_no_endpoint
#print axioms newBox_ok
#print axioms remove_ok
#print axioms deliver_ok
#print axioms newBox_unique
#print axioms id_only_match_misdelivers
#print axioms wrong_key_refused
#print axioms session_ids_distinct
#print axioms gen_match_compares_key
#print axioms gen_policy_first
#print axioms gen_dial_uses_dest_name
#print axioms gen_suffixes_kept
