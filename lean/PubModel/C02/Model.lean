/-
C02 — a connection only reaches the endpoint its SNI selects.

Three pieces of logic, each as the code computes it:
  * the routing decision of `proxy.hostConn` + `Server.dial` (name policy, lookup,
    home / TCP forward / endpoint registry);
  * the side-connection mailboxes (`connMailOffice`): a dial-back is delivered only to
    the box with the same id *and* key;
  * the per-session ids (`sessionID.next`, `connections`): a locked counter, a map.
-/
import PubModel.Common.Hex

namespace PubModel.C02

/-! ### routing decision -/

structure Dest where
  name : String
  home : Bool := false
  forward : String := ""
  deriving DecidableEq, Repr

inductive Outcome
  | rejected                    -- no / IP-literal / policy-rejected server name: closed, nothing dialled
  | lookupFailed
  | noLookup                    -- server not accepting (no Lookup configured)
  | home                        -- handed to DialHome (or not found if none is configured)
  | forward (addr : String)     -- handed to DialForward / the default TCP dialer
  | endpoint (name : String) (e : Nat)
  | endpointMissing
  deriving DecidableEq, Repr

/-- `isRejectedDomain`; `isIP` is net.ParseIP(name) != nil, the suffix list is regenerated -/
def isRejected (suffixes : List String) (isIP : String → Bool) (name : String) : Bool :=
  name = "" || isIP name || suffixes.any (fun s => s.toList.isSuffixOf name.toList)

/-- `hostConn` after a successful HelloInfo, then `Server.dial` -/
def route (suffixes : List String) (isIP : String → Bool)
    (lookup : Option (String → Option Dest)) (registry : String → Option Nat) (sni : String) : Outcome :=
  if isRejected suffixes isIP sni then .rejected
  else match lookup with
    | none => .noLookup
    | some lk =>
      match lk sni with
      | none => .lookupFailed
      | some d =>
        if d.home then .home
        else if d.forward ≠ "" then .forward d.forward
        else match registry d.name with
          | some e => .endpoint d.name e
          | none => .endpointMissing

/-- bytes of the front connection are forwarded to an endpoint only in the `endpoint` outcome -/
def reaches (o : Outcome) (e : Nat) : Bool :=
  match o with
  | .endpoint _ e' => e = e'
  | _ => false

/-! ### side-connection mailboxes -/

structure Key where
  id : Nat
  key : Nat
  deriving DecidableEq, Repr

structure Box where
  k : Key
  slot : Option Nat := none    -- delivered connection (channel of capacity 1)
  closed : Bool := false
  deriving DecidableEq, Repr

/-- office: at most one box per id (association list keyed by id, newest first) -/
abbrev Office := List Box

def findBox (o : Office) (id : Nat) : Option Box := o.find? (fun b => b.k.id = id)

/-- `newBox`: an existing box with this id is closed and replaced -/
def newBox (o : Office) (k : Key) : Office :=
  { k := k } :: o.filter (fun b => b.k.id ≠ k.id)

inductive DeliverRes | ok | notFound | keyMismatch
  deriving DecidableEq, Repr

/-- `deliver`: the box for the id must exist and its key must match; a full slot drops the connection.
    `idOnly = true` is the mutant in which `match` compares only the id. -/
def deliver (idOnly : Bool) (o : Office) (k : Key) (conn : Nat) : Office × DeliverRes :=
  match findBox o k.id with
  | none => (o, .notFound)
  | some b =>
    if idOnly || b.k.key = k.key then
      (o.map (fun x => if x.k.id = k.id then { x with slot := x.slot.orElse (fun _ => some conn) } else x), .ok)
    else (o, .keyMismatch)

/-- `cleanUp` → `remove`: only the box with this exact key goes -/
def remove (o : Office) (k : Key) : Office :=
  match findBox o k.id with
  | some b => if b.k.key = k.key then o.filter (fun x => x.k.id ≠ k.id) else o
  | none => o

/-! ### session ids -/

/-- `sessionID.next` under its mutex: returns the counter and increments it -/
def nextId (n : Nat) : Nat × Nat := (n, n + 1)

def takeIds : Nat → Nat → List Nat
  | _, 0 => []
  | n, k + 1 => n :: takeIds (n + 1) k

end PubModel.C02
