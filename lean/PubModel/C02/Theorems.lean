/-
C02 — statement file.
-/
import PubModel.C02.Model
import PubModel.Gen.Routing

namespace PubModel.C02

/-- **A connection reaches only the endpoint its SNI selects**: if any byte of a front
    connection is forwarded to endpoint `e`, then the server name passed the policy, the
    configured lookup returned a plain endpoint destination, and `e` is what is registered
    under exactly that name at dial time. -/
theorem routed_to_selected (suf : List String) (isIP : String → Bool)
    (lookup : Option (String → Option Dest)) (reg : String → Option Nat) (sni : String) (e : Nat)
    (h : reaches (route suf isIP lookup reg sni) e = true) :
    isRejected suf isIP sni = false ∧
    ∃ lk d, lookup = some lk ∧ lk sni = some d ∧ d.home = false ∧ d.forward = "" ∧ reg d.name = some e := by
  unfold route at h
  split at h
  · simp [reaches] at h
  · rename_i hrej
    refine ⟨by simpa using hrej, ?_⟩
    split at h
    · simp [reaches] at h
    · rename_i lk
      split at h
      · simp [reaches] at h
      · rename_i d hd
        split at h
        · simp [reaches] at h
        · rename_i hh
          split at h
          · simp [reaches] at h
          · rename_i hf
            split at h
            · rename_i e' he'
              simp [reaches] at h
              subst h
              exact ⟨lk, d, rfl, hd, by simpa using hh, by simpa using hf, he'⟩
            · simp [reaches] at h

/-- **Rejected, refused and unconnected names reach nobody**: with no server name, an
    IP literal, a policy-rejected suffix, a lookup error or an unregistered endpoint, no
    endpoint receives any byte of the connection. -/
theorem rejected_reaches_nobody (suf : List String) (isIP : String → Bool)
    (lookup : Option (String → Option Dest)) (reg : String → Option Nat) (sni : String)
    (h : isRejected suf isIP sni = true ∨ (∃ lk, lookup = some lk ∧ lk sni = none) ∨
         (∃ lk d, lookup = some lk ∧ lk sni = some d ∧ d.home = false ∧ d.forward = "" ∧ reg d.name = none)) :
    ∀ e, reaches (route suf isIP lookup reg sni) e = false := by
  intro e
  rcases h with h | ⟨lk, h1, h2⟩ | ⟨lk, d, h1, h2, h3, h4, h5⟩
  · simp [route, h, reaches]
  · unfold route; split
    · simp [reaches]
    · simp [h1, h2, reaches]
  · unfold route; split
    · simp [reaches]
    · simp [h1, h2, h3, h4, h5, reaches]

/-- the empty name and IP literals are always rejected, whatever the suffix list -/
theorem empty_and_ip_rejected (suf : List String) (isIP : String → Bool) (n : String)
    (h : n = "" ∨ isIP n = true) : isRejected suf isIP n = true := by
  rcases h with h | h <;> simp [isRejected, h]

/-- home and TCP-forward destinations hand the stream to the configured dialer, to no endpoint -/
theorem home_forward_reach_no_endpoint (suf : List String) (isIP : String → Bool)
    (lk : String → Option Dest) (reg : String → Option Nat) (sni : String) (d : Dest)
    (hd : lk sni = some d) (h : d.home = true ∨ d.forward ≠ "") :
    ∀ e, reaches (route suf isIP (some lk) reg sni) e = false := by
  intro e
  unfold route
  split
  · simp [reaches]
  · simp only [hd]
    rcases h with h | h
    · simp [h, reaches]
    · by_cases hh : d.home = true
      · simp [hh, reaches]
      · simp [hh, h, reaches]

/-! ### mailboxes -/

/-- every box of the office holds, if anything, a connection that was delivered with its own key -/
def OfficeOk (deliveredWith : Nat → Option Key) (o : Office) : Prop :=
  ∀ b ∈ o, ∀ c, b.slot = some c → deliveredWith c = some b.k

theorem newBox_ok (dw : Nat → Option Key) (o : Office) (k : Key) (h : OfficeOk dw o) :
    OfficeOk dw (newBox o k) := by
  intro b hb c hc
  simp [newBox] at hb
  rcases hb with rfl | ⟨hb, _⟩
  · simp at hc
  · exact h b hb c hc

theorem remove_ok (dw : Nat → Option Key) (o : Office) (k : Key) (h : OfficeOk dw o) :
    OfficeOk dw (remove o k) := by
  unfold remove
  split
  · split
    · intro b hb c hc
      simp at hb
      exact h b hb.1 c hc
    · exact h
  · exact h

theorem findBox_mem (o : Office) (id : Nat) (b : Box) (h : findBox o id = some b) : b ∈ o ∧ b.k.id = id := by
  unfold findBox at h
  exact ⟨List.mem_of_find?_eq_some h, by simpa using List.find?_some h⟩

/-- **A dialled-back connection lands only in the box with its own id and key**: after any
    sequence of `newBox`, `deliver`, `remove`, a box never holds a connection that was
    delivered under a different (id, key) — provided ids are unique per office, which
    `newBox` maintains. -/
theorem deliver_ok (dw : Nat → Option Key) (o : Office) (k : Key) (conn : Nat)
    (hu : ∀ b1 ∈ o, ∀ b2 ∈ o, b1.k.id = b2.k.id → b1.k = b2.k)
    (hdw : dw conn = some k) (h : OfficeOk dw o) :
    OfficeOk dw (deliver false o k conn).1 := by
  unfold deliver
  split
  · exact h
  · rename_i b hb
    obtain ⟨hbm, hbid⟩ := findBox_mem o k.id b hb
    split
    · rename_i hkey
      simp only [Bool.false_or, decide_eq_true_eq] at hkey
      have hbk : b.k = k := by
        cases hb' : b.k with
        | mk i ky =>
          cases k with
          | mk i2 k2 =>
            simp [hb'] at hbid hkey
            simp [hbid, hkey]
      intro x hx c hc
      simp only [List.mem_map] at hx
      obtain ⟨y, hy, rfl⟩ := hx
      by_cases hyid : y.k.id = k.id
      · simp only [hyid, if_true] at hc ⊢
        cases hys : y.slot with
        | some c0 =>
          simp [hys, Option.orElse] at hc
          subst hc
          exact h y hy c0 hys
        | none =>
          simp [hys, Option.orElse] at hc
          subst hc
          have : y.k = b.k := hu y hy b hbm (hyid.trans hbid.symm)
          rw [hdw, this, hbk]
      · simp only [hyid, if_false] at hc ⊢
        exact h y hy c hc
    · exact h

theorem newBox_unique (o : Office) (k : Key)
    (hu : ∀ b1 ∈ o, ∀ b2 ∈ o, b1.k.id = b2.k.id → b1.k = b2.k) :
    ∀ b1 ∈ newBox o k, ∀ b2 ∈ newBox o k, b1.k.id = b2.k.id → b1.k = b2.k := by
  intro b1 h1 b2 h2 hid
  simp [newBox] at h1 h2
  rcases h1 with rfl | ⟨h1, n1⟩ <;> rcases h2 with rfl | ⟨h2, n2⟩
  · rfl
  · exact absurd hid.symm n2
  · exact absurd hid n1
  · exact hu b1 h1 b2 h2 hid

/-- the id-only mutant delivers a connection dialled back with the wrong key -/
theorem id_only_match_misdelivers :
    (deliver true [{ k := ⟨3, 111⟩ }] ⟨3, 999⟩ 42).1 = [{ k := ⟨3, 111⟩, slot := some 42 }] := by decide

/-- a wrong key is refused and changes nothing -/
theorem wrong_key_refused (o : Office) (k : Key) (conn : Nat) (b : Box)
    (hb : findBox o k.id = some b) (hk : b.k.key ≠ k.key) :
    deliver false o k conn = (o, .keyMismatch) := by
  simp [deliver, hb, hk]

/-! ### session ids -/

theorem takeIds_lt (n k : Nat) : ∀ x ∈ takeIds n k, n ≤ x := by
  induction k generalizing n with
  | zero => simp [takeIds]
  | succ k ih =>
    intro x hx
    simp [takeIds] at hx
    rcases hx with rfl | hx
    · exact Nat.le_refl _
    · have := ih (n + 1) x hx; omega

/-- **Session ids never repeat**: any number of `next()` calls yield pairwise distinct ids,
    so a read/write/close RPC for session `i` addresses one pipe only. -/
theorem session_ids_distinct (n k : Nat) : (takeIds n k).Nodup := by
  induction k generalizing n with
  | zero => simp [takeIds]
  | succ k ih =>
    simp only [takeIds, List.nodup_cons]
    refine ⟨?_, ih (n + 1)⟩
    intro hm
    have := takeIds_lt (n + 1) k n hm
    omega

/-! ### the regenerated instance -/

/-- the policy list of the current source still rejects the telegram-proxy suffixes, and
    `match` compares id and key -/
theorem gen_match_compares_key : Gen.Routing.matchComparesKey = true := by decide
theorem gen_policy_first : Gen.Routing.rejectBeforeDial = true := by decide
theorem gen_dial_uses_dest_name : Gen.Routing.dialUsesDestName = true := by decide
theorem gen_suffixes_kept : ∀ s ∈ [".iproxy.cloud", ".after.blue", ".spothot.online", ".speedy.red"],
    s ∈ Gen.Routing.rejectedSuffixes := by decide

/-! ### non-vacuity -/

example : route [".speedy.red"] (fun _ => false) (some fun n => if n = "a.test" then some { name := "epa" } else none)
    (fun n => if n = "epa" then some 7 else none) "a.test" = .endpoint "epa" 7 := by decide
example : route [".speedy.red"] (fun _ => false) (some fun _ => some { name := "epa" })
    (fun _ => some 7) "x.speedy.red" = .rejected := by decide

end PubModel.C02
