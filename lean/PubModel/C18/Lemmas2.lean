/-
C18 — further facts about the `fsObjects` transition system: the shape of a
step, inputs are ghost constants, finished creators stay finished, objects
persist and are never replaced, and the executable `apply` is sound for `Step`.
-/
import PubModel.C18.Lemmas

namespace PubModel.C18

theorem lookup_mem {α β : Type} [BEq α] [LawfulBEq α] {l : List (α × β)} {k : α} {v : β}
    (h : l.lookup k = some v) : (k, v) ∈ l := by
  induction l with
  | nil => simp at h
  | cons p l ih =>
    obtain ⟨a, b⟩ := p
    simp only [List.lookup_cons] at h
    split at h
    · rename_i hk
      have : k = a := by simpa using hk
      subst this
      cases h
      exact List.mem_cons_self
    · exact List.mem_cons_of_mem _ (ih h)

/-! ## shape of a step -/

theorem Step.shape {sha : Bytes → Key} {s t : St} (st : Step sha s t) :
    ∃ (i : Nat) (c c' : Creator) (mu : Option Nat) (objs : Objs),
      s.crs[i]? = some c ∧ t = s.upd i c' mu objs ∧ c'.input = c.input ∧ c.pc.finished = false := by
  cases st with
  | createTemp i c hi hpc => exact ⟨i, c, _, _, _, hi, rfl, rfl, by simp [hpc, PC.finished]⟩
  | createFail i c e hi hpc => exact ⟨i, c, _, _, _, hi, rfl, rfl, by simp [hpc, PC.finished]⟩
  | read i c r rs hi hpc hrest => exact ⟨i, c, _, _, _, hi, rfl, rfl, by simp [hpc, PC.finished]⟩
  | writeFail i c e hi hpc => exact ⟨i, c, _, _, _, hi, rfl, rfl, by simp [hpc, PC.finished]⟩
  | lock i c k hi hpc hmu => exact ⟨i, c, _, _, _, hi, rfl, rfl, by simp [hpc, PC.finished]⟩
  | stat i c k hi hpc => exact ⟨i, c, _, _, _, hi, rfl, rfl, by simp [hpc, PC.finished]⟩
  | statFail i c k e hi hpc => exact ⟨i, c, _, _, _, hi, rfl, rfl, by simp [hpc, PC.finished]⟩
  | removeDup i c k hi hpc => exact ⟨i, c, _, _, _, hi, rfl, rfl, by simp [hpc, PC.finished]⟩
  | rename i c k b hi hpc htmp => exact ⟨i, c, _, _, _, hi, rfl, rfl, by simp [hpc, PC.finished]⟩
  | fileOpFail i c k has e hi hpc => exact ⟨i, c, _, _, _, hi, rfl, rfl, by simp [hpc, PC.finished]⟩
  | unlockOk i c k hi hpc => exact ⟨i, c, _, _, _, hi, rfl, rfl, by simp [hpc, PC.finished]⟩
  | unlockErr i c e hi hpc => exact ⟨i, c, _, _, _, hi, rfl, rfl, by simp [hpc, PC.finished]⟩
  | cleanup i c f hi hpc => exact ⟨i, c, _, _, _, hi, rfl, rfl, by simp [hpc, PC.finished]⟩

theorem inputs_upd {s : St} {i : Nat} {c c' : Creator} {mu : Option Nat} {objs : Objs}
    (hi : s.crs[i]? = some c) (hin : c'.input = c.input) :
    (s.upd i c' mu objs).crs.map (·.input) = s.crs.map (·.input) := by
  apply List.ext_getElem?
  intro j
  simp only [St.upd, List.getElem?_map, List.getElem?_set]
  by_cases hij : i = j
  · subst hij
    rcases List.getElem?_eq_some_iff.1 hi with ⟨hlt, heq⟩
    simp [hlt, hin, heq]
  · simp [hij]

theorem inputs_step {sha : Bytes → Key} {s t : St} (st : Step sha s t) :
    t.crs.map (·.input) = s.crs.map (·.input) := by
  obtain ⟨i, c, c', mu, objs, hi, rfl, hin, _⟩ := st.shape
  exact inputs_upd hi hin

theorem inputs_reach {sha : Bytes → Key} {s t : St} (r : Reach sha s t) :
    t.crs.map (·.input) = s.crs.map (·.input) := by
  induction r with
  | refl => rfl
  | tail _ st ih => rw [inputs_step st, ih]

theorem inputs_init (inputs : List (List ReadRes)) : (init inputs).crs.map (·.input) = inputs := by
  simp [init, Creator.new, Function.comp_def]

/-- the ghost field `input` of creator `i` is the `i`-th initial input, for ever -/
theorem input_of_reach {sha : Bytes → Key} {inputs : List (List ReadRes)} {s : St}
    (r : Reach sha (init inputs) s) (i : Nat) :
    inputs[i]? = (s.crs[i]?).map (·.input) := by
  have := inputs_reach r
  rw [inputs_init] at this
  rw [← this, List.getElem?_map]

/-! ## finished creators stay finished -/

theorem done_step {sha : Bytes → Key} {s t : St} (st : Step sha s t) {j : Nat} {d : Creator}
    (hj : s.crs[j]? = some d) (hd : d.pc.finished = true) : t.crs[j]? = some d := by
  obtain ⟨i, c, c', mu, objs, hi, rfl, _, hnf⟩ := st.shape
  by_cases hji : j = i
  · subst hji
    rw [hi] at hj
    cases hj
    rw [hd] at hnf
    cases hnf
  · rw [upd_ne hji]
    exact hj

theorem done_reach {sha : Bytes → Key} {s t : St} (r : Reach sha s t) {j : Nat} {d : Creator}
    (hj : s.crs[j]? = some d) (hd : d.pc.finished = true) : t.crs[j]? = some d := by
  induction r with
  | refl => exact hj
  | tail _ st ih => exact done_step st ih hd

/-! ## objects persist; with the lock and the has-check they are never replaced -/

theorem lookup_filter_ne {objs : Objs} {k k' : Key} (h : k' ≠ k) :
    (objs.filter (fun o => o.1 ≠ k)).lookup k' = objs.lookup k' := by
  induction objs with
  | nil => rfl
  | cons p l ih =>
    obtain ⟨a, v⟩ := p
    by_cases ha : a = k
    · have h1 : (k' == a) = false := by rw [ha]; simpa using h
      rw [List.filter_cons_of_neg (by simp [ha]), ih, List.lookup_cons, h1]
    · rw [List.filter_cons_of_pos (by simp [ha]), List.lookup_cons, List.lookup_cons, ih]

theorem lookup_renameIn_self (objs : Objs) (k : Key) (b : Bytes) (i : Nat) :
    (renameIn objs k b i).lookup k = some (b, i) := by
  simp [renameIn]

theorem lookup_renameIn_ne {objs : Objs} {k k' : Key} (b : Bytes) (i : Nat) (h : k' ≠ k) :
    (renameIn objs k b i).lookup k' = objs.lookup k' := by
  have : (k' == k) = false := by simpa using h
  simp only [renameIn, List.lookup_cons, this]
  exact lookup_filter_ne h

/-- second invariant: what the has-check saw stays true, a returned key stays present,
    and under the lock a negative has-check stays accurate -/
structure Inv2 (s : St) : Prop where
  pos : ∀ (i : Nat) (c : Creator) (k : Key), s.crs[i]? = some c →
    (c.pc = .checked k true ∨ Owns c k) → hasObj s k = true
  neg : ∀ (i : Nat) (c : Creator) (k : Key), s.crs[i]? = some c →
    c.pc = .checked k false → s.objs.lookup k = none

theorem Inv2.init (inputs : List (List ReadRes)) : Inv2 (init inputs) := by
  constructor
  · intro i c k hc h
    simp only [PubModel.C18.init, List.getElem?_map, Option.map_eq_some_iff] at hc
    obtain ⟨inp, _, rfl⟩ := hc
    simp [Creator.new, Owns] at h
  · intro i c k hc h
    simp only [PubModel.C18.init, List.getElem?_map, Option.map_eq_some_iff] at hc
    obtain ⟨inp, _, rfl⟩ := hc
    simp [Creator.new] at h

/-- creator `i` moves without touching the objects -/
theorem Inv2.update_same {s : St} (h : Inv2 s) {i : Nat} {c c' : Creator} {mu' : Option Nat}
    (hi : s.crs[i]? = some c)
    (hpos : ∀ k, (c'.pc = .checked k true ∨ Owns c' k) → hasObj s k = true)
    (hneg : ∀ k, c'.pc = .checked k false → s.objs.lookup k = none) :
    Inv2 (s.upd i c' mu' s.objs) := by
  constructor
  · intro j d k hj hd
    rcases getElem?_upd hi hj with ⟨_, rfl⟩ | ⟨_, hd'⟩
    · exact hpos k hd
    · exact h.pos j d k hd' hd
  · intro j d k hj hd
    rcases getElem?_upd hi hj with ⟨_, rfl⟩ | ⟨_, hd'⟩
    · exact hneg k hd
    · exact h.neg j d k hd' hd

theorem Inv2.step {sha : Bytes → Key} {s t : St} (hI : Inv sha s) (h : Inv2 s) (st : Step sha s t) :
    Inv2 t := by
  cases st with
  | createTemp i c hi hpc => exact h.update_same hi (by simp [Owns]) (by simp)
  | createFail i c e hi hpc => exact h.update_same hi (by simp [Owns]) (by simp)
  | read i c r rs hi hpc hrest =>
    refine h.update_same hi ?_ ?_
    · intro k hk
      by_cases hv : isValidKey (sha (c.hashed ++ r.data)) = true <;>
        cases hr : r.err <;> simp [Creator.feed, hr, afterEof, hv, Owns] at hk
    · intro k hk
      by_cases hv : isValidKey (sha (c.hashed ++ r.data)) = true <;>
        cases hr : r.err <;> simp [Creator.feed, hr, afterEof, hv] at hk
  | writeFail i c e hi hpc => exact h.update_same hi (by simp [Owns]) (by simp)
  | lock i c k hi hpc hmu => exact h.update_same hi (by simp [Owns]) (by simp)
  | stat i c k hi hpc =>
    refine h.update_same hi ?_ ?_
    · intro k' hk
      simp only [Owns, PC.checked.injEq, reduceCtorEq, or_false] at hk
      obtain ⟨rfl, hk⟩ := hk
      exact hk
    · intro k' hk
      simp only [PC.checked.injEq] at hk
      obtain ⟨rfl, hk⟩ := hk
      simpa [hasObj] using hk
  | statFail i c k e hi hpc => exact h.update_same hi (by simp [Owns]) (by simp)
  | removeDup i c k hi hpc =>
    refine h.update_same hi ?_ (by simp)
    intro k' hk
    simp only [Owns, reduceCtorEq, PC.unlocking.injEq, or_false, false_or] at hk
    subst hk
    exact h.pos i c k hi (Or.inl hpc)
  | rename i c k b hi hpc htmp =>
    constructor
    · intro j d k' hj hd
      by_cases hkk : k' = k
      · subst hkk
        simp [hasObj, St.upd, lookup_renameIn_self]
      · have hl : (renameIn s.objs k b i).lookup k' = s.objs.lookup k' := lookup_renameIn_ne b i hkk
        rcases getElem?_upd hi hj with ⟨_, rfl⟩ | ⟨_, hd'⟩
        · simp only [Owns, reduceCtorEq, PC.unlocking.injEq, or_false, false_or] at hd
          exact absurd hd.symm hkk
        · have := h.pos j d k' hd' hd
          simpa [hasObj, St.upd, hl] using this
    · intro j d k' hj hd
      rcases getElem?_upd hi hj with ⟨_, rfl⟩ | ⟨hne, hd'⟩
      · simp at hd
      · -- `j` would hold the mutex together with `i`
        have h1 := hI.mu j d hd' (by simp [hd, PC.holds])
        have h2 := hI.mu i c hi (by simp [hpc, PC.holds])
        rw [h1] at h2
        exact absurd (Option.some.inj h2) hne
  | fileOpFail i c k has e hi hpc => exact h.update_same hi (by simp [Owns]) (by simp)
  | unlockOk i c k hi hpc =>
    refine h.update_same hi ?_ (by simp)
    intro k' hk
    simp only [Owns, reduceCtorEq, PC.done.injEq, Res.ok.injEq, false_or] at hk
    subst hk
    exact h.pos i c k hi (Or.inr (Or.inl hpc))
  | unlockErr i c e hi hpc => exact h.update_same hi (by simp [Owns]) (by simp)
  | cleanup i c f hi hpc =>
    refine h.update_same hi ?_ (by simp)
    intro k hk
    cases f <;> simp [Owns, Fail.res] at hk

theorem Inv2.reach {sha : Bytes → Key} {s t : St} (hI : Inv sha s) (h : Inv2 s) (r : Reach sha s t) :
    Inv2 t := by
  induction r with
  | refl => exact h
  | tail r' st ih => exact ih.step (hI.reach r') st

/-- an object, once present, is never replaced (needs the lock and the has-check) -/
theorem immutable_step {sha : Bytes → Key} {s t : St} (h : Inv2 s) (st : Step sha s t)
    {k : Key} {v : Bytes × Nat} (hk : s.objs.lookup k = some v) : t.objs.lookup k = some v := by
  cases st with
  | rename i c k' b hi hpc htmp =>
    have hn := h.neg i c k' hi hpc
    have hne : k ≠ k' := by
      intro e; subst e; rw [hn] at hk; cases hk
    simp only [St.upd]
    rw [lookup_renameIn_ne b i hne]
    exact hk
  | _ => exact hk

theorem immutable_reach {sha : Bytes → Key} {s t : St} (hI : Inv sha s) (h : Inv2 s) (r : Reach sha s t)
    {k : Key} {v : Bytes × Nat} (hk : s.objs.lookup k = some v) : t.objs.lookup k = some v := by
  induction r with
  | refl => exact hk
  | tail r' st ih => exact immutable_step (h.reach hI r') st ih

theorem Reach.trans {sha : Bytes → Key} {s t u : St} (a : Reach sha s t) (b : Reach sha t u) :
    Reach sha s u := by
  induction b with
  | refl => exact a
  | tail _ st ih => exact .tail ih st

/-! ## the executable `apply` is sound -/

theorem apply_sound {sha : Bytes → Key} {s t : St} {i : Nat} {a : Act}
    (h : apply sha s i a = some t) : Step sha s t := by
  unfold apply at h
  cases hc : s.crs[i]? with
  | none => simp [hc] at h
  | some c =>
    simp only [hc] at h
    cases a <;> cases hpc : c.pc <;> simp only [hpc] at h <;> (try cases h)
    all_goals first
      | exact Step.createTemp s i c hc hpc
      | exact Step.createFail s i c _ hc hpc
      | exact Step.writeFail s i c _ hc hpc
      | exact Step.stat s i c _ hc hpc
      | exact Step.statFail s i c _ _ hc hpc
      | exact Step.fileOpFail s i c _ _ _ hc hpc
      | exact Step.unlockOk s i c _ hc hpc
      | exact Step.unlockErr s i c _ hc hpc
      | exact Step.cleanup s i c _ hc hpc
      | skip
    · -- read
      cases hr : c.rest with
      | nil => simp [hr] at h
      | cons r rs =>
        simp only [hr] at h
        cases h
        exact Step.read s i c r rs hc hpc hr
    · -- lock
      by_cases hm : s.mu = none
      · simp only [hm, if_true] at h
        cases h
        exact Step.lock s i c _ hc hpc hm
      · simp [hm] at h
    · -- rename / remove
      rename_i k has
      cases has with
      | true =>
        simp only at h
        cases h
        exact Step.removeDup s i c k hc hpc
      | false =>
        simp only at h
        cases ht : c.tmp with
        | none => simp [ht] at h
        | some b =>
          simp only [ht] at h
          cases h
          exact Step.rename s i c k b hc hpc ht

/-- a schedule: which creator performs which action, in order -/
def runSched (sha : Bytes → Key) : St → List (Nat × Act) → Option St
  | s, [] => some s
  | s, (i, a) :: rest =>
    match apply sha s i a with
    | none => none
    | some s' => runSched sha s' rest

theorem runSched_reach {sha : Bytes → Key} {s t : St} {l : List (Nat × Act)}
    (h : runSched sha s l = some t) : Reach sha s t := by
  induction l generalizing s with
  | nil => simp [runSched] at h; subst h; exact .refl _
  | cons p l ih =>
    obtain ⟨i, a⟩ := p
    simp only [runSched] at h
    cases ha : apply sha s i a with
    | none => simp [ha] at h
    | some s' =>
      simp only [ha] at h
      exact Reach.trans (.tail (.refl _) (apply_sound ha)) (ih h)

/-! ## keys produced by `hex.EncodeToString` of a 32-byte digest are valid; no panic -/

set_option maxRecDepth 20000 in
theorem hexKey_byte_ok :
    (List.range 256).all (fun n =>
      (hexKey [UInt8.ofNat n]).all keyChar && (hexKey [UInt8.ofNat n]).length == 2) = true := by
  decide

theorem hexKey_cons (b : UInt8) (d : Bytes) : hexKey (b :: d) = hexKey [b] ++ hexKey d := by
  simp [hexKey]

theorem hexKey_single (b : UInt8) : (hexKey [b]).all keyChar = true ∧ (hexKey [b]).length = 2 := by
  have h := hexKey_byte_ok
  rw [List.all_eq_true] at h
  have hb := h b.toNat (List.mem_range.2 b.toNat_lt)
  have he : UInt8.ofNat b.toNat = b := UInt8.ofNat_toNat
  rw [he] at hb
  simpa using hb

theorem hexKey_ok (d : Bytes) : (hexKey d).all keyChar = true ∧ (hexKey d).length = 2 * d.length := by
  induction d with
  | nil => simp [hexKey]
  | cons b d ih =>
    rw [hexKey_cons]
    have h1 := hexKey_single b
    refine ⟨by rw [List.all_append, h1.1, ih.1]; rfl, ?_⟩
    rw [List.length_append, h1.2, ih.2, List.length_cons]
    omega

theorem hexKey_valid (d : Bytes) (h : d.length = shaSize) : isValidKey (hexKey d) = true := by
  have := hexKey_ok d
  simp [isValidKey, this.1, this.2, h, shaSize, keyLen]

def NoPanic (s : St) : Prop :=
  ∀ (i : Nat) (c : Creator), s.crs[i]? = some c → c.pc ≠ .failing .panic ∧ c.pc ≠ .done .panic

theorem NoPanic.update {s : St} (h : NoPanic s) {i : Nat} {c c' : Creator} {mu : Option Nat} {objs : Objs}
    (hi : s.crs[i]? = some c) (hc : c'.pc ≠ .failing .panic ∧ c'.pc ≠ .done .panic) :
    NoPanic (s.upd i c' mu objs) := by
  intro j d hj
  rcases getElem?_upd hi hj with ⟨_, rfl⟩ | ⟨_, hd⟩
  · exact hc
  · exact h j d hd

theorem NoPanic.step {sha : Bytes → Key} (hv : ∀ b, isValidKey (sha b) = true) {s t : St}
    (h : NoPanic s) (st : Step sha s t) : NoPanic t := by
  cases st with
  | read i c r rs hi hpc hrest =>
    refine h.update hi ?_
    cases hr : r.err <;> simp [Creator.feed, hr, afterEof, hv]
  | cleanup i c f hi hpc =>
    refine h.update hi ?_
    have := (h i c hi).1
    cases f with
    | err e => simp [Fail.res]
    | panic => exact absurd hpc this
  | createTemp i c hi hpc => exact h.update hi (by simp)
  | createFail i c e hi hpc => exact h.update hi (by simp)
  | writeFail i c e hi hpc => exact h.update hi (by simp)
  | lock i c k hi hpc hmu => exact h.update hi (by simp)
  | stat i c k hi hpc => exact h.update hi (by simp)
  | statFail i c k e hi hpc => exact h.update hi (by simp)
  | removeDup i c k hi hpc => exact h.update hi (by simp)
  | rename i c k b hi hpc htmp => exact h.update hi (by simp)
  | fileOpFail i c k has e hi hpc => exact h.update hi (by simp)
  | unlockOk i c k hi hpc => exact h.update hi (by simp)
  | unlockErr i c e hi hpc => exact h.update hi (by simp)

theorem NoPanic.init (inputs : List (List ReadRes)) : NoPanic (init inputs) := by
  intro i c hc
  simp only [PubModel.C18.init, List.getElem?_map, Option.map_eq_some_iff] at hc
  obtain ⟨inp, _, rfl⟩ := hc
  simp [Creator.new]

theorem NoPanic.reach {sha : Bytes → Key} (hv : ∀ b, isValidKey (sha b) = true) {s t : St}
    (h : NoPanic s) (r : Reach sha s t) : NoPanic t := by
  induction r with
  | refl => exact h
  | tail _ st ih => exact ih.step hv st

end PubModel.C18
