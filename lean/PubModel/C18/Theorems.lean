/-
C18 — property theorems.  Statement file; helper lemmas are in Lemmas*.lean.

Property: an object store returns, for every created object, the SHA-256 of
its content as key; opening a key returns exactly the bytes that hash to it or
not-found, also while the same or other objects are created concurrently, and
a creation whose input fails part-way leaves no object and no temporary file
behind.  A checked reader reports end-of-stream only if the whole stream had
the expected digest and length; every corruption, truncation or extension
surfaces as an error instead, whatever the read sizes.

`sha` is a parameter of every theorem: nothing is assumed about it.  The
quantifiers: `inputs` ranges over all lists of read results (= all contents,
all chunkings, failures at any offset, `(n>0, err)` pairs); `Reach` over all
interleavings of the atomic actions of any number of `Create` calls, including
file-system failures inside `commit`.
-/
import PubModel.C18.Lemmas3
import PubModel.C18.Obligations

namespace PubModel.C18

/-! ## witnesses for the non-vacuity examples -/

/-- a toy digest with valid keys and collisions: 63 × 'a', then a letter from the byte sum -/
def toySha (b : Bytes) : Key := List.replicate 63 97 ++ [97 + (b.foldl (· + ·) 0) % 26]

def exInputs : List (List ReadRes) :=
  [ [⟨[1, 2], .none⟩, ⟨[3], .eof⟩],           -- two chunks, the second together with EOF
    [⟨[1, 2, 3], .none⟩, ⟨[], .eof⟩],         -- the same content, chunked differently
    [⟨[9], .none⟩, ⟨[7], .other 5⟩],           -- fails at offset 2, one byte delivered with the error
    [⟨[], .none⟩, ⟨[4], .none⟩, ⟨[], .eof⟩] ]  -- another content, with an empty read

/-- creators 0, 1, 2 interleaved up to the point where 1 has renamed its file in and still
    holds the lock, 0 waits for the lock with its temp file complete, 2 is about to clean up -/
def exSchedA : List (Nat × Act) :=
  [(0, .createTemp), (1, .createTemp), (2, .createTemp), (0, .read), (1, .read), (2, .read),
   (1, .read), (0, .read), (1, .lock), (2, .read), (1, .stat), (1, .fileOp)]

/-- … and on to the end; creator 0 finds the object present and removes its temp file -/
def exSchedB : List (Nat × Act) :=
  [(2, .cleanup), (1, .unlock), (0, .lock), (0, .stat), (0, .fileOp), (0, .unlock),
   (3, .createTemp), (3, .read), (3, .read), (3, .read), (3, .lock), (3, .stat), (3, .fileOp), (3, .unlock)]

def exMid : St := (runSched toySha (init exInputs) exSchedA).getD (init [])
def exFinal : St := (runSched toySha exMid exSchedB).getD (init [])

theorem exMid_reach : Reach toySha (init exInputs) exMid :=
  runSched_reach (l := exSchedA) (by decide)

theorem exFinal_reach : Reach toySha (init exInputs) exFinal :=
  Reach.trans exMid_reach (runSched_reach (l := exSchedB) (by decide))

def k123 : Key := toySha [1, 2, 3]
def k4 : Key := toySha [4]

variable (sha : Bytes → Key)

/-! ## fsObjects -/

/-- **Store invariant**, at every reachable state of every interleaving: each
    stored object's key is `sha` of its content, the key is syntactically valid, and
    the content is the complete (EOF-terminated) input of the creator that renamed it in. -/
theorem store_inv {inputs : List (List ReadRes)} {s : St} (h : Reach sha (init inputs) s)
    (k : Key) (b : Bytes) (i : Nat) (hm : (k, b, i) ∈ s.objs) :
    sha b = k ∧ isValidKey k = true ∧ ∃ inp, inputs[i]? = some inp ∧ complete inp = some b := by
  obtain ⟨h1, h2, c, hc, hcomp, _⟩ := ((Inv.init sha inputs).reach h).obj k b i hm
  refine ⟨h1, h2, c.input, ?_, hcomp⟩
  rw [input_of_reach h i, hc]
  rfl

/-- non-vacuity: mid-interleaving, one object in, the lock held by creator 1, two temp files -/
example : exMid.objs = [(k123, [1, 2, 3], 1)] ∧ exMid.mu = some 1 ∧ exMid.tmps = [[1, 2, 3], [9, 7]] ∧
    (toySha [1, 2, 3] = k123 ∧ isValidKey k123 = true ∧
      ∃ inp, exInputs[1]? = some inp ∧ complete inp = some [1, 2, 3]) :=
  ⟨by decide, by decide, by decide, store_inv toySha exMid_reach k123 [1, 2, 3] 1 (by decide)⟩

/-- **A create that returns `k`**: its input reached EOF, `k = sha (whole input)`, and the
    key is present in the store (with content hashing to `k`) in this and every later state. -/
theorem create_key {inputs : List (List ReadRes)} {s : St} (h : Reach sha (init inputs) s)
    (i : Nat) (k : Key) (hr : s.result i = some (.ok k)) :
    (∃ inp b, inputs[i]? = some inp ∧ complete inp = some b ∧ k = sha b) ∧
    ∀ t, Reach sha s t → t.result i = some (.ok k) ∧ ∃ b', fsOpen t k = .ok b' ∧ sha b' = k := by
  have hI := (Inv.init sha inputs).reach h
  have hI2 := (Inv2.init inputs).reach (Inv.init sha inputs) h
  simp only [St.result] at hr
  cases hc : s.crs[i]? with
  | none => simp [hc] at hr
  | some c =>
    simp only [hc] at hr
    cases hpc : c.pc with
    | done r =>
      simp only [hpc, Option.some.injEq] at hr
      subst hr
      have hok := hI.cr i c hc
      simp only [CrOK, hpc] at hok
      obtain ⟨_, hcomp, hk, hv⟩ := hok
      constructor
      · refine ⟨c.input, c.hashed, ?_, hcomp, hk⟩
        rw [input_of_reach h i, hc]; rfl
      · intro t ht
        have hct := done_reach ht hc (by simp [hpc, PC.finished])
        have hIt := hI.reach ht
        have hI2t := hI2.reach hI ht
        refine ⟨by simp [St.result, hct, hpc], ?_⟩
        have hp := hI2t.pos i c k hct (Or.inr (Or.inr hpc))
        simp only [hasObj, Option.isSome_iff_exists] at hp
        obtain ⟨⟨b', j⟩, hl⟩ := hp
        refine ⟨b', by simp [fsOpen, hv, hl], ?_⟩
        exact (hIt.obj k b' j (lookup_mem hl)).1
    | _ => simp [hpc] at hr

/-- non-vacuity: equal contents give equal keys (one renamed, one found present), another
    content another key -/
example : exFinal.result 0 = some (.ok k123) ∧ exFinal.result 1 = some (.ok k123) ∧
    exFinal.result 3 = some (.ok k4) ∧ k123 ≠ k4 ∧ fsOpen exFinal k4 = .ok [4] := by decide

example : ∃ inp b, exInputs[0]? = some inp ∧ complete inp = some b ∧ k123 = toySha b :=
  (create_key toySha exFinal_reach 0 k123 (by decide)).1

/-- **Failed creates leave nothing**: a finished creator has no temp file (at every
    reachable state, so once all have finished the temp directory is empty), and a creator
    whose input does not reach EOF never returns a key and owns no object. -/
theorem failed_create_leaves_nothing {inputs : List (List ReadRes)} {s : St}
    (h : Reach sha (init inputs) s) :
    (∀ (i : Nat) (c : Creator), s.crs[i]? = some c → c.pc.finished = true → c.tmp = none) ∧
    (s.allDone → s.tmps = []) ∧
    (∀ (i : Nat) (inp : List ReadRes), inputs[i]? = some inp → complete inp = none →
      (∀ k b, (k, b, i) ∉ s.objs) ∧ ∀ k, s.result i ≠ some (.ok k)) := by
  have hI := (Inv.init sha inputs).reach h
  have hfin : ∀ (i : Nat) (c : Creator), s.crs[i]? = some c → c.pc.finished = true → c.tmp = none := by
    intro i c hc hf
    have hok := hI.cr i c hc
    cases hpc : c.pc with
    | done r =>
      cases r <;> simp only [CrOK, hpc] at hok
      · exact hok.1
      · exact hok
      · exact hok
    | _ => simp [hpc, PC.finished] at hf
  refine ⟨hfin, ?_, ?_⟩
  · intro hall
    simp only [St.tmps, List.filterMap_eq_nil_iff]
    intro c hc
    obtain ⟨i, hi⟩ := List.mem_iff_getElem?.1 hc
    exact hfin i c hi (hall c hc)
  · intro i inp hin hcomp
    constructor
    · intro k b hm
      obtain ⟨_, _, inp', hin', hc'⟩ := store_inv sha h k b i hm
      rw [hin] at hin'
      cases hin'
      rw [hcomp] at hc'
      cases hc'
    · intro k hr
      obtain ⟨⟨inp', b, hin', hc', _⟩, _⟩ := create_key sha h i k hr
      rw [hin] at hin'
      cases hin'
      rw [hcomp] at hc'
      cases hc'

/-- non-vacuity: creator 2's input fails at offset 2 (a byte delivered with the error); at the
    end it has returned that error, the temp directory is empty and only the two good keys exist -/
example : exFinal.allDone ∧ exFinal.tmps = [] ∧ exFinal.result 2 = some (.err 5) ∧
    complete [⟨[9], .none⟩, ⟨[7], .other 5⟩] = none ∧ exFinal.objs.map (·.1) = [k4, k123] ∧
    exMid.tmps.length = 2 :=
  ⟨by unfold St.allDone; decide, by decide, by decide, by decide, by decide, by decide⟩

example : (∀ k b, (k, b, 2) ∉ exFinal.objs) ∧ ∀ k, exFinal.result 2 ≠ some (.ok k) :=
  (failed_create_leaves_nothing toySha exFinal_reach).2.2 2 [⟨[9], .none⟩, ⟨[7], .other 5⟩] (by decide) (by decide)

/-- **Open is exact**, at every reachable state (mid-interleaving, whoever holds the lock):
    not-found, or bytes whose `sha` is the key and which are some creator's complete input. -/
theorem open_exact {inputs : List (List ReadRes)} {s : St} (h : Reach sha (init inputs) s) (k : Key) :
    fsOpen s k = .notFound ∨
    ∃ b, fsOpen s k = .ok b ∧ sha b = k ∧ ∃ (i : Nat) (inp : List ReadRes), inputs[i]? = some inp ∧ complete inp = some b := by
  unfold fsOpen
  by_cases hv : isValidKey k = true
  · simp only [hv, if_true]
    cases hl : s.objs.lookup k with
    | none => exact Or.inl rfl
    | some v =>
      obtain ⟨b, i⟩ := v
      right
      obtain ⟨h1, _, inp, hin, hc⟩ := store_inv sha h k b i (lookup_mem hl)
      exact ⟨b, rfl, h1, i, inp, hin, hc⟩
  · simp [hv]

/-- non-vacuity: while creator 1 holds the lock and creator 0's identical temp file waits,
    the key opens to exactly the bytes; other keys (valid or not) are not found -/
example : fsOpen exMid k123 = .ok [1, 2, 3] ∧ fsOpen exMid k4 = .notFound ∧
    fsOpen exMid [116, 109, 112] = .notFound ∧ fsHas exMid k123 = true ∧ fsHas exMid k4 = false := by decide

/-- **Objects are immutable**: what `Open k` returns in one state it returns in every later
    one (this is where the lock and the has-check are needed), and `Has` agrees with `Open`. -/
theorem open_stable {inputs : List (List ReadRes)} {s t : St} (h : Reach sha (init inputs) s)
    (ht : Reach sha s t) (k : Key) (b : Bytes) (ho : fsOpen s k = .ok b) :
    fsOpen t k = .ok b ∧ fsHas t k = true := by
  have hI := (Inv.init sha inputs).reach h
  have hI2 := (Inv2.init inputs).reach (Inv.init sha inputs) h
  unfold fsOpen at ho
  by_cases hv : isValidKey k = true
  · simp only [hv, if_true] at ho
    cases hl : s.objs.lookup k with
    | none => simp [hl] at ho
    | some v =>
      have hl' := immutable_reach hI hI2 ht hl
      obtain ⟨b', i⟩ := v
      simp only [hl, OpenRes.ok.injEq] at ho
      subst ho
      simp [fsOpen, fsHas, hasObj, hv, hl']
  · simp [hv] at ho

example : fsOpen exFinal k123 = .ok [1, 2, 3] ∧ fsHas exFinal k123 = true :=
  open_stable toySha exMid_reach (runSched_reach (l := exSchedB) (by decide)) k123 [1, 2, 3] (by decide)

/-- **Exactly the expected keys**: when every creator has returned, the directory holds a
    key iff some creator returned it. -/
theorem final_listing {inputs : List (List ReadRes)} {s : St} (h : Reach sha (init inputs) s)
    (hall : s.allDone) (k : Key) :
    hasObj s k = true ↔ ∃ i, s.result i = some (.ok k) := by
  have hI := (Inv.init sha inputs).reach h
  have hI2 := (Inv2.init inputs).reach (Inv.init sha inputs) h
  constructor
  · intro hk
    simp only [hasObj, Option.isSome_iff_exists] at hk
    obtain ⟨⟨b, i⟩, hl⟩ := hk
    obtain ⟨_, _, c, hc, _, hown⟩ := hI.obj k b i (lookup_mem hl)
    refine ⟨i, ?_⟩
    rcases hown with hp | hp
    · have := hall c (List.mem_of_getElem? hc)
      simp [hp, PC.finished] at this
    · simp [St.result, hc, hp]
  · rintro ⟨i, hr⟩
    simp only [St.result] at hr
    cases hc : s.crs[i]? with
    | none => simp [hc] at hr
    | some c =>
      simp only [hc] at hr
      cases hpc : c.pc with
      | done r =>
        simp only [hpc, Option.some.injEq] at hr
        subst hr
        exact hI2.pos i c k hc (Or.inr (Or.inr hpc))
      | _ => simp [hpc] at hr

example : hasObj exFinal k123 = true ∧ hasObj exFinal k4 = true ∧ hasObj exFinal (toySha [9, 7]) = false := by
  decide

/-- **Mutual exclusion** of the commit sections. -/
theorem commit_exclusive {inputs : List (List ReadRes)} {s : St} (h : Reach sha (init inputs) s)
    (i j : Nat) (c d : Creator) (hi : s.crs[i]? = some c) (hj : s.crs[j]? = some d)
    (hc : c.pc.holds = true) (hd : d.pc.holds = true) : i = j := by
  have hI := (Inv.init sha inputs).reach h
  have h1 := hI.mu i c hi hc
  have h2 := hI.mu j d hj hd
  rw [h1] at h2
  exact Option.some.inj h2

/-- non-vacuity: in `exMid` creator 1 holds the lock and creator 0 is ready to take it -/
example : (exMid.crs[1]?.map (·.pc.holds)) = some true ∧ (exMid.crs[0]?.map (·.pc)) = some (.closed k123) ∧
    apply toySha exMid 0 .lock = none := by decide

/-- **No panic**: if `sha` only produces valid keys — as `hex.EncodeToString` of any 32-byte
    digest does (`hexKey_valid`, with `gen_key_accepts_sha256_hex` for the regenerated
    `isValidKey`) — no `Create` call ever reaches `panic("invalid key generated")`. -/
theorem create_never_panics (hv : ∀ b, isValidKey (sha b) = true) {inputs : List (List ReadRes)} {s : St}
    (h : Reach sha (init inputs) s) (i : Nat) : s.result i ≠ some .panic := by
  have hn := (NoPanic.init inputs).reach hv h
  intro hr
  simp only [St.result] at hr
  cases hc : s.crs[i]? with
  | none => simp [hc] at hr
  | some c =>
    simp only [hc] at hr
    cases hpc : c.pc with
    | done r =>
      simp only [hpc, Option.some.injEq] at hr
      subst hr
      exact (hn i c hc).2 hpc
    | _ => simp [hpc] at hr

theorem sha256_hex_keys_valid (digest : Bytes → Bytes) (h32 : ∀ b, (digest b).length = shaSize) (b : Bytes) :
    isValidKey (hexKey (digest b)) = true := hexKey_valid _ (h32 b)

/-- non-vacuity: a digest with valid keys exists (and real SHA-256 hex keys are valid by
    `sha256_hex_keys_valid`); a digest with an invalid key makes `Create` panic, and the
    deferred cleanup still removes the temp file -/
example : (∀ b : Bytes, isValidKey ((fun _ => k123) b) = true) ∧
    isValidKey (hexKey (List.replicate 32 0xab)) = true ∧
    (runCreate (fun _ => [1]) 3 (init [[⟨[5], .eof⟩]]) 0).result 0 = some .panic ∧
    (runCreate (fun _ => [1]) 3 (init [[⟨[5], .eof⟩]]) 0).tmps = [] :=
  ⟨fun _ => (by decide : isValidKey k123 = true), by decide, by decide, by decide⟩

/-! ## mem / mapped stores (every critical section is atomic: a run is a sequence of operations) -/

/-- invariant: every blob is stored under `sha` of itself and is the argument of a `Put`
    or the complete input of a `Create` -/
theorem mem_store_inv (ops : List MemOp) (k : Key) (b : Bytes)
    (h : (k, b) ∈ (Mem.empty.run sha ops).blobs) :
    k = sha b ∧ ∃ op ∈ ops, op = .put b ∨ ∃ input, op = .create input ∧ complete input = some b := by
  rcases Mem.mem_run (sha := sha) h with h | h
  · simp [Mem.empty] at h
  · exact h

theorem mem_open_exact (ops : List MemOp) (k : Key) :
    (Mem.empty.run sha ops).get k = none ∨ ∃ b, (Mem.empty.run sha ops).get k = some b ∧ sha b = k := by
  cases hg : (Mem.empty.run sha ops).get k with
  | none => exact Or.inl rfl
  | some b =>
    right
    refine ⟨b, rfl, ?_⟩
    exact (mem_store_inv sha ops k b (lookup_mem hg)).1.symm

example : (Mem.empty.run toySha [.create [⟨[1, 2], .none⟩, ⟨[3], .eof⟩], .create [⟨[9], .none⟩, ⟨[7], .other 5⟩],
    .put [4], .put [1, 2, 3]]).blobs = [(k123, [1, 2, 3]), (k4, [4])] := by decide

/-- `Create` on a mem/mapped store: the key is `sha` of the whole input and opens to exactly it -/
theorem mem_create_key (m : Mem) (input : List ReadRes) (k : Key)
    (h : (m.create sha input).2 = .ok k) :
    ∃ b, complete input = some b ∧ k = sha b ∧ (m.create sha input).1.get k = some b := by
  cases hc : complete input with
  | none => exact absurd h ((Mem.create_of_incomplete (sha := sha) m hc).2 k)
  | some b =>
    rw [Mem.create_of_complete m hc] at h ⊢
    simp only [CreateRes.ok.injEq] at h
    subst h
    exact ⟨b, rfl, rfl, Mem.get_put_self sha m b⟩

example : (Mem.empty.create toySha [⟨[1, 2], .none⟩, ⟨[], .none⟩, ⟨[3], .eof⟩]).2 = .ok k123 := by decide

/-- a `Create` whose input fails (or never ends) changes nothing -/
theorem mem_failed_create_unchanged (m : Mem) (input : List ReadRes) (h : complete input = none) :
    (m.create sha input).1 = m ∧ ∀ k, (m.create sha input).2 ≠ .ok k :=
  Mem.create_of_incomplete m h

example : (Mem.create toySha ⟨[(k4, [4])]⟩ [⟨[1, 2], .none⟩, ⟨[3], .other 1⟩]) = (⟨[(k4, [4])]⟩, .err 1) := by decide

/-! ## CheckReader -/

/-- **EOF iff intact**, for every chunking `rs` of every stream and every way it may fail:
    a consumer that reads until the first error sees `io.EOF` iff the underlying reader
    reached EOF and everything it delivered has the wanted digest and, when a length was
    declared (`n ≥ 0`), exactly that length. -/
theorem checkreader_eof_iff (want : Key) (n : Int) (rs : List ReadRes) :
    (CR.run sha (CR.new want n) rs).2 = .eof ↔
      ∃ b, complete rs = some b ∧ sha b = want ∧ (n < 0 ∨ (b.length : Int) = n) := by
  rw [CR.run_eof_iff]
  have key : ∀ b : Bytes, (CR.new want n).accepts sha b ↔ (sha b = want ∧ (n < 0 ∨ (b.length : Int) = n)) := by
    intro b
    simp only [CR.accepts, CR.new, List.nil_append]
    by_cases hn : n < 0
    · simp [hn]
    · rw [if_neg hn]
  constructor
  · rintro ⟨b, hb, hacc⟩
    exact ⟨b, hb, (key b).1 hacc⟩
  · rintro ⟨b, hb, hacc⟩
    exact ⟨b, hb, (key b).2 hacc⟩

/-- non-vacuity: an intact stream in three reads (one empty, the last with EOF) ends in EOF,
    with and without declared length; a flipped byte, a truncation, an extension and a wrong
    declared length do not -/
example :
    (CR.run toySha (CR.new k123 3) [⟨[1, 2], .none⟩, ⟨[], .none⟩, ⟨[3], .eof⟩]) = ([1, 2, 3], .eof) ∧
    (CR.run toySha (CR.new k123 (-7)) [⟨[1], .none⟩, ⟨[2], .none⟩, ⟨[3], .none⟩, ⟨[], .eof⟩]) = ([1, 2, 3], .eof) ∧
    (CR.run toySha (CR.new k123 3) [⟨[1, 2], .none⟩, ⟨[4], .eof⟩]).2 = .badHash ∧
    (CR.run toySha (CR.new k123 3) [⟨[1, 2], .eof⟩]).2 = .badLen ∧
    (CR.run toySha (CR.new k123 (-1)) [⟨[1, 2], .eof⟩]).2 = .badHash ∧
    (CR.run toySha (CR.new k123 3) [⟨[1, 2, 3], .none⟩, ⟨[0], .eof⟩]).2 = .badLen ∧
    (CR.run toySha (CR.new k123 4) [⟨[1, 2, 3], .eof⟩]).2 = .badLen ∧
    (CR.run toySha (CR.new k123 3) [⟨[1, 2], .none⟩, ⟨[3], .other 9⟩]) = ([1, 2, 3], .other 9) := by decide

example : ∃ b, complete [⟨[1, 2], .none⟩, ⟨[], .none⟩, ⟨[3], .eof⟩] = some b ∧ toySha b = k123 ∧
    ((3 : Int) < 0 ∨ (b.length : Int) = 3) :=
  (checkreader_eof_iff toySha k123 3 _).1 (by decide)

/-- the explicit chunking form: chunks `cs` delivered with `nil`, then `last` with `io.EOF`
    (`last = []` is the usual `(0, io.EOF)`) -/
theorem checkreader_chunks (want : Key) (n : Int) (cs : List Bytes) (last : Bytes) :
    (CR.run sha (CR.new want n) (cs.map (fun c => ⟨c, .none⟩) ++ [⟨last, .eof⟩])).2 = .eof ↔
      sha (cs.flatten ++ last) = want ∧ (n < 0 ∨ ((cs.flatten ++ last).length : Int) = n) := by
  have hc : complete (cs.map (fun c => (⟨c, .none⟩ : ReadRes)) ++ [⟨last, .eof⟩]) = some (cs.flatten ++ last) := by
    induction cs with
    | nil => simp [complete]
    | cons c cs ih => simp [complete, ih, List.append_assoc]
  rw [checkreader_eof_iff, hc]
  simp

/-- the rest of the contract: all bytes of an ended stream are delivered; an ended stream
    gets `eof`, `badLen` or `badHash`; other errors pass through with the bytes before them -/
theorem checkreader_passthrough (want : Key) (n : Int) (rs : List ReadRes) :
    (∀ b, complete rs = some b → (CR.run sha (CR.new want n) rs).1 = b ∧
      ((CR.run sha (CR.new want n) rs).2 = .eof ∨ (CR.run sha (CR.new want n) rs).2 = .badLen ∨
       (CR.run sha (CR.new want n) rs).2 = .badHash)) ∧
    (∀ e, (drain rs).2 = .fail e → (CR.run sha (CR.new want n) rs).2 = .other e ∧
      (CR.run sha (CR.new want n) rs).1 = (drain rs).1) :=
  ⟨fun b hb => ⟨CR.run_data sha _ rs b hb, CR.run_out sha _ rs b hb⟩, fun e he => CR.run_fail sha _ rs e he⟩

end PubModel.C18
