/-
C18 — obligations that connect the *regenerated* facts (`Gen.C18Facts`,
rewritten from /repo's source on every run) to what the theorems need from the
code.  All closed by `decide`.  Only facts the property depends on are
obligations; the lock discipline and the exact call order of `commit` are
regenerated too (shown in the evidence) but tracked by source hash and
correspondence, because `rename` alone already keeps the store exact.
-/
import PubModel.C18.Model
import PubModel.Gen.C18Facts

namespace PubModel.C18
open PubModel.Gen

/-- position of the first occurrence -/
def posOf (l : List String) (x : String) : Option Nat :=
  let i := l.findIdx (fun y => y = x)
  if i < l.length then some i else none

/-- `a` occurs, and `b` occurs after the first `a` -/
def before (l : List String) (a b : String) : Bool :=
  match posOf l a, posOf l b with
  | some i, some j => decide (i < j)
  | _, _ => false

/-- does the regenerated `isValidKey` accept this byte? -/
def genKeyChar (n : Nat) : Bool := C18Facts.keyRanges.any (fun r => decide (r.1 ≤ n) && decide (n ≤ r.2))

/-- `isValidKey` accepts what `hex.EncodeToString` of a SHA-256 digest produces, so `Create`
    never reaches its `panic` (hypothesis of `create_never_panics`) -/
theorem gen_key_accepts_sha256_hex :
    C18Facts.keyLen = 2 * shaSize ∧ C18Facts.keyLen = keyLen ∧
    ("0123456789abcdef".toList.all fun c => genKeyChar c.toNat && keyChar (UInt8.ofNat c.toNat)) = true := by
  decide

/-- keys cannot contain NUL, `.`, `/` or `\\`: `filepath.Join(dir, key)` stays a plain name in `dir`
    (and never names the `tmp` directory or anything below it) -/
theorem gen_key_rejects_path_bytes :
    ([0, 46, 47, 92].all fun n => !genKeyChar n) = true ∧ C18Facts.keyLen ≠ "tmp".length := by decide

/-- `Create` hashes a tee of the input into the temp file, and commits only after the hash
    of the whole input was computed (`Step.read` feeds file and hash together; `Step.lock` needs pc `closed`) -/
theorem gen_hash_of_tee_before_commit :
    C18Facts.hashesTee = true ∧
    before C18Facts.createCalls "createTemp" "io.TeeReader" = true ∧
    before C18Facts.createCalls "io.TeeReader" "hashutil.HashReader" = true ∧
    before C18Facts.createCalls "hashutil.HashReader" "commit" = true := by decide

/-- the deferred cleanup removes the temp file unless `commit` succeeded
    (`Step.cleanup` from every `failing` pc; `Step.unlockOk` is the only way to `done (ok k)`) -/
theorem gen_cleanup :
    C18Facts.cleanupGuarded = true ∧ C18Facts.cleanupRemovesTemp = true ∧
    C18Facts.clearsAfterCommit = true ∧
    before C18Facts.createCalls "createTemp" "defer func" = true ∧
    before C18Facts.createCalls "defer func" "hashutil.HashReader" = true := by decide

/-- `CheckReader.Read`: bytes that come with the EOF are hashed before the EOF test, and
    `io.EOF` is returned only after both the length and the digest test (`CR.read`) -/
theorem gen_check_complete :
    C18Facts.hashUpdateBeforeEofTest = true ∧
    before C18Facts.checkOrder "len" "eof" = true ∧ before C18Facts.checkOrder "digest" "eof" = true ∧
    posOf C18Facts.checkOrder "eof" = some (C18Facts.checkOrder.length - 1) := by decide

end PubModel.C18
