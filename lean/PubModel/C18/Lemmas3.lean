/-
C18 — `CheckReader` as a fold, and the `mem` / mapped stores.
-/
import PubModel.C18.Lemmas2

namespace PubModel.C18

/-! ## CheckReader -/

/-- what `Read` answers at EOF depends only on the bytes seen -/
def CR.accepts (sha : Bytes → Key) (c : CR) (b : Bytes) : Prop :=
  sha (c.seen ++ b) = c.want ∧ (c.wantLen < 0 ∨ ((c.seen ++ b).length : Int) = c.wantLen)

theorem CR.read_none {sha : Bytes → Key} (c : CR) (r : ReadRes) (h : r.err = .none) :
    c.read sha r = ({ c with seen := c.seen ++ r.data }, .nil) := by
  simp [CR.read, h]

theorem CR.read_other {sha : Bytes → Key} (c : CR) (r : ReadRes) (e : Nat) (h : r.err = .other e) :
    (c.read sha r).2 = .other e := by
  simp [CR.read, h]

theorem CR.read_eof_iff {sha : Bytes → Key} (c : CR) (r : ReadRes) (h : r.err = .eof) :
    (c.read sha r).2 = .eof ↔ c.accepts sha r.data := by
  simp only [CR.read, h, CR.accepts]
  by_cases h1 : 0 ≤ c.wantLen ∧ ((c.seen ++ r.data).length : Int) ≠ c.wantLen
  · rw [if_pos h1]
    constructor
    · intro h; cases h
    · rintro ⟨_, h3 | h3⟩
      · have := h1.1; omega
      · exact absurd h3 h1.2
  · rw [if_neg h1]
    by_cases h2 : sha (c.seen ++ r.data) ≠ c.want
    · rw [if_pos h2]
      constructor
      · intro h; cases h
      · rintro ⟨h3, _⟩; exact absurd h3 h2
    · rw [if_neg h2]
      have h2' : sha (c.seen ++ r.data) = c.want := Decidable.not_not.1 h2
      refine ⟨fun _ => ⟨h2', ?_⟩, fun _ => rfl⟩
      by_cases h3 : c.wantLen < 0
      · exact Or.inl h3
      · right
        have h0 : 0 ≤ c.wantLen := by omega
        exact Decidable.not_not.1 (fun hne => h1 ⟨h0, hne⟩)

theorem CR.read_eof_out {sha : Bytes → Key} (c : CR) (r : ReadRes) (h : r.err = .eof) :
    (c.read sha r).2 = .eof ∨ (c.read sha r).2 = .badLen ∨ (c.read sha r).2 = .badHash := by
  simp only [CR.read, h]
  split
  · simp
  · split <;> simp

theorem CR.run_eof_iff (sha : Bytes → Key) (c : CR) (rs : List ReadRes) :
    (CR.run sha c rs).2 = .eof ↔ ∃ b, complete rs = some b ∧ c.accepts sha b := by
  induction rs generalizing c with
  | nil => simp [CR.run, complete]
  | cons r rs ih =>
    cases hr : r.err with
    | none =>
      have hread := CR.read_none (sha := sha) c r hr
      simp only [CR.run, hread, complete, hr, Option.map_eq_some_iff]
      rw [ih]
      constructor
      · rintro ⟨b, hb, hacc⟩
        refine ⟨r.data ++ b, ⟨b, hb, rfl⟩, ?_⟩
        simpa [CR.accepts, List.append_assoc] using hacc
      · rintro ⟨b', ⟨b, hb, rfl⟩, hacc⟩
        refine ⟨b, hb, ?_⟩
        simpa [CR.accepts, List.append_assoc] using hacc
    | eof =>
      have hiff := CR.read_eof_iff (sha := sha) c r hr
      have hout := CR.read_eof_out (sha := sha) c r hr
      simp only [complete, hr, Option.some.injEq, exists_eq_left']
      rw [← hiff]
      rcases hout with ho | ho | ho <;> simp [CR.run, ho]
    | other e =>
      have ho := CR.read_other (sha := sha) c r e hr
      simp [CR.run, ho, complete, hr]

/-- the consumer receives every byte of a stream that reaches EOF, whatever the verdict -/
theorem CR.run_data (sha : Bytes → Key) (c : CR) (rs : List ReadRes) (b : Bytes)
    (h : complete rs = some b) : (CR.run sha c rs).1 = b := by
  induction rs generalizing c b with
  | nil => simp [complete] at h
  | cons r rs ih =>
    cases hr : r.err with
    | none =>
      have hread := CR.read_none (sha := sha) c r hr
      simp only [complete, hr, Option.map_eq_some_iff] at h
      obtain ⟨b', hb', rfl⟩ := h
      simp only [CR.run, hread]
      rw [ih _ b' hb']
    | eof =>
      simp only [complete, hr, Option.some.injEq] at h
      subst h
      rcases CR.read_eof_out (sha := sha) c r hr with ho | ho | ho <;> simp [CR.run, ho]
    | other e => simp [complete, hr] at h

/-- a stream that reaches EOF ends in `eof`, `badLen` or `badHash` -/
theorem CR.run_out (sha : Bytes → Key) (c : CR) (rs : List ReadRes) (b : Bytes)
    (h : complete rs = some b) :
    (CR.run sha c rs).2 = .eof ∨ (CR.run sha c rs).2 = .badLen ∨ (CR.run sha c rs).2 = .badHash := by
  induction rs generalizing c b with
  | nil => simp [complete] at h
  | cons r rs ih =>
    cases hr : r.err with
    | none =>
      have hread := CR.read_none (sha := sha) c r hr
      simp only [complete, hr, Option.map_eq_some_iff] at h
      obtain ⟨b', hb', rfl⟩ := h
      simp only [CR.run, hread]
      exact ih _ b' hb'
    | eof =>
      rcases CR.read_eof_out (sha := sha) c r hr with ho | ho | ho <;> simp [CR.run, ho]
    | other e => simp [complete, hr] at h

/-- errors of the underlying reader other than EOF are passed through -/
theorem CR.run_fail (sha : Bytes → Key) (c : CR) (rs : List ReadRes) (e : Nat)
    (h : (drain rs).2 = .fail e) :
    (CR.run sha c rs).2 = .other e ∧ (CR.run sha c rs).1 = (drain rs).1 := by
  induction rs generalizing c with
  | nil => simp [drain] at h
  | cons r rs ih =>
    cases hr : r.err with
    | none =>
      have hread := CR.read_none (sha := sha) c r hr
      simp only [drain, hr] at h
      simp only [CR.run, hread, drain, hr]
      have := ih { c with seen := c.seen ++ r.data } h
      exact ⟨this.1, by rw [this.2]⟩
    | eof => simp [drain, hr] at h
    | other e' =>
      have ho := CR.read_other (sha := sha) c r e' hr
      simp only [drain, hr, Ending.fail.injEq] at h
      subst h
      simp [CR.run, ho, drain, hr]

/-! ## mem / mapped -/

def MemInv (sha : Bytes → Key) (m : Mem) : Prop := ∀ k b, (k, b) ∈ m.blobs → sha b = k

theorem Mem.mem_put {sha : Bytes → Key} {m : Mem} {bs : Bytes} {k : Key} {b : Bytes}
    (h : (k, b) ∈ (m.put sha bs).1.blobs) : (k, b) ∈ m.blobs ∨ (k = sha bs ∧ b = bs) := by
  simp only [Mem.put, List.mem_cons, Prod.mk.injEq, List.mem_filter] at h
  rcases h with h | h
  · exact Or.inr h
  · exact Or.inl h.1

theorem Mem.get_put_self (sha : Bytes → Key) (m : Mem) (bs : Bytes) :
    (m.put sha bs).1.get (sha bs) = some bs := by
  simp [Mem.put, Mem.get]

theorem Mem.create_of_complete {sha : Bytes → Key} (m : Mem) {input : List ReadRes} {b : Bytes}
    (h : complete input = some b) : m.create sha input = ((m.put sha b).1, .ok (sha b)) := by
  have := (complete_eq_drain input b).1 h
  simp [Mem.create, this, Mem.put]

theorem Mem.create_of_incomplete {sha : Bytes → Key} (m : Mem) {input : List ReadRes}
    (h : complete input = none) : (m.create sha input).1 = m ∧ ∀ k, (m.create sha input).2 ≠ .ok k := by
  unfold Mem.create
  cases hd : drain input with
  | mk b e =>
    cases e with
    | eof =>
      have := (complete_eq_drain input b).2 hd
      rw [h] at this
      cases this
    | fail e => simp
    | stuck => simp

theorem Mem.mem_step {sha : Bytes → Key} {m : Mem} {op : MemOp} {k : Key} {b : Bytes}
    (h : (k, b) ∈ (m.step sha op).blobs) :
    (k, b) ∈ m.blobs ∨ (k = sha b ∧ (op = .put b ∨ ∃ input, op = .create input ∧ complete input = some b)) := by
  cases op with
  | put bs =>
    rcases Mem.mem_put (sha := sha) h with h | ⟨rfl, rfl⟩
    · exact Or.inl h
    · exact Or.inr ⟨rfl, Or.inl rfl⟩
  | create input =>
    simp only [Mem.step] at h
    cases hc : complete input with
    | none =>
      rw [(Mem.create_of_incomplete (sha := sha) m hc).1] at h
      exact Or.inl h
    | some c =>
      rw [Mem.create_of_complete m hc] at h
      rcases Mem.mem_put (sha := sha) h with h | ⟨rfl, rfl⟩
      · exact Or.inl h
      · exact Or.inr ⟨rfl, Or.inr ⟨input, rfl, hc⟩⟩

theorem Mem.mem_run {sha : Bytes → Key} {ops : List MemOp} {m : Mem} {k : Key} {b : Bytes}
    (h : (k, b) ∈ (m.run sha ops).blobs) :
    (k, b) ∈ m.blobs ∨ (k = sha b ∧ ∃ op ∈ ops, op = .put b ∨ ∃ input, op = .create input ∧ complete input = some b) := by
  induction ops generalizing m with
  | nil => exact Or.inl h
  | cons op ops ih =>
    simp only [Mem.run, List.foldl_cons] at h
    rcases ih (m := m.step sha op) h with h | ⟨hk, op', hm, hop⟩
    · rcases Mem.mem_step h with h | ⟨hk, hop⟩
      · exact Or.inl h
      · exact Or.inr ⟨hk, op, List.mem_cons_self, hop⟩
    · exact Or.inr ⟨hk, op', List.mem_cons_of_mem _ hm, hop⟩

end PubModel.C18
