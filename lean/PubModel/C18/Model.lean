/-
C18 — content-addressed objects (`/repo/objects`) and checked streams
(`/repo/hashutil`).  Core Lean only.

Everything is parametric in `sha : Bytes → Key` (a *parameter*, never an
axiom): the theorems hold for every function, the driver instantiates it with
a table of SHA-256 values supplied by the harness.

* input readers are lists of read results `(data, err)`; one list is one way
  of chunking a stream and of failing it (`RErr.other`) at some offset;
  `(n > 0, err)` delivered together is an element with non-empty data;
* `fsObjects` (`objects/fs.go`) is a transition system: one constructor of
  `Step` per atomic action of `Create`/`commit` and of the deferred cleanup;
  `Open`/`Has` are observations of a state (they are single system calls under
  the read lock, so they see exactly one state);
* `mem` / `mappedStore` (`objects/mem.go`, `mapped.go`): the whole critical
  section of `put` is one atomic action;
* `CheckReader.Read` (`hashutil/check_reader.go`) is a fold over read results.
-/
import PubModel.Common.Hex

namespace PubModel.C18

/-- A key: the bytes of the key string (fs/mem stores) or a raw digest (CheckReader). -/
abbrev Key := Bytes

/-! ## Input readers -/

/-- the error half of one `Read` result -/
inductive RErr where
  | none
  | eof
  | other (code : Nat)
  deriving DecidableEq, Repr

/-- one `Read` result `(buf[:n], err)` -/
structure ReadRes where
  data : Bytes
  err : RErr
  deriving DecidableEq, Repr

/-- how a reader ends: `stuck` = the list ran out without an error (a reader that blocks for ever) -/
inductive Ending where
  | eof
  | fail (code : Nat)
  | stuck
  deriving DecidableEq, Repr

/-- `io.ReadAll` / `io.Copy` / `bytes.Buffer.ReadFrom`: read until the first error;
    bytes delivered together with an error are consumed too. -/
def drain : List ReadRes → Bytes × Ending
  | [] => ([], .stuck)
  | r :: rs =>
    match r.err with
    | .none => (r.data ++ (drain rs).1, (drain rs).2)
    | .eof => (r.data, .eof)
    | .other e => (r.data, .fail e)

/-- the complete content of an input that reaches EOF; `none` when it fails or never ends -/
def complete : List ReadRes → Option Bytes
  | [] => none
  | r :: rs =>
    match r.err with
    | .none => (complete rs).map (fun b => r.data ++ b)
    | .eof => some r.data
    | .other _ => none

/-! ## Keys -/

def keyLen : Nat := 64

/-- `r >= 'a' && r <= 'z' || r >= '0' && r <= '9'`; a byte ≥ 0x80 is (part of) a
    rune ≥ 0x80 or U+FFFD, which fails both tests, so the byte-wise test is exact. -/
def keyChar (b : UInt8) : Bool :=
  (decide (97 ≤ b.toNat) && decide (b.toNat ≤ 122)) || (decide (48 ≤ b.toNat) && decide (b.toNat ≤ 57))

/-- `objects.isValidKey` -/
def isValidKey (k : Key) : Bool :=
  decide (k.length = keyLen) && k.all keyChar

/-- `hex.EncodeToString(digest)` as the bytes of the key string -/
def hexKey (d : Bytes) : Key := d.flatMap (fun b => (Hex.ofByte b).map (fun c => UInt8.ofNat c.toNat))

/-! ## `fsObjects` -/

/-- what `Create` returns -/
inductive Res where
  | ok (k : Key)
  | err (code : Nat)
  | panic
  deriving DecidableEq, Repr

/-- how a `Create` call fails -/
inductive Fail where
  | err (code : Nat)
  | panic
  deriving DecidableEq, Repr

def Fail.res : Fail → Res
  | .err e => .err e
  | .panic => .panic

/-- program counter of one `Create` call -/
inductive PC where
  | start                          -- before `createTemp`
  | copying                        -- temp file exists; inside `io.Copy(h, TeeReader(r, f))`
  | closed (k : Key)               -- copy hit EOF, `f.Close()` done, key valid; next `b.mu.Lock()`
  | locked (k : Key)               -- holds `mu`; next `hasFile(target)`
  | checked (k : Key) (has : Bool) -- holds `mu`; next `os.Remove(tmp)` / `os.Rename(tmp, target)`
  | unlocking (k : Key)            -- file operation done; holds `mu`; next deferred `Unlock`, `f = nil`, return
  | abort (code : Nat)             -- `commit` failed; holds `mu`; next deferred `Unlock`
  | failing (f : Fail)             -- returning an error / panicking; deferred `f.Close(); os.Remove(f.Name())` pending
  | done (r : Res)
  deriving DecidableEq, Repr

def PC.holds : PC → Bool
  | .locked _ | .checked _ _ | .unlocking _ | .abort _ => true
  | _ => false

def PC.finished : PC → Bool
  | .done _ => true
  | _ => false

/-- One `Create` call.  The temp file is a field of its creator: `createTemp`
    draws a fresh 256-bit random name, so temp files and creators are in
    bijection (assumption: no collision of these names). -/
structure Creator where
  input : List ReadRes     -- ghost: the whole input
  rest : List ReadRes      -- read results not yet consumed
  hashed : Bytes           -- bytes written to the hash so far
  tmp : Option Bytes       -- content of `<dir>/tmp/<name>` while it exists
  pc : PC
  deriving DecidableEq, Repr

def Creator.new (input : List ReadRes) : Creator := ⟨input, input, [], none, .start⟩

/-- `<dir>/<key>` files: key ↦ (content, ghost: index of the creator that renamed it in) -/
abbrev Objs := List (Key × Bytes × Nat)

structure St where
  objs : Objs
  mu : Option Nat          -- writer holding `b.mu`
  crs : List Creator
  deriving DecidableEq, Repr

def init (inputs : List (List ReadRes)) : St := ⟨[], none, inputs.map Creator.new⟩

/-- `hasFile(b.filename(k))`: objects are regular files -/
def hasObj (s : St) (k : Key) : Bool := (s.objs.lookup k).isSome

/-- pc after `io.Copy` returned nil: close, then `isValidKey(k)` or panic -/
def afterEof (sha : Bytes → Key) (h : Bytes) : PC :=
  if isValidKey (sha h) then .closed (sha h) else .failing .panic

/-- one `Read` through the tee: the bytes go to the file and to the hash even
    when an error comes with them -/
def Creator.feed (sha : Bytes → Key) (c : Creator) (r : ReadRes) (rs : List ReadRes) : Creator :=
  let h := c.hashed ++ r.data
  { c with
    rest := rs, hashed := h, tmp := c.tmp.map (fun t => t ++ r.data),
    pc := match r.err with
      | .none => .copying
      | .eof => afterEof sha h
      | .other e => .failing (.err e) }

/-- creator `i` moves to `c`; the mutex becomes `mu`, the object directory `objs` -/
def St.upd (s : St) (i : Nat) (c : Creator) (mu : Option Nat) (objs : Objs) : St := ⟨objs, mu, s.crs.set i c⟩

/-- `os.Rename(tmp, target)` replaces the target atomically -/
def renameIn (objs : Objs) (k : Key) (b : Bytes) (i : Nat) : Objs :=
  (k, b, i) :: objs.filter (fun o => o.1 ≠ k)

section
variable (sha : Bytes → Key)

/-- Atomic actions of concurrent `Create` calls on one store. -/
inductive Step : St → St → Prop
  | createTemp (s : St) (i : Nat) (c : Creator) :
      s.crs[i]? = some c → c.pc = .start →
      Step s (s.upd i { c with tmp := some [], pc := .copying } s.mu s.objs)
  | createFail (s : St) (i : Nat) (c : Creator) (e : Nat) :
      s.crs[i]? = some c → c.pc = .start →
      Step s (s.upd i { c with pc := .done (.err e) } s.mu s.objs)
  | read (s : St) (i : Nat) (c : Creator) (r : ReadRes) (rs : List ReadRes) :
      s.crs[i]? = some c → c.pc = .copying → c.rest = r :: rs →
      Step s (s.upd i (c.feed sha r rs) s.mu s.objs)
  | writeFail (s : St) (i : Nat) (c : Creator) (e : Nat) :
      s.crs[i]? = some c → c.pc = .copying →
      Step s (s.upd i { c with pc := .failing (.err e) } s.mu s.objs)
  | lock (s : St) (i : Nat) (c : Creator) (k : Key) :
      s.crs[i]? = some c → c.pc = .closed k → s.mu = none →
      Step s (s.upd i { c with pc := .locked k } (some i) s.objs)
  | stat (s : St) (i : Nat) (c : Creator) (k : Key) :
      s.crs[i]? = some c → c.pc = .locked k →
      Step s (s.upd i { c with pc := .checked k (hasObj s k) } s.mu s.objs)
  | statFail (s : St) (i : Nat) (c : Creator) (k : Key) (e : Nat) :
      s.crs[i]? = some c → c.pc = .locked k →
      Step s (s.upd i { c with pc := .abort e } s.mu s.objs)
  | removeDup (s : St) (i : Nat) (c : Creator) (k : Key) :
      s.crs[i]? = some c → c.pc = .checked k true →
      Step s (s.upd i { c with tmp := none, pc := .unlocking k } s.mu s.objs)
  | rename (s : St) (i : Nat) (c : Creator) (k : Key) (b : Bytes) :
      s.crs[i]? = some c → c.pc = .checked k false → c.tmp = some b →
      Step s (s.upd i { c with tmp := none, pc := .unlocking k } s.mu (renameIn s.objs k b i))
  | fileOpFail (s : St) (i : Nat) (c : Creator) (k : Key) (has : Bool) (e : Nat) :
      s.crs[i]? = some c → c.pc = .checked k has →
      Step s (s.upd i { c with pc := .abort e } s.mu s.objs)
  | unlockOk (s : St) (i : Nat) (c : Creator) (k : Key) :
      s.crs[i]? = some c → c.pc = .unlocking k →
      Step s (s.upd i { c with pc := .done (.ok k) } (none) s.objs)
  | unlockErr (s : St) (i : Nat) (c : Creator) (e : Nat) :
      s.crs[i]? = some c → c.pc = .abort e →
      Step s (s.upd i { c with pc := .failing (.err e) } (none) s.objs)
  | cleanup (s : St) (i : Nat) (c : Creator) (f : Fail) :
      s.crs[i]? = some c → c.pc = .failing f →
      Step s (s.upd i { c with tmp := none, pc := .done f.res } s.mu s.objs)

/-- reflexive-transitive closure -/
inductive Reach : St → St → Prop
  | refl (s : St) : Reach s s
  | tail {s t u : St} : Reach s t → Step sha t u → Reach s u

end

/-! ### observations -/

inductive OpenRes where
  | ok (content : Bytes)
  | notFound
  deriving DecidableEq, Repr

/-- `fsObjects.Open`: key syntax first, then `os.Open`; the descriptor keeps
    reading the file it was opened on, and objects are never written in place. -/
def fsOpen (s : St) (k : Key) : OpenRes :=
  if isValidKey k then
    match s.objs.lookup k with
    | some (b, _) => .ok b
    | none => .notFound
  else .notFound

/-- `fsObjects.Has` -/
def fsHas (s : St) (k : Key) : Bool := isValidKey k && hasObj s k

/-- the temp directory listing -/
def St.tmps (s : St) : List Bytes := s.crs.filterMap (·.tmp)

def St.allDone (s : St) : Prop := ∀ c ∈ s.crs, c.pc.finished = true

/-! ### executable form for the driver -/

inductive Act where
  | createTemp | createFail (e : Nat) | read | writeFail (e : Nat) | lock | stat | statFail (e : Nat)
  | fileOp | fileOpFail (e : Nat) | unlock | cleanup
  deriving DecidableEq, Repr

def apply (sha : Bytes → Key) (s : St) (i : Nat) (a : Act) : Option St :=
  match s.crs[i]? with
  | none => none
  | some c =>
    match a, c.pc with
    | .createTemp, .start => some (s.upd i { c with tmp := some [], pc := .copying } s.mu s.objs)
    | .createFail e, .start => some (s.upd i { c with pc := .done (.err e) } s.mu s.objs)
    | .read, .copying =>
      match c.rest with
      | [] => none
      | r :: rs => some (s.upd i (c.feed sha r rs) s.mu s.objs)
    | .writeFail e, .copying => some (s.upd i { c with pc := .failing (.err e) } s.mu s.objs)
    | .lock, .closed k =>
      if s.mu = none then some (s.upd i { c with pc := .locked k } (some i) s.objs) else none
    | .stat, .locked k => some (s.upd i { c with pc := .checked k (hasObj s k) } s.mu s.objs)
    | .statFail e, .locked _ => some (s.upd i { c with pc := .abort e } s.mu s.objs)
    | .fileOp, .checked k true => some (s.upd i { c with tmp := none, pc := .unlocking k } s.mu s.objs)
    | .fileOp, .checked k false =>
      match c.tmp with
      | some b => some (s.upd i { c with tmp := none, pc := .unlocking k } s.mu (renameIn s.objs k b i))
      | none => none
    | .fileOpFail e, .checked _ _ => some (s.upd i { c with pc := .abort e } s.mu s.objs)
    | .unlock, .unlocking k => some (s.upd i { c with pc := .done (.ok k) } (none) s.objs)
    | .unlock, .abort e => some (s.upd i { c with pc := .failing (.err e) } (none) s.objs)
    | .cleanup, .failing f => some (s.upd i { c with tmp := none, pc := .done f.res } s.mu s.objs)
    | _, _ => none

/-- the action of the failure-free path of the code at a program counter -/
def autoAct : PC → Option Act
  | .start => some .createTemp
  | .copying => some .read
  | .closed _ => some .lock
  | .locked _ => some .stat
  | .checked _ _ => some .fileOp
  | .unlocking _ => some .unlock
  | .abort _ => some .unlock
  | .failing _ => some .cleanup
  | .done _ => none

/-- run creator `i` (alone) until it needs its next read result or has returned -/
def settle (sha : Bytes → Key) : Nat → St → Nat → St
  | 0, s, _ => s
  | fuel + 1, s, i =>
    match s.crs[i]? with
    | none => s
    | some c =>
      if c.pc = .copying then s else
      match autoAct c.pc with
      | none => s
      | some a =>
        match apply sha s i a with
        | none => s
        | some s' => settle sha fuel s' i

/-- deliver the next read result to creator `i`, then let it run to its next `Read` call or return -/
def deliver (sha : Bytes → Key) (s : St) (i : Nat) : Option St :=
  match apply sha s i .read with
  | none => none
  | some s' => some (settle sha 8 s' i)

/-- a whole `Create` call, alone -/
def runCreate (sha : Bytes → Key) : Nat → St → Nat → St
  | 0, s, _ => s
  | fuel + 1, s, i =>
    let s1 := settle sha 8 s i
    match deliver sha s1 i with
    | none => s1
    | some s2 => runCreate sha fuel s2 i

def St.spawn (s : St) (input : List ReadRes) : St := { s with crs := s.crs ++ [Creator.new input] }

def St.result (s : St) (i : Nat) : Option Res :=
  match s.crs[i]? with
  | some c => match c.pc with
    | .done r => some r
    | _ => none
  | none => none

/-! ## `mem` and `mappedStore` -/

structure Mem where
  blobs : List (Key × Bytes)
  deriving DecidableEq, Repr

def Mem.empty : Mem := ⟨[]⟩

/-- `mem.put` (and `mem.Put` after its copy): `m.blobs[Hash(bs)] = bs` under the mutex -/
def Mem.put (sha : Bytes → Key) (m : Mem) (bs : Bytes) : Mem × Key :=
  (⟨(sha bs, bs) :: m.blobs.filter (fun o => o.1 ≠ sha bs)⟩, sha bs)

/-- `mem.Get`, `mem.Open` (no key syntax check) -/
def Mem.get (m : Mem) (k : Key) : Option Bytes := m.blobs.lookup k

def Mem.has (m : Mem) (k : Key) : Bool := (m.blobs.lookup k).isSome

inductive CreateRes where
  | ok (k : Key)
  | err (code : Nat)
  | stuck
  deriving DecidableEq, Repr

/-- `mem.Create`: `io.ReadAll`, then `put`; `mappedStore.Create`:
    `io.Copy(buf, r)`, then `Store.Put` — the same function of the input. -/
def Mem.create (sha : Bytes → Key) (m : Mem) (input : List ReadRes) : Mem × CreateRes :=
  match drain input with
  | (b, .eof) => ((m.put sha b).1, .ok (m.put sha b).2)
  | (_, .fail e) => (m, .err e)
  | (_, .stuck) => (m, .stuck)

/-- operations on a `mem`/mapped store; each is one critical section, so every
    concurrent run is a sequence of them in some order -/
inductive MemOp where
  | create (input : List ReadRes)
  | put (bs : Bytes)
  deriving DecidableEq, Repr

def Mem.step (sha : Bytes → Key) (m : Mem) : MemOp → Mem
  | .create input => (m.create sha input).1
  | .put bs => (m.put sha bs).1

def Mem.run (sha : Bytes → Key) (m : Mem) (ops : List MemOp) : Mem := ops.foldl (Mem.step sha) m

/-! ## `CheckReader` -/

inductive COut where
  | nil
  | eof
  | badLen
  | badHash
  | other (code : Nat)
  deriving DecidableEq, Repr

structure CR where
  seen : Bytes     -- everything written to the hash; `r.n = seen.length`
  want : Key       -- `wantSha256`
  wantLen : Int    -- `-1`: no declared length
  deriving DecidableEq, Repr

/-- `NewSHA256CheckReader` -/
def CR.new (want : Key) (n : Int) : CR := ⟨[], want, if n < 0 then -1 else n⟩

/-- `CheckReader.Read` on one result of the underlying reader -/
def CR.read (sha : Bytes → Key) (c : CR) (r : ReadRes) : CR × COut :=
  let c' : CR := { c with seen := c.seen ++ r.data }
  match r.err with
  | .none => (c', .nil)
  | .other e => (c', .other e)
  | .eof =>
    if 0 ≤ c'.wantLen ∧ (c'.seen.length : Int) ≠ c'.wantLen then (c', .badLen)
    else if sha c'.seen ≠ c'.want then (c', .badHash)
    else (c', .eof)

/-- a consumer that reads until the first error: the bytes it received and that error
    (`nil` when the underlying results run out first) -/
def CR.run (sha : Bytes → Key) : CR → List ReadRes → Bytes × COut
  | _, [] => ([], .nil)
  | c, r :: rs =>
    match (c.read sha r).2 with
    | .nil => (r.data ++ (CR.run sha (c.read sha r).1 rs).1, (CR.run sha (c.read sha r).1 rs).2)
    | o => (r.data, o)

def shaSize : Nat := 32

inductive NewRes where
  | ok (want : Key)
  | badPrefix
  | badHex
  | badSize
  deriving DecidableEq, Repr

def shaPrefix : List Char := "sha256:".toList

/-- `NewCheckReader`'s parsing of `"sha256:<hex>"` -/
def parseWant (h : List Char) : NewRes :=
  if shaPrefix.isPrefixOf h then
    match Hex.decodeChars (h.drop shaPrefix.length) with
    | none => .badHex
    | some d => if d.length = shaSize then .ok d else .badSize
  else .badPrefix

end PubModel.C18
