import PubModel.C18.Theorems
open PubModel.C18
#print axioms store_inv
#print axioms create_key
#print axioms failed_create_leaves_nothing
#print axioms open_exact
#print axioms open_stable
#print axioms final_listing
#print axioms commit_exclusive
#print axioms mem_store_inv
#print axioms mem_open_exact
#print axioms mem_create_key
#print axioms mem_failed_create_unchanged
#print axioms checkreader_eof_iff
#print axioms checkreader_chunks
#print axioms checkreader_passthrough
#print axioms apply_sound
#print axioms create_never_panics
#print axioms sha256_hex_keys_valid
#print axioms gen_key_accepts_sha256_hex
#print axioms gen_key_rejects_path_bytes
#print axioms gen_hash_of_tee_before_commit
#print axioms gen_cleanup
#print axioms gen_check_complete
