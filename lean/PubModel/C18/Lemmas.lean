/-
C18 — the inductive invariant of the `fsObjects` transition system and its
preservation by every atomic action.
-/
import PubModel.C18.Model

namespace PubModel.C18

/-! ## inputs -/

theorem complete_eq_drain (rs : List ReadRes) (b : Bytes) :
    complete rs = some b ↔ drain rs = (b, .eof) := by
  induction rs generalizing b with
  | nil => simp [complete, drain]
  | cons r rs ih =>
    cases hr : r.err with
    | none =>
      simp only [complete, drain, hr, Option.map_eq_some_iff, Prod.mk.injEq]
      constructor
      · rintro ⟨a, ha, rfl⟩
        have := (ih a).1 ha
        simp [this]
      · rintro ⟨h1, h2⟩
        refine ⟨(drain rs).1, (ih _).2 ?_, h1⟩
        rw [← h2]
    | eof => simp [complete, drain, hr]
    | other e => simp [complete, drain, hr]

theorem drain_fail_complete (rs : List ReadRes) (e : Nat) (h : (drain rs).2 = .fail e) :
    complete rs = none := by
  cases hc : complete rs with
  | none => rfl
  | some b =>
    have := (complete_eq_drain rs b).1 hc
    rw [this] at h
    cases h

/-! ## the invariant -/

/-- after EOF, before the rename/remove: temp file complete, key computed from all of it -/
def Mid (sha : Bytes → Key) (c : Creator) (k : Key) : Prop :=
  c.tmp = some c.hashed ∧ complete c.input = some c.hashed ∧ k = sha c.hashed ∧ isValidKey k = true

/-- after the rename/remove -/
def Fin (sha : Bytes → Key) (c : Creator) (k : Key) : Prop :=
  c.tmp = none ∧ complete c.input = some c.hashed ∧ k = sha c.hashed ∧ isValidKey k = true

def CrOK (sha : Bytes → Key) (c : Creator) : Prop :=
  match c.pc with
  | .start => c.tmp = none ∧ c.hashed = [] ∧ c.rest = c.input
  | .copying => c.tmp = some c.hashed ∧
      complete c.input = (complete c.rest).map (fun b => c.hashed ++ b)
  | .closed k => Mid sha c k
  | .locked k => Mid sha c k
  | .checked k _ => Mid sha c k
  | .unlocking k => Fin sha c k
  | .done (.ok k) => Fin sha c k
  | .done _ => c.tmp = none
  | .abort _ => True
  | .failing _ => True

/-- pc of a creator that has put (or found) its object -/
def Owns (c : Creator) (k : Key) : Prop := c.pc = .unlocking k ∨ c.pc = .done (.ok k)

structure Inv (sha : Bytes → Key) (s : St) : Prop where
  cr : ∀ (i : Nat) (c : Creator), s.crs[i]? = some c → CrOK sha c
  mu : ∀ (i : Nat) (c : Creator), s.crs[i]? = some c → c.pc.holds = true → s.mu = some i
  obj : ∀ (k : Key) (b : Bytes) (i : Nat), (k, b, i) ∈ s.objs →
    sha b = k ∧ isValidKey k = true ∧
    ∃ c, s.crs[i]? = some c ∧ complete c.input = some b ∧ Owns c k

theorem getElem?_upd {s : St} {i j : Nat} {c c' d : Creator} {mu : Option Nat} {objs : Objs}
    (hi : s.crs[i]? = some c) (h : (s.upd i c' mu objs).crs[j]? = some d) :
    (j = i ∧ d = c') ∨ (j ≠ i ∧ s.crs[j]? = some d) := by
  simp only [St.upd, List.getElem?_set] at h
  have hlt : i < s.crs.length := by
    rcases List.getElem?_eq_some_iff.1 hi with ⟨hl, _⟩
    exact hl
  by_cases hij : i = j
  · subst hij
    simp [hlt] at h
    exact Or.inl ⟨rfl, h.symm⟩
  · simp [hij] at h
    exact Or.inr ⟨fun e => hij e.symm, h⟩

theorem upd_self {s : St} {i : Nat} {c c' : Creator} {mu : Option Nat} {objs : Objs}
    (hi : s.crs[i]? = some c) : (s.upd i c' mu objs).crs[i]? = some c' := by
  have hlt : i < s.crs.length := by
    rcases List.getElem?_eq_some_iff.1 hi with ⟨hl, _⟩
    exact hl
  simp [St.upd, hlt]

theorem upd_ne {s : St} {i j : Nat} {c' : Creator} {mu : Option Nat} {objs : Objs} (hij : j ≠ i) :
    (s.upd i c' mu objs).crs[j]? = s.crs[j]? := by
  have : i ≠ j := fun e => hij e.symm
  simp [St.upd, this]

/-- One creator moves from `c` to `c'`; the mutex becomes `mu'`, the objects `objs'`. -/
theorem Inv.update {sha : Bytes → Key} {s : St} (h : Inv sha s) {i : Nat} {c c' : Creator}
    {mu' : Option Nat} {objs' : Objs}
    (hi : s.crs[i]? = some c) (hok : CrOK sha c') (hin : c'.input = c.input)
    (hown : ∀ k, Owns c k → Owns c' k)
    (hmu_i : c'.pc.holds = true → mu' = some i)
    (hmu_o : ∀ (j : Nat) (d : Creator), j ≠ i → s.crs[j]? = some d → d.pc.holds = true → mu' = some j)
    (hobj : ∀ (k : Key) (b : Bytes) (j : Nat), (k, b, j) ∈ objs' → (k, b, j) ∈ s.objs ∨
      (j = i ∧ sha b = k ∧ isValidKey k = true ∧ complete c'.input = some b ∧ Owns c' k)) :
    Inv sha (s.upd i c' mu' objs') := by
  constructor
  · intro j d hj
    rcases getElem?_upd hi hj with ⟨_, rfl⟩ | ⟨_, hd⟩
    · exact hok
    · exact h.cr j d hd
  · intro j d hj hh
    rcases getElem?_upd hi hj with ⟨rfl, rfl⟩ | ⟨hne, hd⟩
    · exact hmu_i hh
    · exact hmu_o j d hne hd hh
  · intro k b j hm
    rcases hobj k b j hm with hold | ⟨rfl, h1, h2, h3, h4⟩
    · obtain ⟨h1, h2, d, hd, hc, ho⟩ := h.obj k b j hold
      refine ⟨h1, h2, ?_⟩
      by_cases hji : j = i
      · subst hji
        have : d = c := by rw [hi] at hd; exact (Option.some.inj hd).symm
        subst this
        exact ⟨c', upd_self hi, by rw [hin]; exact hc, hown k ho⟩
      · exact ⟨d, by rw [upd_ne hji]; exact hd, hc, ho⟩
    · exact ⟨h1, h2, c', upd_self hi, h3, h4⟩

theorem Inv.init (sha : Bytes → Key) (inputs : List (List ReadRes)) : Inv sha (init inputs) := by
  constructor
  · intro i c hc
    simp only [PubModel.C18.init, List.getElem?_map, Option.map_eq_some_iff] at hc
    obtain ⟨inp, _, rfl⟩ := hc
    simp [CrOK, Creator.new]
  · intro i c hc hh
    simp only [PubModel.C18.init, List.getElem?_map, Option.map_eq_some_iff] at hc
    obtain ⟨inp, _, rfl⟩ := hc
    simp [Creator.new, PC.holds] at hh
  · intro k b i hm
    simp [PubModel.C18.init] at hm

theorem mem_renameIn {objs : Objs} {k k' : Key} {b b' : Bytes} {i j : Nat}
    (h : (k', b', j) ∈ renameIn objs k b i) : (k', b', j) ∈ objs ∨ (k' = k ∧ b' = b ∧ j = i) := by
  simp only [renameIn, List.mem_cons, Prod.mk.injEq, List.mem_filter] at h
  rcases h with h | h
  · exact Or.inr h
  · exact Or.inl h.1

theorem Inv.step {sha : Bytes → Key} {s t : St} (h : Inv sha s) (st : Step sha s t) : Inv sha t := by
  cases st with
  | createTemp i c hi hpc =>
    have hc := h.cr i c hi
    simp only [CrOK, hpc] at hc
    refine h.update hi ?_ rfl ?_ ?_ ?_ ?_
    · simp [CrOK, hc.2.1, hc.2.2]
    · intro k ho; simp [Owns, hpc] at ho
    · simp [PC.holds]
    · intro j d _ hd hh; exact h.mu j d hd hh
    · intro k b j hm; exact Or.inl hm
  | createFail i c e hi hpc =>
    have hc := h.cr i c hi
    simp only [CrOK, hpc] at hc
    refine h.update hi ?_ rfl ?_ ?_ ?_ ?_
    · simp [CrOK, hc.1]
    · intro k ho; simp [Owns, hpc] at ho
    · simp [PC.holds]
    · intro j d _ hd hh; exact h.mu j d hd hh
    · intro k b j hm; exact Or.inl hm
  | read i c r rs hi hpc hrest =>
    have hc := h.cr i c hi
    simp only [CrOK, hpc] at hc
    obtain ⟨htmp, hcomp⟩ := hc
    refine h.update hi ?_ rfl ?_ ?_ ?_ ?_
    · cases hr : r.err with
      | none =>
        simp only [CrOK, Creator.feed, hr, htmp, Option.map_some, true_and]
        rw [hcomp, hrest]
        simp [complete, hr, Option.map_map, Function.comp_def, List.append_assoc]
      | eof =>
        have hcomp' : complete c.input = some (c.hashed ++ r.data) := by
          rw [hcomp, hrest]; simp [complete, hr]
        by_cases hv : isValidKey (sha (c.hashed ++ r.data)) = true
        · simp [CrOK, Creator.feed, hr, afterEof, hv, Mid, htmp, hcomp']
        · simp [CrOK, Creator.feed, hr, afterEof, hv]
      | other e => simp [CrOK, Creator.feed, hr]
    · intro k ho; simp [Owns, hpc] at ho
    · intro hh
      by_cases hv : isValidKey (sha (c.hashed ++ r.data)) = true <;>
        cases hr : r.err <;> simp [Creator.feed, hr, PC.holds, afterEof, hv] at hh
    · intro j d _ hd hh; exact h.mu j d hd hh
    · intro k b j hm; exact Or.inl hm
  | writeFail i c e hi hpc =>
    refine h.update hi ?_ rfl ?_ ?_ ?_ ?_
    · simp [CrOK]
    · intro k ho; simp [Owns, hpc] at ho
    · simp [PC.holds]
    · intro j d _ hd hh; exact h.mu j d hd hh
    · intro k b j hm; exact Or.inl hm
  | lock i c k hi hpc hmu =>
    have hc := h.cr i c hi
    simp only [CrOK, hpc] at hc
    refine h.update hi ?_ rfl ?_ ?_ ?_ ?_
    · simpa [CrOK, Mid] using hc
    · intro k ho; simp [Owns, hpc] at ho
    · intro _; rfl
    · intro j d _ hd hh
      have := h.mu j d hd hh
      rw [hmu] at this; cases this
    · intro k b j hm; exact Or.inl hm
  | stat i c k hi hpc =>
    have hc := h.cr i c hi
    simp only [CrOK, hpc] at hc
    refine h.update hi ?_ rfl ?_ ?_ ?_ ?_
    · simpa [CrOK, Mid] using hc
    · intro k ho; simp [Owns, hpc] at ho
    · intro _; exact h.mu i c hi (by simp [hpc, PC.holds])
    · intro j d _ hd hh; exact h.mu j d hd hh
    · intro k b j hm; exact Or.inl hm
  | statFail i c k e hi hpc =>
    refine h.update hi ?_ rfl ?_ ?_ ?_ ?_
    · simp [CrOK]
    · intro k ho; simp [Owns, hpc] at ho
    · intro _; exact h.mu i c hi (by simp [hpc, PC.holds])
    · intro j d _ hd hh; exact h.mu j d hd hh
    · intro k b j hm; exact Or.inl hm
  | removeDup i c k hi hpc =>
    have hc := h.cr i c hi
    simp only [CrOK, hpc] at hc
    refine h.update hi ?_ rfl ?_ ?_ ?_ ?_
    · show Fin sha _ k; exact ⟨rfl, hc.2⟩
    · intro k ho; simp [Owns, hpc] at ho
    · intro _; exact h.mu i c hi (by simp [hpc, PC.holds])
    · intro j d _ hd hh; exact h.mu j d hd hh
    · intro k b j hm; exact Or.inl hm
  | rename i c k b hi hpc htmp =>
    have hc := h.cr i c hi
    simp only [CrOK, hpc] at hc
    obtain ⟨h1, h2, h3, h4⟩ := hc
    have hb : b = c.hashed := by rw [htmp] at h1; exact Option.some.inj h1
    refine h.update hi ?_ rfl ?_ ?_ ?_ ?_
    · show Fin sha _ k; exact ⟨rfl, h2, h3, h4⟩
    · intro k ho; simp [Owns, hpc] at ho
    · intro _; exact h.mu i c hi (by simp [hpc, PC.holds])
    · intro j d _ hd hh; exact h.mu j d hd hh
    · intro k' b' j hm
      rcases mem_renameIn hm with hm | ⟨rfl, rfl, rfl⟩
      · exact Or.inl hm
      · refine Or.inr ⟨rfl, ?_, h4, ?_, Or.inl rfl⟩
        · rw [hb, h3]
        · rw [hb]; exact h2
  | fileOpFail i c k has e hi hpc =>
    refine h.update hi ?_ rfl ?_ ?_ ?_ ?_
    · simp [CrOK]
    · intro k ho; simp [Owns, hpc] at ho
    · intro _; exact h.mu i c hi (by simp [hpc, PC.holds])
    · intro j d _ hd hh; exact h.mu j d hd hh
    · intro k b j hm; exact Or.inl hm
  | unlockOk i c k hi hpc =>
    have hc := h.cr i c hi
    simp only [CrOK, hpc] at hc
    refine h.update hi ?_ rfl ?_ ?_ ?_ ?_
    · simpa [CrOK, Fin] using hc
    · intro k' ho
      simp only [Owns, hpc] at ho
      rcases ho with ho | ho
      · cases ho; exact Or.inr rfl
      · cases ho
    · simp [PC.holds]
    · intro j d hne hd hh
      have h1 := h.mu j d hd hh
      have h2 := h.mu i c hi (by simp [hpc, PC.holds])
      rw [h1] at h2
      exact absurd (Option.some.inj h2) hne
    · intro k b j hm; exact Or.inl hm
  | unlockErr i c e hi hpc =>
    refine h.update hi ?_ rfl ?_ ?_ ?_ ?_
    · simp [CrOK]
    · intro k ho; simp [Owns, hpc] at ho
    · simp [PC.holds]
    · intro j d hne hd hh
      have h1 := h.mu j d hd hh
      have h2 := h.mu i c hi (by simp [hpc, PC.holds])
      rw [h1] at h2
      exact absurd (Option.some.inj h2) hne
    · intro k b j hm; exact Or.inl hm
  | cleanup i c f hi hpc =>
    refine h.update hi ?_ rfl ?_ ?_ ?_ ?_
    · cases f <;> simp [CrOK, Fail.res]
    · intro k ho; simp [Owns, hpc] at ho
    · simp [PC.holds]
    · intro j d _ hd hh; exact h.mu j d hd hh
    · intro k b j hm; exact Or.inl hm

theorem Inv.reach {sha : Bytes → Key} {s t : St} (h : Inv sha s) (r : Reach sha s t) : Inv sha t := by
  induction r with
  | refl => exact h
  | tail _ st ih => exact ih.step st

end PubModel.C18
