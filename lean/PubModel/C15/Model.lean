/-
C15 — model of the endpoint registry (server.go: upgrade / unmap / endpoint /
ServeBackName).  Each accepted endpoint connection is a lifecycle

  upgrade (atomic under Server.mu: kick the old entry, map the new one)
  → OnConnect → serve … → OnDisconnect → unmap (conditional, under the lock) → Close

and any number of lifecycles and look-ups interleave arbitrarily.
Endpoints are numbered in the order of their `upgrade` (history variable).
-/
namespace PubModel.C15

abbrev Name := Nat
abbrev Ep := Nat

/-- where a lifecycle is -/
inductive PC
  | mapped        -- upgrade done, OnConnect not yet called
  | connected     -- OnConnect returned, serving
  | ended         -- serve returned, OnDisconnect not yet called
  | notified      -- OnDisconnect called, unmap not yet run
  | finished      -- unmap ran
  deriving DecidableEq, Repr

structure Life where
  name : Name
  pc : PC
  session : Nat := 0           -- value returned by OnConnect
  connects : List Nat := []    -- sessions reported by OnConnect (history)
  disconnects : List Nat := [] -- sessions passed to OnDisconnect (history)
  deriving DecidableEq, Repr

structure St where
  lives : List Life := []              -- index = endpoint id, in upgrade order
  map : List (Name × Ep) := []         -- association list, at most one entry per name (see `lookup`)
  kicked : List Ep := []               -- endpoints whose asynchronous Close was started by a newer upgrade
  deriving Repr

def lookupIn : List (Name × Ep) → Name → Option Ep
  | [], _ => none
  | (a, b) :: m, n => if a = n then some b else lookupIn m n

def St.lookup (s : St) (n : Name) : Option Ep := lookupIn s.map n

def erase : List (Name × Ep) → Name → List (Name × Ep)
  | [], _ => []
  | (a, b) :: m, n => if a = n then erase m n else (a, b) :: erase m n

/-- `unconditional = true` is the mutant in which `unmap` deletes whatever is registered -/
inductive Step (unconditional : Bool) : St → St → Prop
  /-- Server.upgrade under the lock -/
  | upgrade (s : St) (n : Name) :
      Step unconditional s
        { lives := s.lives ++ [{ name := n, pc := .mapped }],
          map := (n, s.lives.length) :: erase s.map n,
          kicked := match s.lookup n with
            | some old => old :: s.kicked
            | none => s.kicked }
  /-- OnConnect returns a session value -/
  | connect (s : St) (e : Ep) (l : Life) (sess : Nat) (h : s.lives[e]? = some l) (hp : l.pc = .mapped) :
      Step unconditional s
        { s with lives := s.lives.set e { l with pc := .connected, session := sess, connects := l.connects ++ [sess] } }
  /-- the serve loop returns (kicked, severed, shut down, …) -/
  | serveEnd (s : St) (e : Ep) (l : Life) (h : s.lives[e]? = some l) (hp : l.pc = .connected) :
      Step unconditional s { s with lives := s.lives.set e { l with pc := .ended } }
  /-- deferred OnDisconnect -/
  | disconnect (s : St) (e : Ep) (l : Life) (h : s.lives[e]? = some l) (hp : l.pc = .ended) :
      Step unconditional s
        { s with lives := s.lives.set e { l with pc := .notified, disconnects := l.disconnects ++ [l.session] } }
  /-- deferred Server.unmap under the lock -/
  | unmap (s : St) (e : Ep) (l : Life) (h : s.lives[e]? = some l) (hp : l.pc = .notified) :
      Step unconditional s
        { s with lives := s.lives.set e { l with pc := .finished },
                 map := if unconditional || s.lookup l.name == some e then erase s.map l.name else s.map }

inductive Reach (u : Bool) : St → Prop
  | init : Reach u {}
  | step {s s' : St} : Reach u s → Step u s s' → Reach u s'

/-- the most recently upgraded endpoint for a name -/
def latest (lives : List Life) (n : Name) : Option Ep :=
  (lives.zipIdx.filter (fun p => p.1.name == n)).getLast?.map (·.2)

end PubModel.C15
