import PubModel.C15.Lemmas

namespace PubModel.C15

theorem getElem?_append_singleton (lives : List Life) (x : Life) (e : Nat) (l : Life)
    (h : (lives ++ [x])[e]? = some l) : (e < lives.length ∧ lives[e]? = some l) ∨ (e = lives.length ∧ l = x) := by
  by_cases he : e < lives.length
  · rw [List.getElem?_append_left he] at h
    exact Or.inl ⟨he, h⟩
  · have hge : lives.length ≤ e := Nat.le_of_not_lt he
    rw [List.getElem?_append_right hge] at h
    by_cases h0 : e - lives.length = 0
    · right
      rw [h0] at h
      simp at h
      exact ⟨by omega, h.symm⟩
    · have : 1 ≤ e - lives.length := by omega
      rw [List.getElem?_eq_none (by simpa using this)] at h
      cases h

theorem inv_step (s s' : St) (hinv : Inv s) (h : Step false s s') : Inv s' := by
  cases h with
  | connect e l sess hl hp =>
    exact inv_set s hinv e l _ hl rfl (by simp [hp]) (by simp)
      (by have := hinv.cb e l hl; simp [CbOk, hp] at this ⊢; simp [this])
  | serveEnd e l hl hp =>
    exact inv_set s hinv e l _ hl rfl (by simp [hp]) (by simp)
      (by have := hinv.cb e l hl; simp [CbOk, hp] at this ⊢; exact this)
  | disconnect e l hl hp =>
    exact inv_set s hinv e l _ hl rfl (by simp [hp]) (by simp)
      (by have := hinv.cb e l hl; simp [CbOk, hp] at this ⊢; simp [this])
  | upgrade n =>
    obtain ⟨hreg, hnew, hcbs⟩ := hinv
    refine ⟨?_, ?_, ?_⟩
    · intro n0 e0 hl
      simp only [St.lookup, lookupIn] at hl
      split at hl
      · rename_i hn
        injection hl with hl
        subst hl; subst hn
        refine ⟨{ name := n, pc := .mapped }, by simp, rfl, by simp, ?_⟩
        intro e' l' h' _
        rcases getElem?_append_singleton _ _ _ _ h' with ⟨hlt, _⟩ | ⟨heq, _⟩ <;> omega
      · rename_i hn
        rw [lookup_erase_ne _ _ _ (Ne.symm hn)] at hl
        obtain ⟨l0, hl0, hname, hpc0, hmax⟩ := hreg n0 e0 hl
        have hlt : e0 < s.lives.length := (List.getElem?_eq_some_iff.mp hl0).1
        refine ⟨l0, by rw [List.getElem?_append_left hlt]; exact hl0, hname, hpc0, ?_⟩
        intro e' l' h' hn'
        rcases getElem?_append_singleton _ _ _ _ h' with ⟨_, h2⟩ | ⟨_, h2⟩
        · exact hmax e' l' h2 hn'
        · subst h2; simp at hn'; exact absurd hn' hn
    · intro e0 l0 hl0 hpc0 hmax
      rcases getElem?_append_singleton _ _ _ _ hl0 with ⟨hlt, h2⟩ | ⟨heq, h2⟩
      · -- an older connection: it is newest for its name only if the name differs from n
        have hne : l0.name ≠ n := by
          intro hnn
          have := hmax s.lives.length { name := n, pc := .mapped } (by simp) (by simp [hnn])
          omega
        simp only [St.lookup, lookupIn]
        rw [if_neg (Ne.symm hne), lookup_erase_ne _ _ _ hne]
        apply hnew e0 l0 h2 hpc0
        intro e' l' h' hn'
        exact hmax e' l' (by
          have hlt' : e' < s.lives.length := (List.getElem?_eq_some_iff.mp h').1
          rw [List.getElem?_append_left hlt']; exact h') hn'
      · subst h2; subst heq
        simp [St.lookup, lookupIn]
    · intro e0 l0 hl0
      rcases getElem?_append_singleton _ _ _ _ hl0 with ⟨_, h2⟩ | ⟨_, h2⟩
      · exact hcbs e0 l0 h2
      · subst h2; simp [CbOk]
  | unmap e l hl hp =>
    obtain ⟨hreg, hnew, hcbs⟩ := hinv
    simp only [St.lookup] at hreg hnew
    simp only [Bool.false_or, St.lookup]
    have hcb' : CbOk { l with pc := .finished } := by
      have := hcbs e l hl; simp [CbOk, hp] at this ⊢; exact this
    by_cases hreg_e : lookupIn s.map l.name = some e
    · -- this connection is the registered one: its entry goes
      have hb : (lookupIn s.map l.name == some e) = true := by simp [hreg_e]
      simp only [hb, if_true]
      refine ⟨?_, ?_, ?_⟩
      · intro n0 e0 hlk
        simp only [St.lookup] at hlk
        by_cases hn : n0 = l.name
        · subst hn; rw [lookup_erase_self] at hlk; cases hlk
        · rw [lookup_erase_ne _ _ _ hn] at hlk
          obtain ⟨l0, hl0, hname, hpc0, hmax⟩ := hreg n0 e0 hlk
          have hee : e0 ≠ e := by
            intro h; subst h; rw [hl] at hl0; injection hl0 with hl0; subst hl0; exact hn hname.symm
          refine ⟨l0, by rw [List.getElem?_set]; simp [Ne.symm hee]; exact hl0, hname, hpc0, ?_⟩
          intro e' l' h' hn'
          obtain ⟨l3, h3, hn3, _, _⟩ := getElem?_set_name s.lives e l { l with pc := .finished } hl rfl e' l' h'
          exact hmax e' l3 h3 (hn3.trans hn')
      · intro e0 l0 hl0 hpc0 hmax
        obtain ⟨l1, h1, hn1, hne, heq⟩ := getElem?_set_name s.lives e l { l with pc := .finished } hl rfl e0 l0 hl0
        have hee : e0 ≠ e := by
          intro h; rw [heq h] at hpc0; simp at hpc0
        have hl01 : l1 = l0 := hne hee
        subst hl01
        have hmax' : ∀ (e' : Nat) (l2 : Life), s.lives[e']? = some l2 → l2.name = l1.name → e' ≤ e0 := by
          intro e' l2 h2 hn2
          by_cases he' : e' = e
          · subst he'
            rw [hl] at h2; injection h2 with h2; subst h2
            exact hmax e' { l with pc := .finished } (by
              rw [List.getElem?_set]; simp; exact (List.getElem?_eq_some_iff.mp hl).1) hn2
          · exact hmax e' l2 (by rw [List.getElem?_set]; simp [Ne.symm he']; exact h2) hn2
        have hreg0 := hnew e0 l1 h1 hpc0 hmax'
        simp only [St.lookup]
        have hnn : l1.name ≠ l.name := by
          intro hh
          rw [hh, hreg_e] at hreg0; injection hreg0 with hreg0; exact hee hreg0.symm
        rw [lookup_erase_ne _ _ _ hnn]; exact hreg0
      · intro e0 l0 hl0
        obtain ⟨l1, h1, _, hne, heq⟩ := getElem?_set_name s.lives e l { l with pc := .finished } hl rfl e0 l0 hl0
        by_cases he : e0 = e
        · rw [heq he]; exact hcb'
        · rw [← hne he]; exact hcbs e0 l1 h1
    · have hb : (lookupIn s.map l.name == some e) = false := by simpa using hreg_e
      simp only [hb, Bool.false_eq_true, if_false]
      refine ⟨?_, ?_, ?_⟩
      · intro n0 e0 hlk
        simp only [St.lookup] at hlk
        obtain ⟨l0, hl0, hname, hpc0, hmax⟩ := hreg n0 e0 hlk
        have hee : e0 ≠ e := by
          intro h; subst h; rw [hl] at hl0; injection hl0 with hl0; subst hl0
          subst hname; exact hreg_e hlk
        refine ⟨l0, by rw [List.getElem?_set]; simp [Ne.symm hee]; exact hl0, hname, hpc0, ?_⟩
        intro e' l' h' hn'
        obtain ⟨l3, h3, hn3, _, _⟩ := getElem?_set_name s.lives e l { l with pc := .finished } hl rfl e' l' h'
        exact hmax e' l3 h3 (hn3.trans hn')
      · intro e0 l0 hl0 hpc0 hmax
        obtain ⟨l1, h1, hn1, hne, heq⟩ := getElem?_set_name s.lives e l { l with pc := .finished } hl rfl e0 l0 hl0
        have hee : e0 ≠ e := by
          intro h; rw [heq h] at hpc0; simp at hpc0
        have hl01 : l1 = l0 := hne hee
        subst hl01
        have hmax' : ∀ (e' : Nat) (l2 : Life), s.lives[e']? = some l2 → l2.name = l1.name → e' ≤ e0 := by
          intro e' l2 h2 hn2
          by_cases he' : e' = e
          · subst he'
            rw [hl] at h2; injection h2 with h2; subst h2
            exact hmax e' { l with pc := .finished } (by
              rw [List.getElem?_set]; simp; exact (List.getElem?_eq_some_iff.mp hl).1) hn2
          · exact hmax e' l2 (by rw [List.getElem?_set]; simp [Ne.symm he']; exact h2) hn2
        simp only [St.lookup]
        exact hnew e0 l1 h1 hpc0 hmax'
      · intro e0 l0 hl0
        obtain ⟨l1, h1, _, hne, heq⟩ := getElem?_set_name s.lives e l { l with pc := .finished } hl rfl e0 l0 hl0
        by_cases he : e0 = e
        · rw [heq he]; exact hcb'
        · rw [← hne he]; exact hcbs e0 l1 h1

theorem inv_reach (s : St) (h : Reach false s) : Inv s := by
  induction h with
  | init => exact inv_init
  | step _ hs ih => exact inv_step _ _ ih hs

end PubModel.C15
