/-
Executable trace checker for the registry model; `exec_sound` ties it to `Step`.
-/
import PubModel.C15.Model
import PubModel.Gen.Registry

namespace PubModel.C15

inductive Ev
  | upgrade (n : Name)
  | connect (e : Nat) (sess : Nat)
  | serveEnd (e : Nat)
  | disconnect (e : Nat)
  | unmap (e : Nat)
  deriving Repr

def exec (u : Bool) (s : St) : Ev → Option St
  | .upgrade n => some
      { lives := s.lives ++ [{ name := n, pc := .mapped }],
        map := (n, s.lives.length) :: erase s.map n,
        kicked := match s.lookup n with
          | some old => old :: s.kicked
          | none => s.kicked }
  | .connect e sess =>
    match s.lives[e]? with
    | some l => if l.pc = .mapped then
        some { s with lives := s.lives.set e { l with pc := .connected, session := sess, connects := l.connects ++ [sess] } }
      else none
    | none => none
  | .serveEnd e =>
    match s.lives[e]? with
    | some l => if l.pc = .connected then some { s with lives := s.lives.set e { l with pc := .ended } } else none
    | none => none
  | .disconnect e =>
    match s.lives[e]? with
    | some l => if l.pc = .ended then
        some { s with lives := s.lives.set e { l with pc := .notified, disconnects := l.disconnects ++ [l.session] } }
      else none
    | none => none
  | .unmap e =>
    match s.lives[e]? with
    | some l => if l.pc = .notified then
        some { s with lives := s.lives.set e { l with pc := .finished },
                      map := if u || s.lookup l.name == some e then erase s.map l.name else s.map }
      else none
    | none => none

theorem exec_sound (u : Bool) (s s' : St) (ev : Ev) (h : exec u s ev = some s') : Step u s s' := by
  cases ev with
  | upgrade n => simp only [exec] at h; injection h with h; subst h; exact Step.upgrade s n
  | connect e sess =>
    simp only [exec] at h
    split at h
    · rename_i l hl
      split at h
      · rename_i hp; injection h with h; subst h; exact Step.connect s e l sess hl hp
      · cases h
    · cases h
  | serveEnd e =>
    simp only [exec] at h
    split at h
    · rename_i l hl
      split at h
      · rename_i hp; injection h with h; subst h; exact Step.serveEnd s e l hl hp
      · cases h
    · cases h
  | disconnect e =>
    simp only [exec] at h
    split at h
    · rename_i l hl
      split at h
      · rename_i hp; injection h with h; subst h; exact Step.disconnect s e l hl hp
      · cases h
    · cases h
  | unmap e =>
    simp only [exec] at h
    split at h
    · rename_i l hl
      split at h
      · rename_i hp; injection h with h; subst h; exact Step.unmap s e l hl hp
      · cases h
    · cases h

end PubModel.C15
