import PubModel.C15.Model

namespace PubModel.C15

theorem lookup_erase_self (m : List (Name × Ep)) (n : Name) : lookupIn (erase m n) n = none := by
  induction m with
  | nil => rfl
  | cons p m ih =>
    obtain ⟨a, b⟩ := p
    simp only [erase]
    split
    · exact ih
    · rename_i h; simp [lookupIn, h, ih]

theorem lookup_erase_ne (m : List (Name × Ep)) (n n' : Name) (h : n' ≠ n) :
    lookupIn (erase m n) n' = lookupIn m n' := by
  induction m with
  | nil => rfl
  | cons p m ih =>
    obtain ⟨a, b⟩ := p
    simp only [erase]
    split
    · rename_i ha
      subst ha
      simp [lookupIn, ih, Ne.symm h]
    · simp only [lookupIn, ih]

/-- the callback history of one lifecycle, by program counter -/
def CbOk (l : Life) : Prop :=
  match l.pc with
  | .mapped => l.connects = [] ∧ l.disconnects = []
  | .connected => l.connects = [l.session] ∧ l.disconnects = []
  | .ended => l.connects = [l.session] ∧ l.disconnects = []
  | .notified => l.connects = [l.session] ∧ l.disconnects = [l.session]
  | .finished => l.connects = [l.session] ∧ l.disconnects = [l.session]

structure Inv (s : St) : Prop where
  /-- what is registered is alive, carries that name, and is the newest connection for it -/
  reg : ∀ (n : Name) (e : Nat), s.lookup n = some e →
    ∃ l : Life, s.lives[e]? = some l ∧ l.name = n ∧ l.pc ≠ .finished ∧
      ∀ (e' : Nat) (l' : Life), s.lives[e']? = some l' → l'.name = n → e' ≤ e
  /-- the newest connection for a name stays registered until its own unmap -/
  newest : ∀ (e : Nat) (l : Life), s.lives[e]? = some l → l.pc ≠ .finished →
    (∀ (e' : Nat) (l' : Life), s.lives[e']? = some l' → l'.name = l.name → e' ≤ e) → s.lookup l.name = some e
  cb : ∀ (e : Nat) (l : Life), s.lives[e]? = some l → CbOk l

theorem inv_init : Inv ({} : St) :=
  ⟨by intro n e h; simp [St.lookup, lookupIn] at h, by intro e l h; simp at h, by intro e l h; simp at h⟩

/-- changing the pc of one lifecycle (not to `finished`) keeps names, so `reg`/`newest` carry over -/
theorem getElem?_set_name (lives : List Life) (e : Nat) (l l' : Life) (h : lives[e]? = some l)
    (hn : l'.name = l.name) (e2 : Nat) (l2 : Life) (h2 : (lives.set e l')[e2]? = some l2) :
    ∃ l0, lives[e2]? = some l0 ∧ l0.name = l2.name ∧ (e2 ≠ e → l0 = l2) ∧ (e2 = e → l2 = l') := by
  rw [List.getElem?_set] at h2
  split at h2
  · rename_i heq
    subst heq
    split at h2
    · injection h2 with h2
      subst h2
      exact ⟨l, h, hn.symm, fun hne => absurd rfl hne, fun _ => rfl⟩
    · cases h2
  · rename_i hne
    exact ⟨l2, h2, rfl, fun _ => rfl, fun heq => absurd heq.symm hne⟩


/-- a pc change of one lifecycle that does not finish it preserves the invariant -/
theorem inv_set (s : St) (hinv : Inv s) (e : Nat) (l l' : Life) (h : s.lives[e]? = some l)
    (hn : l'.name = l.name) (hlpc : l.pc ≠ .finished) (hpc : l'.pc ≠ .finished) (hcb : CbOk l') :
    Inv { s with lives := s.lives.set e l' } := by
  obtain ⟨hreg, hnew, hcbs⟩ := hinv
  refine ⟨?_, ?_, ?_⟩
  · intro n e0 hl
    obtain ⟨l0, hl0, hname, hpc0, hmax⟩ := hreg n e0 hl
    by_cases he : e0 = e
    · subst he
      rw [h] at hl0; injection hl0 with hl0; subst hl0
      refine ⟨l', ?_, hn.trans hname, hpc, ?_⟩
      · rw [List.getElem?_set]; simp; exact (List.getElem?_eq_some_iff.mp h).1
      · intro e' l2 h2 hn2
        obtain ⟨l3, h3, hn3, _, _⟩ := getElem?_set_name s.lives e0 l l' h hn e' l2 h2
        exact hmax e' l3 h3 (hn3.trans hn2)
    · refine ⟨l0, ?_, hname, hpc0, ?_⟩
      · rw [List.getElem?_set]; simp [Ne.symm he]; exact hl0
      · intro e' l2 h2 hn2
        obtain ⟨l3, h3, hn3, _, _⟩ := getElem?_set_name s.lives e l l' h hn e' l2 h2
        exact hmax e' l3 h3 (hn3.trans hn2)
  · intro e0 l0 hl0 hpc0 hmax
    obtain ⟨l1, h1, hn1, hne, heq⟩ := getElem?_set_name s.lives e l l' h hn e0 l0 hl0
    have hmax' : ∀ (e' : Nat) (l2 : Life), s.lives[e']? = some l2 → l2.name = l1.name → e' ≤ e0 := by
      intro e' l2 h2 hn2
      by_cases he' : e' = e
      · subst he'
        rw [h] at h2; injection h2 with h2; subst h2
        apply hmax e' l'
        · rw [List.getElem?_set]; simp; exact (List.getElem?_eq_some_iff.mp h).1
        · rw [hn, hn2, hn1]
      · apply hmax e' l2
        · rw [List.getElem?_set]; simp [Ne.symm he']; exact h2
        · rw [hn2, hn1]
    have hpc1 : l1.pc ≠ .finished := by
      by_cases he : e0 = e
      · subst he
        rw [h] at h1; injection h1 with h1; subst h1
        exact hlpc
      · rw [hne he]; exact hpc0
    have := hnew e0 l1 h1 hpc1 hmax'
    rw [← hn1]; exact this
  · intro e0 l0 hl0
    obtain ⟨l1, h1, _, hne, heq⟩ := getElem?_set_name s.lives e l l' h hn e0 l0 hl0
    by_cases he : e0 = e
    · rw [heq he]; exact hcb
    · rw [← hne he]; exact hcbs e0 l1 h1

end PubModel.C15
