import PubModel.C15.Theorems
import PubModel.C15.Exec
open PubModel.C15
#print axioms registered_is_newest_live
#print axioms newest_stays_registered
#print axioms old_never_unmaps_new
#print axioms ended_not_registered
#print axioms callbacks_pair
#print axioms unconditional_unmap_breaks
#print axioms gen_unmap_conditional
#print axioms gen_upgrade_atomic
#print axioms gen_defers_present
#print axioms inv_step
#print axioms inv_reach
#print axioms exec_sound
