/-
C15 — one live endpoint per name; newest wins; callbacks pair up.  Statement file.
All theorems hold for every interleaving of any number of connect / kick /
disconnect lifecycles on any set of names (`Reach false`).
-/
import PubModel.C15.Preserve
import PubModel.Gen.Registry

namespace PubModel.C15

/-- **A name resolves to at most one endpoint** — `lookup` is a function — **and that
    endpoint is alive, registered under that very name, and the most recently
    connected one for it.** -/
theorem registered_is_newest_live (s : St) (h : Reach false s) (n : Name) (e : Nat)
    (hl : s.lookup n = some e) :
    ∃ l : Life, s.lives[e]? = some l ∧ l.name = n ∧ l.pc ≠ .finished ∧
      ∀ (e' : Nat) (l' : Life), s.lives[e']? = some l' → l'.name = n → e' ≤ e :=
  (inv_reach s h).reg n e hl

/-- **The newest connection stays registered until it ends itself**: nothing an
    older connection does (its asynchronous close, its deferred unmap) removes it. -/
theorem newest_stays_registered (s : St) (h : Reach false s) (e : Nat) (l : Life)
    (hl : s.lives[e]? = some l) (hlive : l.pc ≠ .finished)
    (hnew : ∀ (e' : Nat) (l' : Life), s.lives[e']? = some l' → l'.name = l.name → e' ≤ e) :
    s.lookup l.name = some e :=
  (inv_reach s h).newest e l hl hlive hnew

/-- **The end of an older endpoint never unregisters a newer one** (one step). -/
theorem old_never_unmaps_new (s s' : St) (e : Nat) (l : Life) (hl : s.lives[e]? = some l)
    (hp : l.pc = .notified) (new : Nat) (hreg : s.lookup l.name = some new) (hne : new ≠ e)
    (hs : s' = { s with lives := s.lives.set e { l with pc := .finished },
                        map := if false || s.lookup l.name == some e then erase s.map l.name else s.map }) :
    s'.lookup l.name = some new := by
  subst hs
  have : (s.lookup l.name == some e) = false := by simp [hreg, hne]
  simp only [Bool.false_or, this, Bool.false_eq_true, if_false]
  exact hreg

/-- **An ended endpoint does not stay registered.** -/
theorem ended_not_registered (s : St) (h : Reach false s) (e : Nat) (l : Life)
    (hl : s.lives[e]? = some l) (hfin : l.pc = .finished) : s.lookup l.name ≠ some e := by
  intro hreg
  obtain ⟨l0, hl0, _, hpc, _⟩ := (inv_reach s h).reg l.name e hreg
  rw [hl] at hl0; injection hl0 with hl0; subst hl0
  exact hpc hfin

/-- **Callbacks pair up**: every accepted connection produces at most one connect
    notification, and once its lifecycle has run the deferred block exactly one connect
    and exactly one disconnect notification carrying the same session value. -/
theorem callbacks_pair (s : St) (h : Reach false s) (e : Nat) (l : Life) (hl : s.lives[e]? = some l) :
    l.connects.length ≤ 1 ∧ l.disconnects.length ≤ l.connects.length ∧
    (l.pc = .notified ∨ l.pc = .finished → l.connects = [l.session] ∧ l.disconnects = [l.session]) ∧
    (∀ d ∈ l.disconnects, d ∈ l.connects) := by
  have := (inv_reach s h).cb e l hl
  unfold CbOk at this
  cases hp : l.pc <;> simp [hp] at this <;> obtain ⟨h1, h2⟩ := this <;> simp [h1, h2]

/-! ### the mutant `unmap` without its guard breaks the property (kept as a theorem) -/

/-- two connections under one name: the newer one is registered, the older one's
    deferred unmap runs afterwards and — unguarded — deletes the newer entry -/
theorem unconditional_unmap_breaks :
    ∃ s, Reach true s ∧ ∃ (e : Nat) (l : Life), s.lives[e]? = some l ∧ l.pc = .connected ∧
      (∀ (e' : Nat) (l' : Life), s.lives[e']? = some l' → l'.name = l.name → e' ≤ e) ∧
      s.lookup l.name = none := by
  have s1 := Step.upgrade (unconditional := true) {} 7
  have s2 := Step.connect (unconditional := true)
    { lives := [{ name := 7, pc := .mapped }], map := [(7, 0)], kicked := [] } 0 { name := 7, pc := .mapped } 1 (by rfl) rfl
  have s3 := Step.upgrade (unconditional := true)
    { lives := [{ name := 7, pc := .connected, session := 1, connects := [1] }], map := [(7, 0)], kicked := [] } 7
  have s4 := Step.connect (unconditional := true)
    { lives := [{ name := 7, pc := .connected, session := 1, connects := [1] }, { name := 7, pc := .mapped }],
      map := [(7, 1)], kicked := [0] } 1 { name := 7, pc := .mapped } 2 (by rfl) rfl
  have s5 := Step.serveEnd (unconditional := true)
    { lives := [{ name := 7, pc := .connected, session := 1, connects := [1] },
                { name := 7, pc := .connected, session := 2, connects := [2] }],
      map := [(7, 1)], kicked := [0] } 0 { name := 7, pc := .connected, session := 1, connects := [1] } (by rfl) rfl
  have s6 := Step.disconnect (unconditional := true)
    { lives := [{ name := 7, pc := .ended, session := 1, connects := [1] },
                { name := 7, pc := .connected, session := 2, connects := [2] }],
      map := [(7, 1)], kicked := [0] } 0 { name := 7, pc := .ended, session := 1, connects := [1] } (by rfl) rfl
  have s7 := Step.unmap (unconditional := true)
    { lives := [{ name := 7, pc := .notified, session := 1, connects := [1], disconnects := [1] },
                { name := 7, pc := .connected, session := 2, connects := [2] }],
      map := [(7, 1)], kicked := [0] } 0
    { name := 7, pc := .notified, session := 1, connects := [1], disconnects := [1] } (by rfl) rfl
  refine ⟨_, ((((((Reach.init.step s1).step s2).step s3).step s4).step s5).step s6).step s7,
    1, { name := 7, pc := .connected, session := 2, connects := [2] }, by rfl, rfl, ?_, by rfl⟩
  intro e' l' h' _
  have : e' < 2 := (List.getElem?_eq_some_iff.mp h').1
  omega

/-! ### the regenerated instance -/

/-- the current source guards the delete in `unmap` by `s.endpoints[name] == ep`,
    does kick + map inside one critical section, and defers OnDisconnect / unmap -/
theorem gen_unmap_conditional : Gen.Registry.unmapConditional = true := by decide
theorem gen_upgrade_atomic : Gen.Registry.upgradeUnderLock = true := by decide
theorem gen_defers_present : Gen.Registry.defersUnmapAndDisconnect = true := by decide

/-! ### non-vacuity: a kick scenario is reachable and satisfies the hypotheses -/

example : ∃ s, Reach false s ∧ s.lookup 7 = some 1 ∧ s.kicked = [0] := by
  have s1 := Step.upgrade (unconditional := false) {} 7
  have s2 := Step.upgrade (unconditional := false)
    { lives := [{ name := 7, pc := .mapped }], map := [(7, 0)], kicked := [] } 7
  exact ⟨_, (Reach.init.step s1).step s2, by rfl, by rfl⟩

end PubModel.C15
