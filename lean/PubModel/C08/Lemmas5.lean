/-
C08 — helper lemmas, part 5: the nesting depth.  Every parser action except
`PS.enter` leaves the ghost field `maxDepth` alone, so any predicate on
`maxDepth` that `enter` preserves (for the depths the limit admits) is an
invariant of `parseValue`, `SkipErrStmt` and `parseSeries`.  Partial
correctness: termination is `Lemmas2`.
-/
import PubModel.C08.Lemmas2

namespace PubModel.C08

theorem Res.bind_eq_ok {α β : Type} {r : Res α} {f : α → Res β} {b : β} (h : r.bind f = .ok b) :
    ∃ a, r = .ok a ∧ f a = .ok b := by
  cases r with
  | ok a => exact ⟨a, rfl, h⟩
  | outOfFuel => cases h
  | panic => cases h

/-- loop rule for invariants (partial correctness) -/
theorem loopB_inv {σ : Type} (cond : σ → Bool) (body : σ → Res (Bool × σ)) (I : σ → Prop)
    (hb : ∀ s r, I s → body s = .ok r → I r.2) :
    ∀ fuel s s', I s → loopB cond body fuel s = .ok s' → I s' := by
  intro fuel
  induction fuel with
  | zero => intro s s' _ h; cases h
  | succ n ih =>
    intro s s' hI h
    unfold loopB at h
    split at h
    · split at h
      · rename_i x hx
        exact ih _ _ (hb s _ hI hx) h
      · rename_i x hx
        injection h with h; subst h
        exact hb s _ hI hx
      · cases h
      · cases h
    · injection h with h; subst h; exact hI

section md
variable (c : Cfg)

@[simp] theorem PS.next_maxDepth (s : PS) : (s.next c).maxDepth = s.maxDepth := rfl
@[simp] theorem PS.errAt_maxDepth (s : PS) (code : String) (t : Tok) : (s.errAt c code t).maxDepth = s.maxDepth := rfl
@[simp] theorem PS.errHere_maxDepth (s : PS) (code : String) : (s.errHere c code).maxDepth = s.maxDepth := rfl
@[simp] theorem PS.bailOut_maxDepth (s : PS) : s.bailOut.maxDepth = s.maxDepth := rfl
@[simp] theorem PS.enter_maxDepth (s : PS) (d : Nat) : (s.enter d).maxDepth = max s.maxDepth d := rfl
@[simp] theorem PS.leaf_maxDepth (s : PS) (code : String) (t : Tok) : (s.leaf c code t).maxDepth = s.maxDepth := by
  unfold PS.leaf; split <;> rfl
@[simp] theorem PS.expect_maxDepth (s : PS) (k : Kind) : (s.expect c k).maxDepth = s.maxDepth := by
  unfold PS.expect; split
  · rfl
  · split <;> rfl
@[simp] theorem PS.expectOp_maxDepth (s : PS) (o : Char) : (s.expectOp c o).maxDepth = s.maxDepth := by
  unfold PS.expectOp; split
  · rfl
  · split <;> rfl
@[simp] theorem PS.entrySep_maxDepth (s : PS) (o : Char) : (s.entrySep c o).maxDepth = s.maxDepth := by
  unfold PS.entrySep; split
  · rfl
  · split
    · exact PS.expectOp_maxDepth c s _
    · rfl

variable (J : Nat → Prop)

theorem objBody_inv (pv : PS → Res PS) (hpv : ∀ x x', J x.maxDepth → pv x = .ok x' → J x'.maxDepth)
    (s : PS) (r : Bool × PS) (hI : J s.maxDepth) (h : objBody c pv s = .ok r) : J r.2.maxDepth := by
  unfold objBody at h
  split at h
  · injection h with h; subst h; simpa using hI
  · obtain ⟨s3, h3, h4⟩ := Res.bind_eq_ok h
    injection h4 with h4; subst h4
    have := hpv _ _ (by
      simp only [PS.expectOp_maxDepth]
      split <;> simpa using hI) h3
    simpa using this

theorem listBody_inv (pv : PS → Res PS) (hpv : ∀ x x', J x.maxDepth → pv x = .ok x' → J x'.maxDepth)
    (s : PS) (r : Bool × PS) (hI : J s.maxDepth) (h : listBody c pv s = .ok r) : J r.2.maxDepth := by
  unfold listBody at h
  obtain ⟨s3, h3, h4⟩ := Res.bind_eq_ok h
  injection h4 with h4; subst h4
  simpa using hpv _ _ hI h3

theorem identBody_inv (s : PS) (r : Bool × PS) (hI : J s.maxDepth) (h : identBody c s = .ok r) :
    J r.2.maxDepth := by
  unfold identBody at h
  split at h
  · injection h with h; subst h; exact hI
  · split at h
    · injection h with h; subst h; simpa using hI
    · simp only at h
      split at h <;> (injection h with h; subst h; simpa using hI)

/-- **Invariant rule for `parseValue`**: a predicate on the recorded nesting
    that opening one more level preserves — for every depth `P` admits and
    the limit does not refuse — holds after `parseValue` when it held before. -/
theorem parseValue_inv (P : Nat → Prop)
    (henter : ∀ m d, J m → P d → c.tooDeep d = false → J (max m (d + 1)) ∧ P (d + 1)) :
    ∀ n d s s', P d → J s.maxDepth → parseValue c n d s = .ok s' → J s'.maxDepth := by
  intro n
  induction n with
  | zero => intro d s s' _ _ h; cases h
  | succ n ih =>
    intro d s s' hP hI h
    unfold parseValue at h
    split at h
    · injection h with h; subst h; simpa using hI
    split at h
    · injection h with h; subst h; simpa using hI
    split at h
    · injection h with h; subst h; simpa using hI
    split at h
    · injection h with h; subst h; simpa using hI
    split at h
    · simp only at h
      split at h
      · obtain ⟨s2, h2, h3⟩ := Res.bind_eq_ok h
        injection h3 with h3; subst h3
        have := ih d _ s2 hP (by simpa using hI) h2
        split <;> simpa using this
      split at h
      · injection h with h; subst h; simpa using hI
      · split at h
        · injection h with h; subst h
          split <;> simpa using hI
        · injection h with h; subst h; simpa using hI
    split at h
    · split at h
      · injection h with h; subst h; simpa using hI
      · rename_i hd
        have he := henter s.maxDepth d hI hP (by simpa using hd)
        obtain ⟨s2, h2, h3⟩ := Res.bind_eq_ok h
        injection h3 with h3; subst h3
        have := loopB_inv _ _ (fun x : PS => J x.maxDepth)
          (fun x r hx hr => objBody_inv c J _ (fun a b ha hb => ih (d + 1) a b he.2 ha hb) x r hx hr)
          n _ s2 (by simpa using he.1) h2
        simpa using this
    split at h
    · split at h
      · injection h with h; subst h; simpa using hI
      · rename_i hd
        have he := henter s.maxDepth d hI hP (by simpa using hd)
        obtain ⟨s2, h2, h3⟩ := Res.bind_eq_ok h
        injection h3 with h3; subst h3
        have := loopB_inv _ _ (fun x : PS => J x.maxDepth)
          (fun x r hx hr => listBody_inv c J _ (fun a b ha hb => ih (d + 1) a b he.2 ha hb) x r hx hr)
          n _ s2 (by simpa using he.1) h2
        simpa using this
    split at h
    · exact loopB_inv _ _ (fun x : PS => J x.maxDepth) (fun x r hx hr => identBody_inv c J x r hx hr) n s s' hI h
    · injection h with h; subst h; simpa using hI

theorem skipErrStmt_inv (fuel : Nat) (s : PS) (r : Bool × PS) (hI : J s.maxDepth)
    (h : skipErrStmt c fuel s = .ok r) : J r.2.maxDepth := by
  unfold skipErrStmt at h
  split at h
  · injection h with h; subst h; exact hI
  · obtain ⟨s2, h2, h3⟩ := Res.bind_eq_ok h
    injection h3 with h3; subst h3
    have := loopB_inv _ _ (fun x : PS => J x.maxDepth)
      (fun x r hx hr => by injection hr with hr; subst hr; simpa using hx) fuel s s2 hI h2
    simp only [PS.bailOut_maxDepth]
    split <;> simpa using this

theorem seriesBody_inv (P : Nat → Prop) (hP0 : P 0)
    (henter : ∀ m d, J m → P d → c.tooDeep d = false → J (max m (d + 1)) ∧ P (d + 1))
    (fuel : Nat) (s : SS) (r : Bool × SS) (hI : J s.p.maxDepth) (h : seriesBody c fuel s = .ok r) :
    J r.2.p.maxDepth := by
  unfold seriesBody at h
  have htn : J (parseTypeName c s.p).2.maxDepth := by
    unfold parseTypeName
    split
    · simpa using hI
    · split <;> simpa using hI
  generalize parseTypeName c s.p = tn at h htn
  obtain ⟨named, p⟩ := tn
  simp only at h htn
  split at h
  · obtain ⟨r1, h1, h2⟩ := Res.bind_eq_ok h
    injection h2 with h2; subst h2
    exact skipErrStmt_inv c J fuel p r1 htn h1
  · obtain ⟨p2, h2, h3⟩ := Res.bind_eq_ok h
    have hp2 := parseValue_inv c J P henter fuel 0 p p2 hP0 htn h2
    obtain ⟨r1, h4, h5⟩ := Res.bind_eq_ok h3
    have hr1 := skipErrStmt_inv c J fuel p2 r1 hp2 h4
    split at h5
    · injection h5 with h5; subst h5; exact hr1
    · obtain ⟨r3, h6, h7⟩ := Res.bind_eq_ok h5
      injection h7 with h7; subst h7
      exact skipErrStmt_inv c J fuel _ r3 (by simpa using hr1) h6

theorem parseSeries_inv (P : Nat → Prop) (hP0 : P 0)
    (henter : ∀ m d, J m → P d → c.tooDeep d = false → J (max m (d + 1)) ∧ P (d + 1))
    (fuel : Nat) (p : PS) (r : SS) (hI : J p.maxDepth) (h : parseSeries c fuel p = .ok r) :
    J r.p.maxDepth := by
  unfold parseSeries at h
  exact loopB_inv _ _ (fun x : SS => J x.p.maxDepth)
    (fun x y hx hy => seriesBody_inv c J P hP0 henter fuel x y hx hy) fuel _ r hI h

end md

/-- with a limit `l`, opening a level the limit admits keeps the recorded nesting at most `l` -/
theorem enter_bounded (c : Cfg) (l : Nat) (hl : c.depthLimit = some l) :
    ∀ m d, m ≤ l → d ≤ l → c.tooDeep d = false → max m (d + 1) ≤ l ∧ d + 1 ≤ l := by
  intro m d hm _ ht
  have : d < l := by simpa [Cfg.tooDeep, hl] using ht
  exact ⟨Nat.max_le.mpr ⟨hm, this⟩, this⟩

/-! ## without a limit the nesting follows the input -/

/-- the token `[` -/
def lbTok : Tok := { kind := .op, op := 91 }

theorem parseValue_mono (c : Cfg) (X : Nat) : ∀ n d s s', X ≤ s.maxDepth → parseValue c n d s = .ok s' →
    X ≤ s'.maxDepth := by
  intro n d s s' hX h
  exact parseValue_inv c (fun m => X ≤ m) (fun _ => True)
    (fun m d hm _ _ => ⟨Nat.le_trans hm (Nat.le_max_left _ _), trivial⟩) n d s s' trivial hX h

/-- `k+1` opening brackets reach nesting `d+k+1` when there is no limit -/
theorem brackets_deep (c : Cfg) (hn : c.depthLimit = none) :
    ∀ k n d s s', s.seeOp '[' = true → s.rest = List.replicate k lbTok →
      parseValue c n d s = .ok s' → d + k + 1 ≤ s'.maxDepth := by
  intro k
  induction k with
  | zero =>
    intro n d s s' hcur _ h
    cases n with
    | zero => cases h
    | succ n =>
      have hop : s.cur.kind = .op ∧ s.cur.op = 91 := by simpa [PS.seeOp] using hcur
      have h1 : s.see .keyword = false := by simp [PS.see, hop.1]
      have h2 : s.see .str = false := by simp [PS.see, hop.1]
      have h3 : s.see .int = false := by simp [PS.see, hop.1]
      have h4 : s.see .float = false := by simp [PS.see, hop.1]
      have h5 : s.seeOp '+' = false := by simp [PS.seeOp, hop.2]
      have h6 : s.seeOp '-' = false := by simp [PS.seeOp, hop.2]
      have h7 : s.seeOp '{' = false := by simp [PS.seeOp, hop.2]
      have ht : c.tooDeep d = false := by simp [Cfg.tooDeep, hn]
      unfold parseValue at h
      simp only [h1, h2, h3, h4, h5, h6, h7, hcur, ht, Bool.false_eq_true, if_false, if_true, Bool.or_self] at h
      obtain ⟨s2, hl, h3'⟩ := Res.bind_eq_ok h
      injection h3' with h3'; subst h3'
      have := loopB_inv _ _ (fun x : PS => d + 1 ≤ x.maxDepth)
        (fun x r hx hr => listBody_inv c (fun m => d + 1 ≤ m) _
          (fun a b ha hb => parseValue_mono c (d + 1) n (d + 1) a b ha hb) x r hx hr)
        n _ s2 (by simp only [PS.enter_maxDepth]; exact Nat.le_max_right _ _) hl
      simpa using this
  | succ k ih =>
    intro n d s s' hcur hrest h
    cases n with
    | zero => cases h
    | succ n =>
      have hop : s.cur.kind = .op ∧ s.cur.op = 91 := by simpa [PS.seeOp] using hcur
      have h1 : s.see .keyword = false := by simp [PS.see, hop.1]
      have h2 : s.see .str = false := by simp [PS.see, hop.1]
      have h3 : s.see .int = false := by simp [PS.see, hop.1]
      have h4 : s.see .float = false := by simp [PS.see, hop.1]
      have h5 : s.seeOp '+' = false := by simp [PS.seeOp, hop.2]
      have h6 : s.seeOp '-' = false := by simp [PS.seeOp, hop.2]
      have h7 : s.seeOp '{' = false := by simp [PS.seeOp, hop.2]
      have ht : c.tooDeep d = false := by simp [Cfg.tooDeep, hn]
      unfold parseValue at h
      simp only [h1, h2, h3, h4, h5, h6, h7, hcur, ht, Bool.false_eq_true, if_false, if_true, Bool.or_self] at h
      obtain ⟨s2, hl, h3'⟩ := Res.bind_eq_ok h
      injection h3' with h3'; subst h3'
      -- the state inside the brackets: again at `[`, one bracket less in the stream
      have hcur1 : ((s.next c).enter (d + 1)).seeOp '[' = true := by
        simp [PS.seeOp, PS.enter, PS.next, hrest, List.replicate_succ, nextTok, lbTok]
      have hrest1 : ((s.next c).enter (d + 1)).rest = List.replicate k lbTok := by
        simp [PS.enter, PS.next, hrest, List.replicate_succ, nextTok, lbTok]
      have hcond : (!((s.next c).enter (d + 1)).seeOp ']') = true := by
        simp [PS.seeOp, PS.enter, PS.next, hrest, List.replicate_succ, nextTok, lbTok]
      have hmono : ∀ (x : PS) (r : Bool × PS), d + 1 + k + 1 ≤ x.maxDepth →
          listBody c (parseValue c n (d + 1)) x = .ok r → d + 1 + k + 1 ≤ r.2.maxDepth :=
        fun x r hx hr => listBody_inv c (fun m => d + 1 + k + 1 ≤ m) _
          (fun a b ha hb => parseValue_mono c _ n (d + 1) a b ha hb) x r hx hr
      have hfirst : ∀ r : Bool × PS, listBody c (parseValue c n (d + 1)) ((s.next c).enter (d + 1)) = .ok r →
          d + 1 + k + 1 ≤ r.2.maxDepth := by
        intro r hr
        unfold listBody at hr
        obtain ⟨s3, hp3, h4'⟩ := Res.bind_eq_ok hr
        injection h4' with h4'; subst h4'
        have := ih n (d + 1) _ s3 hcur1 hrest1 hp3
        simpa using this
      cases n with
      | zero => cases hl
      | succ n' =>
        unfold loopB at hl
        simp only [hcond, if_true] at hl
        split at hl
        · rename_i x hx
          have hx' := hfirst _ hx
          have := loopB_inv _ _ (fun y : PS => d + 1 + k + 1 ≤ y.maxDepth) hmono n' x s2 hx' hl
          simp only [PS.expectOp_maxDepth]; omega
        · rename_i x hx
          injection hl with hl; subst hl
          have hx' := hfirst _ hx
          simp only at hx'
          simp only [PS.expectOp_maxDepth]; omega
        · cases hl
        · cases hl

end PubModel.C08
