/-
C08 — helper lemmas, part 4: from bytes to the parser.  The rune count is at
most the byte count, the token count at most the rune count plus the one
semicolon inserted before EOF, so one fuel value `fuelOf bs.length` serves the
lexer loops, the entry loops and the nesting depth.
-/
import PubModel.C08.Lemmas2
import PubModel.C08.Lemmas5
import PubModel.C08.Lemmas3
import PubModel.C08.Entry

namespace PubModel.C08

theorem decodeRunesAux_len : ∀ (l : List Nat) (k : Nat), (decodeRunesAux k l).length ≤ l.length
  | [], k => by simp [decodeRunesAux]
  | b :: rest, 0 => by
    simp only [decodeRunesAux, List.length_cons]
    have := decodeRunesAux_len rest ((decodeRune b rest).2 - 1)
    omega
  | b :: rest, k + 1 => by
    simp only [decodeRunesAux, List.length_cons]
    have := decodeRunesAux_len rest k
    omega

theorem decodeRunes_len (bs : Bytes) : (decodeRunes bs).length ≤ bs.length := by
  have := decodeRunesAux_len (bs.map UInt8.toNat) 0
  simpa [decodeRunes] using this

theorem semiInsert_len : ∀ (l : List Tok) (ins : Bool), (semiInsert ins l).1.length ≤ l.length
  | [], ins => by simp [semiInsert]
  | t :: ts, ins => by
    unfold semiInsert
    split
    · have := semiInsert_len ts false; simp only [List.length_cons]; omega
    · have := semiInsert_len ts (t.op = 125 || t.op = 93); simp only [List.length_cons]; omega
    · split
      · have := semiInsert_len ts false; simp only [List.length_cons]; omega
      · have := semiInsert_len ts ins; simp only [List.length_cons]; omega
    · have := semiInsert_len ts ins; simp only [List.length_cons]; omega
    · have := semiInsert_len ts ins; simp only [List.length_cons]; omega
    · have := semiInsert_len ts true; simp only [List.length_cons]; omega

/-- the lexer facts the termination of the lexer needs: rune 0 (what the
    lexer sees after the end) is not an exponent sign -/
abbrev GoodLex (g : LexCfg) : Prop := g.expSigns.contains 0 = false

theorem jsonxTokens_sat (g : LexCfg) (hg : GoodLex g) (bs : Bytes) :
    (jsonxTokens g (fuelOf bs.length) bs).Sat (fun r => r.1.length ≤ bs.length + 1) := by
  unfold jsonxTokens
  have hlen := decodeRunes_len bs
  refine (lexAll_sat _ (lexJSONX_spec g.expSigns hg) (decodeRunes bs) (fuelOf bs.length)
    (by unfold fuelOf; omega)).bind ?_
  intro r ⟨h1, _⟩
  refine .ok ?_
  have h2 := semiInsert_len (r.1.map fun t => keyword g.keywords knownKeywords (withLeaf t)) false
  simp only [List.length_map] at h2
  split
  · simp only [List.length_append, List.length_cons, List.length_nil]; omega
  · simp only; omega

theorem PS.init_m (c : Cfg) (toks : List Tok) (l k : Nat) : (PS.init c toks l k).m ≤ toks.length := by
  unfold PS.init
  refine Nat.le_trans (PS.next_m_le c _) ?_
  simp [PS.m]

theorem PS.init_inv (c : Cfg) (hmax : 0 < c.errMax) (toks : List Tok) (l k : Nat) : (PS.init c toks l k).Inv := by
  unfold PS.init
  exact (PS.next_le c hmax _).inv ⟨ErrList.empty_ok, ErrList.empty_ok⟩

/-- the facts of the parser sources that termination rests on -/
structure GoodCfg (c : Cfg) : Prop where
  errMax_pos : 0 < c.errMax
  listBreaks : c.listBreaks = true
  stops : StopsAtEof c.skipCond
  skips : SkipsOther c.skipCond
  /-- the sign case does not call `parseValue`: a run of signs is no recursion -/
  signIterative : c.signRecursive = false

/-- an outcome is a value or carries at least one error -/
def Outcome.valueOrError : Outcome → Prop
  | .value _ _ _ => True
  | .errors n _ _ => 1 ≤ n

theorem outcomeOf_valueOrError (s : PS) (n : Nat) (m : Bool) : (outcomeOf s n m).valueOrError := by
  unfold outcomeOf
  split
  · trivial
  · simp [Outcome.valueOrError]

/-- a value is only reported by a parse that never reported an error -/
theorem outcomeOf_value_clean (s : PS) (hinv : s.Inv) (n : Nat) (m : Bool) (p k : Nat) (b : Bool)
    (h : outcomeOf s n m = .value p k b) : s.pe.ever = false ∧ s.le.ever = false := by
  unfold outcomeOf at h
  split at h
  · rename_i he
    unfold PS.errs at he
    split at he
    · rename_i hle; exact absurd he hle
    · rename_i hle
      have hle' : s.le.errs = [] := by simpa using hle
      constructor
      · rcases hx : s.pe.ever with _ | _
        · rfl
        · exact absurd he (hinv.1 hx)
      · rcases hx : s.le.ever with _ | _
        · rfl
        · exact absurd hle' (hinv.2 hx)
  · cases h

section entries
variable (c : Cfg) (g : LexCfg) (hc : GoodCfg c) (hg : GoodLex g)
include hc hg

theorem withParser_sat (bs : Bytes) (k : PS → Res Outcome) (Q : Outcome → Prop)
    (hk : ∀ s : PS, s.m + 2 ≤ fuelOf bs.length → s.Inv → (k s).Sat Q) :
    (withParser c g (fuelOf bs.length) bs k).Sat Q := by
  unfold withParser
  refine (jsonxTokens_sat g hg bs).bind ?_
  intro r hr
  refine hk _ ?_ (PS.init_inv c hc.errMax_pos _ _ _)
  have := PS.init_m c r.1 r.2.1 r.2.2
  unfold fuelOf
  omega

omit hg in
theorem toJSONToks_sat (fuel : Nat) (s : PS) (hm : s.m + 2 ≤ fuel) :
    (toJSONToks c fuel s).Sat Outcome.valueOrError := by
  unfold toJSONToks
  refine (parseValue_spec c hc.errMax_pos hc.listBreaks hc.signIterative fuel 0 s hm).bind ?_
  intro s' _
  exact .ok (outcomeOf_valueOrError _ _ _)

omit hg in
theorem decodeToks_sat (fuel : Nat) (s : PS) (hm : s.m + 2 ≤ fuel) :
    (decodeToks c fuel s).Sat Outcome.valueOrError := by
  unfold decodeToks
  refine (parseValue_spec c hc.errMax_pos hc.listBreaks hc.signIterative fuel 0 s hm).bind ?_
  intro s' _
  split
  · exact .ok trivial
  · exact .ok (by simp [Outcome.valueOrError])

omit hg in
theorem seriesToks_sat (fuel : Nat) (s : PS) (hm : s.m + 2 ≤ fuel) :
    (seriesToks c fuel s).Sat Outcome.valueOrError := by
  unfold seriesToks
  refine (parseSeries_spec c hc.errMax_pos hc.listBreaks hc.signIterative hc.stops hc.skips fuel s hm).bind ?_
  intro r _
  exact .ok (outcomeOf_valueOrError _ _ _)

end entries

theorem strtokenParse_sat (errMax : Nat) (bs : Bytes) :
    (strtokenParse errMax (fuelOf bs.length) bs).Sat Outcome.valueOrError := by
  unfold strtokenParse
  have hlen := decodeRunes_len bs
  refine (lexAll_sat _ lexShell_spec (decodeRunes bs) (fuelOf bs.length) (by unfold fuelOf; omega)).bind ?_
  intro r _
  dsimp only
  split
  · exact .ok (by simp [Outcome.valueOrError])
  · split
    · exact .ok (by simp [Outcome.valueOrError])
    · exact .ok trivial

end PubModel.C08
