/-
C08 — property theorems.  Statement file only; helper lemmas are in Lemmas*.lean.

Property: for every byte sequence, decoding a value, decoding a typed series,
converting to JSON and splitting a command line all return, without panicking
and without looping: a result is produced or at least one error is reported.

The model mirrors the control skeleton of lexing/jsonx/strtoken with every Go
loop as `loopB` with fuel, so `≠ .outOfFuel` is termination and `≠ .panic` is
panic freedom (including the panic of `runeScanner.scan` when a lex function
reads past the end).  `fuel := fuelOf bs.length = bs.length + 8` for all loops.

The generic theorems are for every configuration `c` that satisfies `GoodCfg`
(error cap positive, `parseListEntries` breaks in error state, the loop of
`SkipErrStmt` stops at EOF and skips non-separators) and every lexer
configuration with `GoodLex`; `Obligations.lean` shows by `decide` that the
facts regenerated from the current source satisfy them, and the `gen_*`
theorems below are the instances for the current source.  For the pinned
`SkipErrStmt` (`!p.See(sep) || p.See(EOF)`) the negation is proved.

Stack use: the model carries `p.depth` and records the nesting reached; with
`maxNestingDepth = l` the nesting never exceeds `l` (`depth_bounded`), without a
limit it follows the input (`unlimited_depth_unbounded`, the defect repaired
by 1ff75e2).
-/
import PubModel.C08.Lemmas4
import PubModel.C08.Obligations

namespace PubModel.C08

/-! ## the lexer -/

/-- **The lexer terminates**: on every byte string, with fuel `fuelOf
    bs.length`, `lexing.Tokens` over the jsonx lexer returns (no `outOfFuel`,
    no panic) at most one token per byte and then an EOF token. -/
theorem lexer_terminates (g : LexCfg) (hg : GoodLex g) (bs : Bytes) :
    ∃ toks e, lexAll (lexJSONX g.expSigns) (fuelOf bs.length) (decodeRunes bs) = .ok (toks, e) ∧
      toks.length ≤ bs.length ∧ e.tok.kind = .eof := by
  have hlen := decodeRunes_len bs
  obtain ⟨⟨toks, e⟩, h, h1, h2⟩ := lexAll_sat _ (lexJSONX_spec g.expSigns hg) (decodeRunes bs) (fuelOf bs.length)
    (by unfold fuelOf; omega)
  exact ⟨toks, e, h, by simp only at h1; omega, h2⟩

example : ∃ toks e, lexAll (lexJSONX [45]) (fuelOf 5) (decodeRunes [0x7b, 0x61, 0x3a, 0x31, 0x7d]) = .ok (toks, e) ∧
    toks.length = 5 ∧ e.tok.kind = .eof := ⟨_, _, by rfl, by decide, by decide⟩

/-- **EOF for ever**: `Lexer.Token` on a lexer whose input has ended returns
    an EOF token, and the same token again on every later call. -/
theorem lexer_eof_forever (f : LexFn) (fuel : Nat) (s : LS) (he : s.ended = true) (hp : s.pend = [])
    (hf : 0 < fuel) :
    ∃ t s', lexToken f fuel s = .ok (t, s') ∧ t.tok.kind = .eof ∧ s'.ended = true ∧
      lexToken f fuel s' = .ok (t, s') :=
  lexToken_eof_forever f fuel s he hp hf

/-- **Every token but EOF consumes at least one rune**, and no lex function
    reads past the end of the input. -/
theorem lex_token_progress (g : LexCfg) (hg : GoodLex g) (fuel : Nat) (s : LS) (h : s.LI) (hm : s.lm < fuel) :
    ∃ t s', lexToken (lexJSONX g.expSigns) fuel s = .ok (t, s') ∧
      ((t.tok.kind = .eof ∧ s'.ended = true) ∨ (t.tok.kind ≠ .eof ∧ s'.lm < s.lm)) := by
  obtain ⟨⟨t, s'⟩, h1, _, _, _, h2⟩ := lexToken_sat _ (lexJSONX_spec g.expSigns hg) fuel s h hm
  refine ⟨t, s', h1, ?_⟩
  rcases h2 with ⟨a, b, _⟩ | ⟨a, b⟩
  · exact Or.inl ⟨a, b⟩
  · exact Or.inr ⟨a, b⟩

/-! ## `SkipErrStmt` -/

/-- **`SkipErrStmt` terminates** for every loop condition that is false at EOF,
    on every parser state, with fuel above the number of tokens left. -/
theorem skipErrStmt_terminates (c : Cfg) (hc : GoodCfg c) (fuel : Nat) (s : PS) (hm : s.m < fuel) :
    skipErrStmt c fuel s ≠ .outOfFuel ∧ skipErrStmt c fuel s ≠ .panic := by
  have h := skipErrStmt_spec c hc.errMax_pos hc.stops hc.skips fuel s hm
  exact ⟨h.ne_outOfFuel, h.ne_panic⟩

/-- the repaired configuration -/
def fixedCfg : Cfg := ⟨20, BExp.fixed, false, true, true, some 10000, false⟩
/-- the configuration of the pinned tree -/
def pinnedCfg : Cfg := ⟨20, BExp.pinned, false, true, true, none, false⟩

example : GoodCfg fixedCfg := ⟨by decide, by decide, by decide, by decide, by decide⟩
example : ¬ StopsAtEof pinnedCfg.skipCond := by decide

/-- **The pinned `SkipErrStmt` diverges at EOF**: in error state, at EOF, with
    `!p.See(sep) || p.See(EOF)` as loop condition, no amount of fuel suffices. -/
theorem c08_skipErrStmt_diverges_current (c : Cfg) (hc : c.skipCond = BExp.pinned) (s : PS)
    (hs : s.AtEof) (hj : s.pe.jail = true) : ∀ fuel, skipErrStmt c fuel s = .outOfFuel := by
  intro fuel
  unfold skipErrStmt
  simp only [PS.inError, hj, Bool.not_true, Bool.false_eq_true, if_false]
  rw [loopB_pinned_diverges c hc fuel s hs]
  rfl

/-- witness state: `foo {` after `parseValue` failed at EOF -/
def eofInError : PS :=
  { cur := { kind := .eof, line := 1, col := 5 }, rest := [], eofLine := 1, eofCol := 5,
    pe := { errs := [⟨"jsonx.expectObjectEntry", 1, 5⟩], jail := true, ever := true } }

example : ∀ fuel, skipErrStmt pinnedCfg fuel eofInError = .outOfFuel :=
  c08_skipErrStmt_diverges_current pinnedCfg rfl eofInError ⟨rfl, rfl⟩ rfl

/-- the input `foo {` end to end: the pinned series decoder runs out of fuel, the repaired one reports the error -/
example : decodeSeries pinnedCfg ⟨[45], []⟩ (fuelOf 5) [0x66, 0x6f, 0x6f, 0x20, 0x7b] = .outOfFuel := by decide
example : decodeSeries fixedCfg ⟨[45], []⟩ (fuelOf 5) [0x66, 0x6f, 0x6f, 0x20, 0x7b] =
    .ok (.errors 1 ⟨"jsonx.expectObjectEntry", 1, 5⟩ 3) := by decide

/-- **Without the `InError` break `parseListEntries` diverges**: `[` followed by
    EOF keeps failing to parse an operand for ever (the hypothesis
    `GoodCfg.listBreaks` of the termination theorems is necessary). -/
theorem list_without_break_diverges (c : Cfg) (hl : c.listBreaks = false) (d : Nat)
    (hdeep : c.tooDeep d = false) (s : PS) (hcur : s.seeOp '[' = true) (hrest : s.rest = []) :
    ∀ fuel, parseValue c fuel d s = .outOfFuel := by
  intro fuel
  cases fuel with
  | zero => rfl
  | succ n =>
    have hop : s.cur.kind = .op ∧ s.cur.op = 91 := by simpa [PS.seeOp] using hcur
    have hnext : ((s.next c).enter (d + 1)).AtEof := by
      simp [PS.AtEof, PS.enter, PS.next, hrest, nextTok, PS.eofTok]
    have h1 : s.see .keyword = false := by simp [PS.see, hop.1]
    have h2 : s.see .str = false := by simp [PS.see, hop.1]
    have h3 : s.see .int = false := by simp [PS.see, hop.1]
    have h4 : s.see .float = false := by simp [PS.see, hop.1]
    have h5 : s.seeOp '+' = false := by simp [PS.seeOp, hop.2]
    have h6 : s.seeOp '-' = false := by simp [PS.seeOp, hop.2]
    have h7 : s.seeOp '{' = false := by simp [PS.seeOp, hop.2]
    unfold parseValue
    simp only [h1, h2, h3, h4, h5, h6, h7, hcur, hdeep, Bool.false_eq_true, if_false, if_true, Bool.or_self]
    rw [listLoop_no_break_diverges c hl n (d + 1) n _ hnext]
    rfl

example : ∀ fuel, parseValue { fixedCfg with listBreaks := false } fuel 0
    { cur := { kind := .op, op := 91, line := 1, col := 1 }, rest := [], eofLine := 1, eofCol := 1 } = .outOfFuel :=
  list_without_break_diverges _ rfl 0 (by decide) _ (by decide) rfl

/-! ## the parser over any token stream -/

/-- **`parseValue` terminates** on every token stream, with fuel two above the
    number of tokens not yet shifted; unless it ends in error state it shifted a token. -/
theorem parseValue_terminates (c : Cfg) (hc : GoodCfg c) (fuel : Nat) (s : PS) (hm : s.m + 2 ≤ fuel) :
    ∃ s', parseValue c fuel 0 s = .ok s' ∧ s'.m ≤ s.m ∧ (s'.pe.jail = false → s'.m < s.m) := by
  obtain ⟨s', h, h1, h2⟩ := parseValue_spec c hc.errMax_pos hc.listBreaks hc.signIterative fuel 0 s hm
  exact ⟨s', h, h1.m_le, h2⟩

/-- **`parseSeries` terminates** on every token stream and ends at EOF. -/
theorem parseSeries_terminates (c : Cfg) (hc : GoodCfg c) (fuel : Nat) (s : PS) (hm : s.m + 2 ≤ fuel) :
    ∃ r, parseSeries c fuel s = .ok r ∧ r.p.see .eof = true := by
  obtain ⟨r, h, h1, _⟩ := parseSeries_spec c hc.errMax_pos hc.listBreaks hc.signIterative hc.stops hc.skips fuel s hm
  exact ⟨r, h, h1⟩

/-- **No error is lost**: `BailOut` and the cap of the error list never turn a
    failed parse into a value — when the series parser reports a value, no
    error was ever added to the parser's or the lexer's list. -/
theorem series_value_means_clean (c : Cfg) (hc : GoodCfg c) (fuel : Nat) (s : PS) (hm : s.m + 2 ≤ fuel)
    (hinv : s.Inv) (p k : Nat) (b : Bool) (h : seriesToks c fuel s = .ok (.value p k b)) :
    ∃ r, parseSeries c fuel s = .ok r ∧ r.p.pe.ever = false ∧ r.p.le.ever = false := by
  obtain ⟨r, hr, _, hi⟩ := parseSeries_spec c hc.errMax_pos hc.listBreaks hc.signIterative hc.stops hc.skips fuel s hm
  refine ⟨r, hr, ?_⟩
  unfold seriesToks at h
  rw [hr] at h
  simp only [Res.bind] at h
  injection h with h
  exact outcomeOf_value_clean r.p (hi hinv) _ _ _ _ _ h

/-! ## nesting depth (stack use) -/

/-- **The nesting is bounded by the limit, for every token stream**: with
    `maxNestingDepth = l`, `parseValue` (entered at depth 0, as every entry point
    does) and `parseSeries` never have more than `l` lists/objects open at the
    same time, so at most `l` frames of `parseListEntries`/`parseObjectEntries`
    and `l + 1` frames of `parseValue` are on the Go stack. -/
theorem parse_depth_bounded (c : Cfg) (l : Nat) (hl : c.depthLimit = some l) (fuel : Nat) (s s' : PS)
    (h0 : s.maxDepth ≤ l) (h : parseValue c fuel 0 s = .ok s') : s'.maxDepth ≤ l :=
  parseValue_inv c (fun m => m ≤ l) (fun d => d ≤ l) (enter_bounded c l hl) fuel 0 s s' (Nat.zero_le _) h0 h

theorem series_depth_bounded (c : Cfg) (l : Nat) (hl : c.depthLimit = some l) (fuel : Nat) (s : PS) (r : SS)
    (h0 : s.maxDepth ≤ l) (h : parseSeries c fuel s = .ok r) : r.p.maxDepth ≤ l :=
  parseSeries_inv c (fun m => m ≤ l) (fun d => d ≤ l) (Nat.zero_le _) (enter_bounded c l hl) fuel s r h0 h

/-- **Without a limit the nesting is unbounded**: `k+1` opening brackets reach
    nesting `k+1` (the pinned parser: an 800 KB input exhausts the 1 GB stack). -/
theorem unlimited_depth_unbounded (c : Cfg) (hc : GoodCfg c) (hn : c.depthLimit = none) (k : Nat) :
    ∃ s', parseValue c (k + 3) 0
        { cur := lbTok, rest := List.replicate k lbTok, eofLine := 1, eofCol := k + 1 } = .ok s' ∧
      k + 1 ≤ s'.maxDepth := by
  obtain ⟨s', h, _⟩ := parseValue_spec c hc.errMax_pos hc.listBreaks hc.signIterative (k + 3) 0
    { cur := lbTok, rest := List.replicate k lbTok, eofLine := 1, eofCol := k + 1 }
    (by simp [PS.m, lbTok])
  refine ⟨s', h, ?_⟩
  have := brackets_deep c hn k (k + 3) 0 _ s' (by simp [PS.seeOp, lbTok]) rfl h
  omega

example : ∃ s', parseValue { fixedCfg with depthLimit := none } 5 0
    { cur := lbTok, rest := [lbTok, lbTok], eofLine := 1, eofCol := 3 } = .ok s' ∧ 3 ≤ s'.maxDepth :=
  unlimited_depth_unbounded _ ⟨by decide, by decide, by decide, by decide, by decide⟩ rfl 2

-- with limit 2 the third bracket is refused: [[[
example : toJSON { fixedCfg with depthLimit := some 2 } ⟨[45], knownKeywords⟩ (fuelOf 3) [0x5b, 0x5b, 0x5b] =
    .ok (.errors 1 ⟨"jsonx.tooDeep", 1, 3⟩ 3) := by decide
example : parseDepth { fixedCfg with depthLimit := some 2 } ⟨[45], knownKeywords⟩ (fuelOf 3) [0x5b, 0x5b, 0x5b] false =
    .ok 2 := by decide

/-! ## runs of unary signs -/

/-- the token `-` -/
def minusTok : Tok := { kind := .op, op := 45 }

/-- **A sign costs no recursion level**: with the sign case as in the source
    (it looks at the next token itself and does not call `parseValue`), a value
    that starts with a sign is parsed by the outermost call alone — fuel 1,
    i.e. no nested `parseValue` at all — whatever follows, in particular a run
    of any number of signs.  The nesting limit does not count signs, so the
    stack bound of `depth_bounded` rests on this fact (`gen_sign_case_iterative`). -/
theorem sign_case_no_recursion (c : Cfg) (hs : c.signRecursive = false) (d : Nat) (s : PS)
    (hcur : (s.seeOp '+' || s.seeOp '-') = true) : ∃ s', parseValue c 1 d s = .ok s' := by
  have hk : s.cur.kind = .op := by
    rcases hx : s.seeOp '+' with _ | _
    · rw [hx] at hcur
      have : s.seeOp '-' = true := by simpa using hcur
      simp [PS.seeOp] at this; exact this.1
    · simp [PS.seeOp] at hx; exact hx.1
  have h1 : s.see .keyword = false := by simp [PS.see, hk]
  have h2 : s.see .str = false := by simp [PS.see, hk]
  have h3 : s.see .int = false := by simp [PS.see, hk]
  have h4 : s.see .float = false := by simp [PS.see, hk]
  unfold parseValue
  simp only [h1, h2, h3, h4, hcur, hs, Bool.false_eq_true, if_false, if_true]
  split
  · exact ⟨_, rfl⟩
  · split
    · exact ⟨_, rfl⟩
    · exact ⟨_, rfl⟩

/-- **With a recursive sign case every sign is a recursion level** that the
    nesting limit does not see: a run of `k+1` signs exhausts fuel `k+1`
    (recursion depth `k+1`), for every `k` and every nesting limit. -/
theorem recursive_sign_run_unbounded (c : Cfg) (hs : c.signRecursive = true) (d : Nat) :
    ∀ k (s : PS), s.seeOp '-' = true → s.rest = List.replicate k minusTok →
      parseValue c (k + 1) d s = .outOfFuel := by
  intro k
  induction k with
  | zero =>
    intro s hcur hrest
    have hk : s.cur.kind = .op ∧ s.cur.op = 45 := by simpa [PS.seeOp] using hcur
    have h1 : s.see .keyword = false := by simp [PS.see, hk.1]
    have h2 : s.see .str = false := by simp [PS.see, hk.1]
    have h3 : s.see .int = false := by simp [PS.see, hk.1]
    have h4 : s.see .float = false := by simp [PS.see, hk.1]
    unfold parseValue
    simp only [h1, h2, h3, h4, hcur, hs, Bool.or_true, Bool.false_eq_true, if_false, if_true]
    rfl
  | succ k ih =>
    intro s hcur hrest
    have hk : s.cur.kind = .op ∧ s.cur.op = 45 := by simpa [PS.seeOp] using hcur
    have h1 : s.see .keyword = false := by simp [PS.see, hk.1]
    have h2 : s.see .str = false := by simp [PS.see, hk.1]
    have h3 : s.see .int = false := by simp [PS.see, hk.1]
    have h4 : s.see .float = false := by simp [PS.see, hk.1]
    have hcur1 : (s.next c).seeOp '-' = true := by
      simp [PS.seeOp, PS.next, hrest, List.replicate_succ, nextTok, minusTok]
    have hrest1 : (s.next c).rest = List.replicate k minusTok := by
      simp [PS.next, hrest, List.replicate_succ, nextTok, minusTok]
    unfold parseValue
    simp only [h1, h2, h3, h4, hcur, hs, Bool.or_true, Bool.false_eq_true, if_false, if_true]
    rw [ih (s.next c) hcur1 hrest1]
    rfl

example : ∃ s', parseValue fixedCfg 1 0
    { cur := minusTok, rest := List.replicate 5 minusTok, eofLine := 1, eofCol := 6 } = .ok s' :=
  sign_case_no_recursion _ rfl 0 _ (by decide)
example : parseValue { fixedCfg with signRecursive := true } 6 0
    { cur := minusTok, rest := List.replicate 5 minusTok, eofLine := 1, eofCol := 6 } = .outOfFuel :=
  recursive_sign_run_unbounded _ rfl 0 5 _ (by decide) rfl

/-! ## the entry points, for every byte string -/

section
variable (c : Cfg) (g : LexCfg) (hc : GoodCfg c) (hg : GoodLex g)
include hc hg

/-- **`jsonx.Unmarshal` terminates** (no `outOfFuel`, no panic) on every byte string. -/
theorem decode_terminates (bs : Bytes) :
    decodeValue c g (fuelOf bs.length) bs ≠ .outOfFuel ∧ decodeValue c g (fuelOf bs.length) bs ≠ .panic := by
  have h := withParser_sat c g hc hg bs (decodeToks c (fuelOf bs.length)) _
    (fun s hm _ => decodeToks_sat c hc _ s hm)
  exact ⟨h.ne_outOfFuel, h.ne_panic⟩

/-- **`Decoder.DecodeSeries` terminates** on every byte string. -/
theorem series_terminates (bs : Bytes) :
    decodeSeries c g (fuelOf bs.length) bs ≠ .outOfFuel ∧ decodeSeries c g (fuelOf bs.length) bs ≠ .panic := by
  have h := withParser_sat c g hc hg bs (seriesToks c (fuelOf bs.length)) _
    (fun s hm _ => seriesToks_sat c hc _ s hm)
  exact ⟨h.ne_outOfFuel, h.ne_panic⟩

/-- **`jsonx.ToJSON` terminates** on every byte string. -/
theorem toJSON_terminates (bs : Bytes) :
    toJSON c g (fuelOf bs.length) bs ≠ .outOfFuel ∧ toJSON c g (fuelOf bs.length) bs ≠ .panic := by
  have h := withParser_sat c g hc hg bs (toJSONToks c (fuelOf bs.length)) _
    (fun s hm _ => toJSONToks_sat c hc _ s hm)
  exact ⟨h.ne_outOfFuel, h.ne_panic⟩

/-- **A value or at least one error**, for the three jsonx entry points. -/
theorem value_or_error (bs : Bytes) :
    (∃ o, decodeValue c g (fuelOf bs.length) bs = .ok o ∧ o.valueOrError) ∧
    (∃ o, decodeSeries c g (fuelOf bs.length) bs = .ok o ∧ o.valueOrError) ∧
    (∃ o, toJSON c g (fuelOf bs.length) bs = .ok o ∧ o.valueOrError) :=
  ⟨withParser_sat c g hc hg bs _ _ (fun s hm _ => decodeToks_sat c hc _ s hm),
   withParser_sat c g hc hg bs _ _ (fun s hm _ => seriesToks_sat c hc _ s hm),
   withParser_sat c g hc hg bs _ _ (fun s hm _ => toJSONToks_sat c hc _ s hm)⟩

/-- **Bounded nesting for every byte string**: parsing `bs` as a value or as a
    typed series returns, and never has more than `l` lists/objects open. -/
theorem depth_bounded (l : Nat) (hl : c.depthLimit = some l) (bs : Bytes) (series : Bool) :
    ∃ k, parseDepth c g (fuelOf bs.length) bs series = .ok k ∧ k ≤ l := by
  unfold parseDepth
  refine (jsonxTokens_sat g hg bs).bind ?_
  intro r hr
  have hm : (PS.init c r.1 r.2.1 r.2.2).m + 2 ≤ fuelOf bs.length := by
    have := PS.init_m c r.1 r.2.1 r.2.2
    unfold fuelOf; omega
  have h0 : (PS.init c r.1 r.2.1 r.2.2).maxDepth ≤ l := Nat.zero_le _
  simp only
  split
  · obtain ⟨x, hx, _⟩ := parseSeries_spec c hc.errMax_pos hc.listBreaks hc.signIterative hc.stops hc.skips _ _ hm
    rw [hx]
    exact ⟨_, rfl, series_depth_bounded c l hl _ _ x h0 hx⟩
  · obtain ⟨x, hx, _⟩ := parseValue_spec c hc.errMax_pos hc.listBreaks hc.signIterative _ 0 _ hm
    rw [hx]
    exact ⟨_, rfl, parse_depth_bounded c l hl _ _ x h0 hx⟩

end

/-- **`strtoken.Parse` terminates** on every byte string, with a value or at least one error. -/
theorem strtoken_parse_terminates (errMax : Nat) (bs : Bytes) :
    strtokenParse errMax (fuelOf bs.length) bs ≠ .outOfFuel ∧ strtokenParse errMax (fuelOf bs.length) bs ≠ .panic ∧
    ∃ o, strtokenParse errMax (fuelOf bs.length) bs = .ok o ∧ o.valueOrError := by
  have h := strtokenParse_sat errMax bs
  exact ⟨h.ne_outOfFuel, h.ne_panic, h⟩

/-! non-vacuity: concrete inputs through the whole chain -/

-- {a:1}
example : toJSON fixedCfg ⟨[45], knownKeywords⟩ (fuelOf 5) [0x7b, 0x61, 0x3a, 0x31, 0x7d] = .ok (.value 6 0 false) := by decide
-- [1
example : decodeValue fixedCfg ⟨[45], knownKeywords⟩ (fuelOf 2) [0x5b, 0x31] =
    .ok (.errors 1 ⟨"jsonx.expectOp", 1, 2⟩ 3) := by decide
-- "a   (unterminated string: the lexer's error is reported)
example : toJSON fixedCfg ⟨[45], knownKeywords⟩ (fuelOf 2) [0x22, 0x61] =
    .ok (.errors 1 ⟨"lexing.unexpectedEOF", 1, 1⟩ 2) := by decide
-- a "b   (strtoken)
example : strtokenParse 20 (fuelOf 4) [0x61, 0x20, 0x22, 0x62] =
    .ok (.errors 1 ⟨"lexing.unexpectedEOF", 1, 3⟩ 3) := by decide

/-! ## the current source (facts regenerated from /repo) -/

open PubModel.Gen in
theorem gen_decode_terminates (bs : Bytes) :
    decodeValue Jsonx.cfg Jsonx.lexCfg (fuelOf bs.length) bs ≠ .outOfFuel ∧
    decodeValue Jsonx.cfg Jsonx.lexCfg (fuelOf bs.length) bs ≠ .panic :=
  decode_terminates _ _ gen_cfg_good gen_exp_signs bs

open PubModel.Gen in
theorem gen_series_terminates (bs : Bytes) :
    decodeSeries Jsonx.cfg Jsonx.lexCfg (fuelOf bs.length) bs ≠ .outOfFuel ∧
    decodeSeries Jsonx.cfg Jsonx.lexCfg (fuelOf bs.length) bs ≠ .panic :=
  series_terminates _ _ gen_cfg_good gen_exp_signs bs

open PubModel.Gen in
theorem gen_toJSON_terminates (bs : Bytes) :
    toJSON Jsonx.cfg Jsonx.lexCfg (fuelOf bs.length) bs ≠ .outOfFuel ∧
    toJSON Jsonx.cfg Jsonx.lexCfg (fuelOf bs.length) bs ≠ .panic :=
  toJSON_terminates _ _ gen_cfg_good gen_exp_signs bs

open PubModel.Gen in
theorem gen_value_or_error (bs : Bytes) :
    (∃ o, decodeValue Jsonx.cfg Jsonx.lexCfg (fuelOf bs.length) bs = .ok o ∧ o.valueOrError) ∧
    (∃ o, decodeSeries Jsonx.cfg Jsonx.lexCfg (fuelOf bs.length) bs = .ok o ∧ o.valueOrError) ∧
    (∃ o, toJSON Jsonx.cfg Jsonx.lexCfg (fuelOf bs.length) bs = .ok o ∧ o.valueOrError) :=
  value_or_error _ _ gen_cfg_good gen_exp_signs bs

open PubModel.Gen in
theorem gen_depth_bounded (bs : Bytes) (series : Bool) :
    ∃ k, parseDepth Jsonx.cfg Jsonx.lexCfg (fuelOf bs.length) bs series = .ok k ∧ k ≤ Jsonx.depthLimit.getD 0 :=
  depth_bounded _ _ gen_cfg_good gen_exp_signs _ gen_depth_limited.1 bs series

open PubModel.Gen in
theorem gen_strtoken_parse_terminates (bs : Bytes) :
    strtokenParse Jsonx.errMax (fuelOf bs.length) bs ≠ .outOfFuel ∧
    strtokenParse Jsonx.errMax (fuelOf bs.length) bs ≠ .panic ∧
    ∃ o, strtokenParse Jsonx.errMax (fuelOf bs.length) bs = .ok o ∧ o.valueOrError :=
  strtoken_parse_terminates _ bs

open PubModel.Gen in
theorem gen_lexer_terminates (bs : Bytes) :
    ∃ toks e, lexAll (lexJSONX Jsonx.lexCfg.expSigns) (fuelOf bs.length) (decodeRunes bs) = .ok (toks, e) ∧
      toks.length ≤ bs.length ∧ e.tok.kind = .eof :=
  lexer_terminates _ gen_exp_signs bs

end PubModel.C08
