/-
C08 — helper lemmas, part 2: `parseValue`, `SkipErrStmt`, `parseSeries` return
for every token stream once the fuel exceeds the number of tokens; the pinned
`SkipErrStmt` does not.
-/
import PubModel.C08.Lemmas

namespace PubModel.C08

theorem PS.m_pos {s : PS} (h : s.cur.kind ≠ .eof) : 1 ≤ s.m := by
  simp [PS.m, h]

theorem PS.errAt_m (c : Cfg) (s : PS) (code : String) (t : Tok) : (s.errAt c code t).m = s.m := rfl

theorem PS.leaf_m (c : Cfg) (s : PS) (code : String) (t : Tok) : (s.leaf c code t).m = s.m := by
  unfold PS.leaf; split <;> rfl

section parser
variable (c : Cfg) (hmax : 0 < c.errMax)
include hmax

/-- shifting a non-EOF token and converting its leaf -/
theorem PS.shift_leaf (s : PS) (code : String) (t : Tok) (h : s.cur.kind ≠ .eof) :
    PS.Le s ((s.next c).leaf c code t) ∧ (((s.next c).leaf c code t).pe.jail = false → ((s.next c).leaf c code t).m < s.m) :=
  ⟨(PS.next_le c hmax s).trans (PS.leaf_le c hmax _ _ _), fun _ => by
    rw [PS.leaf_m]; exact PS.next_m_lt c s h⟩

/-- **`parseValue` returns**: with fuel at least two more than the number of
    tokens not yet shifted it is neither out of fuel nor a panic; it never
    un-shifts, never leaves error state, and unless it ends in error state it
    has shifted at least one token. -/
theorem parseValue_spec (hl : c.listBreaks = true) (hsr : c.signRecursive = false) : ∀ n d s, s.m + 2 ≤ n →
    (parseValue c n d s).Sat (fun s' => PS.Le s s' ∧ (s'.pe.jail = false → s'.m < s.m)) := by
  intro n
  induction n with
  | zero => intro d s h; omega
  | succ n ih =>
    intro d s hm
    have hpv : 2 ≤ n → PVSpec (parseValue c n (d + 1)) (n - 2) := fun hn x hx => ih (d + 1) x (by omega)
    unfold parseValue
    split
    · rename_i h
      exact .ok (PS.shift_leaf c hmax s _ _ (PS.see_ne_eof h (by decide)))
    split
    · rename_i h
      exact .ok (PS.shift_leaf c hmax s _ _ (PS.see_ne_eof h (by decide)))
    split
    · rename_i h
      exact .ok ⟨PS.next_le c hmax s, fun _ => PS.next_m_lt c s (PS.see_ne_eof h (by decide))⟩
    split
    · rename_i h
      exact .ok (PS.shift_leaf c hmax s _ _ (PS.see_ne_eof h (by decide)))
    split
    · rename_i h
      have hne : s.cur.kind ≠ .eof := by
        rcases hx : s.seeOp '+' with _ | _
        · rw [hx] at h; exact PS.seeOp_ne_eof (o := '-') (by simpa using h)
        · exact PS.seeOp_ne_eof hx
      have h1 := PS.next_le c hmax s
      have h1lt := PS.next_m_lt c s hne
      simp only [hsr, Bool.false_eq_true, if_false]
      split
      · have h2 := PS.next_le c hmax (s.next c)
        exact .ok ⟨h1.trans h2, fun _ => by have := h2.m_le; omega⟩
      · split
        · have h2 := PS.next_le c hmax (s.next c)
          refine .ok ⟨?_, fun _ => ?_⟩
          · split
            · exact h1.trans (h2.trans (PS.leaf_le c hmax _ _ _))
            · exact h1.trans h2
          · have := h2.m_le
            split
            · rw [PS.leaf_m]; omega
            · omega
        · refine .ok ⟨h1.trans (PS.errHere_le c hmax _ _), fun hj => ?_⟩
          simp only [PS.errHere] at hj
          rw [PS.errAt_jail] at hj; cases hj
    split
    · rename_i h
      have hne := PS.seeOp_ne_eof h
      split
      · refine .ok ⟨PS.errHere_le c hmax _ _, fun hj => ?_⟩
        simp only [PS.errHere] at hj
        rw [PS.errAt_jail] at hj; cases hj
      have h1 := (PS.next_le c hmax s).trans (PS.enter_le (s.next c) (d + 1))
      have h1lt : ((s.next c).enter (d + 1)).m < s.m := by rw [PS.enter_m]; exact PS.next_m_lt c s hne
      have hpos := PS.m_pos hne
      simp only
      refine (loopB_sat _ _ (fun x => PS.Le ((s.next c).enter (d + 1)) x) (fun x => PS.Le ((s.next c).enter (d + 1)) x) PS.m
        (fun x hx _ => hx) ?_ n ((s.next c).enter (d + 1)) (PS.Le.refl _) (by omega)).bind ?_
      · intro x hx _
        exact objBody_sat c hmax _ (n - 2) (hpv (by omega)) ((s.next c).enter (d + 1)) x hx (by have := hx.m_le; omega)
      · intro s2 h2
        have h3 := PS.expectOp_le c hmax s2 '}'
        exact .ok ⟨h1.trans (h2.trans h3), fun _ => by have := h2.m_le; have := h3.m_le; omega⟩
    split
    · rename_i h
      have hne := PS.seeOp_ne_eof h
      split
      · refine .ok ⟨PS.errHere_le c hmax _ _, fun hj => ?_⟩
        simp only [PS.errHere] at hj
        rw [PS.errAt_jail] at hj; cases hj
      have h1 := (PS.next_le c hmax s).trans (PS.enter_le (s.next c) (d + 1))
      have h1lt : ((s.next c).enter (d + 1)).m < s.m := by rw [PS.enter_m]; exact PS.next_m_lt c s hne
      have hpos := PS.m_pos hne
      simp only
      refine (loopB_sat _ _ (fun x => PS.Le ((s.next c).enter (d + 1)) x) (fun x => PS.Le ((s.next c).enter (d + 1)) x) PS.m
        (fun x hx _ => hx) ?_ n ((s.next c).enter (d + 1)) (PS.Le.refl _) (by omega)).bind ?_
      · intro x hx _
        exact listBody_sat c hmax hl _ (n - 2) (hpv (by omega)) ((s.next c).enter (d + 1)) x hx (by have := hx.m_le; omega)
      · intro s2 h2
        have h3 := PS.expectOp_le c hmax s2 ']'
        exact .ok ⟨h1.trans (h2.trans h3), fun _ => by have := h2.m_le; have := h3.m_le; omega⟩
    split
    · exact loopB_sat _ _ (fun x => PS.Le s x) (fun x => PS.Le s x ∧ (x.pe.jail = false → x.m < s.m)) PS.m
        (fun x _ hc => by cases hc) (fun x hx _ => identBody_sat c hmax s x hx) n s (PS.Le.refl _) (by omega)
    · refine .ok ⟨PS.errHere_le c hmax _ _, fun hj => ?_⟩
      simp only [PS.errHere] at hj
      rw [PS.errAt_jail] at hj; cases hj

/-! ## `SkipErrStmt` -/

/-- the loop condition is false at EOF (whatever `See(sep)` says) -/
abbrev StopsAtEof (e : BExp) : Prop := e.eval false true = false ∧ e.eval true true = false
/-- the loop condition is true at a token that is neither the separator nor EOF -/
abbrev SkipsOther (e : BExp) : Prop := e.eval false false = true

omit hmax in
theorem PS.bailOut_m (s : PS) : s.bailOut.m = s.m := rfl

/-- **`SkipErrStmt` returns** when its loop condition stops at EOF; it leaves
    error state, and in error state at a token other than EOF it shifts at
    least one token when the condition skips tokens that are not separators. -/
theorem skipErrStmt_spec (hstop : StopsAtEof c.skipCond) (hgo : SkipsOther c.skipCond) :
    ∀ fuel s, s.m < fuel →
    (skipErrStmt c fuel s).Sat (fun r => r.1 = s.pe.jail ∧ r.2.pe.jail = false ∧ r.2.m ≤ s.m ∧
      (s.Inv → r.2.Inv) ∧ (s.pe.jail = true → s.cur.kind ≠ .eof → r.2.m < s.m)) := by
  intro fuel s hm
  unfold skipErrStmt
  split
  · rename_i hj
    have hj' : s.pe.jail = false := by simpa [PS.inError] using hj
    exact .ok ⟨by simp [hj'], hj', Nat.le_refl _, id, fun h => by rw [hj'] at h; cases h⟩
  · rename_i hj
    have hj' : s.pe.jail = true := by simpa [PS.inError] using hj
    have hcond : ∀ x : PS, PS.skipCond c x = true → x.cur.kind ≠ .eof := by
      intro x hx hk
      unfold PS.skipCond at hx
      have : x.see .eof = true := by simp [PS.see, hk]
      rw [this] at hx
      rcases hb : x.see .semi with _ | _
      · rw [hb, hstop.1] at hx; cases hx
      · rw [hb, hstop.2] at hx; cases hx
    refine (loopB_sat (PS.skipCond c) (fun s => .ok (true, s.next c))
      (fun x => PS.Le s x ∧ (x = s ∨ x.m < s.m))
      (fun x => PS.Le s x ∧ (x = s ∨ x.m < s.m) ∧ PS.skipCond c x = false) PS.m
      (fun x hx hc => ⟨hx.1, hx.2, hc⟩) ?_ fuel s ⟨PS.Le.refl _, Or.inl rfl⟩ hm).bind ?_
    · intro x hx hc
      have hlt := PS.next_m_lt c x (hcond x hc)
      have := hx.1.m_le
      exact .ok (by
        simp only [if_true]
        exact ⟨⟨hx.1.trans (PS.next_le c hmax x), Or.inr (by omega)⟩, hlt⟩)
    · intro x ⟨hle, hprog, hc⟩
      refine .ok ⟨by simp [hj'], ?_, ?_, ?_, ?_⟩
      · split <;> simp [PS.bailOut, ErrList.bailOut]
      · rw [PS.bailOut_m]
        split
        · have := (PS.next_le c hmax x).m_le; have := hle.m_le; omega
        · exact hle.m_le
      · intro hinv
        have hx := hle.inv hinv
        split
        · have := (PS.next_le c hmax x).inv hx
          exact ⟨this.1, this.2⟩
        · exact ⟨hx.1, hx.2⟩
      · intro _ hne
        rw [PS.bailOut_m]
        rcases hprog with rfl | hlt
        · -- the loop did not run: the current token is the separator, which is shifted
          have hsemi : x.see .semi = true := by
            rcases hb : x.see .semi with _ | _
            · unfold PS.skipCond at hc
              have : x.see .eof = false := by simp [PS.see, hne]
              rw [hb, this, hgo] at hc; cases hc
            · rfl
          simp only [hsemi, if_true]
          exact PS.next_m_lt c x hne
        · split
          · have := (PS.next_le c hmax x).m_le; omega
          · exact hlt

/-! ## `parseSeries` -/

omit hmax in
theorem parseTypeName_named_jail (s : PS) : (parseTypeName c s).1 = false → (parseTypeName c s).2.pe.jail = true := by
  unfold parseTypeName
  split
  · intro h; cases h
  · split
    · intro h; cases h
    · intro _; exact PS.errAt_jail c s _ _

theorem parseTypeName_spec (s : PS) (hne : s.cur.kind ≠ .eof) :
    PS.Le s (parseTypeName c s).2 ∧
    ((parseTypeName c s).1 = true → (parseTypeName c s).2.m < s.m) ∧
    ((parseTypeName c s).1 = false → (parseTypeName c s).2.cur.kind ≠ .eof ∧ (parseTypeName c s).2.m = s.m) := by
  unfold parseTypeName
  split
  · refine ⟨(PS.next_le c hmax s).trans (PS.leaf_le c hmax _ _ _), fun _ => ?_, fun h => by cases h⟩
    rw [PS.leaf_m]; exact PS.next_m_lt c s hne
  · split
    · exact ⟨PS.next_le c hmax s, fun _ => PS.next_m_lt c s hne, fun h => by cases h⟩
    · exact ⟨PS.errHere_le c hmax s _, fun h => (by cases h), fun _ => ⟨hne, rfl⟩⟩

/-- per-loop lemma, `parseSeries`: every iteration shifts at least one token -/
theorem seriesBody_sat (hl : c.listBreaks = true) (hsr : c.signRecursive = false) (hstop : StopsAtEof c.skipCond) (hgo : SkipsOther c.skipCond)
    (fuel : Nat) (s : SS) (hne : s.p.cur.kind ≠ .eof) (hm : s.p.m + 2 ≤ fuel) :
    (seriesBody c fuel s).Sat (fun r => r.1 = true ∧ r.2.p.m < s.p.m ∧ (s.p.Inv → r.2.p.Inv)) := by
  unfold seriesBody
  have ht := parseTypeName_spec c hmax s.p hne
  have htj := parseTypeName_named_jail c s.p
  generalize parseTypeName c s.p = tn at ht htj
  obtain ⟨named, p⟩ := tn
  simp only at ht htj ⊢
  cases named with
  | false =>
    simp only [Bool.not_false, if_true]
    have hp := ht.2.2 rfl
    refine (skipErrStmt_spec c hmax hstop hgo fuel p (by omega)).bind ?_
    intro r ⟨_, _, _, hinv, hlt⟩
    have := hlt (htj rfl) hp.1
    exact .ok ⟨rfl, by simp only; omega, fun h => hinv (ht.1.inv h)⟩
  | true =>
    simp only [Bool.not_true, Bool.false_eq_true, if_false]
    have hplt := ht.2.1 rfl
    refine (parseValue_spec c hmax hl hsr fuel 0 p (by omega)).bind ?_
    intro p2 ⟨hle2, _⟩
    have hm2 := hle2.m_le
    refine (skipErrStmt_spec c hmax hstop hgo fuel p2 (by omega)).bind ?_
    intro r ⟨_, _, hr, hinv, _⟩
    split
    · exact .ok ⟨rfl, by simp only; omega, fun h => hinv (hle2.inv (ht.1.inv h))⟩
    · have he := PS.expect_le c hmax r.2 .semi
      have hme := he.m_le
      refine (skipErrStmt_spec c hmax hstop hgo fuel _ (by omega)).bind ?_
      intro r3 ⟨_, _, hr3, hinv3, _⟩
      exact .ok ⟨rfl, by simp only; omega, fun h => hinv3 (he.inv (hinv (hle2.inv (ht.1.inv h))))⟩

/-- **`parseSeries` returns** for every token stream -/
theorem parseSeries_spec (hl : c.listBreaks = true) (hsr : c.signRecursive = false) (hstop : StopsAtEof c.skipCond) (hgo : SkipsOther c.skipCond)
    (fuel : Nat) (p : PS) (hm : p.m + 2 ≤ fuel) :
    (parseSeries c fuel p).Sat (fun r => r.p.see .eof = true ∧ (p.Inv → r.p.Inv)) := by
  unfold parseSeries
  refine loopB_sat _ _ (fun x : SS => x.p.m ≤ p.m ∧ (p.Inv → x.p.Inv))
    (fun x => x.p.see .eof = true ∧ (p.Inv → x.p.Inv)) (fun x => x.p.m)
    (fun x hx hc => ⟨by simpa using hc, hx.2⟩) ?_ fuel _ ⟨Nat.le_refl _, id⟩ (by simp only; omega)
  intro x hx hc
  have hne : x.p.cur.kind ≠ .eof := by simpa [PS.see] using hc
  refine (seriesBody_sat c hmax hl hsr hstop hgo fuel x hne (by omega)).mono ?_
  intro r ⟨h1, h2, h3⟩
  simp only [h1, if_true]
  exact ⟨⟨by omega, fun h => h3 (hx.2 h)⟩, h2⟩

end parser

/-! ## the pinned `SkipErrStmt` diverges at EOF -/

/-- a parser state at EOF with nothing left in the stream -/
def PS.AtEof (s : PS) : Prop := s.cur.kind = .eof ∧ s.rest = []

theorem PS.next_atEof (c : Cfg) (s : PS) (h : s.AtEof) : (s.next c).AtEof := by
  obtain ⟨_, h2⟩ := h
  simp [PS.AtEof, PS.next, h2, nextTok, PS.eofTok]

theorem loopB_pinned_diverges (c : Cfg) (hc : c.skipCond = BExp.pinned) :
    ∀ fuel s, s.AtEof → loopB (PS.skipCond c) (fun s => .ok (true, s.next c)) fuel s = .outOfFuel := by
  intro fuel
  induction fuel with
  | zero => intro s _; rfl
  | succ n ih =>
    intro s hs
    have hcond : PS.skipCond c s = true := by
      simp [PS.skipCond, hc, BExp.pinned, BExp.eval, PS.see, hs.1]
    unfold loopB
    simp only [hcond, if_true]
    exact ih _ (PS.next_atEof c s hs)

end PubModel.C08

namespace PubModel.C08

/-! ## `parseListEntries` without its `InError` break diverges at EOF -/

theorem parseValue_atEof (c : Cfg) (n d : Nat) (s : PS) (hs : s.AtEof) :
    parseValue c (n + 1) d s = .ok (s.errHere c "jsonx.expectOperand") := by
  have hk := hs.1
  unfold parseValue
  simp [PS.see, PS.seeOp, hk]

theorem entrySep_atEof_jail (c : Cfg) (s : PS) (hs : s.AtEof) (hj : s.pe.jail = true) (o : Char) :
    s.entrySep c o = s := by
  simp [PS.entrySep, PS.seeOp, PS.expectOp, PS.inError, hs.1, hj]

theorem listLoop_no_break_diverges (c : Cfg) (hl : c.listBreaks = false) (n d : Nat) :
    ∀ k s, s.AtEof → loopB (fun s => !s.seeOp ']') (listBody c (parseValue c n d)) k s = .outOfFuel := by
  intro k
  induction k with
  | zero => intro s _; rfl
  | succ k ih =>
    intro s hs
    have hcond : (!s.seeOp ']') = true := by simp [PS.seeOp, hs.1]
    unfold loopB
    simp only [hcond, if_true]
    cases n with
    | zero => simp [listBody, parseValue, Res.bind]
    | succ m =>
      have hs' : (s.errHere c "jsonx.expectOperand").AtEof := hs
      have hj : (s.errHere c "jsonx.expectOperand").pe.jail = true := PS.errAt_jail c s _ _
      simp only [listBody, parseValue_atEof c m d s hs, Res.bind, entrySep_atEof_jail c _ hs' hj, hl,
        Bool.false_and, Bool.not_false]
      exact ih _ hs'

end PubModel.C08
