/-
C08 — obligations that connect the *regenerated* facts (`Gen.Jsonx`, rewritten
from /repo's source on every run) to the hypotheses of the termination
theorems.  All closed by `decide`.
-/
import PubModel.C08.Lemmas4
import PubModel.Gen.Jsonx

namespace PubModel.C08
open PubModel.Gen

/-- the loop of `Parser.SkipErrStmt` stops at EOF (the repaired condition;
    `!p.See(sep) || p.See(EOF)` fails here) -/
theorem gen_skip_stops_at_eof : StopsAtEof Jsonx.skipCond := by decide

/-- the loop of `Parser.SkipErrStmt` skips a token that is neither the separator nor EOF -/
theorem gen_skip_skips_other : SkipsOther Jsonx.skipCond := by decide

/-- the error list keeps at least one error -/
theorem gen_errMax_pos : 0 < Jsonx.errMax := by decide

/-- `parseListEntries` leaves its loop when the parser is in error state -/
theorem gen_list_breaks : Jsonx.listBreaks = true := by decide

/-- `parseSeries` skips to the statement separator only -/
theorem gen_series_sep : Jsonx.seriesSeps = ["tokSemi"] := by decide

/-- token type codes are pairwise distinct (so `See(sep)` and `See(EOF)` exclude each other) -/
theorem gen_tok_codes_distinct :
    (Jsonx.tokenCodes.map (·.2)).eraseDups.length = Jsonx.tokenCodes.length := by decide

/-- rune 0, which the lexer sees after the end, is not an exponent sign -/
theorem gen_exp_signs : GoodLex Jsonx.lexCfg := by decide

/-- `parseValue` has a nesting limit (`maxNestingDepth`, guarded in both bracket cases) -/
theorem gen_depth_limited : Jsonx.cfg.depthLimit = some (Jsonx.depthLimit.getD 0) ∧ Jsonx.depthLimit.isSome = true := by
  decide

/-- the sign case of `parseValue` looks at the next token itself and does not
    call `parseValue`: a run of n signs costs no recursion level (the nesting
    limit does not count signs, so the stack bound rests on this) -/
theorem gen_sign_case_iterative : Jsonx.cfg.signRecursive = false := by decide

/-- `semiInserter.Token` is a loop and does not call itself: a dropped line
    break costs no stack frame (the model's `semiInsert` walks the materialised
    token list; that this is no recursion in the source is this fact) -/
theorem gen_semi_inserter_iterative : Jsonx.semiTokenCallsItself = false := by decide

theorem gen_cfg_good : GoodCfg Jsonx.cfg :=
  ⟨gen_errMax_pos, gen_list_breaks, gen_skip_stops_at_eof, gen_skip_skips_other, gen_sign_case_iterative⟩

end PubModel.C08
