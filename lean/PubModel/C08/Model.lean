/-
C08 — model of the control skeleton of `lexing.Parser` and of the jsonx parser
(`parseValue`, object/list entries, ident lists, typed series, `SkipErrStmt`,
the capped error list) over an abstract token stream.

Conventions (DESIGN.md 1.1, appendix D):
* every Go loop that is not plainly structural is `loopB cond body fuel`, which
  answers `outOfFuel` when the fuel is used up; "terminates" is therefore a
  theorem (`Lemmas*.lean`, `Theorems.lean`), not an artefact of totality;
* a Go panic is the explicit outcome `Res.panic`;
* token payloads are abstracted to what decides control flow: the kind, the
  operator rune, the position, one flag `bad` (the leaf conversion of the
  literal fails: `strconv.Unquote` / `strconv.ParseFloat` / a keyword other
  than true, false, null) and the errors the lexer reported while it produced
  the token.  The parsed value itself is not built.
* the tokener is lazy in Go.  Here the token list is materialised (its
  finiteness is `lexer_terminates`), every token carries the lexer errors that
  become visible when it is pulled, and `pulled` counts the tokens the parser
  has taken from the tokener, so laziness stays observable.

Core Lean only.
-/
namespace PubModel.C08

/-! ## outcomes and the loop combinator -/

inductive Res (α : Type) where
  | ok (a : α)
  | outOfFuel
  | panic
  deriving Repr, DecidableEq

namespace Res
def bind {α β : Type} (r : Res α) (f : α → Res β) : Res β :=
  match r with
  | .ok a => f a
  | .outOfFuel => .outOfFuel
  | .panic => .panic

instance : Monad Res where
  pure := .ok
  bind := Res.bind

def isOk {α : Type} : Res α → Bool
  | .ok _ => true
  | _ => false
end Res

/-- `for cond(s) { (go, s) = body(s); if !go { break } }` with explicit fuel. -/
def loopB {σ : Type} (cond : σ → Bool) (body : σ → Res (Bool × σ)) : Nat → σ → Res σ
  | 0, _ => .outOfFuel
  | n + 1, s =>
    if cond s then
      match body s with
      | .ok (true, s') => loopB cond body n s'
      | .ok (false, s') => .ok s'
      | .outOfFuel => .outOfFuel
      | .panic => .panic
    else .ok s

/-! ## errors and the capped error list (`lexing/error_list.go`) -/

structure Err where
  code : String
  line : Nat
  col : Nat
  deriving DecidableEq, Repr, Inhabited

/-- `lexing.ErrorList`.  `ever` is a ghost flag: an error was added at some
    time (it is what "the parse failed" means once `BailOut` cleared `jail`). -/
structure ErrList where
  errs : List Err := []
  jail : Bool := false
  ever : Bool := false
  deriving Repr

/-- `ErrorList.Add`: enter jail; keep the error unless `max` are already stored. -/
def ErrList.add (max : Nat) (l : ErrList) (e : Err) : ErrList :=
  { errs := if max ≤ l.errs.length then l.errs else l.errs ++ [e], jail := true, ever := true }

def ErrList.addAll (max : Nat) (l : ErrList) : List Err → ErrList
  | [] => l
  | e :: es => ErrList.addAll max (l.add max e) es

def ErrList.bailOut (l : ErrList) : ErrList := { l with jail := false }

/-! ## tokens -/

inductive Kind where
  | eof | comment | illegal | keyword | ident | str | int | float | op | semi | endl
  deriving DecidableEq, Repr, Inhabited

structure Tok where
  kind : Kind
  /-- the operator rune when `kind = .op` -/
  op : Nat := 0
  /-- leaf conversion of the literal fails / unexpected keyword -/
  bad : Bool := false
  line : Nat := 0
  col : Nat := 0
  /-- errors the lexer reports while producing this token -/
  lexErrs : List Err := []
  deriving Repr, Inhabited

/-- loop condition of `SkipErrStmt` as read from the source: a Boolean
    expression over `p.See(sep)` and `p.See(EOF)` -/
inductive BExp where
  | seeSep | seeEof
  | not (e : BExp)
  | and (a b : BExp)
  | or (a b : BExp)
  | tt | ff
  deriving Repr, DecidableEq

def BExp.eval (sep eof : Bool) : BExp → Bool
  | .seeSep => sep
  | .seeEof => eof
  | .not e => !(e.eval sep eof)
  | .and a b => a.eval sep eof && b.eval sep eof
  | .or a b => a.eval sep eof || b.eval sep eof
  | .tt => true
  | .ff => false

/-- the facts of the source the model is parameterised by (regenerated: `Gen/Jsonx.lean`) -/
structure Cfg where
  /-- `ErrorList.Max` -/
  errMax : Nat
  /-- loop condition of `Parser.SkipErrStmt` -/
  skipCond : BExp
  /-- `parseValue` converts the float literal under a leading sign -/
  signedFloatParsed : Bool
  /-- `parseListEntries` / `parseObjectEntries` leave their loop when the parser is in error state -/
  listBreaks : Bool
  objBreaks : Bool
  /-- `maxNestingDepth`: `parseValue` refuses to open a list or object when this
      many are already open (`none`: no limit) -/
  depthLimit : Option Nat := none
  /-- the sign case of `parseValue` parses its operand with a recursive
      `parseValue` call (instead of looking at the next token itself) -/
  signRecursive : Bool := false
  deriving Repr

/-- `p.depth >= maxNestingDepth` -/
def Cfg.tooDeep (c : Cfg) (d : Nat) : Bool :=
  match c.depthLimit with
  | some l => l ≤ d
  | none => false

/-- the condition after the repair: `!p.See(sep) && !p.See(EOF)` -/
def BExp.fixed : BExp := .and (.not .seeSep) (.not .seeEof)
/-- the condition of the pinned tree: `!p.See(sep) || p.See(EOF)` -/
def BExp.pinned : BExp := .or (.not .seeSep) .seeEof

/-! ## parser state (`lexing.Parser` + the tokener chain below it) -/

structure PS where
  cur : Tok
  /-- tokens not yet pulled from the tokener (after semicolon insertion and
      keywording, before comment removal); no EOF token in here -/
  rest : List Tok
  /-- position of the EOF token the tokener returns for ever once `rest` is used up -/
  eofLine : Nat
  eofCol : Nat
  /-- tokens taken from the tokener so far (what `lexing.Recorder` has seen) -/
  pulled : Nat := 0
  /-- the lexer's error list, as far as the lexer has run -/
  le : ErrList := {}
  /-- the parser's error list -/
  pe : ErrList := {}
  /-- ghost: the largest number of lists/objects that were open at the same
      time (= frames of `parseListEntries`/`parseObjectEntries` on the Go stack;
      `parseValue` frames are at most one more) -/
  maxDepth : Nat := 0
  deriving Repr

def PS.eofTok (s : PS) : Tok := { kind := .eof, line := s.eofLine, col := s.eofCol }

/-- one `Token()` call on `lexing.Remover` over the rest of the stream: comments
    are dropped (their lexer errors stay), an exhausted stream yields EOF.
    Returns the token, the remaining stream, the number of tokens taken and
    the lexer errors seen.  Structural on the materialised list. -/
def nextTok (eof : Tok) : List Tok → Nat → List Err → Tok × List Tok × Nat × List Err
  | [], n, es => (eof, [], n + 1, es)
  | t :: ts, n, es =>
    if t.kind = .comment then nextTok eof ts (n + 1) (es ++ t.lexErrs)
    else (t, ts, n + 1, es ++ t.lexErrs)

/-- `Parser.Next` -/
def PS.next (c : Cfg) (s : PS) : PS :=
  let r := nextTok s.eofTok s.rest 0 []
  { s with cur := r.1, rest := r.2.1, pulled := s.pulled + r.2.2.1, le := s.le.addAll c.errMax r.2.2.2 }

def PS.see (s : PS) (k : Kind) : Bool := s.cur.kind = k
def PS.seeOp (s : PS) (o : Char) : Bool := s.cur.kind = .op && s.cur.op = o.toNat
def PS.inError (s : PS) : Bool := s.pe.jail

/-- `CodeErrorf(pos of t, code, ...)` -/
def PS.errAt (c : Cfg) (s : PS) (code : String) (t : Tok) : PS :=
  { s with pe := s.pe.add c.errMax ⟨code, t.line, t.col⟩ }
def PS.errHere (c : Cfg) (s : PS) (code : String) : PS := s.errAt c code s.cur
def PS.bailOut (s : PS) : PS := { s with pe := s.pe.bailOut }
/-- `p.depth++` to `d`: record the nesting reached -/
def PS.enter (s : PS) (d : Nat) : PS := { s with maxDepth := max s.maxDepth d }

/-- `Parser.Expect(t)` -/
def PS.expect (c : Cfg) (s : PS) (k : Kind) : PS :=
  if s.inError then s
  else if s.see k then s.next c
  else s.errHere c "lexing.unexpected"

/-- `parser.expectOp(op)` -/
def PS.expectOp (c : Cfg) (s : PS) (o : Char) : PS :=
  if s.inError then s
  else if s.seeOp o then s.next c
  else s.errHere c "jsonx.expectOp"

/-- the loop condition of `SkipErrStmt(tokSemi)` in state `s` -/
def PS.skipCond (c : Cfg) (s : PS) : Bool := c.skipCond.eval (s.see .semi) (s.see .eof)

/-- `Parser.SkipErrStmt(tokSemi)`; the Boolean is its return value -/
def skipErrStmt (c : Cfg) (fuel : Nat) (s : PS) : Res (Bool × PS) :=
  if !s.inError then .ok (false, s)
  else
    (loopB (PS.skipCond c) (fun s => .ok (true, s.next c)) fuel s).bind fun s =>
    let s := if s.see .semi then s.next c else s
    .ok (true, s.bailOut)

/-! ## jsonx value parser (`jsonx/parse_value.go`) -/

/-- `parseStringValue` / `parseFloatValue` on the token just shifted -/
def PS.leaf (c : Cfg) (s : PS) (code : String) (t : Tok) : PS :=
  if t.bad then s.errAt c code t else s

/-- after an entry: `if seeOp(",") { Shift } else if !seeOp(close) { expectOp(",") }` -/
def PS.entrySep (c : Cfg) (s : PS) (close : Char) : PS :=
  if s.seeOp ',' then s.next c
  else if !s.seeOp close then s.expectOp c ','
  else s

/-- one iteration of the loop of `parseObjectEntries`; `pv` is `parseValue` -/
def objBody (c : Cfg) (pv : PS → Res PS) (s : PS) : Res (Bool × PS) :=
  if !(s.see .ident || s.see .str) then
    .ok (false, s.errHere c "jsonx.expectObjectEntry")
  else
    let key := s.cur
    let s := s.next c
    let s := if key.kind = .str then s.leaf c "jsonx.stringLit" key else s
    let s := s.expectOp c ':'
    (pv s).bind fun s =>
    let s := s.entrySep c '}'
    .ok (!(c.objBreaks && s.inError), s)

/-- one iteration of the loop of `parseListEntries` -/
def listBody (c : Cfg) (pv : PS → Res PS) (s : PS) : Res (Bool × PS) :=
  (pv s).bind fun s =>
  let s := s.entrySep c ']'
  .ok (!(c.listBreaks && s.inError), s)

/-- one iteration of the loop of `parseIdentList` -/
def identBody (c : Cfg) (s : PS) : Res (Bool × PS) :=
  if s.inError then .ok (false, s)
  else if !s.see .ident then .ok (false, s.errHere c "lexing.unexpected")
  else
    let s := s.next c
    if !s.seeOp '.' then .ok (false, s) else .ok (true, s.next c)

/-- `parseValue`.  The fuel bounds the nesting depth and, one level down, the
    iterations of each entry loop.  `d` is `p.depth`, the number of lists and
    objects currently open. -/
def parseValue (c : Cfg) : Nat → Nat → PS → Res PS
  | 0, _, _ => .outOfFuel
  | n + 1, d, s =>
    if s.see .keyword then
      let t := s.cur
      .ok ((s.next c).leaf c "jsonx.unexpectedKeyword" t)
    else if s.see .str then
      let t := s.cur
      .ok ((s.next c).leaf c "jsonx.stringLit" t)
    else if s.see .int then .ok (s.next c)
    else if s.see .float then
      let t := s.cur
      .ok ((s.next c).leaf c "jsonx.floatLit" t)
    else if s.seeOp '+' || s.seeOp '-' then
      let s := s.next c
      if c.signRecursive then
        -- variant: one recursion level per sign, not counted by the nesting limit;
        -- the result is accepted when it is an unsigned number
        let t := s.cur
        let good := s.see .int || s.see .float
        (parseValue c n d s).bind fun s2 =>
        .ok (if good then s2 else s2.errAt c "jsonx.expectNumber" t)
      else if s.see .int then .ok (s.next c)
      else if s.see .float then
        let t := s.cur
        let s := s.next c
        .ok (if c.signedFloatParsed then s.leaf c "jsonx.floatLit" t else s)
      else .ok (s.errHere c "jsonx.expectNumber")
    else if s.seeOp '{' then
      if c.tooDeep d then .ok (s.errHere c "jsonx.tooDeep")
      else
        let s := (s.next c).enter (d + 1)
        (loopB (fun s => !s.seeOp '}') (objBody c (parseValue c n (d + 1))) n s).bind fun s =>
        .ok (s.expectOp c '}')
    else if s.seeOp '[' then
      if c.tooDeep d then .ok (s.errHere c "jsonx.tooDeep")
      else
        let s := (s.next c).enter (d + 1)
        (loopB (fun s => !s.seeOp ']') (listBody c (parseValue c n (d + 1))) n s).bind fun s =>
        .ok (s.expectOp c ']')
    else if s.see .ident then
      loopB (fun _ => true) (identBody c) n s
    else .ok (s.errHere c "jsonx.expectOperand")

/-! ## typed series (`jsonx/parse_series.go`) -/

/-- `parseTypeName`; the Boolean says whether a name was returned -/
def parseTypeName (c : Cfg) (s : PS) : Bool × PS :=
  if s.see .str then
    let t := s.cur
    (true, (s.next c).leaf c "jsonx.stringLit" t)
  else if s.see .ident then (true, s.next c)
  else (false, s.errHere c "jsonx.expectTypeName")

/-- state of `parseSeries`: the parser and the number of entries appended -/
structure SS where
  p : PS
  entries : Nat := 0

/-- one iteration of `for !p.See(lexing.EOF)` in `parseSeries` -/
def seriesBody (c : Cfg) (fuel : Nat) (s : SS) : Res (Bool × SS) :=
  let (named, p) := parseTypeName c s.p
  if !named then
    (skipErrStmt c fuel p).bind fun r => .ok (true, { s with p := r.2 })
  else
    (parseValue c fuel 0 p).bind fun p =>
    (skipErrStmt c fuel p).bind fun r =>
    if r.1 then .ok (true, { s with p := r.2 })
    else
      let p := r.2.expect c .semi
      (skipErrStmt c fuel p).bind fun r => .ok (true, { p := r.2, entries := s.entries + 1 })

def parseSeries (c : Cfg) (fuel : Nat) (p : PS) : Res SS :=
  loopB (fun s => !s.p.see .eof) (seriesBody c fuel) fuel { p := p }

/-! ## entry points over a token stream -/

/-- what a caller of an entry point observes -/
inductive Outcome where
  /-- a value is returned; `more` is `Decoder.More()` after `Decode` (only
      meaningful for `Unmarshal`), `entries` the number of series entries -/
  | value (pulled : Nat) (entries : Nat) (more : Bool)
  /-- errors are returned: how many, and the first one -/
  | errors (n : Nat) (first : Err) (pulled : Nat)
  deriving Repr, DecidableEq

/-- `NewParser`: the first token is read in -/
def PS.init (c : Cfg) (toks : List Tok) (eofLine eofCol : Nat) : PS :=
  PS.next c { cur := { kind := .eof }, rest := toks, eofLine := eofLine, eofCol := eofCol }

/-- `Parser.Errs()`: the lexer's errors if there are any, else the parser's -/
def PS.errs (s : PS) : List Err :=
  if s.le.errs ≠ [] then s.le.errs else s.pe.errs

def outcomeOf (s : PS) (entries : Nat) (more : Bool) : Outcome :=
  match s.errs with
  | [] => .value s.pulled entries more
  | e :: es => .errors (es.length + 1) e s.pulled

/-- the parse phase of `ToJSON` (encoding the value is a leaf, see `toJSON`) -/
def toJSONToks (c : Cfg) (fuel : Nat) (s : PS) : Res Outcome :=
  (parseValue c fuel 0 s).bind fun s => .ok (outcomeOf s 0 false)

/-- `Decoder.Decode` + `More()` as used by `Unmarshal` -/
def decodeToks (c : Cfg) (fuel : Nat) (s : PS) : Res Outcome :=
  (parseValue c fuel 0 s).bind fun s =>
  match s.errs with
  | [] =>
    let s := if s.see .semi then s.next c else s
    .ok (.value s.pulled 0 (!s.see .eof))
  | e :: es => .ok (.errors (es.length + 1) e s.pulled)

/-- the parse phase of `Decoder.DecodeSeries` -/
def seriesToks (c : Cfg) (fuel : Nat) (s : PS) : Res Outcome :=
  (parseSeries c fuel s).bind fun r => .ok (outcomeOf r.p r.entries false)

end PubModel.C08
