/-
C08 — helper lemmas, part 1: the Hoare-style predicate `Res.Sat`, the loop
rule ("the measure strictly decreases or the loop exits"), and the parser
layer: `Parser.Next` never increases the number of tokens not yet shifted and
strictly decreases it when the current token is not EOF; `parseValue`,
`SkipErrStmt` (for every loop condition that is false at EOF and true away from
the separator), `parseSeries`.
-/
import PubModel.C08.Model

namespace PubModel.C08

/-! ## Sat and the loop rule -/

/-- `r` is `.ok a` (neither out of fuel nor a panic) and `Q a` holds -/
def Res.Sat {α : Type} (r : Res α) (Q : α → Prop) : Prop := ∃ a, r = .ok a ∧ Q a

theorem Res.Sat.ok {α : Type} {a : α} {Q : α → Prop} (h : Q a) : (Res.ok a).Sat Q := ⟨a, rfl, h⟩

theorem Res.Sat.bind {α β : Type} {r : Res α} {f : α → Res β} {Q : α → Prop} {R : β → Prop}
    (h : r.Sat Q) (hf : ∀ a, Q a → (f a).Sat R) : (r.bind f).Sat R := by
  obtain ⟨a, rfl, ha⟩ := h
  exact hf a ha

theorem Res.Sat.mono {α : Type} {r : Res α} {Q R : α → Prop} (h : r.Sat Q) (hq : ∀ a, Q a → R a) :
    r.Sat R := by
  obtain ⟨a, rfl, ha⟩ := h
  exact ⟨a, rfl, hq a ha⟩

theorem Res.Sat.ne_outOfFuel {α : Type} {r : Res α} {Q : α → Prop} (h : r.Sat Q) : r ≠ .outOfFuel := by
  obtain ⟨a, rfl, _⟩ := h; intro h'; cases h'

theorem Res.Sat.ne_panic {α : Type} {r : Res α} {Q : α → Prop} (h : r.Sat Q) : r ≠ .panic := by
  obtain ⟨a, rfl, _⟩ := h; intro h'; cases h'

/-- **Loop rule.**  If every iteration that goes on keeps the invariant and
    strictly decreases the measure, every iteration that breaks establishes
    `Q`, and leaving by the condition establishes `Q`, then the loop returns
    (no `outOfFuel`, no panic) with `Q` whenever the fuel exceeds the measure. -/
theorem loopB_sat {σ : Type} (cond : σ → Bool) (body : σ → Res (Bool × σ))
    (I Q : σ → Prop) (m : σ → Nat)
    (hexit : ∀ s, I s → cond s = false → Q s)
    (hbody : ∀ s, I s → cond s = true →
      (body s).Sat (fun r => if r.1 then I r.2 ∧ m r.2 < m s else Q r.2)) :
    ∀ fuel s, I s → m s < fuel → (loopB cond body fuel s).Sat Q := by
  intro fuel
  induction fuel with
  | zero => intro s _ h; omega
  | succ n ih =>
    intro s hI hm
    unfold loopB
    by_cases hc : cond s = true
    · simp only [hc, if_true]
      obtain ⟨⟨go, s'⟩, hb, hr⟩ := hbody s hI hc
      rw [hb]
      cases go with
      | true =>
        simp only at hr ⊢
        exact ih s' hr.1 (by simp at hr; omega)
      | false =>
        simp only at hr ⊢
        exact ⟨s', rfl, by simpa using hr⟩
    · simp only [hc]
      exact ⟨s, rfl, hexit s hI (by simpa using hc)⟩

/-! ## error list -/

/-- an error that was ever added is still in the list (needs `0 < max`) -/
def ErrList.OK (l : ErrList) : Prop := l.ever = true → l.errs ≠ []

theorem ErrList.add_ok {max : Nat} (hmax : 0 < max) (l : ErrList) (e : Err) (_h : l.OK) : (l.add max e).OK := by
  intro _
  unfold ErrList.add
  simp only
  split
  · rename_i hle
    intro hnil
    rw [hnil] at hle
    simp at hle
    omega
  · simp

theorem ErrList.addAll_ok {max : Nat} (hmax : 0 < max) (es : List Err) :
    ∀ l : ErrList, l.OK → (l.addAll max es).OK := by
  induction es with
  | nil => intro l h; exact h
  | cons e es ih => intro l h; exact ih _ (ErrList.add_ok hmax l e h)

theorem ErrList.addAll_jail {max : Nat} (es : List Err) :
    ∀ l : ErrList, l.jail = true → (l.addAll max es).jail = true := by
  induction es with
  | nil => intro l h; exact h
  | cons e es ih => intro l _; exact ih _ rfl

theorem ErrList.bailOut_ok (l : ErrList) (h : l.OK) : l.bailOut.OK := h

theorem ErrList.empty_ok : ({} : ErrList).OK := by intro h; cases h

/-! ## the measure: tokens not yet shifted -/

/-- tokens not yet shifted: the rest of the stream, plus one for the current
    token unless that is EOF -/
def PS.m (s : PS) : Nat := s.rest.length + (if s.cur.kind = .eof then 0 else 1)

theorem nextTok_len (eof : Tok) : ∀ (l : List Tok) (n : Nat) (es : List Err),
    (nextTok eof l n es).2.1.length + 1 ≤ l.length ∨ (l = [] ∧ (nextTok eof l n es).1 = eof ∧ (nextTok eof l n es).2.1 = [])
  | [], n, es => by right; simp [nextTok]
  | t :: ts, n, es => by
    left
    unfold nextTok
    split
    · rcases nextTok_len eof ts (n + 1) (es ++ t.lexErrs) with h | ⟨h1, _, h3⟩
      · simp only [List.length_cons]; omega
      · simp [h3]
    · simp

/-- `Parser.Next` never increases the measure -/
theorem PS.next_m_le (c : Cfg) (s : PS) : (s.next c).m ≤ s.m := by
  unfold PS.next PS.m
  simp only
  rcases nextTok_len s.eofTok s.rest 0 [] with h | ⟨h1, h2, h3⟩
  · split <;> split <;> omega
  · simp [h1, nextTok, PS.eofTok]

/-- shifting a token that is not EOF strictly decreases the measure -/
theorem PS.next_m_lt (c : Cfg) (s : PS) (h : s.cur.kind ≠ .eof) : (s.next c).m < s.m := by
  unfold PS.next PS.m
  simp only [h, if_false]
  rcases nextTok_len s.eofTok s.rest 0 [] with h' | ⟨h1, h2, h3⟩
  · split <;> omega
  · simp [h1, nextTok, PS.eofTok]

/-- both error lists keep every error that was ever added -/
def PS.Inv (s : PS) : Prop := s.pe.OK ∧ s.le.OK

/-- `b` is reached from `a` by parser actions other than `BailOut` -/
structure PS.Le (a b : PS) : Prop where
  m_le : b.m ≤ a.m
  jail : a.pe.jail = true → b.pe.jail = true
  inv : a.Inv → b.Inv

theorem PS.Le.refl (a : PS) : PS.Le a a := ⟨Nat.le_refl _, id, id⟩

theorem PS.Le.trans {a b d : PS} (h1 : PS.Le a b) (h2 : PS.Le b d) : PS.Le a d :=
  ⟨Nat.le_trans h2.m_le h1.m_le, fun h => h2.jail (h1.jail h), fun h => h2.inv (h1.inv h)⟩

section parser
variable (c : Cfg) (hmax : 0 < c.errMax)
include hmax

theorem PS.next_le (s : PS) : PS.Le s (s.next c) :=
  ⟨PS.next_m_le c s, fun h => by simpa [PS.next] using h,
   fun h => ⟨by simpa [PS.next] using h.1, by
     simp only [PS.next]
     exact ErrList.addAll_ok hmax _ _ h.2⟩⟩

omit hmax in
theorem PS.enter_le (s : PS) (d : Nat) : PS.Le s (s.enter d) :=
  ⟨Nat.le_refl _, id, id⟩

omit hmax in
theorem PS.enter_m (s : PS) (d : Nat) : (s.enter d).m = s.m := rfl

theorem PS.errAt_le (s : PS) (code : String) (t : Tok) : PS.Le s (s.errAt c code t) :=
  ⟨by simp only [PS.errAt, PS.m]; exact Nat.le_refl _, fun _ => by simp [PS.errAt, ErrList.add],
   fun h => ⟨by simpa [PS.errAt] using ErrList.add_ok hmax _ _ h.1, by simpa [PS.errAt] using h.2⟩⟩

omit hmax in
theorem PS.errAt_jail (s : PS) (code : String) (t : Tok) : (s.errAt c code t).pe.jail = true := by
  simp [PS.errAt, ErrList.add]

theorem PS.errHere_le (s : PS) (code : String) : PS.Le s (s.errHere c code) := PS.errAt_le c hmax s code _

theorem PS.leaf_le (s : PS) (code : String) (t : Tok) : PS.Le s (s.leaf c code t) := by
  unfold PS.leaf; split
  · exact PS.errAt_le c hmax s code t
  · exact PS.Le.refl s

theorem PS.expect_le (s : PS) (k : Kind) : PS.Le s (s.expect c k) := by
  unfold PS.expect
  split
  · exact PS.Le.refl s
  · split
    · exact PS.next_le c hmax s
    · exact PS.errHere_le c hmax s _

theorem PS.expectOp_le (s : PS) (o : Char) : PS.Le s (s.expectOp c o) := by
  unfold PS.expectOp
  split
  · exact PS.Le.refl s
  · split
    · exact PS.next_le c hmax s
    · exact PS.errHere_le c hmax s _

theorem PS.entrySep_le (s : PS) (o : Char) : PS.Le s (s.entrySep c o) := by
  unfold PS.entrySep
  split
  · exact PS.next_le c hmax s
  · split
    · exact PS.expectOp_le c hmax s _
    · exact PS.Le.refl s

omit hmax in
theorem PS.see_ne_eof {s : PS} {k : Kind} (h : s.see k = true) (hk : k ≠ .eof) : s.cur.kind ≠ .eof := by
  simp [PS.see] at h; rw [h]; exact hk

omit hmax in
theorem PS.seeOp_ne_eof {s : PS} {o : Char} (h : s.seeOp o = true) : s.cur.kind ≠ .eof := by
  simp [PS.seeOp] at h; rw [h.1]; decide

/-- specification of `parseValue` used for its own recursion -/
def PVSpec (pv : PS → Res PS) (bound : Nat) : Prop :=
  ∀ s, s.m ≤ bound → (pv s).Sat (fun s' => PS.Le s s' ∧ (s'.pe.jail = false → s'.m < s.m))

/-- per-loop lemma, `parseObjectEntries`: every iteration that goes on shifts
    the key, so the remaining-token count strictly decreases -/
theorem objBody_sat (pv : PS → Res PS) (bound : Nat) (hpv : PVSpec pv bound) (s0 s : PS)
    (hI : PS.Le s0 s) (hb : s.m ≤ bound + 1) :
    (objBody c pv s).Sat (fun r => if r.1 then PS.Le s0 r.2 ∧ r.2.m < s.m else PS.Le s0 r.2) := by
  unfold objBody
  split
  · exact .ok (by simpa using hI.trans (PS.errHere_le c hmax s _))
  · rename_i hsee
    have hne : s.cur.kind ≠ .eof := by
      simp only [Bool.not_eq_true, Bool.not_eq_false', Bool.or_eq_true] at hsee
      have hsee' : s.see .ident = true ∨ s.see .str = true := by
        rcases hx : s.see .ident with _ | _ <;> rcases hy : s.see .str with _ | _ <;> simp_all
      rcases hsee' with h | h
      · exact PS.see_ne_eof h (by decide)
      · exact PS.see_ne_eof h (by decide)
    have h1 := PS.next_le c hmax s
    have h1lt := PS.next_m_lt c s hne
    -- the state handed to parseValue
    generalize hs2 : PS.expectOp c (if s.cur.kind = Kind.str then (s.next c).leaf c "jsonx.stringLit" s.cur else s.next c) ':' = s2
    have h2 : PS.Le (s.next c) s2 := by
      rw [← hs2]
      refine PS.Le.trans ?_ (PS.expectOp_le c hmax _ _)
      split
      · exact PS.leaf_le c hmax _ _ _
      · exact PS.Le.refl _
    simp only
    rw [hs2]
    have hm2 : s2.m ≤ bound := by have := h2.m_le; omega
    refine (hpv s2 hm2).bind ?_
    intro s3 ⟨h3, _⟩
    have h4 := PS.entrySep_le c hmax s3 '}'
    have hall : PS.Le s (s3.entrySep c '}') := (h1.trans (h2.trans h3)).trans h4
    have hlt : (s3.entrySep c '}').m < s.m := by
      have := h4.m_le; have := h3.m_le; have := h2.m_le; omega
    refine .ok ?_
    simp only
    split
    · exact ⟨hI.trans hall, hlt⟩
    · exact hI.trans hall

/-- per-loop lemma, `parseListEntries`: an iteration that goes on is not in
    error state (this is the `InError` break), so `parseValue` shifted a token -/
theorem listBody_sat (hl : c.listBreaks = true) (pv : PS → Res PS) (bound : Nat) (hpv : PVSpec pv bound)
    (s0 s : PS) (hI : PS.Le s0 s) (hb : s.m ≤ bound) :
    (listBody c pv s).Sat (fun r => if r.1 then PS.Le s0 r.2 ∧ r.2.m < s.m else PS.Le s0 r.2) := by
  unfold listBody
  refine (hpv s hb).bind ?_
  intro s3 ⟨h3, hprog⟩
  have h4 := PS.entrySep_le c hmax s3 ']'
  refine .ok ?_
  simp only [hl, Bool.true_and]
  split
  · rename_i hgo
    have hj : (s3.entrySep c ']').pe.jail = false := by simpa [PS.inError] using hgo
    have hj3 : s3.pe.jail = false := by
      rcases hx : s3.pe.jail with _ | _
      · rfl
      · have := h4.jail hx; rw [hj] at this; cases this
    have := hprog hj3
    have := h4.m_le
    exact ⟨hI.trans (h3.trans h4), by omega⟩
  · exact hI.trans (h3.trans h4)

/-- per-loop lemma, `parseIdentList` -/
theorem identBody_sat (s0 s : PS) (hI : PS.Le s0 s) :
    (identBody c s).Sat (fun r =>
      if r.1 then PS.Le s0 r.2 ∧ r.2.m < s.m
      else PS.Le s0 r.2 ∧ (r.2.pe.jail = false → r.2.m < s0.m)) := by
  unfold identBody
  split
  · rename_i hj
    refine .ok ?_
    simp only [PS.inError] at hj
    simp [hI, hj]
  · split
    · refine .ok ?_
      have := PS.errAt_jail c s "lexing.unexpected" s.cur
      simp only [Bool.false_eq_true, if_false]
      exact ⟨hI.trans (PS.errHere_le c hmax s _), fun h => by simp only [PS.errHere] at h; rw [this] at h; cases h⟩
    · rename_i hsee
      have hne : s.cur.kind ≠ .eof := PS.see_ne_eof (k := .ident) (by simpa using hsee) (by decide)
      have h1 := PS.next_le c hmax s
      have h1lt := PS.next_m_lt c s hne
      have hm0 := hI.m_le
      simp only
      split
      · refine .ok ?_
        simp only [Bool.false_eq_true, if_false]
        exact ⟨hI.trans h1, fun _ => by omega⟩
      · refine .ok ?_
        have h2 := PS.next_le c hmax (s.next c)
        have := h2.m_le
        simp only [if_true]
        exact ⟨hI.trans (h1.trans h2), by omega⟩

end parser

end PubModel.C08
