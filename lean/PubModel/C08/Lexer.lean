/-
C08 — model of the lexer layer: UTF-8 rune scanner (`bufio.Reader.ReadRune`
with Go's replacement rule), `lexing.Lexer` (`Next`, `SkipWhite`, `MakeToken`,
`Token`), the lex functions of `lexing` (`LexComment`, `LexString`,
`lexEscape`, `LexRawString`, `LexNumber`, `LexIdent`), `jsonx.lexJSONX` /
`lexOperator`, the semicolon inserter, the keyworder, and `strtoken`'s
`lexShell` / `lexBare`.

`runeScanner.scan` panics when it is called after the reader ended
("scanning on closed rune scanner"); `LS.next` keeps that panic, so "no lex
function reads past the end" is a theorem.  Every rune loop is `loopB` with
fuel.  Runes are `Nat`s.  Core Lean only.
-/
import PubModel.C08.Model

namespace PubModel.C08

abbrev Bytes := List UInt8

/-! ## UTF-8 decoding (`utf8.DecodeRune`; invalid or short sequences are one
    U+FFFD of width 1) -/

def cont (b : Nat) (lo hi : Nat) : Bool := lo ≤ b && b ≤ hi

/-- rune and width of the first rune of a non-empty byte string `b0 :: rest` -/
def decodeRune (b0 : Nat) (rest : List Nat) : Nat × Nat :=
  let bad : Nat × Nat := (0xFFFD, 1)
  if b0 < 0x80 then (b0, 1)
  else if b0 < 0xC2 then bad
  else if b0 < 0xE0 then
    match rest with
    | b1 :: _ => if cont b1 0x80 0xBF then ((b0 % 32) * 64 + b1 % 64, 2) else bad
    | _ => bad
  else if b0 < 0xF0 then
    let lo := if b0 = 0xE0 then 0xA0 else 0x80
    let hi := if b0 = 0xED then 0x9F else 0xBF
    match rest with
    | b1 :: b2 :: _ =>
      if cont b1 lo hi && cont b2 0x80 0xBF then ((b0 % 16) * 4096 + (b1 % 64) * 64 + b2 % 64, 3) else bad
    | _ => bad
  else if b0 < 0xF5 then
    let lo := if b0 = 0xF0 then 0x90 else 0x80
    let hi := if b0 = 0xF4 then 0x8F else 0xBF
    match rest with
    | b1 :: b2 :: b3 :: _ =>
      if cont b1 lo hi && cont b2 0x80 0xBF && cont b3 0x80 0xBF then
        ((b0 % 8) * 262144 + (b1 % 64) * 4096 + (b2 % 64) * 64 + b3 % 64, 4)
      else bad
    | _ => bad
  else bad

/-- the runes of a byte string; `skip` bytes belong to the rune before -/
def decodeRunesAux : Nat → List Nat → List Nat
  | _, [] => []
  | skip + 1, _ :: rest => decodeRunesAux skip rest
  | 0, b :: rest =>
    let rw := decodeRune b rest
    rw.1 :: decodeRunesAux (rw.2 - 1) rest

def decodeRunes (bs : Bytes) : List Nat := decodeRunesAux 0 (bs.map UInt8.toNat)

/-! ## rune classes -/

def isWhite (r : Nat) : Bool := r = 32 || r = 9 || r = 13
def isDigit (r : Nat) : Bool := 48 ≤ r && r ≤ 57
def isLetter (r : Nat) : Bool := (97 ≤ r && r ≤ 122) || (65 ≤ r && r ≤ 90)
def isHexDigit (r : Nat) : Bool := isDigit r || (97 ≤ r && r ≤ 102) || (65 ≤ r && r ≤ 70)
def isIdentLetter (r : Nat) : Bool := r = 95 || isLetter r
def digitVal (r : Nat) : Nat :=
  if isDigit r then r - 48
  else if 97 ≤ r && r ≤ 102 then r - 97 + 10
  else if 65 ≤ r && r ≤ 70 then r - 65 + 10
  else 16

/-! ## lexer state (`lexing.Lexer` + `lexScanner` + `runeScanner`) -/

structure LS where
  /-- runes not yet read -/
  rest : List Nat
  /-- `x.r`, the current rune; 0 once the input ended -/
  r : Nat := 0
  /-- `x.e != nil`; the rune scanner is closed -/
  ended : Bool := false
  /-- `lexScanner.valid`: the current rune still has to be pushed to the buffer -/
  valid : Bool := false
  /-- position of the rune scanner -/
  line : Nat := 1
  col : Nat := 0
  /-- the scanning buffer, most recent rune first -/
  buf : List Nat := []
  /-- `lexScanner.pos`: where the buffer starts -/
  sLine : Nat := 1
  sCol : Nat := 0
  /-- errors reported since the last token was made (most recent last) -/
  pend : List Err := []
  deriving Repr

/-- `Lexer.Next`: push the current rune, read the next one.  Reading after the
    end is the panic of `runeScanner.scan`. -/
def LS.next (s : LS) : Res LS :=
  if s.ended then .panic
  else
    let buf := if s.valid then s.r :: s.buf else s.buf
    match s.rest with
    | [] => .ok { s with buf := buf, valid := false, r := 0, ended := true }
    | c :: cs =>
      .ok { s with buf := buf, valid := true, r := c, rest := cs,
                   line := if s.r = 10 then s.line + 1 else s.line,
                   col := if s.r = 10 then 1 else s.col + 1 }

/-- `NewLexer`: the first rune is read in -/
def LS.init (runes : List Nat) : Res LS := LS.next { rest := runes }

/-- `Lexer.Errorf` / `CodeErrorf`: at the start position of the buffer -/
def LS.err (s : LS) (code : String) : LS :=
  { s with pend := s.pend ++ [⟨code, s.sLine, s.sCol⟩] }

/-- what is kept of the literal: enough for the keyworder and the number leaf -/
structure RawTok where
  tok : Tok
  lit : List Nat
  deriving Repr

/-- `Lexer.MakeToken` (`lexScanner.accept`) -/
def LS.make (s : LS) (k : Kind) (op : Nat := 0) : RawTok × LS :=
  ({ tok := { kind := k, op := op, line := s.sLine, col := s.sCol, lexErrs := s.pend,
              bad := k = .str && !s.pend.isEmpty },
     lit := s.buf.reverse },
   { s with buf := [], sLine := s.line, sCol := s.col, pend := [] })

/-- `Lexer.Discard` -/
def LS.discard (s : LS) : LS := { s with buf := [], sLine := s.line, sCol := s.col }

/-- `for cond(x.Rune()) { x.Next() }` -/
def advWhile (p : Nat → Bool) (fuel : Nat) (s : LS) : Res LS :=
  loopB (fun s => p s.r) (fun s => s.next.bind fun s => .ok (true, s)) fuel s

/-- `Lexer.SkipWhite` -/
def skipWhite (white : Nat → Bool) (fuel : Nat) (s : LS) : Res LS :=
  (loopB (fun s => !s.ended && white s.r) (fun s => s.next.bind fun s => .ok (true, s)) fuel s).bind
    fun s => .ok s.discard

/-! ## comments (`lexing/comment.go`) -/

def lexLineComment (fuel : Nat) (s : LS) : Res (RawTok × LS) :=
  (loopB (fun _ => true) (fun s => s.next.bind fun s => .ok (!(s.ended || s.r = 10), s)) fuel s).bind
    fun s => .ok (s.make .comment)

/-- loop state of `lexBlockComment`: the lexer and `star` -/
def blockBody (x : LS × Bool) : Res (Bool × (LS × Bool)) :=
  x.1.next.bind fun s =>
  if s.ended then .ok (false, (s.err "lexing.unexpectedEOF", x.2))
  else if x.2 && s.r = 47 then s.next.bind fun s => .ok (false, (s, x.2))
  else .ok (true, (s, s.r = 42))

def lexBlockComment (fuel : Nat) (s : LS) : Res (RawTok × LS) :=
  (loopB (fun _ => true) blockBody fuel (s, false)).bind fun x => .ok (x.1.make .comment)

/-- `LexComment`: needs exactly "/" in the buffer -/
def lexComment (fuel : Nat) (s : LS) : Res (RawTok × LS) :=
  if s.buf ≠ [47] then .panic
  else if s.r = 47 then lexLineComment fuel s
  else if s.r = 42 then lexBlockComment fuel s
  else .ok ((s.err "").make .illegal)

/-! ## strings (`lexing/string.go`) -/

/-- the digit loop of `lexEscape` (`for i := 0; i < n; i++`, plainly structural) -/
def escDigits (base max : Nat) : Nat → Nat → LS → Res LS
  | 0, v, s =>
    if max < v || (0xD800 ≤ v && v < 0xE000) then .ok (s.err "") else .ok s
  | n + 1, v, s =>
    if s.ended then .ok (s.err "")
    else
      let d := digitVal s.r
      if base ≤ d then .ok (s.err "")
      else s.next.bind fun s => escDigits base max n (v * base + d) s

def isSimpleEsc (q r : Nat) : Bool :=
  r = 97 || r = 98 || r = 102 || r = 110 || r = 114 || r = 116 || r = 118 || r = 92 || r = q

def lexEscape (q : Nat) (s : LS) : Res LS :=
  if s.ended then .ok (s.err "")
  else
    let r := s.r
    if isSimpleEsc q r then s.next
    else if 48 ≤ r && r ≤ 55 then escDigits 8 255 3 0 s
    else if r = 120 then s.next.bind fun s => escDigits 16 255 2 0 s
    else if r = 117 then s.next.bind fun s => escDigits 16 0x10FFFF 4 0 s
    else if r = 85 then s.next.bind fun s => escDigits 16 0x10FFFF 8 0 s
    else .ok (s.err "lexing.unknownESC")

def stringBody (q : Nat) (s : LS) : Res (Bool × LS) :=
  if s.ended then .ok (false, s.err "lexing.unexpectedEOF")
  else if s.r = 10 then .ok (false, s.err "lexing.unexpectedEndl")
  else if s.r = q then s.next.bind fun s => .ok (false, s)
  else if s.r = 92 then s.next.bind fun s => (lexEscape q s).bind fun s => .ok (true, s)
  else s.next.bind fun s => .ok (true, s)

/-- `LexString(x, t, '"')` (the char-literal count `n` only matters for `'`) -/
def lexString (q : Nat) (fuel : Nat) (s : LS) : Res (RawTok × LS) :=
  if s.r ≠ q then .panic
  else s.next.bind fun s =>
    (loopB (fun _ => true) (stringBody q) fuel s).bind fun s => .ok (s.make .str)

def rawBody (s : LS) : Res (Bool × LS) :=
  if s.ended then .ok (false, s.err "lexing.unexpectedEOF")
  else if s.r = 96 then s.next.bind fun s => .ok (false, s)
  else s.next.bind fun s => .ok (true, s)

def lexRawString (fuel : Nat) (s : LS) : Res (RawTok × LS) :=
  if s.r ≠ 96 then .panic
  else s.next.bind fun s =>
    (loopB (fun _ => true) rawBody fuel s).bind fun s => .ok (s.make .str)

/-! ## numbers and identifiers -/

/-- `LexNumber`; `signs` are the runes accepted after `e`/`E` besides a digit -/
def lexNumber (signs : List Nat) (fuel : Nat) (s : LS) : Res (RawTok × LS) :=
  let start := s.r
  if !isDigit start then .panic
  else s.next.bind fun s =>
    if start = 48 && s.r = 120 then
      s.next.bind fun s => (advWhile isHexDigit fuel s).bind fun s => .ok (s.make .int)
    else
      (advWhile isDigit fuel s).bind fun s =>
      (if s.r = 46 then s.next.bind fun s => (advWhile isDigit fuel s).bind fun s => .ok (true, s)
       else .ok (false, s)).bind fun fs =>
      let s := fs.2
      (if s.r = 101 || s.r = 69 then
         s.next.bind fun s =>
         (if isDigit s.r || signs.contains s.r then s.next else .ok s).bind fun s =>
         (advWhile isDigit fuel s).bind fun s => .ok (true, s)
       else .ok (fs.1, s)).bind fun fs =>
      .ok (fs.2.make (if fs.1 then .float else .int))

/-- `LexIdent` -/
def lexIdent (fuel : Nat) (s : LS) : Res (RawTok × LS) :=
  if !isIdentLetter s.r then .panic
  else
    (loopB (fun _ => true)
      (fun s => s.next.bind fun s => .ok (isIdentLetter s.r || isDigit s.r, s)) fuel s).bind
      fun s => .ok (s.make .ident)

/-! ## jsonx lexer (`jsonx/lex.go`) -/

def isPlainOp (r : Nat) : Bool :=
  r = 123 || r = 125 || r = 91 || r = 93 || r = 44 || r = 58 || r = 43 || r = 45 || r = 46

/-- `lexOperator` together with the fallback of `lexJSONX` for its `nil`
    result (report `jsonx.illegalChar`, make an Illegal token) -/
def lexOperator (fuel : Nat) (s : LS) (r : Nat) : Res (RawTok × LS) :=
  if isPlainOp r then .ok (s.make .op r)
  else if r = 47 then
    if s.r = 47 || s.r = 42 then lexComment fuel s else .ok (s.make .op r)
  else if r = 59 then .ok (s.make .semi)
  else .ok ((s.err "jsonx.illegalChar").make .illegal)

def lexJSONX (signs : List Nat) (fuel : Nat) (s : LS) : Res (RawTok × LS) :=
  let r := s.r
  if isWhite r then .panic
  else if r = 10 then s.next.bind fun s => .ok (s.make .endl)
  else if r = 34 then lexString 34 fuel s
  else if r = 96 then lexRawString fuel s
  else if isDigit r then lexNumber signs fuel s
  else if isIdentLetter r then lexIdent fuel s
  else s.next.bind fun s => lexOperator fuel s r

/-! ## strtoken lexer -/

def isBareRune (r : Nat) : Bool := !(r = 32 || r = 10 || r = 13)

def lexBare (fuel : Nat) (s : LS) : Res (RawTok × LS) :=
  if !isBareRune s.r then .panic
  else
    (loopB (fun _ => true)
      (fun s => s.next.bind fun s => .ok (!(s.ended || !isBareRune s.r), s)) fuel s).bind
      fun s => .ok (s.make .ident)

/-- `lexShell`: `bare` is reported as kind `ident`, `str` as `str` -/
def lexShell (fuel : Nat) (s : LS) : Res (RawTok × LS) :=
  let r := s.r
  if isWhite r then .panic
  else if r = 34 then lexString 34 fuel s
  else if isBareRune r then lexBare fuel s
  else (s.err "").next.bind fun s => .ok (s.make .illegal)

/-! ## `Lexer.Token` and the whole token stream -/

abbrev LexFn := Nat → LS → Res (RawTok × LS)

/-- `Lexer.Token` (with a `LexFunc`) -/
def lexToken (f : LexFn) (fuel : Nat) (s : LS) : Res (RawTok × LS) :=
  (skipWhite isWhite fuel s).bind fun s =>
  if s.ended then .ok (s.make .eof) else f fuel s

/-- state of `lexing.Tokens` / `TokenAll`: tokens so far (latest first) and the EOF token once seen -/
structure LA where
  s : LS
  toks : List RawTok := []
  eof : Option RawTok := none

def lexAllBody (f : LexFn) (fuel : Nat) (a : LA) : Res (Bool × LA) :=
  (lexToken f fuel a.s).bind fun r =>
  if r.1.tok.kind = .eof then .ok (false, { a with s := r.2, eof := some r.1 })
  else .ok (true, { a with s := r.2, toks := r.1 :: a.toks })

/-- all tokens up to and excluding EOF, and the EOF token -/
def lexAll (f : LexFn) (fuel : Nat) (runes : List Nat) : Res (List RawTok × RawTok) :=
  (LS.init runes).bind fun s =>
  (loopB (fun _ => true) (lexAllBody f fuel) fuel { s := s }).bind fun a =>
  match a.eof with
  | some e => .ok (a.toks.reverse, e)
  | none => .panic   -- unreachable: the loop only ends through the EOF branch

/-! ## semicolon inserter (`jsonx/semi_inserter.go`) and keyworder -/

def semiTok (t : Tok) : Tok := { kind := .semi, line := t.line, col := t.col }

/-- the stream after `semiInserter`; `ins` is `insertSemi`.  The last component
    says whether a semicolon has to be emitted in front of EOF.  End-line
    tokens that are dropped carry no lexer errors. -/
def semiInsert : Bool → List Tok → List Tok × Bool
  | ins, [] => ([], ins)
  | ins, t :: ts =>
    match t.kind with
    | .semi => let r := semiInsert false ts; (t :: r.1, r.2)
    | .op =>
      let r := semiInsert (t.op = 125 || t.op = 93) ts; (t :: r.1, r.2)
    | .endl =>
      if ins then let r := semiInsert false ts; ({ semiTok t with lexErrs := t.lexErrs } :: r.1, r.2)
      else let r := semiInsert ins ts; (r.1, r.2)
    | .comment => let r := semiInsert ins ts; (t :: r.1, r.2)
    | .eof => let r := semiInsert ins ts; (r.1, r.2)   -- not in the list (kept total)
    | _ => let r := semiInsert true ts; (t :: r.1, r.2)

/-- `Keyworder.Token`: an identifier that is a keyword changes kind; `bad`
    marks a keyword `parseValue` does not know -/
def keyword (kws : List (List Nat)) (known : List (List Nat)) (t : RawTok) : Tok :=
  if t.tok.kind = .ident && kws.contains t.lit then
    { t.tok with kind := .keyword, bad := !known.contains t.lit }
  else t.tok

/-! ## number leaf: does `strconv.ParseFloat(lit, 64)` fail? -/

def digitsVal (ds : List Nat) : Nat := ds.foldl (fun a d => a * 10 + (d - 48)) 0

/-- smallest decimal value that rounds to +Inf: 2^1024 - 2^970 -/
def floatOverflow : Nat := 2 ^ 1024 - 2 ^ 970

/-- `lit` has the shape the lexer produces: digits [. digits] [e [sign] digits] -/
def floatBad (lit : List Nat) : Bool :=
  let ip := lit.takeWhile isDigit
  let r1 := lit.dropWhile isDigit
  let (fp, r2) := if r1.head? = some 46 then (r1.tail.takeWhile isDigit, r1.tail.dropWhile isDigit) else ([], r1)
  let hasExp := r2.head? = some 101 || r2.head? = some 69
  let r3 := if hasExp then r2.tail else r2
  let neg := r3.head? = some 45
  let r4 := if r3.head? = some 45 || r3.head? = some 43 then r3.tail else r3
  let ed := r4.takeWhile isDigit
  let trailing := r4.dropWhile isDigit
  if !trailing.isEmpty then true
  else if hasExp && ed.isEmpty then true
  else
    let m := digitsVal (ip ++ fp)
    if m = 0 then false
    else
      -- value = m * 10^(e - |fp|)
      let e := if ed.length > 6 then 1000000 else digitsVal ed
      if neg then
        false   -- m * 10^(-e - |fp|) ≤ m; overflow needs more than 308 digits, handled below
          || (fp.length + e < (ip ++ fp).length && floatOverflow * 10 ^ (fp.length + e) ≤ m)
      else if e ≥ fp.length then
        if e - fp.length > 400 then true else floatOverflow ≤ m * 10 ^ (e - fp.length)
      else
        floatOverflow * 10 ^ (fp.length - e) ≤ m

end PubModel.C08
