/-
C08 — the entry points as functions of the input bytes:
`jsonx.ToJSON`, `jsonx.Unmarshal` (`Decoder.Decode` + `More`),
`Decoder.DecodeSeries`, `strtoken.Parse`.

Each is: decode runes → lexer (fuel) → semicolon inserter / keyworder → parser
(fuel).  One fuel value, a function of the input length, serves all loops.
-/
import PubModel.C08.Lexer

namespace PubModel.C08

/-- facts of the lexer sources (regenerated) -/
structure LexCfg where
  /-- runes `LexNumber` accepts after `e`/`E` besides a digit -/
  expSigns : List Nat
  /-- `jsonx.keywords` -/
  keywords : List (List Nat)
  deriving Repr

/-- keywords `parseValue` knows: true, false, null -/
def knownKeywords : List (List Nat) :=
  [[116, 114, 117, 101], [102, 97, 108, 115, 101], [110, 117, 108, 108]]

/-- the fuel every loop gets for an input of `n` bytes -/
def fuelOf (n : Nat) : Nat := n + 8

/-- leaf flag of a number token -/
def withLeaf (t : RawTok) : RawTok :=
  if t.tok.kind = .float then { t with tok := { t.tok with bad := floatBad t.lit } } else t

/-- the token stream the jsonx parser reads: lexer, semicolon inserter,
    keyworder; EOF is returned separately (its position) -/
def jsonxTokens (g : LexCfg) (fuel : Nat) (bs : Bytes) : Res (List Tok × Nat × Nat) :=
  (lexAll (lexJSONX g.expSigns) fuel (decodeRunes bs)).bind fun r =>
  let toks := r.1.map fun t => keyword g.keywords knownKeywords (withLeaf t)
  let si := semiInsert false toks
  let e := r.2.tok
  .ok (if si.2 then si.1 ++ [semiTok e] else si.1, e.line, e.col)

def withParser (c : Cfg) (g : LexCfg) (fuel : Nat) (bs : Bytes) (k : PS → Res Outcome) : Res Outcome :=
  (jsonxTokens g fuel bs).bind fun r => k (PS.init c r.1 r.2.1 r.2.2)

/-- the largest number of lists/objects open at the same time while parsing
    `bs` as a value (`ToJSON`, `Unmarshal`) or as a typed series -/
def parseDepth (c : Cfg) (g : LexCfg) (fuel : Nat) (bs : Bytes) (series : Bool) : Res Nat :=
  (jsonxTokens g fuel bs).bind fun r =>
  let s := PS.init c r.1 r.2.1 r.2.2
  if series then (parseSeries c fuel s).bind fun r => .ok r.p.maxDepth
  else (parseValue c fuel 0 s).bind fun s => .ok s.maxDepth

/-- `jsonx.ToJSON` up to the encoding leaf -/
def toJSON (c : Cfg) (g : LexCfg) (fuel : Nat) (bs : Bytes) : Res Outcome :=
  withParser c g fuel bs (toJSONToks c fuel)

/-- `jsonx.Unmarshal` up to the encoding / `encoding/json` leaf -/
def decodeValue (c : Cfg) (g : LexCfg) (fuel : Nat) (bs : Bytes) : Res Outcome :=
  withParser c g fuel bs (decodeToks c fuel)

/-- `Decoder.DecodeSeries` up to the per-entry encoding leaf -/
def decodeSeries (c : Cfg) (g : LexCfg) (fuel : Nat) (bs : Bytes) : Res Outcome :=
  withParser c g fuel bs (seriesToks c fuel)

/-- `strtoken.Parse`: `TokenAll`, the lexer's errors, then `strconv.Unquote` per string token -/
def strtokenParse (errMax : Nat) (fuel : Nat) (bs : Bytes) : Res Outcome :=
  (lexAll lexShell fuel (decodeRunes bs)).bind fun r =>
  let toks := r.1.map (·.tok)
  let le := ErrList.addAll errMax {} (toks.flatMap (·.lexErrs))
  match le.errs with
  | e :: es => .ok (.errors (es.length + 1) e (toks.length + 1))
  | [] =>
    let badStrs := toks.filter fun t => t.kind = .str && t.bad
    match badStrs with
    | t :: ts => .ok (.errors (ts.length + 1) ⟨"shellarg.invalidStr", t.line, t.col⟩ (toks.length + 1))
    | [] => .ok (.value (toks.length + 1) ((toks.filter fun t => t.kind = .str || t.kind = .ident).length) false)

/-- `k` further `Token()` calls on a lexer -/
def moreToks (f : LexFn) (fuel : Nat) : Nat → LS → Res (List RawTok)
  | 0, _ => .ok []
  | k + 1, s => (lexToken f fuel s).bind fun r => (moreToks f fuel k r.2).bind fun ts => .ok (r.1 :: ts)

/-- `lexing.Tokens` and then `k` further `Token()` calls: the stream after EOF
    (the semicolon inserter and the keyworder pass EOF tokens through) -/
def lexPastEof (g : LexCfg) (fuel : Nat) (bs : Bytes) (k : Nat) : Res (List Tok) :=
  (LS.init (decodeRunes bs)).bind fun s =>
  (loopB (fun _ => true) (lexAllBody (lexJSONX g.expSigns) fuel) fuel { s := s }).bind fun a =>
  (moreToks (lexJSONX g.expSigns) fuel k a.s).bind fun ts => .ok (ts.map (·.tok))

/-- the raw token stream with positions (for the lexer correspondence) -/
def lexJsonx (g : LexCfg) (fuel : Nat) (bs : Bytes) : Res (List Tok × Nat × Nat) := jsonxTokens g fuel bs

end PubModel.C08
