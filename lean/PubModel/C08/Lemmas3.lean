/-
C08 — helper lemmas, part 3: the lexer layer.  Every lex function consumes at
least one rune or the input has ended, never reads past the end (the panic of
`runeScanner.scan`), and returns with fuel above the number of unread runes.
-/
import PubModel.C08.Lemmas
import PubModel.C08.Lexer

namespace PubModel.C08

/-- unread runes, plus one for the current rune unless the input has ended -/
def LS.lm (s : LS) : Nat := if s.ended then 0 else s.rest.length + 1

/-- lexer invariant: after the end the current rune is 0; the current rune is
    pending for the buffer exactly when the input has not ended -/
structure LS.LI (s : LS) : Prop where
  r0 : s.ended = true → s.r = 0
  valid : s.valid = !s.ended

theorem LS.LI.live {s : LS} (h : s.LI) (hr : s.r ≠ 0) : s.ended = false := by
  rcases he : s.ended with _ | _
  · rfl
  · exact absurd (h.r0 he) hr

/-- `Lexer.Next` before the end: one rune less to read, the rune is buffered -/
theorem LS.next_sat {s : LS} (h : s.LI) (he : s.ended = false) :
    s.next.Sat (fun s' => s'.LI ∧ s'.lm < s.lm ∧ s'.buf = s.r :: s.buf ∧ s'.pend = s.pend ∧
      s'.sLine = s.sLine ∧ s'.sCol = s.sCol) := by
  have hv : s.valid = true := by rw [h.valid, he]; rfl
  unfold LS.next
  simp only [he, Bool.false_eq_true, if_false, hv, if_true]
  cases hr : s.rest with
  | nil => exact .ok ⟨⟨fun _ => rfl, rfl⟩, by simp [LS.lm, he, hr], rfl, rfl, rfl, rfl⟩
  | cons c cs => exact .ok ⟨⟨fun h => (by cases h), rfl⟩, by simp [LS.lm, he, hr], rfl, rfl, rfl, rfl⟩

@[simp] theorem LS.err_lm (s : LS) (code : String) : (s.err code).lm = s.lm := rfl
@[simp] theorem LS.err_buf (s : LS) (code : String) : (s.err code).buf = s.buf := rfl
@[simp] theorem LS.err_ended (s : LS) (code : String) : (s.err code).ended = s.ended := rfl
@[simp] theorem LS.err_r (s : LS) (code : String) : (s.err code).r = s.r := rfl
theorem LS.err_LI {s : LS} (h : s.LI) (code : String) : (s.err code).LI := ⟨h.r0, h.valid⟩

@[simp] theorem LS.make_lm (s : LS) (k : Kind) (op : Nat) : (s.make k op).2.lm = s.lm := rfl
@[simp] theorem LS.make_buf (s : LS) (k : Kind) (op : Nat) : (s.make k op).2.buf = [] := rfl
@[simp] theorem LS.make_kind (s : LS) (k : Kind) (op : Nat) : (s.make k op).1.tok.kind = k := rfl
@[simp] theorem LS.make_ended (s : LS) (k : Kind) (op : Nat) : (s.make k op).2.ended = s.ended := rfl
theorem LS.make_LI {s : LS} (h : s.LI) (k : Kind) (op : Nat) : (s.make k op).2.LI := ⟨h.r0, h.valid⟩

@[simp] theorem LS.discard_lm (s : LS) : s.discard.lm = s.lm := rfl
theorem LS.discard_LI {s : LS} (h : s.LI) : s.discard.LI := ⟨h.r0, h.valid⟩

/-- what every lex function guarantees: a token that is not EOF, at least one rune consumed, buffer handed over -/
def TokPost (s : LS) (r : RawTok × LS) : Prop :=
  r.2.LI ∧ r.2.lm < s.lm ∧ r.1.tok.kind ≠ .eof ∧ r.2.buf = [] ∧ r.2.pend = []

theorem TokPost.make {s x : LS} (hx : x.LI) (hlt : x.lm < s.lm) (k : Kind) (op : Nat) (hk : k ≠ .eof) :
    TokPost s (x.make k op) := ⟨LS.make_LI hx k op, by simpa using hlt, by simpa using hk, rfl, rfl⟩

/-- `for p(x.Rune()) { x.Next() }` is safe when `p 0 = false`: after the end the rune is 0 -/
theorem advWhile_sat (p : Nat → Bool) (hp : p 0 = false) (fuel : Nat) (s : LS) (h : s.LI) (hm : s.lm < fuel) :
    (advWhile p fuel s).Sat (fun s' => s'.LI ∧ s'.lm ≤ s.lm) := by
  unfold advWhile
  refine loopB_sat _ _ (fun x => x.LI ∧ x.lm ≤ s.lm) (fun x => x.LI ∧ x.lm ≤ s.lm) LS.lm
    (fun x hx _ => hx) ?_ fuel s ⟨h, Nat.le_refl _⟩ hm
  intro x hx hc
  have hr : x.r ≠ 0 := by intro h0; rw [h0, hp] at hc; cases hc
  refine (LS.next_sat hx.1 (hx.1.live hr)).bind ?_
  intro x' ⟨h1, h2, _⟩
  exact .ok (by simp only [if_true]; exact ⟨⟨h1, by omega⟩, h2⟩)

theorem skipWhite_sat (fuel : Nat) (s : LS) (h : s.LI) (hm : s.lm < fuel) :
    (skipWhite isWhite fuel s).Sat (fun s' => s'.LI ∧ s'.lm ≤ s.lm ∧ s'.buf = [] ∧
      (s'.ended = false → isWhite s'.r = false)) := by
  unfold skipWhite
  refine (loopB_sat _ _ (fun x => x.LI ∧ x.lm ≤ s.lm)
    (fun x => x.LI ∧ x.lm ≤ s.lm ∧ (x.ended = false → isWhite x.r = false)) LS.lm
    ?_ ?_ fuel s ⟨h, Nat.le_refl _⟩ hm).bind ?_
  · intro x hx hc
    refine ⟨hx.1, hx.2, fun he => ?_⟩
    simpa [he] using hc
  · intro x hx hc
    have he : x.ended = false := by
      rcases hx' : x.ended with _ | _
      · rfl
      · simp [hx'] at hc
    refine (LS.next_sat hx.1 he).bind ?_
    intro x' ⟨h1, h2, _⟩
    exact .ok (by simp only [if_true]; exact ⟨⟨h1, by omega⟩, h2⟩)
  · intro x ⟨h1, h2, h3⟩
    exact .ok ⟨LS.discard_LI h1, by simpa using h2, rfl, h3⟩

/-! ## comments -/

theorem lexLineComment_sat (fuel : Nat) (s : LS) (h : s.LI) (he : s.ended = false) (hm : s.lm < fuel) :
    (lexLineComment fuel s).Sat (TokPost s) := by
  unfold lexLineComment
  refine (loopB_sat _ _ (fun x => x.LI ∧ x.ended = false ∧ x.lm ≤ s.lm) (fun x => x.LI ∧ x.lm < s.lm) LS.lm
    (fun x _ hc => by cases hc) ?_ fuel s ⟨h, he, Nat.le_refl _⟩ hm).bind ?_
  · intro x ⟨hx, hxe, hxm⟩ _
    refine (LS.next_sat hx hxe).bind ?_
    intro x' ⟨h1, h2, _⟩
    refine .ok ?_
    simp only
    split
    · rename_i hgo
      have : x'.ended = false := by
        rcases hx' : x'.ended with _ | _
        · rfl
        · simp [hx'] at hgo
      exact ⟨⟨h1, this, by omega⟩, h2⟩
    · exact ⟨h1, by omega⟩
  · intro x ⟨hx, hlt⟩
    exact .ok (TokPost.make hx hlt _ _ (by decide))

theorem blockBody_sat (s : LS) (x : LS × Bool) (hx : x.1.LI ∧ x.1.ended = false ∧ x.1.lm ≤ s.lm) :
    (blockBody x).Sat (fun r => if r.1 then (r.2.1.LI ∧ r.2.1.ended = false ∧ r.2.1.lm ≤ s.lm) ∧ r.2.1.lm < x.1.lm
      else r.2.1.LI ∧ r.2.1.lm < s.lm) := by
  unfold blockBody
  refine (LS.next_sat hx.1 hx.2.1).bind ?_
  intro x' ⟨h1, h2, _⟩
  split
  · exact .ok (by simp only [Bool.false_eq_true, if_false]; exact ⟨LS.err_LI h1 _, by simp; omega⟩)
  · rename_i hne
    have hxe : x'.ended = false := by simpa using hne
    split
    · refine (LS.next_sat h1 hxe).bind ?_
      intro x'' ⟨h1', h2', _⟩
      exact .ok (by simp only [Bool.false_eq_true, if_false]; exact ⟨h1', by omega⟩)
    · exact .ok (by simp only [if_true]; exact ⟨⟨h1, hxe, by omega⟩, h2⟩)

theorem lexBlockComment_sat (fuel : Nat) (s : LS) (h : s.LI) (he : s.ended = false) (hm : s.lm < fuel) :
    (lexBlockComment fuel s).Sat (TokPost s) := by
  unfold lexBlockComment
  refine (loopB_sat _ _ (fun x : LS × Bool => x.1.LI ∧ x.1.ended = false ∧ x.1.lm ≤ s.lm)
    (fun x => x.1.LI ∧ x.1.lm < s.lm) (fun x => x.1.lm)
    (fun x _ hc => by cases hc) (fun x hx _ => blockBody_sat s x hx) fuel (s, false) ⟨h, he, Nat.le_refl _⟩ hm).bind ?_
  intro x ⟨hx, hlt⟩
  exact .ok (TokPost.make hx hlt _ _ (by decide))

/-- `LexComment` is entered with exactly "/" buffered, so its panic is unreachable;
    `s0` is the state the token started in -/
theorem lexComment_sat (fuel : Nat) (s0 s : LS) (h : s.LI) (hbuf : s.buf = [47])
    (hr : s.r = 47 ∨ s.r = 42) (hlt : s.lm < s0.lm) (hm : s.lm < fuel) :
    (lexComment fuel s).Sat (TokPost s0) := by
  have he : s.ended = false := h.live (by rcases hr with h | h <;> rw [h] <;> decide)
  unfold lexComment
  simp only [hbuf, ne_eq, not_true_eq_false, if_false]
  have widen : ∀ r, TokPost s r → TokPost s0 r := fun r ⟨a, b, c, d⟩ => ⟨a, by omega, c, d⟩
  split
  · exact (lexLineComment_sat fuel s h he hm).mono widen
  · split
    · exact (lexBlockComment_sat fuel s h he hm).mono widen
    · rename_i h1 h2
      rcases hr with h | h <;> contradiction

/-! ## strings -/

theorem escDigits_sat (base max : Nat) : ∀ (n v : Nat) (s : LS), s.LI →
    (escDigits base max n v s).Sat (fun s' => s'.LI ∧ s'.lm ≤ s.lm)
  | 0, v, s, h => by
    unfold escDigits
    split
    · exact .ok ⟨LS.err_LI h _, by simp⟩
    · exact .ok ⟨h, Nat.le_refl _⟩
  | n + 1, v, s, h => by
    unfold escDigits
    split
    · exact .ok ⟨LS.err_LI h _, by simp⟩
    · rename_i he
      dsimp only
      split
      · exact .ok ⟨LS.err_LI h _, by simp⟩
      · refine (LS.next_sat h (by simpa using he)).bind ?_
        intro s' ⟨h1, h2, _⟩
        refine (escDigits_sat base max n _ s' h1).mono ?_
        intro s'' ⟨h3, h4⟩
        exact ⟨h3, by omega⟩

theorem lexEscape_sat (q : Nat) (s : LS) (h : s.LI) :
    (lexEscape q s).Sat (fun s' => s'.LI ∧ s'.lm ≤ s.lm) := by
  unfold lexEscape
  split
  · exact .ok ⟨LS.err_LI h _, by simp⟩
  · rename_i he
    have he' : s.ended = false := by simpa using he
    have nx : ∀ (k : LS → Res LS), (∀ x : LS, x.LI → (k x).Sat (fun s' => s'.LI ∧ s'.lm ≤ x.lm)) →
        (s.next.bind k).Sat (fun s' => s'.LI ∧ s'.lm ≤ s.lm) := by
      intro k hk
      refine (LS.next_sat h he').bind ?_
      intro x ⟨h1, h2, _⟩
      exact (hk x h1).mono (fun s' ⟨a, b⟩ => ⟨a, by omega⟩)
    simp only
    split
    · exact (LS.next_sat h he').mono (fun s' ⟨a, b, _⟩ => ⟨a, by omega⟩)
    split
    · exact escDigits_sat _ _ _ _ s h
    split
    · exact nx _ (fun x hx => escDigits_sat _ _ _ _ x hx)
    split
    · exact nx _ (fun x hx => escDigits_sat _ _ _ _ x hx)
    split
    · exact nx _ (fun x hx => escDigits_sat _ _ _ _ x hx)
    · exact .ok ⟨LS.err_LI h _, by simp⟩

theorem stringBody_sat (q : Nat) (s x : LS) (hx : x.LI ∧ x.lm ≤ s.lm) :
    (stringBody q x).Sat (fun r => if r.1 then (r.2.LI ∧ r.2.lm ≤ s.lm) ∧ r.2.lm < x.lm
      else r.2.LI ∧ r.2.lm ≤ s.lm) := by
  unfold stringBody
  split
  · exact .ok (by simp only [Bool.false_eq_true, if_false]; exact ⟨LS.err_LI hx.1 _, by simpa using hx.2⟩)
  · rename_i he
    have he' : x.ended = false := by simpa using he
    split
    · exact .ok (by simp only [Bool.false_eq_true, if_false]; exact ⟨LS.err_LI hx.1 _, by simpa using hx.2⟩)
    split
    · refine (LS.next_sat hx.1 he').bind ?_
      intro x' ⟨h1, h2, _⟩
      exact .ok (by simp only [Bool.false_eq_true, if_false]; exact ⟨h1, by omega⟩)
    split
    · refine (LS.next_sat hx.1 he').bind ?_
      intro x' ⟨h1, h2, _⟩
      refine (lexEscape_sat q x' h1).bind ?_
      intro x'' ⟨h3, h4⟩
      exact .ok (by simp only [if_true]; exact ⟨⟨h3, by omega⟩, by omega⟩)
    · refine (LS.next_sat hx.1 he').bind ?_
      intro x' ⟨h1, h2, _⟩
      exact .ok (by simp only [if_true]; exact ⟨⟨h1, by omega⟩, h2⟩)

theorem lexString_sat (q : Nat) (hq : q ≠ 0) (fuel : Nat) (s : LS) (h : s.LI) (hr : s.r = q) (hm : s.lm < fuel) :
    (lexString q fuel s).Sat (TokPost s) := by
  unfold lexString
  simp only [hr, ne_eq, not_true_eq_false, if_false]
  refine (LS.next_sat h (h.live (by rw [hr]; exact hq))).bind ?_
  intro s1 ⟨h1, h2, _⟩
  refine (loopB_sat _ _ (fun x => x.LI ∧ x.lm ≤ s1.lm) (fun x => x.LI ∧ x.lm ≤ s1.lm) LS.lm
    (fun x _ hc => by cases hc) (fun x hx _ => stringBody_sat q s1 x hx) fuel s1 ⟨h1, Nat.le_refl _⟩ (by omega)).bind ?_
  intro x ⟨hx, hle⟩
  exact .ok (TokPost.make hx (by omega) _ _ (by decide))

theorem rawBody_sat (s x : LS) (hx : x.LI ∧ x.lm ≤ s.lm) :
    (rawBody x).Sat (fun r => if r.1 then (r.2.LI ∧ r.2.lm ≤ s.lm) ∧ r.2.lm < x.lm
      else r.2.LI ∧ r.2.lm ≤ s.lm) := by
  unfold rawBody
  split
  · exact .ok (by simp only [Bool.false_eq_true, if_false]; exact ⟨LS.err_LI hx.1 _, by simpa using hx.2⟩)
  · rename_i he
    have he' : x.ended = false := by simpa using he
    split
    · refine (LS.next_sat hx.1 he').bind ?_
      intro x' ⟨h1, h2, _⟩
      exact .ok (by simp only [Bool.false_eq_true, if_false]; exact ⟨h1, by omega⟩)
    · refine (LS.next_sat hx.1 he').bind ?_
      intro x' ⟨h1, h2, _⟩
      exact .ok (by simp only [if_true]; exact ⟨⟨h1, by omega⟩, h2⟩)

theorem lexRawString_sat (fuel : Nat) (s : LS) (h : s.LI) (hr : s.r = 96) (hm : s.lm < fuel) :
    (lexRawString fuel s).Sat (TokPost s) := by
  unfold lexRawString
  simp only [hr, ne_eq, not_true_eq_false, if_false]
  refine (LS.next_sat h (h.live (by rw [hr]; decide))).bind ?_
  intro s1 ⟨h1, h2, _⟩
  refine (loopB_sat _ _ (fun x => x.LI ∧ x.lm ≤ s1.lm) (fun x => x.LI ∧ x.lm ≤ s1.lm) LS.lm
    (fun x _ hc => by cases hc) (fun x hx _ => rawBody_sat s1 x hx) fuel s1 ⟨h1, Nat.le_refl _⟩ (by omega)).bind ?_
  intro x ⟨hx, hle⟩
  exact .ok (TokPost.make hx (by omega) _ _ (by decide))

/-! ## numbers and identifiers -/

theorem isDigit_zero : isDigit 0 = false := by decide
theorem isHexDigit_zero : isHexDigit 0 = false := by decide

theorem isDigit_ne_zero {r : Nat} (h : isDigit r = true) : r ≠ 0 := by
  intro h0; rw [h0] at h; cases h

/-- after the first `Next` every further `Next` of `LexNumber` is guarded by a
    test that is false for rune 0, hence false after the end -/
theorem lexNumber_sat (signs : List Nat) (hs : signs.contains 0 = false) (fuel : Nat) (s : LS) (h : s.LI)
    (hr : isDigit s.r = true) (hm : s.lm < fuel) :
    (lexNumber signs fuel s).Sat (TokPost s) := by
  unfold lexNumber
  simp only [hr, Bool.not_true, Bool.false_eq_true, if_false]
  refine (LS.next_sat h (h.live (isDigit_ne_zero hr))).bind ?_
  intro s1 ⟨h1, h2, _⟩
  -- `Next` when the current rune is a particular non-zero rune
  have nx : ∀ (x : LS), x.LI → x.r ≠ 0 → x.lm ≤ s1.lm →
      x.next.Sat (fun x' => x'.LI ∧ x'.lm ≤ s1.lm) := by
    intro x hx hr hle
    exact (LS.next_sat hx (hx.live hr)).mono (fun x' ⟨a, b, _⟩ => ⟨a, by omega⟩)
  have adv : ∀ (p : Nat → Bool), p 0 = false → ∀ (x : LS), x.LI → x.lm ≤ s1.lm →
      (advWhile p fuel x).Sat (fun x' => x'.LI ∧ x'.lm ≤ s1.lm) := by
    intro p hp x hx hle
    exact (advWhile_sat p hp fuel x hx (by omega)).mono (fun x' ⟨a, b⟩ => ⟨a, by omega⟩)
  split
  · rename_i hx
    have hr1 : s1.r ≠ 0 := by
      simp only [Bool.and_eq_true, decide_eq_true_eq] at hx
      rw [hx.2]; decide
    refine (nx s1 h1 hr1 (Nat.le_refl _)).bind ?_
    intro s2 ⟨h3, h4⟩
    refine (adv _ isHexDigit_zero s2 h3 h4).bind ?_
    intro s3 ⟨h5, h6⟩
    exact .ok (TokPost.make h5 (by omega) _ _ (by decide))
  · refine (adv _ isDigit_zero s1 h1 (Nat.le_refl _)).bind ?_
    intro s2 ⟨h3, h4⟩
    have hfrac : (if s2.r = 46 then s2.next.bind fun s => (advWhile isDigit fuel s).bind fun s => Res.ok (true, s)
        else Res.ok (false, s2)).Sat (fun fs : Bool × LS => fs.2.LI ∧ fs.2.lm ≤ s1.lm) := by
      split
      · rename_i hdot
        refine (nx s2 h3 (by rw [hdot]; decide) h4).bind ?_
        intro s3 ⟨h5, h6⟩
        refine (adv _ isDigit_zero s3 h5 h6).bind ?_
        intro s4 h7
        exact .ok h7
      · exact .ok ⟨h3, h4⟩
    refine hfrac.bind ?_
    intro fs ⟨h5, h6⟩
    have hexp : (if (fs.2.r = 101 || fs.2.r = 69) = true then
          fs.2.next.bind fun s =>
            (if (isDigit s.r || signs.contains s.r) = true then s.next else Res.ok s).bind fun s =>
            (advWhile isDigit fuel s).bind fun s => Res.ok (true, s)
        else Res.ok (fs.1, fs.2)).Sat (fun r : Bool × LS => r.2.LI ∧ r.2.lm ≤ s1.lm) := by
      split
      · rename_i he
        have hr5 : fs.2.r ≠ 0 := by
          intro h0; rw [h0] at he; simp at he
        refine (nx fs.2 h5 hr5 h6).bind ?_
        intro s5 ⟨h7, h8⟩
        have hsign : (if (isDigit s5.r || signs.contains s5.r) = true then s5.next else Res.ok s5).Sat
            (fun x' => x'.LI ∧ x'.lm ≤ s1.lm) := by
          split
          · rename_i hd
            have : s5.r ≠ 0 := by
              intro h0; rw [h0, isDigit_zero, hs] at hd; cases hd
            exact nx s5 h7 this h8
          · exact .ok ⟨h7, h8⟩
        refine hsign.bind ?_
        intro s6 ⟨h9, h10⟩
        refine (adv _ isDigit_zero s6 h9 h10).bind ?_
        intro s7 h11
        exact .ok h11
      · exact .ok ⟨h5, h6⟩
    refine hexp.bind ?_
    intro r ⟨h7, h8⟩
    refine .ok (TokPost.make h7 (by omega) _ _ ?_)
    split <;> decide

theorem isIdentLetter_ne_zero {r : Nat} (h : isIdentLetter r = true) : r ≠ 0 := by
  intro h0; rw [h0] at h; revert h; decide

theorem lexIdent_sat (fuel : Nat) (s : LS) (h : s.LI) (hr : isIdentLetter s.r = true) (hm : s.lm < fuel) :
    (lexIdent fuel s).Sat (TokPost s) := by
  unfold lexIdent
  simp only [hr, Bool.not_true, Bool.false_eq_true, if_false]
  refine (loopB_sat _ _ (fun x => x.LI ∧ x.ended = false ∧ x.lm ≤ s.lm) (fun x => x.LI ∧ x.lm < s.lm) LS.lm
    (fun x _ hc => by cases hc) ?_ fuel s ⟨h, h.live (isIdentLetter_ne_zero hr), Nat.le_refl _⟩ hm).bind ?_
  · intro x ⟨hx, hxe, hxm⟩ _
    refine (LS.next_sat hx hxe).bind ?_
    intro x' ⟨h1, h2, _⟩
    refine .ok ?_
    simp only
    split
    · rename_i hgo
      have hr' : x'.r ≠ 0 := by
        intro h0; rw [h0] at hgo; revert hgo; decide
      exact ⟨⟨h1, h1.live hr', by omega⟩, h2⟩
    · exact ⟨h1, by omega⟩
  · intro x ⟨hx, hlt⟩
    exact .ok (TokPost.make hx hlt _ _ (by decide))

/-! ## the two lex functions -/

/-- contract of a `LexFunc` as `Lexer.Token` calls it: not at the end, white
    space skipped, buffer empty -/
def LexSpec (f : LexFn) : Prop :=
  ∀ fuel s, s.LI → s.ended = false → s.buf = [] → isWhite s.r = false → s.lm < fuel →
    (f fuel s).Sat (TokPost s)

theorem lexJSONX_spec (signs : List Nat) (hs : signs.contains 0 = false) : LexSpec (lexJSONX signs) := by
  intro fuel s h he hbuf hw hm
  unfold lexJSONX
  simp only [hw, Bool.false_eq_true, if_false]
  split
  · refine (LS.next_sat h he).bind ?_
    intro x ⟨h1, h2, _⟩
    exact .ok (TokPost.make h1 h2 _ _ (by decide))
  split
  · rename_i hr
    exact lexString_sat 34 (by decide) fuel s h hr hm
  split
  · rename_i hr
    exact lexRawString_sat fuel s h hr hm
  split
  · rename_i hr
    exact lexNumber_sat signs hs fuel s h hr hm
  split
  · rename_i hr
    exact lexIdent_sat fuel s h hr hm
  · refine (LS.next_sat h he).bind ?_
    intro x ⟨h1, h2, h3, _⟩
    unfold lexOperator
    split
    · exact .ok (TokPost.make h1 h2 _ _ (by decide))
    · split
      · rename_i hslash
        split
        · rename_i hc
          have hc' : x.r = 47 ∨ x.r = 42 := by simpa using hc
          exact lexComment_sat fuel s x h1 (by rw [h3, hbuf, hslash]) hc' h2 (by omega)
        · exact .ok (TokPost.make h1 h2 _ _ (by decide))
      · split
        · exact .ok (TokPost.make h1 h2 _ _ (by decide))
        · exact .ok (TokPost.make (LS.err_LI h1 _) (by simpa using h2) .illegal _ (by decide))

theorem lexBare_sat (fuel : Nat) (s : LS) (h : s.LI) (he : s.ended = false) (hr : isBareRune s.r = true)
    (hm : s.lm < fuel) : (lexBare fuel s).Sat (TokPost s) := by
  unfold lexBare
  simp only [hr, Bool.not_true, Bool.false_eq_true, if_false]
  refine (loopB_sat _ _ (fun x => x.LI ∧ x.ended = false ∧ x.lm ≤ s.lm) (fun x => x.LI ∧ x.lm < s.lm) LS.lm
    (fun x _ hc => by cases hc) ?_ fuel s ⟨h, he, Nat.le_refl _⟩ hm).bind ?_
  · intro x ⟨hx, hxe, hxm⟩ _
    refine (LS.next_sat hx hxe).bind ?_
    intro x' ⟨h1, h2, _⟩
    refine .ok ?_
    simp only
    split
    · rename_i hgo
      have : x'.ended = false := by
        rcases hx' : x'.ended with _ | _
        · rfl
        · simp [hx'] at hgo
      exact ⟨⟨h1, this, by omega⟩, h2⟩
    · exact ⟨h1, by omega⟩
  · intro x ⟨hx, hlt⟩
    exact .ok (TokPost.make hx hlt _ _ (by decide))

theorem lexShell_spec : LexSpec lexShell := by
  intro fuel s h he _ hw hm
  unfold lexShell
  simp only [hw, Bool.false_eq_true, if_false]
  split
  · rename_i hr
    exact lexString_sat 34 (by decide) fuel s h hr hm
  split
  · rename_i hr
    exact lexBare_sat fuel s h he hr hm
  · refine (LS.next_sat (LS.err_LI h "") (by simpa using he)).bind ?_
    intro x ⟨h1, h2, _⟩
    exact .ok (TokPost.make h1 (by simpa using h2) _ _ (by decide))

/-! ## `Lexer.Token` and the whole stream -/

/-- `Lexer.Token`: an EOF token exactly when the input has ended, otherwise a
    token that consumed at least one rune -/
theorem lexToken_sat (f : LexFn) (hf : LexSpec f) (fuel : Nat) (s : LS) (h : s.LI) (hm : s.lm < fuel) :
    (lexToken f fuel s).Sat (fun r => r.2.LI ∧ r.2.buf = [] ∧ r.2.pend = [] ∧
      ((r.1.tok.kind = .eof ∧ r.2.ended = true ∧ r.2.lm ≤ s.lm) ∨ (r.1.tok.kind ≠ .eof ∧ r.2.lm < s.lm))) := by
  unfold lexToken
  refine (skipWhite_sat fuel s h hm).bind ?_
  intro x ⟨h1, h2, h3, h4⟩
  split
  · rename_i he
    exact .ok ⟨LS.make_LI h1 _ _, rfl, rfl, Or.inl ⟨rfl, by simpa using he, by simpa using h2⟩⟩
  · rename_i he
    have he' : x.ended = false := by simpa using he
    refine (hf fuel x h1 he' h3 (h4 he') (by omega)).mono ?_
    intro r ⟨a, b, c, d, e⟩
    exact ⟨a, d, e, Or.inr ⟨c, by omega⟩⟩

/-- **EOF for ever**: once `Lexer.Token` is called on an ended lexer with an
    empty buffer it returns the same EOF token and leaves the lexer unchanged -/
theorem lexToken_eof_forever (f : LexFn) (fuel : Nat) (s : LS) (he : s.ended = true) (hp : s.pend = [])
    (hf : 0 < fuel) :
    ∃ t s', lexToken f fuel s = .ok (t, s') ∧ t.tok.kind = .eof ∧ s'.ended = true ∧
      lexToken f fuel s' = .ok (t, s') := by
  obtain ⟨n, rfl⟩ : ∃ n, fuel = n + 1 := ⟨fuel - 1, by omega⟩
  have hsw : ∀ x : LS, x.ended = true → skipWhite isWhite (n + 1) x = .ok x.discard := by
    intro x hx
    simp [skipWhite, loopB, hx, Res.bind]
  refine ⟨(s.discard.make .eof).1, (s.discard.make .eof).2, ?_, rfl, he, ?_⟩
  · simp [lexToken, hsw s he, Res.bind, LS.discard, he]
  · have : (s.discard.make .eof).2.ended = true := he
    simp only [lexToken, hsw _ this, Res.bind]
    simp [LS.discard, LS.make, he, hp]

theorem LS.init_sat (runes : List Nat) :
    (LS.init runes).Sat (fun s => s.LI ∧ s.lm ≤ runes.length ∧ s.buf = []) := by
  unfold LS.init LS.next
  simp only [Bool.false_eq_true, if_false]
  cases runes with
  | nil => exact .ok ⟨⟨fun _ => rfl, rfl⟩, by simp [LS.lm], rfl⟩
  | cons c cs => exact .ok ⟨⟨fun h => (by cases h), rfl⟩, by simp [LS.lm], rfl⟩

/-- per-loop lemma, `lexing.Tokens`: every token but EOF consumes a rune -/
theorem lexAllBody_sat (f : LexFn) (hf : LexSpec f) (fuel : Nat) (bound : Nat) (a : LA)
    (hI : a.s.LI ∧ a.toks.length + a.s.lm ≤ bound ∧ a.eof = none) (hm : a.s.lm < fuel) :
    (lexAllBody f fuel a).Sat (fun r =>
      if r.1 then (r.2.s.LI ∧ r.2.toks.length + r.2.s.lm ≤ bound ∧ r.2.eof = none) ∧ r.2.s.lm < a.s.lm
      else r.2.toks.length ≤ bound ∧ ∃ e, r.2.eof = some e ∧ e.tok.kind = .eof ∧ r.2.s.ended = true) := by
  unfold lexAllBody
  refine (lexToken_sat f hf fuel a.s hI.1 hm).bind ?_
  intro r ⟨h1, _, _, h3⟩
  split
  · rename_i hk
    refine .ok ?_
    simp only [Bool.false_eq_true, if_false]
    rcases h3 with ⟨_, he, _⟩ | ⟨hne, _⟩
    · exact ⟨by omega, r.1, rfl, hk, he⟩
    · exact absurd hk hne
  · rename_i hk
    refine .ok ?_
    simp only [if_true]
    rcases h3 with ⟨he, _⟩ | ⟨_, hlt⟩
    · exact absurd he hk
    · refine ⟨⟨h1, ?_, hI.2.2⟩, hlt⟩
      simp only [List.length_cons]
      omega

/-- **The lexer terminates**: with fuel above the number of runes it returns
    at most one token per rune, then EOF -/
theorem lexAll_sat (f : LexFn) (hf : LexSpec f) (runes : List Nat) (fuel : Nat) (hm : runes.length < fuel) :
    (lexAll f fuel runes).Sat (fun r => r.1.length ≤ runes.length ∧ r.2.tok.kind = .eof) := by
  unfold lexAll
  refine (LS.init_sat runes).bind ?_
  intro s ⟨h1, h2, _⟩
  refine (loopB_sat _ _ (fun a : LA => a.s.LI ∧ a.toks.length + a.s.lm ≤ runes.length ∧ a.eof = none)
    (fun a => a.toks.length ≤ runes.length ∧ ∃ e, a.eof = some e ∧ e.tok.kind = .eof ∧ a.s.ended = true)
    (fun a => a.s.lm) (fun a _ hc => by cases hc)
    (fun a hI _ => lexAllBody_sat f hf fuel runes.length a hI (by omega))
    fuel { s := s } ⟨h1, by simpa using h2, rfl⟩ (by simp only; omega)).bind ?_
  intro a ⟨hlen, e, he, hk, _⟩
  rw [he]
  exact .ok ⟨by simpa using hlen, hk⟩

end PubModel.C08
