/-
C03 — RPC: every call gets its own reply, at most once.  Statement file.

The transport model (`PubModel.Sni.Transport`) has one step constructor per
select arm / channel operation of caller, serve-loop and reader goroutines, so
the theorems quantify over every interleaving, any number of callers, any
order and content of reply frames.
-/
import PubModel.C03.Preserve
import PubModel.C03.Liveness
import PubModel.C13.Theorems
import PubModel.Gen.Transport

namespace PubModel.C03
open PubModel.Sni

/-- **A call completes at most once**: once `call` has returned a result, no step of
    any goroutine changes it (both variants, any state). -/
theorem complete_once (fx : Bool) (cap : Nat) (s s' : St) (h : Step fx cap s s')
    (i : Nat) (c : Caller) (r : Res) (hi : s.callers[i]? = some c) (hd : c.st = .done r) :
    ∃ c', s'.callers[i]? = some c' ∧ c'.st = .done r ∧ c'.assigned = c.assigned := by
  have modify_done : ∀ (k : Nat) (g : Caller → Caller),
      (∀ d, d.st = .done r → (g d).st = .done r ∧ (g d).assigned = d.assigned) →
      ∃ c', (s.callers.modify k g)[i]? = some c' ∧ c'.st = .done r ∧ c'.assigned = c.assigned := by
    intro k g hg
    rw [List.getElem?_modify, hi]
    simp only [Option.map_eq_map, Option.map_some]
    split
    · exact ⟨g c, rfl, (hg c hd).1, (hg c hd).2⟩
    · exact ⟨c, rfl, hd, rfl⟩
  have guarded : ∀ (p : CS → Bool) (g : Caller → Caller), p (.done r) = false →
      ∀ d, d.st = .done r → (whenSt p g d).st = .done r ∧ (whenSt p g d).assigned = d.assigned := by
    intro p g hp d hdd
    unfold whenSt
    rw [hdd, hp]
    simp [hdd]
  cases h with
  | check j d hj hs =>
    split
    · by_cases hji : j = i
      · subst hji; rw [hi] at hj; injection hj with hj; subst hj; rw [hd] at hs; cases hs
      · simp only [St.setSt]; rw [List.getElem?_modify, hi]; simp [hji]; exact hd
    · by_cases hji : j = i
      · subst hji; rw [hi] at hj; injection hj with hj; subst hj; rw [hd] at hs; cases hs
      · simp only [St.setSt]; rw [List.getElem?_modify, hi]; simp [hji]; exact hd
  | enqueue j d hj hs hq =>
    by_cases hji : j = i
    · subst hji; rw [hi] at hj; injection hj with hj; subst hj; rw [hd] at hs; cases hs
    · simp only [St.setSt]; rw [List.getElem?_modify, hi]; simp [hji]; exact hd
  | enqueueAbort j d hj hs hfx hdn =>
    by_cases hji : j = i
    · subst hji; rw [hi] at hj; injection hj with hj; subst hj; rw [hd] at hs; cases hs
    · simp only [St.setSt]; rw [List.getElem?_modify, hi]; simp [hji]; exact hd
  | take j q hr hq =>
    split <;> exact modify_done _ _ (guarded _ _ (by simp))
  | takeSendFail j q hr hq hn => exact modify_done _ _ (guarded _ _ (by simp))
  | frameArrive id typ ok hr ha => exact ⟨c, hi, hd, rfl⟩
  | fetchServe f hr hw =>
    unfold St.afterFetch
    split
    · exact modify_done _ _ (guarded _ _ (by simp))
    · exact ⟨c, hi, hd, rfl⟩
  | fetchAbort f hfx hdn hw => exact ⟨c, hi, hd, rfl⟩
  | complete j f hh =>
    unfold St.afterComplete
    simp only
    repeat' split
    all_goals first
      | exact modify_done _ _ (guarded _ _ (by simp))
      | exact ⟨c, hi, hd, rfl⟩
  | readerDie hr hc => exact ⟨c, hi, hd, rfl⟩
  | readerFatal hr => exact ⟨c, hi, hd, rfl⟩
  | serveReadErr hr hdn => exact ⟨c, hi, hd, rfl⟩
  | serveExit he =>
    simp only
    -- the sweep only touches callers that are still pending
    have : ∀ (pend : List (Nat × Nat)) (cs : List Caller), cs[i]? = some c →
        ∃ c', (sweep pend cs)[i]? = some c' ∧ c'.st = .done r ∧ c'.assigned = c.assigned := by
      intro pend
      unfold sweep
      induction pend with
      | nil => intro cs hcs; exact ⟨c, by simpa using hcs, hd, rfl⟩
      | cons p ps ih =>
        intro cs hcs
        simp only [List.foldl_cons]
        apply ih
        rw [List.getElem?_modify, hcs]
        simp only [Option.map_eq_map, Option.map_some]
        split
        · have := guarded (fun st => st == .pending p.1) (fun c => { c with st := .done (.err 3) }) (by simp) c hd
          -- the updated caller is still `done r` with the same id; feed it back as `c`
          cases hwc : whenSt (fun st => st == .pending p.1) (fun c => { c with st := .done (.err 3) }) c
          unfold whenSt at hwc
          rw [hd] at hwc
          simp at hwc
          rw [← hwc]
        · rfl
    exact this s.pending s.callers hi
  | callAbort j d hj hw hfx hdn =>
    by_cases hji : j = i
    · subst hji; rw [hi] at hj; injection hj with hj; subst hj; rw [hd] at hw; simp [isWaiting] at hw
    · simp only [St.setSt]; rw [List.getElem?_modify, hi]; simp [hji]; exact hd
  | giveUp j d hj hw hctx =>
    by_cases hji : j = i
    · subst hji; rw [hi] at hj; injection hj with hj; subst hj; rw [hd] at hw; simp [isWaiting] at hw
    · simp only [St.setSt]; rw [List.getElem?_modify, hi]; simp [hji]; exact hd
  | sever h => exact ⟨c, hi, hd, rfl⟩

/-- **A successful result is the peer's reply to that very call**: in every reachable
    state of the repaired transport, a caller that completed OK holds the body of a
    frame that arrived with the call's own id and type and decoded cleanly; and no
    call "succeeds" without a reply. -/
theorem ok_is_own_reply (cap : Nat) (cs : List Caller) (hcs : ∀ c ∈ cs, c.st = .idle ∧ c.assigned = none)
    (s : St) (hr : Reach true cap (init cs) s) (c : Caller) (hc : c ∈ s.callers) :
    (∀ k, c.st = .done (.ok k) →
      ∃ f ∈ s.log, f.seq = k ∧ c.assigned = some f.id ∧ f.typ = c.typ ∧ f.bodyOk = true) ∧
    c.st ≠ .done .okNoReply := by
  have hinv := inv_reach true cap _ _ (inv_init true cs hcs) hr
  have := hinv.callers c hc
  exact ⟨this.okOwn, this.noGhost rfl⟩

/-- **Call ids are never shared**: two different callers never carry the same id, so
    "the frame with my id" is unambiguous (any variant). -/
theorem ids_unique (fx : Bool) (cap : Nat) (cs : List Caller)
    (hcs : ∀ c ∈ cs, c.st = .idle ∧ c.assigned = none)
    (s : St) (hr : Reach fx cap (init cs) s) (i j : Nat) (ci cj : Caller) (id : Nat)
    (hi : s.callers[i]? = some ci) (hj : s.callers[j]? = some cj)
    (hai : ci.assigned = some id) (haj : cj.assigned = some id) : i = j :=
  (inv_reach fx cap _ _ (inv_init fx cs hcs) hr).unique i j ci cj id hi hj hai haj

/-- **A foreign frame is inert** (hand-off): when the serve loop answers the fetch for a
    frame, every caller whose call id differs from the frame's id — including when the
    frame's id is unknown, duplicated or already answered — is left exactly as it was. -/
theorem foreign_frame_inert_fetch (fx : Bool) (s : St) (hinv : Inv fx s) (f : Frame)
    (i : Nat) (c : Caller) (hi : s.callers[i]? = some c) (hne : c.assigned ≠ some f.id) :
    (s.afterFetch f).callers[i]? = some c := by
  unfold St.afterFetch
  split
  · rename_i k _
    simp only [St.setSt]
    rw [List.getElem?_modify, hi]
    simp only [Option.map_eq_map, Option.map_some]
    split
    · unfold whenSt
      split
      · rename_i hp
        have hp' : c.st = .pending f.id := by simpa using hp
        exact absurd ((hinv.callers c (List.mem_of_getElem? hi)).pendAssigned _ hp') hne
      · rfl
    · rfl
  · exact hi

/-- **A foreign frame is inert** (decode): finishing the decode of a frame — well-formed,
    mistyped or truncated — changes no caller whose call id differs from the frame's id. -/
theorem foreign_frame_inert_complete (fx : Bool) (s : St) (hinv : Inv fx s) (k : Nat) (f : Frame)
    (i : Nat) (c : Caller) (hi : s.callers[i]? = some c) (hne : c.assigned ≠ some f.id) :
    (s.afterComplete fx k f).callers[i]? = some c := by
  have key : ∀ r : Res, (s.callers.modify k (whenSt (· == .fetched f.id) fun c => { c with st := .done r }))[i]?
      = some c := by
    intro r
    rw [List.getElem?_modify, hi]
    simp only [Option.map_eq_map, Option.map_some]
    split
    · unfold whenSt
      split
      · rename_i hp
        have hp' : c.st = .fetched f.id := by simpa using hp
        exact absurd ((hinv.callers c (List.mem_of_getElem? hi)).fetchAssigned _ hp') hne
      · rfl
    · rfl
  unfold St.afterComplete
  simp only
  repeat' split
  all_goals first
    | exact key _
    | exact hi

/-- the same for a whole reachable execution of the repaired transport -/
theorem foreign_frame_inert (cap : Nat) (cs : List Caller)
    (hcs : ∀ c ∈ cs, c.st = .idle ∧ c.assigned = none)
    (s : St) (hr : Reach true cap (init cs) s) (f : Frame)
    (i : Nat) (c : Caller) (hi : s.callers[i]? = some c) (hne : c.assigned ≠ some f.id) :
    (s.afterFetch f).callers[i]? = some c ∧ ∀ k, (s.afterComplete true k f).callers[i]? = some c :=
  let hinv := inv_reach true cap _ _ (inv_init true cs hcs) hr
  ⟨foreign_frame_inert_fetch true s hinv f i c hi hne,
   fun k => foreign_frame_inert_complete true s hinv k f i c hi hne⟩

/-- **No reply frame can crash the reader** (imported from the codec model, C13). -/
theorem frame_never_panics (cfg : C13.Cfg) (hc : cfg.prealloc = false) (hint : Nat)
    (pend : Nat → Option (Nat × C13.Schema)) (bs : Bytes) :
    C13.clientFrame cfg hint pend bs ≠ .panic :=
  C13.client_frame_total cfg hc hint pend bs

/-! ### the pinned tree completes a call without a reply (kept as a theorem) -/

/-- one caller; the write of its request fails: the pinned serve loop completes it
    "successfully" although no frame ever arrived -/
theorem pinned_ghost_completion :
    ∃ s, Reach false 128 (init [{ typ := 1 }]) s ∧ s.log = [] ∧
      ∃ c ∈ s.callers, c.st = .done .okNoReply := by
  have s1 : Step false 128 (init [{ typ := 1 }]) _ := Step.check (init [{ typ := 1 }]) 0 { typ := 1 } rfl rfl
  have s2 := Step.enqueue (fx := false) (cap := 128)
    { callers := [{ typ := 1, st := .checked }] } 0 { typ := 1, st := .checked } rfl rfl (by decide)
  have s3 := Step.takeSendFail (fx := false) (cap := 128)
    { callers := [{ typ := 1, st := .queued }], queue := [0] } 0 [] rfl rfl rfl
  exact ⟨_, ((Reach.refl.tail s1).tail s2).tail s3, rfl, _, List.mem_singleton.mpr rfl, rfl⟩

/-! ### the regenerated instance and non-vacuity -/

theorem gen_transport_repaired : Gen.Transport.fx = true := by decide

/-- a reachable state of the repaired transport in which a call completed OK with its own reply -/
example : ∃ s, Reach true 128 (init [{ typ := 1 }]) s ∧
    ∃ c ∈ s.callers, c.st = .done (.ok 0) ∧ c.assigned = some 0 := by
  have s1 : Step true 128 (init [{ typ := 1 }]) _ := Step.check (init [{ typ := 1 }]) 0 { typ := 1 } rfl rfl
  have s2 := Step.enqueue (fx := true) (cap := 128)
    { callers := [{ typ := 1, st := .checked }] } 0 { typ := 1, st := .checked } rfl rfl (by decide)
  have s3 := Step.take (fx := true) (cap := 128)
    { callers := [{ typ := 1, st := .queued }], queue := [0] } 0 [] rfl rfl
  have s4 := Step.frameArrive (fx := true) (cap := 128)
    { callers := [{ typ := 1, st := .pending 0, assigned := some 0 }], pending := [(0, 0)], nextId := 1 }
    0 1 true rfl rfl
  have s5 := Step.fetchServe (fx := true) (cap := 128)
    { callers := [{ typ := 1, st := .pending 0, assigned := some 0 }], pending := [(0, 0)], nextId := 1,
      reader := .wantFetch ⟨0, 1, true, 0⟩, log := [⟨0, 1, true, 0⟩] } ⟨0, 1, true, 0⟩ rfl rfl
  have s6 := Step.complete (fx := true) (cap := 128)
    { callers := [{ typ := 1, st := .fetched 0, assigned := some 0 }], nextId := 1,
      reader := .holding 0 ⟨0, 1, true, 0⟩, log := [⟨0, 1, true, 0⟩] } 0 ⟨0, 1, true, 0⟩ rfl
  exact ⟨_, (((((Reach.refl.tail s1).tail s2).tail s3).tail s4).tail s5).tail s6, _,
    List.mem_singleton.mpr rfl, rfl, rfl⟩

end PubModel.C03
