import PubModel.C03.Theorems
import PubModel.Sni.Exec
open PubModel.C03 PubModel.Sni
#print axioms complete_once
#print axioms ok_is_own_reply
#print axioms ids_unique
#print axioms foreign_frame_inert_fetch
#print axioms foreign_frame_inert_complete
#print axioms foreign_frame_inert
#print axioms frame_never_panics
#print axioms pinned_ghost_completion
#print axioms inv_step
#print axioms inv_reach
#print axioms PubModel.C03.gen_transport_repaired
#print axioms apply_sound
#print axioms pend_step
#print axioms pend_reach
#print axioms matching_reply_completes
