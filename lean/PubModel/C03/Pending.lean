/-
C03 — the pending table finds every pending call (second invariant), and hence a
well-formed matching reply completes its call.
-/
import PubModel.C03.Preserve
import PubModel.Sni.Exec

namespace PubModel.C03
open PubModel.Sni

/-- every caller waiting for a reply is found by the table under its id -/
def PendInv (s : St) : Prop :=
  ∀ (i : Nat) (c : Caller) (id : Nat), s.callers[i]? = some c → c.st = .pending id → s.pending.lookup id = some i

theorem lookup_filter_ne (l : List (Nat × Nat)) (a b : Nat) (h : b ≠ a) :
    (l.filter (fun p => p.1 != a)).lookup b = l.lookup b := by
  induction l with
  | nil => rfl
  | cons p l ih =>
    obtain ⟨x, y⟩ := p
    by_cases hx : x = a
    · subst hx
      have : (b == x) = false := by simp [h]
      simp [List.filter, List.lookup, this, ih]
    · have hx' : (x != a) = true := by simp [hx]
      simp only [List.filter, hx', List.lookup]
      cases hb : b == x <;> simp [ih]

theorem mem_of_lookup (l : List (Nat × Nat)) (a b : Nat) (h : l.lookup a = some b) : (a, b) ∈ l := by
  induction l with
  | nil => simp [List.lookup] at h
  | cons p l ih =>
    obtain ⟨x, y⟩ := p
    simp only [List.lookup] at h
    cases hb : a == x
    · simp [hb] at h; exact List.mem_cons_of_mem _ (ih h)
    · simp [hb] at h
      have : a = x := by simpa using hb
      subst this; subst h; exact List.mem_cons_self ..

/-- the state of caller `i` after an update of caller `k` by `g` -/
theorem modify_get (cs : List Caller) (k i : Nat) (g : Caller → Caller) (c : Caller)
    (h : (cs.modify k g)[i]? = some c) :
    ∃ d, cs[i]? = some d ∧ (c = d ∨ (k = i ∧ c = g d)) := by
  rw [List.getElem?_modify] at h
  cases hd : cs[i]? with
  | none => simp [hd] at h
  | some d =>
    simp [hd] at h
    refine ⟨d, rfl, ?_⟩
    split at h
    · rename_i hk; exact Or.inr ⟨hk, h.symm⟩
    · exact Or.inl h.symm

theorem sweep_not_pending (pend : List (Nat × Nat)) (cs : List Caller) (i : Nat) (c : Caller) (id : Nat)
    (hmem : (id, i) ∈ pend) (h : (sweep pend cs)[i]? = some c) : c.st ≠ .pending id := by
  unfold sweep at h
  induction pend generalizing cs with
  | nil => simp at hmem
  | cons p ps ih =>
    simp only [List.foldl_cons] at h
    rcases List.mem_cons.mp hmem with heq | hps
    · -- this entry clears it; later entries never create a pending state
      subst heq
      have key : ∀ (qs : List (Nat × Nat)) (ds : List Caller),
          (∀ d, ds[i]? = some d → d.st ≠ .pending id) →
          ∀ d, (qs.foldl (fun cs p => cs.modify p.2
            (whenSt (fun st => st == .pending p.1) (fun c => { c with st := .done (.err 3) }))) ds)[i]? = some d →
            d.st ≠ .pending id := by
        intro qs
        induction qs with
        | nil => intro ds hd d h; exact hd d (by simpa using h)
        | cons q qs ihq =>
          intro ds hd d h
          simp only [List.foldl_cons] at h
          apply ihq _ _ d h
          intro e he
          obtain ⟨e0, he0, hcase⟩ := modify_get ds q.2 i _ e he
          rcases hcase with h1 | ⟨_, h1⟩
          · rw [h1]; exact hd e0 he0
          · rw [h1]; unfold whenSt; split
            · simp
            · exact hd e0 he0
      apply key ps _ _ c h
      intro d hd
      rw [List.getElem?_modify] at hd
      cases hd0 : cs[i]? with
      | none => simp [hd0] at hd
      | some d0 =>
        simp [hd0] at hd
        rw [← hd]
        unfold whenSt; split
        · simp
        · rename_i hn; simpa using hn
    · exact ih _ hps h

theorem sweep_no_new_pending (pend : List (Nat × Nat)) (cs : List Caller) (i : Nat) (c : Caller) (id : Nat)
    (h : (sweep pend cs)[i]? = some c) (hp : c.st = .pending id) :
    ∃ d, cs[i]? = some d ∧ d.st = .pending id := by
  unfold sweep at h
  induction pend generalizing cs with
  | nil => exact ⟨c, by simpa using h, hp⟩
  | cons p ps ih =>
    simp only [List.foldl_cons] at h
    obtain ⟨d, hd, hdp⟩ := ih _ h
    obtain ⟨d0, hd0, hcase⟩ := modify_get cs p.2 i _ d hd
    rcases hcase with h1 | ⟨_, h1⟩
    · rw [h1] at hdp; exact ⟨d0, hd0, hdp⟩
    · rw [h1] at hdp; unfold whenSt at hdp; split at hdp
      · simp at hdp
      · exact ⟨d0, hd0, hdp⟩

theorem pend_step (fx : Bool) (cap : Nat) (s s' : St) (hinv : Inv fx s) (hp : PendInv s)
    (h : Step fx cap s s') : PendInv s' := by
  -- a caller update that never produces a `pending` state keeps the invariant when the table is unchanged
  have keep : ∀ (k : Nat) (g : Caller → Caller), (∀ d id, (g d).st = .pending id → d.st = .pending id) →
      PendInv { s with callers := s.callers.modify k g } := by
    intro k g hg i c id hi hst
    obtain ⟨d, hd, hcase⟩ := modify_get s.callers k i g c hi
    rcases hcase with h1 | ⟨_, h1⟩
    · rw [h1] at hst; exact hp i d id hd hst
    · rw [h1] at hst; exact hp i d id hd (hg d id hst)
  cases h with
  | check i c hi hs =>
    split
    · exact keep i _ (by intro d id h; simp at h)
    · intro j d id hj hst
      exact keep i (fun c => { c with st := .checked }) (by intro d id h; simp at h) j d id hj hst
  | enqueue i c hi hs hq =>
    intro j d id hj hst
    exact keep i (fun c => { c with st := .queued }) (by intro d id h; simp at h) j d id hj hst
  | enqueueAbort i c hi hs hfx hd => exact keep i _ (by intro d id h; simp at h)
  | take i q hr hq =>
    split
    · intro j d id hj hst
      exact keep i _ (by
        intro d id h; unfold whenSt at h; split at h
        · simp at h
        · exact h) j d id hj hst
    · intro j d id hj hst
      simp only [St.setSt] at hj
      obtain ⟨d0, hd0, hcase⟩ := modify_get s.callers i j _ d hj
      simp only [List.lookup]
      rcases hcase with h1 | ⟨hij, h1⟩
      · -- untouched caller: its id is below the counter
        rw [h1] at hst
        have hlt := (hinv.callers d0 (List.mem_of_getElem? hd0)).assignedLt id
          ((hinv.callers d0 (List.mem_of_getElem? hd0)).pendAssigned id hst)
        have : (id == s.nextId) = false := by simp; omega
        simp [this]; exact hp j d0 id hd0 hst
      · rw [h1] at hst; unfold whenSt at hst; split at hst
        · simp at hst; subst hst; subst hij; simp
        · have hlt := (hinv.callers d0 (List.mem_of_getElem? hd0)).assignedLt id
            ((hinv.callers d0 (List.mem_of_getElem? hd0)).pendAssigned id hst)
          have : (id == s.nextId) = false := by simp; omega
          simp [this]; exact hp j d0 id hd0 hst
  | takeSendFail i q hr hq hn =>
    intro j d id hj hst
    exact keep i _ (by
      intro d id h; unfold whenSt at h; split at h
      · simp at h
      · exact h) j d id hj hst
  | frameArrive id typ ok hr ha => exact hp
  | fetchServe f hr hw =>
    unfold St.afterFetch
    split
    · rename_i i hl
      intro j d id hj hst
      simp only [St.setSt] at hj
      obtain ⟨d0, hd0, hcase⟩ := modify_get s.callers i j _ d hj
      have hd0p : d0.st = .pending id := by
        rcases hcase with h1 | ⟨_, h1⟩
        · rw [h1] at hst; exact hst
        · rw [h1] at hst; unfold whenSt at hst; split at hst
          · simp at hst
          · exact hst
      have hne : id ≠ f.id := by
        intro heq
        subst heq
        -- then d0 is the caller the table found, and it was moved to `fetched`
        have hji := hp j d0 f.id hd0 hd0p
        rw [hl] at hji; injection hji with hji; subst hji
        rw [List.getElem?_modify, hd0] at hj
        simp [whenSt, hd0p] at hj
        rw [← hj] at hst; simp at hst
      simp only
      rw [lookup_filter_ne _ _ _ hne]
      exact hp j d0 id hd0 hd0p
    · exact hp
  | fetchAbort f hfx hd hw => exact hp
  | complete i f hh =>
    unfold St.afterComplete
    simp only
    have k := keep i (whenSt (· == .fetched f.id) fun c => { c with st := .done (.err 5) }) (by
      intro d id h; unfold whenSt at h; split at h
      · simp at h
      · exact h)
    have k2 := keep i (whenSt (· == .fetched f.id) fun c => { c with st := .done (.ok f.seq) }) (by
      intro d id h; unfold whenSt at h; split at h
      · simp at h
      · exact h)
    have k3 := keep i (whenSt (· == .fetched f.id) fun c => { c with st := .done (.err 4) }) (by
      intro d id h; unfold whenSt at h; split at h
      · simp at h
      · exact h)
    repeat' split
    all_goals first
      | exact hp
      | (intro j d id hj hst; exact k j d id hj hst)
      | (intro j d id hj hst; exact k2 j d id hj hst)
      | (intro j d id hj hst; exact k3 j d id hj hst)
  | readerDie hr hc => exact hp
  | readerFatal hr => exact hp
  | serveReadErr hr hd => exact hp
  | serveExit he =>
    intro j d id hj hst
    simp only at hj
    obtain ⟨d0, hd0, hd0p⟩ := sweep_no_new_pending s.pending s.callers j d id hj hst
    have hmem := mem_of_lookup _ _ _ (hp j d0 id hd0 hd0p)
    exact absurd hst (sweep_not_pending s.pending s.callers j d id hmem hj)
  | callAbort i c hi hw hfx hd => exact keep i _ (by intro d id h; simp at h)
  | giveUp i c hi hw hctx => exact keep i _ (by intro d id h; simp at h)
  | sever h => exact hp

theorem pend_init (cs : List Caller) (h : ∀ c ∈ cs, c.st = .idle ∧ c.assigned = none) : PendInv (init cs) := by
  intro i c id hi hst
  have := (h c (List.mem_of_getElem? hi)).1
  rw [this] at hst; cases hst

theorem pend_reach (fx : Bool) (cap : Nat) (cs : List Caller)
    (hcs : ∀ c ∈ cs, c.st = .idle ∧ c.assigned = none) (s : St) (h : Reach fx cap (init cs) s) :
    Inv fx s ∧ PendInv s := by
  induction h with
  | refl => exact ⟨inv_init fx cs hcs, pend_init cs hcs⟩
  | tail _ hs ih => exact ⟨inv_step fx cap _ _ ih.1 hs, pend_step fx cap _ _ ih.1 ih.2 hs⟩

end PubModel.C03
