/-
C03 — invariants of the transport model (all interleavings, any number of callers).
-/
import PubModel.Sni.Transport

namespace PubModel.C03
open PubModel.Sni

/-- the caller-local facts that make a completed call "its own reply";
    `n` is the serve loop's id counter, `log` the frames that reached the fetch -/
structure CInv (fx : Bool) (n : Nat) (log : List Frame) (c : Caller) : Prop where
  pendAssigned : ∀ id, c.st = .pending id → c.assigned = some id
  fetchAssigned : ∀ id, c.st = .fetched id → c.assigned = some id
  assignedLt : ∀ id, c.assigned = some id → id < n
  okOwn : ∀ k, c.st = .done (.ok k) →
    ∃ f ∈ log, f.seq = k ∧ c.assigned = some f.id ∧ f.typ = c.typ ∧ f.bodyOk = true
  noGhost : fx = true → c.st ≠ .done .okNoReply
  fresh : c.st = .idle ∨ c.st = .checked ∨ c.st = .queued → c.assigned = none

structure Inv (fx : Bool) (s : St) : Prop where
  callers : ∀ c ∈ s.callers, CInv fx s.nextId s.log c
  unique : ∀ (i j : Nat) (ci cj : Caller) (id : Nat), s.callers[i]? = some ci → s.callers[j]? = some cj →
    ci.assigned = some id → cj.assigned = some id → i = j
  wantLog : ∀ f, s.reader = .wantFetch f → f ∈ s.log
  holdLog : ∀ i f, s.reader = .holding i f → f ∈ s.log

theorem CInv.mono {fx : Bool} {n n' : Nat} {log log' : List Frame} {c : Caller}
    (h : CInv fx n log c) (hn : n ≤ n') (hl : ∀ f ∈ log, f ∈ log') : CInv fx n' log' c :=
  ⟨h.pendAssigned, h.fetchAssigned, fun id hid => Nat.lt_of_lt_of_le (h.assignedLt id hid) hn,
   fun k hk => by
     obtain ⟨f, hf, r⟩ := h.okOwn k hk
     exact ⟨f, hl f hf, r⟩,
   h.noGhost, h.fresh⟩

theorem mem_modify {α} (l : List α) (i : Nat) (g : α → α) (x : α) (h : x ∈ l.modify i g) :
    x ∈ l ∨ ∃ y, l[i]? = some y ∧ x = g y := by
  induction l generalizing i with
  | nil => simp at h
  | cons a l ih =>
    cases i with
    | zero =>
      simp [List.modify] at h
      rcases h with h | h
      · exact Or.inr ⟨a, by simp, h⟩
      · exact Or.inl (List.mem_cons_of_mem _ h)
    | succ i =>
      simp [List.modify] at h
      rcases h with h | h
      · exact Or.inl (by simp [h])
      · rcases ih i h with h | ⟨y, hy, hx⟩
        · exact Or.inl (List.mem_cons_of_mem _ h)
        · exact Or.inr ⟨y, by simpa using hy, hx⟩

theorem forall_modify {P : Caller → Prop} (l : List Caller) (i : Nat) (g : Caller → Caller)
    (h : ∀ c ∈ l, P c) (hg : ∀ c, l[i]? = some c → P (g c)) : ∀ c ∈ l.modify i g, P c := by
  intro c hc
  rcases mem_modify l i g c hc with h' | ⟨y, hy, rfl⟩
  · exact h c h'
  · exact hg y hy

/-- uniqueness of assigned ids survives an update that does not touch `assigned` -/
theorem unique_modify_same (l : List Caller) (k : Nat) (g : Caller → Caller)
    (hg : ∀ c, (g c).assigned = c.assigned)
    (hu : ∀ (i j : Nat) (ci cj : Caller) (id : Nat), l[i]? = some ci → l[j]? = some cj →
      ci.assigned = some id → cj.assigned = some id → i = j) :
    ∀ (i j : Nat) (ci cj : Caller) (id : Nat), (l.modify k g)[i]? = some ci → (l.modify k g)[j]? = some cj →
      ci.assigned = some id → cj.assigned = some id → i = j := by
  intro i j ci cj id hi hj hai haj
  rw [List.getElem?_modify] at hi hj
  cases hli : l[i]? with
  | none => simp [hli] at hi
  | some di =>
    cases hlj : l[j]? with
    | none => simp [hlj] at hj
    | some dj =>
      simp [hli] at hi
      simp [hlj] at hj
      refine hu i j di dj id hli hlj ?_ ?_
      · subst hi; split at hai
        · rw [hg] at hai; exact hai
        · exact hai
      · subst hj; split at haj
        · rw [hg] at haj; exact haj
        · exact haj

/-- … and an update that assigns a fresh id to one caller -/
theorem unique_modify_fresh (l : List Caller) (k n : Nat) (g : Caller → Caller)
    (hg : ∀ c, (g c).assigned = c.assigned ∨ (g c).assigned = some n)
    (hlt : ∀ c ∈ l, ∀ id, c.assigned = some id → id < n)
    (hu : ∀ (i j : Nat) (ci cj : Caller) (id : Nat), l[i]? = some ci → l[j]? = some cj →
      ci.assigned = some id → cj.assigned = some id → i = j) :
    ∀ (i j : Nat) (ci cj : Caller) (id : Nat), (l.modify k g)[i]? = some ci → (l.modify k g)[j]? = some cj →
      ci.assigned = some id → cj.assigned = some id → i = j := by
  intro i j ci cj id hi hj hai haj
  rw [List.getElem?_modify] at hi hj
  cases hli : l[i]? with
  | none => simp [hli] at hi
  | some di =>
    cases hlj : l[j]? with
    | none => simp [hlj] at hj
    | some dj =>
      simp [hli] at hi
      simp [hlj] at hj
      have hdi := hlt di (List.mem_of_getElem? hli)
      have hdj := hlt dj (List.mem_of_getElem? hlj)
      by_cases hki : k = i <;> by_cases hkj : k = j
      · omega
      · -- i updated, j not
        simp [hki] at hi; simp [hkj] at hj
        subst hi; subst hj
        rcases hg di with h | h
        · rw [h] at hai; exact hu i j di dj id hli hlj hai haj
        · rw [h] at hai; injection hai with hai; subst hai
          exact absurd (hdj _ haj) (Nat.lt_irrefl _)
      · simp [hki] at hi; simp [hkj] at hj
        subst hi; subst hj
        rcases hg dj with h | h
        · rw [h] at haj; exact hu i j di dj id hli hlj hai haj
        · rw [h] at haj; injection haj with haj; subst haj
          exact absurd (hdi _ hai) (Nat.lt_irrefl _)
      · simp [hki] at hi; simp [hkj] at hj
        subst hi; subst hj
        exact hu i j di dj id hli hlj hai haj

theorem sweep_mem (pend : List (Nat × Nat)) (cs : List Caller) (P : Caller → Prop)
    (h : ∀ c ∈ cs, P c)
    (hg : ∀ c id, P c → c.st = .pending id → P { c with st := .done (.err 3) }) :
    ∀ c ∈ sweep pend cs, P c := by
  unfold sweep
  induction pend generalizing cs with
  | nil => simpa using h
  | cons p ps ih =>
    simp only [List.foldl_cons]
    apply ih
    apply forall_modify _ _ _ h
    intro c hc
    unfold whenSt
    split
    · rename_i hp
      exact hg c p.1 (h c (List.mem_of_getElem? hc)) (by simpa using hp)
    · exact h c (List.mem_of_getElem? hc)

theorem sweep_getElem? (pend : List (Nat × Nat)) (cs : List Caller) (j : Nat) :
    ((sweep pend cs)[j]?).map (·.assigned) = (cs[j]?).map (·.assigned) := by
  unfold sweep
  induction pend generalizing cs with
  | nil => simp
  | cons p ps ih =>
    simp only [List.foldl_cons]
    rw [ih]
    rw [List.getElem?_modify]
    cases cs[j]? with
    | none => simp
    | some c =>
      simp
      split
      · unfold whenSt; split <;> rfl
      · rfl

end PubModel.C03
