import PubModel.C03.Lemmas

namespace PubModel.C03
open PubModel.Sni

theorem inv_init (fx : Bool) (cs : List Caller)
    (h : ∀ c ∈ cs, c.st = .idle ∧ c.assigned = none) : Inv fx (init cs) := by
  refine ⟨?_, ?_, ?_, ?_⟩
  · intro c hc
    obtain ⟨h1, h2⟩ := h c hc
    refine ⟨?_, ?_, ?_, ?_, ?_, ?_⟩ <;> simp [h1, h2]
  · intro i j ci cj id hi hj hai _
    have := (h ci (List.mem_of_getElem? hi)).2
    simp [this] at hai
  · intro f hf; simp [init] at hf
  · intro i f hf; simp [init] at hf

/-- a caller update that keeps `assigned`, moves to a state without obligations -/
theorem cinv_to_err {fx : Bool} {n : Nat} {log : List Frame} {c : Caller} (h : CInv fx n log c) (e : Nat) :
    CInv fx n log { c with st := .done (.err e) } :=
  ⟨by simp, by simp, h.assignedLt, by simp, by simp, by simp⟩

theorem inv_step (fx : Bool) (cap : Nat) (s s' : St) (hinv : Inv fx s) (h : Step fx cap s s') :
    Inv fx s' := by
  obtain ⟨hc, hu, hw, hh⟩ := hinv
  cases h with
  | check i c hi hs =>
    have hci := hc c (List.mem_of_getElem? hi)
    split
    · refine ⟨?_, ?_, hw, hh⟩
      · exact forall_modify _ _ _ hc (fun c hc' => cinv_to_err (hc c (List.mem_of_getElem? hc')) 1)
      · exact unique_modify_same _ _ _ (fun _ => rfl) hu
    · refine ⟨?_, ?_, hw, hh⟩
      · apply forall_modify _ _ _ hc
        intro d hd
        rw [hi] at hd; injection hd with hd; subst hd
        exact ⟨by simp, by simp, hci.assignedLt, by simp, by simp, fun _ => hci.fresh (Or.inl hs)⟩
      · exact unique_modify_same _ _ _ (fun _ => rfl) hu
  | enqueue i c hi hs hq =>
    have hci := hc c (List.mem_of_getElem? hi)
    refine ⟨?_, ?_, hw, hh⟩
    · apply forall_modify _ _ _ hc
      intro d hd
      rw [hi] at hd; injection hd with hd; subst hd
      exact ⟨by simp, by simp, hci.assignedLt, by simp, by simp, fun _ => hci.fresh (Or.inr (Or.inl hs))⟩
    · exact unique_modify_same _ _ _ (fun _ => rfl) hu
  | enqueueAbort i c hi hs hfx hd =>
    refine ⟨?_, ?_, hw, hh⟩
    · exact forall_modify _ _ _ hc (fun c hc' => cinv_to_err (hc c (List.mem_of_getElem? hc')) 1)
    · exact unique_modify_same _ _ _ (fun _ => rfl) hu
  | take i q hr hq =>
    have hmono : ∀ c ∈ s.callers, CInv fx (s.nextId + 1) s.log c :=
      fun c hm => (hc c hm).mono (Nat.le_succ _) (fun _ h => h)
    split
    · refine ⟨?_, ?_, hw, hh⟩
      · apply forall_modify _ _ _ hmono
        intro d hd
        unfold whenSt; split
        · exact ⟨by simp, by simp, by simp, by simp, by simp, by simp⟩
        · exact hmono d (List.mem_of_getElem? hd)
      · apply unique_modify_fresh _ _ s.nextId _ _ (fun c hm => (hc c hm).assignedLt) hu
        intro c; unfold whenSt; split <;> simp
    · refine ⟨?_, ?_, hw, hh⟩
      · apply forall_modify _ _ _ hmono
        intro d hd
        unfold whenSt; split
        · exact ⟨by simp, by simp, by simp, by simp, by simp, by simp⟩
        · exact hmono d (List.mem_of_getElem? hd)
      · apply unique_modify_fresh _ _ s.nextId _ _ (fun c hm => (hc c hm).assignedLt) hu
        intro c; unfold whenSt; split <;> simp
  | takeSendFail i q hr hq hn =>
    have hmono : ∀ c ∈ s.callers, CInv fx (s.nextId + 1) s.log c :=
      fun c hm => (hc c hm).mono (Nat.le_succ _) (fun _ h => h)
    refine ⟨?_, ?_, hw, hh⟩
    · apply forall_modify _ _ _ hmono
      intro d hd
      unfold whenSt; split
      · refine ⟨by simp, by simp, by simp, ?_, ?_, by simp⟩
        · intro k hk; cases fx <;> simp at hk
        · intro hfx; subst hfx; simp
      · exact hmono d (List.mem_of_getElem? hd)
    · apply unique_modify_fresh _ _ s.nextId _ _ (fun c hm => (hc c hm).assignedLt) hu
      intro c; unfold whenSt; split <;> simp
  | frameArrive id typ ok hr ha =>
    refine ⟨?_, hu, ?_, ?_⟩
    · intro c hm
      exact (hc c hm).mono (Nat.le_refl _) (fun f hf => List.mem_append_left _ hf)
    · intro f hf
      simp at hf; subst hf; simp
    · intro i f hf; simp at hf
  | fetchServe f hr hw' =>
    have hfl := hw f hw'
    unfold St.afterFetch
    split
    · rename_i i hl
      refine ⟨?_, ?_, ?_, ?_⟩
      · apply forall_modify _ _ _ hc
        intro d hd
        have hdi := hc d (List.mem_of_getElem? hd)
        unfold whenSt; split
        · rename_i hp
          have hp' : d.st = .pending f.id := by simpa using hp
          refine ⟨by simp, ?_, hdi.assignedLt, by simp, by simp, by simp⟩
          intro id hid
          simp at hid; subst hid
          exact hdi.pendAssigned _ hp'
        · exact hdi
      · apply unique_modify_same _ _ _ _ hu
        intro c; unfold whenSt; split <;> rfl
      · intro g hg; simp at hg
      · intro j g hg; simp at hg; obtain ⟨_, rfl⟩ := hg; exact hfl
    · refine ⟨hc, hu, ?_, ?_⟩
      · intro g hg; simp at hg
      · intro j g hg; simp at hg
  | fetchAbort f hfx hd hw' =>
    refine ⟨hc, hu, ?_, ?_⟩
    · intro g hg; simp at hg
    · intro j g hg; simp at hg
  | complete i f hh' =>
    have hfl := hh i f hh'
    unfold St.afterComplete
    simp only
    -- every branch is a guarded update of caller i plus a reader change
    have key : ∀ (r : Res), (r = .err 5 ∨ r = .err 4 ∨
        (r = .ok f.seq ∧ f.bodyOk = true ∧ f.typ = ((s.callers[i]?).map (·.typ)).getD 0)) →
        ∀ c ∈ s.callers.modify i (whenSt (· == .fetched f.id) fun c => { c with st := .done r }),
          CInv fx s.nextId s.log c := by
      intro r hr
      apply forall_modify _ _ _ hc
      intro d hd
      have hdi := hc d (List.mem_of_getElem? hd)
      unfold whenSt; split
      · rename_i hp
        have hp' : d.st = .fetched f.id := by simpa using hp
        rcases hr with rfl | rfl | ⟨rfl, hok, hty⟩
        · exact cinv_to_err hdi 5
        · exact cinv_to_err hdi 4
        · refine ⟨by simp, by simp, hdi.assignedLt, ?_, by simp, by simp⟩
          intro k hk
          simp at hk; subst hk
          refine ⟨f, hfl, rfl, hdi.fetchAssigned _ hp', ?_, hok⟩
          simp [hd] at hty
          exact hty
      · exact hdi
    have ukey : ∀ (r : Res),
        ∀ (a b : Nat) (ca cb : Caller) (id : Nat),
          (s.callers.modify i (whenSt (· == .fetched f.id) fun c => { c with st := .done r }))[a]? = some ca →
          (s.callers.modify i (whenSt (· == .fetched f.id) fun c => { c with st := .done r }))[b]? = some cb →
          ca.assigned = some id → cb.assigned = some id → a = b := by
      intro r
      apply unique_modify_same _ _ _ _ hu
      intro c; unfold whenSt; split <;> rfl
    split
    · split
      · refine ⟨key _ (Or.inl rfl), ukey _, ?_, ?_⟩
        · intro g hg; simp at hg
        · intro j g hg; simp at hg
      · refine ⟨hc, hu, ?_, ?_⟩
        · intro g hg; simp at hg
        · intro j g hg; simp at hg
    · rename_i hty
      split
      · rename_i hok
        refine ⟨key _ (Or.inr (Or.inr ⟨rfl, hok, by simpa using hty⟩)), ukey _, ?_, ?_⟩
        · intro g hg; simp at hg; split at hg <;> simp at hg
        · intro j g hg; simp at hg; split at hg <;> simp at hg
      · refine ⟨key _ (Or.inr (Or.inl rfl)), ukey _, ?_, ?_⟩
        · intro g hg; simp at hg
        · intro j g hg; simp at hg
  | readerDie hr hc' =>
    refine ⟨hc, hu, ?_, ?_⟩
    · intro g hg; simp at hg
    · intro j g hg; simp at hg
  | readerFatal hr =>
    refine ⟨hc, hu, ?_, ?_⟩
    · intro g hg; simp at hg
    · intro j g hg; simp at hg
  | serveReadErr hr hd => exact ⟨hc, hu, hw, hh⟩
  | serveExit he =>
    refine ⟨?_, ?_, hw, hh⟩
    · apply sweep_mem _ _ _ hc
      intro c id hci _
      exact cinv_to_err hci 3
    · intro i j ci cj id hi hj hai haj
      have e1 := sweep_getElem? s.pending s.callers i
      have e2 := sweep_getElem? s.pending s.callers j
      simp only at hi hj
      rw [hi] at e1; rw [hj] at e2
      cases hli : s.callers[i]? with
      | none => simp [hli] at e1
      | some di =>
        cases hlj : s.callers[j]? with
        | none => simp [hlj] at e2
        | some dj =>
          simp [hli] at e1; simp [hlj] at e2
          exact hu i j di dj id hli hlj (by rw [← e1]; exact hai) (by rw [← e2]; exact haj)
  | callAbort i c hi hw' hfx hd =>
    refine ⟨?_, ?_, hw, hh⟩
    · exact forall_modify _ _ _ hc (fun c hc' => cinv_to_err (hc c (List.mem_of_getElem? hc')) 1)
    · exact unique_modify_same _ _ _ (fun _ => rfl) hu
  | giveUp i c hi hw' hctx =>
    refine ⟨?_, ?_, hw, hh⟩
    · exact forall_modify _ _ _ hc (fun c hc' => cinv_to_err (hc c (List.mem_of_getElem? hc')) 6)
    · exact unique_modify_same _ _ _ (fun _ => rfl) hu
  | sever h => exact ⟨hc, hu, hw, hh⟩

theorem inv_reach (fx : Bool) (cap : Nat) (s0 s : St) (h0 : Inv fx s0) (h : Reach fx cap s0 s) :
    Inv fx s := by
  induction h with
  | refl => exact h0
  | tail _ hs ih => exact inv_step fx cap _ _ ih hs

end PubModel.C03
