/-
C03 — "with a peer that answers every request, every call completes": a
well-formed reply with the id and type of a pending call, once its three steps
(arrive, fetch, decode) have run, completes exactly that call with that frame.
-/
import PubModel.C03.Pending

namespace PubModel.C03
open PubModel.Sni

theorem lookup_mem_fst (l : List (Nat × Nat)) (a b : Nat) (h : l.lookup a = some b) : True := trivial

/-- **A matching reply completes its call**, in any reachable state of either variant,
    whatever else is pending: the frame arrives, the serve loop hands the exchange over,
    the reader decodes it, and the caller holds `ok` with that very frame. -/
theorem matching_reply_completes (fx : Bool) (cap : Nat) (cs : List Caller)
    (hcs : ∀ c ∈ cs, c.st = .idle ∧ c.assigned = none) (s : St) (hr : Reach fx cap (init cs) s)
    (i : Nat) (c : Caller) (id : Nat) (hc : s.callers[i]? = some c) (hst : c.st = .pending id)
    (hidle : s.reader = .idle) (hrun : s.serve = .running) (halive : s.connAlive = true) :
    ∃ s1 s2 s3, apply fx cap s (.frameArrive id c.typ true) = some s1 ∧
      apply fx cap s1 .fetchServe = some s2 ∧ apply fx cap s2 .complete = some s3 ∧
      ∃ c', s3.callers[i]? = some c' ∧ c'.st = .done (.ok s.log.length) := by
  obtain ⟨_, hp⟩ := pend_reach fx cap cs hcs s hr
  have hlk := hp i c id hc hst
  let f : Frame := ⟨id, c.typ, true, s.log.length⟩
  let s1 : St := { s with reader := .wantFetch f, log := s.log ++ [f] }
  have h1 : apply fx cap s (.frameArrive id c.typ true) = some s1 := by
    simp [apply, hidle, halive, s1, f]
  have hlk1 : s1.pending.lookup f.id = some i := hlk
  have h2 : apply fx cap s1 .fetchServe = some (s1.afterFetch f) := by
    simp [apply, s1, hrun]
  have hget : (s.callers.modify i (whenSt (· == .pending id) fun c => { c with st := .fetched id }))[i]?
      = some { c with st := .fetched id } := by
    rw [List.getElem?_modify, hc]
    simp [whenSt, hst]
  have hs2 : s1.afterFetch f =
      { s1.setSt i (whenSt (· == .pending f.id) fun c => { c with st := .fetched f.id })
        with pending := s1.pending.filter (fun p => p.1 != f.id), reader := .holding i f } := by
    simp only [St.afterFetch, hlk1]
  have h3 : apply fx cap (s1.afterFetch f) .complete = some ((s1.afterFetch f).afterComplete fx i f) := by
    rw [hs2]; simp [apply]
  refine ⟨s1, s1.afterFetch f, (s1.afterFetch f).afterComplete fx i f, h1, h2, h3, ?_⟩
  rw [hs2]
  simp only [St.afterComplete, St.setSt, s1, f]
  simp only [hget, Option.map_some, Option.getD_some, ne_eq, not_true_eq_false, if_false, if_true]
  refine ⟨{ c with st := .done (.ok s.log.length) }, ?_, rfl⟩
  rw [List.getElem?_modify, hget]
  simp [whenSt]

end PubModel.C03
