/-
C19 — `CheckDAG`: from the loop invariant to "accepted ⇒ layers increase along
edges ⇒ acyclic" and "acyclic and closed ⇒ every node is placed".
-/
import PubModel.C19.LemmasKahn

namespace PubModel.C19

variable {g : Graph}

theorem insTbl_get {v : Nat} (hv : v ∈ nodes g) : (insTbl g).get v = (preds g v).length := by
  unfold insTbl; rw [get_tab_mem _ hv]

theorem kinv_init (hn : (nodes g).Nodup) :
    KInv g [] (tab (nodes g) fun _ => 0) (kahnStart g (insTbl g)) := by
  refine ⟨?_, ?_, ?_, by simp, by simp, ?_⟩
  · intro v hv
    rw [get_tab_mem _ hv]
    unfold cnt
    rw [List.filter_eq_nil_iff.mpr (by simp)]
    rfl
  · intro v hv
    simp only [kahnStart, List.mem_filter, hv, true_and, decide_eq_true_eq, insTbl_get hv,
      List.not_mem_nil, not_false_eq_true]
    constructor
    · intro h u hu
      have : preds g v = [] := List.eq_nil_of_length_eq_zero h
      rw [this] at hu
      simp at hu
    · intro h
      cases hp : preds g v with
      | nil => rfl
      | cons a l =>
        exfalso
        have : a ∈ preds g v := by rw [hp]; simp
        exact h a this
  · intro v hv
    exact (List.mem_filter.mp hv).1
  · simpa [kahnStart] using List.Nodup.sublist List.filter_sublist hn

/-- the facts about the layers that `makeLayers` builds -/
structure LayersOK (g : Graph) (ls : List (List Nat)) : Prop where
  sub : ∀ v ∈ ls.flatten, v ∈ nodes g
  nodup : ls.flatten.Nodup
  mono : ∀ v ∈ ls.flatten, ∀ u, Edge g u v → u ∈ ls.flatten ∧ layerIdx ls u < layerIdx ls v
  stuck : ∀ v ∈ nodes g, v ∉ ls.flatten → ∃ u, Edge g u v ∧ u ∉ ls.flatten
  nonempty : ∀ l ∈ ls, l ≠ []

theorem layersOf_ok (hn : (nodes g).Nodup) {ls : List (List Nat)} (h : layersOf g = some ls) :
    LayersOK g ls := by
  unfold layersOf at h
  obtain ⟨h1, h2, h3, h4, h5⟩ :=
    kahn_spec hn (fun v hv => insTbl_get hv) _ _ _ _ ls (kinv_init hn) h
  refine ⟨h1, by simpa using h2, ?_, ?_, h5⟩
  · intro v hv u he
    rcases h3 v hv u he with hu | hu
    · simp at hu
    · exact hu
  · intro v hv hvl
    obtain ⟨u, he, _, hu⟩ := h4 v hv (by simp) hvl
    exact ⟨u, he, hu⟩

theorem layersOf_isSome (hn : (nodes g).Nodup) : (layersOf g).isSome := by
  unfold layersOf
  apply kahn_fuel hn (fun v hv => insTbl_get hv) _ _ _ _ (kinv_init hn)
  simp

theorem missing_false_iff : missing g = false ↔ Closed g := by
  unfold missing Closed
  rw [Bool.eq_false_iff]
  simp only [ne_eq, List.any_eq_true, decide_eq_true_eq, not_exists, not_and]
  constructor
  · intro h u v he
    exact Classical.byContradiction fun hv => h u (edge_src_mem he) v he hv
  · intro h u _ v hv hn
    exact hn (h u v hv)

theorem leftOf_nil_iff {ls : List (List Nat)} : leftOf g ls = [] ↔ ∀ v ∈ nodes g, v ∈ ls.flatten := by
  unfold leftOf
  simp only [List.filter_eq_nil_iff, decide_eq_true_eq, Decidable.not_not]

theorem checkDAG_ok_iff {ls : List (List Nat)} :
    checkDAG g = .ok ls ↔ missing g = false ∧ layersOf g = some ls ∧ leftOf g ls = [] := by
  unfold checkDAG makeLayers
  cases hm : missing g with
  | true => simp
  | false =>
    simp only [Bool.false_eq_true, if_false, true_and]
    cases hl : layersOf g with
    | none => simp
    | some ls' =>
      simp only [Option.some.injEq]
      by_cases hleft : leftOf g ls' = []
      · simp only [hleft, if_true, Check.ok.injEq]
        constructor
        · intro h; subst h; exact ⟨rfl, hleft⟩
        · intro h; exact h.1
      · simp only [hleft, if_false]
        constructor
        · intro h
          cases hc : minCircleLen g <;> simp [hc] at h
        · rintro ⟨h1, h2⟩
          subst h1
          exact absurd h2 hleft

theorem Reach.tail {u w v : Nat} (h : Reach g u w) (he : Edge g w v) : Reach g u v := by
  induction h with
  | single h1 => exact .head h1 (.single he)
  | head h1 _ ih => exact .head h1 (ih he)

theorem Reach.trans {u w v : Nat} (h : Reach g u w) (h2 : Reach g w v) : Reach g u v := by
  induction h with
  | single h1 => exact .head h1 h2
  | head h1 _ ih => exact .head h1 (ih h2)

theorem Reach.src_mem {u v : Nat} (h : Reach g u v) : u ∈ nodes g := by
  cases h with
  | single h1 => exact edge_src_mem h1
  | head h1 _ => exact edge_src_mem h1

/-- in an acyclic graph a set of nodes in which every member has a predecessor
    inside the set is empty (count the ancestors: they strictly shrink along
    the chain of predecessors) -/
theorem no_unfounded (hn : (nodes g).Nodup) (hac : Acyclic g) (S : Nat → Prop)
    (hpred : ∀ v, S v → ∃ u, Edge g u v ∧ S u) : ∀ v, ¬ S v := by
  classical
  let anc : Nat → List Nat := fun v => (nodes g).filter fun u => decide (Reach g u v)
  have key : ∀ k v, S v → (anc v).length ≤ k → False := by
    intro k
    induction k with
    | zero =>
      intro v hv hlen
      obtain ⟨u, he, _⟩ := hpred v hv
      have : u ∈ anc v := by
        simp only [anc, List.mem_filter, decide_eq_true_eq]
        exact ⟨edge_src_mem he, .single he⟩
      have : 0 < (anc v).length := List.length_pos_of_mem this
      omega
    | succ k ih =>
      intro v hv hlen
      obtain ⟨u, he, hu⟩ := hpred v hv
      apply ih u hu
      have hnd : (u :: anc u).Nodup := by
        rw [List.nodup_cons]
        refine ⟨?_, List.Nodup.sublist List.filter_sublist hn⟩
        intro hm
        simp only [anc, List.mem_filter, decide_eq_true_eq] at hm
        exact hac u hm.2
      have hsub : (u :: anc u) ⊆ anc v := by
        intro x hx
        rcases List.mem_cons.mp hx with hx | hx
        · subst hx
          simp only [anc, List.mem_filter, decide_eq_true_eq]
          exact ⟨edge_src_mem he, .single he⟩
        · simp only [anc, List.mem_filter, decide_eq_true_eq] at hx ⊢
          exact ⟨hx.1, hx.2.tail he⟩
      have := List.Nodup.length_le_of_subset hnd hsub
      simp only [List.length_cons] at this
      omega
  intro v hv
  exact key _ v hv (Nat.le_refl _)

theorem LayersOK.reach_lt {ls : List (List Nat)} (h : LayersOK g ls) {u v : Nat} (hr : Reach g u v)
    (hv : v ∈ ls.flatten) : u ∈ ls.flatten ∧ layerIdx ls u < layerIdx ls v := by
  induction hr with
  | single he => exact h.mono _ hv _ he
  | head he _ ih =>
    obtain ⟨hw, hlt⟩ := ih hv
    obtain ⟨hu, hlt'⟩ := h.mono _ hw _ he
    exact ⟨hu, Nat.lt_trans hlt' hlt⟩

end PubModel.C19
