/-
C19 — `Graph.Reverse`: edges are flipped (with their multiplicities), keys are
kept, targets that were not keys become keys.
-/
import PubModel.C19.LemmasKahn

namespace PubModel.C19

theorem outs_tab (ks : List Nat) (f : Nat → List Nat) (k : Nat) :
    outs (ks.map fun m => (m, f m)) k = if k ∈ ks then f k else [] := by
  have := get_tab ks f k
  unfold Tbl.get tab at this
  unfold outs
  exact this

theorem nodes_tab (ks : List Nat) (f : Nat → List Nat) : nodes (ks.map fun m => (m, f m)) = ks := by
  simp [nodes, List.map_map, Function.comp_def]

/-! ### insertion sort is a permutation -/

theorem count_insertBy (lt : Nat → Nat → Bool) (a x : Nat) (l : List Nat) :
    (insertBy lt a l).count x = (a :: l).count x := by
  induction l with
  | nil => simp [insertBy]
  | cons b l ih =>
    unfold insertBy
    by_cases h : lt b a = true
    · simp only [h, if_true, List.count_cons] at ih ⊢
      rw [ih]; omega
    · simp only [h]
      simp

theorem count_isort (lt : Nat → Nat → Bool) (x : Nat) (l : List Nat) :
    (isort lt l).count x = l.count x := by
  induction l with
  | nil => simp [isort]
  | cons a l ih =>
    unfold isort
    rw [count_insertBy, List.count_cons, List.count_cons, ih]

theorem mem_isort {lt : Nat → Nat → Bool} {x : Nat} {l : List Nat} : x ∈ isort lt l ↔ x ∈ l := by
  rw [← List.count_pos_iff, ← List.count_pos_iff, count_isort]

theorem isort_perm (lt : Nat → Nat → Bool) (l : List Nat) : (isort lt l).Perm l :=
  List.perm_iff_count.mpr fun a => count_isort lt a l

theorem nodup_isort {lt : Nat → Nat → Bool} {l : List Nat} (h : l.Nodup) : (isort lt l).Nodup :=
  (isort_perm lt l).nodup_iff.mpr h

/-! ### Reverse -/

/-- the new keys: targets that are not keys -/
def extraKeys (g : Graph) : List Nat :=
  dedup (((nodes g).flatMap (outs g)).filter fun v => decide (v ∉ nodes g))

theorem nodes_reverseG (g : Graph) : nodes (reverseG g) = nodes g ++ extraKeys g := by
  unfold reverseG extraKeys
  exact nodes_tab _ _

theorem mem_extraKeys {g : Graph} {v : Nat} : v ∈ extraKeys g ↔ (∃ u, Edge g u v) ∧ v ∉ nodes g := by
  unfold extraKeys
  simp only [mem_dedup, List.mem_filter, List.mem_flatMap, decide_eq_true_eq]
  constructor
  · rintro ⟨⟨u, _, h⟩, hv⟩; exact ⟨⟨u, h⟩, hv⟩
  · rintro ⟨⟨u, h⟩, hv⟩; exact ⟨⟨u, edge_src_mem h, h⟩, hv⟩

theorem extraKeys_nil_of_closed {g : Graph} (hc : Closed g) : extraKeys g = [] := by
  apply List.eq_nil_iff_forall_not_mem.mpr
  intro v hv
  obtain ⟨⟨u, he⟩, hn⟩ := mem_extraKeys.mp hv
  exact hn (hc u v he)

theorem nodup_nodes_reverseG {g : Graph} (hn : (nodes g).Nodup) : (nodes (reverseG g)).Nodup := by
  rw [nodes_reverseG, List.nodup_append]
  refine ⟨hn, nodup_dedup _, ?_⟩
  intro a ha b hb hab
  subst hab
  exact (mem_extraKeys.mp hb).2 ha

theorem sum_indicator (l : List Nat) (hl : l.Nodup) (v : Nat) (c : Nat → Nat) :
    (l.map fun n => if n = v then c n else 0).sum = if v ∈ l then c v else 0 := by
  induction l with
  | nil => simp
  | cons a l ih =>
    obtain ⟨ha, hl'⟩ := List.nodup_cons.mp hl
    simp only [List.map_cons, List.sum_cons, List.mem_cons, ih hl']
    by_cases h : a = v
    · subst h; simp [ha]
    · have h' : ¬ v = a := fun e => h e.symm
      simp [h, h']

/-- multiplicities are flipped: `v` occurs in the reversed list of `m` as often as
    `m` occurs in the list of `v` -/
theorem count_outs_reverseG {g : Graph} (hn : (nodes g).Nodup) (m v : Nat) :
    (outs (reverseG g) m).count v = (outs g v).count m := by
  unfold reverseG
  simp only
  rw [outs_tab]
  by_cases hm : m ∈ nodes g ++ dedup (((nodes g).flatMap (outs g)).filter fun v => decide (v ∉ nodes g))
  · rw [if_pos hm, count_isort, List.count_flatMap]
    have : (List.count v ∘ fun n => List.map (fun _ => n) (List.filter (fun x => x = m) (outs g n))) =
        fun n => if n = v then (outs g n).count m else 0 := by
      funext n
      simp only [Function.comp]
      by_cases h : n = v
      · subst h
        simp only [if_true]
        rw [List.count_eq_length_filter, List.count_eq_length_filter]
        simp only [List.filter_map, List.length_map]
        have : (List.filter ((fun x => x == n) ∘ fun _ => n) (List.filter (fun x => decide (x = m)) (outs g n)))
            = List.filter (fun x => decide (x = m)) (outs g n) := by
          apply List.filter_eq_self.mpr
          intro a _; simp
        rw [this]
        congr 1
      · simp only [h, if_false]
        apply List.count_eq_zero.mpr
        simp only [List.mem_map, not_exists, not_and]
        intro x _ hx
        exact h hx
    rw [this, sum_indicator _ hn]
    by_cases hv : v ∈ nodes g
    · simp [hv]
    · simp [hv, outs_nil_of_not_mem hv]
  · rw [if_neg hm]
    simp only [List.count_nil]
    symm
    apply List.count_eq_zero.mpr
    intro hx
    apply hm
    by_cases hmn : m ∈ nodes g
    · exact List.mem_append.mpr (Or.inl hmn)
    · apply List.mem_append.mpr; right
      have : m ∈ extraKeys g := mem_extraKeys.mpr ⟨⟨v, hx⟩, hmn⟩
      exact this

theorem edge_reverseG {g : Graph} (hn : (nodes g).Nodup) {m v : Nat} :
    Edge (reverseG g) m v ↔ Edge g v m := by
  unfold Edge
  rw [← List.count_pos_iff, ← List.count_pos_iff, count_outs_reverseG hn]

end PubModel.C19
