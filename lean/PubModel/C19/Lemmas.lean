/-
C19 — basic lemmas: `dedup`, tables, graph relations (`Edge`, `Reach`),
membership in `preds` / `succs`.
-/
import PubModel.C19.ModelLayout

namespace PubModel.C19

theorem mem_dedup {a : Nat} {l : List Nat} : a ∈ dedup l ↔ a ∈ l := by
  induction l with
  | nil => simp [dedup]
  | cons b l ih =>
    unfold dedup
    by_cases h : b ∈ dedup l
    · simp only [h, if_true, List.mem_cons]
      constructor
      · intro h'; exact Or.inr (ih.mp h')
      · rintro (rfl | h')
        · exact h
        · exact ih.mpr h'
    · simp only [h, if_false, List.mem_cons, ih]

theorem nodup_dedup (l : List Nat) : (dedup l).Nodup := by
  induction l with
  | nil => simp [dedup]
  | cons b l ih =>
    unfold dedup
    by_cases h : b ∈ dedup l
    · simpa [h] using ih
    · rw [if_neg h, List.nodup_cons]
      exact ⟨h, ih⟩

theorem get_tab {α : Type} [Inhabited α] (ks : List Nat) (f : Nat → α) (k : Nat) :
    (tab ks f).get k = if k ∈ ks then f k else default := by
  unfold Tbl.get tab
  induction ks with
  | nil => simp
  | cons a ks ih =>
    simp only [List.map_cons, List.lookup_cons, List.mem_cons]
    by_cases h : k = a
    · subst h; simp
    · have : (k == a) = false := by simpa using h
      simp only [this, h, false_or]
      exact ih

theorem get_tab_mem {α : Type} [Inhabited α] {ks : List Nat} (f : Nat → α) {k : Nat} (h : k ∈ ks) :
    (tab ks f).get k = f k := by
  rw [get_tab]; simp [h]

theorem get_set {α : Type} [Inhabited α] (t : Tbl α) (k : Nat) (v : α) (k' : Nat) :
    (t.set k v).get k' = if k' = k then v else t.get k' := by
  unfold Tbl.get Tbl.set
  simp only [List.lookup_cons]
  by_cases h : k' = k
  · subst h; simp
  · have : (k' == k) = false := by simpa using h
    simp [this, h]

end PubModel.C19
