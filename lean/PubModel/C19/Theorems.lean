/-
C19 — property theorems.  Statement file; helper lemmas are in Lemmas*.lean.

Property: for every directed graph, the checker accepts it exactly when it is
acyclic and all edge targets exist, and a reported cycle is a real cycle of
minimum length.  For every accepted graph, each node's layer is greater than
all of its predecessors' layers, the all-ins/all-outs sets equal reachability,
the critical edges are exactly the transitive reduction, and the layout places
no two nodes on the same coordinate and every edge strictly left to right,
within the reported width and height; reversing a graph twice gives the graph
back.

All theorems are for every graph, with no bound on its size.  `(nodes g).Nodup`
is the fact that a Go map has each key once.
-/
import PubModel.C19.LemmasAlls
import PubModel.C19.LemmasRev
import PubModel.C19.LemmasLayout2
import PubModel.C19.LemmasCycle2
import PubModel.C19.LemmasTotal
import PubModel.C19.LemmasSeq

namespace PubModel.C19

/-- **Layers increase strictly along every edge** of an accepted graph. -/
theorem layer_mono {g : Graph} (hn : (nodes g).Nodup) {ls : List (List Nat)}
    (h : checkDAG g = .ok ls) {u v : Nat} (he : Edge g u v) :
    layerIdx ls u < layerIdx ls v := by
  obtain ⟨hm, hl, hleft⟩ := checkDAG_ok_iff.mp h
  have hv : v ∈ ls.flatten := leftOf_nil_iff.mp hleft v (missing_false_iff.mp hm u v he)
  exact ((layersOf_ok hn hl).mono v hv u he).2

-- non-vacuity: an accepted graph with edges, its layers
example : checkDAG [(0, [1, 2]), (1, [2]), (2, []), (3, [2])] = .ok [[0, 3], [1], [2]] := by decide

/-- the same on the `layer` fields of the map `NewMap` returns; layers lie below `Nlayer` -/
theorem layer_mono_map {g : Graph} (hn : (nodes g).Nodup) {m : Map} (h : newMap g = .ok m)
    {u v : Nat} (he : Edge g u v) :
    m.layer.get u < m.layer.get v ∧ m.layer.get v < m.nlayer := by
  obtain ⟨ls, hc, rfl⟩ := newMap_ok_iff.mp h
  have hacc := accepted_of_check hn hc
  have hu := edge_src_mem he
  have hv := hacc.closed u v he
  show (tab (nodes g) (layerIdx ls)).get u < (tab (nodes g) (layerIdx ls)).get v ∧
    (tab (nodes g) (layerIdx ls)).get v < ls.length
  rw [get_tab_mem _ hu, get_tab_mem _ hv]
  exact ⟨layer_mono hn hc he, layerIdx_lt_length (hacc.all v hv)⟩

/-- **The layering does not depend on Go's map order**: running the inner loops of
    `makeLayers` literally (`out.nhit++; if out.nhit == len(out.Ins) { next += out }`),
    with `cur` and every `Outs` map traversed in any order, yields exactly the hit
    counters and the next layer of the order-free model (`kahnNhit`, `kahnNext`), and
    no node is appended twice. -/
theorem round_order_free {g : Graph} {ins : Nat → Nat} {nhit : Tbl Nat} {cur order : List Nat}
    {outOrder : Nat → List Nat} (hperm : order.Perm cur) (houts : ∀ u, (outOrder u).Perm (succs g u)) :
    (∀ v ∈ nodes g, (roundSeq ins nhit.get order outOrder).1 v = (kahnNhit g nhit cur).get v) ∧
    (∀ v ∈ nodes g, v ∈ (roundSeq ins nhit.get order outOrder).2 ↔
        v ∈ kahnNext g ins nhit (kahnNhit g nhit cur)) ∧
    (roundSeq ins nhit.get order outOrder).2.Nodup := by
  obtain ⟨h1, h2, h3⟩ := foldl_hitOne ins (order.flatMap outOrder) nhit.get []
  refine ⟨?_, ?_, h3 List.nodup_nil (by simp)⟩
  · intro v hv
    unfold roundSeq kahnNhit
    rw [h1 v, get_tab_mem _ hv, count_traversal hperm houts]
  · intro v hv
    unfold roundSeq kahnNext kahnNhit
    rw [h2 v, count_traversal hperm houts]
    simp only [List.not_mem_nil, false_or, List.mem_filter, hv, true_and, Bool.and_eq_true,
      decide_eq_true_eq, get_tab_mem _ hv]

-- non-vacuity: two traversal orders of the first round of a diamond give the same result
example : (roundSeq (fun v => if v = 3 then 2 else if v = 0 then 0 else 1) (fun _ => 0) [1, 2]
      (fun u => if u = 1 then [3] else if u = 2 then [3, 4] else [])).2 = [3, 4].reverse ∧
    (roundSeq (fun v => if v = 3 then 2 else if v = 0 then 0 else 1) (fun _ => 0) [2, 1]
      (fun u => if u = 1 then [3] else if u = 2 then [4, 3] else [])).2 = [4, 3].reverse := by
  decide

/-- **The checker accepts exactly the acyclic graphs whose edge targets all exist.** -/
theorem check_iff {g : Graph} (hn : (nodes g).Nodup) :
    (checkDAG g).accepted = true ↔ Closed g ∧ Acyclic g := by
  constructor
  · intro h
    cases hc : checkDAG g with
    | ok ls =>
      obtain ⟨hm, hl, hleft⟩ := checkDAG_ok_iff.mp hc
      refine ⟨missing_false_iff.mp hm, ?_⟩
      intro v hr
      have hv : v ∈ ls.flatten := leftOf_nil_iff.mp hleft v hr.src_mem
      exact Nat.lt_irrefl _ ((layersOf_ok hn hl).reach_lt hr hv).2
    | missing => rw [hc] at h; simp [Check.accepted] at h
    | circle k => rw [hc] at h; simp [Check.accepted] at h
    | panicNoCircle => rw [hc] at h; simp [Check.accepted] at h
    | outOfFuel => rw [hc] at h; simp [Check.accepted] at h
  · rintro ⟨hcl, hac⟩
    have hsome := layersOf_isSome hn (g := g)
    cases hl : layersOf g with
    | none => rw [hl] at hsome; simp at hsome
    | some ls =>
      have hok := layersOf_ok hn hl
      have hleft : leftOf g ls = [] := by
        rw [leftOf_nil_iff]
        intro v hv
        refine Classical.byContradiction fun hvl => ?_
        refine no_unfounded hn hac (fun x => x ∈ nodes g ∧ x ∉ ls.flatten) ?_ v ⟨hv, hvl⟩
        rintro x ⟨hx, hxl⟩
        obtain ⟨u, he, hu⟩ := hok.stuck x hx hxl
        exact ⟨u, he, edge_src_mem he, hu⟩
      have : checkDAG g = .ok ls := checkDAG_ok_iff.mpr ⟨missing_false_iff.mpr hcl, hl, hleft⟩
      simp [this, Check.accepted]

-- non-vacuity: accepted; rejected for a cycle; rejected for a dangling target
example : (checkDAG [(0, [1]), (1, [])]).accepted = true := by decide
example : checkDAG [(0, [1]), (1, [2]), (2, [0])] = .circle 3 := by decide
example : checkDAG [(0, [1]), (1, [7])] = .missing := by decide

/-- **The checker always answers**: it neither runs out of the model's fuel (the
    layering loop ends within `n + 1` rounds) nor reaches `panic("should find a
    circle")` (when nodes are left over, the cycle search finds a cycle). -/
theorem check_total {g : Graph} (hn : (nodes g).Nodup) :
    checkDAG g ≠ .outOfFuel ∧ checkDAG g ≠ .panicNoCircle := by
  have hsome := layersOf_isSome hn (g := g)
  constructor
  · intro h
    unfold checkDAG makeLayers at h
    cases hm : missing g with
    | true => simp [hm] at h
    | false =>
      simp only [hm, Bool.false_eq_true, if_false] at h
      cases hl : layersOf g with
      | none => rw [hl] at hsome; simp at hsome
      | some ls =>
        simp only [hl] at h
        by_cases hleft : leftOf g ls = []
        · simp [hleft] at h
        · simp only [hleft, if_false] at h
          cases hc : minCircleLen g <;> simp [hc] at h
  · intro h
    have hacc : (checkDAG g).accepted = false := by rw [h]; rfl
    unfold checkDAG makeLayers at h
    cases hm : missing g with
    | true => simp [hm] at h
    | false =>
      have hcl : Closed g := missing_false_iff.mp hm
      -- not accepted although closed: there is a cycle, and the search finds one
      have hnac : ¬ Acyclic g := fun hac => by
        have := (check_iff hn).mpr ⟨hcl, hac⟩
        rw [hacc] at this; cases this
      have : ∃ v, Reach g v v := by
        refine Classical.byContradiction fun hno => hnac fun v hr => hno ⟨v, hr⟩
      obtain ⟨v, hr⟩ := this
      obtain ⟨c, hc⟩ := cycle_of_reach hr
      obtain ⟨m, hm', _⟩ := minCircleLen_min hcl hc
      simp only [hm, Bool.false_eq_true, if_false] at h
      cases hl : layersOf g with
      | none => rw [hl] at hsome; simp at hsome
      | some ls =>
        simp only [hl] at h
        by_cases hleft : leftOf g ls = []
        · simp [hleft] at h
        · simp only [hleft, if_false, hm'] at h
          cases h

/-- **How a graph is rejected**: "missing node" exactly when some edge target is not a
    node, a cycle exactly when all targets exist and the graph is cyclic. -/
theorem check_rejects {g : Graph} (hn : (nodes g).Nodup) :
    (checkDAG g = .missing ↔ ¬ Closed g) ∧
    ((∃ k, checkDAG g = .circle k) ↔ Closed g ∧ ¬ Acyclic g) := by
  have hmiss : checkDAG g = .missing ↔ ¬ Closed g := by
    rw [← missing_false_iff]
    unfold checkDAG makeLayers
    cases hm : missing g with
    | true => simp
    | false =>
      simp only [Bool.false_eq_true, if_false, not_true_eq_false, iff_false]
      cases layersOf g with
      | none => simp
      | some ls =>
        simp only
        split
        · simp
        · cases minCircleLen g <;> simp
  refine ⟨hmiss, ?_⟩
  constructor
  · rintro ⟨k, hk⟩
    obtain ⟨hcl, _⟩ := checkDAG_circle hk
    refine ⟨hcl, fun hac => ?_⟩
    have := (check_iff hn).mpr ⟨hcl, hac⟩
    rw [hk] at this
    cases this
  · rintro ⟨hcl, hnac⟩
    obtain ⟨h1, h2⟩ := check_total hn
    cases hc : checkDAG g with
    | ok ls =>
      exfalso
      have : (checkDAG g).accepted = true := by rw [hc]; rfl
      exact hnac ((check_iff hn).mp this).2
    | missing => exact absurd hcl (hmiss.mp hc)
    | circle k => exact ⟨k, rfl⟩
    | panicNoCircle => exact absurd hc h2
    | outOfFuel => exact absurd hc h1

/-- **A reported cycle is a real cycle**: consecutive nodes are joined by edges and
    the last node has an edge back to the first.  (`reportable g c`: `c` is one of the
    cycles `minCircle` can return, whatever the map order.) -/
theorem cycle_real {g : Graph} {c : List Nat} (h : reportable g c = true) : IsCycle g c := by
  cases c with
  | nil => simp [reportable] at h
  | cons s rest =>
    simp only [reportable, Bool.and_eq_true, decide_eq_true_eq] at h
    obtain ⟨⟨⟨⟨_, _⟩, hp⟩, _⟩, he⟩ := h
    exact ⟨isPath_iff.mp hp, hasEdge_iff.mp he⟩

/-- **A reported cycle has minimum length**: when `CheckDAG` reports a cycle of `k`
    nodes, every cycle it can name has exactly `k` nodes and no cycle (closed walk) of
    the graph has fewer. -/
theorem cycle_min {g : Graph} {k : Nat} (h : checkDAG g = .circle k) :
    (∀ c, reportable g c = true → c.length = k) ∧
    (∀ c', IsCycle g c' → k ≤ c'.length) := by
  obtain ⟨hc, hk⟩ := checkDAG_circle h
  constructor
  · intro c hr
    cases c with
    | nil => simp [reportable] at hr
    | cons s rest =>
      simp only [reportable, Bool.and_eq_true, decide_eq_true_eq] at hr
      obtain ⟨⟨⟨⟨_, hlen⟩, _⟩, _⟩, _⟩ := hr
      rw [hk] at hlen
      exact (Option.some.inj hlen).symm
  · intro c' hc'
    obtain ⟨m, hm, hle⟩ := minCircleLen_min hc hc'
    rw [hk] at hm
    cases hm
    exact hle

/-- **Some cycle is reported and every reported cycle is simple**: the set of cycles
    `traceCircle` can return is never empty when a length is announced, and a
    reported cycle visits no node twice. -/
theorem cycle_reported {g : Graph} {k : Nat} (h : checkDAG g = .circle k) :
    (∃ c, reportable g c = true) ∧ (∀ c, reportable g c = true → c.Nodup) := by
  obtain ⟨_, hk⟩ := checkDAG_circle h
  refine ⟨reportable_exists hk, fun c hr => ?_⟩
  apply nodup_of_min_cycle (cycle_real hr)
  intro c' hc'
  rw [(cycle_min h).1 c hr]
  exact (cycle_min h).2 c' hc'

-- non-vacuity: a triangle next to a longer cycle; the three-node cycle is reported, from its smallest node
example : checkDAG [(0, [1]), (1, [2]), (2, [0, 3]), (3, [4]), (4, [1])] = .circle 3 := by decide
example : reportable [(0, [1]), (1, [2]), (2, [0, 3]), (3, [4]), (4, [1])] [0, 1, 2] = true := by decide
example : reportable [(0, [1]), (1, [2]), (2, [0, 3]), (3, [4]), (4, [1])] [1, 2, 3, 4] = false := by decide
example : IsCycle [(0, [1]), (1, [2]), (2, [0, 3]), (3, [4]), (4, [1])] [1, 2, 3, 4] := by
  simp [IsCycle, IsWalk, Edge, outs, List.lookup]

/-- **AllOuts / AllIns are exactly reachability** (the transitive closure of the edges). -/
theorem closure_exact {g : Graph} (hn : (nodes g).Nodup) {m : Map} (h : newMap g = .ok m) (u v : Nat) :
    (v ∈ m.allOuts.get u ↔ Reach g u v) ∧ (u ∈ m.allIns.get v ↔ Reach g u v) := by
  obtain ⟨ls, hc, rfl⟩ := newMap_ok_iff.mp h
  have hacc := accepted_of_check hn hc
  exact ⟨hacc.allOuts_iff u v, hacc.allIns_iff u v⟩

-- non-vacuity: a diamond with a tail; 0 reaches 1, 2, 3, 4
example : ∃ m, newMap [(0, [1, 2]), (1, [3]), (2, [3]), (3, [4]), (4, [])] = .ok m ∧
    m.allOuts.get 0 = [1, 2, 3, 4] ∧ m.allIns.get 3 = [1, 0, 2] := ⟨_, rfl, by decide, by decide⟩

/-- **The critical edges are exactly the transitive reduction.** -/
theorem crit_is_reduction {g : Graph} (hn : (nodes g).Nodup) {m : Map} (h : newMap g = .ok m)
    (u v : Nat) :
    (v ∈ m.critOuts.get u ↔ Reduced g u v) ∧ (u ∈ m.critIns.get v ↔ Reduced g u v) := by
  obtain ⟨ls, hc, rfl⟩ := newMap_ok_iff.mp h
  have hacc := accepted_of_check hn hc
  unfold Reduced
  constructor
  · simp only [mkMap]
    by_cases hu : u ∈ nodes g
    · rw [get_tab_mem _ hu]
      simp only [critOutsOf, List.mem_filter, mem_succs, hacc.isCrit_iff]
    · rw [get_tab]
      simp only [hu, if_false]
      constructor
      · intro hx; exact absurd hx (by simp [default])
      · intro hx; exact absurd (edge_src_mem hx.1) hu
  · simp only [mkMap]
    by_cases hv : v ∈ nodes g
    · rw [get_tab_mem _ hv]
      simp only [critInsOf, List.mem_filter, mem_preds, hacc.isCrit_iff]
    · rw [get_tab]
      simp only [hv, if_false]
      constructor
      · intro hx; exact absurd hx (by simp [default])
      · intro hx; exact absurd (hacc.closed u v hx.1) hv

-- non-vacuity: 0->2 is implied by 0->1->2 and is not critical, the other two edges are
example : ∃ m, newMap [(0, [1, 2]), (1, [2]), (2, [])] = .ok m ∧
    m.critOuts.get 0 = [1] ∧ m.critOuts.get 1 = [2] ∧ m.critIns.get 2 = [1] ∧ m.ncrit = 2 :=
  ⟨_, rfl, by decide, by decide, by decide, by decide⟩

/-- **The layout is sound**: whenever `LayoutMap` returns a view, every node has one
    position `(X n, Y n)`, no two nodes share a position, every edge of the graph
    (critical or not) goes strictly left to right, and all positions lie inside the
    reported width and height. -/
theorem layout_sound {g : Graph} (hn : (nodes g).Nodup) {m m' : Map} {v : View}
    (h : newMap g = .ok m) (hl : layoutMap m = .ok (m', v)) :
    ∃ (X : Nat → Nat) (Y : Nat → Int),
      v.pos = (nodes g).map (fun n => (n, X n, Y n)) ∧
      (∀ a ∈ nodes g, ∀ b ∈ nodes g, a ≠ b → (X a, Y a) ≠ (X b, Y b)) ∧
      (∀ a b, Edge g a b → X a < X b) ∧
      (∀ a ∈ nodes g, X a < v.width ∧ 0 ≤ Y a ∧ Y a < v.height) := by
  obtain ⟨ls, hc, rfl⟩ := newMap_ok_iff.mp h
  obtain ⟨X, Y, hok⟩ := (accepted_of_check hn hc).layout_ok hn hl
  exact ⟨X, Y, hok.pos, hok.inj, hok.edge, hok.bound⟩

-- non-vacuity: five nodes in three layers; node 4 is pushed from layer 0 to layer 1,
-- the non-critical edge 0->3 still runs left to right
example : ∃ m m' v, newMap [(0, [1, 2, 3]), (1, [3]), (2, [3]), (3, []), (4, [3])] = .ok m ∧
    layoutMap m = .ok (m', v) ∧ m.layer.get 4 = 0 ∧ v.width = 3 ∧ v.height = 5 ∧
    v.pos = [(0, 0, 2), (1, 1, 2), (2, 1, 4), (3, 2, 2), (4, 1, 0)] :=
  ⟨_, _, _, rfl, rfl, by decide, by decide, by decide, by decide⟩

/-- **`LayoutMap` always returns a view on an accepted graph**: `pushTight` never
    reaches `panic("pushing to hard")`, the recursions of `checkPush` / `pushNode`
    end (critical edges go strictly up and layers stay below `Nlayer`), and `findY`
    always finds a free slot. -/
theorem layout_total {g : Graph} (hn : (nodes g).Nodup) {m : Map} (h : newMap g = .ok m) :
    ∃ m' v, layoutMap m = .ok (m', v) := by
  obtain ⟨ls, hc, rfl⟩ := newMap_ok_iff.mp h
  exact (accepted_of_check hn hc).layout_total

/-- **Reversing a graph twice gives the graph back**: every adjacency list comes back
    with the same entries and multiplicities (`Graph.Reverse` sorts them), every key
    is kept (isolated nodes included), and when all edge targets exist no key is added. -/
theorem reverse_twice {g : Graph} (hn : (nodes g).Nodup) :
    (∀ u, (outs (reverseG (reverseG g)) u).Perm (outs g u)) ∧
    (∀ u v, Edge (reverseG (reverseG g)) u v ↔ Edge g u v) ∧
    (∀ v ∈ nodes g, v ∈ nodes (reverseG (reverseG g))) ∧
    (Closed g → nodes (reverseG (reverseG g)) = nodes g) := by
  have hn' := nodup_nodes_reverseG hn
  refine ⟨?_, ?_, ?_, ?_⟩
  · intro u
    apply List.perm_iff_count.mpr
    intro v
    rw [count_outs_reverseG hn', count_outs_reverseG hn]
  · intro u v
    rw [edge_reverseG hn', edge_reverseG hn]
  · intro v hv
    rw [nodes_reverseG, nodes_reverseG]
    exact List.mem_append.mpr (Or.inl (List.mem_append.mpr (Or.inl hv)))
  · intro hc
    have hc' : Closed (reverseG g) := by
      intro m v he
      have := (edge_reverseG hn).mp he
      rw [nodes_reverseG]
      exact List.mem_append.mpr (Or.inl (edge_src_mem this))
    rw [nodes_reverseG, extraKeys_nil_of_closed hc', nodes_reverseG, extraKeys_nil_of_closed hc]
    simp

-- non-vacuity: unsorted lists, a duplicate entry and an isolated node
example : reverseG [(0, [2, 1, 2]), (1, [2]), (2, []), (3, [])] = [(0, []), (1, [0]), (2, [0, 0, 1]), (3, [])] := by
  decide
example : reverseG (reverseG [(0, [2, 1, 2]), (1, [2]), (2, []), (3, [])]) =
    [(0, [1, 2, 2]), (1, [2]), (2, []), (3, [])] := by decide

/-- `Map.Reverse` twice restores every field (layers: `Nlayer-1-(Nlayer-1-l) = l`). -/
theorem map_reverse_twice (M : Map) (hl : ∀ v ∈ M.nodes, M.layer.get v < M.nlayer) :
    M.reverse.reverse.ins = M.ins ∧ M.reverse.reverse.outs = M.outs ∧
    M.reverse.reverse.allIns = M.allIns ∧ M.reverse.reverse.allOuts = M.allOuts ∧
    M.reverse.reverse.critIns = M.critIns ∧ M.reverse.reverse.critOuts = M.critOuts ∧
    ∀ v ∈ M.nodes, M.reverse.reverse.layer.get v = M.layer.get v := by
  refine ⟨rfl, rfl, rfl, rfl, rfl, rfl, ?_⟩
  intro v hv
  have h1 : M.reverse.nodes = M.nodes := rfl
  have h2 : M.reverse.nlayer = M.nlayer := rfl
  simp only [Map.reverse]
  rw [get_tab_mem _ hv, get_tab_mem _ hv]
  have := hl v hv
  omega

-- non-vacuity: a chain of three layers, mirrored and mirrored back
example : ∃ m, newMap [(0, [1]), (1, [2]), (2, [])] = .ok m ∧ m.layer.get 0 = 0 ∧
    m.reverse.layer.get 0 = 2 ∧ m.reverse.reverse.layer.get 0 = 0 ∧ m.reverse.ins.get 0 = [1] :=
  ⟨_, rfl, by decide, by decide, by decide, by decide⟩

end PubModel.C19
