/-
C19 — `LayoutMap`: a node is only ever put on a slot that is free in its layer,
and every placed node's slot is reserved in its layer from then on; hence no
two nodes share a coordinate.  The final shift by `ymin` and the height.
-/
import PubModel.C19.LemmasPush
import PubModel.C19.LemmasRev

namespace PubModel.C19

theorem findY_not_mem (tak : List Int) (yavg : Int) :
    ∀ (f off : Nat) (y : Int), findY tak yavg f off = some y → y ∉ tak := by
  intro f
  induction f with
  | zero => intro off y h; simp [findY] at h
  | succ f ih =>
    intro off y h
    unfold findY at h
    by_cases h1 : yavg + (off : Int) ∉ tak
    · rw [if_pos h1] at h
      cases h; exact h1
    · rw [if_neg h1] at h
      by_cases h2 : yavg - (off : Int) ∉ tak
      · rw [if_pos h2] at h
        cases h; exact h2
      · rw [if_neg h2] at h
        exact ih _ _ h

theorem snapNearBy_not_mem {tak : List Int} {y : Int} (h : y ∉ tak) : snapNearBy tak y ∉ tak := by
  unfold snapNearBy
  split
  · rename_i h1; exact h1.2
  · split
    · rename_i h2; exact h2.2.2
    · exact h

theorem lanes_foldl_mono (y : Int) :
    ∀ (lanes : List Nat) (t0 : Tbl (List Int)) (i : Nat) (z : Int), z ∈ t0.get i →
      z ∈ (lanes.foldl (fun t i => t.set i (y :: t.get i)) t0).get i := by
  intro lanes
  induction lanes with
  | nil => intro t0 i z h; exact h
  | cons j lanes ih =>
    intro t0 i z h
    simp only [List.foldl_cons]
    apply ih
    rw [get_set]
    by_cases hij : i = j
    · subst hij; simp [h]
    · simp [hij, h]

/-- what holds of the nodes placed so far (`P`) -/
structure LInv (L : Tbl Nat) (P : Nat → Prop) (st : LSt) : Prop where
  reserved : ∀ p, P p → st.y.get p ∈ st.taken.get (L.get p)
  inj : ∀ p q, P p → P q → p ≠ q → L.get p = L.get q → st.y.get p ≠ st.y.get q
  low : ∀ p, P p → st.ymin ≤ st.y.get p

theorem place_inv {M : Map} {L : Tbl Nat} {P : Nat → Prop} {st st' : LSt} {n : Nat}
    (hI : LInv L P st) (hn : ¬ P n) (h : place M L st n = some st') :
    LInv L (fun p => p = n ∨ P p) st' := by
  unfold place at h
  simp only at h
  split at h
  · simp at h
  · rename_i y0 hf
    simp only [Option.some.injEq] at h
    have hy0 : y0 ∉ st.taken.get (L.get n) := findY_not_mem _ _ _ _ _ hf
    have hy := snapNearBy_not_mem hy0
    generalize snapNearBy (st.taken.get (L.get n)) y0 = y at hy h
    subst h
    -- the new reservation table only grows, and holds `y` in the node's layer
    have hmono : ∀ i z, z ∈ st.taken.get i →
        z ∈ (List.foldl (fun t i => t.set i (y :: t.get i))
              (st.taken.set (L.get n) ((y - 1) :: y :: (y + 1) :: st.taken.get (L.get n)))
              (List.filter (fun i => decide (L.get n < i) && decide (i < critOutMaxLayer M L n))
                (List.range M.nlayer))).get i := by
      intro i z hz
      apply lanes_foldl_mono
      rw [get_set]
      by_cases hi : i = L.get n
      · subst hi; simp [hz]
      · simp [hi, hz]
    have hnew : y ∈ (List.foldl (fun t i => t.set i (y :: t.get i))
              (st.taken.set (L.get n) ((y - 1) :: y :: (y + 1) :: st.taken.get (L.get n)))
              (List.filter (fun i => decide (L.get n < i) && decide (i < critOutMaxLayer M L n))
                (List.range M.nlayer))).get (L.get n) := by
      apply lanes_foldl_mono
      rw [get_set]
      simp
    constructor
    · intro p hp
      simp only [get_set]
      rcases hp with hp | hp
      · subst hp; simpa using hnew
      · have hpn : p ≠ n := fun e => hn (e ▸ hp)
        simp only [hpn, if_false]
        exact hmono _ _ (hI.reserved p hp)
    · intro p q hp hq hpq hL
      simp only [get_set]
      rcases hp with hp | hp
      · rcases hq with hq | hq
        · exact absurd (hp.trans hq.symm) hpq
        · subst hp
          have hqn : q ≠ p := fun e => hn (e ▸ hq)
          simp only [hqn, if_false, if_true]
          intro e
          have := hI.reserved q hq
          rw [← hL, ← e] at this
          exact hy this
      · rcases hq with hq | hq
        · subst hq
          have hpn : p ≠ q := fun e => hn (e ▸ hp)
          simp only [hpn, if_false, if_true]
          intro e
          have := hI.reserved p hp
          rw [hL, e] at this
          exact hy this
        · have hpn : p ≠ n := fun e => hn (e ▸ hp)
          have hqn : q ≠ n := fun e => hn (e ▸ hq)
          simp only [hpn, hqn, if_false]
          exact hI.inj p q hp hq hpq hL
    · intro p hp
      simp only [get_set]
      rcases hp with hp | hp
      · subst hp
        simp only [if_true]
        split <;> omega
      · have hpn : p ≠ n := fun e => hn (e ▸ hp)
        simp only [hpn, if_false]
        have := hI.low p hp
        split <;> omega

theorem placeAll_inv {M : Map} {L : Tbl Nat} :
    ∀ (l : List Nat) (P : Nat → Prop) (st st' : LSt), LInv L P st → l.Nodup → (∀ x ∈ l, ¬ P x) →
      placeAll M L l st = some st' → LInv L (fun p => p ∈ l ∨ P p) st' := by
  intro l
  induction l with
  | nil =>
    intro P st st' hI _ _ h
    simp only [placeAll, Option.some.injEq] at h
    subst h
    simpa using hI
  | cons n l ih =>
    intro P st st' hI hnd hP h
    unfold placeAll at h
    cases hp : place M L st n with
    | none => simp [hp] at h
    | some st1 =>
      simp only [hp] at h
      obtain ⟨hn1, hnd'⟩ := List.nodup_cons.mp hnd
      have h1 := place_inv hI (hP n (by simp)) hp
      have := ih _ st1 st' h1 hnd' (by
        intro x hx hPx
        rcases hPx with hPx | hPx
        · subst hPx; exact hn1 hx
        · exact hP x (List.mem_cons.mpr (Or.inr hx)) hPx) h
      have e : (fun p => p ∈ l ∨ (p = n ∨ P p)) = (fun p => p ∈ n :: l ∨ P p) := by
        funext p
        apply propext
        simp only [List.mem_cons]
        constructor
        · rintro (h | h | h)
          · exact Or.inl (Or.inr h)
          · exact Or.inl (Or.inl h)
          · exact Or.inr h
        · rintro ((h | h) | h)
          · exact Or.inr (Or.inl h)
          · exact Or.inl h
          · exact Or.inr (Or.inr h)
      rw [e] at this
      exact this

theorem le_maxInt {l : List Int} {a : Int} (h : a ∈ l) : a ≤ maxInt l := by
  induction l with
  | nil => simp at h
  | cons b l ih =>
    unfold maxInt
    rcases List.mem_cons.mp h with h | h
    · subst h; split <;> omega
    · have := ih h
      split <;> omega

/-! ### the placement order covers every node once -/

theorem nodup_flatten_map {α : Type} (f : α → List Nat) :
    ∀ (l : List α), l.Nodup → (∀ a ∈ l, (f a).Nodup) →
      (∀ a ∈ l, ∀ b ∈ l, a ≠ b → ∀ x ∈ f a, x ∉ f b) → (l.map f).flatten.Nodup := by
  intro l
  induction l with
  | nil => intro _ _ _; simp
  | cons a l ih =>
    intro hnd h1 h2
    obtain ⟨ha, hnd'⟩ := List.nodup_cons.mp hnd
    simp only [List.map_cons, List.flatten_cons]
    rw [List.nodup_append]
    refine ⟨h1 a (by simp), ?_, ?_⟩
    · apply ih hnd' (fun b hb => h1 b (List.mem_cons.mpr (Or.inr hb)))
      intro b hb c hc hbc
      exact h2 b (List.mem_cons.mpr (Or.inr hb)) c (List.mem_cons.mpr (Or.inr hc)) hbc
    · intro x hx y hy hxy
      subst hxy
      simp only [List.mem_flatten, List.mem_map] at hy
      obtain ⟨_, ⟨b, hb, rfl⟩, hxb⟩ := hy
      have hab : a ≠ b := fun e => ha (e ▸ hb)
      exact h2 a (by simp) b (List.mem_cons.mpr (Or.inr hb)) hab x hx hxb

theorem mem_sortedLayers {M : Map} {L : Tbl Nat} {v : Nat} :
    v ∈ (sortedLayers M L).flatten ↔ v ∈ M.nodes ∧ L.get v < M.nlayer := by
  unfold sortedLayers
  simp only [List.mem_flatten, List.mem_map, List.mem_range]
  constructor
  · rintro ⟨_, ⟨i, hi, rfl⟩, hv⟩
    rw [mem_isort, List.mem_filter] at hv
    simp only [decide_eq_true_eq] at hv
    exact ⟨hv.1, by omega⟩
  · rintro ⟨hv, hlt⟩
    refine ⟨_, ⟨L.get v, hlt, rfl⟩, ?_⟩
    rw [mem_isort, List.mem_filter]
    simp [hv]

theorem nodup_sortedLayers {M : Map} {L : Tbl Nat} (hn : M.nodes.Nodup) :
    (sortedLayers M L).flatten.Nodup := by
  unfold sortedLayers
  apply nodup_flatten_map
  · exact List.nodup_range
  · intro i _
    exact nodup_isort (List.Nodup.sublist List.filter_sublist hn)
  · intro i _ j _ hij x hx hx'
    rw [mem_isort, List.mem_filter] at hx hx'
    simp only [decide_eq_true_eq] at hx hx'
    exact hij (hx.2.symm.trans hx'.2)

end PubModel.C19
