/-
C19 — model of /repo/dags, part 3: `pushTight` (push_tight.go), `LayoutMap`
with `findY` / `snapNearBy` and the slot reservation (layout.go), the sorters
(nodes_sorter.go), `Graph.Reverse`, `Map.Reverse`, `MapView.Reverse`.

`checkPush` / `pushNode` recurse along critical edges to the next layer; the Go
recursion has no explicit bound, so the model takes fuel and a Go stack
overflow would be `Res.fuel`.  `checkPush` returns `(false, false)` as soon as
one close successor is not able, otherwise `(true, or of the worthy flags)`;
both are independent of the order in which `CritOuts` is traversed.  The sort
keys `(layer, name)` and `(len CritIns, len CritOuts, name)` are total, so the
sorted sequences do not depend on the map order either.
-/
import PubModel.C19.ModelMap

namespace PubModel.C19

inductive Res (α : Type) where
  | ok (a : α)
  | panic            -- a Go panic
  | fuel             -- a loop or recursion of the Go code did not end within the model's fuel
  deriving Repr

def Res.bind {α β : Type} : Res α → (α → Res β) → Res β
  | .ok a, f => f a
  | .panic, _ => .panic
  | .fuel, _ => .fuel

def Tbl.set {α : Type} (t : Tbl α) (k : Nat) (v : α) : Tbl α := (k, v) :: t

/-! ### sorting -/

def insertBy (lt : Nat → Nat → Bool) (a : Nat) : List Nat → List Nat
  | [] => [a]
  | b :: l => if lt b a then b :: insertBy lt a l else a :: b :: l

def isort (lt : Nat → Nat → Bool) : List Nat → List Nat
  | [] => []
  | a :: l => insertBy lt a (isort lt l)

/-- `byLayer.Less` -/
def lessLayer (L : Tbl Nat) (a b : Nat) : Bool :=
  if L.get a < L.get b then true else if L.get a > L.get b then false else decide (a < b)

/-- `byNcritOuts.Less` -/
def lessNcrit (M : Map) (a b : Nat) : Bool :=
  let ia := (M.critIns.get a).length
  let ib := (M.critIns.get b).length
  if ia < ib then false else if ia > ib then true
  else
    let oa := (M.critOuts.get a).length
    let ob := (M.critOuts.get b).length
    if oa < ob then false else if oa > ob then true else decide (a < b)

/-! ### pushTight -/

/-- the `for _, out := range node.CritOuts` loop of `checkPush`; `ln = node.layer` -/
def checkOuts (rec : Nat → Option (Bool × Bool)) (L : Tbl Nat) (ln : Nat) :
    List Nat → Bool → Option (Bool × Bool)
  | [], w => some (true, w)
  | out :: rest, w =>
    if L.get out > ln + 1 then checkOuts rec L ln rest true
    else match rec out with
      | none => none
      | some (able, sw) =>
        if able = false then some (false, false) else checkOuts rec L ln rest (w || sw)

/-- `checkPush(m, node)` = (able, worthy) -/
def checkPush (M : Map) (L : Tbl Nat) : Nat → Nat → Option (Bool × Bool)
  | 0, _ => none
  | f+1, node =>
    if L.get node + 1 = M.nlayer then some (false, false)
    else checkOuts (checkPush M L f) L (L.get node) (M.critOuts.get node) false

def collect (rec : Nat → Option (List Nat)) : List Nat → Option (List Nat)
  | [] => some []
  | a :: l => match rec a, collect rec l with
    | some x, some y => some (x ++ y)
    | _, _ => none

/-- critical successors in the very next layer -/
def closeOuts (M : Map) (L : Tbl Nat) (node : Nat) : List Nat :=
  (M.critOuts.get node).filter fun out => decide (¬ L.get out > L.get node + 1)

/-- `pushNode`: the nodes put into `pushed` -/
def pushNode (M : Map) (L : Tbl Nat) : Nat → Nat → Option (List Nat)
  | 0, _ => none
  | f+1, node => (collect (pushNode M L f) (closeOuts M L node)).map (· ++ [node])

/-- the `for pushWorthy(m, node)` loop -/
def pushLoop (M : Map) : Nat → Tbl Nat → Nat → Res (Tbl Nat)
  | 0, _, _ => .fuel
  | f+1, L, node =>
    match checkPush M L (M.nlayer + 1) node with
    | none => .fuel
    | some (_, false) => .ok L
    | some (_, true) =>
      match pushNode M L (M.nlayer + 1) node with
      | none => .fuel
      | some pushed =>
        if pushed.any (fun p => decide (L.get p + 1 ≥ M.nlayer)) then .panic
        else pushLoop M f (tab M.nodes fun v => if v ∈ pushed then L.get v + 1 else L.get v) node

/-- `SortedNodes` -/
def sortedNodes (M : Map) : List Nat := isort (lessLayer M.layer) M.nodes

/-- `pushTight`: the new `layer` fields -/
def pushTight (M : Map) : Res (Tbl Nat) :=
  (sortedNodes M).reverse.foldl (fun r node => r.bind fun L => pushLoop M (M.nlayer + 1) L node)
    (.ok M.layer)

/-! ### LayoutMap -/

/-- `SortedLayers` -/
def sortedLayers (M : Map) (L : Tbl Nat) : List (List Nat) :=
  (List.range M.nlayer).map fun i => isort (lessNcrit M) (M.nodes.filter fun v => decide (L.get v = i))

structure LSt where
  taken : Tbl (List Int)    -- slotTaken[i]
  y : Tbl Int               -- node.y
  ymin : Int

def intSum : List Int → Int
  | [] => 0
  | a :: l => a + intSum l

/-- `avgCritInY`; Go's `/` truncates toward zero -/
def avgCritInY (M : Map) (y : Tbl Int) (n : Nat) : Int :=
  let cis := M.critIns.get n
  let nIn : Int := cis.length
  if cis = [] then 0 else Int.tdiv (intSum (cis.map y.get) + Int.tdiv nIn 2) nIn

/-- the `for` loop of `findY`, from `offset = off` -/
def findY (tak : List Int) (yavg : Int) : Nat → Nat → Option Int
  | 0, _ => none
  | f+1, off =>
    if yavg + off ∉ tak then some (yavg + off)
    else if yavg - off ∉ tak then some (yavg - off)
    else findY tak yavg f (off + 1)

def snapNearBy (tak : List Int) (y : Int) : Int :=
  if y - 2 ∈ tak ∧ y - 1 ∉ tak then y - 1
  else if y - 1 ∉ tak ∧ y + 2 ∈ tak ∧ y + 1 ∉ tak then y + 1
  else y

/-- `critOutMaxLayer` -/
def critOutMaxLayer (M : Map) (L : Tbl Nat) (n : Nat) : Nat :=
  (M.critOuts.get n).foldl (fun r out => if L.get out > r then L.get out else r) (L.get n)

/-- the body of the placement loop for one node; `none` = `findY` out of fuel -/
def place (M : Map) (L : Tbl Nat) (st : LSt) (node : Nat) : Option LSt :=
  let x := L.get node
  let tak := st.taken.get x
  match findY tak (avgCritInY M st.y node) (tak.length + 1) 0 with
  | none => none
  | some y0 =>
    let y := snapNearBy tak y0
    let xmax := critOutMaxLayer M L node
    let lanes := (List.range M.nlayer).filter fun i => decide (x < i) && decide (i < xmax)
    some { taken := lanes.foldl (fun t i => t.set i (y :: t.get i))
                      (st.taken.set x ((y - 1) :: y :: (y + 1) :: tak))
           y := st.y.set node y
           ymin := if y < st.ymin then y else st.ymin }

def placeAll (M : Map) (L : Tbl Nat) : List Nat → LSt → Option LSt
  | [], st => some st
  | n :: rest, st => match place M L st n with
    | none => none
    | some st' => placeAll M L rest st'

structure View where
  width : Nat
  height : Int
  pos : List (Nat × Nat × Int)      -- name, X, Y
  deriving Repr

def maxInt : List Int → Int
  | [] => 0
  | a :: l => if a > maxInt l then a else maxInt l

/-- `LayoutMap`: the map with its pushed layers, and the view -/
def layoutMap (M : Map) : Res (Map × View) :=
  match pushTight M with
  | .panic => .panic
  | .fuel => .fuel
  | .ok L =>
    match placeAll M L (sortedLayers M L).flatten ⟨[], [], 0⟩ with
    | none => .fuel
    | some st =>
      let ys := M.nodes.map fun v => st.y.get v - st.ymin
      .ok ({ M with layer := L },
           { width := M.nlayer, height := maxInt ys + 1,
             pos := M.nodes.map fun v => (v, L.get v, st.y.get v - st.ymin) })

/-! ### Reverse -/

/-- `Graph.Reverse`: every key kept, targets that are not keys become keys,
    lists sorted -/
def reverseG (g : Graph) : Graph :=
  let ns := nodes g
  let extra := dedup ((ns.flatMap (outs g)).filter fun v => decide (v ∉ ns))
  (ns ++ extra).map fun m =>
    (m, isort (fun a b => decide (a < b)) (ns.flatMap fun n => ((outs g n).filter (· = m)).map fun _ => n))

/-- `Map.Reverse` -/
def Map.reverse (M : Map) : Map :=
  { M with
    ins := M.outs, outs := M.ins
    allIns := M.allOuts, allOuts := M.allIns
    critIns := M.critOuts, critOuts := M.critIns
    layer := tab M.nodes fun v => M.nlayer - 1 - M.layer.get v }

/-- `MapView.Reverse` (the crit lists live in the map) -/
def View.reverse (v : View) : View :=
  { v with pos := v.pos.map fun (n, x, y) => (n, v.width - 1 - x, y) }

end PubModel.C19
