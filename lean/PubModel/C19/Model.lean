/-
C19 — model of /repo/dags, part 1: graphs, `initMap`, `makeLayers`, `minCircle`,
`CheckDAG` (map.go, circle.go, check_dag.go).

A graph is an association list `node ↦ adjacency list` (Go: `map[string][]string`;
node names are natural numbers here, the harness names node `i` as the
zero-padded decimal of `i`, so that Go's string order is the order on `Nat`).
Go map keys are unique; theorems that count nodes assume `(nodes g).Nodup`.

Go iterates maps in arbitrary order.  Everything below is therefore written on
the level of *sets per round* (lists without duplicates, compared as sets):

* `makeLayers` is Kahn's algorithm with hit counters.  One round of the Go loop
  (`for node in cur { for out in node.Outs { out.nhit++; if out.nhit ==
  len(out.Ins) { next += out } } }`) adds to `nhit v` the number of nodes of
  `cur` that have `v` among their `Outs`, and puts `v` into `next` exactly when
  the counter, going up in steps of one, passes through `len(v.Ins)`; that is
  what `kahn` computes, independently of the order in which `cur` and `Outs`
  are traversed (`ModelSeq.lean` has the literal loop, `round_order_free` in
  `Theorems.lean` proves that every traversal order gives this summary).
* `minCircle` is a breadth first search from every node at once, restricted to
  names not smaller than the start; the queue is level-synchronous, so it returns
  at the first level at which some start closes a cycle.  Which of the closing
  paths is returned depends on map order: `minCircleLen` is the (deterministic)
  length, `reportable` is the set of cycles that can be returned.
* Go panics are explicit outcomes (`Check.panicNoCircle`), loops that are not
  structural take fuel (`Check.outOfFuel`).
-/
namespace PubModel.C19

abbrev Graph := List (Nat × List Nat)

/-- keys of `g.Nodes` -/
def nodes (g : Graph) : List Nat := g.map (·.1)

/-- `g.Nodes[u]` (nil for a missing key); may contain duplicates -/
def outs (g : Graph) (u : Nat) : List Nat := (g.lookup u).getD []

def hasEdge (g : Graph) (u v : Nat) : Bool := decide (v ∈ outs g u)

/-- remove duplicates (keeps the last occurrence) -/
def dedup : List Nat → List Nat
  | [] => []
  | a :: l => if a ∈ dedup l then dedup l else a :: dedup l

/-- keys of `node.Outs` after `initMap` -/
def succs (g : Graph) (u : Nat) : List Nat := dedup (outs g u)

/-- keys of `node.Ins` after `initMap` -/
def preds (g : Graph) (v : Nat) : List Nat := (nodes g).filter fun u => hasEdge g u v

/-! ### tables: the per-node fields of `MapNode` -/

abbrev Tbl (α : Type) := List (Nat × α)

def Tbl.get {α : Type} [Inhabited α] (t : Tbl α) (k : Nat) : α := (List.lookup k t).getD default

def tab {α : Type} (ks : List Nat) (f : Nat → α) : Tbl α := ks.map fun k => (k, f k)

/-! ### initMap -/

/-- `initMap` fails when some adjacency list names a node that is not a key -/
def missing (g : Graph) : Bool :=
  (nodes g).any fun u => (outs g u).any fun v => decide (v ∉ nodes g)

/-- `Map.Nedge`: one per adjacency entry, duplicates counted -/
def nedge (g : Graph) : Nat := ((nodes g).map fun u => (outs g u).length).sum

/-! ### makeLayers -/

/-- how many nodes of `cur` hit `v` in one round -/
def hits (g : Graph) (cur : List Nat) (v : Nat) : Nat := (cur.filter fun u => hasEdge g u v).length

/-- one round: new hit counters and the next layer.  `ins v` is `len(v.Ins)`. -/
def kahnNhit (g : Graph) (nhit : Tbl Nat) (cur : List Nat) : Tbl Nat :=
  tab (nodes g) fun v => nhit.get v + hits g cur v

def kahnNext (g : Graph) (ins : Nat → Nat) (nhit nhit' : Tbl Nat) : List Nat :=
  (nodes g).filter fun v => decide (nhit.get v < ins v) && decide (ins v ≤ nhit'.get v)

/-- the `for len(cur) > 0` loop of `makeLayers`; returns `ret` -/
def kahn (g : Graph) (ins : Nat → Nat) : Nat → Tbl Nat → List Nat → Option (List (List Nat))
  | 0, _, _ => none
  | f+1, nhit, cur =>
    if cur = [] then some []
    else
      let nhit' := kahnNhit g nhit cur
      (kahn g ins f nhit' (kahnNext g ins nhit nhit')).map (cur :: ·)

def insTbl (g : Graph) : Tbl Nat := tab (nodes g) fun v => (preds g v).length

/-- the first `cur`: nodes with `len(node.Ins) == 0` -/
def kahnStart (g : Graph) (ins : Tbl Nat) : List Nat := (nodes g).filter fun v => decide (ins.get v = 0)

/-- layers of `makeLayers` (before the `len(left) != 0` test) -/
def layersOf (g : Graph) : Option (List (List Nat)) :=
  let ins := insTbl g
  kahn g ins.get ((nodes g).length + 1) (tab (nodes g) fun _ => 0) (kahnStart g ins)

/-- `left` after the loop -/
def leftOf (g : Graph) (ls : List (List Nat)) : List Nat :=
  let placed := ls.flatten
  (nodes g).filter fun v => decide (v ∉ placed)

/-- index of the layer that holds `v` (`node.layer`) -/
def layerIdx : List (List Nat) → Nat → Nat
  | [], _ => 0
  | l :: ls, v => if v ∈ l then 0 else layerIdx ls v + 1

/-! ### minCircle (breadth first, per start, names below the start skipped) -/

/-- entries appended while one level of start `s` is processed -/
def advance (g : Graph) (s : Nat) (vis fr : List Nat) : List Nat :=
  dedup ((fr.flatMap (outs g)).filter fun v => decide (v ∉ vis) && decide (¬ v < s))

/-- does some entry of this level have an edge back to the start -/
def closing (g : Graph) (s : Nat) (fr : List Nat) : Bool := fr.any fun u => hasEdge g u s

/-- level sets of the search from `s`: level 1 is `[s]` -/
def bfsFrom (g : Graph) (s : Nat) : Nat → List Nat → List Nat → List (List Nat)
  | 0, _, _ => []
  | f+1, vis, fr =>
    if fr = [] then []
    else fr :: bfsFrom g s f (vis ++ advance g s vis fr) (advance g s vis fr)

def levelSets (g : Graph) (s : Nat) : List (List Nat) := bfsFrom g s ((nodes g).length + 1) [s] [s]

/-- length of the cycle found from start `s`, if the search from `s` closes -/
def closeLevel (g : Graph) (s : Nat) : Option Nat :=
  ((levelSets g s).findIdx? (closing g s)).map (· + 1)

def minOpt : List Nat → Option Nat
  | [] => none
  | a :: l => match minOpt l with
    | none => some a
    | some b => some (if a ≤ b then a else b)

/-- length of the cycle `minCircle` returns (the queue is ordered by length) -/
def minCircleLen (g : Graph) : Option Nat := minOpt ((nodes g).filterMap (closeLevel g))

/-- consecutive edges -/
def isPath (g : Graph) : List Nat → Bool
  | [] => true
  | [_] => true
  | a :: b :: l => hasEdge g a b && isPath g (b :: l)

/-- the `i`-th node lies in the `i`-th level set -/
def inLevels : List Nat → List (List Nat) → Bool
  | [], _ => true
  | _ :: _, [] => false
  | a :: c, l :: ls => decide (a ∈ l) && inLevels c ls

/-- `c` is one of the cycles `traceCircle` can produce -/
def reportable (g : Graph) (c : List Nat) : Bool :=
  match c with
  | [] => false
  | s :: _ =>
    decide (s ∈ nodes g) && decide (minCircleLen g = some c.length) && isPath g c &&
    inLevels c (levelSets g s) && hasEdge g (c.getLast?.getD s) s

/-! ### CheckDAG -/

inductive Check where
  | ok (layers : List (List Nat))
  | missing
  | circle (len : Nat)
  | panicNoCircle      -- panic("should find a circle")
  | outOfFuel
  deriving Repr, DecidableEq

def makeLayers (g : Graph) : Check :=
  match layersOf g with
  | none => .outOfFuel
  | some ls =>
    if leftOf g ls = [] then .ok ls
    else match minCircleLen g with
      | none => .panicNoCircle
      | some k => .circle k

def checkDAG (g : Graph) : Check :=
  if missing g then .missing else makeLayers g

def Check.accepted : Check → Bool
  | .ok _ => true
  | _ => false

end PubModel.C19
