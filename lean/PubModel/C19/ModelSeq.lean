/-
C19 — the inner loops of `makeLayers`, literally:

    for _, node := range cur {
        for _, out := range node.Outs {
            out.nhit++
            if out.nhit == len(out.Ins) { next = append(next, out) }
        }
    }

in whatever order Go traverses `cur` and the `Outs` maps.  `Model.kahnNhit` /
`Model.kahnNext` are the order-free summary of this loop; `Theorems.round_order_free`
proves that every traversal order gives exactly that summary.
-/
import PubModel.C19.Model

namespace PubModel.C19

/-- `out.nhit++; if out.nhit == len(out.Ins) { next = append(next, out) }` -/
def hitOne (ins : Nat → Nat) (st : (Nat → Nat) × List Nat) (out : Nat) : (Nat → Nat) × List Nat :=
  ((fun x => if x = out then st.1 out + 1 else st.1 x),
   (if st.1 out + 1 = ins out then out :: st.2 else st.2))

/-- one round: `order` is `cur` in the order of traversal, `outOrder u` the keys of
    `u.Outs` in the order of traversal; the result is (`nhit`, `next`) -/
def roundSeq (ins : Nat → Nat) (nhit : Nat → Nat) (order : List Nat) (outOrder : Nat → List Nat) :
    (Nat → Nat) × List Nat :=
  (order.flatMap outOrder).foldl (hitOne ins) (nhit, [])

end PubModel.C19
