/-
C19 — `pushTight`: every push keeps "layers increase strictly along critical
edges" and "layers stay below Nlayer".
-/
import PubModel.C19.Lemmas

namespace PubModel.C19

/-- the invariant of `pushTight` on the `layer` fields -/
structure PInv (M : Map) (L : Tbl Nat) : Prop where
  crit : ∀ u v, v ∈ M.critOuts.get u → L.get u < L.get v
  range : ∀ v ∈ M.nodes, L.get v < M.nlayer

theorem collect_some {rec : Nat → Option (List Nat)} :
    ∀ {l R : List Nat}, collect rec l = some R →
      (∀ a ∈ l, ∃ S, rec a = some S ∧ ∀ x ∈ S, x ∈ R) ∧
      (∀ x ∈ R, ∃ a ∈ l, ∃ S, rec a = some S ∧ x ∈ S) := by
  intro l
  induction l with
  | nil =>
    intro R h
    simp only [collect, Option.some.injEq] at h
    subst h
    simp
  | cons a l ih =>
    intro R h
    unfold collect at h
    cases ha : rec a with
    | none => simp [ha] at h
    | some Sa =>
      cases hl : collect rec l with
      | none => simp [ha, hl] at h
      | some Rl =>
        simp only [ha, hl, Option.some.injEq] at h
        subst h
        obtain ⟨h1, h2⟩ := ih hl
        constructor
        · intro b hb
          rcases List.mem_cons.mp hb with hb | hb
          · subst hb
            exact ⟨Sa, ha, fun x hx => List.mem_append.mpr (Or.inl hx)⟩
          · obtain ⟨S, hS, hsub⟩ := h1 b hb
            exact ⟨S, hS, fun x hx => List.mem_append.mpr (Or.inr (hsub x hx))⟩
        · intro x hx
          rcases List.mem_append.mp hx with hx | hx
          · exact ⟨a, by simp, Sa, ha, hx⟩
          · obtain ⟨b, hb, S, hS, hxS⟩ := h2 x hx
            exact ⟨b, List.mem_cons.mpr (Or.inr hb), S, hS, hxS⟩

/-- `pushed` contains the node and is closed under "critical successor in the next layer" -/
theorem pushNode_closed (M : Map) (L : Tbl Nat) :
    ∀ (f node : Nat) (S : List Nat), pushNode M L f node = some S →
      node ∈ S ∧ ∀ x ∈ S, ∀ y ∈ closeOuts M L x, y ∈ S := by
  intro f
  induction f with
  | zero => intro node S h; simp [pushNode] at h
  | succ f ih =>
    intro node S h
    unfold pushNode at h
    cases hc : collect (pushNode M L f) (closeOuts M L node) with
    | none => simp [hc] at h
    | some R =>
      simp only [hc, Option.map_some, Option.some.injEq] at h
      subst h
      obtain ⟨h1, h2⟩ := collect_some hc
      refine ⟨by simp, ?_⟩
      intro x hx y hy
      rcases List.mem_append.mp hx with hx | hx
      · obtain ⟨a, _, Sa, hSa, hxSa⟩ := h2 x hx
        have := (ih a Sa hSa).2 x hxSa y hy
        obtain ⟨S', hS', hsub⟩ := h1 a ‹a ∈ closeOuts M L node›
        rw [hSa] at hS'
        cases hS'
        exact List.mem_append.mpr (Or.inl (hsub y this))
      · simp only [List.mem_singleton] at hx
        subst hx
        obtain ⟨Sy, hSy, hsub⟩ := h1 y hy
        exact List.mem_append.mpr (Or.inl (hsub y (ih y Sy hSy).1))

theorem mem_closeOuts {M : Map} {L : Tbl Nat} {x y : Nat} :
    y ∈ closeOuts M L x ↔ y ∈ M.critOuts.get x ∧ ¬ L.get y > L.get x + 1 := by
  simp [closeOuts, List.mem_filter]

/-- one round of pushing keeps the invariant -/
theorem push_step_inv {M : Map} (hcrit : ∀ u v, v ∈ M.critOuts.get u → u ∈ M.nodes ∧ v ∈ M.nodes)
    {L : Tbl Nat} (hI : PInv M L) {pushed : List Nat}
    (hclosed : ∀ x ∈ pushed, ∀ y ∈ closeOuts M L x, y ∈ pushed)
    (hroom : ∀ p ∈ pushed, L.get p + 1 < M.nlayer) :
    PInv M (tab M.nodes fun v => if v ∈ pushed then L.get v + 1 else L.get v) := by
  constructor
  · intro u v huv
    obtain ⟨hu, hv⟩ := hcrit u v huv
    rw [get_tab_mem _ hu, get_tab_mem _ hv]
    have hlt := hI.crit u v huv
    by_cases hup : u ∈ pushed
    · by_cases hvp : v ∈ pushed
      · simp only [hup, hvp, if_true]; omega
      · simp only [hup, hvp, if_true, if_false]
        have : v ∉ closeOuts M L u := fun hx => hvp (hclosed u hup v hx)
        rw [mem_closeOuts] at this
        have : L.get v > L.get u + 1 := Classical.byContradiction fun hx => this ⟨huv, hx⟩
        omega
    · by_cases hvp : v ∈ pushed
      · simp only [hup, hvp, if_true, if_false]; omega
      · simp only [hup, hvp, if_false]; exact hlt
  · intro v hv
    rw [get_tab_mem _ hv]
    by_cases hvp : v ∈ pushed
    · simp only [hvp, if_true]; exact hroom v hvp
    · simp only [hvp, if_false]; exact hI.range v hv

theorem pushLoop_inv {M : Map} (hcrit : ∀ u v, v ∈ M.critOuts.get u → u ∈ M.nodes ∧ v ∈ M.nodes) :
    ∀ (f : Nat) (L : Tbl Nat) (node : Nat) (L' : Tbl Nat),
      PInv M L → pushLoop M f L node = .ok L' → PInv M L' := by
  intro f
  induction f with
  | zero => intro L node L' _ h; simp [pushLoop] at h
  | succ f ih =>
    intro L node L' hI h
    unfold pushLoop at h
    cases hc : checkPush M L (M.nlayer + 1) node with
    | none => simp [hc] at h
    | some aw =>
      obtain ⟨able, worthy⟩ := aw
      cases worthy with
      | false =>
        simp only [hc, Res.ok.injEq] at h
        subst h; exact hI
      | true =>
        simp only [hc] at h
        cases hp : pushNode M L (M.nlayer + 1) node with
        | none => simp [hp] at h
        | some pushed =>
          simp only [hp] at h
          by_cases hany : (pushed.any fun p => decide (L.get p + 1 ≥ M.nlayer)) = true
          · simp [hany] at h
          · simp only [hany] at h
            apply ih _ _ _ _ h
            apply push_step_inv hcrit hI (pushNode_closed M L _ _ _ hp).2
            intro p hp'
            simp only [List.any_eq_true, decide_eq_true_eq, not_exists, not_and] at hany
            have := hany p hp'
            omega

theorem pushTight_inv {M : Map} (hcrit : ∀ u v, v ∈ M.critOuts.get u → u ∈ M.nodes ∧ v ∈ M.nodes)
    (h0 : PInv M M.layer) {L : Tbl Nat} (h : pushTight M = .ok L) : PInv M L := by
  unfold pushTight at h
  have key : ∀ (l : List Nat) (r : Res (Tbl Nat)) (L : Tbl Nat),
      (∀ L0, r = .ok L0 → PInv M L0) →
      l.foldl (fun r node => r.bind fun L => pushLoop M (M.nlayer + 1) L node) r = .ok L →
      PInv M L := by
    intro l
    induction l with
    | nil => intro r L hr h; exact hr L (by simpa using h)
    | cons a l ih =>
      intro r L hr h
      simp only [List.foldl_cons] at h
      apply ih _ L _ h
      intro L1 h1
      cases r with
      | ok L0 =>
        simp only [Res.bind] at h1
        exact pushLoop_inv hcrit _ _ _ _ (hr L0 rfl) h1
      | panic => simp [Res.bind] at h1
      | fuel => simp [Res.bind] at h1
  exact key _ _ L (fun L0 h0' => by cases h0'; exact h0) h

end PubModel.C19
