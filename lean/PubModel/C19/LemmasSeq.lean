/-
C19 — the literal inner loops of `makeLayers` give the same counters and the
same next layer in every traversal order.
-/
import PubModel.C19.ModelSeq
import PubModel.C19.LemmasKahn

namespace PubModel.C19

theorem foldl_hitOne (ins : Nat → Nat) : ∀ (hs : List Nat) (n0 : Nat → Nat) (nx0 : List Nat),
    (∀ v, (hs.foldl (hitOne ins) (n0, nx0)).1 v = n0 v + hs.count v) ∧
    (∀ v, v ∈ (hs.foldl (hitOne ins) (n0, nx0)).2 ↔
        v ∈ nx0 ∨ (n0 v < ins v ∧ ins v ≤ n0 v + hs.count v)) ∧
    (nx0.Nodup → (∀ v ∈ nx0, ins v ≤ n0 v) → (hs.foldl (hitOne ins) (n0, nx0)).2.Nodup) := by
  intro hs
  induction hs with
  | nil =>
    intro n0 nx0
    refine ⟨by simp, ?_, fun h _ => by simpa using h⟩
    intro v
    simp only [List.foldl_nil, List.count_nil, Nat.add_zero]
    constructor
    · exact Or.inl
    · rintro (h | ⟨h1, h2⟩)
      · exact h
      · omega
  | cons a hs ih =>
    intro n0 nx0
    simp only [List.foldl_cons]
    obtain ⟨h1, h2, h3⟩ := ih (hitOne ins (n0, nx0) a).1 (hitOne ins (n0, nx0) a).2
    have e : hitOne ins (n0, nx0) a = ((hitOne ins (n0, nx0) a).1, (hitOne ins (n0, nx0) a).2) := rfl
    rw [e]
    refine ⟨?_, ?_, ?_⟩
    · intro v
      rw [h1 v]
      simp only [hitOne, List.count_cons]
      by_cases hva : v = a
      · subst hva; simp; omega
      · have : (a == v) = false := by simpa using fun e => hva e.symm
        simp [hva, this]
    · intro v
      rw [h2 v]
      simp only [hitOne, List.count_cons]
      by_cases hva : v = a
      · subst hva
        simp only [if_true, beq_self_eq_true]
        by_cases heq : n0 v + 1 = ins v
        · simp only [heq, if_true, List.mem_cons, true_or]
          constructor
          · intro _; right; omega
          · intro _; trivial
        · simp only [heq, if_false]
          constructor
          · rintro (h | h)
            · exact Or.inl h
            · right; omega
          · rintro (h | h)
            · exact Or.inl h
            · right; omega
      · have hb : (a == v) = false := by simpa using fun e => hva e.symm
        simp only [hva, if_false, hb, Bool.false_eq_true, Nat.add_zero]
        by_cases heq : n0 a + 1 = ins a
        · simp only [heq, if_true, List.mem_cons, hva, false_or]
        · simp only [heq, if_false]
    · intro hnd hle
      apply h3
      · simp only [hitOne]
        by_cases heq : n0 a + 1 = ins a
        · simp only [heq, if_true, List.nodup_cons]
          refine ⟨fun ha => ?_, hnd⟩
          have := hle a ha
          omega
        · simpa [heq] using hnd
      · intro v hv
        simp only [hitOne] at hv ⊢
        by_cases heq : n0 a + 1 = ins a
        · simp only [heq, if_true, List.mem_cons] at hv
          rcases hv with hv | hv
          · subst hv; simp; omega
          · have := hle v hv
            by_cases hva : v = a
            · subst hva; simp; omega
            · simp [hva]; exact this
        · simp only [heq, if_false] at hv
          have := hle v hv
          by_cases hva : v = a
          · subst hva; simp; omega
          · simp [hva]; exact this

theorem sum_indicator_filter (p : Nat → Bool) : ∀ (l : List Nat),
    (l.map fun u => if p u = true then 1 else 0).sum = (l.filter p).length := by
  intro l
  induction l with
  | nil => rfl
  | cons a l ih =>
    simp only [List.map_cons, List.sum_cons, List.filter_cons, ih]
    by_cases h : p a = true
    · simp [h]; omega
    · simp [h]

/-- how often `v` is hit in a traversal = `hits g cur v` -/
theorem count_traversal {g : Graph} {cur order : List Nat} {outOrder : Nat → List Nat}
    (hperm : order.Perm cur) (houts : ∀ u, (outOrder u).Perm (succs g u)) (v : Nat) :
    (order.flatMap outOrder).count v = hits g cur v := by
  rw [List.count_flatMap]
  have : (List.count v ∘ outOrder) = fun u => if hasEdge g u v = true then 1 else 0 := by
    funext u
    simp only [Function.comp]
    rw [(houts u).count_eq]
    by_cases h : hasEdge g u v = true
    · simp only [h, if_true]
      have hm : v ∈ succs g u := mem_succs.mpr (hasEdge_iff.mp h)
      have hnd : (succs g u).Nodup := nodup_dedup _
      have h1 := List.nodup_iff_count.mp hnd v
      have h2 := List.count_pos_iff.mpr hm
      omega
    · simp only [h]
      apply List.count_eq_zero.mpr
      intro hm
      exact h (hasEdge_iff.mpr (mem_succs.mp hm))
  rw [this, sum_indicator_filter]
  unfold hits
  exact (hperm.filter _).length_eq

end PubModel.C19
