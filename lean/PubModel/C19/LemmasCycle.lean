/-
C19 — `minCircle`: the breadth first search from a start `s` (names below `s`
skipped) reaches every node within the number of steps of any walk to it that
stays above `s`; hence the level at which some start closes is at most the
length of any cycle of the graph.
-/
import PubModel.C19.LemmasCheck

namespace PubModel.C19

variable {g : Graph}

theorem isPath_iff {c : List Nat} : isPath g c = true ↔ IsWalk g c := by
  induction c with
  | nil => simp [isPath, IsWalk]
  | cons a l ih =>
    cases l with
    | nil => simp [isPath, IsWalk]
    | cons b l =>
      simp only [isPath, IsWalk, Bool.and_eq_true, hasEdge_iff, ih]

/-- a walk of `k` edges from `u` to `v` all of whose nodes after `u` satisfy `P` -/
def WalkP (g : Graph) (P : Nat → Prop) : Nat → Nat → Nat → Prop
  | u, 0, v => u = v
  | u, k+1, v => ∃ z, Edge g u z ∧ P z ∧ WalkP g P z k v

theorem WalkP.append {P : Nat → Prop} : ∀ {k : Nat} {u v w : Nat} {k' : Nat},
    WalkP g P u k v → WalkP g P v k' w → WalkP g P u (k + k') w := by
  intro k
  induction k with
  | zero =>
    intro u v w k' h1 h2
    simp only [WalkP] at h1
    subst h1
    simpa using h2
  | succ k ih =>
    intro u v w k' h1 h2
    obtain ⟨z, he, hz, hr⟩ := h1
    have : k + 1 + k' = (k + k') + 1 := by omega
    rw [this]
    exact ⟨z, he, hz, ih hr h2⟩

theorem WalkP.mono {P Q : Nat → Prop} (hPQ : ∀ x, P x → Q x) : ∀ {k : Nat} {u v : Nat},
    WalkP g P u k v → WalkP g Q u k v := by
  intro k
  induction k with
  | zero => intro u v h; exact h
  | succ k ih =>
    intro u v h
    obtain ⟨z, he, hz, hr⟩ := h
    exact ⟨z, he, hPQ z hz, ih hr⟩

/-! ### the search from one start -/

theorem mem_advance {s : Nat} {vis fr : List Nat} {x : Nat} :
    x ∈ advance g s vis fr ↔ (∃ y ∈ fr, Edge g y x) ∧ x ∉ vis ∧ ¬ x < s := by
  unfold advance
  simp only [mem_dedup, List.mem_filter, List.mem_flatMap, Bool.and_eq_true, decide_eq_true_eq]
  constructor
  · rintro ⟨⟨y, hy, he⟩, h1, h2⟩; exact ⟨⟨y, hy, he⟩, h1, h2⟩
  · rintro ⟨⟨y, hy, he⟩, h1, h2⟩; exact ⟨⟨y, hy, he⟩, h1, h2⟩

/-- visited nodes outside the frontier have been expanded -/
def Expanded (g : Graph) (s : Nat) (vis fr : List Nat) : Prop :=
  ∀ y ∈ vis, y ∉ fr → ∀ x, Edge g y x → s < x → x ∈ vis

/-- completeness of the level sets: a node `i` steps away (along nodes above `s`)
    from a visited node is visited or lies in one of the next `i` levels -/
theorem bfs_complete (hc : Closed g) (s : Nat) :
    ∀ (f : Nat) (vis fr : List Nat), vis.Nodup → (∀ x ∈ vis, x ∈ nodes g) → (∀ x ∈ fr, x ∈ vis) →
      Expanded g s vis fr → (nodes g).length < f + vis.length →
      ∀ (i : Nat) (y x : Nat), y ∈ vis → WalkP g (fun z => s < z) y i x →
        x ∈ vis ∨ ∃ i', i' ≤ i ∧ ∃ l, (bfsFrom g s f vis fr)[i']? = some l ∧ x ∈ l := by
  intro f
  induction f with
  | zero =>
    intro vis fr hnd hsub _ _ hfuel
    have := List.Nodup.length_le_of_subset hnd (fun x hx => hsub x hx)
    omega
  | succ f ih =>
    intro vis fr hnd hsub hfr hexp hfuel i
    induction i with
    | zero =>
      intro y x hy hw
      simp only [WalkP] at hw
      subst hw
      exact Or.inl hy
    | succ i ihi =>
      intro y x hy hw
      obtain ⟨z, he, hz, hr⟩ := hw
      -- where is z?
      by_cases hzv : z ∈ vis
      · rcases ihi z x hzv hr with h | ⟨i', hi', l, hl, hx⟩
        · exact Or.inl h
        · exact Or.inr ⟨i', by omega, l, hl, hx⟩
      · -- z is new: y must be in the frontier, z in the next level
        have hyfr : y ∈ fr := by
          refine Classical.byContradiction fun hn => hzv (hexp y hy hn z he hz)
        have hzadv : z ∈ advance g s vis fr :=
          mem_advance.mpr ⟨⟨y, hyfr, he⟩, hzv, by omega⟩
        have hfrne : fr ≠ [] := by
          intro e; rw [e] at hyfr; simp at hyfr
        have hadvne : advance g s vis fr ≠ [] := by
          intro e; rw [e] at hzadv; simp at hzadv
        -- the state of the next round
        have hnd' : (vis ++ advance g s vis fr).Nodup := by
          rw [List.nodup_append]
          refine ⟨hnd, nodup_dedup _, ?_⟩
          intro a ha b hb hab
          subst hab
          exact (mem_advance.mp hb).2.1 ha
        have hsub' : ∀ x ∈ vis ++ advance g s vis fr, x ∈ nodes g := by
          intro x hx
          rcases List.mem_append.mp hx with hx | hx
          · exact hsub x hx
          · obtain ⟨⟨y', _, he'⟩, _, _⟩ := mem_advance.mp hx
            exact hc y' x he'
        have hfr' : ∀ x ∈ advance g s vis fr, x ∈ vis ++ advance g s vis fr :=
          fun x hx => List.mem_append.mpr (Or.inr hx)
        have hexp' : Expanded g s (vis ++ advance g s vis fr) (advance g s vis fr) := by
          intro y' hy' hy'n x' he' hx'
          have hy'v : y' ∈ vis := by
            rcases List.mem_append.mp hy' with h | h
            · exact h
            · exact absurd h hy'n
          by_cases hy'fr : y' ∈ fr
          · by_cases hx'v : x' ∈ vis
            · exact List.mem_append.mpr (Or.inl hx'v)
            · exact List.mem_append.mpr (Or.inr (mem_advance.mpr ⟨⟨y', hy'fr, he'⟩, hx'v, by omega⟩))
          · exact List.mem_append.mpr (Or.inl (hexp y' hy'v hy'fr x' he' hx'))
        have hfuel' : (nodes g).length < f + (vis ++ advance g s vis fr).length := by
          have : 0 < (advance g s vis fr).length := List.length_pos_iff.mpr hadvne
          simp only [List.length_append]
          omega
        have := ih _ _ hnd' hsub' hfr' hexp' hfuel' i z x
          (List.mem_append.mpr (Or.inr hzadv)) hr
        have hunf : bfsFrom g s (f + 1) vis fr =
            fr :: bfsFrom g s f (vis ++ advance g s vis fr) (advance g s vis fr) := by
          rw [bfsFrom]; simp [hfrne]
        rcases this with h | ⟨i', hi', l, hl, hx⟩
        · rcases List.mem_append.mp h with h | h
          · exact Or.inl h
          · -- x is in the very next level
            right
            refine ⟨1, by omega, advance g s vis fr, ?_, h⟩
            rw [hunf]
            cases f with
            | zero =>
              exfalso
              have := List.Nodup.length_le_of_subset hnd' (fun x hx => hsub' x hx)
              omega
            | succ f' =>
              rw [bfsFrom]; simp [hadvne]
        · right
          refine ⟨i' + 1, by omega, l, ?_, hx⟩
          rw [hunf]
          simpa using hl

/-- the first level is the start itself -/
theorem levelSets_zero (s : Nat) : (levelSets g s)[0]? = some [s] := by
  unfold levelSets
  rw [bfsFrom]
  simp

theorem levelSets_complete (hc : Closed g) {s : Nat} (hs : s ∈ nodes g) {i : Nat} {x : Nat}
    (hw : WalkP g (fun z => s < z) s i x) :
    ∃ i', i' ≤ i ∧ ∃ l, (levelSets g s)[i']? = some l ∧ x ∈ l := by
  have := bfs_complete hc s ((nodes g).length + 1) [s] [s] (by simp) (by simpa using hs)
    (by simp) (by intro y hy hn; exact absurd hy hn) (by simp only [List.length_singleton]; omega)
    i s x (by simp) hw
  rcases this with h | h
  · simp only [List.mem_singleton] at h
    subst h
    exact ⟨0, Nat.zero_le _, [x], levelSets_zero x, by simp⟩
  · exact h

theorem findIdx?_le {α : Type} (p : α → Bool) :
    ∀ (l : List α) (i : Nat) (a : α), l[i]? = some a → p a = true →
      ∃ k, k ≤ i ∧ l.findIdx? p = some k := by
  intro l
  induction l with
  | nil => intro i a h; simp at h
  | cons b l ih =>
    intro i a h hp
    rw [List.findIdx?_cons]
    by_cases hb : p b = true
    · exact ⟨0, Nat.zero_le _, by simp [hb]⟩
    · cases i with
      | zero =>
        simp only [List.getElem?_cons_zero, Option.some.injEq] at h
        subst h
        exact absurd hp hb
      | succ i =>
        simp only [List.getElem?_cons_succ] at h
        obtain ⟨k, hk, hf⟩ := ih i a h hp
        refine ⟨k + 1, by omega, ?_⟩
        simp [hb, hf]

/-- a walk above `s` that comes back to `s` bounds the level at which `s` closes -/
theorem closeLevel_le (hc : Closed g) {s : Nat} (hs : s ∈ nodes g) {i : Nat} {w : Nat}
    (hw : WalkP g (fun z => s < z) s i w) (he : Edge g w s) :
    ∃ k, closeLevel g s = some k ∧ k ≤ i + 1 := by
  obtain ⟨i', hi', l, hl, hx⟩ := levelSets_complete hc hs hw
  have hcl : closing g s l = true := by
    unfold closing
    rw [List.any_eq_true]
    exact ⟨w, hx, hasEdge_iff.mpr he⟩
  obtain ⟨k, hk, hf⟩ := findIdx?_le (closing g s) _ _ _ hl hcl
  refine ⟨k + 1, ?_, by omega⟩
  unfold closeLevel
  rw [hf]; rfl

theorem minOpt_le : ∀ {l : List Nat} {x : Nat}, x ∈ l → ∃ m, minOpt l = some m ∧ m ≤ x := by
  intro l
  induction l with
  | nil => intro x h; simp at h
  | cons a l ih =>
    intro x h
    unfold minOpt
    cases hm : minOpt l with
    | none =>
      rcases List.mem_cons.mp h with h | h
      · subst h; exact ⟨x, rfl, Nat.le_refl _⟩
      · obtain ⟨m, hm', _⟩ := ih h
        rw [hm] at hm'; cases hm'
    | some b =>
      simp only
      rcases List.mem_cons.mp h with h | h
      · subst h
        refine ⟨_, rfl, ?_⟩
        split <;> omega
      · obtain ⟨m, hm', hle⟩ := ih h
        rw [hm] at hm'; cases hm'
        refine ⟨_, rfl, ?_⟩
        split <;> omega

theorem minCircleLen_le (hc : Closed g) {s : Nat} (hs : s ∈ nodes g) {i : Nat} {w : Nat}
    (hw : WalkP g (fun z => s < z) s i w) (he : Edge g w s) :
    ∃ m, minCircleLen g = some m ∧ m ≤ i + 1 := by
  obtain ⟨k, hk, hle⟩ := closeLevel_le hc hs hw he
  have : k ∈ (nodes g).filterMap (closeLevel g) := List.mem_filterMap.mpr ⟨s, hs, hk⟩
  obtain ⟨m, hm, hmk⟩ := minOpt_le this
  exact ⟨m, hm, by omega⟩

/-! ### from a cycle to a walk above its smallest node that returns to it -/

/-- first return: a closed walk through nodes `≥ s` that starts at `s` contains a
    closed walk from `s` whose inner nodes are all `> s` -/
theorem first_return {s : Nat} : ∀ (k : Nat) (y : Nat), WalkP g (fun z => s ≤ z) y (k + 1) s →
    ∃ j w, j ≤ k ∧ WalkP g (fun z => s < z) y j w ∧ Edge g w s := by
  intro k
  induction k with
  | zero =>
    intro y h
    obtain ⟨z, he, _, hr⟩ := h
    simp only [WalkP] at hr
    subst hr
    exact ⟨0, y, Nat.le_refl _, rfl, he⟩
  | succ k ih =>
    intro y h
    obtain ⟨z, he, hz, hr⟩ := h
    by_cases hzs : z = s
    · subst hzs
      exact ⟨0, y, Nat.zero_le _, rfl, he⟩
    · obtain ⟨j, w, hj, hw, hew⟩ := ih z hr
      exact ⟨j + 1, w, by omega, ⟨z, he, by omega, hw⟩, hew⟩

theorem IsWalk.tail {a : Nat} {l : List Nat} (h : IsWalk g (a :: l)) : IsWalk g l := by
  cases l with
  | nil => trivial
  | cons b l => exact h.2

theorem IsWalk.of_append : ∀ {a l : List Nat}, IsWalk g (a ++ l) → IsWalk g l := by
  intro a
  induction a with
  | nil => intro l h; exact h
  | cons x a ih => intro l h; exact ih (IsWalk.tail h)

/-- last node of `x :: l` -/
def lastD : Nat → List Nat → Nat
  | x, [] => x
  | _, b :: l => lastD b l

theorem getLast?_cons_eq : ∀ (l : List Nat) (x : Nat), (x :: l).getLast? = some (lastD x l) := by
  intro l
  induction l with
  | nil => intro x; rfl
  | cons b l ih => intro x; rw [List.getLast?_cons_cons, ih b]; rfl

theorem getLastD_cons (l : List Nat) (x d : Nat) : (x :: l).getLast?.getD d = lastD x l := by
  rw [getLast?_cons_eq]; rfl

theorem getLastD_append (a b : List Nat) (s d : Nat) : (a ++ s :: b).getLast?.getD d = lastD s b := by
  rw [List.getLast?_append, getLast?_cons_eq]; rfl

/-- a list walk as a counted walk to its last node -/
theorem walkP_of_isWalk {P : Nat → Prop} : ∀ (l : List Nat) (x : Nat), IsWalk g (x :: l) → (∀ y ∈ l, P y) →
    WalkP g P x l.length ((x :: l).getLast?.getD x) := by
  intro l
  induction l with
  | nil => intro x _ _; simp [WalkP]
  | cons b l ih =>
    intro x h hP
    have := ih b h.2 (fun y hy => hP y (List.mem_cons.mpr (Or.inr hy)))
    refine ⟨b, h.1, hP b (by simp), ?_⟩
    rw [getLastD_cons] at this ⊢
    exact this

/-- the walk up to a node in the middle of a list walk -/
theorem walkP_prefix {P : Nat → Prop} : ∀ (a : List Nat) (x s : Nat) (b : List Nat),
    IsWalk g (x :: a ++ s :: b) → (∀ y ∈ a, P y) → P s → WalkP g P x (a.length + 1) s := by
  intro a
  induction a with
  | nil =>
    intro x s b h _ hs
    exact ⟨s, h.1, hs, rfl⟩
  | cons c a ih =>
    intro x s b h hP hs
    have h' : IsWalk g (c :: a ++ s :: b) := h.2
    exact ⟨c, h.1, hP c (by simp), ih c s b h' (fun y hy => hP y (List.mem_cons.mpr (Or.inr hy))) hs⟩

theorem exists_min_mem : ∀ (l : List Nat), l ≠ [] → ∃ s ∈ l, ∀ y ∈ l, s ≤ y := by
  intro l
  induction l with
  | nil => intro h; exact absurd rfl h
  | cons a l ih =>
    intro _
    cases l with
    | nil => exact ⟨a, by simp, by simp⟩
    | cons b l =>
      obtain ⟨s, hs, hmin⟩ := ih (by simp)
      by_cases h : a ≤ s
      · refine ⟨a, by simp, ?_⟩
        intro y hy
        rcases List.mem_cons.mp hy with hy | hy
        · omega
        · have := hmin y hy; omega
      · refine ⟨s, List.mem_cons.mpr (Or.inr hs), ?_⟩
        intro y hy
        rcases List.mem_cons.mp hy with hy | hy
        · omega
        · exact hmin y hy

/-- a cycle, seen from its smallest node: a closed walk of the same length
    through nodes that are not smaller -/
theorem cycle_from_min {c : List Nat} (h : IsCycle g c) :
    ∃ s, s ∈ nodes g ∧ ∃ k, k + 1 = c.length ∧ WalkP g (fun z => s ≤ z) s (k + 1) s := by
  cases c with
  | nil => exact h.elim
  | cons c0 rest =>
    obtain ⟨hwalk, hclose⟩ := h
    obtain ⟨s, hs, hmin⟩ := exists_min_mem (c0 :: rest) (by simp)
    obtain ⟨a, b, hab⟩ := List.append_of_mem hs
    -- from s to the end of the list
    have hsb : IsWalk g (s :: b) := by
      have := hwalk; rw [hab] at this; exact IsWalk.of_append this
    have hPb : ∀ y ∈ b, s ≤ y := fun y hy => hmin y (by rw [hab]; simp [hy])
    have w1 := walkP_of_isWalk (P := fun z => s ≤ z) b s hsb hPb
    have hlast : (c0 :: rest).getLast?.getD c0 = (s :: b).getLast?.getD s := by
      rw [hab, getLastD_append, getLastD_cons]
    rw [hlast] at hclose
    have hsrc : s ∈ nodes g := by
      cases b with
      | nil =>
        simp only [List.getLast?_singleton, Option.getD_some] at hclose
        exact edge_src_mem hclose
      | cons b0 b' => exact edge_src_mem hsb.1
    refine ⟨s, hsrc, a.length + b.length, ?_, ?_⟩
    · rw [hab]; simp; omega
    · cases a with
      | nil =>
        -- c0 = s: the closing edge returns to s
        have hc0 : c0 = s := by simpa using congrArg List.head? hab
        subst hc0
        have w2 : WalkP g (fun z => c0 ≤ z) ((c0 :: b).getLast?.getD c0) 1 c0 :=
          ⟨c0, hclose, Nat.le_refl _, rfl⟩
        have := w1.append w2
        simpa using this
      | cons a0 a' =>
        have hc0 : c0 = a0 := by
          have := congrArg List.head? hab
          simpa using this
        subst hc0
        have hrest : rest = a' ++ s :: b := by
          have := congrArg List.tail hab
          simpa using this
        have hPa : ∀ y ∈ a', s ≤ y := fun y hy => hmin y (by rw [hab]; simp [hy])
        have hw' : IsWalk g (c0 :: a' ++ s :: b) := by
          have := hwalk; rw [hrest] at this; simpa using this
        have w3 := walkP_prefix (P := fun z => s ≤ z) a' c0 s b hw' hPa (Nat.le_refl _)
        have w2 : WalkP g (fun z => s ≤ z) ((s :: b).getLast?.getD s) 1 c0 :=
          ⟨c0, hclose, hmin c0 (by simp), rfl⟩
        have := (w1.append w2).append w3
        have e : b.length + 1 + (a'.length + 1) = (c0 :: a').length + b.length + 1 := by
          simp only [List.length_cons]; omega
        rw [e] at this
        exact this

theorem Reach.walk {u v : Nat} (h : Reach g u v) : ∃ l, IsWalk g (u :: l) ∧ Edge g (lastD u l) v := by
  induction h with
  | single he => exact ⟨[], trivial, he⟩
  | head he _ ih =>
    obtain ⟨l, hw, hl⟩ := ih
    exact ⟨_ :: l, ⟨he, hw⟩, hl⟩

theorem cycle_of_reach {v : Nat} (h : Reach g v v) : ∃ c, IsCycle g c := by
  obtain ⟨l, hw, hl⟩ := h.walk
  refine ⟨v :: l, hw, ?_⟩
  rw [getLastD_cons]
  exact hl

/-- **no cycle of the graph is shorter than the length `minCircle` reports** -/
theorem minCircleLen_min (hc : Closed g) {c : List Nat} (h : IsCycle g c) :
    ∃ m, minCircleLen g = some m ∧ m ≤ c.length := by
  obtain ⟨s, hs, k, hk, hw⟩ := cycle_from_min h
  obtain ⟨j, w, hj, hw', he⟩ := first_return k s hw
  obtain ⟨m, hm, hle⟩ := minCircleLen_le hc hs hw' he
  exact ⟨m, hm, by omega⟩

end PubModel.C19
