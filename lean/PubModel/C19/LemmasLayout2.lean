/-
C19 — putting the layout together: every edge is implied by a path of critical
edges, so the pushed layers still increase along every edge; coordinates.
-/
import PubModel.C19.LemmasAlls
import PubModel.C19.LemmasLayout

namespace PubModel.C19

variable {g : Graph}

/-- a path of critical (reduced) edges -/
inductive CritReach (g : Graph) : Nat → Nat → Prop
  | single {u v : Nat} : Reduced g u v → CritReach g u v
  | head {u w v : Nat} : Reduced g u w → CritReach g w v → CritReach g u v

theorem CritReach.trans {u w v : Nat} (h : CritReach g u w) (h2 : CritReach g w v) : CritReach g u v := by
  induction h with
  | single h1 => exact .head h1 h2
  | head h1 _ ih => exact .head h1 (ih h2)

/-- every path is implied by a path of critical edges (induction on the layer gap) -/
theorem Accepted.crit_path {ls : List (List Nat)} (h : Accepted g ls) :
    ∀ (d u v : Nat), Reach g u v → layerIdx ls v ≤ layerIdx ls u + d → CritReach g u v := by
  have hlt : ∀ {a b : Nat}, Reach g a b → layerIdx ls a < layerIdx ls b := fun hr =>
    (h.ok.reach_lt hr (h.all _ (hr.dst_mem h.closed))).2
  intro d
  induction d with
  | zero =>
    intro u v hr hle
    have := hlt hr
    omega
  | succ d ih =>
    intro u v hr hle
    cases hr with
    | single he =>
      by_cases hred : Reduced g u v
      · exact .single hred
      · have : ∃ w, w ≠ u ∧ w ≠ v ∧ Reach g u w ∧ Reach g w v := by
          refine Classical.byContradiction fun hno => hred ⟨he, hno⟩
        obtain ⟨w, _, _, h1, h2⟩ := this
        have l1 := hlt h1
        have l2 := hlt h2
        exact (ih u w h1 (by omega)).trans (ih w v h2 (by omega))
    | head he hr' =>
      rename_i w
      have l1 := hlt (.single he)
      have l2 := hlt hr'
      exact (ih u w (.single he) (by omega)).trans (ih w v hr' (by omega))

theorem layerIdx_lt_length {ls : List (List Nat)} {v : Nat} (h : v ∈ ls.flatten) :
    layerIdx ls v < ls.length := by
  induction ls with
  | nil => simp at h
  | cons l ls ih =>
    by_cases hv : v ∈ l
    · rw [layerIdx_cons_mem hv]; simp
    · rw [layerIdx_cons_not_mem hv]
      simp only [List.flatten_cons, List.mem_append, hv, false_or] at h
      have := ih h
      simp only [List.length_cons]
      omega

theorem Accepted.critOuts_iff {ls : List (List Nat)} (h : Accepted g ls) (u v : Nat) :
    v ∈ (mkMap g ls).critOuts.get u ↔ Reduced g u v := by
  unfold Reduced
  simp only [mkMap]
  by_cases hu : u ∈ nodes g
  · rw [get_tab_mem _ hu]
    simp only [critOutsOf, List.mem_filter, mem_succs, h.isCrit_iff]
  · rw [get_tab]
    simp only [hu, if_false]
    constructor
    · intro hx; exact absurd hx (by simp [default])
    · intro hx; exact absurd (edge_src_mem hx.1) hu

theorem Accepted.pinv0 {ls : List (List Nat)} (h : Accepted g ls) :
    PInv (mkMap g ls) (mkMap g ls).layer := by
  constructor
  · intro u v huv
    have he := ((h.critOuts_iff u v).mp huv).1
    have hu := edge_src_mem he
    have hv := h.closed u v he
    show (tab (nodes g) (layerIdx ls)).get u < (tab (nodes g) (layerIdx ls)).get v
    rw [get_tab_mem _ hu, get_tab_mem _ hv]
    exact (h.ok.mono v (h.all v hv) u he).2
  · intro v hv
    show (tab (nodes g) (layerIdx ls)).get v < ls.length
    have hv' : v ∈ nodes g := hv
    rw [get_tab_mem _ hv']
    exact layerIdx_lt_length (h.all v hv')

/-- the coordinates `LayoutMap` assigns -/
structure LayoutOK (g : Graph) (v : View) (X : Nat → Nat) (Y : Nat → Int) : Prop where
  pos : v.pos = (nodes g).map fun n => (n, X n, Y n)
  inj : ∀ a ∈ nodes g, ∀ b ∈ nodes g, a ≠ b → (X a, Y a) ≠ (X b, Y b)
  edge : ∀ a b, Edge g a b → X a < X b
  bound : ∀ a ∈ nodes g, X a < v.width ∧ 0 ≤ Y a ∧ Y a < v.height

theorem Accepted.layout_ok (hn : (nodes g).Nodup) {ls : List (List Nat)} (h : Accepted g ls)
    {m' : Map} {v : View} (hl : layoutMap (mkMap g ls) = .ok (m', v)) :
    ∃ X Y, LayoutOK g v X Y := by
  unfold layoutMap at hl
  cases hp : pushTight (mkMap g ls) with
  | panic => simp [hp] at hl
  | fuel => simp [hp] at hl
  | ok L =>
    simp only [hp] at hl
    cases hpl : placeAll (mkMap g ls) L (sortedLayers (mkMap g ls) L).flatten ⟨[], [], 0⟩ with
    | none => simp [hpl] at hl
    | some st =>
      simp only [hpl, Res.ok.injEq, Prod.mk.injEq] at hl
      obtain ⟨_, hv⟩ := hl
      have hnodes : (mkMap g ls).nodes = nodes g := rfl
      have hcrit : ∀ a b, b ∈ (mkMap g ls).critOuts.get a →
          a ∈ (mkMap g ls).nodes ∧ b ∈ (mkMap g ls).nodes := by
        intro a b hab
        have he := ((h.critOuts_iff a b).mp hab).1
        exact ⟨edge_src_mem he, h.closed a b he⟩
      have hP := pushTight_inv hcrit h.pinv0 hp
      have hI0 : LInv L (fun _ => False) ⟨[], [], 0⟩ := ⟨fun _ hp => hp.elim, fun _ _ hp => hp.elim, fun _ hp => hp.elim⟩
      have hI := placeAll_inv _ _ _ _ hI0 (nodup_sortedLayers (L := L) (hnodes ▸ hn)) (fun _ _ hf => hf) hpl
      have hall : ∀ a ∈ nodes g, a ∈ (sortedLayers (mkMap g ls) L).flatten := fun a ha =>
        mem_sortedLayers.mpr ⟨ha, hP.range a ha⟩
      have hcr : ∀ {a b : Nat}, CritReach g a b → L.get a < L.get b := by
        intro a b hc
        induction hc with
        | single hr => exact hP.crit _ _ ((h.critOuts_iff _ _).mpr hr)
        | head hr _ ih => exact Nat.lt_trans (hP.crit _ _ ((h.critOuts_iff _ _).mpr hr)) ih
      refine ⟨L.get, fun n => st.y.get n - st.ymin, ?_, ?_, ?_, ?_⟩
      · rw [← hv]; rfl
      · intro a ha b hb hab heq
        simp only [Prod.mk.injEq] at heq
        have := hI.inj a b (Or.inl (hall a ha)) (Or.inl (hall b hb)) hab heq.1
        apply this
        omega
      · intro a b he
        exact hcr (h.crit_path _ a b (.single he) (Nat.le_add_left _ _))
      · intro a ha
        rw [← hv]
        simp only
        refine ⟨hP.range a ha, ?_, ?_⟩
        · have := hI.low a (Or.inl (hall a ha))
          omega
        · have : st.y.get a - st.ymin ∈ (mkMap g ls).nodes.map fun v => st.y.get v - st.ymin :=
            List.mem_map.mpr ⟨a, ha, rfl⟩
          have := le_maxInt this
          omega

end PubModel.C19
