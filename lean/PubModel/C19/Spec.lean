/-
C19 — the vocabulary of the property: edges, reachability, acyclicity,
cycles.  Independent of how the code computes anything.
-/
import PubModel.C19.Model

namespace PubModel.C19

/-- `v` occurs in the adjacency list of `u` -/
def Edge (g : Graph) (u v : Nat) : Prop := v ∈ outs g u

/-- a path of at least one edge -/
inductive Reach (g : Graph) : Nat → Nat → Prop
  | single {u v : Nat} : Edge g u v → Reach g u v
  | head {u w v : Nat} : Edge g u w → Reach g w v → Reach g u v

/-- no node reaches itself -/
def Acyclic (g : Graph) : Prop := ∀ v, ¬ Reach g v v

/-- every edge target is a node -/
def Closed (g : Graph) : Prop := ∀ u v, Edge g u v → v ∈ nodes g

/-- consecutive nodes of `c` are joined by edges -/
def IsWalk (g : Graph) : List Nat → Prop
  | [] => True
  | [_] => True
  | a :: b :: l => Edge g a b ∧ IsWalk g (b :: l)

/-- `c = [c₀, …, cₖ₋₁]` with edges `c₀→c₁→…→cₖ₋₁→c₀`; its length is the number of its edges -/
def IsCycle (g : Graph) (c : List Nat) : Prop :=
  match c with
  | [] => False
  | s :: _ => IsWalk g c ∧ Edge g (c.getLast?.getD s) s

/-- the transitive reduction: an edge with no node strictly between its ends -/
def Reduced (g : Graph) (u v : Nat) : Prop :=
  Edge g u v ∧ ¬ ∃ w, w ≠ u ∧ w ≠ v ∧ Reach g u w ∧ Reach g w v

end PubModel.C19
