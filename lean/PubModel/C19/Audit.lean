import PubModel.C19.Theorems
open PubModel.C19
#print axioms round_order_free
#print axioms layer_mono
#print axioms layer_mono_map
#print axioms check_iff
#print axioms check_total
#print axioms check_rejects
#print axioms cycle_real
#print axioms cycle_min
#print axioms cycle_reported
#print axioms closure_exact
#print axioms crit_is_reduction
#print axioms layout_sound
#print axioms layout_total
#print axioms reverse_twice
#print axioms map_reverse_twice
