/-
C19 — `buildAlls`: the flattened layers are a topological order, and walking
them keeps "AllIns/AllOuts = paths whose last edge leaves a processed node".
-/
import PubModel.C19.LemmasCheck

namespace PubModel.C19

variable {g : Graph}

/-! ### the flattened layers are sorted by layer index -/

theorem flatten_pairwise_idx (ls : List (List Nat)) (hnd : ls.flatten.Nodup) :
    ls.flatten.Pairwise (fun a b => layerIdx ls a ≤ layerIdx ls b) := by
  induction ls with
  | nil => simp
  | cons l ls ih =>
    simp only [List.flatten_cons] at hnd ⊢
    obtain ⟨_, h2, h3⟩ := List.nodup_append.mp hnd
    rw [List.pairwise_append]
    refine ⟨?_, ?_, ?_⟩
    · refine List.Pairwise.imp_of_mem (R := fun _ _ => True) ?_ (List.pairwise_of_forall (fun _ _ => trivial))
      intro a b ha _ _
      rw [layerIdx_cons_mem ha]; exact Nat.zero_le _
    · refine List.Pairwise.imp_of_mem ?_ (ih h2)
      intro a b ha hb hab
      have ha' : a ∉ l := fun hx => h3 a hx a ha rfl
      have hb' : b ∉ l := fun hx => h3 b hx b hb rfl
      rw [layerIdx_cons_not_mem ha', layerIdx_cons_not_mem hb']
      omega
    · intro a ha b _
      rw [layerIdx_cons_mem ha]; exact Nat.zero_le _

/-- every predecessor of a node comes earlier in the list -/
def TopoSorted (g : Graph) (l : List Nat) : Prop :=
  ∀ done u rest, l = done ++ u :: rest → ∀ p, Edge g p u → p ∈ done

theorem LayersOK.topo {ls : List (List Nat)} (h : LayersOK g ls) : TopoSorted g ls.flatten := by
  intro done u rest hl p he
  have hu : u ∈ ls.flatten := by rw [hl]; simp
  obtain ⟨hp, hlt⟩ := h.mono u hu p he
  have hpw := flatten_pairwise_idx ls h.nodup
  rw [hl] at hp hpw
  rcases List.mem_append.mp hp with hp | hp
  · exact hp
  · exfalso
    rcases List.mem_cons.mp hp with hp | hp
    · subst hp; exact Nat.lt_irrefl _ hlt
    · have := (List.pairwise_append.mp hpw).2.1
      have := (List.pairwise_cons.mp this).1 p hp
      omega

/-! ### folding with the processed prefix in view -/

theorem foldl_prefix_inv {β : Type} (f : β → Nat → β) (Inv : List Nat → β → Prop) :
    ∀ (rest done : List Nat) (s : β), Inv done s →
      (∀ d x r s, done ++ rest = d ++ x :: r → Inv d s → Inv (d ++ [x]) (f s x)) →
      Inv (done ++ rest) (rest.foldl f s) := by
  intro rest
  induction rest with
  | nil => intro done s h _; simpa using h
  | cons x r ih =>
    intro done s h hstep
    have h1 := hstep done x r s rfl h
    have := ih (done ++ [x]) (f s x) h1 (by
      intro d y r' s' heq
      apply hstep d y r' s'
      simpa [List.append_assoc] using heq)
    simpa [List.append_assoc] using this

/-! ### reachability: splitting off the last edge -/

theorem Reach.last {u v : Nat} (h : Reach g u v) : ∃ p, (u = p ∨ Reach g u p) ∧ Edge g p v := by
  induction h with
  | single he => exact ⟨_, Or.inl rfl, he⟩
  | head he _ ih =>
    obtain ⟨p, hp, hpe⟩ := ih
    refine ⟨p, Or.inr ?_, hpe⟩
    rcases hp with hp | hp
    · subst hp; exact .single he
    · exact .head he hp

theorem reach_of_last {u p v : Nat} (h : u = p ∨ Reach g u p) (he : Edge g p v) : Reach g u v := by
  rcases h with h | h
  · subst h; exact .single he
  · exact h.tail he

theorem Reach.dst_mem (hc : Closed g) {u v : Nat} (h : Reach g u v) : v ∈ nodes g := by
  obtain ⟨p, _, he⟩ := h.last
  exact hc p v he

/-! ### buildAlls -/

theorem mem_union {a b : List Nat} {x : Nat} : x ∈ union a b ↔ x ∈ a ∨ x ∈ b := by
  unfold union
  simp only [List.mem_append, List.mem_filter, decide_eq_true_eq]
  constructor
  · rintro (h | h)
    · exact Or.inl h
    · exact Or.inr h.1
  · rintro (h | h)
    · exact Or.inl h
    · by_cases hx : x ∈ a
      · exact Or.inl hx
      · exact Or.inr ⟨h, hx⟩

/-- `w` reaches `x` by a path whose last edge leaves a node of `done` -/
def Via (g : Graph) (done : List Nat) (w x : Nat) : Prop :=
  ∃ u ∈ done, (w = u ∨ Reach g w u) ∧ Edge g u x

structure AllsInv (g : Graph) (done : List Nat) (A : Alls) : Prop where
  ins : ∀ x ∈ nodes g, ∀ w, w ∈ A.ins.get x ↔ Via g done w x
  outs : ∀ w ∈ nodes g, ∀ x, x ∈ A.outs.get w ↔ Via g done w x
  ins_nil : ∀ x, x ∉ nodes g → A.ins.get x = []
  outs_nil : ∀ w, w ∉ nodes g → A.outs.get w = []

theorem via_append_single {done : List Nat} {u w x : Nat} :
    Via g (done ++ [u]) w x ↔ Via g done w x ∨ ((w = u ∨ Reach g w u) ∧ Edge g u x) := by
  unfold Via
  constructor
  · rintro ⟨p, hp, h⟩
    rcases List.mem_append.mp hp with hp | hp
    · exact Or.inl ⟨p, hp, h⟩
    · simp only [List.mem_singleton] at hp
      subst hp
      exact Or.inr h
  · rintro (⟨p, hp, h⟩ | h)
    · exact ⟨p, List.mem_append.mpr (Or.inl hp), h⟩
    · exact ⟨u, by simp, h⟩

theorem allsStep_inv {done : List Nat} {A : Alls} {u : Nat} (hI : AllsInv g done A)
    (hu : u ∈ nodes g) (hpred : ∀ p, Edge g p u → p ∈ done) :
    AllsInv g (done ++ [u]) (allsStep g A u) := by
  have hup : ∀ w, w ∈ u :: A.ins.get u ↔ (w = u ∨ Reach g w u) := by
    intro w
    rw [List.mem_cons, hI.ins u hu w]
    constructor
    · rintro (h | ⟨p, _, hp, he⟩)
      · exact Or.inl h
      · exact Or.inr (reach_of_last hp he)
    · rintro (h | h)
      · exact Or.inl h
      · obtain ⟨p, hp, he⟩ := h.last
        exact Or.inr ⟨p, hpred p he, hp, he⟩
  constructor
  · intro x hx w
    unfold allsStep
    simp only
    rw [get_tab_mem _ hx, via_append_single]
    by_cases hxo : x ∈ succs g u
    · rw [if_pos hxo, mem_union, hI.ins x hx w, hup w]
      have : Edge g u x := mem_succs.mp hxo
      constructor
      · rintro (h | h)
        · exact Or.inl h
        · exact Or.inr ⟨h, this⟩
      · rintro (h | h)
        · exact Or.inl h
        · exact Or.inr h.1
    · rw [if_neg hxo, hI.ins x hx w]
      have : ¬ Edge g u x := fun he => hxo (mem_succs.mpr he)
      constructor
      · exact Or.inl
      · rintro (h | h)
        · exact h
        · exact absurd h.2 this
  · intro w hw x
    unfold allsStep
    simp only
    rw [get_tab_mem _ hw, via_append_single]
    by_cases hwu : w ∈ u :: A.ins.get u
    · rw [if_pos hwu, mem_union, hI.outs w hw x, mem_succs]
      have := (hup w).mp hwu
      constructor
      · rintro (h | h)
        · exact Or.inl h
        · exact Or.inr ⟨this, h⟩
      · rintro (h | h)
        · exact Or.inl h
        · exact Or.inr h.2
    · rw [if_neg hwu, hI.outs w hw x]
      have : ¬ (w = u ∨ Reach g w u) := fun h => hwu ((hup w).mpr h)
      constructor
      · exact Or.inl
      · rintro (h | h)
        · exact h
        · exact absurd h.1 this
  · intro x hx
    unfold allsStep
    simp only
    rw [get_tab]; simp [hx]; rfl
  · intro w hw
    unfold allsStep
    simp only
    rw [get_tab]; simp [hw]; rfl

theorem allsInit_inv : AllsInv g [] (allsInit g) := by
  constructor
  · intro x hx w
    simp [allsInit, get_tab_mem _ hx, Via]
  · intro w hw x
    simp [allsInit, get_tab_mem _ hw, Via]
  · intro x hx
    simp [allsInit, get_tab, hx]; rfl
  · intro w hw
    simp [allsInit, get_tab, hw]; rfl

theorem buildAlls_inv {l : List Nat} (hsub : ∀ v ∈ l, v ∈ nodes g) (ht : TopoSorted g l) :
    AllsInv g l (l.foldl (allsStep g) (allsInit g)) := by
  have := foldl_prefix_inv (allsStep g) (AllsInv g) l [] (allsInit g) allsInit_inv (by
    intro d x r s heq hI
    simp only [List.nil_append] at heq
    apply allsStep_inv hI
    · apply hsub; rw [heq]; simp
    · exact ht d x r heq)
  simpa using this

/-- after the whole order has been walked: exactly reachability -/
theorem via_all_iff {l : List Nat} (hall : ∀ v ∈ nodes g, v ∈ l) {w x : Nat} :
    Via g l w x ↔ Reach g w x := by
  constructor
  · rintro ⟨u, _, hp, he⟩
    exact reach_of_last hp he
  · intro h
    obtain ⟨p, hp, he⟩ := h.last
    exact ⟨p, hall p (edge_src_mem he), hp, he⟩

/-- what `NewMap` returns -/
theorem newMap_ok_iff {m : Map} :
    newMap g = .ok m ↔ ∃ ls, checkDAG g = .ok ls ∧ m = mkMap g ls := by
  unfold newMap
  cases h : checkDAG g with
  | ok ls =>
    simp only [NewMapRes.ok.injEq]
    constructor
    · intro hm; exact ⟨ls, rfl, hm.symm⟩
    · rintro ⟨ls', h1, h2⟩
      cases h1; exact h2.symm
  | missing => simp
  | circle k => simp
  | panicNoCircle => simp
  | outOfFuel => simp

/-- the facts every accepted graph comes with -/
structure Accepted (g : Graph) (ls : List (List Nat)) : Prop where
  closed : Closed g
  acyclic : Acyclic g
  ok : LayersOK g ls
  all : ∀ v ∈ nodes g, v ∈ ls.flatten
  alls : AllsInv g ls.flatten (buildAlls g ls)

theorem accepted_of_check (hn : (nodes g).Nodup) {ls : List (List Nat)} (h : checkDAG g = .ok ls) :
    Accepted g ls := by
  obtain ⟨hm, hl, hleft⟩ := checkDAG_ok_iff.mp h
  have hok := layersOf_ok hn hl
  have hall := leftOf_nil_iff.mp hleft
  refine ⟨missing_false_iff.mp hm, ?_, hok, hall, buildAlls_inv hok.sub hok.topo⟩
  intro v hr
  exact Nat.lt_irrefl _ (hok.reach_lt hr (hall v hr.src_mem)).2

theorem Accepted.allOuts_iff {ls : List (List Nat)} (h : Accepted g ls) (u v : Nat) :
    v ∈ (buildAlls g ls).outs.get u ↔ Reach g u v := by
  by_cases hu : u ∈ nodes g
  · rw [h.alls.outs u hu v, via_all_iff h.all]
  · rw [h.alls.outs_nil u hu]
    simp only [List.not_mem_nil, false_iff]
    exact fun hr => hu hr.src_mem

theorem Accepted.allIns_iff {ls : List (List Nat)} (h : Accepted g ls) (u v : Nat) :
    u ∈ (buildAlls g ls).ins.get v ↔ Reach g u v := by
  by_cases hv : v ∈ nodes g
  · rw [h.alls.ins v hv u, via_all_iff h.all]
  · rw [h.alls.ins_nil v hv]
    simp only [List.not_mem_nil, false_iff]
    exact fun hr => hv (hr.dst_mem h.closed)

/-- `isCrit` on the finished closure: no node strictly between -/
theorem Accepted.isCrit_iff {ls : List (List Nat)} (h : Accepted g ls) (u v : Nat) :
    isCrit (buildAlls g ls) u v = true ↔
      ¬ ∃ w, w ≠ u ∧ w ≠ v ∧ Reach g u w ∧ Reach g w v := by
  unfold isCrit
  simp only [List.all_eq_true, Bool.or_eq_true, decide_eq_true_eq]
  constructor
  · intro hall
    rintro ⟨w, _, hwv, h1, h2⟩
    rcases hall w ((h.allOuts_iff u w).mpr h1) with hx | hx
    · exact hwv hx
    · exact hx ((h.allOuts_iff w v).mpr h2)
  · intro hno via hvia
    have h1 := (h.allOuts_iff u via).mp hvia
    by_cases hv : via = v
    · exact Or.inl hv
    · right
      intro h2
      have h2' := (h.allOuts_iff via v).mp h2
      refine hno ⟨via, ?_, hv, h1, h2'⟩
      intro hvu
      subst hvu
      exact h.acyclic _ h1

end PubModel.C19
