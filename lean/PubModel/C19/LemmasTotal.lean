/-
C19 — totality: on an accepted graph `pushTight` never panics ("pushing to
hard") and its recursions end; `findY` always finds a free slot.
-/
import PubModel.C19.LemmasLayout2

namespace PubModel.C19

/-! ### findY -/

theorem findY_none (tak : List Int) (yavg : Int) :
    ∀ (f off : Nat), findY tak yavg f off = none → ∀ k, k < f → yavg + ((off + k : Nat) : Int) ∈ tak := by
  intro f
  induction f with
  | zero => intro off _ k hk; omega
  | succ f ih =>
    intro off h k hk
    unfold findY at h
    by_cases h1 : yavg + (off : Int) ∉ tak
    · rw [if_pos h1] at h; cases h
    · rw [if_neg h1] at h
      by_cases h2 : yavg - (off : Int) ∉ tak
      · rw [if_pos h2] at h; cases h
      · rw [if_neg h2] at h
        cases k with
        | zero => simpa using h1
        | succ k =>
          have := ih (off + 1) h k (by omega)
          have e : off + 1 + k = off + (k + 1) := by omega
          rw [e] at this
          exact this

theorem findY_isSome (tak : List Int) (yavg : Int) :
    (findY tak yavg (tak.length + 1) 0).isSome := by
  cases h : findY tak yavg (tak.length + 1) 0 with
  | some y => rfl
  | none =>
    exfalso
    have hall := findY_none tak yavg _ _ h
    have hnd : ((List.range (tak.length + 1)).map fun k => yavg + ((k : Nat) : Int)).Nodup := by
      apply List.Pairwise.map _ _ List.nodup_range
      intro a b hab e
      apply hab
      omega
    have hsub : ((List.range (tak.length + 1)).map fun k => yavg + ((k : Nat) : Int)) ⊆ tak := by
      intro x hx
      obtain ⟨k, hk, rfl⟩ := List.mem_map.mp hx
      have := hall k (List.mem_range.mp hk)
      simpa using this
    have := List.Nodup.length_le_of_subset hnd hsub
    simp at this
    omega

theorem place_isSome (M : Map) (L : Tbl Nat) (st : LSt) (n : Nat) : (place M L st n).isSome := by
  unfold place
  simp only
  have := findY_isSome (st.taken.get (L.get n)) (avgCritInY M st.y n)
  cases h : findY (st.taken.get (L.get n)) (avgCritInY M st.y n) ((st.taken.get (L.get n)).length + 1) 0 with
  | none => rw [h] at this; simp at this
  | some y => simp

theorem placeAll_isSome (M : Map) (L : Tbl Nat) : ∀ (l : List Nat) (st : LSt), (placeAll M L l st).isSome := by
  intro l
  induction l with
  | nil => intro st; rfl
  | cons n l ih =>
    intro st
    unfold placeAll
    have := place_isSome M L st n
    cases h : place M L st n with
    | none => rw [h] at this; simp at this
    | some st' => exact ih st'

/-! ### checkPush / pushNode -/

theorem checkOuts_isSome {rec : Nat → Option (Bool × Bool)} {L : Tbl Nat} {ln : Nat} :
    ∀ (outs : List Nat) (w : Bool), (∀ a ∈ outs, ¬ L.get a > ln + 1 → (rec a).isSome) →
      (checkOuts rec L ln outs w).isSome := by
  intro outs
  induction outs with
  | nil => intro w _; rfl
  | cons a outs ih =>
    intro w h
    unfold checkOuts
    by_cases hfar : L.get a > ln + 1
    · rw [if_pos hfar]
      exact ih _ (fun b hb => h b (List.mem_cons.mpr (Or.inr hb)))
    · rw [if_neg hfar]
      have := h a (by simp) hfar
      cases hr : rec a with
      | none => rw [hr] at this; simp at this
      | some aw =>
        obtain ⟨able, sw⟩ := aw
        simp only
        cases able with
        | false => simp
        | true =>
          simp only [Bool.true_eq_false, if_false]
          exact ih _ (fun b hb => h b (List.mem_cons.mpr (Or.inr hb)))

/-- the result of the loop is `(false, false)` or `(true, _)`, and `(true, _)` means
    every close successor was able -/
theorem checkOuts_able {rec : Nat → Option (Bool × Bool)} {L : Tbl Nat} {ln : Nat} :
    ∀ (outs : List Nat) (w0 : Bool) (a w : Bool), checkOuts rec L ln outs w0 = some (a, w) →
      (a = false → w = false) ∧
      (a = true → ∀ x ∈ outs, ¬ L.get x > ln + 1 → ∃ w', rec x = some (true, w')) := by
  intro outs
  induction outs with
  | nil =>
    intro w0 a w h
    simp only [checkOuts, Option.some.injEq, Prod.mk.injEq] at h
    obtain ⟨h1, h2⟩ := h
    subst h1
    constructor
    · intro h; cases h
    · intro _ x hx; simp at hx
  | cons b outs ih =>
    intro w0 a w h
    unfold checkOuts at h
    by_cases hfar : L.get b > ln + 1
    · rw [if_pos hfar] at h
      obtain ⟨h1, h2⟩ := ih _ _ _ h
      refine ⟨h1, fun ha x hx hx' => ?_⟩
      rcases List.mem_cons.mp hx with hx | hx
      · subst hx; exact absurd hfar hx'
      · exact h2 ha x hx hx'
    · rw [if_neg hfar] at h
      cases hr : rec b with
      | none => simp [hr] at h
      | some aw =>
        obtain ⟨able, sw⟩ := aw
        simp only [hr] at h
        cases able with
        | false =>
          simp only [if_true, Option.some.injEq, Prod.mk.injEq] at h
          obtain ⟨rfl, rfl⟩ := h
          exact ⟨fun _ => rfl, fun h => by cases h⟩
        | true =>
          simp only [Bool.true_eq_false, if_false] at h
          obtain ⟨h1, h2⟩ := ih _ _ _ h
          refine ⟨h1, fun ha x hx hx' => ?_⟩
          rcases List.mem_cons.mp hx with hx | hx
          · subst hx; exact ⟨sw, hr⟩
          · exact h2 ha x hx hx'

theorem collect_isSome {rec : Nat → Option (List Nat)} :
    ∀ (l : List Nat), (∀ a ∈ l, (rec a).isSome) → (collect rec l).isSome := by
  intro l
  induction l with
  | nil => intro _; rfl
  | cons a l ih =>
    intro h
    unfold collect
    have h1 := h a (by simp)
    have h2 := ih (fun b hb => h b (List.mem_cons.mpr (Or.inr hb)))
    cases hr : rec a with
    | none => rw [hr] at h1; simp at h1
    | some x =>
      cases hc : collect rec l with
      | none => rw [hc] at h2; simp at h2
      | some y => rfl

section
variable {M : Map} {L : Tbl Nat}

/-- a close critical successor lies exactly one layer up and is a node -/
theorem closeOuts_layer (hcrit : ∀ u v, v ∈ M.critOuts.get u → u ∈ M.nodes ∧ v ∈ M.nodes)
    (hI : PInv M L) {x y : Nat} (h : y ∈ closeOuts M L x) :
    L.get y = L.get x + 1 ∧ y ∈ M.nodes := by
  obtain ⟨h1, h2⟩ := mem_closeOuts.mp h
  have := hI.crit x y h1
  exact ⟨by omega, (hcrit x y h1).2⟩

theorem checkPush_isSome (hcrit : ∀ u v, v ∈ M.critOuts.get u → u ∈ M.nodes ∧ v ∈ M.nodes)
    (hI : PInv M L) : ∀ (f node : Nat), node ∈ M.nodes → M.nlayer ≤ f + L.get node →
      (checkPush M L f node).isSome := by
  intro f
  induction f with
  | zero =>
    intro node hn hf
    have := hI.range node hn
    omega
  | succ f ih =>
    intro node hn hf
    unfold checkPush
    by_cases htop : L.get node + 1 = M.nlayer
    · rw [if_pos htop]; rfl
    · rw [if_neg htop]
      apply checkOuts_isSome
      intro a ha hclose
      have hmem : a ∈ closeOuts M L node := mem_closeOuts.mpr ⟨ha, hclose⟩
      obtain ⟨hl, han⟩ := closeOuts_layer hcrit hI hmem
      exact ih a han (by omega)

theorem pushNode_isSome (hcrit : ∀ u v, v ∈ M.critOuts.get u → u ∈ M.nodes ∧ v ∈ M.nodes)
    (hI : PInv M L) : ∀ (f node : Nat), node ∈ M.nodes → M.nlayer ≤ f + L.get node →
      (pushNode M L f node).isSome := by
  intro f
  induction f with
  | zero =>
    intro node hn hf
    have := hI.range node hn
    omega
  | succ f ih =>
    intro node hn hf
    unfold pushNode
    rw [Option.isSome_map]
    apply collect_isSome
    intro a ha
    obtain ⟨hl, han⟩ := closeOuts_layer hcrit hI ha
    exact ih a han (by omega)

/-- everything `pushNode` collects was found able by `checkPush`, hence is below the top layer -/
theorem pushed_not_top : ∀ (f node : Nat) (w : Bool) (S : List Nat),
    checkPush M L f node = some (true, w) → pushNode M L f node = some S →
    ∀ p ∈ S, L.get p + 1 ≠ M.nlayer := by
  intro f
  induction f with
  | zero => intro node w S h; simp [checkPush] at h
  | succ f ih =>
    intro node w S hc hp p hpS
    unfold checkPush at hc
    by_cases htop : L.get node + 1 = M.nlayer
    · rw [if_pos htop] at hc; simp at hc
    · rw [if_neg htop] at hc
      obtain ⟨_, hable⟩ := checkOuts_able _ _ _ _ hc
      unfold pushNode at hp
      cases hcol : collect (pushNode M L f) (closeOuts M L node) with
      | none => simp [hcol] at hp
      | some R =>
        simp only [hcol, Option.map_some, Option.some.injEq] at hp
        subst hp
        obtain ⟨_, h2⟩ := collect_some hcol
        rcases List.mem_append.mp hpS with hpR | hpn
        · obtain ⟨a, ha, Sa, hSa, hpSa⟩ := h2 p hpR
          obtain ⟨ha1, ha2⟩ := mem_closeOuts.mp ha
          obtain ⟨w', hw'⟩ := hable rfl a ha1 ha2
          exact ih a w' Sa hw' hSa p hpSa
        · simp only [List.mem_singleton] at hpn
          subst hpn
          exact htop

theorem checkPush_worthy_able : ∀ (f node : Nat) (a : Bool), checkPush M L f node = some (a, true) → a = true := by
  intro f node a h
  cases f with
  | zero => simp [checkPush] at h
  | succ f =>
    unfold checkPush at h
    by_cases htop : L.get node + 1 = M.nlayer
    · rw [if_pos htop] at h; simp at h
    · rw [if_neg htop] at h
      obtain ⟨h1, _⟩ := checkOuts_able _ _ _ _ h
      cases a with
      | true => rfl
      | false => have := h1 rfl; cases this

end

/-- the `for pushWorthy` loop ends without panic and keeps the invariant -/
theorem pushLoop_ok {M : Map} (hcrit : ∀ u v, v ∈ M.critOuts.get u → u ∈ M.nodes ∧ v ∈ M.nodes)
    {node : Nat} (hn : node ∈ M.nodes) :
    ∀ (f : Nat) (L : Tbl Nat), PInv M L → M.nlayer < f + L.get node →
      ∃ L', pushLoop M f L node = .ok L' ∧ PInv M L' := by
  intro f
  induction f with
  | zero =>
    intro L hI hf
    have := hI.range node hn
    omega
  | succ f ih =>
    intro L hI hf
    unfold pushLoop
    have hcs := checkPush_isSome hcrit hI (M.nlayer + 1) node hn (by omega)
    cases hc : checkPush M L (M.nlayer + 1) node with
    | none => rw [hc] at hcs; simp at hcs
    | some aw =>
      obtain ⟨able, worthy⟩ := aw
      cases worthy with
      | false => exact ⟨L, rfl, hI⟩
      | true =>
        have hab : able = true := checkPush_worthy_able _ _ _ hc
        subst hab
        simp only
        have hps := pushNode_isSome hcrit hI (M.nlayer + 1) node hn (by omega)
        cases hp : pushNode M L (M.nlayer + 1) node with
        | none => rw [hp] at hps; simp at hps
        | some pushed =>
          simp only
          have hclosed := pushNode_closed M L _ _ _ hp
          -- every pushed node is a node of the map, below the top layer
          have hsubn : ∀ p ∈ pushed, p ∈ M.nodes := by
            -- nodes reached along close critical edges from `node`
            have : ∀ (f' x : Nat) (S : List Nat), x ∈ M.nodes → pushNode M L f' x = some S →
                ∀ p ∈ S, p ∈ M.nodes := by
              intro f'
              induction f' with
              | zero => intro x S _ h; simp [pushNode] at h
              | succ f' ih' =>
                intro x S hx h p hpS
                unfold pushNode at h
                cases hcol : collect (pushNode M L f') (closeOuts M L x) with
                | none => simp [hcol] at h
                | some R =>
                  simp only [hcol, Option.map_some, Option.some.injEq] at h
                  subst h
                  obtain ⟨_, h2⟩ := collect_some hcol
                  rcases List.mem_append.mp hpS with hpR | hpn
                  · obtain ⟨a, ha, Sa, hSa, hpSa⟩ := h2 p hpR
                    exact ih' a Sa (closeOuts_layer hcrit hI ha).2 hSa p hpSa
                  · simp only [List.mem_singleton] at hpn
                    subst hpn; exact hx
            exact this _ node pushed hn hp
          have hroom : ∀ p ∈ pushed, L.get p + 1 < M.nlayer := by
            intro p hpp
            have h1 := pushed_not_top _ _ _ _ hc hp p hpp
            have h2 := hI.range p (hsubn p hpp)
            omega
          have hany : (pushed.any fun p => decide (L.get p + 1 ≥ M.nlayer)) = false := by
            rw [Bool.eq_false_iff]
            intro h
            rw [List.any_eq_true] at h
            obtain ⟨p, hpp, hd⟩ := h
            have := hroom p hpp
            simp only [decide_eq_true_eq] at hd
            omega
          rw [hany]
          simp only [Bool.false_eq_true, if_false]
          have hI' := push_step_inv hcrit hI hclosed.2 hroom
          apply ih _ hI'
          rw [get_tab_mem _ hn]
          simp only [hclosed.1, if_true]
          omega

theorem pushTight_ok {M : Map} (hcrit : ∀ u v, v ∈ M.critOuts.get u → u ∈ M.nodes ∧ v ∈ M.nodes)
    (h0 : PInv M M.layer) : ∃ L, pushTight M = .ok L ∧ PInv M L := by
  unfold pushTight
  have key : ∀ (l : List Nat) (L0 : Tbl Nat), (∀ x ∈ l, x ∈ M.nodes) → PInv M L0 →
      ∃ L, l.foldl (fun (r : Res (Tbl Nat)) node => r.bind fun L => pushLoop M (M.nlayer + 1) L node)
          (Res.ok L0) = Res.ok L ∧ PInv M L := by
    intro l
    induction l with
    | nil => intro L0 _ hI; exact ⟨L0, rfl, hI⟩
    | cons a l ih =>
      intro L0 hsub hI
      simp only [List.foldl_cons, Res.bind]
      obtain ⟨L1, h1, hI1⟩ := pushLoop_ok hcrit (hsub a (by simp)) (M.nlayer + 1) L0 hI (by omega)
      rw [h1]
      exact ih L1 (fun x hx => hsub x (List.mem_cons.mpr (Or.inr hx))) hI1
  apply key _ _ _ h0
  intro x hx
  rw [List.mem_reverse] at hx
  exact mem_isort.mp hx

/-- **`LayoutMap` never panics and always returns a view on an accepted graph** -/
theorem Accepted.layout_total {g : Graph} {ls : List (List Nat)} (h : Accepted g ls) :
    ∃ m' v, layoutMap (mkMap g ls) = .ok (m', v) := by
  have hcrit : ∀ a b, b ∈ (mkMap g ls).critOuts.get a →
      a ∈ (mkMap g ls).nodes ∧ b ∈ (mkMap g ls).nodes := by
    intro a b hab
    have he := ((h.critOuts_iff a b).mp hab).1
    exact ⟨edge_src_mem he, h.closed a b he⟩
  obtain ⟨L, hL, _⟩ := pushTight_ok hcrit h.pinv0
  unfold layoutMap
  rw [hL]
  simp only
  have := placeAll_isSome (mkMap g ls) L (sortedLayers (mkMap g ls) L).flatten ⟨[], [], 0⟩
  cases hp : placeAll (mkMap g ls) L (sortedLayers (mkMap g ls) L).flatten ⟨[], [], 0⟩ with
  | none => rw [hp] at this; simp at this
  | some st => exact ⟨_, _, rfl⟩

end PubModel.C19
