/-
C19 — model of /repo/dags, part 2: `NewMap` = `initMap`, `makeLayers`,
`buildAlls`, `buildCrits` (map.go).

`buildAlls` walks the layers in order; processing a node `u` adds `u` and
everything in `u.AllIns` to the `AllIns` of every direct successor, and adds
every direct successor to the `AllOuts` of `u` and of everything in `u.AllIns`.
On an accepted graph `u` is never its own successor or ancestor, so the nested
Go loops (which mutate maps of *other* nodes only) are this set-level step, in
whatever order the maps are traversed.
-/
import PubModel.C19.Model

namespace PubModel.C19

/-- `a ∪ b` for duplicate-free lists -/
def union (a b : List Nat) : List Nat := a ++ b.filter fun x => decide (x ∉ a)

structure Alls where
  ins : Tbl (List Nat)     -- AllIns
  outs : Tbl (List Nat)    -- AllOuts

def allsInit (g : Graph) : Alls := ⟨tab (nodes g) fun _ => [], tab (nodes g) fun _ => []⟩

/-- the body of `for _, node := range layer` for `node = u` -/
def allsStep (g : Graph) (A : Alls) (u : Nat) : Alls :=
  let up := u :: A.ins.get u
  let os := succs g u
  { ins := tab (nodes g) fun x => if x ∈ os then union (A.ins.get x) up else A.ins.get x
    outs := tab (nodes g) fun w => if w ∈ up then union (A.outs.get w) os else A.outs.get w }

def buildAlls (g : Graph) (layers : List (List Nat)) : Alls :=
  layers.flatten.foldl (allsStep g) (allsInit g)

/-- `isCrit(from, to)` -/
def isCrit (A : Alls) (u v : Nat) : Bool :=
  (A.outs.get u).all fun via => decide (via = v) || decide (v ∉ A.outs.get via)

/-- the fields of `Map` and of its `MapNode`s after `NewMap` -/
structure Map where
  nodes : List Nat
  ins : Tbl (List Nat)
  outs : Tbl (List Nat)
  allIns : Tbl (List Nat)
  allOuts : Tbl (List Nat)
  critIns : Tbl (List Nat)
  critOuts : Tbl (List Nat)
  layer : Tbl Nat
  nedge : Nat
  ncrit : Nat
  nlayer : Nat

def critOutsOf (g : Graph) (A : Alls) (u : Nat) : List Nat := (succs g u).filter (isCrit A u)
def critInsOf (g : Graph) (A : Alls) (v : Nat) : List Nat := (preds g v).filter fun u => isCrit A u v

def mkMap (g : Graph) (layers : List (List Nat)) : Map :=
  let A := buildAlls g layers
  let ns := nodes g
  { nodes := ns
    ins := tab ns (preds g)
    outs := tab ns (succs g)
    allIns := A.ins
    allOuts := A.outs
    critIns := tab ns (critInsOf g A)
    critOuts := tab ns (critOutsOf g A)
    layer := tab ns (layerIdx layers)
    nedge := nedge g
    ncrit := (ns.map fun u => (critOutsOf g A u).length).sum
    nlayer := layers.length }

inductive NewMapRes where
  | ok (m : Map)
  | missing
  | circle (len : Nat)
  | panicNoCircle
  | outOfFuel

def newMap (g : Graph) : NewMapRes :=
  match checkDAG g with
  | .ok layers => .ok (mkMap g layers)
  | .missing => .missing
  | .circle k => .circle k
  | .panicNoCircle => .panicNoCircle
  | .outOfFuel => .outOfFuel

end PubModel.C19
