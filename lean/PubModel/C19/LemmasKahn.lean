/-
C19 — `makeLayers`: the invariant of Kahn's loop with hit counters and what it
gives for the returned layers.
-/
import PubModel.C19.Lemmas
import PubModel.C19.Spec

namespace PubModel.C19

theorem hasEdge_iff {g : Graph} {u v : Nat} : hasEdge g u v = true ↔ Edge g u v := by
  simp [hasEdge, Edge]

theorem outs_nil_of_not_mem {g : Graph} {u : Nat} (h : u ∉ nodes g) : outs g u = [] := by
  induction g with
  | nil => rfl
  | cons p g ih =>
    obtain ⟨a, l⟩ := p
    simp only [nodes, List.map_cons, List.mem_cons, not_or] at h
    have h1 : (u == a) = false := by simpa using h.1
    have := ih h.2
    simp only [outs, List.lookup_cons, h1] at this ⊢
    exact this

theorem edge_src_mem {g : Graph} {u v : Nat} (h : Edge g u v) : u ∈ nodes g := by
  refine Classical.byContradiction fun hu => ?_
  have := outs_nil_of_not_mem hu
  simp [Edge, this] at h

theorem mem_preds {g : Graph} {u v : Nat} : u ∈ preds g v ↔ Edge g u v := by
  simp only [preds, List.mem_filter, hasEdge_iff]
  exact ⟨fun h => h.2, fun h => ⟨edge_src_mem h, h⟩⟩

theorem mem_succs {g : Graph} {u v : Nat} : v ∈ succs g u ↔ Edge g u v := by
  simp [succs, mem_dedup, Edge]

theorem nodup_preds {g : Graph} (hn : (nodes g).Nodup) (v : Nat) : (preds g v).Nodup :=
  List.Nodup.sublist List.filter_sublist hn

/-- number of predecessors of `v` inside `P` -/
def cnt (g : Graph) (P : List Nat) (v : Nat) : Nat :=
  ((preds g v).filter fun u => decide (u ∈ P)).length

theorem cnt_le (g : Graph) (P : List Nat) (v : Nat) : cnt g P v ≤ (preds g v).length :=
  List.length_filter_le _ _

theorem cnt_eq_iff {g : Graph} {P : List Nat} {v : Nat} :
    cnt g P v = (preds g v).length ↔ ∀ u ∈ preds g v, u ∈ P := by
  simp [cnt, List.length_filter_eq_length_iff]

theorem filter_mem_append_length (l A B : List Nat) (h : ∀ x ∈ A, x ∉ B) :
    (l.filter fun u => decide (u ∈ A ++ B)).length =
      (l.filter fun u => decide (u ∈ A)).length + (l.filter fun u => decide (u ∈ B)).length := by
  induction l with
  | nil => simp
  | cons a l ih =>
    simp only [List.filter_cons, List.mem_append]
    by_cases hA : a ∈ A
    · have hB : a ∉ B := h a hA
      simp only [hA, hB, true_or, decide_true, if_true, decide_false, List.length_cons]
      simp only [List.mem_append] at ih
      simp at ih ⊢
      omega
    · by_cases hB : a ∈ B
      · simp only [hA, hB, or_true, decide_true, if_true, decide_false, List.length_cons]
        simp only [List.mem_append] at ih
        simp at ih ⊢
        omega
      · simp only [hA, hB, or_self, decide_false]
        simp only [List.mem_append] at ih
        simpa using ih

theorem cnt_append {g : Graph} {P C : List Nat} (h : ∀ x ∈ P, x ∉ C) (v : Nat) :
    cnt g (P ++ C) v = cnt g P v + cnt g C v :=
  filter_mem_append_length _ _ _ h

/-- two duplicate-free lists: counting the members of one inside the other is symmetric -/
theorem filter_mem_length_comm {A B : List Nat} (hA : A.Nodup) (hB : B.Nodup) :
    (A.filter fun u => decide (u ∈ B)).length = (B.filter fun u => decide (u ∈ A)).length := by
  apply Nat.le_antisymm
  · apply List.Nodup.length_le_of_subset (List.Nodup.sublist List.filter_sublist hA)
    intro x hx
    simp only [List.mem_filter, decide_eq_true_eq] at hx ⊢
    exact ⟨hx.2, hx.1⟩
  · apply List.Nodup.length_le_of_subset (List.Nodup.sublist List.filter_sublist hB)
    intro x hx
    simp only [List.mem_filter, decide_eq_true_eq] at hx ⊢
    exact ⟨hx.2, hx.1⟩

theorem hits_eq_cnt {g : Graph} (hn : (nodes g).Nodup) {cur : List Nat} (hc : cur.Nodup) (v : Nat) :
    hits g cur v = cnt g cur v := by
  unfold hits cnt
  rw [filter_mem_length_comm (nodup_preds hn v) hc]
  congr 1
  apply List.filter_congr
  intro u _
  have : (decide (u ∈ preds g v)) = hasEdge g u v := by
    by_cases h : hasEdge g u v = true
    · rw [h]; simpa using mem_preds.mpr (hasEdge_iff.mp h)
    · have h' : ¬ u ∈ preds g v := fun hm => h (hasEdge_iff.mpr (mem_preds.mp hm))
      simp only [Bool.not_eq_true] at h
      rw [h]; simpa using h'
  exact this.symm

/-- the invariant of the `for len(cur) > 0` loop: `P` = nodes placed so far -/
structure KInv (g : Graph) (P : List Nat) (nhit : Tbl Nat) (cur : List Nat) : Prop where
  nhit_eq : ∀ v ∈ nodes g, nhit.get v = cnt g P v
  cur_iff : ∀ v ∈ nodes g, v ∈ cur ↔ (v ∉ P ∧ ∀ u ∈ preds g v, u ∈ P)
  cur_sub : ∀ v ∈ cur, v ∈ nodes g
  P_sub : ∀ v ∈ P, v ∈ nodes g
  P_closed : ∀ v ∈ P, ∀ u ∈ preds g v, u ∈ P
  nodup : (P ++ cur).Nodup

section
variable {g : Graph} {ins : Nat → Nat}

theorem KInv.disj {P : List Nat} {nhit : Tbl Nat} {cur : List Nat} (h : KInv g P nhit cur) :
    ∀ x ∈ P, x ∉ cur := by
  intro x hx hc
  exact (List.nodup_append.mp h.nodup).2.2 x hx x hc rfl

theorem kahnNext_mem (hn : (nodes g).Nodup) (hins : ∀ v ∈ nodes g, ins v = (preds g v).length)
    {P : List Nat} {nhit : Tbl Nat} {cur : List Nat} (h : KInv g P nhit cur) (v : Nat) (hv : v ∈ nodes g) :
    v ∈ kahnNext g ins nhit (kahnNhit g nhit cur) ↔
      (v ∉ P ++ cur ∧ ∀ u ∈ preds g v, u ∈ P ++ cur) := by
  have hcn : cur.Nodup := (List.nodup_append.mp h.nodup).2.1
  have e1 : nhit.get v = cnt g P v := h.nhit_eq v hv
  have e2 : (kahnNhit g nhit cur).get v = cnt g (P ++ cur) v := by
    unfold kahnNhit
    rw [get_tab_mem _ hv, e1, hits_eq_cnt hn hcn, cnt_append h.disj]
  simp only [kahnNext, List.mem_filter, hv, true_and, Bool.and_eq_true, decide_eq_true_eq]
  rw [e1, e2, hins v hv]
  constructor
  · rintro ⟨h1, h2⟩
    have hall : ∀ u ∈ preds g v, u ∈ P ++ cur :=
      cnt_eq_iff.mp (Nat.le_antisymm (cnt_le _ _ _) h2)
    have hnot : ¬ ∀ u ∈ preds g v, u ∈ P := fun hh => by
      have := cnt_eq_iff.mpr hh
      omega
    refine ⟨?_, hall⟩
    intro hm
    rcases List.mem_append.mp hm with hm | hm
    · exact hnot (h.P_closed v hm)
    · exact hnot ((h.cur_iff v hv).mp hm).2
  · rintro ⟨h1, h2⟩
    have heq := cnt_eq_iff.mpr h2
    refine ⟨?_, by omega⟩
    have hle := cnt_le g P v
    rcases Nat.lt_or_ge (cnt g P v) (preds g v).length with hlt | hge
    · exact hlt
    · exfalso
      have hall := cnt_eq_iff.mp (Nat.le_antisymm hle hge)
      have hvP : v ∉ P := fun hm => h1 (List.mem_append.mpr (Or.inl hm))
      have : v ∈ cur := (h.cur_iff v hv).mpr ⟨hvP, hall⟩
      exact h1 (List.mem_append.mpr (Or.inr this))

theorem KInv.step (hn : (nodes g).Nodup) (hins : ∀ v ∈ nodes g, ins v = (preds g v).length)
    {P : List Nat} {nhit : Tbl Nat} {cur : List Nat} (h : KInv g P nhit cur) :
    KInv g (P ++ cur) (kahnNhit g nhit cur) (kahnNext g ins nhit (kahnNhit g nhit cur)) := by
  have hcn : cur.Nodup := (List.nodup_append.mp h.nodup).2.1
  have hsub : ∀ v ∈ kahnNext g ins nhit (kahnNhit g nhit cur), v ∈ nodes g := by
    intro v hv
    exact (List.mem_filter.mp hv).1
  refine ⟨?_, fun v hv => kahnNext_mem hn hins h v hv, hsub, ?_, ?_, ?_⟩
  · intro v hv
    unfold kahnNhit
    rw [get_tab_mem _ hv, h.nhit_eq v hv, hits_eq_cnt hn hcn, cnt_append h.disj]
  · intro v hv
    rcases List.mem_append.mp hv with hv | hv
    · exact h.P_sub v hv
    · exact h.cur_sub v hv
  · intro v hv u hu
    rcases List.mem_append.mp hv with hv | hv
    · exact List.mem_append.mpr (Or.inl (h.P_closed v hv u hu))
    · exact List.mem_append.mpr (Or.inl (((h.cur_iff v (h.cur_sub v hv)).mp hv).2 u hu))
  · rw [List.nodup_append]
    refine ⟨h.nodup, List.Nodup.sublist List.filter_sublist hn, ?_⟩
    intro a ha b hb hab
    subst hab
    exact ((kahnNext_mem hn hins h a (hsub a hb)).mp hb).1 ha

theorem layerIdx_cons_mem {l : List Nat} {ls : List (List Nat)} {v : Nat} (h : v ∈ l) :
    layerIdx (l :: ls) v = 0 := by simp [layerIdx, h]

theorem layerIdx_cons_not_mem {l : List Nat} {ls : List (List Nat)} {v : Nat} (h : v ∉ l) :
    layerIdx (l :: ls) v = layerIdx ls v + 1 := by simp [layerIdx, h]

/-- what the loop returns, from any state that satisfies the invariant -/
theorem kahn_spec (hn : (nodes g).Nodup) (hins : ∀ v ∈ nodes g, ins v = (preds g v).length) :
    ∀ (f : Nat) (P : List Nat) (nhit : Tbl Nat) (cur : List Nat) (ls : List (List Nat)),
      KInv g P nhit cur → kahn g ins f nhit cur = some ls →
      (∀ v ∈ ls.flatten, v ∈ nodes g) ∧
      (P ++ ls.flatten).Nodup ∧
      (∀ v ∈ ls.flatten, ∀ u, Edge g u v →
          u ∈ P ∨ (u ∈ ls.flatten ∧ layerIdx ls u < layerIdx ls v)) ∧
      (∀ v ∈ nodes g, v ∉ P → v ∉ ls.flatten → ∃ u, Edge g u v ∧ u ∉ P ∧ u ∉ ls.flatten) ∧
      (∀ l ∈ ls, l ≠ []) := by
  intro f
  induction f with
  | zero => intro P nhit cur ls _ h; simp [kahn] at h
  | succ f ih =>
    intro P nhit cur ls hI h
    unfold kahn at h
    by_cases hc : cur = []
    · simp only [hc, if_true, Option.some.injEq] at h
      subst h
      have hPn : P.Nodup := (List.nodup_append.mp hI.nodup).1
      refine ⟨by simp, by simpa using hPn, by simp, ?_, by simp⟩
      intro v hv hvP _
      have := (hI.cur_iff v hv)
      rw [hc] at this
      have hne : ¬ (v ∉ P ∧ ∀ u ∈ preds g v, u ∈ P) := fun hh => by
        have := this.mpr hh
        simp at this
      have : ∃ u, u ∈ preds g v ∧ u ∉ P := by
        refine Classical.byContradiction fun hno => hne ⟨hvP, fun u hu => ?_⟩
        refine Classical.byContradiction fun huP => hno ⟨u, hu, huP⟩
      obtain ⟨u, hu, huP⟩ := this
      exact ⟨u, mem_preds.mp hu, huP, by simp⟩
    · simp only [hc, if_false] at h
      cases hk : kahn g ins f (kahnNhit g nhit cur) (kahnNext g ins nhit (kahnNhit g nhit cur)) with
      | none => simp [hk] at h
      | some ls' =>
        simp only [hk, Option.map_some, Option.some.injEq] at h
        subst h
        obtain ⟨h1, h2, h3, h4, h5⟩ := ih _ _ _ ls' (hI.step hn hins) hk
        have hnd : (P ++ (cur ++ ls'.flatten)).Nodup := by
          simpa [List.append_assoc] using h2
        have hdisj_cur_ls : ∀ x ∈ cur, x ∉ ls'.flatten := by
          intro x hx hl
          have := (List.nodup_append.mp hnd).2.1
          exact (List.nodup_append.mp this).2.2 x hx x hl rfl
        refine ⟨?_, ?_, ?_, ?_, ?_⟩
        · intro v hv
          simp only [List.flatten_cons, List.mem_append] at hv
          rcases hv with hv | hv
          · exact hI.cur_sub v hv
          · exact h1 v hv
        · simpa using hnd
        · intro v hv u he
          simp only [List.flatten_cons, List.mem_append] at hv
          rcases hv with hv | hv
          · left
            exact ((hI.cur_iff v (hI.cur_sub v hv)).mp hv).2 u (mem_preds.mpr he)
          · have hvc : v ∉ cur := fun hx => hdisj_cur_ls v hx hv
            rcases h3 v hv u he with hu | ⟨hu, hlt⟩
            · rcases List.mem_append.mp hu with hu | hu
              · exact Or.inl hu
              · right
                refine ⟨by simp [hu], ?_⟩
                rw [layerIdx_cons_mem hu, layerIdx_cons_not_mem hvc]
                omega
            · right
              have huc : u ∉ cur := fun hx => hdisj_cur_ls u hx hu
              refine ⟨by simp [hu], ?_⟩
              rw [layerIdx_cons_not_mem huc, layerIdx_cons_not_mem hvc]
              omega
        · intro v hv hvP hvl
          simp only [List.flatten_cons, List.mem_append, not_or] at hvl
          have hvP' : v ∉ P ++ cur := by
            simp only [List.mem_append, not_or]; exact ⟨hvP, hvl.1⟩
          obtain ⟨u, he, hu1, hu2⟩ := h4 v hv hvP' hvl.2
          simp only [List.mem_append, not_or] at hu1
          exact ⟨u, he, hu1.1, by simp [hu1.2, hu2]⟩
        · intro l hl
          rcases List.mem_cons.mp hl with hl | hl
          · subst hl; exact hc
          · exact h5 l hl

/-- the loop ends within `n + 1` rounds -/
theorem kahn_fuel (hn : (nodes g).Nodup) (hins : ∀ v ∈ nodes g, ins v = (preds g v).length) :
    ∀ (f : Nat) (P : List Nat) (nhit : Tbl Nat) (cur : List Nat),
      KInv g P nhit cur → (nodes g).length < f + P.length → (kahn g ins f nhit cur).isSome := by
  intro f
  induction f with
  | zero =>
    intro P nhit cur hI hlt
    have hPn : P.Nodup := (List.nodup_append.mp hI.nodup).1
    have := List.Nodup.length_le_of_subset hPn (fun x hx => hI.P_sub x hx)
    omega
  | succ f ih =>
    intro P nhit cur hI hlt
    unfold kahn
    by_cases hc : cur = []
    · simp [hc]
    · simp only [hc, if_false, Option.isSome_map]
      apply ih _ _ _ (hI.step hn hins)
      have : 0 < cur.length := List.length_pos_iff.mpr hc
      simp only [List.length_append]
      omega

end

end PubModel.C19
