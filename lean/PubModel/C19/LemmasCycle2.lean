/-
C19 — `minCircle`: when a cycle length is reported there is a cycle that
`traceCircle` can return (every node of a level has a parent in the level
before, so the closing entry traces back to the start).
-/
import PubModel.C19.LemmasCycle

namespace PubModel.C19

variable {g : Graph}

/-- a level beyond the first is what `advance` made of the level before -/
theorem bfsFrom_succ_level (s : Nat) : ∀ (i f : Nat) (vis fr l' : List Nat),
    (bfsFrom g s f vis fr)[i + 1]? = some l' →
    ∃ l vis', (bfsFrom g s f vis fr)[i]? = some l ∧ l' = advance g s vis' l := by
  intro i
  induction i with
  | zero =>
    intro f vis fr l' h
    cases f with
    | zero => simp [bfsFrom] at h
    | succ f =>
      rw [bfsFrom] at h ⊢
      by_cases hfr : fr = []
      · simp [hfr] at h
      · simp only [hfr, if_false, List.getElem?_cons_succ, List.getElem?_cons_zero] at h ⊢
        cases f with
        | zero => simp [bfsFrom] at h
        | succ f =>
          rw [bfsFrom] at h
          by_cases hadv : advance g s vis fr = []
          · simp [hadv] at h
          · simp only [hadv, if_false, List.getElem?_cons_zero, Option.some.injEq] at h
            exact ⟨fr, vis, rfl, h.symm⟩
  | succ i ih =>
    intro f vis fr l' h
    cases f with
    | zero => simp [bfsFrom] at h
    | succ f =>
      rw [bfsFrom] at h ⊢
      by_cases hfr : fr = []
      · simp [hfr] at h
      · simp only [hfr, if_false, List.getElem?_cons_succ] at h ⊢
        exact ih f _ _ l' h

theorem lastD_append_single : ∀ (r : List Nat) (s x : Nat), lastD s (r ++ [x]) = x := by
  intro r
  induction r with
  | nil => intro s x; rfl
  | cons a r ih => intro s x; exact ih a x

theorem isWalk_append_single : ∀ (r : List Nat) (s x : Nat), IsWalk g (s :: r) → Edge g (lastD s r) x →
    IsWalk g (s :: (r ++ [x])) := by
  intro r
  induction r with
  | nil => intro s x _ he; exact ⟨he, trivial⟩
  | cons a r ih => intro s x hw he; exact ⟨hw.1, ih a x hw.2 he⟩

theorem inLevels_append_single : ∀ (c : List Nat) (Ls : List (List Nat)) (x : Nat) (l' : List Nat),
    inLevels c Ls = true → Ls[c.length]? = some l' → x ∈ l' → inLevels (c ++ [x]) Ls = true := by
  intro c
  induction c with
  | nil =>
    intro Ls x l' _ hl hx
    cases Ls with
    | nil => simp at hl
    | cons l Ls =>
      simp only [List.length_nil, List.getElem?_cons_zero, Option.some.injEq] at hl
      subst hl
      simp [inLevels, hx]
  | cons a c ih =>
    intro Ls x l' hin hl hx
    cases Ls with
    | nil => simp [inLevels] at hin
    | cons l Ls =>
      simp only [inLevels, Bool.and_eq_true, decide_eq_true_eq] at hin
      simp only [List.length_cons, List.getElem?_cons_succ] at hl
      simp only [List.cons_append, inLevels, Bool.and_eq_true, decide_eq_true_eq]
      exact ⟨hin.1, ih Ls x l' hin.2 hl hx⟩

/-- every node of level `i` ends a path of `i + 1` nodes from the start that walks
    through the levels -/
theorem level_path (s : Nat) : ∀ (i : Nat) (l : List Nat) (x : Nat),
    (levelSets g s)[i]? = some l → x ∈ l →
    ∃ r, (s :: r).length = i + 1 ∧ lastD s r = x ∧ IsWalk g (s :: r) ∧
      inLevels (s :: r) (levelSets g s) = true := by
  intro i
  induction i with
  | zero =>
    intro l x hl hx
    rw [levelSets_zero] at hl
    cases hl
    simp only [List.mem_singleton] at hx
    subst hx
    refine ⟨[], rfl, rfl, trivial, ?_⟩
    have h0 := levelSets_zero (g := g) x
    cases hL : levelSets g x with
    | nil => rw [hL] at h0; simp at h0
    | cons l0 Ls =>
      rw [hL] at h0
      simp only [List.getElem?_cons_zero, Option.some.injEq] at h0
      subst h0
      simp [inLevels]
  | succ i ih =>
    intro l' x hl' hx
    obtain ⟨l, vis', hl, hadv⟩ := bfsFrom_succ_level s i _ _ _ l' hl'
    subst hadv
    obtain ⟨⟨y, hy, he⟩, _, _⟩ := mem_advance.mp hx
    obtain ⟨r, hlen, hlast, hw, hin⟩ := ih l y hl hy
    refine ⟨r ++ [x], ?_, lastD_append_single r s x, ?_, ?_⟩
    · simp only [List.length_cons, List.length_append, List.length_nil] at hlen ⊢
      omega
    · exact isWalk_append_single r s x hw (hlast ▸ he)
    · have := inLevels_append_single (s :: r) (levelSets g s) x _ hin (by rw [hlen]; exact hl') hx
      simpa using this

theorem minOpt_mem : ∀ {l : List Nat} {m : Nat}, minOpt l = some m → m ∈ l := by
  intro l
  induction l with
  | nil => intro m h; simp [minOpt] at h
  | cons a l ih =>
    intro m h
    unfold minOpt at h
    cases hm : minOpt l with
    | none =>
      simp only [hm, Option.some.injEq] at h
      subst h; simp
    | some b =>
      simp only [hm, Option.some.injEq] at h
      by_cases hab : a ≤ b
      · simp only [hab, if_true] at h; subst h; simp
      · simp only [hab, if_false] at h; subst h
        exact List.mem_cons.mpr (Or.inr (ih hm))

theorem findIdx?_some {α : Type} (p : α → Bool) : ∀ (l : List α) (i : Nat), l.findIdx? p = some i →
    ∃ a, l[i]? = some a ∧ p a = true := by
  intro l
  induction l with
  | nil => intro i h; simp at h
  | cons b l ih =>
    intro i h
    rw [List.findIdx?_cons] at h
    by_cases hb : p b = true
    · simp only [hb, if_true, Option.some.injEq] at h
      subst h
      exact ⟨b, rfl, hb⟩
    · simp only [hb] at h
      cases hf : l.findIdx? p with
      | none => simp [hf] at h
      | some k =>
        simp only [hf, Option.map_some, Bool.false_eq_true, if_false, Option.some.injEq] at h
        subst h
        obtain ⟨a, ha, hpa⟩ := ih k hf
        exact ⟨a, by simpa using ha, hpa⟩

/-- **some cycle can be reported** whenever the search announces a length -/
theorem reportable_exists {k : Nat} (h : minCircleLen g = some k) : ∃ c, reportable g c = true := by
  have hk := minOpt_mem h
  obtain ⟨s, hs, hcl⟩ := List.mem_filterMap.mp hk
  unfold closeLevel at hcl
  cases hf : (levelSets g s).findIdx? (closing g s) with
  | none => simp [hf] at hcl
  | some i =>
    simp only [hf, Option.map_some, Option.some.injEq] at hcl
    obtain ⟨l, hl, hclose⟩ := findIdx?_some _ _ _ hf
    unfold closing at hclose
    rw [List.any_eq_true] at hclose
    obtain ⟨u, hu, hue⟩ := hclose
    obtain ⟨r, hlen, hlast, hw, hin⟩ := level_path s i l u hl hu
    refine ⟨s :: r, ?_⟩
    simp only [reportable, Bool.and_eq_true, decide_eq_true_eq]
    refine ⟨⟨⟨⟨hs, ?_⟩, isPath_iff.mpr hw⟩, hin⟩, ?_⟩
    · rw [h, hlen, hcl]
    · rw [getLastD_cons, hlast]; exact hue

theorem checkDAG_circle {g : Graph} {k : Nat} (h : checkDAG g = .circle k) :
    Closed g ∧ minCircleLen g = some k := by
  unfold checkDAG at h
  cases hm : missing g with
  | true => simp [hm] at h
  | false =>
    refine ⟨missing_false_iff.mp hm, ?_⟩
    simp only [hm, Bool.false_eq_true, if_false, makeLayers] at h
    cases hl : layersOf g with
    | none => simp [hl] at h
    | some ls =>
      simp only [hl] at h
      by_cases hleft : leftOf g ls = []
      · simp [hleft] at h
      · simp only [hleft, if_false] at h
        cases hc : minCircleLen g with
        | none => simp [hc] at h
        | some k' =>
          simp only [hc, Check.circle.injEq] at h
          rw [h]

/-! ### a closed walk with a repeated node contains a shorter one -/

theorem exists_dup_of_not_nodup : ∀ (l : List Nat), ¬ l.Nodup →
    ∃ x l1 l2 l3, l = l1 ++ x :: l2 ++ x :: l3 := by
  intro l
  induction l with
  | nil => intro h; exact absurd List.nodup_nil h
  | cons a l ih =>
    intro h
    by_cases ha : a ∈ l
    · obtain ⟨l2, l3, hl⟩ := List.append_of_mem ha
      exact ⟨a, [], l2, l3, by simp [hl]⟩
    · have : ¬ l.Nodup := fun hn => h (List.nodup_cons.mpr ⟨ha, hn⟩)
      obtain ⟨x, l1, l2, l3, hl⟩ := ih this
      exact ⟨x, a :: l1, l2, l3, by simp [hl]⟩

theorem isWalk_prefix : ∀ (l2 : List Nat) (x y : Nat) (l3 : List Nat), IsWalk g (x :: l2 ++ y :: l3) →
    IsWalk g (x :: l2) ∧ Edge g (lastD x l2) y := by
  intro l2
  induction l2 with
  | nil => intro x y l3 h; exact ⟨trivial, h.1⟩
  | cons a l2 ih =>
    intro x y l3 h
    obtain ⟨h1, h2⟩ := ih a y l3 h.2
    exact ⟨⟨h.1, h1⟩, h2⟩

/-- a cycle that is not longer than every other cycle has no repeated node -/
theorem nodup_of_min_cycle {c : List Nat} (hc : IsCycle g c)
    (hmin : ∀ c', IsCycle g c' → c.length ≤ c'.length) : c.Nodup := by
  refine Classical.byContradiction fun hn => ?_
  obtain ⟨x, l1, l2, l3, hl⟩ := exists_dup_of_not_nodup c hn
  cases c with
  | nil => exact hc
  | cons s rest =>
    have hw : IsWalk g (l1 ++ (x :: l2 ++ x :: l3)) := by
      have := hc.1
      rw [hl] at this
      simpa [List.append_assoc] using this
    obtain ⟨h1, h2⟩ := isWalk_prefix l2 x x l3 (IsWalk.of_append hw)
    have hcyc : IsCycle g (x :: l2) := ⟨h1, by rw [getLastD_cons]; exact h2⟩
    have := hmin _ hcyc
    rw [hl] at this
    simp only [List.length_append, List.length_cons] at this
    omega

end PubModel.C19
