// Harness for C11: caco3 loader and build order.  Every op is a whole scratch
// workspace (WORKSPACE.caco3, BUILD.caco3 files with bundle / file_set /
// sub_builds declarations, source files) plus a target list.  The real
// Builder runs on it in a watched CHILD PROCESS (a stack overflow or a hang of
// the loader is an observation, not the end of the check); the error class or
// the order of the BUILD log lines is compared with the Lean model, and the
// direct oracle (errors exactly for duplicates / unnamed rules / reachable
// cycles / dangling dependencies; every reachable rule built once, after its
// dependencies; independent of declaration order) is evaluated on the
// implementation with the harness's own graph code.
package main

import (
	"bufio"
	"bytes"
	"flag"
	"fmt"
	"io"
	"log"
	"os"
	"os/exec"
	"path"
	"path/filepath"
	"runtime/debug"
	"sort"
	"strconv"
	"strings"
	"syscall"
	"time"

	"shanhu.io/g/caco3"
	"verif/harness/hx"
)

// ---------- workspace description and line protocol ----------

type decl struct {
	kind byte // 'b' bundle, 'f' file_set, 'd' download (a[0] = Output), 's' sub_builds, 'x' statements jsonx rejects (name = how, a[0] = how many)
	name string
	a    []string // b: deps, f: files, s: dirs
	b    []string // f: includes
}

type bfile struct {
	dir   string
	decls []decl
}

type wsOp struct {
	dirs    []string
	files   []bfile
	srcs    []string
	targets []string
	special []string   // things under <root>/src that are NOT source files: "d:<name>" a directory, "p:<name>" a named pipe, "l:<name>" a symlink (a source)
	bad     []string   // rules (qualified names) whose execution fails: a file_set that lists a rule among its files
	more    [][]string // further Build calls on the SAME Builder: their target lists (t2, t3)
	wd      string     // work dir of the builder, relative to <root>/src ("" = the workspace root)
	ar      bool   // Config.AlwaysRebuild: the build cache never answers, only buildNode's memo prevents a second execution
}

func hs(s string) string { return hx.Hex([]byte(s)) }

func hlist(l []string, sep string) string {
	if len(l) == 0 {
		return "."
	}
	xs := make([]string, len(l))
	for i, s := range l {
		xs[i] = hs(s)
	}
	return strings.Join(xs, sep)
}

func unlist(w, sep string) []string {
	if w == "." || w == "" {
		return nil
	}
	var out []string
	for _, x := range strings.Split(w, sep) {
		out = append(out, string(hx.UnHex(x)))
	}
	return out
}

func (d decl) enc() string {
	switch d.kind {
	case 'b':
		return "b~" + hs(d.name) + "~" + hlist(d.a, "+")
	case 'f':
		return "f~" + hs(d.name) + "~" + hlist(d.a, "+") + "~" + hlist(d.b, "+")
	}
	if d.kind == 'x' {
		return "x~" + d.name + "~" + d.a[0]
	}
	if d.kind == 'd' {
		return "d~" + hs(d.name) + "~" + hs(d.a[0])
	}
	return "s~" + hlist(d.a, "+")
}

func (o *wsOp) line() string {
	var fs []string
	for _, f := range o.files {
		ds := "."
		if len(f.decls) > 0 {
			var xs []string
			for _, d := range f.decls {
				xs = append(xs, d.enc())
			}
			ds = strings.Join(xs, "|")
		}
		fs = append(fs, hs(f.dir)+":"+ds)
	}
	bf := "."
	if len(fs) > 0 {
		bf = strings.Join(fs, ";")
	}
	l := fmt.Sprintf("run dirs=%s bf=%s src=%s t=%s", hlist(o.dirs, ","), bf, hlist(o.srcs, ","), hlist(o.targets, ","))
	for i, t := range o.more {
		l += fmt.Sprintf(" t%d=%s", i+2, hlist(t, ","))
	}
	if len(o.bad) > 0 {
		l += " bad=" + hlist(o.bad, ",")
	}
	if len(o.special) > 0 {
		l += " sp=" + hlist(o.special, ",")
	}
	if o.wd != "" {
		l += " wd=" + hs(o.wd)
	}
	if o.ar {
		l += " ar=1"
	}
	return l
}

func kv(ws []string, k string) (string, bool) {
	for _, w := range ws {
		if strings.HasPrefix(w, k+"=") {
			return w[len(k)+1:], true
		}
	}
	return "", false
}

func parseOp(line string) (*wsOp, bool) {
	ws := strings.Fields(line)
	if len(ws) == 0 || ws[0] != "run" {
		return nil, false
	}
	o := &wsOp{}
	d, ok1 := kv(ws[1:], "dirs")
	bf, ok2 := kv(ws[1:], "bf")
	s, ok3 := kv(ws[1:], "src")
	t, ok4 := kv(ws[1:], "t")
	if !ok1 || !ok2 || !ok3 || !ok4 {
		return nil, false
	}
	o.dirs, o.srcs, o.targets = unlist(d, ","), unlist(s, ","), unlist(t, ",")
	if v, ok := kv(ws[1:], "bad"); ok {
		o.bad = unlist(v, ",")
	}
	if v, ok := kv(ws[1:], "sp"); ok {
		o.special = unlist(v, ",")
	}
	for _, k := range []string{"t2", "t3"} {
		if v, ok := kv(ws[1:], k); ok {
			o.more = append(o.more, unlist(v, ","))
		}
	}
	if v, ok := kv(ws[1:], "wd"); ok {
		o.wd = string(hx.UnHex(v))
	}
	if v, ok := kv(ws[1:], "ar"); ok && v == "1" {
		o.ar = true
	}
	if bf != "." {
		for _, fw := range strings.Split(bf, ";") {
			parts := strings.Split(fw, ":")
			if len(parts) != 2 {
				return nil, false
			}
			f := bfile{dir: string(hx.UnHex(parts[0]))}
			if parts[1] != "." {
				for _, dw := range strings.Split(parts[1], "|") {
					x := strings.Split(dw, "~")
					switch {
					case len(x) == 3 && x[0] == "b":
						f.decls = append(f.decls, decl{kind: 'b', name: string(hx.UnHex(x[1])), a: unlist(x[2], "+")})
					case len(x) == 4 && x[0] == "f":
						f.decls = append(f.decls, decl{kind: 'f', name: string(hx.UnHex(x[1])), a: unlist(x[2], "+"), b: unlist(x[3], "+")})
					case len(x) == 3 && x[0] == "d":
						f.decls = append(f.decls, decl{kind: 'd', name: string(hx.UnHex(x[1])), a: []string{string(hx.UnHex(x[2]))}})
					case len(x) == 3 && x[0] == "x":
						f.decls = append(f.decls, decl{kind: 'x', name: x[1], a: []string{x[2]}})
					case len(x) == 2 && x[0] == "s":
						f.decls = append(f.decls, decl{kind: 's', a: unlist(x[1], "+")})
					default:
						return nil, false
					}
				}
			}
			o.files = append(o.files, f)
		}
	}
	return o, true
}

// ---------- child: run the real builder ----------

func qlist(l []string) string {
	xs := make([]string, len(l))
	for i, s := range l {
		xs[i] = strconv.Quote(s)
	}
	return "[" + strings.Join(xs, ", ") + "]"
}

func writeWorkspace(root string, o *wsOp) error {
	if err := os.MkdirAll(filepath.Join(root, "src"), 0o755); err != nil {
		return err
	}
	var keys []string
	for _, d := range o.dirs {
		keys = append(keys, strconv.Quote(d)+": \"x\"")
	}
	ws := "repo_map { Src: {" + strings.Join(keys, ", ") + "} }\n"
	if err := os.WriteFile(filepath.Join(root, "WORKSPACE.caco3"), []byte(ws), 0o644); err != nil {
		return err
	}
	for _, s := range o.srcs {
		fp := filepath.Join(root, "src", filepath.FromSlash(s))
		os.MkdirAll(filepath.Dir(fp), 0o755)
		if err := os.WriteFile(fp, []byte("src "+s), 0o644); err != nil {
			return err
		}
	}
	for _, sp := range o.special {
		if len(sp) < 3 || sp[1] != ':' {
			continue
		}
		fp := filepath.Join(root, "src", filepath.FromSlash(sp[2:]))
		os.MkdirAll(filepath.Dir(fp), 0o755)
		switch sp[0] {
		case 'd':
			os.MkdirAll(fp, 0o755)
		case 'p':
			syscall.Mkfifo(fp, 0o644)
		case 'l': // dangling symlink: a symlink is a source whatever it points to
			os.Symlink("nowhere", fp)
		}
	}
	for _, f := range o.files {
		var b strings.Builder
		for _, d := range f.decls {
			switch d.kind {
			case 'b':
				fmt.Fprintf(&b, "bundle {\n    Name: %s,\n    Deps: %s,\n}\n\n", strconv.Quote(d.name), qlist(d.a))
			case 'f':
				fmt.Fprintf(&b, "file_set {\n    Name: %s,\n", strconv.Quote(d.name))
				if len(d.a) > 0 {
					fmt.Fprintf(&b, "    Files: %s,\n", qlist(d.a))
				}
				if len(d.b) > 0 {
					fmt.Fprintf(&b, "    Include: %s,\n", qlist(d.b))
				}
				b.WriteString("}\n\n")
			case 'd': // never executed on a sound tree: no target depends on a download
				fmt.Fprintf(&b, "download {\n    Name: %s,\n    URL: \"http://127.0.0.1:1/none\",\n    Checksum: \"sha256:00\",\n    Output: %s,\n}\n\n",
					strconv.Quote(d.name), strconv.Quote(d.a[0]))
			case 'x':
				n, _ := strconv.Atoi(d.a[0])
				for i := 0; i < n; i++ {
					b.WriteString(garbageLine(d.name, i))
				}
			case 's':
				fmt.Fprintf(&b, "sub_builds {\n    Dirs: %s,\n}\n\n", qlist(d.a))
			}
		}
		fp := filepath.Join(root, "BUILD.caco3")
		if f.dir != "" {
			fp = filepath.Join(root, "src", filepath.FromSlash(f.dir), "BUILD.caco3")
		}
		os.MkdirAll(filepath.Dir(fp), 0o755)
		if err := os.WriteFile(fp, []byte(b.String()), 0o644); err != nil {
			return err
		}
	}
	return nil
}

// garbageLine: the i-th statement of a given kind that jsonx rejects
func garbageLine(kind string, i int) string {
	k := kind
	if k == "mix" {
		k = []string{"notype", "novalue", "nocolon", "unknowntype", "unknownfield", "unclosed"}[i%6]
	}
	switch k {
	case "notype": // a statement that does not start with a type name
		return fmt.Sprintf("%d\n", 100+i)
	case "novalue":
		return fmt.Sprintf("bundle { Name: }\n")
	case "nocolon":
		return fmt.Sprintf("bundle { Name \"g%d\" }\n", i)
	case "unknowntype":
		return fmt.Sprintf("no_such_rule_%d { Name: \"g%d\" }\n", i, i)
	case "unknownfield":
		return fmt.Sprintf("bundle { Name: \"g%d\", NoSuchField: 1 }\n", i)
	case "unclosed":
		return fmt.Sprintf("bundle { Name: \"g%d\", Deps: [ }\n", i)
	}
	return "{ }\n"
}

func classify(msg string) string {
	switch {
	case strings.Contains(msg, "circular dependency"):
		return "cycle"
	case strings.Contains(msg, "redeclared"), strings.Contains(msg, "previously defined here"):
		return "dup"
	case strings.Contains(msg, "node name is empty"):
		return "empty"
	case strings.Contains(msg, "rule has no name"):
		return "noName"
	case strings.HasPrefix(msg, "stat "), strings.HasPrefix(msg, "cannot resolve"):
		return "dangling"
	}
	return "other:" + hs(msg)
}

func childRun(work string, n int, line string) string {
	o, ok := parseOp(line)
	if !ok {
		return "bad-op"
	}
	root := filepath.Join(work, fmt.Sprintf("w%d", n))
	defer os.RemoveAll(root)
	if err := writeWorkspace(root, o); err != nil {
		return "bad-workspace"
	}
	var buf bytes.Buffer
	log.SetOutput(&buf)
	log.SetFlags(0)
	defer log.SetOutput(io.Discard)
	workDir := root
	if o.wd != "" {
		workDir = filepath.Join(root, "src", filepath.FromSlash(o.wd))
		os.MkdirAll(workDir, 0o755)
	}
	b, err := caco3.NewBuilder(workDir, &caco3.Config{Root: root, AlwaysRebuild: o.ar})
	if err != nil {
		return "err-builder"
	}
	if _, errs := b.ReadWorkspace(); errs != nil {
		return "err-workspace"
	}
	var answers []string
	for _, targets := range append([][]string{o.targets}, o.more...) {
		buf.Reset()
		answers = append(answers, oneBuild(b, &buf, targets))
	}
	return strings.Join(answers, " ;; ")
}

// oneBuild: one Build call; the error classes (and whatever was executed
// although the call failed) or the BUILD lines in order
func oneBuild(b *caco3.Builder, buf *bytes.Buffer, targets []string) string {
	errs := b.Build(targets)
	var names []string
	for _, l := range strings.Split(buf.String(), "\n") {
		if strings.HasPrefix(l, "BUILD ") {
			names = append(names, strings.TrimPrefix(l, "BUILD "))
		}
	}
	if errs != nil {
		set := map[string]bool{}
		for _, e := range errs {
			if strings.HasPrefix(e.Code, "jsonx.") || strings.HasPrefix(e.Code, "lexing.") {
				set["syntax"] = true // the build file does not parse / decode
				continue
			}
			set[classify(e.Err.Error())] = true
		}
		var cs []string
		for c := range set {
			cs = append(cs, c)
		}
		sort.Strings(cs)
		allOther := true
		for _, c := range cs {
			if !strings.HasPrefix(c, "other:") {
				allOther = false
			}
		}
		if allOther { // the load went through, a rule failed while executing
			return "execfailed ran=" + hlist(names, ",")
		}
		a := "failed " + strings.Join(cs, ",")
		if len(names) > 0 {
			a += " ran=" + hlist(names, ",")
		}
		return a
	}
	return "built " + hlist(names, ",")
}

func childMain(work string) {
	debug.SetMaxStack(4 << 20) // an unbounded recursion dies quickly instead of eating 1 GB (chains of thousands of rules fit)
	in := bufio.NewScanner(os.Stdin)
	in.Buffer(make([]byte, 1<<20), 1<<26)
	out := bufio.NewWriter(os.Stdout)
	n := 0
	for in.Scan() {
		n++
		fmt.Fprintln(out, childRun(work, n, in.Text()))
		out.Flush()
	}
}

// ---------- parent side of the child ----------

type child struct {
	work  string
	cmd   *exec.Cmd
	in    io.WriteCloser
	out   *bufio.Reader
	lines chan string
	n     int
}

func (c *child) start() error {
	c.n++
	c.cmd = exec.Command(os.Args[0], "-child", "-work", filepath.Join(c.work, fmt.Sprintf("c%d", c.n)))
	c.cmd.Stderr = nil
	var err error
	if c.in, err = c.cmd.StdinPipe(); err != nil {
		return err
	}
	so, err := c.cmd.StdoutPipe()
	if err != nil {
		return err
	}
	c.out = bufio.NewReaderSize(so, 1<<20)
	if err := c.cmd.Start(); err != nil {
		return err
	}
	c.lines = make(chan string, 1)
	go func(r *bufio.Reader, ch chan string) {
		for {
			l, err := r.ReadString('\n')
			if err != nil {
				close(ch)
				return
			}
			ch <- strings.TrimRight(l, "\n")
		}
	}(c.out, c.lines)
	return nil
}

func (c *child) stop() {
	if c.cmd != nil {
		c.in.Close()
		c.cmd.Process.Kill()
		c.cmd.Wait()
		c.cmd = nil
	}
}

// run executes one op in the child; a dead or silent child is an observation.
func (c *child) run(line string, patience time.Duration) string {
	if c.cmd == nil {
		if err := c.start(); err != nil {
			return "no-child"
		}
	}
	if _, err := io.WriteString(c.in, line+"\n"); err != nil {
		c.stop()
		return "crash"
	}
	select {
	case l, ok := <-c.lines:
		if !ok {
			c.stop()
			return "crash"
		}
		return l
	case <-time.After(patience):
		c.stop()
		return "hang"
	}
}

// ---------- the oracle's own reading of a workspace ----------

type onode struct {
	name string
	rule bool
	deps []string
}

type reading struct {
	errClasses map[string]bool
	nodes      map[string]*onode
	selfRef    bool // a directory is reached a second time
}

func sortedSet(l []string) []string {
	m := map[string]bool{}
	for _, x := range l {
		m[x] = true
	}
	var out []string
	for x := range m {
		out = append(out, x)
	}
	sort.Strings(out)
	return out
}

func read(o *wsOp) *reading {
	r := &reading{errClasses: map[string]bool{}, nodes: map[string]*onode{}}
	files := map[string]*bfile{}
	for i := range o.files {
		if _, ok := files[o.files[i].dir]; !ok {
			files[o.files[i].dir] = &o.files[i]
		}
	}
	seen := map[string]bool{}
	reg := func(n *onode) {
		if n.name == "" {
			r.errClasses["empty"] = true
			return
		}
		if _, ok := r.nodes[n.name]; ok {
			r.errClasses["dup"] = true
			return
		}
		r.nodes[n.name] = n
	}
	var visit func(p string)
	visit = func(p string) {
		if seen[p] {
			r.selfRef = true
			return
		}
		seen[p] = true
		f := files[p]
		if f == nil {
			return
		}
		var ns []*onode
		var subs []string
		for _, d := range f.decls {
			if d.kind == 'x' && d.a[0] != "0" {
				r.errClasses["syntax"] = true
				return
			}
		}
		for _, d := range f.decls {
			switch d.kind {
			case 'b', 'f':
				name := caco3.VerifMakeRelPath(p, d.name)
				if name == p || name == "" {
					r.errClasses["noName"] = true
					return
				}
				var deps []string
				if d.kind == 'b' {
					for _, x := range d.a {
						deps = append(deps, caco3.VerifMakePath(p, x))
					}
					ns = append(ns, &onode{name: name, rule: true, deps: deps})
				} else {
					for _, x := range d.a {
						deps = append(deps, caco3.VerifMakePath(p, x))
					}
					deps = sortedSet(deps)
					deps = append(deps, d.b...) // Include names are used as written (known finding of C12)
					ns = append(ns, &onode{name: name, rule: true, deps: deps})
					ns = append(ns, &onode{name: name + ".fileset", deps: []string{name}})
				}
			case 'd':
				name := caco3.VerifMakeRelPath(p, d.name)
				if name == p || name == "" {
					r.errClasses["noName"] = true
					return
				}
				ns = append(ns, &onode{name: name, rule: true})
				ns = append(ns, &onode{name: caco3.VerifMakeRelPath(p, d.a[0]), deps: []string{name}})
			case 's':
				for _, x := range d.a {
					subs = append(subs, caco3.VerifMakeRelPath(p, x))
				}
			}
		}
		for _, n := range ns {
			reg(n)
		}
		for _, s := range sortedSet(subs) {
			visit(s)
		}
	}
	for _, d := range sortedSet(o.dirs) {
		visit(d)
	}
	return r
}

// specTargets: the requested targets as the property reads them: with the
// builder started in <root>/src/<wd>, an absolute target names a node from the
// workspace root, a relative one from the work dir (and cannot climb out of it);
// from the workspace root itself targets are node names
func specTargets(o *wsOp) []string {
	if o.wd == "" {
		return o.targets
	}
	var out []string
	for _, t := range o.targets {
		if strings.HasPrefix(t, "/") {
			out = append(out, strings.TrimPrefix(path.Clean(t), "/"))
		} else {
			out = append(out, strings.TrimPrefix(path.Join("/", o.wd, path.Clean("/"+t)), "/"))
		}
	}
	return out
}

// analyse: reachable set, cycle, dangling from the targets
func (r *reading) analyse(o *wsOp) (reach map[string]bool, cycle, dangling bool) {
	srcs := map[string]bool{}
	for _, s := range o.srcs {
		srcs[s] = true
	}
	for _, sp := range o.special {
		if strings.HasPrefix(sp, "l:") {
			srcs[sp[2:]] = true
		}
	}
	reach = map[string]bool{}
	color := map[string]int{}
	var dfs func(n string)
	dfs = func(n string) {
		if color[n] == 1 {
			cycle = true
			return
		}
		if color[n] == 2 {
			return
		}
		reach[n] = true
		nd := r.nodes[n]
		if nd == nil {
			if !srcs[n] {
				dangling = true
			}
			color[n] = 2
			return
		}
		color[n] = 1
		for _, d := range nd.deps {
			dfs(d)
		}
		color[n] = 2
	}
	for _, t := range specTargets(o) {
		dfs(t)
	}
	return
}

// judgeExecFailure: a rule whose execution fails stops the build with an error;
// nothing that depends on it is executed
func judgeExecFailure(o *wsOp, impl string) (key, desc string, done bool) {
	r := read(o)
	reach, cycle, dangling := r.analyse(o)
	if len(r.errClasses) > 0 || cycle || dangling {
		return "", "", false
	}
	bad := map[string]bool{}
	any := false
	for _, b := range o.bad {
		bad[b] = true
		if reach[b] {
			any = true
		}
	}
	if !any {
		if strings.HasPrefix(impl, "execfailed") {
			if len(o.bad) == 0 {
				return "unexpected-rule-failure", "the graph is sound and no rule of the fixture can fail, but a rule failed while executing: " + impl, true
			}
			return "", "", true
		}
		return "", "", false
	}
	if strings.HasPrefix(impl, "built") {
		return "failed-rule-build-returned-nil", fmt.Sprintf("the execution of one of %q fails, it is reachable from %q, but Build reported success: %s", o.bad, o.targets, impl), true
	}
	if !strings.HasPrefix(impl, "execfailed ran=") {
		return "spurious-error", "the load should succeed and a rule should fail while executing, but: " + impl, true
	}
	ran := unlist(strings.TrimPrefix(impl, "execfailed ran="), ",")
	if len(ran) == 0 || !bad[ran[len(ran)-1]] {
		return "dependent-executed-after-failed-rule", fmt.Sprintf("the build did not stop at the rule whose execution failed (%q): executed %q", o.bad, ran), true
	}
	// nothing executed depends on a failing rule
	var dependsOnBad func(n string, seen map[string]bool) bool
	dependsOnBad = func(n string, seen map[string]bool) bool {
		nd := r.nodes[n]
		if nd == nil || seen[n] {
			return false
		}
		seen[n] = true
		for _, d := range nd.deps {
			if bad[d] || dependsOnBad(d, seen) {
				return true
			}
		}
		return false
	}
	for _, n := range ran {
		if dependsOnBad(n, map[string]bool{}) {
			return "dependent-executed-after-failed-rule", fmt.Sprintf("%q was executed although a rule it depends on fails (%q): executed %q", n, o.bad, ran), true
		}
	}
	return "", "", true
}

func maxGarbage(o *wsOp) int {
	m := 0
	for _, f := range o.files {
		n := 0
		for _, d := range f.decls {
			if d.kind == 'x' {
				k, _ := strconv.Atoi(d.a[0])
				n += k
			}
		}
		if n > m {
			m = n
		}
	}
	return m
}

// judge evaluates the direct oracle on one implementation answer.
func judge(o *wsOp, impl string) (key, desc string) {
	if len(o.more) > 0 && impl != "crash" && impl != "hang" {
		parts := strings.Split(impl, " ;; ")
		calls := append([][]string{o.targets}, o.more...)
		for i, part := range parts {
			if i >= len(calls) {
				break
			}
			one := *o
			one.more = nil
			one.targets = calls[i]
			k, d := judgeCall(&one, part, i > 0 && !o.ar)
			if k != "" {
				if i > 0 {
					return "later-build-differs-from-fresh-builder", fmt.Sprintf(
						"Build call %d on the same Builder (targets %q, after %q): %s", i+1, calls[i], calls[:i], d)
				}
				return k, d
			}
		}
		return "", ""
	}
	if len(o.more) > 0 {
		what := map[string]string{"crash": "killed the process (stack overflow)", "hang": "did not return"}[impl]
		if read(o).selfRef == false && maxGarbage(o) == 0 {
			return "later-build-differs-from-fresh-builder", fmt.Sprintf("a history of Build calls %q then %q on one Builder %s", o.targets, o.more, what)
		}
	}
	return judgeCall(o, impl, false)
}

// judgeCall: one Build call; warm = an earlier call of the history may have
// filled the cache, so not every reachable rule has to execute again
func judgeCall(o *wsOp, impl string, warm bool) (key, desc string) {
	if i := strings.Index(impl, " ran="); i >= 0 && strings.HasPrefix(impl, "failed ") {
		r := read(o)
		_, cycle, dangling := r.analyse(o)
		if len(r.errClasses) > 0 || cycle || dangling {
			return "rule-executed-although-load-failed", fmt.Sprintf(
				"the workspace has a duplicate / unnamed rule / reachable cycle / dangling dependency, the build failed (%s), but rules were executed first: %q",
				impl[:i], unlist(impl[i+5:], ","))
		}
		impl = impl[:i] // a build step failed after the load succeeded
	}
	if k, d, done := judgeExecFailure(o, impl); done {
		return k, d
	}
	key, desc = judge0(o, impl)
	if warm && key == "reachable-rule-not-built" {
		key, desc = "", ""
	}
	if key == "" || o.wd == "" {
		return
	}
	switch {
	case key == "spurious-error", key == "unreachable-rule-built", key == "reachable-rule-not-built", strings.HasPrefix(key, "error-missed"):
		return "target-resolved-against-wrong-base", fmt.Sprintf(
			"builder started in src/%s, targets %q mean the nodes %q (absolute: from the workspace root, relative: from the work dir), but: %s",
			o.wd, o.targets, specTargets(o), desc)
	}
	return
}

func judge0(o *wsOp, impl string) (key, desc string) {
	r := read(o)
	if impl == "crash" || impl == "hang" {
		what := map[string]string{"crash": "killed the process (stack overflow)", "hang": "did not return"}[impl]
		if r.selfRef {
			return "subbuilds-directory-read-twice", "loading a workspace in which a sub_builds directory resolves to a directory already read " + what
		}
		if n := maxGarbage(o); n > 0 {
			return "loader-spins-after-error-cap", fmt.Sprintf("loading a build file with %d statements that do not parse %s (it must end with errors)", n, what)
		}
		return "loader-" + impl, "loading the workspace " + what
	}
	regErr := len(r.errClasses) > 0
	reach, cycle, dangling := r.analyse(o)
	expectErr := regErr || cycle || dangling
	switch {
	case strings.HasPrefix(impl, "failed "):
		if strings.Contains(impl, "other:") {
			return "", "" // a build step failed (outside the loader)
		}
		if !expectErr {
			if r.selfRef {
				return "subbuilds-directory-read-twice", "a directory reached twice through repo map and sub_builds has its rules registered twice: " + impl
			}
			return "spurious-error", "the workspace has no duplicate, unnamed rule, reachable cycle or dangling dependency, but loading failed: " + impl
		}
		return "", ""
	case strings.HasPrefix(impl, "built"), strings.HasPrefix(impl, "execfailed"):
		if expectErr {
			cls := "dup-or-unnamed"
			if !regErr && cycle {
				cls = "cycle"
			} else if !regErr {
				cls = "dangling"
			}
			return "error-missed-" + cls, "the workspace has a " + cls + " problem but the build went ahead: " + impl
		}
		names := unlist(strings.TrimPrefix(strings.TrimPrefix(impl, "built"), " "), ",")
		pos := map[string]int{}
		for i, n := range names {
			if _, dup := pos[n]; dup {
				return "rule-built-twice", fmt.Sprintf("rule %q executed twice in one build", n)
			}
			pos[n] = i
			nd := r.nodes[n]
			if nd == nil || !nd.rule || !reach[n] {
				return "unreachable-rule-built", fmt.Sprintf("%q was executed but is not a rule reachable from the targets", n)
			}
		}
		for n := range reach {
			if nd := r.nodes[n]; nd != nil && nd.rule {
				if _, ok := pos[n]; !ok {
					return "reachable-rule-not-built", fmt.Sprintf("rule %q is reachable from the targets but was not executed (empty cache)", n)
				}
			}
		}
		// every rule a built rule depends on (directly or through output nodes) comes earlier
		var ruleDeps func(n string, seen map[string]bool, out *[]string)
		ruleDeps = func(n string, seen map[string]bool, out *[]string) {
			nd := r.nodes[n]
			if nd == nil {
				return
			}
			for _, d := range nd.deps {
				if seen[d] {
					continue
				}
				seen[d] = true
				if dn := r.nodes[d]; dn != nil && dn.rule {
					*out = append(*out, d)
				} else {
					ruleDeps(d, seen, out)
				}
			}
		}
		for _, n := range names {
			var ds []string
			ruleDeps(n, map[string]bool{}, &ds)
			for _, d := range ds {
				if pos[d] >= pos[n] {
					return "dependency-built-later", fmt.Sprintf("rule %q was executed before its dependency %q", n, d)
				}
			}
		}
		return "", ""
	}
	return "unexpected-answer", "the builder answered " + impl
}

// ---------- generators ----------

type gen struct {
	r    *hx.Rand
	rep  *hx.Report
	ops  []string
	seen map[string]bool
	// groups of ops that must give the same answer (declaration order permutations)
	groups [][]int
}

func (g *gen) add(o *wsOp, nontrivial bool) int {
	l := o.line()
	if g.seen[l] {
		for i, x := range g.ops {
			if x == l {
				return i
			}
		}
	}
	g.seen[l] = true
	g.ops = append(g.ops, l)
	g.rep.Case(l, nontrivial)
	return len(g.ops) - 1
}

func subsets(l []string) [][]string {
	var out [][]string
	for m := 1; m < 1<<len(l); m++ {
		var s []string
		for i := range l {
			if m&(1<<i) != 0 {
				s = append(s, l[i])
			}
		}
		out = append(out, s)
	}
	return out
}

func permutations(n int) [][]int {
	if n == 0 {
		return [][]int{{}}
	}
	var out [][]int
	for _, p := range permutations(n - 1) {
		for i := 0; i <= len(p); i++ {
			q := append(append(append([]int{}, p[:i]...), n-1), p[i:]...)
			out = append(out, q)
		}
	}
	return out
}

func ruleName(i int) string { return fmt.Sprintf("r%d", i) }

// exhaustive: k bundles in package p, each with every subset of the candidate deps
func (g *gen) exhaustive(k int, cands []string, targetsAll bool) {
	nc := len(cands)
	total := 1
	for i := 0; i < k; i++ {
		total *= 1 << nc
	}
	for code := 0; code < total; code++ {
		var decls []decl
		c := code
		for i := 0; i < k; i++ {
			m := c & (1<<nc - 1)
			c >>= nc
			var deps []string
			for j := 0; j < nc; j++ {
				if m&(1<<j) != 0 {
					deps = append(deps, cands[j])
				}
			}
			decls = append(decls, decl{kind: 'b', name: ruleName(i), a: deps})
		}
		var names []string
		for i := 0; i < k; i++ {
			names = append(names, "p/"+ruleName(i))
		}
		ts := [][]string{names}
		if targetsAll {
			ts = subsets(names)
		}
		for _, t := range ts {
			g.add(&wsOp{dirs: []string{"p"}, files: []bfile{{dir: "p", decls: decls}}, srcs: []string{"p/s"}, targets: t, ar: code%2 == 1}, true)
			g.rep.Count(fmt.Sprintf("exhaustive:%d-rules", k))
		}
	}
}

// permuted: every declaration order x every target subset; all must agree
func (g *gen) permuted(decls []decl, srcs []string, tag string) {
	var names []string
	for _, d := range decls {
		if d.kind != 's' {
			names = append(names, "p/"+d.name)
		}
	}
	names = sortedSet(names)
	for _, t := range subsets(names) {
		var grp []int
		for _, perm := range permutations(len(decls)) {
			var ds []decl
			for _, i := range perm {
				ds = append(ds, decls[i])
			}
			grp = append(grp, g.add(&wsOp{dirs: []string{"p"}, files: []bfile{{dir: "p", decls: ds}}, srcs: srcs, targets: t, ar: len(t)%2 == 1}, true))
			g.rep.Count("permutation:" + tag)
		}
		g.groups = append(g.groups, grp)
	}
}

func (g *gen) shapes() {
	b := func(n string, deps ...string) decl { return decl{kind: 'b', name: n, a: deps} }
	f := func(n string, files []string, incs ...string) decl { return decl{kind: 'f', name: n, a: files, b: incs} }
	src := []string{"p/s", "p/t"}
	g.permuted([]decl{b("a", "b", "c"), b("b", "d"), b("c", "d"), b("d", "s")}, src, "diamond")
	g.permuted([]decl{b("a", "b"), b("b", "c"), b("c", "d"), b("d")}, src, "chain")
	g.permuted([]decl{b("a", "a"), b("b", "a"), b("c")}, src, "self-loop")
	g.permuted([]decl{b("a", "b"), b("b", "a"), b("c", "a"), b("d", "s")}, src, "2-cycle")
	g.permuted([]decl{b("a", "b"), b("b", "c"), b("c", "d"), b("d", "a")}, src, "4-cycle")
	g.permuted([]decl{b("a", "b", "c"), b("b", "c"), b("c", "b"), b("d", "a")}, src, "cycle-behind-memo")
	g.permuted([]decl{b("a", "b"), b("b", "m"), b("c", "s")}, src, "dangling")
	g.permuted([]decl{b("a", "b"), b("a", "c"), b("b"), b("c")}, src, "duplicate")
	g.permuted([]decl{f("x", []string{"s"}), b("x.fileset", "s"), b("c", "x")}, src, "output-collides-with-rule")
	g.permuted([]decl{f("x", []string{"s"}), f("y", []string{"t", "x.fileset"}, "p/x"), b("c", "y", "x.fileset")}, src, "file-sets")
	g.permuted([]decl{b("a", "b"), b(".", "a"), b("b")}, src, "unnamed")
}

func (g *gen) randomSmallPermuted(n int) {
	for i := 0; i < n; i++ {
		k := 2 + g.r.Intn(2)
		var decls []decl
		for j := 0; j < k; j++ {
			var deps []string
			for c := 0; c < k; c++ {
				if g.r.Intn(3) == 0 {
					deps = append(deps, ruleName(c))
				}
			}
			if g.r.Intn(4) == 0 {
				deps = append(deps, "s")
			}
			if g.r.Intn(12) == 0 {
				deps = append(deps, "m")
			}
			decls = append(decls, decl{kind: 'b', name: ruleName(j), a: deps})
		}
		g.permuted(decls, []string{"p/s"}, "random-small")
	}
}

var subDirNames = []string{".", "", "x/..", "q", "q/../q", "/q", "../q", "q/r", "./q/", "r"}

func (g *gen) subBuilds() {
	b := func(n string, deps ...string) decl { return decl{kind: 'b', name: n, a: deps} }
	// every single and every pair of sub-build directory strings in p; q and q/r have rules
	var lists [][]string
	for _, a := range subDirNames {
		lists = append(lists, []string{a})
		for _, c := range subDirNames {
			if a < c {
				lists = append(lists, []string{a, c})
			}
		}
	}
	for _, dirs := range lists {
		o := &wsOp{dirs: []string{"p"}, srcs: []string{"p/s"}, targets: []string{"p/top"},
			files: []bfile{
				{dir: "p", decls: []decl{{kind: 's', a: dirs}, b("top", "q/a", "s")}},
				{dir: "p/q", decls: []decl{b("a", "r/b"), {kind: 's', a: []string{"r"}}}},
				{dir: "p/q/r", decls: []decl{b("b")}},
				{dir: "p/r", decls: []decl{b("c")}},
			}}
		g.add(o, true)
		g.rep.Count("sub-builds:dir-strings")
	}
	// a directory listed in the repo map and reached again through sub_builds
	g.add(&wsOp{dirs: []string{"p", "p/q"}, targets: []string{"p/top"}, files: []bfile{
		{dir: "p", decls: []decl{{kind: 's', a: []string{"q"}}, b("top", "q/a")}},
		{dir: "p/q", decls: []decl{b("a")}}}}, true)
	g.add(&wsOp{dirs: []string{"p", "p/q"}, targets: []string{"p/top"}, files: []bfile{
		{dir: "p", decls: []decl{{kind: 's', a: []string{"q"}}, b("top")}}}}, true)
	// self reference deeper down, and the root package
	g.add(&wsOp{dirs: []string{"p"}, targets: []string{"p/q/a"}, files: []bfile{
		{dir: "p", decls: []decl{{kind: 's', a: []string{"q"}}}},
		{dir: "p/q", decls: []decl{b("a"), {kind: 's', a: []string{"../.."}}}}}}, true)
	g.add(&wsOp{dirs: []string{""}, targets: []string{"a"}, files: []bfile{
		{dir: "", decls: []decl{b("a", "p/b"), {kind: 's', a: []string{"p"}}}},
		{dir: "p", decls: []decl{b("b")}}}}, true)
	g.rep.Count("sub-builds:repeat-and-root")
}

// rules in different packages that share their local name: the cache key of a
// rule must cover its package-qualified name, or the second one is taken for a
// cache hit of the first on a cold cache and never executes
func (g *gen) sameLocalNames(thorough bool) {
	b := func(n string, deps ...string) decl { return decl{kind: 'b', name: n, a: deps} }
	f := func(n string, files []string, incs ...string) decl { return decl{kind: 'f', name: n, a: files, b: incs} }
	dirs := []string{"a", "b", "common"}
	srcs := []string{"common/s", "a/s", "b/s"}
	common := bfile{dir: "common", decls: []decl{b("base"), b("other", "base")}}
	add := func(tag string, fa, fb []decl, targets []string, extra ...bfile) {
		for _, ar := range []bool{false, true} {
			files := append([]bfile{{dir: "a", decls: fa}, {dir: "b", decls: fb}, common}, extra...)
			ds := dirs
			for _, e := range extra {
				ds = append(append([]string{}, ds...), e.dir)
			}
			g.add(&wsOp{dirs: ds, files: files, srcs: srcs, targets: targets, ar: ar}, true)
			g.rep.Count("same-local-name:" + tag)
		}
	}
	// every pair of dependency lists for a/all and b/all x every target subset
	cands := []string{"s", "/common/base", "/common/s"}
	if thorough {
		cands = append(cands, "/common/other")
	}
	for ma := 0; ma < 1<<len(cands); ma++ {
		for mb := 0; mb < 1<<len(cands); mb++ {
			if ma > mb && ma&1 == 0 && mb&1 == 0 {
				continue // symmetric (no package-relative dependency)
			}
			var da, db []string
			for i, c := range cands {
				if ma&(1<<i) != 0 {
					da = append(da, c)
				}
				if mb&(1<<i) != 0 {
					db = append(db, c)
				}
			}
			for _, t := range subsets([]string{"a/all", "b/all"}) {
				add("bundles", []decl{b("all", da...)}, []decl{b("all", db...)}, t)
			}
		}
	}
	// both reached from one target in a third package, directly and through a chain
	top := bfile{dir: "z", decls: []decl{b("top", "/a/all", "/b/all"), b("chain", "/a/up")}}
	for _, deps := range [][]string{nil, {"/common/base"}} {
		add("one-target", []decl{b("all", deps...), b("up", "/b/all")}, []decl{b("all", deps...)}, []string{"z/top"}, top)
		add("one-target", []decl{b("all", deps...), b("up", "/b/all", "all")}, []decl{b("all", deps...)}, []string{"z/chain"}, top)
	}
	// the same local name for a helper both packages declare (relative dependency)
	add("relative-dep", []decl{b("all", "x"), b("x")}, []decl{b("all", "x"), b("x")}, []string{"a/all", "b/all"})
	add("relative-dep", []decl{b("all", "x"), b("x", "/common/base")}, []decl{b("all", "x"), b("x", "/common/base")}, []string{"b/all", "a/all"})
	// file sets with the same local name, same and different files; a bundle named like the other package's file set
	for _, fl := range [][2][]string{{{"/common/s"}, {"/common/s"}}, {{"s"}, {"s"}}, {{"/common/s"}, {"s"}}, {nil, nil}} {
		for _, t := range subsets([]string{"a/fs", "b/fs"}) {
			add("file-sets", []decl{f("fs", fl[0])}, []decl{f("fs", fl[1])}, t)
		}
		add("file-set-vs-bundle", []decl{f("fs", fl[0])}, []decl{b("fs", fl[1]...)}, []string{"a/fs", "b/fs"})
		add("file-sets-included", []decl{f("fs", fl[0]), f("both", nil, "a/fs", "b/fs")}, []decl{f("fs", fl[1])}, []string{"a/both"})
	}
	// three packages, sub-build package included
	g.add(&wsOp{dirs: []string{"a", "b"}, srcs: srcs, targets: []string{"a/all", "a/q/all", "b/all"}, files: []bfile{
		{dir: "a", decls: []decl{{kind: 's', a: []string{"q"}}, b("all")}},
		{dir: "a/q", decls: []decl{b("all")}}, {dir: "b", decls: []decl{b("all")}}}}, true)
	g.rep.Count("same-local-name:sub-build")
}

// target lists with source files before, between and after rule targets (and
// only source files): a source target is logged and skipped, the targets after
// it are still built
func (g *gen) sourceTargets() {
	b := func(n string, deps ...string) decl { return decl{kind: 'b', name: n, a: deps} }
	f := func(n string, files []string, incs ...string) decl { return decl{kind: 'f', name: n, a: files, b: incs} }
	decls := []decl{b("a", "s"), b("b", "a", "t"), f("x", []string{"t"})}
	items := []string{"p/a", "p/b", "p/s", "p/t", "p/x"}
	var rec func(cur []string, used int)
	rec = func(cur []string, used int) {
		if len(cur) > 0 {
			for _, ar := range []bool{false, true} {
				g.add(&wsOp{dirs: []string{"p"}, files: []bfile{{dir: "p", decls: decls}}, srcs: []string{"p/s", "p/t"},
					targets: append([]string{}, cur...), ar: ar}, true)
				g.rep.Count("source-file-targets")
			}
		}
		if len(cur) == 4 {
			return
		}
		for i, it := range items {
			if used&(1<<i) == 0 {
				rec(append(cur, it), used|1<<i)
			}
		}
	}
	rec(nil, 0)
	// a source target that is also a dependency of a later target, and a repeated target
	g.add(&wsOp{dirs: []string{"p"}, files: []bfile{{dir: "p", decls: decls}}, srcs: []string{"p/s", "p/t"},
		targets: []string{"p/s", "p/a", "p/s", "p/b", "p/b"}}, true)
}

// the builder started in a sub directory: work dirs at depth 0..2, targets in all
// forms (y, ./y, ../x/y, /b/y ...), the same local names at the work-dir-relative
// and at the root-relative place, so that a target resolved against the wrong
// base picks an existing but different node
func (g *gen) workDirs() {
	b := func(n string, deps ...string) decl { return decl{kind: 'b', name: n, a: deps} }
	files := []bfile{
		{dir: "a", decls: []decl{{kind: 's', a: []string{"b", "x"}}, b("y", "s"), b("w", "/b/y")}},
		{dir: "a/b", decls: []decl{{kind: 's', a: []string{"b"}}, b("y"), b("z", "/b/y", "y")}},
		{dir: "a/b/b", decls: []decl{b("y", "/a/y")}},
		{dir: "a/x", decls: []decl{b("y", "../y")}},
		{dir: "b", decls: []decl{b("y"), b("v", "/a/b/y")}},
	}
	forms := []string{"y", "./y", "../x/y", "../b/y", "/b/y", "/a/b/y", "b/y", "../../b/y", "/a/../b/y", "/b/v", "z", "/a/y", "/b/./y/"}
	for _, wd := range []string{"a", "a/b", "a/b/b", "a/x", "b", "a/none"} {
		for i, t := range forms {
			g.add(&wsOp{dirs: []string{"a", "b"}, files: files, srcs: []string{"a/s"}, targets: []string{t}, wd: wd}, true)
			g.rep.Count("work-dir:single-target")
			for _, u := range forms[i+1:] {
				if (i+len(u))%3 == 0 {
					g.add(&wsOp{dirs: []string{"a", "b"}, files: files, srcs: []string{"a/s"}, targets: []string{t, u}, wd: wd, ar: i%2 == 1}, true)
					g.rep.Count("work-dir:target-pair")
				}
			}
		}
	}
	for _, t := range []string{"a/y", "b/y", "a/b/y", "a/b/b/y", "a/x/y"} {
		g.add(&wsOp{dirs: []string{"a", "b"}, files: files, srcs: []string{"a/s"}, targets: []string{t, "b/v"}}, true)
		g.rep.Count("work-dir:root")
	}
}

// build files with many statements that do not parse: below, at and above the
// cap of the error list (20), of every kind; loading ends with errors
func (g *gen) syntaxErrors() {
	b := func(n string, deps ...string) decl { return decl{kind: 'b', name: n, a: deps} }
	x := func(kind string, n int) decl { return decl{kind: 'x', name: kind, a: []string{strconv.Itoa(n)}} }
	for _, kind := range []string{"notype", "novalue", "nocolon", "unknowntype", "unknownfield", "unclosed", "mix"} {
		for _, n := range []int{1, 19, 20, 21, 22, 25, 100} {
			if kind != "notype" && kind != "mix" && n != 1 && n != 21 && n != 100 {
				continue
			}
			g.add(&wsOp{dirs: []string{"p"}, targets: []string{"p/a"}, files: []bfile{
				{dir: "p", decls: []decl{b("a", "c"), x(kind, n), b("c")}}}}, true)
			g.rep.Count("syntax-errors:" + kind)
		}
	}
	// errors spread over two files, one of them a sub-build; and errors in front of / behind the good part
	g.add(&wsOp{dirs: []string{"p"}, targets: []string{"p/a"}, files: []bfile{
		{dir: "p", decls: []decl{{kind: 's', a: []string{"q"}}, x("notype", 15), b("a")}},
		{dir: "p/q", decls: []decl{x("mix", 15)}}}}, true)
	g.add(&wsOp{dirs: []string{"p", "z"}, targets: []string{"z/a"}, files: []bfile{
		{dir: "p", decls: []decl{x("notype", 30)}}, {dir: "z", decls: []decl{b("a")}}}}, true)
	g.add(&wsOp{dirs: []string{"p"}, targets: []string{"p/a"}, files: []bfile{
		{dir: "p", decls: []decl{b("a"), x("notype", 23)}}}}, true)
	g.rep.Count("syntax-errors:spread")
}

// two and three Build calls on ONE Builder: a failing call (dangling dependency,
// cycle, duplicate) must not change what a later call does
func (g *gen) histories() {
	b := func(n string, deps ...string) decl { return decl{kind: 'b', name: n, a: deps} }
	f := func(n string, files []string, incs ...string) decl { return decl{kind: 'f', name: n, a: files, b: incs} }
	type wsd struct {
		tag   string
		decls []decl
	}
	wss := []wsd{
		{"dangling", []decl{b("a", "b", "m"), b("b", "s"), b("c", "b"), b("d", "a")}},
		{"dangling-deep", []decl{b("a", "b"), b("b", "c"), b("c", "m"), b("d")}},
		{"cycle", []decl{b("a", "b"), b("b", "c"), b("c", "a"), b("d", "s"), b("e", "a")}},
		{"self-loop", []decl{b("a", "a"), b("b", "a"), b("c")}},
		{"sound", []decl{b("a", "b", "c"), b("b", "d"), b("c", "d"), b("d", "s"), f("x", []string{"s"})}},
		{"duplicate", []decl{b("a"), b("a", "s"), b("c")}},
	}
	for _, w := range wss {
		var names []string
		for _, d := range w.decls {
			names = append(names, "p/"+d.name)
		}
		names = sortedSet(names)
		names = append(names, "p/s", "p/m")
		for _, t1 := range names {
			for _, t2 := range names {
				for _, ar := range []bool{false, true} {
					g.add(&wsOp{dirs: []string{"p"}, files: []bfile{{dir: "p", decls: w.decls}}, srcs: []string{"p/s"},
						targets: []string{t1}, more: [][]string{{t2}}, ar: ar}, true)
					g.rep.Count("history:two-builds:" + w.tag)
				}
			}
		}
		for k := 0; k < 12; k++ {
			pick := func() []string {
				t := []string{hx.Pick(g.r, names)}
				if g.r.Intn(3) == 0 {
					t = append(t, hx.Pick(g.r, names))
				}
				return t
			}
			g.add(&wsOp{dirs: []string{"p"}, files: []bfile{{dir: "p", decls: w.decls}}, srcs: []string{"p/s"},
				targets: pick(), more: [][]string{pick(), pick()}, ar: k%2 == 0}, true)
			g.rep.Count("history:three-builds:" + w.tag)
		}
	}
}

// build files with two and three sub_builds statements naming different
// directories: every one of them is read (duplicates and unnamed rules in any of
// them are reported, sound graphs over any of them load)
func (g *gen) severalSubBuilds() {
	b := func(n string, deps ...string) decl { return decl{kind: 'b', name: n, a: deps} }
	sub := func(d ...string) decl { return decl{kind: 's', a: d} }
	q := bfile{dir: "p/q", decls: []decl{b("a")}}
	r := bfile{dir: "p/r", decls: []decl{b("a", "/p/q/a")}}
	t := bfile{dir: "p/t", decls: []decl{b("a", "/p/r/a")}}
	tops := [][]decl{
		{sub("q"), sub("r"), b("top", "q/a", "r/a")},
		{sub("r"), sub("q"), b("top", "q/a", "r/a")},
		{sub("q"), b("top", "q/a", "r/a", "t/a"), sub("r"), sub("t")},
		{sub("t"), sub("r", "q"), b("top", "t/a")},
		{sub("q", "r"), sub("t"), b("top", "t/a")},
		{sub("q"), sub("q"), sub("r"), b("top", "r/a")},
	}
	for _, top := range tops {
		for _, targets := range [][]string{{"p/top"}, {"p/q/a"}, {"p/r/a"}, {"p/t/a"}, {"p/q/a", "p/t/a", "p/top"}} {
			g.add(&wsOp{dirs: []string{"p"}, files: []bfile{{dir: "p", decls: top}, q, r, t}, targets: targets}, true)
			// a duplicate of p/top, an unnamed rule, a syntax error in one of the sub directories
			for _, bad := range []bfile{
				{dir: "p/q", decls: []decl{b("a"), b("/p/top")}},
				{dir: "p/q", decls: []decl{b("a"), b(".")}},
				{dir: "p/r", decls: []decl{b("a"), b("/p/q/a")}},
				{dir: "p/t", decls: []decl{b("a"), b("../t")}},
			} {
				fs := []bfile{{dir: "p", decls: top}}
				for _, x := range []bfile{q, r, t} {
					if x.dir == bad.dir {
						x = bad
					}
					fs = append(fs, x)
				}
				g.add(&wsOp{dirs: []string{"p"}, files: fs, targets: targets}, true)
			}
			g.rep.Count("several-sub-builds-statements")
		}
	}
}

// a BUILD.caco3 in the workspace root (outside src) that no repo-map key and no
// sub_builds entry names: it is never read, whether its rule names clash with
// rules inside src or not
func (g *gen) rootBuildFile() {
	b := func(n string, deps ...string) decl { return decl{kind: 'b', name: n, a: deps} }
	sub := func(d ...string) decl { return decl{kind: 's', a: d} }
	roots := []bfile{
		{dir: "", decls: []decl{b("p/a")}},       // clashes with p/a
		{dir: "", decls: []decl{b("stranger")}},  // no clash
		{dir: "", decls: []decl{b("p/q/b", "stranger"), b("stranger")}},
		{dir: "", decls: []decl{{kind: 'x', name: "notype", a: []string{"3"}}}},
	}
	for _, root := range roots {
		for _, top := range [][]decl{{b("a", "q/b"), sub("q")}, {sub("q", "r"), b("a")}, {b("a")}, {sub("q"), sub("r"), b("a", "q/b")}} {
			for _, targets := range [][]string{{"p/a"}, {"p/q/b"}, {"stranger"}, {"p/a", "stranger"}} {
				g.add(&wsOp{dirs: []string{"p"}, targets: targets, files: []bfile{
					root, {dir: "p", decls: top}, {dir: "p/q", decls: []decl{b("b")}}, {dir: "p/r", decls: []decl{b("c")}}}}, true)
				g.rep.Count("root-build-file-outside-src")
			}
		}
	}
}

// a rule whose execution fails (a file_set that lists a rule among its files)
// below dependents: the build stops with an error, the dependents do not run
func (g *gen) failingRules() {
	b := func(n string, deps ...string) decl { return decl{kind: 'b', name: n, a: deps} }
	f := func(n string, files []string, incs ...string) decl { return decl{kind: 'f', name: n, a: files, b: incs} }
	wss := [][]decl{
		{b("g"), f("bad", []string{"g"}), b("top", "bad"), b("side", "s")},
		{b("g"), f("bad", []string{"s", "g"}), b("mid", "bad.fileset"), b("top", "mid", "side"), b("side")},
		{b("g"), f("bad", []string{"g"}), f("user", []string{"bad.fileset"}), b("top", "side", "user"), b("side", "s")},
		{b("g"), f("bad", []string{"g"}), b("a", "bad"), b("c", "a"), b("d", "c", "side"), b("side")},
		{b("g"), f("bad", nil, "p/g"), b("top", "bad"), b("side")}, // Include of something that is not a file set
	}
	for _, decls := range wss {
		var names []string
		for _, d := range decls {
			names = append(names, "p/"+d.name)
		}
		for _, t := range subsets(names) {
			if len(t) > 2 {
				continue
			}
			for _, ord := range [][]string{t, reverse(t)} {
				g.add(&wsOp{dirs: []string{"p"}, files: []bfile{{dir: "p", decls: decls}}, srcs: []string{"p/s"},
					targets: ord, bad: []string{"p/bad"}, ar: len(g.ops)%2 == 0}, true)
				g.rep.Count("failing-rule-below-dependents")
			}
		}
		// histories: the failing build first, then others on the same Builder
		g.add(&wsOp{dirs: []string{"p"}, files: []bfile{{dir: "p", decls: decls}}, srcs: []string{"p/s"},
			targets: []string{"p/top"}, more: [][]string{{"p/side"}, {"p/top"}}, bad: []string{"p/bad"}, ar: true}, true)
		g.add(&wsOp{dirs: []string{"p"}, files: []bfile{{dir: "p", decls: decls}}, srcs: []string{"p/s"},
			targets: []string{"p/side"}, more: [][]string{{"p/top"}}, bad: []string{"p/bad"}}, true)
	}
}

func reverse(l []string) []string {
	out := make([]string, len(l))
	for i, x := range l {
		out[len(l)-1-i] = x
	}
	return out
}

// dependencies, targets and Files that name a directory, a named pipe, the package
// directory itself: only regular files and symlinks are source files, anything
// else is a dangling dependency
func (g *gen) specialSources() {
	b := func(n string, deps ...string) decl { return decl{kind: 'b', name: n, a: deps} }
	f := func(n string, files []string, incs ...string) decl { return decl{kind: 'f', name: n, a: files, b: incs} }
	special := []string{"d:p/sub", "d:p/data", "p:p/pipe", "d:p/deep/er", "l:p/link", "d:z"}
	for _, dep := range []string{"sub", "", ".", "data", "pipe", "deep", "deep/er", "link", "s", "/z", "/p", "/", "nosuch", "sub/", "q"} {
		for _, decls := range [][]decl{
			{b("a", dep)},
			{b("a", "s", dep), b("c", "a")},
			{f("a", []string{dep})},
			{f("a", []string{"s", dep}), b("c", "a.fileset")},
		} {
			for _, t := range [][]string{{"p/a"}, {"p/" + decls[len(decls)-1].name}} {
				g.add(&wsOp{dirs: []string{"p"}, files: []bfile{{dir: "p", decls: decls}, {dir: "p/q", decls: []decl{b("r")}}},
					srcs: []string{"p/s", "p/sub/inner.txt"}, special: special, targets: t}, true)
				g.rep.Count("special-objects:as-dependency")
			}
		}
	}
	// as requested targets
	for _, t := range []string{"p/sub", "p", "p/pipe", "p/data", "p/link", "p/s", "z", "p/deep/er"} {
		g.add(&wsOp{dirs: []string{"p"}, files: []bfile{{dir: "p", decls: []decl{b("a")}}},
			srcs: []string{"p/s"}, special: special, targets: []string{"p/a", t}}, true)
		g.add(&wsOp{dirs: []string{"p"}, files: []bfile{{dir: "p", decls: []decl{b("a")}}},
			srcs: []string{"p/s"}, special: special, targets: []string{t}}, true)
		g.rep.Count("special-objects:as-target")
	}
}

// rules with explicit outputs (download) in the same, sibling and nested packages
// naming the same output: a duplicated output name is an error; the downloads are
// never targets, so nothing is fetched
func (g *gen) sharedOutputs() {
	b := func(n string, deps ...string) decl { return decl{kind: 'b', name: n, a: deps} }
	d := func(n, out string) decl { return decl{kind: 'd', name: n, a: []string{out}} }
	sub := func(x ...string) decl { return decl{kind: 's', a: x} }
	cases := [][]bfile{
		{{dir: "p", decls: []decl{b("ok"), d("d1", "o.bin"), d("d2", "o.bin")}}},                                            // same package
		{{dir: "p", decls: []decl{b("ok"), sub("sub"), d("d1", "sub/o.bin")}}, {dir: "p/sub", decls: []decl{d("d2", "o.bin")}}},  // nested
		{{dir: "p", decls: []decl{b("ok"), sub("q", "r"), d("d0", "x.bin")}}, {dir: "p/q", decls: []decl{d("d1", "../r/o.bin")}}, {dir: "p/r", decls: []decl{d("d2", "o.bin")}}}, // "../" stays in q: no clash
		{{dir: "p", decls: []decl{b("ok"), d("d1", "a.bin"), d("d2", "b.bin")}}},                                            // sound
		{{dir: "p", decls: []decl{b("ok"), d("d1", "o.bin")}}, {dir: "z", decls: []decl{d("d2", "/p/o.bin")}}},              // "/" stays in z: no clash
		{{dir: "p", decls: []decl{b("ok"), d("d1", "x.fileset"), {kind: 'f', name: "x", a: []string{"s"}}}}},              // download output = a file set's output
		{{dir: "p", decls: []decl{b("ok"), d("d1", "ok")}}},                                                                // output = a rule's name
		{{dir: "p", decls: []decl{b("ok"), d("d1", "./o.bin"), d("d2", "x/../o.bin"), d("d3", "o.bin")}}},                  // three writers
		{{dir: "p", decls: []decl{b("ok"), d("d1", "d1")}}},                                                                // output = its own name
	}
	for _, files := range cases {
		dirs := []string{"p"}
		for _, f := range files {
			if f.dir == "z" {
				dirs = append(dirs, "z")
			}
		}
		for _, t := range [][]string{{"p/ok"}, {"p/ok", "p/s"}} {
			g.add(&wsOp{dirs: dirs, files: files, srcs: []string{"p/s"}, targets: t}, true)
			g.rep.Count("shared-output-names")
		}
	}
}

// histories in which a later Build on the same Builder reaches nodes (sources,
// file sets, their outputs) the earlier ones did not load
func (g *gen) growingHistories() {
	b := func(n string, deps ...string) decl { return decl{kind: 'b', name: n, a: deps} }
	f := func(n string, files []string, incs ...string) decl { return decl{kind: 'f', name: n, a: files, b: incs} }
	decls := []decl{b("a", "s"), f("x", []string{"t", "u"}), f("y", []string{"x.fileset", "v"}), f("w", []string{"s"}, "p/x"), b("top", "y", "w"), b("lone")}
	names := []string{"p/a", "p/x", "p/y", "p/w", "p/top", "p/lone", "p/s"}
	for _, t1 := range names {
		for _, t2 := range names {
			if t1 == t2 {
				continue
			}
			for _, ar := range []bool{false, true} {
				g.add(&wsOp{dirs: []string{"p"}, files: []bfile{{dir: "p", decls: decls}}, srcs: []string{"p/s", "p/t", "p/u", "p/v"},
					targets: []string{t1}, more: [][]string{{t2}}, ar: ar}, true)
				g.rep.Count("history:later-build-reaches-new-nodes")
			}
		}
	}
	for _, h := range [][][]string{{{"p/lone"}, {"p/a"}, {"p/top"}}, {{"p/a"}, {"p/x"}, {"p/y", "p/w"}}, {{"p/s"}, {"p/w"}, {"p/top"}}} {
		g.add(&wsOp{dirs: []string{"p"}, files: []bfile{{dir: "p", decls: decls}}, srcs: []string{"p/s", "p/t", "p/u", "p/v"},
			targets: h[0], more: h[1:]}, true)
	}
}

// random graphs over several packages
func (g *gen) randomGraphs(n int, maxRules int) {
	for i := 0; i < n; i++ {
		pkgs := []string{"p", "p/q", "z"}[:1+g.r.Intn(3)]
		nr := 2 + g.r.Intn(maxRules-1)
		type rl struct {
			pkg, name string
			fs       bool
		}
		var rules []rl
		used := map[string]bool{}
		for j := 0; j < nr; j++ {
			r := rl{hx.Pick(g.r, pkgs), ruleName(j), g.r.Intn(4) == 0}
			// every second graph: local names are shared between packages
			if (i/2)%2 == 0 && j > 0 && g.r.Bool() {
				if o := rules[g.r.Intn(j)]; !used[r.pkg+"/"+o.name] {
					r.name = o.name
				}
			}
			used[r.pkg+"/"+r.name] = true
			rules = append(rules, r)
		}
		mode := g.r.Intn(10) // 0 dup, 1 long cycle, 2 dangling, 3 out collision, 4 empty name, else DAG-ish
		full := func(r rl) string { return "/" + r.pkg + "/" + r.name }
		declsOf := map[string][]decl{}
		srcs := []string{"p/s", "z/s"}
		for j, r := range rules {
			var deps []string
			for c := range rules {
				fwd := c > j
				if (fwd && g.r.Intn(3) == 0) || (!fwd && mode >= 7 && g.r.Intn(6) == 0) {
					if !rules[c].fs || !r.fs { // a file_set cannot list a rule among its files
						deps = append(deps, full(rules[c]))
					}
				}
			}
			if mode == 1 && j == nr-1 {
				deps = append(deps, full(rules[0]))
			}
			if mode == 1 && j < nr-1 {
				deps = append(deps, full(rules[j+1]))
			}
			if mode == 2 && g.r.Intn(3) == 0 {
				deps = append(deps, "/p/missing")
			}
			if r.fs {
				var files, incs []string
				files = append(files, "/p/s")
				for _, d := range deps {
					// depend on other file sets through their output or Include; on bundles not at all
					for _, o := range rules {
						if full(o) == d && o.fs {
							if g.r.Bool() {
								files = append(files, d+".fileset")
							} else {
								incs = append(incs, strings.TrimPrefix(d, "/"))
							}
						}
					}
				}
				declsOf[r.pkg] = append(declsOf[r.pkg], decl{kind: 'f', name: r.name, a: files, b: incs})
			} else {
				if g.r.Intn(3) == 0 {
					deps = append(deps, "/z/s")
				}
				declsOf[r.pkg] = append(declsOf[r.pkg], decl{kind: 'b', name: r.name, a: deps})
			}
		}
		switch mode {
		case 0:
			r := hx.Pick(g.r, rules)
			other := hx.Pick(g.r, pkgs)
			name := "/" + r.pkg + "/" + r.name // the same node declared from another file
			if other == r.pkg {
				name = r.name
			}
			declsOf[other] = append(declsOf[other], decl{kind: 'b', name: name})
		case 3:
			for _, r := range rules {
				if r.fs {
					declsOf[r.pkg] = append(declsOf[r.pkg], decl{kind: 'b', name: r.name + ".fileset"})
					break
				}
			}
		case 4:
			pk := hx.Pick(g.r, pkgs)
			declsOf[pk] = append(declsOf[pk], decl{kind: 'b', name: hx.Pick(g.r, []string{"", ".", "x/..", "/"})})
		}
		// package layout: p/q is reached through sub_builds of p; z is a second repo
		var files []bfile
		dirs := []string{"p"}
		for _, pk := range pkgs {
			ds := declsOf[pk]
			if pk == "p" && len(pkgs) > 1 {
				ds = append([]decl{{kind: 's', a: []string{hx.Pick(g.r, []string{"q", "./q", "q/", "x/../q"})}}}, ds...)
			}
			// shuffle declaration order
			for a := len(ds) - 1; a > 0; a-- {
				b := g.r.Intn(a + 1)
				ds[a], ds[b] = ds[b], ds[a]
			}
			files = append(files, bfile{dir: pk, decls: ds})
			if pk == "z" {
				dirs = append(dirs, "z")
			}
		}
		var targets []string
		for _, r := range rules {
			if g.r.Intn(3) == 0 {
				targets = append(targets, r.pkg+"/"+r.name)
			}
		}
		if len(targets) == 0 {
			targets = []string{rules[0].pkg + "/" + rules[0].name}
		}
		if g.r.Intn(4) == 0 { // source files among the targets, at any position
			for k := 1 + g.r.Intn(2); k > 0; k-- {
				at := g.r.Intn(len(targets) + 1)
				targets = append(targets[:at], append([]string{hx.Pick(g.r, srcs)}, targets[at:]...)...)
			}
		}
		g.add(&wsOp{dirs: dirs, files: files, srcs: srcs, targets: targets, ar: i%2 == 1}, true)
		g.rep.Count(fmt.Sprintf("random-graph:mode-%d", mode))
	}
}

func (g *gen) longChains() {
	for _, n := range []int{50, 300} {
		var decls []decl
		for i := 0; i < n; i++ {
			var deps []string
			if i+1 < n {
				deps = []string{ruleName(i + 1)}
			}
			decls = append(decls, decl{kind: 'b', name: ruleName(i), a: deps})
		}
		g.add(&wsOp{dirs: []string{"p"}, files: []bfile{{dir: "p", decls: decls}}, targets: []string{"p/r0"}}, true)
		cyc := append([]decl{}, decls...)
		cyc[n-1] = decl{kind: 'b', name: ruleName(n - 1), a: []string{"r0"}}
		g.add(&wsOp{dirs: []string{"p"}, files: []bfile{{dir: "p", decls: cyc}}, targets: []string{"p/r" + strconv.Itoa(n/2)}}, true)
		g.rep.Count("long-chain-and-cycle")
	}
}

// ---------- shrinking ----------

func shrink(o *wsOp, key string, run func(string) string) *wsOp {
	cur := *o
	fails := func(t *wsOp) bool {
		k, _ := judge(t, run(t.line()))
		return k == key
	}
	if len(cur.bad) > 0 { // the failing rule is part of the fixture: only the targets shrink
		for i := 0; i < len(cur.targets) && len(cur.targets) > 1; i++ {
			t := cur
			t.targets = append(append([]string{}, cur.targets[:i]...), cur.targets[i+1:]...)
			if fails(&t) {
				cur = t
				i--
			}
		}
		return &cur
	}
	for changed := true; changed; {
		changed = false
		// drop whole files, then declarations, then list entries, then targets and sources
		for i := 0; i < len(cur.files); i++ {
			t := cur
			t.files = append(append([]bfile{}, cur.files[:i]...), cur.files[i+1:]...)
			if fails(&t) {
				cur, changed = t, true
				i--
			}
		}
		for fi := range cur.files {
			for di := 0; di < len(cur.files[fi].decls); di++ {
				t := cur
				t.files = append([]bfile{}, cur.files...)
				ds := cur.files[fi].decls
				t.files[fi] = bfile{dir: cur.files[fi].dir, decls: append(append([]decl{}, ds[:di]...), ds[di+1:]...)}
				if fails(&t) {
					cur, changed = t, true
					di--
				}
			}
		}
		for fi := range cur.files {
			for di := range cur.files[fi].decls {
				for which := 0; which < 2; which++ {
					get := func(d decl) []string {
						if which == 0 {
							return d.a
						}
						return d.b
					}
					if cur.files[fi].decls[di].kind == 'd' {
						continue // its single list entry is the output name
					}
					if cur.files[fi].decls[di].kind == 'x' {
						if which == 0 { // fewer rejected statements instead of fewer list entries
							have, _ := strconv.Atoi(cur.files[fi].decls[di].a[0])
							for _, n := range []int{1, 2, 5, 10, 15, 19, 20, 21, 22, 25, 50} {
								if n >= have {
									break
								}
								t := cur
								t.files = append([]bfile{}, cur.files...)
								ds := append([]decl{}, cur.files[fi].decls...)
								ds[di] = decl{kind: 'x', name: ds[di].name, a: []string{strconv.Itoa(n)}}
								t.files[fi] = bfile{dir: cur.files[fi].dir, decls: ds}
								if fails(&t) {
									cur, changed = t, true
									break
								}
							}
						}
						continue
					}
					for li := 0; li < len(get(cur.files[fi].decls[di])); li++ {
						t := cur
						t.files = append([]bfile{}, cur.files...)
						ds := append([]decl{}, cur.files[fi].decls...)
						d := ds[di]
						l := get(d)
						nl := append(append([]string{}, l[:li]...), l[li+1:]...)
						if which == 0 {
							d.a = nl
						} else {
							d.b = nl
						}
						ds[di] = d
						t.files[fi] = bfile{dir: cur.files[fi].dir, decls: ds}
						if fails(&t) {
							cur, changed = t, true
							li--
						}
					}
				}
			}
		}
		for _, fld := range []*[]string{&cur.targets, &cur.srcs, &cur.dirs} {
			for i := 0; i < len(*fld) && len(*fld) > 1; i++ {
				old := *fld
				*fld = append(append([]string{}, old[:i]...), old[i+1:]...)
				t := cur
				if fails(&t) {
					changed = true
					i--
				} else {
					*fld = old
				}
			}
		}
	}
	return &cur
}

// ---------- main ----------

func main() {
	isChild := flag.Bool("child", false, "run as the watched child process")
	f := hx.ParseFlags()
	if *isChild {
		log.SetOutput(io.Discard)
		os.MkdirAll(f.Work, 0o755)
		childMain(f.Work)
		return
	}
	log.SetOutput(io.Discard)
	rep := hx.NewReport("C11", f)
	rep.Rule = "one op = one scratch workspace (bundle / file_set / sub_builds declarations over 1-3 packages, source files) + targets, " +
		"built by the real Builder in a child process (every second op with AlwaysRebuild): all graphs of 2 rules over {r0, r1, source, missing} and of 3 (thorough: 4) rules over the rules x target subsets, " +
		"every declaration permutation x target subset of fixed shapes (diamond, chain, self-loop, 2/4-cycle, cycle behind the memo, dangling, duplicate, output/rule collision, file sets, unnamed) and random 2-3 rule graphs, " +
		"rules with explicit outputs sharing an output name across packages, histories whose later Build reaches nodes the earlier did not load, dependencies / targets / Files naming directories, named pipes and the package directory, rules whose execution fails below dependents, histories of two and three Build calls on one Builder (first failing or sound), build files with several sub_builds statements, a BUILD.caco3 in the workspace root outside src, build files with 1..100 statements that do not parse (below, at, above the error cap), builders started in work dirs at depth 0..2 with relative, ./, ../ and absolute targets over same-named nodes, target lists with source files before, between and after rule targets, sub-build directory strings (., empty, x/.., q, /q, ../q ...) singly and in pairs, random multi-package graphs (duplicates across files, long cycles, dangling, collisions, unnamed), long chains; " +
		"distinct = distinct op line; every op is non-trivial (it loads at least one build file)"
	work := f.Work
	if work == "" {
		d, err := os.MkdirTemp("", "verif-c11-")
		if err != nil {
			fmt.Println(err)
			os.Exit(3)
		}
		work = d
		defer os.RemoveAll(d)
	}
	scratch := filepath.Join(work, "c11scratch")
	os.MkdirAll(scratch, 0o755)
	defer os.RemoveAll(scratch)
	j := hx.NewJournal(f.Work)

	g := &gen{r: hx.NewRand(f.Seed), rep: rep, seen: map[string]bool{}}
	if f.Replay != "" {
		ops, err := hx.ReadReplayOps(f.Replay)
		if err != nil {
			fmt.Println("replay:", err)
			os.Exit(3)
		}
		for _, op := range ops {
			g.ops = append(g.ops, op)
			rep.Case(op, true)
		}
	} else {
		for _, cops := range hx.CorpusOps("C11") {
			for _, op := range cops {
				if !g.seen[op] {
					g.seen[op] = true
					g.ops = append(g.ops, op)
					rep.Case(op, true)
					rep.Count("corpus")
				}
			}
		}
		g.subBuilds()
		g.sameLocalNames(f.Thorough())
		g.sourceTargets()
		g.workDirs()
		g.syntaxErrors()
		g.histories()
		g.failingRules()
		g.specialSources()
		g.sharedOutputs()
		g.growingHistories()
		g.severalSubBuilds()
		g.rootBuildFile()
		g.shapes()
		g.longChains()
		if f.Thorough() {
			g.exhaustive(2, []string{"r0", "r1", "s", "m"}, true)
			g.exhaustive(3, []string{"r0", "r1", "r2"}, true)
			g.exhaustive(4, []string{"r0", "r1", "r2", "r3"}, false)
			g.randomSmallPermuted(120)
			g.randomGraphs(12000, 12)
		} else {
			g.exhaustive(2, []string{"r0", "r1", "s", "m"}, true)
			g.exhaustive(3, []string{"r0", "r1", "r2"}, false)
			g.randomSmallPermuted(8)
			g.randomGraphs(500, 9)
		}
		rep.Exhaustive = true
	}
	ops := g.ops

	c := &child{work: scratch}
	defer c.stop()
	impl := make([]string, len(ops))
	patience := 30 * time.Second
	confirmedHangs := 0
	for i, op := range ops {
		j.Risky(op)
		pt := patience
		if strings.Contains(op, ":x~") || strings.Contains(op, "|x~") {
			pt = 5 * time.Second // parsing a few hundred bytes; a spin is seen quickly
		}
		impl[i] = c.run(op, pt)
		if impl[i] == "hang" && confirmedHangs < 2 { // re-run alone before believing a clock
			for k := 0; k < 2 && impl[i] == "hang"; k++ {
				impl[i] = c.run(op, 2*pt)
			}
			if impl[i] == "hang" {
				confirmedHangs++
			}
		}
		rep.Count("answer:" + strings.SplitN(impl[i], " ", 2)[0])
	}
	j.Clear()

	runOne := func(line string) string {
		if strings.Contains(line, ":x~") || strings.Contains(line, "|x~") {
			return c.run(line, 5*time.Second)
		}
		return c.run(line, patience)
	}
	shrunk := map[string]int{}
	for i, op := range ops {
		o, ok := parseOp(op)
		if !ok {
			continue
		}
		key, desc := judge(o, impl[i])
		if key == "" {
			continue
		}
		min := o
		if shrunk[key] < 1 {
			shrunk[key]++
			min = shrink(o, key, runOne)
		}
		rep.Fail(key, desc, []string{min.line()})
	}
	// declaration order must not matter: every permutation gives the same answer
	for _, grp := range g.groups {
		for _, i := range grp[1:] {
			if impl[i] != impl[grp[0]] {
				rep.Fail("answer-depends-on-declaration-order",
					fmt.Sprintf("two orders of the same declarations give %q and %q", impl[grp[0]], impl[i]), []string{ops[grp[0]], ops[i]})
			}
		}
	}

	model, err := hx.RunDriver(f.Driver, nil, ops)
	if err != nil {
		rep.Note("driver failed: %v", err)
		rep.ModelAvailable = false
	} else if model != nil {
		for i := range ops {
			m := model[i]
			im := impl[i]
			if m == "outOfFuel" && (im == "crash" || im == "hang") {
				continue // the model says "does not terminate", the process died or hung
			}
			if strings.Contains(im, "other:") && !strings.Contains(im, " ran=") {
				rep.Count("build-step-error(not compared)")
				continue
			}
			if strings.Contains(ops[i], " t2=") && !strings.Contains(ops[i], " ar=1") {
				// later calls meet a warm cache: only the kind of answer is compared
				canon := func(a string) string {
					ps := strings.Split(a, " ;; ")
					for k := 1; k < len(ps); k++ {
						if strings.HasPrefix(ps[k], "built") {
							ps[k] = "built"
						}
						if strings.HasPrefix(ps[k], "execfailed") {
							ps[k] = "execfailed"
						}
					}
					return strings.Join(ps, " ;; ")
				}
				im, m = canon(im), canon(m)
			}
			if im != m {
				rep.Disagree("loader", ops[i], im, m)
			}
		}
		rep.TracesValidated = len(ops)
	}
	for i := 0; i < len(ops); i += 1 + len(ops)/11 {
		rep.Sample(map[string]string{"op": ops[i], "impl": impl[i]})
	}
	rep.Write(f.Out)
}
