// Harness for C03: every call gets its own reply, at most once.  The real
// endpointClient/transport runs over a real websocket whose other end is
// scripted here; the same scripts are replayed on the Lean transport model.
package main

import (
	"bytes"
	"context"
	"encoding/binary"
	"fmt"
	"io"
	"log"
	"sort"
	"strconv"
	"strings"
	"sync"
	"time"

	"shanhu.io/g/sniproxy"
	"verif/harness/hx"
	"verif/harness/snix"
)

const helloTyp = 1
const markerID = uint64(1) << 60

// A scenario is a list of lines:
//
//	calls n=<N>
//	frame <kind> c=<caller> ...    peer sends a frame (built from the caller's real id)
//	raw <hex>                      peer sends these bytes verbatim
//	sendfail                       (before calls) every request write fails
//	sever                          peer cuts the connection
type scenario struct{ lines []string }

func (s scenario) canon() string { return strings.Join(s.lines, ";") }

func genScenario(r *hx.Rand, big bool) scenario {
	n := 1 + r.Intn(6)
	if big && r.Intn(4) == 0 {
		n = 8 + r.Intn(56)
	}
	var ls []string
	if r.Intn(12) == 0 {
		ls = append(ls, "sendfail")
		ls = append(ls, fmt.Sprintf("calls n=%d", 1+r.Intn(3)))
		ls = append(ls, "sever")
		return scenario{ls}
	}
	if r.Intn(8) == 0 {
		// graceful shutdown while calls are outstanding (and one call that passed the shutdown check
		// before the shutdown was requested but is enqueued after it)
		ls = append(ls, fmt.Sprintf("calls n=%d", 1+r.Intn(4)))
		if r.Intn(2) == 0 {
			ls = append(ls, "latecall")
		}
		ls = append(ls, "shutdown", "sever")
		return scenario{ls}
	}
	if r.Intn(6) == 0 {
		// tunnel reads: the reply's bytes must be in the buffer the caller passed, whatever its fill
		size := hx.Pick(r, []int{1, 8, 64, 4096, 32768})
		ls = append(ls, fmt.Sprintf("calls n=%d kind=read size=%d", n, size))
		for _, c := range r.Perm(n) {
			ls = append(ls, fmt.Sprintf("frame okread c=%d len=%d", c, hx.Pick(r, []int{0, 1, size / 2, size - 1, size, size})))
		}
		ls = append(ls, "sever")
		return scenario{ls}
	}
	var ctxCallers []int
	if r.Intn(5) == 0 {
		for i := 0; i < n; i++ {
			if r.Intn(2) == 0 {
				ctxCallers = append(ctxCallers, i)
			}
		}
	}
	if len(ctxCallers) > 0 {
		var cs []string
		for _, c := range ctxCallers {
			cs = append(cs, fmt.Sprint(c))
		}
		ls = append(ls, fmt.Sprintf("calls n=%d ctx=%s", n, strings.Join(cs, ",")))
		// some of them give up before anything is answered; their replies still arrive afterwards
		for _, c := range ctxCallers {
			if r.Intn(3) != 0 {
				ls = append(ls, fmt.Sprintf("cancel c=%d", c))
			}
		}
	} else {
		ls = append(ls, fmt.Sprintf("calls n=%d", n))
	}
	perm := make([]int, n)
	for i := range perm {
		perm[i] = i
	}
	for i := n - 1; i > 0; i-- {
		j := r.Intn(i + 1)
		perm[i], perm[j] = perm[j], perm[i]
	}
	answered := 0
	if r.Intn(5) != 0 {
		answered = n
	} else {
		answered = r.Intn(n + 1)
	}
	fatal := false
	for k, c := range perm {
		// faults before this reply
		for r.Intn(3) == 0 && !fatal {
			switch r.Intn(9) {
			case 0:
				if k > 0 {
					ls = append(ls, fmt.Sprintf("frame dup c=%d", perm[r.Intn(k)]))
				}
			case 1:
				ls = append(ls, fmt.Sprintf("frame unknown id=%d", n+r.Intn(5)))
			case 2:
				ls = append(ls, fmt.Sprintf("frame mistyped c=%d typ=%d", perm[r.Intn(n)], hx.Pick(r, []int{0, 2, 3, 4, 6, 8, 9, 5, 200})))
			case 3:
				ls = append(ls, "raw "+hx.Hex(r.Bytes(r.Intn(10))))
			case 4:
				ls = append(ls, fmt.Sprintf("frame truncbody c=%d cut=%d", perm[r.Intn(n)], r.Intn(12)))
			case 5:
				ls = append(ls, fmt.Sprintf("frame trailing c=%d", perm[r.Intn(n)]))
			case 6:
				if r.Intn(3) == 0 {
					ls = append(ls, fmt.Sprintf("frame fatal c=%d code=%d", perm[r.Intn(n)], 1+r.Intn(255)))
					fatal = true
				}
			case 7:
				ls = append(ls, fmt.Sprintf("frame hugelen c=%d len=%d", perm[r.Intn(n)], hx.Pick(r, []uint64{1 << 31, 1 << 40, 1 << 62, 1<<63 - 1, 1 << 63, 1<<64 - 1})))
			case 8:
				ls = append(ls, "text")
			}
		}
		if fatal {
			break
		}
		if k < answered {
			if r.Intn(5) == 0 {
				// the same reply, fragmented by the sender: a first websocket fragment of 1..40 bytes, then the rest
				ls = append(ls, fmt.Sprintf("frame okfrag c=%d cut=%d", c, 1+r.Intn(40)))
			} else {
				ls = append(ls, fmt.Sprintf("frame ok c=%d", c))
			}
		}
	}
	if !fatal && answered < n && r.Intn(3) == 0 {
		// the connection dies in the middle of a reply: its header, the announced length and only
		// part of the body arrive (as a non-final websocket fragment), then nothing
		announced := 8 + r.Intn(2000)
		ls = append(ls, fmt.Sprintf("partial c=%d announced=%d arrived=%d", perm[answered], announced, r.Intn(announced)))
		return scenario{ls}
	}
	ls = append(ls, "sever")
	return scenario{ls}
}

type outcome struct {
	modelFree  bool
	readerDied bool
	unordered  bool
	results    []string // per caller: ok:<hex of reply> | err:<class> | stuck
	model      []string // lines for the driver
	note       string
	skipped    bool
}

func kv(ws []string, k string) string {
	for _, w := range ws {
		if strings.HasPrefix(w, k+"=") {
			return w[len(k)+1:]
		}
	}
	return ""
}

func atoi(s string) int { n, _ := strconv.Atoi(s); return n }

// runScenario executes the scenario on the real transport and produces the
// driver lines that replay it on the model.
// runQueuedCancel: call A is sent and pending; the serve loop is held while it takes call B; call C is
// enqueued behind it and its caller gives up while C is still in the queue; the loop is released; the
// peer then answers A and B.  A and B must get their own replies, C its context's error.
func runQueuedCancel(sc scenario, rep *hx.Report) outcome {
	var out outcome
	hold := make(chan struct{})
	held := make(chan struct{}, 1)
	queued := make(chan struct{}, 1)
	var once sync.Once
	sniproxy.VerifSetHook(func(ev sniproxy.VerifEvent) {
		if ev.Point == "serve.take" && ev.Tag == "h:qcB" {
			once.Do(func() {
				held <- struct{}{}
				select {
				case <-hold:
				case <-time.After(5 * time.Second):
				}
			})
		}
		if ev.Point == "caller.queued" && ev.Tag == "h:qcC" {
			select {
			case queued <- struct{}{}:
			default:
			}
		}
	})
	defer sniproxy.VerifSetHook(nil)
	p, err := snix.NewPeer()
	if err != nil {
		out.skipped, out.note = true, "peer: "+err.Error()
		return out
	}
	defer p.Close(5 * time.Second)
	results := []string{"stuck", "stuck", "stuck"}
	var mu sync.Mutex
	var wg sync.WaitGroup
	call := func(i int, ctx context.Context, msg string) {
		wg.Add(1)
		go func() {
			defer wg.Done()
			got, err := p.Client.Hello(ctx, msg)
			mu.Lock()
			defer mu.Unlock()
			if err == nil {
				results[i] = "ok:" + hx.Hex([]byte(got))
			} else {
				results[i] = snix.ErrClass(err)
			}
		}()
	}
	call(0, context.Background(), "qcA")
	ra, ok := p.NextReq(5 * time.Second)
	if !ok {
		out.skipped, out.note = true, "request A not received"
		return out
	}
	call(1, context.Background(), "qcB")
	select {
	case <-held:
	case <-time.After(5 * time.Second):
		out.skipped, out.note = true, "serve loop did not take call B"
		close(hold)
		return out
	}
	ctx, cancel := context.WithCancel(context.Background())
	call(2, ctx, "qcC")
	select {
	case <-queued:
	case <-time.After(5 * time.Second):
	}
	cancel()
	for t0 := time.Now(); time.Since(t0) < 5*time.Second; time.Sleep(time.Millisecond) {
		mu.Lock()
		r := results[2]
		mu.Unlock()
		if r != "stuck" {
			break
		}
	}
	close(hold)
	rb, ok := p.NextReq(5 * time.Second)
	if !ok {
		out.skipped, out.note = true, "request B not received"
		return out
	}
	time.Sleep(20 * time.Millisecond) // the loop deals with what is left of C
	fa := snix.ReplyFrame(ra.ID, helloTyp, 0, snix.StrBody("RA"))
	fb := snix.ReplyFrame(rb.ID, helloTyp, 0, snix.StrBody("RB"))
	p.Send(fa)
	p.Send(fb)
	for t0 := time.Now(); time.Since(t0) < 5*time.Second; time.Sleep(time.Millisecond) {
		mu.Lock()
		done := results[0] != "stuck" && results[1] != "stuck"
		mu.Unlock()
		if done {
			break
		}
	}
	p.Sever()
	hx.WithTimeout(10*time.Second, wg.Wait)
	mu.Lock()
	out.results = append([]string{}, results...)
	mu.Unlock()
	want := []string{"ok:" + hx.Hex([]byte("RA")), "ok:" + hx.Hex([]byte("RB")), "err:ctx"}
	for i := range want {
		if out.results[i] != want[i] {
			key := "answered-call-not-completed"
			if i == 2 {
				key = "cancelled-call-did-not-return-its-context-error"
			}
			rep.Fail(key, fmt.Sprintf("call %d of (A pending, B being taken, C cancelled while queued) ended as %s; expected %s (the peer answered A and B with their own ids)", i, out.results[i], want[i]), sc.lines)
		}
	}
	out.model = []string{"init typ=1,1,1 ctx=2", "ev check 0", "ev enqueue 0", "ev take", "ev check 1", "ev enqueue 1", "ev take",
		"ev check 2", "ev enqueue 2", "ev giveup 2", "ev take",
		"reply cap=0 " + hx.Hex(snix.ReplyFrame(0, helloTyp, 0, snix.StrBody("RA"))), "reply cap=0 " + hx.Hex(snix.ReplyFrame(1, helloTyp, 0, snix.StrBody("RB"))),
		"ev sever", "quiesce", "results"}
	return out
}

func runScenario(sc scenario, rep *hx.Report) outcome {
	if len(sc.lines) == 1 && sc.lines[0] == "queuedcancel" {
		return runQueuedCancel(sc, rep)
	}
	var out outcome
	markerSeen := make(chan struct{}, 4)
	sendFailSeen := make(chan struct{}, 4)
	var hookMu sync.Mutex
	var lateRel, lateRch chan struct{}
	setLate := func(rel, rch chan struct{}) { hookMu.Lock(); lateRel, lateRch = rel, rch; hookMu.Unlock() }
	_ = setLate
	sniproxy.VerifSetHook(func(ev sniproxy.VerifEvent) {
		if ev.Point == "serve.fetch" && ev.ID == markerID {
			select {
			case markerSeen <- struct{}{}:
			default:
			}
		}
		if ev.Point == "caller.checked" && ev.Tag == "h:late" {
			hookMu.Lock()
			rel, rch := lateRel, lateRch
			hookMu.Unlock()
			if rch != nil {
				close(rch)
				<-rel
			}
		}
		if ev.Point == "serve.send-fail" {
			select {
			case sendFailSeen <- struct{}{}:
			default:
			}
		}
	})
	defer sniproxy.VerifSetHook(nil)
	p, err := snix.NewPeer()
	if err != nil {
		out.skipped, out.note = true, "peer: "+err.Error()
		return out
	}
	defer p.Close(5 * time.Second)

	n := 0
	sendfail := false
	idOf := map[int]uint64{} // caller -> id
	callerOf := map[uint64]int{}
	firstGood := map[int]string{} // caller -> first well-formed matching reply body (oracle)
	answeredBeforeFatal := map[int]bool{}
	results := []string{}
	var mu sync.Mutex
	var wg sync.WaitGroup
	dead := false // reader of the client is dead (fatal frame)
	lateIdx := -1
	cancels := map[int]context.CancelFunc{}
	cancelled := map[int]bool{}
	readSize := 0
	partialCaller := -1
	var lateRelease, lateReached chan struct{}
	_ = lateIdx

	for _, line := range sc.lines {
		ws := strings.Fields(line)
		switch ws[0] {
		case "sendfail":
			sendfail = true
			out.unordered = true
			p.CConn.SetWriteDeadline(time.Now().Add(-time.Second))
		case "calls":
			n = atoi(kv(ws, "n"))
			results = make([]string, n)
			for i := range results {
				results[i] = "stuck"
			}
			cancels = map[int]context.CancelFunc{}
			ctxOf := map[int]context.Context{}
			if cl := kv(ws, "ctx"); cl != "" {
				for _, x := range strings.Split(cl, ",") {
					ctx, cancel := context.WithCancel(context.Background())
					ctxOf[atoi(x)], cancels[atoi(x)] = ctx, cancel
				}
			}
			readSize = 0
			if kv(ws, "kind") == "read" {
				readSize = atoi(kv(ws, "size"))
			}
			typs := make([]string, n)
			for i := range typs {
				typs[i] = "1"
				if readSize > 0 {
					typs[i] = "4"
				}
			}
			initLine := "init typ=" + strings.Join(typs, ",")
			if cl := kv(ws, "ctx"); cl != "" {
				initLine += " ctx=" + cl
			}
			out.model = append(out.model, initLine)
			for i := 0; i < n; i++ {
				wg.Add(1)
				go func(i int) {
					defer wg.Done()
					var msg string
					var err error
					if readSize > 0 {
						buf := make([]byte, readSize)
						var k int
						k, err = p.Client.Tunnel(uint64(1000 + i)).Read(buf)
						if err == nil && k <= len(buf) {
							msg = string(buf[:k])
						}
					} else {
						ctx := context.Background()
						if c, ok := ctxOf[i]; ok {
							ctx = c
						}
						msg, err = p.Client.Hello(ctx, fmt.Sprintf("tag%d", i))
					}
					mu.Lock()
					defer mu.Unlock()
					if err == nil {
						results[i] = "ok:" + hx.Hex([]byte(msg))
					} else {
						results[i] = snix.ErrClass(err)
					}
				}(i)
			}
			if sendfail {
				// ids are unknown: nothing reaches the peer; the model takes the callers in index order
				for i := 0; i < n; i++ {
					out.model = append(out.model, fmt.Sprintf("ev check %d", i), fmt.Sprintf("ev enqueue %d", i))
				}
				out.model = append(out.model, "ev sendfail")
				select {
				case <-sendFailSeen:
				case <-time.After(10 * time.Second):
					out.skipped, out.note = true, "request write did not fail"
					return out
				}
				break
			}
			for k := 0; k < n; k++ {
				r, ok := p.NextReq(10 * time.Second)
				if !ok {
					out.skipped, out.note = true, "peer did not receive all requests"
					return out
				}
				tag, _ := snix.ParseStr(r.Body)
				c := atoi(strings.TrimPrefix(tag, "tag"))
				if readSize > 0 && len(r.Body) >= 8 {
					c = int(binary.LittleEndian.Uint64(r.Body)) - 1000
				}
				idOf[c] = r.ID
				callerOf[r.ID] = c
			}
			// the model takes the calls in id order
			ids := make([]int, 0, n)
			for c := range idOf {
				ids = append(ids, c)
			}
			sort.Slice(ids, func(a, b int) bool { return idOf[ids[a]] < idOf[ids[b]] })
			for _, c := range ids {
				out.model = append(out.model, fmt.Sprintf("ev check %d", c), fmt.Sprintf("ev enqueue %d", c), "ev take")
			}
		case "frame", "raw", "text":
			if dead {
				continue
			}
			var frame []byte
			if ws[0] == "text" {
				p.Conn.WriteMessage(1, []byte("hello"))
				continue
			}
			if ws[0] == "raw" {
				frame = hx.UnHex(ws[1])
			} else {
				c := atoi(kv(ws, "c"))
				id := idOf[c]
				good := fmt.Sprintf("R%d-%d", c, len(out.model))
				switch ws[1] {
				case "ok":
					frame = snix.ReplyFrame(id, helloTyp, 0, snix.StrBody(good))
					if _, seen := firstGood[c]; !seen && !cancelled[c] {
						firstGood[c] = good
						answeredBeforeFatal[c] = true
					}
				case "okfrag":
					frame = snix.ReplyFrame(id, helloTyp, 0, snix.StrBody(good))
					if _, seen := firstGood[c]; !seen && !cancelled[c] {
						firstGood[c] = good
						answeredBeforeFatal[c] = true
					}
					cut := atoi(kv(ws, "cut"))
					if cut >= len(frame) {
						cut = len(frame) - 1
					}
					// two raw websocket frames (server frames are not masked): binary, not final; continuation, final
					raw := append([]byte{0x02, byte(cut)}, frame[:cut]...)
					rest := frame[cut:]
					raw = append(raw, 0x80, byte(len(rest)))
					raw = append(raw, rest...)
					if len(rest) < 126 && cut < 126 {
						if _, err := p.Conn.UnderlyingConn().Write(raw); err != nil {
							out.note = "peer send: " + err.Error()
						}
						out.model = append(out.model, fmt.Sprintf("reply cap=%d %s", readSize, hx.Hex(frame)))
						continue
					}
				case "okread":
					data := make([]byte, atoi(kv(ws, "len")))
					for k := range data {
						data[k] = byte(c*31 + k*7 + 1)
					}
					body, _ := sniproxy.VerifEncode("readResponse", []sniproxy.VerifVal{{K: 'b', B: data}, {K: 'e'}})
					frame = snix.ReplyFrame(id, 4, 0, body)
					if _, seen := firstGood[c]; !seen {
						firstGood[c] = string(data)
						answeredBeforeFatal[c] = true
					}
				case "dup":
					frame = snix.ReplyFrame(id, helloTyp, 0, snix.StrBody("DUP"+good))
					if _, seen := firstGood[c]; !seen {
						firstGood[c] = "DUP" + good
					}
				case "unknown":
					frame = snix.ReplyFrame(uint64(atoi(kv(ws, "id"))), helloTyp, 0, snix.StrBody("UNKNOWN"))
				case "mistyped":
					frame = snix.ReplyFrame(id, uint8(atoi(kv(ws, "typ"))), 0, snix.StrBody("MISTYPED"))
					if _, seen := firstGood[c]; !seen {
						firstGood[c] = "\x00consumed-by-mistyped"
					}
				case "truncbody":
					b := snix.StrBody(good + "-long-enough-body")
					cut := atoi(kv(ws, "cut"))
					if cut > len(b) {
						cut = len(b) - 1
					}
					frame = snix.ReplyFrame(id, helloTyp, 0, b[:cut])
					if _, seen := firstGood[c]; !seen {
						firstGood[c] = "\x00consumed-by-truncated"
					}
				case "trailing":
					frame = append(snix.ReplyFrame(id, helloTyp, 0, snix.StrBody(good)), 1, 2, 3)
					if _, seen := firstGood[c]; !seen {
						firstGood[c] = good
					}
				case "fatal":
					frame = snix.ReplyFrame(id, helloTyp, uint8(atoi(kv(ws, "code"))), nil)
					dead = true
				case "hugelen":
					l, _ := strconv.ParseUint(kv(ws, "len"), 10, 64)
					frame = snix.ReplyFrame(id, helloTyp, 0, append(snix.U64(l), 'x'))
					if _, seen := firstGood[c]; !seen {
						// int(len) <= 0 decodes as an empty string followed by trailing bytes: completes OK with ""
						if l >= 1<<63 {
							firstGood[c] = ""
						} else {
							firstGood[c] = "\x00consumed-by-truncated"
						}
					}
				}
			}
			if err := p.Send(frame); err != nil {
				out.note = "peer send: " + err.Error()
			}
			out.model = append(out.model, fmt.Sprintf("reply cap=%d %s", readSize, hx.Hex(frame)))
		case "latecall":
			// a caller passes asyncCall's shutdown check and is held there; it enqueues only after
			// the shutdown call has been sent
			lateIdx = n
			n++
			results = append(results, "stuck")
			lateRelease = make(chan struct{})
			lateReached = make(chan struct{})
			setLate(lateRelease, lateReached)
			wg.Add(1)
			go func(i int) {
				defer wg.Done()
				msg, err := p.Client.Hello(context.Background(), "late")
				mu.Lock()
				defer mu.Unlock()
				if err == nil {
					results[i] = "ok:" + hx.Hex([]byte(msg))
				} else {
					results[i] = snix.ErrClass(err)
				}
			}(lateIdx)
			select {
			case <-lateReached:
			case <-time.After(10 * time.Second):
				out.skipped, out.note = true, "late caller did not reach its schedule point"
				close(lateRelease)
				return out
			}
		case "shutdown":
			out.modelFree = true // the interleaving of the shutdown with the late caller is compared by the oracle only
			go p.Client.Close()
			var sd snix.Req
			okReq := false
			for k := 0; k < 4; k++ {
				r, ok := p.NextReq(10 * time.Second)
				if ok && r.Typ == 0 {
					sd, okReq = r, true
					break
				}
			}
			if !okReq {
				out.skipped, out.note = true, "shutdown request did not arrive"
				if lateRelease != nil {
					close(lateRelease)
				}
				return out
			}
			if lateRelease != nil {
				close(lateRelease) // enqueued behind the shutdown that was already sent
				time.Sleep(30 * time.Millisecond)
			}
			p.Send(snix.ReplyFrame(sd.ID, 0, 0, nil)) // the endpoint acknowledges the shutdown; nothing else was answered
			time.Sleep(30 * time.Millisecond)
		case "cancel":
			c := atoi(kv(ws, "c"))
			if cancel, ok := cancels[c]; ok {
				cancel()
				cancelled[c] = true
				// the caller must come back on its own, whatever the peer does
				deadline := time.Now().Add(5 * time.Second)
				for {
					mu.Lock()
					r := results[c]
					mu.Unlock()
					if r != "stuck" || time.Now().After(deadline) {
						break
					}
					time.Sleep(time.Millisecond)
				}
				out.model = append(out.model, fmt.Sprintf("ev giveup %d", c))
			}
		case "partial":
			if dead || sendfail || out.modelFree {
				continue
			}
			marker := snix.ReplyFrame(markerID, helloTyp, 0, snix.StrBody("MARK"))
			p.Send(marker)
			out.model = append(out.model, "reply cap=0 "+hx.Hex(marker))
			select {
			case <-markerSeen:
			case <-time.After(10 * time.Second):
				out.skipped, out.note = true, "marker frame not consumed within 10 s"
				out.readerDied = true
				return out
			}
			c := atoi(kv(ws, "c"))
			announced, arrived := atoi(kv(ws, "announced")), atoi(kv(ws, "arrived"))
			part := snix.ReplyFrame(idOf[c], helloTyp, 0, append(snix.U64(uint64(announced)), bytes.Repeat([]byte("A"), arrived)...))
			// a non-final binary fragment, written below the websocket library (server frames are not masked)
			hdr := []byte{0x02, byte(len(part))}
			if len(part) >= 126 {
				hdr = []byte{0x02, 126, byte(len(part) >> 8), byte(len(part))}
			}
			p.Conn.UnderlyingConn().Write(append(hdr, part...))
			time.Sleep(20 * time.Millisecond)
			p.Sever()
			partialCaller = c
			out.model = append(out.model, "reply cap=0 "+hx.Hex(part), "ev sever", "quiesce")
		case "sever":
			// let the client consume what was sent before the cut (frames are ordered on the
			// connection, and the cut is observed by the reader only after them)
			if !dead && !sendfail && !out.modelFree {
				// marker frame: wait until the serve loop has seen its fetch, so that every
				// earlier frame has been fully handled before the cut (a TCP reset may
				// otherwise discard frames still in flight)
				marker := snix.ReplyFrame(markerID, helloTyp, 0, snix.StrBody("MARK"))
				p.Send(marker)
				out.model = append(out.model, "reply cap=0 "+hx.Hex(marker))
				select {
				case <-markerSeen:
				case <-time.After(10 * time.Second):
					out.skipped, out.note = true, "marker frame not consumed within 10 s"
					out.readerDied = true
					return out
				}
			}
			p.Sever()
			if !dead {
				out.model = append(out.model, "ev sever")
			}
			out.model = append(out.model, "quiesce")
		}
	}
	returned := hx.WithTimeout(10*time.Second, wg.Wait)
	if !returned {
		// re-check once more, generously, before calling anything stuck
		returned = hx.WithTimeout(10*time.Second, wg.Wait)
	}
	mu.Lock()
	out.results = append([]string{}, results...)
	mu.Unlock()
	out.model = append(out.model, "results")
	if partialCaller >= 0 && partialCaller < len(out.results) && out.results[partialCaller] == "err:2" {
		// whether the cut shows as an unexpected EOF or as a reset is the kernel's choice
		out.results[partialCaller] = "err:eof"
	}

	// direct oracle
	for c := range cancelled {
		if c < len(out.results) && out.results[c] != "err:ctx" {
			rep.Fail("cancelled-call-did-not-return-its-context-error", fmt.Sprintf("caller %d, whose context was cancelled before any reply to it was sent, ended with %s", c, out.results[c]), sc.lines)
		}
	}
	for c, r := range out.results {
		if cancelled[c] {
			continue
		}
		if want, answered := firstGood[c]; answered && !strings.HasPrefix(want, "\x00") && !sendfail && answeredBeforeFatal[c] && !strings.HasPrefix(r, "ok:") && r != "stuck" {
			rep.Fail("answered-call-not-completed", fmt.Sprintf("caller %d got %s although the peer sent a well-formed reply %q for its id and type before any fatal frame", c, r, want), sc.lines)
		}
		switch {
		case r == "stuck":
			rep.Fail("caller-never-returned", fmt.Sprintf("caller %d did not return within 20 s after the connection was cut", c), sc.lines)
		case strings.HasPrefix(r, "ok:"):
			got := string(hx.UnHex(strings.TrimPrefix(r, "ok:")))
			want, any := firstGood[c]
			if sendfail || !any {
				rep.Fail("ok-without-reply", fmt.Sprintf("caller %d completed successfully (%q) although the peer never replied to it", c, got), sc.lines)
			} else if got != want {
				rep.Fail("foreign-or-late-reply", fmt.Sprintf("caller %d got %q, the first matching reply for its id was %q", c, got, want), sc.lines)
			}
		}
	}
	return out
}

// canonModel maps the model's results line to the implementation's vocabulary.
func canonModel(line string) []string {
	var out []string
	for _, r := range strings.Split(line, ",") {
		switch {
		case strings.HasPrefix(r, "ok:b:"):
			out = append(out, "ok:"+strings.TrimSuffix(strings.TrimPrefix(r, "ok:b:"), "+e:0:-"))
		case r == "err:3" || r == "err:4":
			out = append(out, "err:eof")
		case r == "err:6":
			out = append(out, "err:ctx")
		case r == "ghost":
			out = append(out, "ok:-")
		case strings.HasPrefix(r, "err:"):
			out = append(out, r)
		default:
			out = append(out, "stuck")
		}
	}
	return out
}

func main() {
	log.SetOutput(io.Discard)
	f := hx.ParseFlags()
	rep := hx.NewReport("C03", f)
	rep.Rule = "scenario = N concurrent Hello calls over a real websocket + a scripted peer (replies in a random order with duplicated, " +
		"unknown-id, mistyped, truncated, trailing-bytes, huge-length, fatal-errcode, short and text frames, request-write failure) ending in a cut; " +
		"distinct = distinct script; non-trivial = at least one reply or fault frame"
	r := hx.NewRand(f.Seed)
	var scs []scenario
	if f.Replay != "" {
		ops, err := hx.ReadReplayOps(f.Replay)
		if err != nil {
			fmt.Println("replay:", err)
			return
		}
		if len(ops) == 1 && strings.Contains(ops[0], "\n") { // a journalled scenario
			ops = strings.Split(ops[0], "\n")
		}
		scs = append(scs, scenario{ops})
	} else {
		for _, ops := range hx.CorpusOps("C03") {
			scs = append(scs, scenario{ops})
		}
		nq := 8
		if f.Thorough() {
			nq = 60
		}
		for i := 0; i < nq; i++ { // which of two ready channels the loop serves first is random: repeat
			scs = append(scs, scenario{[]string{"queuedcancel"}})
		}
		n := 400
		if f.Thorough() {
			n = 20000
		}
		for i := 0; i < n; i++ {
			scs = append(scs, genScenario(r, f.Thorough()))
		}
	}
	var lines []string
	type span struct{ from, to int }
	var spans []span
	var outs []outcome
	jr := hx.NewJournal(f.Work)
	defer jr.Clear()
	t0 := time.Now()
	budget := 2 * time.Minute
	if f.Thorough() {
		budget = 15 * time.Minute
	}
	deadReaders := 0
	for _, sc := range scs {
		if time.Since(t0) > budget {
			rep.Note("time budget reached after %d scenarios", rep.Evaluations)
			break
		}
		if len(rep.OracleFailures) >= 6 || deadReaders >= 3 {
			rep.Note("stopping early: violations already recorded")
			break
		}
		jr.Risky(strings.Join(sc.lines, "\n"))
		o := runScenario(sc, rep)
		if o.readerDied {
			// the reader stopped consuming frames although no fatal frame was sent and the connection is up
			o2 := runScenario(sc, rep)
			if o2.readerDied {
				deadReaders++
				rep.Fail("reader-died-on-benign-frame", "after this script (no frame with an error code, connection alive) the reader no longer consumes frames: a marker frame was not fetched within 10 s, twice", sc.lines)
			}
		}
		if o.skipped {
			rep.Note("scenario skipped: %s", o.note)
			rep.Count("skipped")
			continue
		}
		rep.Case(sc.canon(), len(sc.lines) > 2)
		for _, l := range sc.lines {
			fs := strings.Fields(l)
			if fs[0] == "frame" {
				rep.Count("frame:" + fs[1])
			} else {
				rep.Count("line:" + fs[0])
			}
		}
		spans = append(spans, span{len(lines), len(lines) + len(o.model)})
		lines = append(lines, o.model...)
		outs = append(outs, o)
		if len(rep.Samples) < 4 {
			rep.Sample(map[string]interface{}{"script": sc.lines, "results": o.results})
		}
	}
	model, err := hx.RunDriver(f.Driver, nil, lines)
	if err != nil {
		rep.Note("driver failed: %v", err)
		rep.ModelAvailable = false
	} else if model != nil {
		for k, sp := range spans {
			gotL, wantL := append([]string{}, outs[k].results...), canonModel(model[sp.to-1])
			if outs[k].unordered { // which caller the serve loop took first is not observable
				sort.Strings(gotL)
				sort.Strings(wantL)
			}
			got := strings.Join(gotL, ",")
			want := strings.Join(wantL, ",")
			rejected := ""
			for i := sp.from; i < sp.to; i++ {
				if strings.HasPrefix(model[i], "rejected") || model[i] == "bad-op" {
					rejected = lines[i] + " -> " + model[i]
				}
			}
			if outs[k].modelFree {
				rep.TracesValidated++
				continue
			}
			if rejected != "" {
				rep.Disagree("transport-script", strings.Join(lines[sp.from:sp.to], " | "), got, "model rejected: "+rejected)
			} else if got != want {
				rep.Disagree("transport-script", strings.Join(lines[sp.from:sp.to], " | "), got, want)
			}
			rep.TracesValidated++
		}
	}
	rep.Write(f.Out)
}
