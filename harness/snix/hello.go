package snix

import (
	"crypto/tls"
	"net"
	"time"
)

// ClientHello returns the bytes of a real crypto/tls ClientHello for name.
func ClientHello(name string) []byte {
	c1, c2 := net.Pipe()
	done := make(chan []byte, 1)
	go func() {
		buf := make([]byte, 1<<16)
		c2.SetReadDeadline(time.Now().Add(5 * time.Second))
		n, _ := c2.Read(buf)
		// a record may arrive in pieces on a pipe: read until the record is complete
		for n >= 5 && n < 5+(int(buf[3])<<8|int(buf[4])) {
			m, err := c2.Read(buf[n:])
			if err != nil {
				break
			}
			n += m
		}
		done <- append([]byte{}, buf[:n]...)
		c2.Close()
	}()
	cl := tls.Client(c1, &tls.Config{ServerName: name, InsecureSkipVerify: true})
	cl.SetDeadline(time.Now().Add(5 * time.Second))
	cl.Handshake()
	c1.Close()
	return <-done
}

// ClientHelloCfg returns the bytes of the ClientHello a crypto/tls client sends for cfg.
func ClientHelloCfg(cfg *tls.Config) []byte {
	c1, c2 := net.Pipe()
	done := make(chan []byte, 1)
	go func() {
		var acc []byte
		buf := make([]byte, 1<<16)
		c2.SetReadDeadline(time.Now().Add(5 * time.Second))
		for {
			n, err := c2.Read(buf)
			acc = append(acc, buf[:n]...)
			if len(acc) >= 5 && len(acc) >= 5+(int(acc[3])<<8|int(acc[4])) {
				break
			}
			if err != nil {
				break
			}
		}
		done <- acc
		c2.Close()
	}()
	cl := tls.Client(c1, cfg)
	cl.SetDeadline(time.Now().Add(5 * time.Second))
	cl.Handshake()
	c1.Close()
	return <-done
}
