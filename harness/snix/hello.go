package snix

import (
	"crypto/tls"
	"net"
	"time"
)

// ClientHello returns the bytes of a real crypto/tls ClientHello for name.
func ClientHello(name string) []byte {
	c1, c2 := net.Pipe()
	done := make(chan []byte, 1)
	go func() {
		buf := make([]byte, 1<<16)
		c2.SetReadDeadline(time.Now().Add(5 * time.Second))
		n, _ := c2.Read(buf)
		// a record may arrive in pieces on a pipe: read until the record is complete
		for n >= 5 && n < 5+(int(buf[3])<<8|int(buf[4])) {
			m, err := c2.Read(buf[n:])
			if err != nil {
				break
			}
			n += m
		}
		done <- append([]byte{}, buf[:n]...)
		c2.Close()
	}()
	cl := tls.Client(c1, &tls.Config{ServerName: name, InsecureSkipVerify: true})
	cl.SetDeadline(time.Now().Add(5 * time.Second))
	cl.Handshake()
	c1.Close()
	return <-done
}

// ClientHelloCfg returns the bytes of the ClientHello a crypto/tls client sends for cfg.
func ClientHelloCfg(cfg *tls.Config) []byte {
	c1, c2 := net.Pipe()
	done := make(chan []byte, 1)
	go func() {
		var acc []byte
		buf := make([]byte, 1<<16)
		c2.SetReadDeadline(time.Now().Add(5 * time.Second))
		for {
			n, err := c2.Read(buf)
			acc = append(acc, buf[:n]...)
			if len(acc) >= 5 && len(acc) >= 5+(int(acc[3])<<8|int(acc[4])) {
				break
			}
			if err != nil {
				break
			}
		}
		done <- acc
		c2.Close()
	}()
	cl := tls.Client(c1, cfg)
	cl.SetDeadline(time.Now().Add(5 * time.Second))
	cl.Handshake()
	c1.Close()
	return <-done
}

// PadHello appends a padding extension (type 21) to a crypto/tls ClientHello so
// that the record body has exactly `body` bytes; ok is false when it cannot.
func PadHello(h []byte, body int) ([]byte, bool) {
	if len(h) < 5+4+2+32+1 {
		return nil, false
	}
	cur := len(h) - 5
	if body < cur+4 {
		return nil, false
	}
	o := 5 + 4 + 2 + 32
	o += 1 + int(h[o])
	o += 2 + (int(h[o])<<8 | int(h[o+1]))
	o += 1 + int(h[o])
	if o+2 > len(h) {
		return nil, false
	}
	extLen := int(h[o])<<8 | int(h[o+1])
	if o+2+extLen != len(h) {
		return nil, false
	}
	pad := body - cur - 4
	out := append([]byte{}, h...)
	out = append(out, 0, 21, byte(pad>>8), byte(pad))
	out = append(out, make([]byte, pad)...)
	newExt := extLen + 4 + pad
	out[o], out[o+1] = byte(newExt>>8), byte(newExt)
	hs := body - 4
	out[6], out[7], out[8] = byte(hs>>16), byte(hs>>8), byte(hs)
	out[3], out[4] = byte(body>>8), byte(body)
	return out, true
}
