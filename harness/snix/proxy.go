package snix

import (
	"context"
	"fmt"
	"net"
	"net/http/httptest"
	"strings"
	"sync"
	"sync/atomic"
	"time"

	"github.com/gorilla/websocket"
	"shanhu.io/g/aries"
	"shanhu.io/g/sniproxy"
)

// Rig is a whole proxy in one process: server, front listener, endpoints.
type Rig struct {
	Srv    *sniproxy.Server
	TS     *httptest.Server
	Lis    net.Listener
	Cancel context.CancelFunc
	Front  chan struct{} // closed when ServeFront returned
	Opt    *sniproxy.Options
	// SideDialDelay slows down every websocket dial of an endpoint except its first (the control connection)
	SideDialDelay time.Duration
	mu            sync.Mutex
	eps           []*sniproxy.Endpoint
}

// NewRig starts a server whose lookup maps "<x>.test" to endpoint "ep<x>",
// with the extra destinations given by lookup (may be nil).
func NewRig(mode string, lookup func(string) (*sniproxy.Dest, error), cfg *sniproxy.ServerConfig) (*Rig, error) {
	r := &Rig{Front: make(chan struct{})}
	switch mode {
	case "legacy":
		r.Opt = &sniproxy.Options{}
	case "siding":
		r.Opt = &sniproxy.Options{Siding: true}
	case "siding-addr":
		r.Opt = &sniproxy.Options{Siding: true, DialWithAddr: true}
	default:
		return nil, fmt.Errorf("unknown mode %q", mode)
	}
	if cfg == nil {
		cfg = &sniproxy.ServerConfig{}
	}
	if lookup == nil {
		lookup = func(domain string) (*sniproxy.Dest, error) {
			if strings.HasSuffix(domain, ".test") {
				return &sniproxy.Dest{Name: "ep" + strings.TrimSuffix(domain, ".test")}, nil
			}
			return nil, fmt.Errorf("unknown domain")
		}
	}
	cfg.Lookup = lookup
	r.Srv = sniproxy.NewServer(cfg)
	r.TS = httptest.NewServer(aries.Func(func(c *aries.C) error {
		c.User = "ep" + strings.TrimPrefix(c.Path, "/")
		return r.Srv.ServeBack(c)
	}))
	lis, err := net.Listen("tcp", "127.0.0.1:0")
	if err != nil {
		return nil, err
	}
	r.Lis = lis
	ctx, cancel := context.WithCancel(context.Background())
	r.Cancel = cancel
	go func() { r.Srv.ServeFront(ctx, lis); close(r.Front) }()
	return r, nil
}

// Endpoint connects endpoint "ep<name>" and waits until it is registered.
func (r *Rig) Endpoint(name string) (*sniproxy.Endpoint, error) {
	var dials int32
	delay := r.SideDialDelay
	wd := &websocket.Dialer{ReadBufferSize: 64 << 10, WriteBufferSize: 64 << 10}
	if delay > 0 {
		wd.NetDialContext = func(ctx context.Context, network, addr string) (net.Conn, error) {
			if atomic.AddInt32(&dials, 1) > 1 {
				time.Sleep(delay)
			}
			var d net.Dialer
			return d.DialContext(ctx, network, addr)
		}
	}
	ep, err := sniproxy.Dial(context.Background(), &sniproxy.StaticRouter{Host: r.TS.Listener.Addr().String()},
		&sniproxy.DialOption{Path: "/" + name, WithoutTLS: true, TunnelOptions: r.Opt, Dialer: wd})
	if err != nil {
		return nil, err
	}
	for i := 0; r.Srv.VerifEndpointPtr("ep"+name) == 0; i++ {
		if i > 5000 {
			ep.Close()
			return nil, fmt.Errorf("endpoint %s never registered", name)
		}
		time.Sleep(time.Millisecond)
	}
	r.mu.Lock()
	r.eps = append(r.eps, ep)
	r.mu.Unlock()
	return ep, nil
}

// Close tears everything down.
func (r *Rig) Close() {
	r.mu.Lock()
	eps := r.eps
	r.mu.Unlock()
	for _, ep := range eps {
		go ep.Close()
	}
	r.Cancel()
	select {
	case <-r.Front:
	case <-time.After(10 * time.Second):
	}
	r.TS.CloseClientConnections()
	go r.TS.Close()
}
