// Package snix has what the sniproxy harnesses share: a scripted websocket
// peer for the RPC client, frame builders, result classification.
package snix

import (
	"context"
	"encoding/binary"
	"errors"
	"net"
	"net/http"
	"net/http/httptest"
	"strings"
	"sync"
	"time"

	"github.com/gorilla/websocket"
	"shanhu.io/g/sniproxy"
)

// Peer is the scripted remote end of one control websocket.
type Peer struct {
	srv    *httptest.Server
	connCh chan *websocket.Conn
	Conn   *websocket.Conn // peer side
	Client *sniproxy.VerifClient
	CConn  *websocket.Conn // client side
	reqs   chan Req
	wg     sync.WaitGroup
	wmu    sync.Mutex // a websocket connection takes one writer at a time
}

// Req is a request frame seen by the peer.
type Req struct {
	ID   uint64
	Typ  uint8
	Body []byte
}

// NewPeer starts a websocket server, dials it, and wraps the client side in
// the real endpoint client, whose serve loop is started.
func NewPeer() (*Peer, error) { return NewPeerOpt(nil) }

// NewPeerOpt is NewPeer with tunnel options for the client side.
func NewPeerOpt(opt *sniproxy.Options) (*Peer, error) {
	p := &Peer{connCh: make(chan *websocket.Conn, 1), reqs: make(chan Req, 1024)}
	up := &websocket.Upgrader{ReadBufferSize: 64 << 10, WriteBufferSize: 64 << 10}
	p.srv = httptest.NewServer(http.HandlerFunc(func(w http.ResponseWriter, r *http.Request) {
		c, err := up.Upgrade(w, r, nil)
		if err != nil {
			return
		}
		p.connCh <- c
	}))
	u := "ws" + strings.TrimPrefix(p.srv.URL, "http")
	cc, _, err := websocket.DefaultDialer.Dial(u, nil)
	if err != nil {
		p.srv.Close()
		return nil, err
	}
	p.CConn = cc
	select {
	case p.Conn = <-p.connCh:
	case <-time.After(5 * time.Second):
		return nil, errors.New("peer: no connection")
	}
	p.Client = sniproxy.VerifNewClient(cc, opt)
	p.wg.Add(2)
	go func() {
		defer p.wg.Done()
		p.Client.Serve()
	}()
	go func() {
		defer p.wg.Done()
		for {
			_, bs, err := p.Conn.ReadMessage()
			if err != nil {
				close(p.reqs)
				return
			}
			if len(bs) < 9 {
				continue
			}
			p.reqs <- Req{ID: binary.LittleEndian.Uint64(bs), Typ: bs[8], Body: bs[9:]}
		}
	}()
	return p, nil
}

// NextReq waits for the next request frame.
func (p *Peer) NextReq(d time.Duration) (Req, bool) {
	select {
	case r, ok := <-p.reqs:
		return r, ok
	case <-time.After(d):
		return Req{}, false
	}
}

// Send writes one binary frame to the client.
func (p *Peer) Send(frame []byte) error {
	p.wmu.Lock()
	defer p.wmu.Unlock()
	return p.Conn.WriteMessage(websocket.BinaryMessage, frame)
}

// Sever cuts the TCP connection under the websocket abruptly.
func (p *Peer) Sever() {
	p.Conn.UnderlyingConn().Close()
}

// Close releases everything; it waits for the serve loop at most d.
func (p *Peer) Close(d time.Duration) bool {
	p.Conn.UnderlyingConn().Close()
	p.CConn.UnderlyingConn().Close()
	done := make(chan struct{})
	go func() { p.wg.Wait(); close(done) }()
	ok := true
	select {
	case <-done:
	case <-time.After(d):
		ok = false
	}
	p.srv.CloseClientConnections()
	go p.srv.Close()
	return ok
}

// U64 is little endian.
func U64(v uint64) []byte {
	var b [8]byte
	binary.LittleEndian.PutUint64(b[:], v)
	return b[:]
}

// ReplyFrame builds id | typ | errcode | body.
func ReplyFrame(id uint64, typ, errcode uint8, body []byte) []byte {
	f := append(U64(id), typ, errcode)
	return append(f, body...)
}

// StrBody is the encoding of one string field.
func StrBody(s string) []byte { return append(U64(uint64(len(s))), s...) }

// ParseStr decodes one string field (for request bodies).
func ParseStr(b []byte) (string, bool) {
	if len(b) < 8 {
		return "", false
	}
	n := binary.LittleEndian.Uint64(b)
	if uint64(len(b)-8) < n {
		return "", false
	}
	return string(b[8 : 8+n]), true
}

// ErrClass maps an error of the transport to the model's error kinds.
func ErrClass(err error) string {
	if err == nil {
		return "nil"
	}
	s := err.Error()
	switch {
	case strings.Contains(s, "already shutdown"):
		return "err:1"
	case strings.Contains(s, "response type"):
		return "err:5"
	case strings.Contains(s, "unexpected EOF"), s == "EOF":
		return "err:eof"
	case errors.Is(err, context.DeadlineExceeded), errors.Is(err, context.Canceled):
		return "err:ctx"
	}
	var ne net.Error
	if errors.As(err, &ne) || strings.Contains(s, "write") || strings.Contains(s, "closed") || strings.Contains(s, "broken pipe") || strings.Contains(s, "reset") {
		return "err:2"
	}
	return "err:other:" + s
}

// FakeProxy is the scripted proxy side of one control websocket: a real Endpoint dials it.
type FakeProxy struct {
	srv     *httptest.Server
	connCh  chan *websocket.Conn
	Conn    *websocket.Conn // proxy side
	EP      *sniproxy.Endpoint
	Replies chan []byte // reply frames written by the endpoint
	hang    chan struct{}
	wmu     sync.Mutex
}

// NewFakeProxy starts a websocket server and lets a real endpoint (legacy mode) dial it.
func NewFakeProxy() (*FakeProxy, error) { return NewFakeProxyOpt(&sniproxy.Options{}, false) }

// NewFakeProxyOpt: with tunnel options; ownDialer makes the endpoint use a caller-supplied websocket
// dialer.  Side-connection handshakes (?side=…) are never answered by this proxy.
func NewFakeProxyOpt(opt *sniproxy.Options, ownDialer bool) (*FakeProxy, error) {
	p := &FakeProxy{connCh: make(chan *websocket.Conn, 1), Replies: make(chan []byte, 1024)}
	up := &websocket.Upgrader{ReadBufferSize: 64 << 10, WriteBufferSize: 64 << 10}
	hang := make(chan struct{})
	p.hang = hang
	p.srv = httptest.NewServer(http.HandlerFunc(func(w http.ResponseWriter, r *http.Request) {
		if r.URL.Query().Get("side") != "" {
			select {
			case <-hang:
			case <-r.Context().Done():
			}
			return
		}
		c, err := up.Upgrade(w, r, nil)
		if err != nil {
			return
		}
		p.connCh <- c
	}))
	dopt := &sniproxy.DialOption{WithoutTLS: true, TunnelOptions: opt}
	if ownDialer {
		dopt.Dialer = &websocket.Dialer{ReadBufferSize: 64 << 10, WriteBufferSize: 64 << 10}
	}
	ep, err := sniproxy.Dial(context.Background(), &sniproxy.StaticRouter{Host: strings.TrimPrefix(p.srv.URL, "http://")}, dopt)
	if err != nil {
		p.srv.Close()
		return nil, err
	}
	p.EP = ep
	select {
	case p.Conn = <-p.connCh:
	case <-time.After(5 * time.Second):
		return nil, errors.New("fake proxy: no connection")
	}
	go func() {
		defer close(p.Replies)
		for {
			_, bs, err := p.Conn.ReadMessage()
			if err != nil {
				return
			}
			p.Replies <- bs
		}
	}()
	return p, nil
}

// Request writes one request frame id | typ | body.
func (p *FakeProxy) Request(id uint64, typ uint8, body []byte) error {
	p.wmu.Lock()
	defer p.wmu.Unlock()
	return p.Conn.WriteMessage(websocket.BinaryMessage, append(append(U64(id), typ), body...))
}

// NextReply waits for the next reply frame.
func (p *FakeProxy) NextReply(d time.Duration) ([]byte, bool) {
	select {
	case r, ok := <-p.Replies:
		return r, ok
	case <-time.After(d):
		return nil, false
	}
}

// Close releases the server.
func (p *FakeProxy) Close() {
	select {
	case <-p.hang:
	default:
		close(p.hang)
	}
	p.Conn.UnderlyingConn().Close()
	p.srv.CloseClientConnections()
	go p.srv.Close()
}
