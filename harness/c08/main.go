// Harness for C08: jsonx / lexing / strtoken terminate on every input, with a
// value or an error.
//
// The implementation calls run in a CHILD PROCESS (this binary re-executed
// with -child) under a per-input watchdog and a memory cap, so a hang is the
// observation DIVERGE and a panic / fatal error is the observation panic.
// The same op lines go to the compiled Lean driver; the outputs are compared
// (accept/reject, number of errors, first error code and position, tokens
// pulled, series entries, token stream of the lexer).  Independently the
// direct oracle is evaluated on the implementation: every call returns within
// the watchdog, without panic, with a value or at least one error.
package main

import (
	"bufio"
	"bytes"
	"flag"
	"fmt"
	"io"
	"os"
	"os/exec"
	"runtime"
	"runtime/debug"
	"sort"
	"strconv"
	"strings"
	"time"

	"shanhu.io/g/jsonx"
	"shanhu.io/g/lexing"
	"shanhu.io/g/strtoken"
	"verif/harness/hx"
)

// ---------------------------------------------------------------------------
// child: executes op lines on the real code, one answer line per op
// ---------------------------------------------------------------------------

const childMaxStack = 64 << 20 // bytes of goroutine stack the child allows

const childMemCap = 1500 << 20 // bytes of heap after which the child gives up (runaway allocation)

func showCode(c string) string {
	if c == "" {
		return "-"
	}
	return c
}

func showErr(e *lexing.Error) string {
	if e == nil {
		return "nil"
	}
	if e.Pos == nil {
		return showCode(e.Code) + "@nopos"
	}
	return fmt.Sprintf("%s@%d:%d", showCode(e.Code), e.Pos.Line, e.Pos.Col)
}

// parsePhase says whether errs come from the lexer/parser (they carry a
// position and a lexer/parser code) rather than from the encoding leaf.
func parsePhase(errs []*lexing.Error) bool {
	if len(errs) == 0 || errs[0] == nil || errs[0].Pos == nil {
		return false
	}
	switch errs[0].Code {
	case "jsonx.unknownType", "jsonx.marshalJSON":
		return false
	}
	return true
}

func errsLine(errs []*lexing.Error, pulled string) string {
	return fmt.Sprintf("errs=%d first=%s pulled=%s", len(errs), showErr(errs[0]), pulled)
}

// badErrs is the part of the direct oracle that looks at a returned error list.
func badErrs(errs []*lexing.Error) string {
	if errs == nil {
		return ""
	}
	if len(errs) == 0 {
		return " !oracle:empty-error-list"
	}
	for _, e := range errs {
		if e == nil || e.Err == nil {
			return " !oracle:nil-error"
		}
	}
	return ""
}

func tm(string) interface{} { return new(interface{}) }

// segments builds the input of a nest op: <hex> <count> pairs, repeated and concatenated.
func segments(ws []string) ([]byte, bool) {
	if len(ws)%2 != 0 {
		return nil, false
	}
	var doc []byte
	for i := 0; i < len(ws); i += 2 {
		n, err := strconv.Atoi(ws[i+1])
		if err != nil || n < 0 {
			return nil, false
		}
		doc = append(doc, bytes.Repeat(hx.UnHex(ws[i]), n)...)
	}
	return doc, true
}

func execOp(line string) (res string) {
	defer func() {
		if r := recover(); r != nil {
			msg := strings.SplitN(fmt.Sprint(r), "\n", 2)[0]
			res = "panic " + strings.ReplaceAll(msg, " ", "_")
		}
	}()
	ws := strings.Fields(line)
	if len(ws) < 2 {
		return "bad-op"
	}
	if ws[0] == "nest" || ws[0] == "drift" || ws[0] == "signs" || ws[0] == "blank" {
		// nest <entry> <hex> <count> ...: a large input given by its repeated segments
		doc, ok := segments(ws[2:])
		if !ok {
			return "bad-op"
		}
		return execDoc(ws[1], doc, ws)
	}
	return execDoc(ws[0], hx.UnHex(ws[1]), ws)
}

func execDoc(kind string, in []byte, ws []string) string {
	switch kind {
	case "tojson":
		out, errs := jsonx.ToJSON(in)
		perrs, pulled := jsonx.VerifC08ToJSONParse(in)
		flag := badErrs(errs)
		if out == nil && errs == nil {
			flag += " !oracle:no-value-no-error"
		}
		if perrs != nil {
			if errs == nil {
				// the lexer or the parser recorded an error while this value was parsed, yet a value is returned
				flag += " !oracle:lexer-error-dropped"
			} else if len(errs) != len(perrs) || showErr(errs[0]) != showErr(perrs[0]) {
				flag += " !shim:tojson-differs"
			}
			return errsLine(perrs, strconv.Itoa(pulled)) + flag
		}
		if errs != nil && parsePhase(errs) {
			flag += " !shim:tojson-differs"
		}
		return fmt.Sprintf("ok pulled=%d entries=0 more=0", pulled) + flag
	case "unmarshal":
		var v interface{}
		err := jsonx.Unmarshal(in, &v)
		dec, pulled := jsonx.VerifC08Decoder(in)
		var v2 interface{}
		errs := dec.Decode(&v2)
		flag := badErrs(errs)
		if perrs, _ := jsonx.VerifC08ToJSONParse(in); perrs != nil {
			// errors recorded while the value was parsed (same parse as ToJSON's): Unmarshal must return the first of them
			if le, ok := err.(*lexing.Error); !ok || !parsePhase([]*lexing.Error{le}) {
				return errsLine(perrs, "?") + flag + " !oracle:lexer-error-dropped"
			}
		}
		if parsePhase(errs) {
			le, ok := err.(*lexing.Error)
			if !ok || showErr(le) != showErr(errs[0]) {
				flag += " !shim:unmarshal-differs"
			}
			return errsLine(errs, strconv.Itoa(pulled())) + flag
		}
		more := dec.More()
		m := 0
		if more {
			m = 1
		}
		if errs == nil && !more && err != nil || errs == nil && more && err == nil || errs != nil && err == nil {
			flag += " !shim:unmarshal-differs"
		}
		return fmt.Sprintf("ok pulled=%d entries=0 more=%d", pulled(), m) + flag
	case "series":
		pres, perrs := jsonx.NewDecoder(bytes.NewReader(in)).DecodeSeries(tm)
		dec, pulled := jsonx.VerifC08Decoder(in)
		res, errs := dec.DecodeSeries(tm)
		flag := badErrs(errs)
		if len(pres) != len(res) || len(perrs) != len(errs) {
			flag += " !shim:series-differs"
		}
		if parsePhase(errs) {
			return errsLine(errs, strconv.Itoa(pulled())) + flag
		}
		if errs != nil {
			return fmt.Sprintf("ok pulled=%d entries=? more=0", pulled()) + flag
		}
		return fmt.Sprintf("ok pulled=%d entries=%d more=0", pulled(), len(res)) + flag
	case "strtok":
		out, errs := strtoken.Parse(string(in))
		flag := badErrs(errs)
		if errs != nil {
			return errsLine(errs, "?") + flag
		}
		return fmt.Sprintf("ok pulled=? entries=%d more=0", len(out)) + flag
	case "lex":
		toks, after, errs := jsonx.VerifC08TokensPastEOF(in, 3)
		var xs []string
		eof := "?"
		for i, t := range toks {
			if i == len(toks)-1 && t.Type == lexing.EOF {
				eof = fmt.Sprintf("%d:%d", t.Pos.Line, t.Pos.Col)
				break
			}
			xs = append(xs, fmt.Sprintf("%d@%d:%d", t.Type, t.Pos.Line, t.Pos.Col))
		}
		ts := strings.Join(xs, ",")
		if ts == "" {
			ts = "-"
		}
		es := "lexerrs=0"
		if errs != nil {
			es = fmt.Sprintf("lexerrs=%d first=%s", len(errs), showErr(errs[0]))
		}
		var as []string
		for _, t := range after {
			as = append(as, fmt.Sprintf("%d@%d:%d", t.Type, t.Pos.Line, t.Pos.Col))
		}
		return fmt.Sprintf("toks=%s eof=%s %s after=%s", ts, eof, es, strings.Join(as, ",")) + badErrs(errs)
	case "deep":
		// deep <hex unit> <count> <hex tail>: oracle only (the unit repeated count times, then the tail)
		if len(ws) != 4 {
			return "bad-op"
		}
		n, _ := strconv.Atoi(ws[2])
		doc := append(bytes.Repeat(in, n), hx.UnHex(ws[3])...)
		_, errs := jsonx.ToJSON(doc)
		_, errs2 := jsonx.NewDecoder(bytes.NewReader(append([]byte("t "), doc...))).DecodeSeries(tm)
		return fmt.Sprintf("returned tojson-errs=%d series-errs=%d", len(errs), len(errs2))
	}
	return "bad-op"
}

func childMain() {
	debug.SetMemoryLimit(1 << 30)
	// Stack use may grow with the nesting (at most maxNestingDepth levels, a few MB), never with the
	// length of the input: 64 MB instead of Go's 1 GB makes a frame per token/line/sign visible at 1e6.
	debug.SetMaxStack(childMaxStack)
	go func() {
		var ms runtime.MemStats
		for {
			time.Sleep(50 * time.Millisecond)
			runtime.ReadMemStats(&ms)
			if ms.HeapAlloc > childMemCap {
				fmt.Fprintln(os.Stderr, "c08-child: memory cap exceeded")
				os.Exit(97)
			}
		}
	}()
	in := bufio.NewReaderSize(os.Stdin, 1<<20)
	out := bufio.NewWriter(os.Stdout)
	for {
		line, err := in.ReadString('\n')
		line = strings.TrimSpace(line)
		if line != "" {
			out.WriteString(execOp(line))
			out.WriteByte('\n')
			out.Flush()
		}
		if err != nil {
			return
		}
	}
}

// ---------------------------------------------------------------------------
// parent: child management with watchdog
// ---------------------------------------------------------------------------

type child struct {
	cmd    *exec.Cmd
	in     io.WriteCloser
	lines  chan string
	stderr *bytes.Buffer
}

func startChild() (*child, error) {
	cmd := exec.Command(os.Args[0], "-child")
	cmd.Env = append(os.Environ(), "GOTRACEBACK=single")
	in, err := cmd.StdinPipe()
	if err != nil {
		return nil, err
	}
	out, err := cmd.StdoutPipe()
	if err != nil {
		return nil, err
	}
	c := &child{cmd: cmd, in: in, lines: make(chan string, 16), stderr: new(bytes.Buffer)}
	cmd.Stderr = &capWriter{buf: c.stderr, max: 4096}
	if err := cmd.Start(); err != nil {
		return nil, err
	}
	go func() {
		sc := bufio.NewScanner(out)
		sc.Buffer(make([]byte, 1<<20), 1<<26)
		for sc.Scan() {
			c.lines <- sc.Text()
		}
		close(c.lines)
	}()
	return c, nil
}

type capWriter struct {
	buf *bytes.Buffer
	max int
}

func (w *capWriter) Write(p []byte) (int, error) {
	if room := w.max - w.buf.Len(); room > 0 {
		if len(p) > room {
			w.buf.Write(p[:room])
		} else {
			w.buf.Write(p)
		}
	}
	return len(p), nil
}

func (c *child) kill() {
	c.in.Close()
	c.cmd.Process.Kill()
	c.cmd.Wait()
}

type runner struct {
	c        *child
	timeout  time.Duration
	j        *hx.Journal
	restarts int
}

// one runs op in the current child. status: "ok", "timeout", "memory", "died".
func (r *runner) one(op string, timeout time.Duration) (string, string, string) {
	if r.c == nil {
		c, err := startChild()
		if err != nil {
			return "", "spawn", err.Error()
		}
		r.c = c
	}
	if _, err := io.WriteString(r.c.in, op+"\n"); err != nil {
		r.c.kill()
		r.c = nil
		return "", "died", "write: " + err.Error()
	}
	t := time.NewTimer(timeout)
	defer t.Stop()
	select {
	case l, ok := <-r.c.lines:
		if ok {
			return l, "ok", ""
		}
		r.c.cmd.Wait()
		detail := r.c.stderr.String()
		code := r.c.cmd.ProcessState.ExitCode()
		r.c.in.Close()
		r.c = nil
		r.restarts++
		if code == 97 {
			return "", "memory", "runaway allocation: heap above the cap without returning"
		}
		first := strings.SplitN(strings.TrimSpace(detail), "\n", 3)
		if len(first) > 2 {
			first = first[:2]
		}
		return "", "died", strings.Join(first, " | ")
	case <-t.C:
		r.c.kill()
		r.c = nil
		r.restarts++
		return "", "timeout", "no answer within " + timeout.String()
	}
}

// batch pipelines ops through the current child (answers are flushed one by
// one, so the first unanswered op is the one that hangs or kills).  It returns
// the answers received and, if not all ops were answered, why.
func (r *runner) batch(ops []string) ([]string, string, string) {
	if r.c == nil {
		c, err := startChild()
		if err != nil {
			return nil, "spawn", err.Error()
		}
		r.c = c
	}
	c := r.c
	done := make(chan struct{})
	go func() {
		defer close(done)
		w := bufio.NewWriterSize(c.in, 1<<16)
		for _, op := range ops {
			if _, err := w.WriteString(op + "\n"); err != nil {
				return
			}
		}
		w.Flush()
	}()
	var res []string
	t := time.NewTimer(r.timeout)
	defer t.Stop()
	for len(res) < len(ops) {
		select {
		case l, ok := <-c.lines:
			if !ok {
				c.cmd.Wait()
				detail := c.stderr.String()
				code := c.cmd.ProcessState.ExitCode()
				c.in.Close()
				<-done
				r.c = nil
				r.restarts++
				if code == 97 {
					return res, "memory", "runaway allocation: heap above the cap without returning"
				}
				first := strings.SplitN(strings.TrimSpace(detail), "\n", 3)
				if len(first) > 2 {
					first = first[:2]
				}
				return res, "died", strings.Join(first, " | ")
			}
			res = append(res, l)
			if !t.Stop() {
				select {
				case <-t.C:
				default:
				}
			}
			t.Reset(r.timeout)
		case <-t.C:
			c.kill()
			<-done
			r.c = nil
			r.restarts++
			return res, "timeout", "no answer within " + r.timeout.String()
		}
	}
	<-done
	return res, "ok", ""
}

// run executes op; a hang is confirmed by two more runs alone with a longer
// watchdog so that machine load cannot produce a DIVERGE.
func (r *runner) run(op string, confirm bool) (string, string) {
	timeout := r.timeout
	if strings.HasPrefix(op, "deep ") || strings.HasPrefix(op, "nest ") || strings.HasPrefix(op, "drift ") || strings.HasPrefix(op, "signs ") || strings.HasPrefix(op, "blank ") {
		timeout = 30 * r.timeout // a megabyte of brackets: seconds of honest work before the stack limit
		confirm = false
	}
	res, st, detail := r.one(op, timeout)
	switch st {
	case "ok":
		return res, ""
	case "timeout", "memory":
		if confirm {
			for k := 0; k < 2; k++ {
				res2, st2, _ := r.one(op, 3*r.timeout)
				if st2 == "ok" {
					return res2, ""
				}
			}
		}
		return "DIVERGE", detail
	case "died":
		return "panic", detail
	}
	return "harness-error", detail
}

func (r *runner) close() {
	if r.c != nil {
		r.c.kill()
		r.c = nil
	}
}

// ---------------------------------------------------------------------------
// generators
// ---------------------------------------------------------------------------

type gen struct {
	r     *hx.Rand
	rep   *hx.Report
	ops   []string
	seen  map[string]bool
	limit int // nesting limit of the source as the model knows it (10000 when it has none)
}

func (g *gen) add(kind string, in []byte, class string) {
	op := kind + " " + hx.Hex(in)
	if g.seen[op] {
		return
	}
	g.seen[op] = true
	g.ops = append(g.ops, op)
	g.rep.Count("gen:" + class)
	g.rep.Count("entry:" + kind)
}

var valueKinds = []string{"tojson", "unmarshal", "lex"}
var allKinds = []string{"tojson", "unmarshal", "series", "lex"}

func (g *gen) addKinds(kinds []string, in []byte, class string) {
	for _, k := range kinds {
		g.add(k, in, class)
	}
}

// valid documents as token lists (so that single-token edits are exact)
var valueDocs = [][]string{
	{"{", "a", ":", "1", ",", "b", ":", "[", "1", ",", "2", ",", "]", ",", "c", ":", "x", ".", "y", "}"},
	{"{", "\n", "\"k\"", ":", "\"v\\n\\u00e9\"", ",", "\n", "r", ":", "`raw\nstr`", ",", "\n", "}", "\n"},
	{"[", "true", ",", "false", ",", "null", ",", "-", "1.5", ",", "+", "2", ",", "1e5", ",", "0x1F", ",", "1.5e-3", "]"},
	{"{", "// line comment\n", "a", ":", "/* block */", "1", "\n", "b", ":", "2", "\n", "}"},
	{"[", "[", "]", ",", "{", "}", ",", "[", "{", "a", ":", "[", "]", "}", "]", "]"},
	{"\"just a string\""},
	{"a", ".", "b", ".", "c"},
	{"{", "name", ":", "\"x\"", ",", "deps", ":", "[", "\"a\"", ",", "\"b\"", "]", ",", "}", ";"},
}

var seriesDocs = [][]string{
	{"foo", "{", "a", ":", "1", "}", "\n", "bar", "[", "1", ",", "2", "]", "\n"},
	{"file_set", "{", "\n", "name", ":", "\"src\"", ",", "\n", "files", ":", "[", "\"a.go\"", ",", "\"b.go\"", "]", ",", "\n", "}", "\n", "\n",
		"\"quoted\"", "{", "}", ";", "x", "1", ";", "y", "\"s\"", "\n", "z", "a", ".", "b"},
	{"// header\n", "rule", "{", "n", ":", "1", "}", "/* c */", "\n", "rule", "{", "n", ":", "2", "}"},
	{"t", "null", ";", "t", "true", ";", "t", "-", "1", ";"},
}

var soupAlphabet = []string{"{", "}", "[", "]", ",", ":", "+", "-", ".", "/", ";", "\n", "a", "true", "null",
	"\"s\"", "`r`", "1", "1.5", "0x1F", "1e", "// c\n", "/* c */", "/* u", "\"u", "`u", "$", "\xff", "\"\\q\""}

// the tokens that matter most for the parser's control flow (exhaustive scopes)
var coreAlphabet = []string{"{", "}", "[", "]", ",", ":", "-", ".", ";", "\n", "a", "\"s\"", "1", "1.5", "null", "$"}

// brackets, separators and one operand of each kind (deeper exhaustive scopes)
var tinyAlphabet = []string{"{", "}", "[", "]", ",", "a", ":", "1", ";"}

func join(toks []string, sep string) []byte { return []byte(strings.Join(toks, sep)) }

func (g *gen) docEdits(doc []string, kinds []string, thorough bool) {
	full := join(doc, " ")
	g.addKinds(kinds, full, "valid-doc")
	g.addKinds(kinds, join(doc, ""), "valid-doc-nospace")
	g.addKinds(kinds, append(append([]byte{}, full...), '\n'), "valid-doc-final-newline")
	g.addKinds(kinds, bytes.TrimRight(full, "\n ;"), "valid-doc-no-final-newline")
	for k := 0; k < len(full); k++ {
		g.addKinds(kinds, full[:k], "prefix")
	}
	for i := range doc {
		del := append(append([]string{}, doc[:i]...), doc[i+1:]...)
		g.addKinds(kinds, join(del, " "), "token-deletion")
	}
	for i := 0; i <= len(doc); i++ {
		alpha := soupAlphabet
		if !thorough {
			// a random third of the alphabet per position
			alpha = nil
			for _, t := range soupAlphabet {
				if g.r.Intn(3) == 0 {
					alpha = append(alpha, t)
				}
			}
		}
		for _, t := range alpha {
			ins := append(append(append([]string{}, doc[:i]...), t), doc[i:]...)
			g.addKinds(kinds, join(ins, " "), "token-insertion")
		}
	}
}

func (g *gen) soupsExhaustive(alpha []string, k int, kinds []string, class string) {
	idx := make([]int, k)
	for {
		toks := make([]string, k)
		for i, x := range idx {
			toks[i] = alpha[x]
		}
		g.addKinds(kinds, join(toks, " "), class)
		i := k - 1
		for i >= 0 {
			idx[i]++
			if idx[i] < len(alpha) {
				break
			}
			idx[i] = 0
			i--
		}
		if i < 0 {
			return
		}
	}
}

func (g *gen) soupsRandom(n, maxTok int, kinds []string) {
	for i := 0; i < n; i++ {
		k := 1 + g.r.Intn(maxTok)
		toks := make([]string, k)
		for j := range toks {
			toks[j] = hx.Pick(g.r, soupAlphabet)
		}
		sep := hx.Pick(g.r, []string{" ", " ", "", "\n"})
		g.addKinds(kinds, join(toks, sep), fmt.Sprintf("soup-random-%d", k))
	}
}

var utf8Bytes = []byte{0x80, 0xBF, 0xC0, 0xC2, 0xDF, 0xE0, 0xA0, 0x9F, 0xED, 0xEF, 0xF0, 0x90, 0x8F, 0xF4, 0xF5, 0xFF, 'a', '"', '\n'}

func (g *gen) utf8Cases(thorough bool) {
	kinds := []string{"lex", "tojson", "strtok"}
	n := 3
	if thorough {
		n = 4
	}
	var rec func(cur []byte)
	rec = func(cur []byte) {
		if len(cur) > 0 {
			g.addKinds(kinds, cur, "utf8-exhaustive")
			g.add("lex", append(append([]byte("\""), cur...), '"'), "utf8-in-string")
			g.add("lex", append(append([]byte("/*"), cur...), "*/ 1"...), "utf8-in-comment")
		}
		if len(cur) == n {
			return
		}
		for _, b := range utf8Bytes {
			if len(cur) >= 2 && !thorough && g.r.Intn(4) != 0 {
				continue
			}
			rec(append(append([]byte{}, cur...), b))
		}
	}
	rec(nil)
	// valid multi-byte runes at token positions
	for _, s := range []string{"é", "日本", "\U0001F600", "a\u00e9b", "{é:1}", "\"é\"", "// é\n1", "\xef\xbf\xbd", "\xed\xa0\x80", "\xf4\x90\x80\x80", "\xe0\x80\x80", "\xc0\x80"} {
		g.addKinds([]string{"lex", "tojson", "series", "strtok"}, []byte(s), "utf8-runes")
	}
}

var unterminated = []string{
	"\"", "\"abc", "\"abc\\", "\"abc\\\"", "\"a\nb\"", "\"\\x4", "\"\\x4\"", "\"\\u12", "\"\\U0001F60", "\"\\400\"", "\"\\ud800\"",
	"\"\\U00110000\"", "\"\\'\"", "\"\\7", "\"\\77", "\"\\", "`", "`abc", "`a\nb", "/", "/*", "/* abc", "/* abc *", "/**", "/**/", "//", "// abc",
	"[", "[[", "[[[[[[[[", "{", "{a", "{a:", "{a:1", "{a:1,", "{a:{b:", "[{", "{a:[", "[1,", "[1", "[1 2", "{a 1}", "{1:2}", "{a:}", "[,]", "[]]", "{}}",
	"-", "+", "- a", "+ \"s\"", "a.", "a..b", "a.1", ".", ":", ",", ";", ";;", "\n", "\n\n", " ", "\t", "\r\n", "", "1 2", "1;", "1;2", "1\n", "1\n2",
	"true false", "nullx", "truefalse", "x y", "{a:1}{b:2}", "[1][2]", "1e", "1e-", "1.", "1.e3", "0x", "0x1g", "1e+5", "00.5", "007", "1..2", "1.2.3",
	"\x00", "a\x00b", "\"\x00\"", "\ufeff1", "#", "@", "'a'", "\\", "a\\b",
}

var floatCases = []string{
	"1e308", "1.7976931348623157e308", "1.7976931348623158e308", "1.797693134862315807e308", "1.797693134862315808e308",
	"1.7976931348623159e308", "1e309", "1e400", "1e401", "1e1000", "1e99999999999999999999", "1e-400", "1e-99999999999999999999", "0e999", "0.0e999",
	"179769313486231570000000000000000000000000000000000000000000000000000000000000000000000000000000000000000000000000000000000000000000000000000000000000000000000000000000000000000000000000000000000000000000000000000000000000000000000000000000000000000000000000000000000000000000000000000000000000000000000000000000000.0",
	"179769313486231580793728971405303415079934132710037826936173778980444968292764750946649017977587207096330286416692887910946555547851940402630657488671505820681908902000708383676273854845817711531764475730270069855571366959622842914819860834936475292719074168444365510704342711559699508093042880177904174497792.0",
	"179769313486231580793728971405303415079934132710037826936173778980444968292764750946649017977587207096330286416692887910946555547851940402630657488671505820681908902000708383676273854845817711531764475730270069855571366959622842914819860834936475292719074168444365510704342711559699508093042880177904174497791.0",
	"0.00000000000000000000000000000000000000000000001e355", "17976931348623158.0e292", "17976931348623157.0e292", "1.5E3", "1E", "1E-", "2.", "0.", "0.e1", "9e9999", "12345678901234567890123.5e-10",
	"- 1e999", "-1e", "+ 1e-", "[1e999]", "{a:1e}", "1e5x", "1e-5-5", "1.5.5", "0x1.8", "0xe5", "0e", "1ee5", "1e5e5",
}

func (g *gen) capCases() {
	for _, n := range []int{19, 20, 21, 25, 45} {
		g.addKinds(allKinds, bytes.Repeat([]byte("$ "), n), "error-cap-lexer")
		g.add("series", bytes.Repeat([]byte("1;\n"), n), "error-cap-parser")
		g.add("series", bytes.Repeat([]byte("a b c\n"), n), "error-cap-parser")
		g.add("series", bytes.Repeat([]byte("a {,}\n"), n), "error-cap-parser")
		g.add("strtok", bytes.Repeat([]byte("\n"), n), "error-cap-lexer")
		g.add("strtok", bytes.Repeat([]byte("\"\\q\" "), n), "error-cap-lexer")
	}
}

var strtokDocs = []string{
	"", "a", "\"a\"", "/something", "ls /x_file", "       ls \t\t a", "\"a-b\" something", "mkdir -p /root/.ssh",
	"\"", "\"asdf\" asdf \"xx", "a\nb", "a\rb", "a\tb", "\ta", "\"a b\"c", "a\"b", "\"\\n\\t\\\"\"", "\"\\q\"", "\"\\x4\"", "\"a\nb\"",
	"a \"b\" c \"d e\" f", "  ", "\n", "\r", "\r\n", "a\r\nb", "é \"é\"", "\xff", "\"\xff\"", "a\xffb", "\x00", "'a b'", "`a b`", "a\\ b", "\"\\", "\"\\\"",
}

func (g *gen) strtokCases(n int) {
	for _, d := range strtokDocs {
		b := []byte(d)
		g.add("strtok", b, "strtok-doc")
		for k := 0; k < len(b); k++ {
			g.add("strtok", b[:k], "strtok-prefix")
		}
	}
	alpha := []string{"a", "bc", "\"s\"", "\"s t\"", "\"u", "\"\\q\"", " ", "  ", "\t", "\n", "\r", "\\", "\"", "'", "\xff", "é"}
	for i := 0; i < n; i++ {
		k := 1 + g.r.Intn(6)
		var sb strings.Builder
		for j := 0; j < k; j++ {
			sb.WriteString(hx.Pick(g.r, alpha))
		}
		g.add("strtok", []byte(sb.String()), "strtok-soup")
	}
}

func (g *gen) randomBytes(n int) {
	jsonish := []byte("{}[],:+-./;\n \t\"`\\aetx019$/*u")
	for i := 0; i < n; i++ {
		l := g.r.Intn(25)
		var b []byte
		if g.r.Bool() {
			b = g.r.Bytes(l)
		} else {
			b = make([]byte, l)
			for j := range b {
				b[j] = jsonish[g.r.Intn(len(jsonish))]
			}
		}
		g.addKinds([]string{"tojson", "unmarshal", "series", "lex", "strtok"}, b, "random-bytes")
	}
}

func (g *gen) generate(thorough bool) {
	for _, d := range valueDocs {
		g.docEdits(d, valueKinds, thorough)
		g.add("series", join(d, " "), "value-doc-as-series")
	}
	for _, d := range seriesDocs {
		g.docEdits(d, []string{"series", "lex"}, thorough)
		g.add("tojson", join(d, " "), "series-doc-as-value")
		g.add("unmarshal", join(d, " "), "series-doc-as-value")
	}
	for _, s := range unterminated {
		g.addKinds(allKinds, []byte(s), "unterminated-or-malformed")
		g.add("series", []byte("t "+s), "unterminated-or-malformed")
		g.add("series", []byte("t "+s+"\nu 1\n"), "unterminated-or-malformed")
		g.add("strtok", []byte(s), "unterminated-or-malformed")
	}
	for _, s := range floatCases {
		g.addKinds(allKinds, []byte(s), "number-leaf")
		g.add("series", []byte("t "+s), "number-leaf")
	}
	g.capCases()
	// complete values followed by lexer-level junk: the lexer's error must not be dropped
	for _, v := range []string{"1", "\"s\"", "{a:1}", "[1,2]", "true", "-1.5", "a.b", "{}", "`r`"} {
		for _, junk := range []string{"/* abc", "/*", "/**", "#", "$", "\"abc", "`abc", "/", "\xff", "'", "\\", "// c", "/* c */ #", "\"\\q\""} {
			for _, sep := range []string{" ", "\n", ";", ""} {
				doc := []byte(v + sep + junk)
				g.addKinds([]string{"tojson", "unmarshal"}, doc, "value-then-lexer-junk")
				g.add("series", []byte("t "+v+sep+junk), "value-then-lexer-junk")
				g.add("series", []byte("t "+v+"\nu "+v+sep+junk), "value-then-lexer-junk")
			}
		}
	}
	g.utf8Cases(thorough)
	// token soups
	g.soupsExhaustive(soupAlphabet, 1, allKinds, "soup-exhaustive-1")
	g.soupsExhaustive(soupAlphabet, 2, allKinds, "soup-exhaustive-2")
	if thorough {
		g.soupsExhaustive(coreAlphabet, 3, allKinds, "soup-exhaustive-3")
		g.soupsExhaustive(coreAlphabet, 4, []string{"tojson", "unmarshal", "series"}, "soup-exhaustive-4")
		g.soupsExhaustive(tinyAlphabet, 5, []string{"tojson", "series"}, "soup-exhaustive-5-tiny")
		g.soupsExhaustive(tinyAlphabet[:6], 6, []string{"tojson", "series"}, "soup-exhaustive-6-brackets")
		g.soupsRandom(120000, 6, allKinds)
		g.strtokCases(60000)
		g.randomBytes(60000)
	} else {
		g.soupsExhaustive(coreAlphabet, 3, []string{"tojson", "series"}, "soup-exhaustive-3")
		g.soupsRandom(2500, 4, allKinds)
		g.strtokCases(1500)
		g.randomBytes(1500)
	}
	g.nestCases(thorough)
	g.driftCases()
	g.signRuns()
	g.blankRuns(thorough)
	// a megabyte of brackets: oracle only (the model answers the same question at 10x the limit above)
	g.ops = append(g.ops, "deep 5b 1000000 -")
	g.rep.Count("gen:deep-nesting")
}

// blankRuns: long runs of line breaks that the semicolon inserter drops
// (blank lines, "\r\n", lines of spaces, comment-only lines) before, between,
// inside and after values and statements, for every entry point.  A value or
// an error, no crash.  Runs up to 1e5 bytes are also compared with the model.
func (g *gen) blankRuns(thorough bool) {
	add := func(kind string, segs ...string) {
		op := "blank " + kind
		for i := 0; i+1 < len(segs); i += 2 {
			op += " " + hx.Hex([]byte(segs[i])) + " " + segs[i+1]
		}
		if g.seen[op] {
			return
		}
		g.seen[op] = true
		g.ops = append(g.ops, op)
		g.rep.Count("gen:blank-line-runs")
		g.rep.Count("entry:" + kind)
	}
	counts := []int{10000, 1000000}
	if thorough {
		counts = append(counts, 100000, 12000000)
	}
	for _, n := range counts {
		ns := strconv.Itoa(n)
		units := []string{"\n", "\r\n", "  \n", "\n// c\n", "\n\t"}
		if n > 1000000 {
			units = units[:1]
		}
		for ui, u := range units {
			for _, kind := range []string{"tojson", "unmarshal", "series"} {
				if n >= 1000000 && ui > 0 && (kind != "series" || !thorough && ui > 1) {
					continue
				}
				if n >= 1000000 && ui > 0 && !thorough {
					add(kind, "t 1", "1", u, ns, "u 2", "1") // quick tier: one more line-break spelling, between statements
					continue
				}
				pre, post := "", ""
				if kind == "series" {
					pre, post = "t ", "\nu [2]\n"
				}
				add(kind, u, ns, pre+"{a:1}", "1") // before
				if n >= 1000000 && !thorough && kind != "series" {
					add(kind, pre+"[", "1", u, ns, "1]", "1") // quick tier: before and inside only
					continue
				}
				add(kind, pre+"{a:1}", "1", u, ns)                               // after
				add(kind, pre+"[", "1", u, ns, "1,", "1", u, ns, "2]"+post, "1") // inside, after '[' and ','
				add(kind, pre+"{a:", "1", u, ns, "1}", "1")                      // after ':'
				if kind == "series" {
					add(kind, "t 1", "1", u, ns, "u 2", "1", u, ns, "v 3", "1") // between statements
					add(kind, u, ns)                                            // nothing else
				}
			}
		}
	}
}

// signRuns: long runs of unary signs (1e4, 1e5, 2e6, 4 MiB), plain and mixed,
// in front of numbers and containers and inside arrays and objects, for every
// entry point.  A sign is not a level of nesting: a value or an error, no
// crash.  Runs up to 1e5 are also compared with the model.
func (g *gen) signRuns() {
	add := func(kind string, segs ...string) {
		op := "signs " + kind
		for i := 0; i+1 < len(segs); i += 2 {
			op += " " + hx.Hex([]byte(segs[i])) + " " + segs[i+1]
		}
		if g.seen[op] {
			return
		}
		g.seen[op] = true
		g.ops = append(g.ops, op)
		g.rep.Count("gen:sign-runs")
		g.rep.Count("entry:" + kind)
	}
	for _, n := range []int{10000, 100000, 2000000, 4 << 20} {
		ns, half := strconv.Itoa(n), strconv.Itoa(n/2)
		for _, kind := range []string{"tojson", "unmarshal", "series"} {
			pre := ""
			if kind == "series" {
				pre = "t "
			}
			add(kind, pre, "1", "-", ns, "1", "1")
			if n > 2000000 {
				continue
			}
			add(kind, pre, "1", "+-", half, "1.5", "1")
			add(kind, pre, "1", "[", "1", "-", ns, "1]", "1")
			if n > 100000 && kind != "tojson" {
				continue
			}
			add(kind, pre, "1", "- ", ns, "1", "1")
			add(kind, pre, "1", "-", ns, "[1]", "1")
			add(kind, pre, "1", "{a:", "1", "+", ns, "1}", "1")
			add(kind, pre, "1", "-", ns)
		}
	}
}

// driftCases: the depth limit must not depend on what was parsed before.  N
// closed objects/lists first (siblings in one list, or earlier statements of
// a series on the same decoder), then a value nested just above the limit, or
// N above it: it must be refused with jsonx.tooDeep, and nothing may crash.
func (g *gen) driftCases() {
	l := g.limit
	add := func(kind string, segs ...string) {
		op := "drift " + kind
		for i := 0; i+1 < len(segs); i += 2 {
			op += " " + hx.Hex([]byte(segs[i])) + " " + segs[i+1]
		}
		if g.seen[op] {
			return
		}
		g.seen[op] = true
		g.ops = append(g.ops, op)
		g.rep.Count("gen:depth-limit-after-closed-siblings")
		g.rep.Count("entry:" + kind)
	}
	for _, n := range []int{1, 100, 10000, 1000000} {
		for _, d := range []int{l + 1, n + l + 1} {
			ns, ds := strconv.Itoa(n), strconv.Itoa(d)
			for _, sib := range []string{"{},", "[],", "{a:[]},"} {
				if n >= 1000000 && sib != "{}," {
					continue
				}
				if n >= 1000000 { // a 3 MB input: one value and one series case each
					add("unmarshal", "[", "1", sib, ns, "[", ds, "]", ds, "]", "1")
					add("series", "t "+strings.TrimSuffix(sib, ",")+"\n", ns, "t ", "1", "[", ds, "]", ds)
					continue
				}
				for _, kind := range []string{"tojson", "unmarshal"} {
					add(kind, "[", "1", sib, ns, "[", ds, "]", ds, "]", "1")
					add(kind, "{k:[", "1", sib, ns, "{a:", ds)
				}
				st := "t " + strings.TrimSuffix(sib, ",") + "\n"
				add("series", st, ns, "t ", "1", "[", ds, "]", ds)
				add("series", st, ns, "t ", "1", "{a:", ds, "1", "1", "}", ds, "\nu 1\n", "1")
			}
		}
	}
}

// nestCases: nestings around the limit (limit-1, limit, limit+1, 10x), closed
// and unclosed, lists, objects and both alternating, for every entry point.
func (g *gen) nestCases(thorough bool) {
	l := g.limit
	counts := []int{l - 1, l, l + 1, 10 * l}
	if thorough {
		counts = append(counts, 1, 2, l/2, l+2, 2*l, 10*l+1)
	}
	type shape struct{ open, mid, close string }
	shapes := []shape{{"[", "", "]"}, {"{a:", "1", "}"}, {"[{a:", "1", "}]"}, {"[1,", "", "]"}}
	add := func(kind string, segs ...string) {
		op := "nest " + kind
		for i := 0; i+1 < len(segs); i += 2 {
			op += " " + hx.Hex([]byte(segs[i])) + " " + segs[i+1]
		}
		if g.seen[op] {
			return
		}
		g.seen[op] = true
		g.ops = append(g.ops, op)
		g.rep.Count("gen:nesting-around-limit")
		g.rep.Count("entry:" + kind)
	}
	for _, n := range counts {
		if n < 1 {
			continue
		}
		for si, sh := range shapes {
			if !thorough && n >= 10*l && si >= 2 {
				continue // quick tier: 10x the limit for plain lists and objects only
			}
			k := n
			if len(sh.open) > 3 { // two levels per unit
				k = (n + 1) / 2
			}
			ns := strconv.Itoa(k)
			for _, kind := range []string{"tojson", "unmarshal", "series"} {
				pre := ""
				if kind == "series" {
					pre = "t "
				}
				add(kind, pre, "1", sh.open, ns, sh.mid, "1", sh.close, ns) // closed
				add(kind, pre, "1", sh.open, ns)                            // unclosed
				if kind == "series" {
					// the statement after a too-deep one is still parsed
					add(kind, pre, "1", sh.open, ns, sh.mid, "1", sh.close, ns, "\nu 1\n", "1")
				}
			}
		}
	}
}

// ---------------------------------------------------------------------------
// comparison
// ---------------------------------------------------------------------------

// canon makes implementation and model lines comparable: fields the
// implementation cannot observe are printed as `?` and copied over.
func canon(impl, model string) (string, string) {
	if i := strings.Index(impl, " !"); i >= 0 {
		impl = impl[:i]
	}
	if strings.HasPrefix(impl, "panic") {
		impl = "panic"
	}
	iw, mw := strings.Fields(impl), strings.Fields(model)
	if len(iw) == len(mw) {
		for k := range iw {
			if strings.HasSuffix(iw[k], "=?") && strings.HasPrefix(mw[k], iw[k][:len(iw[k])-1]) {
				mw[k] = iw[k]
			}
		}
	}
	return strings.Join(iw, " "), strings.Join(mw, " ")
}

func classOf(res string) string {
	ws := strings.Fields(res)
	if len(ws) == 0 {
		return "empty"
	}
	switch {
	case ws[0] == "ok":
		return "ok"
	case strings.HasPrefix(ws[0], "errs="):
		for _, w := range ws {
			if strings.HasPrefix(w, "first=") {
				return "err:" + strings.SplitN(w[6:], "@", 2)[0]
			}
		}
	case strings.HasPrefix(ws[0], "toks="):
		return "lexed"
	}
	return ws[0]
}

// opSize is the input length of a nest/drift op.
func opSize(op string) int {
	ws := strings.Fields(op)
	n := 0
	for i := 2; i+1 < len(ws); i += 2 {
		k, _ := strconv.Atoi(ws[i+1])
		n += k * len(hx.UnHex(ws[i]))
	}
	return n
}

// runDriver runs the Lean driver with an unlimited stack: without a nesting
// limit the model recurses as deep as the input nests.
func runDriver(driver string, lines []string) ([]string, error) {
	if driver == "" {
		return nil, nil
	}
	return hx.RunDriver("/bin/sh", []string{"-c", "ulimit -s unlimited 2>/dev/null; exec \"$0\"", driver}, lines)
}

func main() {
	isChild := flag.Bool("child", false, "run as the watched child: op lines on stdin, answers on stdout")
	f := hx.ParseFlags()
	if *isChild {
		childMain()
		return
	}
	rep := hx.NewReport("C08", f)
	rep.Rule = "op = (entry point, input bytes); entry points: jsonx.ToJSON, jsonx.Unmarshal, Decoder.DecodeSeries, strtoken.Parse, " +
		"the jsonx token stream; inputs: valid documents, all their prefixes, every single-token deletion/insertion, token soups " +
		"(exhaustive small scopes + random), invalid UTF-8, unterminated strings/comments/brackets, with and without final newline, " +
		"number-leaf boundaries, error-cap boundaries, nestings around the depth limit (limit-1, limit, limit+1, 10x; lists, objects, mixed; closed and unclosed), deep values after 1..1e6 closed siblings / earlier series statements, runs of 1e4..4Mi unary signs, runs of 1e4..1.2e7 blank lines / dropped line breaks, complete values followed by lexer-level junk, random bytes; distinct = distinct op line; non-trivial = every op"
	j := hx.NewJournal(f.Work)
	run := &runner{timeout: 2 * time.Second, j: j}
	defer run.close()

	var ops []string
	ncorpus := 0
	if f.Replay != "" {
		var err error
		ops, err = hx.ReadReplayOps(f.Replay)
		if err != nil {
			fmt.Println("replay:", err)
			return
		}
	} else {
		for _, c := range hx.CorpusOps("C08") {
			ops = append(ops, c...)
		}
		ncorpus = len(ops)
		g := &gen{r: hx.NewRand(f.Seed), rep: rep, seen: map[string]bool{}, limit: 10000}
		if fl, err := runDriver(f.Driver, []string{"facts"}); err == nil && len(fl) == 1 {
			if v, err := strconv.Atoi(strings.TrimPrefix(fl[0], "depthLimit=")); err == nil && v >= 2 && v <= 1000000 {
				g.limit = v
			}
			rep.Distribution["model_depth_limit"] = strings.TrimPrefix(fl[0], "depthLimit=")
		}
		for _, op := range ops {
			g.seen[op] = true
		}
		g.generate(f.Thorough())
		ops = append(ops, g.ops...)
	}
	rep.Distribution["corpus_ops"] = ncorpus

	// ---- implementation, in the watched child ----
	impl := make([]string, len(ops))
	hangs := map[string]int{}
	const hangBudget = 8 // per entry point: after that many hangs the entry point's remaining ops are skipped
	skipped := 0
	kindOf := func(op string) string { return strings.SplitN(op, " ", 2)[0] }
	longOp := func(op string) bool {
		return strings.HasPrefix(op, "deep ") || strings.HasPrefix(op, "nest ") || strings.HasPrefix(op, "drift ") ||
			strings.HasPrefix(op, "signs ") || strings.HasPrefix(op, "blank ")
	}
	record := func(i int, res, detail string) {
		op := ops[i]
		kind := kindOf(op)
		impl[i] = res
		switch {
		case res == "DIVERGE":
			hangs[kind]++
			rep.Fail(kind+"-hang", fmt.Sprintf("%s did not return on this input (%s)", kind, detail), []string{op})
		case kind == "drift" && !(strings.HasPrefix(res, "errs=") && strings.Contains(res, " first=jsonx.tooDeep@")):
			// whatever was parsed and closed before, a value nested deeper than the limit must be refused
			rep.Fail("depth-limit-drifts", fmt.Sprintf("after closed objects/lists (siblings or earlier statements on the same "+
				"decoder) a value nested deeper than the limit was not refused with jsonx.tooDeep: %s %s", res, detail), []string{op})
		case kind == "blank" && (res == "panic" || strings.HasPrefix(res, "panic ")):
			// line breaks the semicolon inserter drops must cost no stack
			rep.Fail("blank-line-run-overflows-stack", fmt.Sprintf("a long run of blank lines panicked or killed the process (child stack limit %d MB): %s %s", childMaxStack>>20, res, detail), []string{op})
		case kind == "signs" && (res == "panic" || strings.HasPrefix(res, "panic ")):
			// a run of unary signs is no nesting: it must cost no stack
			rep.Fail("sign-run-overflows-stack", fmt.Sprintf("a long run of unary signs panicked or killed the process: %s %s", res, detail), []string{op})
		case res == "panic" || strings.HasPrefix(res, "panic "):
			key := kind + "-panic"
			if kind == "deep" || kind == "nest" || strings.Contains(detail, "stack overflow") || strings.Contains(detail, "stack exceeds") {
				key = "deep-nesting-stack-overflow"
			}
			rep.Fail(key, fmt.Sprintf("%s panicked or killed the process on this input: %s %s", kind, res, detail), []string{op})
		case res == "harness-error":
			rep.Note("could not run %q: %s", op, detail)
		}
		if k := strings.Index(res, " !oracle:"); k >= 0 {
			name := strings.Fields(res[k+9:])[0]
			key := kind + "-" + name
			desc := "neither a value nor an error: " + res
			if name == "lexer-error-dropped" {
				key = name
				desc = kind + " returned a value although the lexer/parser recorded an error while parsing it (error dropped): " + res
			}
			rep.Fail(key, desc, []string{op})
		}
		if k := strings.Index(res, " !shim:"); k >= 0 {
			rep.Disagree("shim-vs-public-api", op, res, "(public entry point and shim must agree)")
		}
		rep.Count("impl:" + kind + ":" + classOf(res))
	}
	for i := 0; i < len(ops); {
		kind := kindOf(ops[i])
		rep.Case(ops[i], true)
		if hangs[kind] >= hangBudget {
			impl[i] = "skipped"
			skipped++
			i++
			continue
		}
		if longOp(ops[i]) {
			res, detail := run.run(ops[i], false)
			record(i, res, detail)
			i++
			continue
		}
		// a window of consecutive ordinary ops goes to the child in one pipeline
		jn := i
		var idx []int
		var window []string
		for jn < len(ops) && len(window) < 4096 {
			k := kindOf(ops[jn])
			if longOp(ops[jn]) {
				break
			}
			if jn > i {
				rep.Case(ops[jn], true)
			}
			if hangs[k] >= hangBudget {
				impl[jn] = "skipped"
				skipped++
			} else {
				idx = append(idx, jn)
				window = append(window, ops[jn])
			}
			jn++
		}
		for len(window) > 0 {
			j.Risky(window[0])
			res, st, _ := run.batch(window)
			for k, l := range res {
				record(idx[k], l, "")
			}
			if st == "ok" {
				break
			}
			// the first unanswered op hangs or kills: run it alone (with confirmation), then go on behind it
			bad := len(res)
			if bad >= len(window) {
				break
			}
			r2, detail := run.run(window[bad], hangs[kindOf(window[bad])] < 2)
			record(idx[bad], r2, detail)
			window, idx = window[bad+1:], idx[bad+1:]
			// ops of an entry point that exhausted its budget meanwhile are skipped
			var w2 []string
			var i2 []int
			for k, op := range window {
				if hangs[kindOf(op)] >= hangBudget {
					impl[idx[k]] = "skipped"
					skipped++
				} else {
					w2 = append(w2, op)
					i2 = append(i2, idx[k])
				}
			}
			window, idx = w2, i2
		}
		i = jn
	}
	j.Clear()
	run.close()
	if skipped > 0 {
		rep.Note("%d ops skipped after %d hangs of their entry point", skipped, hangBudget)
	}
	rep.Distribution["child_restarts"] = run.restarts

	// ---- model ----
	var mops []string
	var midx []int
	for i, op := range ops {
		if strings.HasPrefix(op, "deep ") || impl[i] == "skipped" || (strings.HasPrefix(op, "drift ") || strings.HasPrefix(op, "signs ") || strings.HasPrefix(op, "blank ")) && opSize(op) > 400000 {
			continue
		}
		mops = append(mops, op)
		midx = append(midx, i)
	}
	model, err := runDriver(f.Driver, mops)
	if err != nil {
		rep.Note("driver failed: %v", err)
		rep.ModelAvailable = false
	} else if model != nil {
		for k, i := range midx {
			a, b := canon(impl[i], model[k])
			if a != b {
				rep.Disagree("parse", ops[i], impl[i], model[k])
			}
			rep.Count("model:" + classOf(model[k]))
		}
		rep.TracesValidated = len(mops)
	}

	// ---- samples ----
	var sampleIdx []int
	for i := 0; i < len(ops); i += 1 + len(ops)/9 {
		sampleIdx = append(sampleIdx, i)
	}
	sort.Ints(sampleIdx)
	for _, i := range sampleIdx {
		rep.Sample(map[string]string{"op": ops[i], "impl": impl[i]})
	}
	rep.Exhaustive = f.Thorough()
	rep.Write(f.Out)
}
